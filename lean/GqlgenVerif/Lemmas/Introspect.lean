import GqlgenVerif.Model.Introspect
/-! Helper lemmas for C16: element-wise round trips `rebuildX (introX s x) = normX x`. -/
namespace GqlgenVerif.Introspect
open GqlgenVerif

theorem map_map_eq {α β γ} {f : α → β} {g : β → γ} {k : α → γ} :
    ∀ {l : List α}, (∀ x ∈ l, g (f x) = k x) → (l.map f).map g = l.map k
  | [], _ => rfl
  | x :: xs, h => by
    simp only [List.map_cons]
    rw [h x (by simp), map_map_eq (l := xs) (fun y hy => h y (by simp [hy]))]

theorem map_map_id {α β} {f : α → β} {g : β → α} {l : List α} (h : ∀ x ∈ l, g (f x) = x) :
    (l.map f).map g = l := by
  rw [map_map_eq (k := id) h]; simp

@[simp] theorem descr_getD (s : String) : (descr s).getD "" = s := by
  unfold descr; split <;> simp_all

@[simp] theorem rebuildDep_value (d : Dep) : rebuildDep d.isSome (valueReason d) = d := by
  cases d <;> simp [rebuildDep, valueReason]

@[simp] theorem rebuildDep_field (d : Dep) : rebuildDep d.isSome (fieldReason d) = normDep d := by
  match d with
  | none => simp [rebuildDep, normDep]
  | some none => simp [rebuildDep, fieldReason, normDep]
  | some (some r) => simp [rebuildDep, fieldReason, normDep]

theorem lookup_name {s : Schema} {n : String} {d : TypeDef} (h : s.lookup n = some d) : d.name = n := by
  unfold Schema.lookup at h
  have := List.find?_some h
  simpa using this

theorem wrapNamed_of_resolves {s : Schema} {n : String} (h : (s.lookup n).isSome = true) :
    ∃ k, wrapNamed s n = .named k n := by
  unfold wrapNamed
  cases hl : s.lookup n with
  | none => simp [hl] at h
  | some d => exact ⟨d.kind, by simp [lookup_name hl]⟩

/-- a type reference survives `WrapTypeFromType` / `kind name ofType` / unwrapping -/
theorem unwrap_wrap (s : Schema) : ∀ t : TRef, TRef.resolves s t = true → unwrapType (wrapType s t) = t
  | .named n nn, h => by
    obtain ⟨k, hk⟩ := wrapNamed_of_resolves (s := s) (n := n) (by simpa [TRef.resolves] using h)
    cases nn <;> simp [wrapType, hk, unwrapType]
  | .list e nn, h => by
    have ih := unwrap_wrap s e (by simpa [TRef.resolves] using h)
    cases nn <;> simp [wrapType, unwrapType, ih]

theorem rebuildArg_introArg (s : Schema) (a : ArgDef) (h : argWF s a = true) :
    rebuildArg (introArg s a) = a := by
  cases a
  simp_all [rebuildArg, introArg, argWF, unwrap_wrap]

theorem rebuildArgs (s : Schema) (l : List ArgDef) (h : l.all (argWF s) = true) :
    (l.map (introArg s)).map rebuildArg = l :=
  map_map_id fun a ha => rebuildArg_introArg s a (List.all_eq_true.mp h a ha)

theorem rebuildField_introField (s : Schema) (k : Kind) (f : FieldDef) (hk : isFieldsKind k = true)
    (h : fieldWF s k f = true) : rebuildField (introField s f) = normField f := by
  simp only [fieldWF, hk, if_true, Bool.and_eq_true] at h
  obtain ⟨⟨ht, ha⟩, hd⟩ := h
  have hargs := rebuildArgs s f.args ha
  cases f
  simp_all [rebuildField, introField, normField, unwrap_wrap]

theorem rebuildInputField_introInputField (s : Schema) (k : Kind) (f : FieldDef)
    (hk : isFieldsKind k = false) (h : fieldWF s k f = true) :
    rebuildInputField (introInputField s f) = f := by
  simp only [fieldWF, hk, Bool.false_eq_true, if_false, Bool.and_eq_true] at h
  obtain ⟨⟨ht, _⟩, he⟩ := h
  cases f
  simp_all [rebuildInputField, introInputField, unwrap_wrap]

theorem rebuildEnumValue_intro (v : EnumVal) : rebuildEnumValue (introEnumValue v) = v := by
  cases v; simp [rebuildEnumValue, introEnumValue]

theorem interfaces_roundtrip (s : Schema) (l : List String)
    (h : l.all (fun i => (s.lookup i).isSome) = true) :
    (l.map (wrapNamed s)).any ITypeRef.isNil = false ∧ (l.map (wrapNamed s)).map refName = l := by
  constructor
  · rw [List.any_eq_false]
    intro x hx
    obtain ⟨n, hn, rfl⟩ := List.mem_map.mp hx
    obtain ⟨k, hk⟩ := wrapNamed_of_resolves (List.all_eq_true.mp h n hn)
    simp [hk, ITypeRef.isNil]
  · apply map_map_id
    intro n hn
    obtain ⟨k, hk⟩ := wrapNamed_of_resolves (List.all_eq_true.mp h n hn)
    simp [hk, refName]

theorem possible_roundtrip (l : List (String × Kind)) :
    (l.map fun p => ITypeRef.named p.2 p.1).map refPair = l :=
  map_map_id fun p _ => by simp [refPair]

theorem filter_true {α} (l : List α) : (l.filter fun _ => true) = l := by simp

theorem fields_roundtrip (s : Schema) (d : TypeDef) (hk : isFieldsKind d.kind = true)
    (h : d.fields.all (fieldWF s d.kind) = true) :
    (introFields s true d).map rebuildField = (d.fields.filter (!isMeta ·)).map normField := by
  unfold introFields
  simp only [hk, Bool.not_true, Bool.false_eq_true, if_false, Bool.true_or, Bool.and_true]
  apply map_map_eq
  intro f hf
  exact rebuildField_introField s d.kind f hk (List.all_eq_true.mp h f (List.mem_filter.mp hf).1)

theorem inputFields_roundtrip (s : Schema) (d : TypeDef) (hk : isFieldsKind d.kind = false)
    (h : d.fields.all (fieldWF s d.kind) = true) :
    (d.fields.map (introInputField s)).map rebuildInputField = d.fields :=
  map_map_id fun f hf => rebuildInputField_introInputField s d.kind f hk (List.all_eq_true.mp h f hf)

theorem enumValues_roundtrip (l : List EnumVal) :
    ((l.filter fun v => true || v.dep.isNone).map introEnumValue).map rebuildEnumValue = l := by
  have hfl : (l.filter fun v => true || v.dep.isNone) = l := by simp
  rw [hfl]
  exact map_map_id fun v _ => rebuildEnumValue_intro v

theorem introInterfaces_roundtrip (s : Schema) (d : TypeDef)
    (h : d.interfaces.all (fun i => (s.lookup i).isSome) = true) :
    (introInterfaces s d).map refName = if isFieldsKind d.kind then d.interfaces else [] := by
  have hir := interfaces_roundtrip s d.interfaces h
  unfold introInterfaces
  cases isFieldsKind d.kind
  · simp
  · simp only [Bool.not_true, Bool.false_eq_true, if_false, hir.1, if_true]
    exact hir.2

/-- one type definition: what `WrapTypeFromDef` answers rebuilds to its normal form -/
theorem rebuildType_introType (s : Schema) (d : TypeDef) (h : typeWF s d = true) :
    rebuildType (introType s d) = normType d := by
  simp only [typeWF, Bool.and_eq_true, Bool.or_eq_true] at h
  obtain ⟨⟨⟨⟨⟨⟨hf, hfk⟩, hik⟩, hil⟩, hek⟩, hsk⟩, hok⟩ := h
  have hir := introInterfaces_roundtrip s d hil
  have hpr := possible_roundtrip d.possible
  have her := enumValues_roundtrip d.enumValues
  obtain ⟨name, kind, description, fields, interfaces, possible, enumValues, specifiedBy, oneOf⟩ := d
  cases kind
  case object =>
    have hfr := fields_roundtrip s ⟨name, .object, description, fields, interfaces, possible, enumValues, specifiedBy, oneOf⟩ rfl hf
    simp_all [rebuildType, introType, normType, isFieldsKind, isAbstract, introInputFields,
      introPossible, introEnumValues]
  case interface =>
    have hfr := fields_roundtrip s ⟨name, .interface, description, fields, interfaces, possible, enumValues, specifiedBy, oneOf⟩ rfl hf
    simp_all [rebuildType, introType, normType, isFieldsKind, isAbstract, introInputFields,
      introPossible, introEnumValues]
  case inputObject =>
    have hfr := inputFields_roundtrip s ⟨name, .inputObject, description, fields, interfaces, possible, enumValues, specifiedBy, oneOf⟩ rfl hf
    simp_all [rebuildType, introType, normType, isFieldsKind, isAbstract, introFields, introInputFields,
      introPossible, introEnumValues]
  case scalar =>
    simp_all [rebuildType, introType, normType, isFieldsKind, isAbstract, introFields, introInputFields,
      introPossible, introEnumValues]
  case union =>
    simp_all [rebuildType, introType, normType, isFieldsKind, isAbstract, introFields, introInputFields,
      introPossible, introEnumValues]
  case enum =>
    simp_all [rebuildType, introType, normType, isFieldsKind, isAbstract, introFields, introInputFields,
      introPossible, introEnumValues]

theorem rebuildDirective_introDirective (s : Schema) (d : DirDef) (h : dirWF s d = true) :
    rebuildDirective (introDirective s d) = d := by
  have := rebuildArgs s d.args h
  cases d
  simp_all [rebuildDirective, introDirective]

/-! sorting only permutes -/
theorem insertOn_perm {α} (key : α → String) (x : α) : ∀ l : List α, (insertOn key x l).Perm (x :: l)
  | [] => List.Perm.refl _
  | y :: ys => by
    unfold insertOn
    split
    · exact List.Perm.refl _
    · exact ((insertOn_perm key x ys).cons y).trans (List.Perm.swap x y ys)

theorem sortOn_perm {α} (key : α → String) : ∀ l : List α, (sortOn key l).Perm l
  | [] => List.Perm.refl _
  | x :: xs => by
    unfold sortOn
    exact (insertOn_perm key x _).trans ((sortOn_perm key xs).cons x)

theorem mem_sortOn {α} (key : α → String) (l : List α) (x : α) : x ∈ sortOn key l ↔ x ∈ l :=
  (sortOn_perm key l).mem_iff

theorem insertOn_sorted {α} (key : α → String) (x : α) :
    ∀ l : List α, l.Pairwise (fun a b => key a ≤ key b) → (insertOn key x l).Pairwise (fun a b => key a ≤ key b)
  | [], _ => by simp [insertOn]
  | y :: ys, h => by
    unfold insertOn
    have hy := List.pairwise_cons.mp h
    split
    · rename_i hxy
      refine List.pairwise_cons.mpr ⟨?_, h⟩
      intro z hz
      rcases List.mem_cons.mp hz with rfl | hz
      · exact hxy
      · exact String.le_trans hxy (hy.1 z hz)
    · rename_i hxy
      have hyx : key y ≤ key x := by
        rcases String.le_total (key x) (key y) with h1 | h1
        · exact absurd h1 hxy
        · exact h1
      refine List.pairwise_cons.mpr ⟨?_, insertOn_sorted key x ys hy.2⟩
      intro z hz
      rcases List.mem_cons.mp ((insertOn_perm key x ys).mem_iff.mp hz) with rfl | hz
      · exact hyx
      · exact hy.1 z hz

theorem sortOn_sorted {α} (key : α → String) :
    ∀ l : List α, (sortOn key l).Pairwise (fun a b => key a ≤ key b)
  | [] => by simp [sortOn]
  | x :: xs => by
    unfold sortOn
    exact insertOn_sorted key x _ (sortOn_sorted key xs)

end GqlgenVerif.Introspect
