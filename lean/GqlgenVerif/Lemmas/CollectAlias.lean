import GqlgenVerif.Model.CollectAlias
/-! Helper lemmas for `Model/CollectAlias.lean` (C07): Go's `append` onto a slice a request owns never touches an
array of another owner; invariants of the interleaved run. -/
namespace GqlgenVerif.CollectAlias

/-- the slice header is valid and its array was allocated by request `me` after the document (`n0` arrays) -/
def Owned (n0 me : Nat) (h : Heap) (s : Slice) : Prop :=
  n0 ≤ s.arr ∧ ∃ a, h[s.arr]? = some a ∧ a.owner = me + 1 ∧ s.cap = a.cells.length ∧ s.len ≤ s.cap

/-- nothing that belongs to somebody else changed, nothing was freed -/
def Frame (me : Nat) (h h' : Heap) : Prop :=
  h.length ≤ h'.length ∧ ∀ (a : Nat) (x : Arr), h[a]? = some x → x.owner ≠ me + 1 → h'[a]? = some x

theorem cellsAt_of {h : Heap} {a : Nat} {x : Arr} (hx : h[a]? = some x) : cellsAt h a = x.cells := by
  simp [cellsAt, hx]

theorem lt_of_get {α} {l : List α} {k : Nat} {a : α} (h : l[k]? = some a) : k < l.length := by
  rcases Nat.lt_or_ge k l.length with h' | h'
  · exact h'
  · rw [List.getElem?_eq_none h'] at h; cases h

theorem take_writeAt (cs xs : List Cell) (pos : Nat) (hp : pos ≤ cs.length) :
    (writeAt cs pos xs).take (pos + xs.length) = cs.take pos ++ xs := by
  unfold writeAt
  have hl : (cs.take pos ++ xs).length = pos + xs.length := by
    rw [List.length_append, List.length_take, Nat.min_eq_left hp]
  exact List.take_left' hl

theorem length_writeAt (cs xs : List Cell) (pos : Nat) (hp : pos + xs.length ≤ cs.length) :
    (writeAt cs pos xs).length = cs.length := by
  unfold writeAt
  simp only [List.length_append, List.length_take, List.length_drop]
  omega

theorem take_replicate_tail (xs : List Cell) (n : Nat) :
    (xs ++ List.replicate n 0).take xs.length = xs := List.take_left' rfl

theorem goAppend_spec (grow : Nat → Nat) (n0 me : Nat) (h : Heap) (acc : Option Slice) (xs : List Cell)
    (hn : n0 ≤ h.length) (hacc : ∀ s, acc = some s → Owned n0 me h s) :
    readS (goAppend grow me h acc xs).1 (goAppend grow me h acc xs).2 = readS h acc ++ xs ∧
    (∀ s', (goAppend grow me h acc xs).2 = some s' → Owned n0 me (goAppend grow me h acc xs).1 s') ∧
    Frame me h (goAppend grow me h acc xs).1 := by
  cases acc with
  | none =>
    by_cases hx : xs = []
    · have hg : goAppend grow me h none xs = (h, none) := by simp [goAppend, hx]
      rw [hg]
      refine ⟨?_, ?_, ?_⟩
      · simp [readS, hx]
      · intro s' hs; cases hs
      · exact ⟨Nat.le_refl _, fun a x hx _ => hx⟩
    · have hg : goAppend grow me h none xs =
          (h ++ [⟨me + 1, xs ++ List.replicate (grow xs.length) 0⟩], some ⟨h.length, xs.length, xs.length + grow xs.length⟩) := by
        simp [goAppend, hx]
      rw [hg]
      refine ⟨?_, ?_, ?_⟩
      · simp only [readS, cellsAt, List.getElem?_concat_length, Option.map_some, Option.getD_some, List.nil_append]
        exact take_replicate_tail xs _
      · intro s' hs
        simp only [Option.some.injEq] at hs
        subst hs
        exact ⟨hn, _, List.getElem?_concat_length, rfl, by simp, Nat.le_add_right _ _⟩
      · refine ⟨by simp, ?_⟩
        intro a x hx _
        rw [List.getElem?_append_left (lt_of_get hx)]; exact hx
  | some s =>
    obtain ⟨hge, a, ha, hown, hcap, hlen⟩ := hacc s rfl
    by_cases hfit : s.len + xs.length ≤ s.cap
    · have hlt := lt_of_get ha
      have hg : goAppend grow me h (some s) xs =
          (h.set s.arr { a with cells := writeAt a.cells s.len xs }, some { s with len := s.len + xs.length }) := by
        simp [goAppend, hfit, setCells, ha, cellsAt_of ha]
      rw [hg]
      have hnew : (h.set s.arr { a with cells := writeAt a.cells s.len xs })[s.arr]? =
          some { a with cells := writeAt a.cells s.len xs } := List.getElem?_set_self hlt
      refine ⟨?_, ?_, ?_⟩
      · simp only [readS, cellsAt, hnew, ha, Option.map_some, Option.getD_some]
        exact take_writeAt a.cells xs s.len (by omega)
      · intro s' hs
        simp only [Option.some.injEq] at hs
        subst hs
        refine ⟨hge, _, hnew, hown, ?_, hfit⟩
        show s.cap = (writeAt a.cells s.len xs).length
        rw [length_writeAt _ _ _ (by omega)]; exact hcap
      · refine ⟨by simp, ?_⟩
        intro b x hx hne
        by_cases hb : s.arr = b
        · subst hb; rw [ha] at hx; cases hx; exact absurd hown hne
        · rw [List.getElem?_set_ne hb]; exact hx
    · have hg : goAppend grow me h (some s) xs =
          (h ++ [⟨me + 1, (readS h (some s) ++ xs) ++ List.replicate (grow (readS h (some s) ++ xs).length) 0⟩],
            some ⟨h.length, (readS h (some s) ++ xs).length, (readS h (some s) ++ xs).length + grow (readS h (some s) ++ xs).length⟩) := by
        simp [goAppend, hfit]
      rw [hg]
      refine ⟨?_, ?_, ?_⟩
      · simp only [readS, cellsAt, List.getElem?_concat_length, Option.map_some, Option.getD_some]
        exact take_replicate_tail _ _
      · intro s' hs
        simp only [Option.some.injEq] at hs
        subst hs
        exact ⟨Nat.le_trans hge (Nat.le_of_lt (lt_of_get ha)), _, List.getElem?_concat_length, rfl, by simp; omega, Nat.le_add_right _ _⟩
      · refine ⟨by simp, ?_⟩
        intro b x hx _
        rw [List.getElem?_append_left (lt_of_get hx)]; exact hx

/-! ## invariants of the interleaved run, for the arm as it is: start empty, append every occurrence -/

/-- the document part of the heap is what it was, spare capacity included -/
structure HInv (h0 h : Heap) : Prop where
  le : h0.length ≤ h.length
  same : ∀ a, a < h0.length → h[a]? = h0[a]?

/-- request `i`, entitled to `W` -/
structure TInv (h0 h : Heap) (W : List Cell) (i : Nat) (t : Thread) : Prop where
  notCreated : t.created = false → t.acc = none
  own : ∀ s, t.acc = some s → Owned h0.length i h s
  doc : ∀ s, s ∈ t.todo → docSlice h0 s
  got : readS h t.acc ++ want h0 t.todo = W

def DocOwned (h0 : Heap) : Prop := ∀ (a : Nat) (x : Arr), h0[a]? = some x → x.owner = 0

theorem readS_doc {h0 h : Heap} (hi : HInv h0 h) {s : Slice} (hs : docSlice h0 s) :
    readS h (some s) = readS h0 (some s) := by
  simp only [readS, cellsAt, hi.same s.arr hs]

theorem hinv_frame {h0 h h' : Heap} {me : Nat} (hd : DocOwned h0) (hi : HInv h0 h) (hf : Frame me h h') : HInv h0 h' := by
  refine ⟨Nat.le_trans hi.le hf.1, ?_⟩
  intro a ha
  have h1 := hi.same a ha
  obtain ⟨x, hx⟩ : ∃ x, h0[a]? = some x := ⟨h0[a], List.getElem?_eq_getElem ha⟩
  rw [hx] at h1
  rw [hf.2 a x h1 (by rw [hd a x hx]; omega), hx]

theorem readS_frame {n0 me j : Nat} {h h' : Heap} (hf : Frame me h h') (hne : j ≠ me) {acc : Option Slice}
    (hown : ∀ s, acc = some s → Owned n0 j h s) :
    readS h' acc = readS h acc ∧ ∀ s, acc = some s → Owned n0 j h' s := by
  cases acc with
  | none => exact ⟨rfl, by intro s hs; cases hs⟩
  | some s =>
    obtain ⟨hge, a, ha, ho, hc, hl⟩ := hown s rfl
    have ha' : h'[s.arr]? = some a := hf.2 s.arr a ha (by rw [ho]; omega)
    refine ⟨by simp only [readS, cellsAt, ha, ha'], ?_⟩
    intro s' hs; cases hs
    exact ⟨hge, a, ha', ho, hc, hl⟩

theorem tinv_frame {h0 h h' : Heap} {W : List Cell} {me j : Nat} {t : Thread} (hf : Frame me h h') (hne : j ≠ me)
    (ht : TInv h0 h W j t) : TInv h0 h' W j t := by
  obtain ⟨hr, ho⟩ := readS_frame hf hne ht.own
  exact ⟨ht.notCreated, ho, ht.doc, by rw [hr]; exact ht.got⟩

theorem want_cons (h0 : Heap) (s : Slice) (rest : List Slice) :
    want h0 (s :: rest) = readS h0 (some s) ++ want h0 rest := by
  simp [want]

/-- one step of request `i` with the arm as it is -/
theorem stepT_inv (grow : Nat → Nat) (h0 h : Heap) (W : List Cell) (i : Nat) (t : Thread)
    (hi : HInv h0 h) (ht : TInv h0 h W i t) :
    TInv h0 (stepT ⟨.absent, true⟩ grow i h t).1 W i (stepT ⟨.absent, true⟩ grow i h t).2 ∧
    Frame i h (stepT ⟨.absent, true⟩ grow i h t).1 := by
  unfold stepT
  cases htodo : t.todo with
  | nil => exact ⟨ht, Nat.le_refl _, fun a x hx _ => hx⟩
  | cons src rest =>
    simp only [Bool.or_true, if_true]
    have hsrc : docSlice h0 src := ht.doc src (by rw [htodo]; exact List.mem_cons_self ..)
    have hacc0 : (if t.created then t.acc else (none : Option Slice)) = t.acc := by
      cases hc : t.created
      · simp [ht.notCreated hc]
      · simp
    simp only [hacc0]
    obtain ⟨hread, hown, hframe⟩ := goAppend_spec grow h0.length i h t.acc (readS h (some src)) hi.le ht.own
    refine ⟨⟨(by intro hc; cases hc), hown, ?_, ?_⟩, hframe⟩
    · intro s hs; exact ht.doc s (by rw [htodo]; exact List.mem_cons_of_mem _ hs)
    · simp only
      rw [hread, readS_doc hi hsrc, List.append_assoc, ← want_cons, ← htodo]
      exact ht.got

structure WInv (h0 : Heap) (Ws : Nat → List Cell) (w : World) : Prop where
  heap : HInv h0 w.heap
  thr : ∀ i, TInv h0 w.heap (Ws i) i (w.ts i)

theorem stepW_inv (grow : Nat → Nat) (h0 : Heap) (hd : DocOwned h0) (Ws : Nat → List Cell) (w : World) (i : Nat)
    (hw : WInv h0 Ws w) : WInv h0 Ws (stepW ⟨.absent, true⟩ grow w i) := by
  obtain ⟨ht, hf⟩ := stepT_inv grow h0 w.heap (Ws i) i (w.ts i) hw.heap (hw.thr i)
  refine ⟨hinv_frame hd hw.heap hf, ?_⟩
  intro j
  simp only [stepW, upd]
  by_cases hj : j = i
  · subst hj; simpa using ht
  · simp only [hj, if_false]
    exact tinv_frame hf hj (hw.thr j)

theorem runW_inv (grow : Nat → Nat) (h0 : Heap) (hd : DocOwned h0) (Ws : Nat → List Cell) (sched : List Nat) :
    ∀ w, WInv h0 Ws w → WInv h0 Ws (runW ⟨.absent, true⟩ grow w sched) := by
  induction sched with
  | nil => intro w hw; exact hw
  | cons i rest ih => intro w hw; exact ih _ (stepW_inv grow h0 hd Ws w i hw)

end GqlgenVerif.CollectAlias
