import GqlgenVerif.Model.ErrHeap
/-! Helper lemmas for the error-heap model (C07): with a recover func that allocates, every error object is
annotated once, by the request that made it, and no older object is ever written. -/
namespace GqlgenVerif.ErrHeap

/-- a guard under which `ErrorOnPath` fills in a path that is still missing -/
def Guard.fills : Guard → Bool
  | .ifNil | .always => true
  | .other => false

theorem own_append (r : Nat) (b : List Ev) (e : Ev) :
    own r (b ++ [e]) = own r b ++ own r [e] := by
  induction b with
  | nil => simp [own]
  | cons x xs ih =>
    cases x with
    | fieldPanic r' p =>
      by_cases h : (r' == r) = true
      · simp [own, h, ih]
      · simp [own, h, ih]
    | serverPanic r' => simpa [own] using ih
    | respond r' => simpa [own] using ih

theorem errorOnPath_new (g : Guard) (hg : g.fills = true) (h : Heap) (m : String) (p : Path) :
    errorOnPath g h.length p (h ++ [⟨m, []⟩]) = h ++ [⟨m, p⟩] := by
  cases g with
  | ifNil => simp [errorOnPath]
  | always => simp [errorOnPath]
  | other => simp [Guard.fills] at hg

theorem pathAt_append_left (h t : Heap) (a : Nat) (ha : a < h.length) : pathAt (h ++ t) a = pathAt h a := by
  simp [pathAt, List.getElem?_append_left ha]

theorem pathAt_new (h : Heap) (m : String) (p : Path) : pathAt (h ++ [⟨m, p⟩]) h.length = p := by
  simp [pathAt]

/-- what holds between events when the recover func allocates -/
structure Inv (st : St) (before : List Ev) : Prop where
  bound : ∀ x ∈ st.held, x.2 < st.heap.length
  mine : ∀ r, pathsOf st r = own r before

theorem pathsOf_append_heap (st : St) (t : Heap) (r : Nat) (hb : ∀ x ∈ st.held, x.2 < st.heap.length) :
    pathsOf ⟨st.heap ++ t, st.held⟩ r = pathsOf st r := by
  simp only [pathsOf]
  apply List.map_congr_left
  intro x hx
  exact pathAt_append_left _ _ _ (hb x (List.mem_filter.mp hx).1)

theorem inv_init (c : String) : Inv (init (.fresh c)) [] :=
  ⟨by simp [init], by intro r; simp [init, pathsOf, own]⟩

theorem inv_fieldPanic (c : String) (g : Guard) (hg : g.fills = true) (st : St) (before : List Ev) (r : Nat) (p : Path)
    (hi : Inv st before) : Inv (step (.fresh c) g st (.fieldPanic r p)).1 (before ++ [.fieldPanic r p]) := by
  simp only [step, recoverOnce, errorOnPath_new g hg]
  constructor
  · intro x hx
    rcases List.mem_append.mp hx with hx | hx
    · have := hi.bound x hx
      simp only [List.length_append, List.length_cons, List.length_nil]; omega
    · simp only [List.mem_singleton] at hx
      subst hx
      simp
  · intro r'
    rw [own_append, ← hi.mine r']
    have hold : pathsOf ⟨st.heap ++ [⟨msg0, p⟩], st.held⟩ r' = pathsOf st r' :=
      pathsOf_append_heap st _ r' hi.bound
    simp only [pathsOf] at hold ⊢
    rw [List.filter_append, List.map_append, hold]
    congr 1
    by_cases h : (r == r') = true
    · simp [own, h, pathAt_new]
    · simp [own, h]

theorem inv_serverPanic (c : String) (g : Guard) (st : St) (before : List Ev) (r : Nat)
    (hi : Inv st before) : Inv (step (.fresh c) g st (.serverPanic r)).1 (before ++ [.serverPanic r]) := by
  simp only [step, recoverOnce]
  constructor
  · intro x hx
    have := hi.bound x hx
    simp only [List.length_append, List.length_cons, List.length_nil]; omega
  · intro r'
    rw [own_append, ← hi.mine r']
    have := pathsOf_append_heap st [⟨msg0, []⟩] r' hi.bound
    simpa [own] using this

theorem inv_respond (st : St) (before : List Ev) (r : Nat) (hi : Inv st before) : Inv st (before ++ [.respond r]) :=
  ⟨hi.bound, by intro r'; rw [own_append, ← hi.mine r']; simp [own]⟩

theorem runFrom_fresh (c : String) (g : Guard) (hg : g.fills = true) (evs : List Ev) :
    ∀ (st : St) (before : List Ev), Inv st before → runFrom (.fresh c) g st evs = specFrom before evs := by
  induction evs with
  | nil => intro st before _; simp [runFrom, specFrom]
  | cons e es ih =>
    intro st before hi
    cases e with
    | fieldPanic r p =>
      have := ih _ _ (inv_fieldPanic c g hg st before r p hi)
      simp only [runFrom, specFrom, this]
      simp [step]
    | serverPanic r =>
      have := ih _ _ (inv_serverPanic c g st before r hi)
      simp only [runFrom, specFrom, this]
      simp [step, recoverOnce, pathAt]
    | respond r =>
      have := ih _ _ (inv_respond st before r hi)
      simp only [runFrom, specFrom]
      simp only [step] at this ⊢
      rw [this, hi.mine r]
      simp

/-- the last response of a history that ends with the response of `r` lists `r`'s own failures -/
theorem specFrom_getLast (r : Nat) (b : List Ev) :
    ∀ a : List Ev, (specFrom a (b ++ [.respond r])).getLast? = some (r, own r (a ++ b)) := by
  induction b with
  | nil => intro a; simp [specFrom]
  | cons e es ih =>
    intro a
    cases e with
    | fieldPanic r' p =>
      have := ih (a ++ [.fieldPanic r' p])
      simpa [specFrom, List.append_assoc] using this
    | serverPanic r' =>
      have := ih (a ++ [.serverPanic r'])
      have hne : specFrom (a ++ [.serverPanic r']) (es ++ [.respond r]) ≠ [] := by
        intro hnil; rw [hnil] at this; simp at this
      simp only [List.cons_append, specFrom]
      rw [List.getLast?_cons_of_ne_nil hne, this]
      simp [List.append_assoc]
    | respond r' =>
      have := ih (a ++ [.respond r'])
      have hne : specFrom (a ++ [.respond r']) (es ++ [.respond r]) ≠ [] := by
        intro hnil; rw [hnil] at this; simp at this
      simp only [List.cons_append, specFrom]
      rw [List.getLast?_cons_of_ne_nil hne, this]
      simp [List.append_assoc]

end GqlgenVerif.ErrHeap
