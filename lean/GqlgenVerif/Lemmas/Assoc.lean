/-! Generic association lists keyed through a key function, insertion order preserved, payloads
    concatenated - and the theorem that merging an already grouped batch equals merging its members one
    by one (used for field collection: nested fragments are grouped first, then merged). -/
namespace GqlgenVerif.Assoc
variable {K α : Type} (κ : K → String)

abbrev E (K α : Type) := K × List α

def slot (l : List (E K α)) (k : K) : Option Nat := l.findIdx? (fun e => κ e.1 == κ k)

def add (l : List (E K α)) (k : K) (p : List α) : List (E K α) :=
  match slot κ l k with
  | some i => l.modify i (fun e => (e.1, e.2 ++ p))
  | none => l ++ [(k, p)]

def addAll (l : List (E K α)) (es : List (E K α)) : List (E K α) :=
  es.foldl (fun a e => add κ a e.1 e.2) l

def keys (l : List (E K α)) : List String := l.map (fun e => κ e.1)

theorem keys_modify (l : List (E K α)) (i : Nat) (p : List α) :
    keys κ (l.modify i (fun e => (e.1, e.2 ++ p))) = keys κ l := by
  induction l generalizing i with
  | nil => simp [keys]
  | cons h t ih =>
    cases i with
    | zero => simp [keys]
    | succ j => simp only [List.modify_succ_cons, keys, List.map_cons] at *; rw [ih]

theorem slot_eq_of_keys (l l' : List (E K α)) (k : K) (h : keys κ l = keys κ l') :
    slot κ l k = slot κ l' k := by
  unfold slot
  induction l generalizing l' with
  | nil => cases l' with
    | nil => rfl
    | cons _ _ => simp [keys] at h
  | cons a t ih =>
    cases l' with
    | nil => simp [keys] at h
    | cons b t' =>
      simp only [keys, List.map_cons, List.cons.injEq] at h
      simp only [List.findIdx?_cons, h.1]
      rw [ih t' h.2]

theorem slot_modify (l : List (E K α)) (i : Nat) (p : List α) (k : K) :
    slot κ (l.modify i (fun e => (e.1, e.2 ++ p))) k = slot κ l k :=
  slot_eq_of_keys κ _ _ k (keys_modify κ l i p)

theorem slot_lt (l : List (E K α)) (k : K) (i : Nat) (h : slot κ l k = some i) : i < l.length := by
  unfold slot at h
  exact (List.findIdx?_eq_some_iff_getElem.mp h).1

theorem slot_none_iff (l : List (E K α)) (k : K) : slot κ l k = none ↔ ∀ e ∈ l, κ e.1 ≠ κ k := by
  unfold slot
  simp [List.findIdx?_eq_none_iff]


theorem slot_append_some (l : List (E K α)) (x : E K α) (k : K) (i : Nat) (h : slot κ l k = some i) :
    slot κ (l ++ [x]) k = some i := by
  unfold slot at *
  rw [List.findIdx?_append, h]; rfl

theorem slot_append_none (l : List (E K α)) (x : E K α) (k : K) (h : slot κ l k = none) :
    slot κ (l ++ [x]) k = if κ x.1 == κ k then some l.length else none := by
  unfold slot at *
  rw [List.findIdx?_append, h]
  simp [List.findIdx?_cons]

theorem modify_append_lt (l : List (E K α)) (x : E K α) (i : Nat) (f : E K α → E K α) (h : i < l.length) :
    (l ++ [x]).modify i f = l.modify i f ++ [x] := by
  induction l generalizing i with
  | nil => simp at h
  | cons a t ih =>
    cases i with
    | zero => simp
    | succ j => simp only [List.cons_append, List.modify_succ_cons]; rw [ih j (by simpa using h)]

theorem modify_append_len (l : List (E K α)) (x : E K α) (f : E K α → E K α) :
    (l ++ [x]).modify l.length f = l ++ [f x] := by
  induction l with
  | nil => simp
  | cons a t ih => simp only [List.cons_append, List.length_cons, List.modify_succ_cons]; rw [ih]

theorem modify_comm (l : List (E K α)) (i j : Nat) (f g : E K α → E K α) (h : i ≠ j) :
    (l.modify i f).modify j g = (l.modify j g).modify i f := by
  induction l generalizing i j with
  | nil => simp
  | cons a t ih =>
    cases i <;> cases j <;> simp_all

theorem modify_modify_same (l : List (E K α)) (i : Nat) (p q : List α) :
    (l.modify i (fun e => (e.1, e.2 ++ p))).modify i (fun e => (e.1, e.2 ++ q)) =
      l.modify i (fun e => (e.1, e.2 ++ (p ++ q))) := by
  induction l generalizing i with
  | nil => simp
  | cons a t ih =>
    cases i with
    | zero => simp [List.append_assoc]
    | succ j => simp only [List.modify_succ_cons]; rw [ih]

/-- S1: adding `p₁ ++ p₂` under a key = adding `p₁` then `p₂` under an equivalent key -/
theorem add_append (l : List (E K α)) (k k' : K) (p q : List α) (hk : κ k = κ k') :
    add κ l k (p ++ q) = add κ (add κ l k p) k' q := by
  unfold add
  cases hs : slot κ l k with
  | some i =>
    simp only []
    have : slot κ (l.modify i fun e => (e.1, e.2 ++ p)) k' = some i := by
      rw [slot_modify]; unfold slot at *; rw [← hk]; exact hs
    rw [this]; simp only []
    rw [modify_modify_same]
  | none =>
    simp only []
    have h2 : slot κ (l ++ [(k, p)]) k' = some l.length := by
      have hn : slot κ l k' = none := by unfold slot at *; rw [← hk]; exact hs
      rw [slot_append_none κ l _ k' hn]; simp [hk]
    rw [h2]; simp only []
    rw [modify_append_len]

/-- S3: an add at a present key commutes with an add at a different key -/
theorem add_comm_present (a : List (E K α)) (k k' : K) (p p' : List α) (j : Nat)
    (hj : slot κ a k = some j) (hne : κ k' ≠ κ k) :
    add κ (add κ a k p) k' p' = add κ (add κ a k' p') k p := by
  have hjl := slot_lt κ a k j hj
  unfold add
  rw [hj]; simp only []
  rw [slot_modify]
  cases hs' : slot κ a k' with
  | some j' =>
    simp only []
    rw [slot_modify, hj]; simp only []
    have hjj : j ≠ j' := by
      intro e; subst e
      unfold slot at hj hs'
      have h1 := (List.findIdx?_eq_some_iff_getElem.mp hj).2.1
      have h2 := (List.findIdx?_eq_some_iff_getElem.mp hs').2.1
      simp at h1 h2
      exact hne (h2.symm.trans h1)
    exact modify_comm a j j' _ _ hjj
  | none =>
    simp only []
    rw [slot_append_some κ a _ k j hj]; simp only []
    rw [modify_append_lt a _ j _ hjl]


theorem slot_add_present (a : List (E K α)) (k k' : K) (p' : List α) (j : Nat) (hj : slot κ a k = some j) :
    slot κ (add κ a k' p') k = some j := by
  unfold add
  cases slot κ a k' with
  | some i => simp only []; rw [slot_modify]; exact hj
  | none => simp only []; exact slot_append_some κ a _ k j hj

/-- S2: an add at a present key commutes with a batch of adds at other keys -/
theorem addAll_add_comm (g : List (E K α)) (a : List (E K α)) (k : K) (p : List α) (j : Nat)
    (hj : slot κ a k = some j) (hg : ∀ e ∈ g, κ e.1 ≠ κ k) :
    addAll κ (add κ a k p) g = add κ (addAll κ a g) k p := by
  induction g generalizing a with
  | nil => rfl
  | cons e t ih =>
    simp only [addAll, List.foldl_cons]
    rw [add_comm_present κ a k e.1 p e.2 j hj (hg e (by simp))]
    exact ih (add κ a e.1 e.2) (slot_add_present κ a k e.1 e.2 j hj) (fun x hx => hg x (by simp [hx]))

def Uniq (l : List (E K α)) : Prop := (keys κ l).Nodup

theorem keys_add (l : List (E K α)) (k : K) (p : List α) :
    keys κ (add κ l k p) = if (slot κ l k).isSome then keys κ l else keys κ l ++ [κ k] := by
  unfold add
  cases slot κ l k with
  | some i => simp [keys_modify]
  | none => simp [keys]

theorem uniq_add (l : List (E K α)) (k : K) (p : List α) (h : Uniq κ l) : Uniq κ (add κ l k p) := by
  unfold Uniq at *
  rw [keys_add]
  cases hs : slot κ l k with
  | some i => simpa using h
  | none =>
    simp only [Option.isSome_none, Bool.false_eq_true, ↓reduceIte]
    rw [List.nodup_append]
    refine ⟨h, by simp, ?_⟩
    intro a ha b hb
    simp at hb; subst hb
    have := (slot_none_iff κ l k).mp hs
    intro e
    simp only [keys, List.mem_map] at ha
    obtain ⟨x, hx, hxe⟩ := ha
    exact this x hx (hxe.trans e)

/-- L -/
theorem addAll_modify (g : List (E K α)) (l : List (E K α)) (i : Nat) (k : K) (p : List α)
    (hu : Uniq κ g) (hs : slot κ g k = some i) :
    addAll κ l (g.modify i (fun e => (e.1, e.2 ++ p))) = add κ (addAll κ l g) k p := by
  induction g generalizing l i with
  | nil => simp [slot] at hs
  | cons h t ih =>
    unfold slot at hs
    simp only [List.findIdx?_cons] at hs
    have hu' : Uniq κ t := by unfold Uniq keys at *; simp at hu; exact hu.2
    have hnot : ∀ e ∈ t, κ e.1 ≠ κ h.1 := by
      unfold Uniq keys at hu; simp at hu
      intro e he heq
      exact hu.1 e.1 e.2 he heq
    by_cases hk : (κ h.1 == κ k) = true
    · simp only [hk, ↓reduceIte, Option.some.injEq] at hs
      subst hs
      have hkk : κ h.1 = κ k := by simpa using hk
      simp only [List.modify_zero_cons, addAll, List.foldl_cons]
      rw [add_append κ l h.1 k h.2 p hkk]
      have hslot : ∃ j, slot κ (add κ l h.1 h.2) k = some j := by
        unfold add
        cases hl : slot κ l h.1 with
        | some j => exact ⟨j, by simp only []; rw [slot_modify]; unfold slot at *; rw [← hkk]; exact hl⟩
        | none =>
          refine ⟨l.length, ?_⟩
          simp only []
          have hn : slot κ l k = none := by unfold slot at *; rw [← hkk]; exact hl
          rw [slot_append_none κ l _ k hn]; simp [hkk]
      obtain ⟨j, hj⟩ := hslot
      exact addAll_add_comm κ t _ k p j hj (fun e he => by rw [← hkk]; exact hnot e he)
    · simp only [hk, Bool.false_eq_true, ↓reduceIte, Option.map_eq_some_iff] at hs
      obtain ⟨i', hi', rfl⟩ := hs
      simp only [List.modify_succ_cons, addAll, List.foldl_cons]
      exact ih (add κ l h.1 h.2) i' hu' hi'

/-- C -/
theorem addAll_add (g l : List (E K α)) (k : K) (p : List α) (hu : Uniq κ g) :
    addAll κ l (add κ g k p) = add κ (addAll κ l g) k p := by
  unfold add
  cases hs : slot κ g k with
  | some i => simp only []; exact addAll_modify κ g l i k p hu hs
  | none => simp only [addAll, List.foldl_append, List.foldl_cons, List.foldl_nil]; rfl

/-- **Nested grouping = flat grouping**: merging an already grouped batch equals merging its members one
by one. -/
theorem addAll_assoc (es g l : List (E K α)) (hu : Uniq κ g) :
    addAll κ l (addAll κ g es) = addAll κ (addAll κ l g) es := by
  induction es generalizing g with
  | nil => rfl
  | cons e t ih =>
    simp only [addAll, List.foldl_cons]
    have := ih (add κ g e.1 e.2) (uniq_add κ g e.1 e.2 hu)
    simp only [addAll] at this
    rw [this]
    have hc := addAll_add κ g l e.1 e.2 hu
    simp only [addAll] at hc
    rw [hc]

theorem uniq_addAll (es l : List (E K α)) (h : Uniq κ l) : Uniq κ (addAll κ l es) := by
  induction es generalizing l with
  | nil => exact h
  | cons e t ih => exact ih _ (uniq_add κ l e.1 e.2 h)

end GqlgenVerif.Assoc
