import GqlgenVerif.Model.WsLoop
/-! Helper lemmas for the websocket read-loop model (C07): the invariant of the own-cell loop. -/
namespace GqlgenVerif.WsLoop

/-- invariant of the loop in which every message has its own variable, relative to the start messages read so far -/
structure Inv (s : St) (seen : List Msg) : Prop where
  len : s.ops.length = seen.length
  cell : ∀ (k c : Nat), s.ops[k]? = some c → s.cells[c]? = seen[k]?
  out : ∀ (k : Nat) (i : Option String), (k, i) ∈ s.out → ∃ m, seen[k]? = some m ∧ i = some m.id

theorem getElem?_some_of_lt {α} {l : List α} {k : Nat} (h : k < l.length) : ∃ a, l[k]? = some a :=
  ⟨l[k], List.getElem?_eq_getElem h⟩

theorem lt_of_getElem?_some {α} {l : List α} {k : Nat} {a : α} (h : l[k]? = some a) : k < l.length := by
  rcases Nat.lt_or_ge k l.length with h' | h'
  · exact h'
  · rw [List.getElem?_eq_none h'] at h; cases h

theorem inv_init : Inv {} [] :=
  ⟨rfl, by intro k c h; simp at h, by intro k i h; simp at h⟩

theorem startOf_recv (m : Msg) : startMsgs [Ev.recv m] = if m.starts then [m] else [] := by
  cases h : m.starts <;> simp [startMsgs, h]

theorem inv_step (s : St) (seen : List Msg) (e : Ev) (h : Inv s seen) :
    Inv (step .ownCell s e) (seen ++ startMsgs [e]) := by
  cases e with
  | emit k =>
    have hs : startMsgs [Ev.emit k] = [] := rfl
    rw [hs, List.append_nil]
    simp only [step]
    split
    · exact h
    · next c hc =>
      refine ⟨h.len, h.cell, ?_⟩
      intro k' i hm
      rcases List.mem_append.mp hm with hm | hm
      · exact h.out k' i hm
      · simp only [List.mem_singleton, Prod.mk.injEq] at hm
        obtain ⟨rfl, rfl⟩ := hm
        have hk : k' < seen.length := h.len ▸ lt_of_getElem?_some hc
        obtain ⟨m, hm⟩ := getElem?_some_of_lt hk
        exact ⟨m, hm, by rw [h.cell k' c hc, hm]; rfl⟩
  | recv m =>
    rw [startOf_recv]
    -- facts that do not depend on whether the message starts an operation
    have cellsOld : ∀ (k c : Nat), s.ops[k]? = some c → (s.cells ++ [m])[c]? = (seen ++ (if m.starts then [m] else []))[k]? := by
      intro k c hc
      have hk : k < seen.length := h.len ▸ lt_of_getElem?_some hc
      obtain ⟨a, ha⟩ := getElem?_some_of_lt hk
      have hcell := h.cell k c hc
      rw [ha] at hcell
      rw [List.getElem?_append_left (lt_of_getElem?_some hcell), List.getElem?_append_left hk, hcell, ha]
    have outOld : ∀ (k : Nat) (i : Option String), (k, i) ∈ s.out → ∃ m', (seen ++ (if m.starts then [m] else []))[k]? = some m' ∧ i = some m'.id := by
      intro k i hm
      obtain ⟨m', h1, h2⟩ := h.out k i hm
      exact ⟨m', by rw [List.getElem?_append_left (lt_of_getElem?_some h1)]; exact h1, h2⟩
    simp only [step]
    by_cases hst : m.starts = true
    · simp only [hst, if_true] at cellsOld outOld ⊢
      refine ⟨by simp [h.len], ?_, outOld⟩
      intro k c hc
      rcases Nat.lt_or_ge k s.ops.length with hk | hk
      · rw [List.getElem?_append_left hk] at hc
        exact cellsOld k c hc
      · rw [List.getElem?_append_right hk] at hc
        have : k - s.ops.length = 0 := by
          rcases Nat.eq_zero_or_pos (k - s.ops.length) with h0 | h0
          · exact h0
          · rw [List.getElem?_eq_none (by simp only [List.length_cons, List.length_nil]; omega)] at hc; cases hc
        rw [this] at hc
        simp only [List.getElem?_cons_zero, Option.some.injEq] at hc
        subst hc
        have hk' : k = seen.length := by rw [← h.len]; omega
        subst hk'
        rw [List.getElem?_concat_length, List.getElem?_concat_length]
    · have hst' : m.starts = false := by cases hm : m.starts <;> simp_all
      simp only [hst', Bool.false_eq_true, if_false, List.append_nil] at cellsOld outOld ⊢
      exact ⟨h.len, cellsOld, outOld⟩

theorem startMsgs_cons (e : Ev) (evs : List Ev) : startMsgs (e :: evs) = startMsgs [e] ++ startMsgs evs := by
  simp only [startMsgs, List.filterMap_cons, List.filterMap_nil]; split <;> simp

theorem inv_run (evs : List Ev) : ∀ (s : St) (seen : List Msg), Inv s seen →
    Inv (run .ownCell s evs) (seen ++ startMsgs evs) := by
  induction evs with
  | nil => intro s seen h; simpa [run, startMsgs] using h
  | cons e evs ih =>
    intro s seen h
    have := ih (step .ownCell s e) (seen ++ startMsgs [e]) (inv_step s seen e h)
    rw [startMsgs_cons, ← List.append_assoc]
    simpa [run] using this

end GqlgenVerif.WsLoop
