import GqlgenVerif.Lemmas.Apq
/-! The three query-cache implementations are lawful caches (proofs as in Props/C15.lean, repeated here
so that C03 does not depend on another property's Props file). -/
namespace GqlgenVerif.Pipeline.CacheLaws
open GqlgenVerif.Apq

variable {σ Text Hash : Type} [DecidableEq Hash]

theorem map_lawful : Lawful (mapCache : CacheImpl (MapState Text Hash) Text Hash) mapView := by
  refine ⟨?_, ?_, ?_⟩
  · intro s k v h; exact h
  · intro s k k' v h; exact h
  · intro s k v k' v' h
    by_cases hk : k' = k
    · subst hk; simp [mapCache, mapView] at h; exact Or.inl ⟨rfl, h.symm⟩
    · simp [mapCache, mapView, hk] at h; exact Or.inr ⟨hk, h⟩

omit [DecidableEq Hash] in
theorem no_lawful : Lawful (noCache : CacheImpl Unit Text Hash) noView := by
  refine ⟨?_, ?_, ?_⟩
  · intro s k v h; simp [noCache] at h
  · intro s k k' v h; simp [noView] at h
  · intro s k v k' v' h; simp [noView] at h

/-- `lru.LRU` of any capacity (eviction included) is a lawful cache. -/
theorem lru_lawful : Lawful (lruCache : CacheImpl (Lru Text Hash) Text Hash) lruView := by
  refine ⟨?_, ?_, ?_⟩
  · intro s k v h
    simp only [lruCache, lruGet, lruView] at *
    cases hf : find k s.items with
    | none => simp [hf] at h
    | some w => simp [hf] at h; simp [h]
  · intro s k k' v h
    simp only [lruCache, lruGet, lruView] at *
    cases hf : find k s.items with
    | none => simpa [hf] using h
    | some w =>
      simp only [hf, find] at h
      by_cases hk : k = k'
      · subst hk; simp at h; simp [hf, h]
      · simp only [hk, if_false, find_remove] at h
        have : ¬ k' = k := fun e => hk e.symm
        simpa [this] using h
  · intro s k v k' v' h
    simp only [lruCache, lruAdd, lruView] at *
    by_cases hk : k' = k
    · left
      refine ⟨hk, ?_⟩
      subst hk
      cases hf : find k' s.items with
      | some w => simp [hf, find] at h; exact h.symm
      | none =>
        simp only [hf] at h
        split at h
        · have := find_dropOldest k' v' _ h
          simp [find] at this; exact this.symm
        · simp [find] at h; exact h.symm
    · right
      refine ⟨hk, ?_⟩
      have hk' : ¬ k = k' := fun e => hk e.symm
      cases hf : find k s.items with
      | some w => simpa [hf, find, hk', find_remove, hk] using h
      | none =>
        simp only [hf] at h
        split at h
        · have := find_dropOldest k' v' _ h
          simpa [find, hk'] using this
        · simpa [find, hk'] using h

end GqlgenVerif.Pipeline.CacheLaws
