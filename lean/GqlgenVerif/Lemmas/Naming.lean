import GqlgenVerif.Model.Naming
/-! Helper lemmas for the naming model (C17): registry invariants of `goModelName`. -/
namespace GqlgenVerif.Naming

/-! ## registry -/

/-- keys pairwise distinct and allocated names pairwise distinct -/
def RegInj (r : Reg) : Prop := (r.map Prod.fst).Nodup ∧ (r.map Prod.snd).Nodup

theorem lookup_none_not_mem (r : Reg) (k : Name) (h : r.lookup k = none) : k ∉ r.map Prod.fst := by
  induction r with
  | nil => simp
  | cons kv t ih =>
    obtain ⟨k', v⟩ := kv
    simp only [Reg.lookup] at h
    split at h
    · cases h
    · rename_i hne
      simp only [List.map_cons, List.mem_cons, not_or]
      refine ⟨?_, ih h⟩
      intro heq
      apply hne
      simp [heq]

theorem lookup_some_mem (r : Reg) (k n : Name) (h : r.lookup k = some n) : (k, n) ∈ r := by
  induction r with
  | nil => simp [Reg.lookup] at h
  | cons kv t ih =>
    obtain ⟨k', v⟩ := kv
    simp only [Reg.lookup] at h
    split at h
    · rename_i heq
      have hk : k' = k := by simpa using heq
      cases h
      simp [hk]
    · exact List.mem_cons_of_mem _ (ih h)

theorem nameExists_false_not_mem (r : Reg) (n : Name) (h : r.nameExists n = false) : n ∉ r.map Prod.snd := by
  induction r with
  | nil => simp
  | cons kv t ih =>
    obtain ⟨k', v⟩ := kv
    simp only [Reg.nameExists, List.any_cons, Bool.or_eq_false_iff] at h
    simp only [List.map_cons, List.mem_cons, not_or]
    refine ⟨?_, ih (by simpa [Reg.nameExists] using h.2)⟩
    intro heq
    have := h.1
    simp [heq] at this

theorem firstFree_fresh (r : Reg) (base : Name) (fuel i : Nat) (n : Name)
    (h : firstFree r base fuel i = some n) : r.nameExists n = false := by
  induction fuel generalizing i with
  | zero => simp [firstFree] at h
  | succ f ih =>
    simp only [firstFree] at h
    split at h
    · exact ih _ h
    · rename_i hne
      cases h
      simpa using hne

theorem pretty_fresh (r : Reg) (primary : Name → Name) (parts : List Name) (i : Nat) (n : Name)
    (h : pretty r primary parts i = some n) : r.nameExists n = false := by
  induction i with
  | zero => simp [pretty] at h
  | succ j ih =>
    simp only [pretty] at h
    split at h
    · exact ih h
    · rename_i hne
      cases h
      simpa using hne

/-- what one call does to the registry: nothing, or one fresh (key, name) pair appended -/
theorem goModelName_spec (primary : Name → Name) (r : Reg) (parts : List Name) :
    ((goModelName primary r parts).2 = r) ∨
    (∃ n, (goModelName primary r parts) = (some n, r ++ [(modelKey parts, n)]) ∧
          r.lookup (modelKey parts) = none ∧ r.nameExists n = false) := by
  simp only [goModelName]
  split
  · left; rfl
  · rename_i hl
    split
    · rename_i hfirst
      right
      exact ⟨_, rfl, hl, by simpa using hfirst⟩
    · split
      · rename_i n hres
        right
        refine ⟨n, rfl, hl, ?_⟩
        split at hres
        · exact firstFree_fresh _ _ _ _ _ hres
        · split at hres
          · rename_i m hp
            cases hres
            exact pretty_fresh _ _ _ _ _ hp
          · exact firstFree_fresh _ _ _ _ _ hres
      · left; rfl

theorem goModelName_inj (primary : Name → Name) (r : Reg) (parts : List Name) (h : RegInj r) :
    RegInj (goModelName primary r parts).2 := by
  rcases goModelName_spec primary r parts with h1 | ⟨n, h1, hk, hn⟩
  · rw [h1]; exact h
  · rw [h1]
    simp only [RegInj, List.map_append, List.map_cons, List.map_nil]
    refine ⟨?_, ?_⟩
    · rw [List.nodup_append]
      refine ⟨h.1, by simp, ?_⟩
      intro a ha b hb
      simp only [List.mem_singleton] at hb
      subst hb
      intro heq
      subst heq
      exact lookup_none_not_mem r _ hk ha
    · rw [List.nodup_append]
      refine ⟨h.2, by simp, ?_⟩
      intro a ha b hb
      simp only [List.mem_singleton] at hb
      subst hb
      intro heq
      subst heq
      exact nameExists_false_not_mem r _ hn ha

theorem runCalls_inj (primary : Name → Name) (r : Reg) (calls : List (List Name)) (h : RegInj r) :
    RegInj (runCalls primary r calls).2 := by
  induction calls generalizing r with
  | nil => simpa [runCalls] using h
  | cons p ps ih =>
    simp only [runCalls]
    exact ih _ (goModelName_inj primary r p h)

/-- in an injective registry a name belongs to one key -/
theorem regInj_lookup_inj (r : Reg) (h : RegInj r) (k1 k2 n : Name)
    (h1 : r.lookup k1 = some n) (h2 : r.lookup k2 = some n) : k1 = k2 := by
  have m1 := lookup_some_mem r k1 n h1
  have m2 := lookup_some_mem r k2 n h2
  clear h1 h2
  induction r with
  | nil => simp at m1
  | cons kv t ih =>
    obtain ⟨k', v⟩ := kv
    have hv : v ∉ t.map Prod.snd := (List.nodup_cons.mp h.2).1
    have ht : RegInj t := ⟨(List.nodup_cons.mp h.1).2, (List.nodup_cons.mp h.2).2⟩
    simp only [List.mem_cons, Prod.mk.injEq] at m1 m2
    rcases m1 with ⟨rfl, rfl⟩ | m1 <;> rcases m2 with ⟨rfl, e2⟩ | m2
    · rfl
    · exact absurd (List.mem_map_of_mem (f := Prod.snd) m2) hv
    · subst e2
      exact absurd (List.mem_map_of_mem (f := Prod.snd) m1) hv
    · exact ih ht m1 m2

end GqlgenVerif.Naming
