import GqlgenVerif.Model.Naming
/-! Helper lemmas for the naming model (C17): registry invariants of `goModelName`. -/
namespace GqlgenVerif.Naming

/-! ## registry -/

/-- keys pairwise distinct and allocated names pairwise distinct -/
def RegInj (r : Reg) : Prop := (r.map Prod.fst).Nodup ∧ (r.map Prod.snd).Nodup

theorem lookup_none_not_mem (r : Reg) (k : Name) (h : r.lookup k = none) : k ∉ r.map Prod.fst := by
  induction r with
  | nil => simp
  | cons kv t ih =>
    obtain ⟨k', v⟩ := kv
    simp only [Reg.lookup] at h
    split at h
    · cases h
    · rename_i hne
      simp only [List.map_cons, List.mem_cons, not_or]
      refine ⟨?_, ih h⟩
      intro heq
      apply hne
      simp [heq]

theorem lookup_some_mem (r : Reg) (k n : Name) (h : r.lookup k = some n) : (k, n) ∈ r := by
  induction r with
  | nil => simp [Reg.lookup] at h
  | cons kv t ih =>
    obtain ⟨k', v⟩ := kv
    simp only [Reg.lookup] at h
    split at h
    · rename_i heq
      have hk : k' = k := by simpa using heq
      cases h
      simp [hk]
    · exact List.mem_cons_of_mem _ (ih h)

theorem nameExists_false_not_mem (r : Reg) (n : Name) (h : r.nameExists n = false) : n ∉ r.map Prod.snd := by
  induction r with
  | nil => simp
  | cons kv t ih =>
    obtain ⟨k', v⟩ := kv
    simp only [Reg.nameExists, List.any_cons, Bool.or_eq_false_iff] at h
    simp only [List.map_cons, List.mem_cons, not_or]
    refine ⟨?_, ih (by simpa [Reg.nameExists] using h.2)⟩
    intro heq
    have := h.1
    simp [heq] at this

theorem firstFree_fresh (r : Reg) (base : Name) (fuel i : Nat) (n : Name)
    (h : firstFree r base fuel i = some n) : r.nameExists n = false := by
  induction fuel generalizing i with
  | zero => simp [firstFree] at h
  | succ f ih =>
    simp only [firstFree] at h
    split at h
    · exact ih _ h
    · rename_i hne
      cases h
      simpa using hne

theorem pretty_fresh (r : Reg) (primary : Name → Name) (parts : List Name) (i : Nat) (n : Name)
    (h : pretty r primary parts i = some n) : r.nameExists n = false := by
  induction i with
  | zero => simp [pretty] at h
  | succ j ih =>
    simp only [pretty] at h
    split at h
    · exact ih h
    · rename_i hne
      cases h
      simpa using hne

/-- what one call does to the registry: nothing, or one fresh (key, name) pair appended -/
theorem goModelName_spec (primary : Name → Name) (r : Reg) (parts : List Name) :
    ((goModelName primary r parts).2 = r) ∨
    (∃ n, (goModelName primary r parts) = (some n, r ++ [(modelKey parts, n)]) ∧
          r.lookup (modelKey parts) = none ∧ r.nameExists n = false) := by
  simp only [goModelName]
  split
  · left; rfl
  · rename_i hl
    split
    · rename_i hfirst
      right
      exact ⟨_, rfl, hl, by simpa using hfirst⟩
    · split
      · rename_i n hres
        right
        refine ⟨n, rfl, hl, ?_⟩
        split at hres
        · exact firstFree_fresh _ _ _ _ _ hres
        · split at hres
          · rename_i m hp
            cases hres
            exact pretty_fresh _ _ _ _ _ hp
          · exact firstFree_fresh _ _ _ _ _ hres
      · left; rfl

theorem goModelName_inj (primary : Name → Name) (r : Reg) (parts : List Name) (h : RegInj r) :
    RegInj (goModelName primary r parts).2 := by
  rcases goModelName_spec primary r parts with h1 | ⟨n, h1, hk, hn⟩
  · rw [h1]; exact h
  · rw [h1]
    simp only [RegInj, List.map_append, List.map_cons, List.map_nil]
    refine ⟨?_, ?_⟩
    · rw [List.nodup_append]
      refine ⟨h.1, by simp, ?_⟩
      intro a ha b hb
      simp only [List.mem_singleton] at hb
      subst hb
      intro heq
      subst heq
      exact lookup_none_not_mem r _ hk ha
    · rw [List.nodup_append]
      refine ⟨h.2, by simp, ?_⟩
      intro a ha b hb
      simp only [List.mem_singleton] at hb
      subst hb
      intro heq
      subst heq
      exact nameExists_false_not_mem r _ hn ha

theorem runCalls_inj (primary : Name → Name) (r : Reg) (calls : List (List Name)) (h : RegInj r) :
    RegInj (runCalls primary r calls).2 := by
  induction calls generalizing r with
  | nil => simpa [runCalls] using h
  | cons p ps ih =>
    simp only [runCalls]
    exact ih _ (goModelName_inj primary r p h)

/-- in an injective registry a name belongs to one key -/
theorem regInj_lookup_inj (r : Reg) (h : RegInj r) (k1 k2 n : Name)
    (h1 : r.lookup k1 = some n) (h2 : r.lookup k2 = some n) : k1 = k2 := by
  have m1 := lookup_some_mem r k1 n h1
  have m2 := lookup_some_mem r k2 n h2
  clear h1 h2
  induction r with
  | nil => simp at m1
  | cons kv t ih =>
    obtain ⟨k', v⟩ := kv
    have hv : v ∉ t.map Prod.snd := (List.nodup_cons.mp h.2).1
    have ht : RegInj t := ⟨(List.nodup_cons.mp h.1).2, (List.nodup_cons.mp h.2).2⟩
    simp only [List.mem_cons, Prod.mk.injEq] at m1 m2
    rcases m1 with ⟨rfl, rfl⟩ | m1 <;> rcases m2 with ⟨rfl, e2⟩ | m2
    · rfl
    · exact absurd (List.mem_map_of_mem (f := Prod.snd) m2) hv
    · subst e2
      exact absurd (List.mem_map_of_mem (f := Prod.snd) m1) hv
    · exact ih ht m1 m2

end GqlgenVerif.Naming

namespace GqlgenVerif.Naming

/-! ## character classes -/

theorem upC_ident (c : Nat) (h : isIdentChar c = true) : isIdentChar (upC c) = true := by
  simp only [isIdentChar, isLetter, isLower, isUpper, isDigit, upC, Bool.or_eq_true, Bool.and_eq_true,
    decide_eq_true_eq, beq_iff_eq] at *
  split <;> omega

theorem loC_ident (c : Nat) (h : isIdentChar c = true) : isIdentChar (loC c) = true := by
  simp only [isIdentChar, isLetter, isLower, isUpper, isDigit, loC, Bool.or_eq_true, Bool.and_eq_true,
    decide_eq_true_eq, beq_iff_eq] at *
  split <;> omega

theorem upC_letter_upper (c : Nat) (h : isLetter c = true) : isUpper (upC c) = true := by
  simp only [isLetter, isLower, isUpper, upC, Bool.or_eq_true, Bool.and_eq_true, decide_eq_true_eq] at *
  split <;> omega

theorem loC_letter (c : Nat) (h : isLetter c = true) : isLetter (loC c) = true := by
  simp only [isLetter, isLower, isUpper, loC, Bool.or_eq_true, Bool.and_eq_true, decide_eq_true_eq] at *
  split <;> omega

theorem upC_loC_letter_upper (c : Nat) (h : isLetter c = true) : isUpper (upC (loC c)) = true :=
  upC_letter_upper _ (loC_letter c h)

theorem upper_isLetter (c : Nat) (h : isUpper c = true) : isLetter c = true := by
  simp [isLetter, h]

theorem loC_of_lower (c : Nat) (h : isLower c = true) : loC c = c := by
  simp only [isLower, isUpper, loC, Bool.and_eq_true, decide_eq_true_eq] at *
  split <;> omega

theorem lower_of_all_lower (w : Name) (h : ∀ x ∈ w, isLower x = true) : lower w = w := by
  induction w with
  | nil => rfl
  | cons a t ih =>
    simp only [lower, List.map_cons]
    rw [loC_of_lower a (h a (by simp))]
    congr 1
    exact ih (fun x hx => h x (by simp [hx]))

theorem letter_not_upper_lower (c : Nat) (h : isLetter c = true) (hu : isUpper c = false) : isLower c = true := by
  simp only [isLetter, Bool.or_eq_true] at h
  rcases h with h | h
  · exact h
  · rw [h] at hu; cases hu

theorem mem_upper (w : Name) (P : Nat → Prop) (hP : ∀ c, P c → P (upC c)) (h : ∀ x ∈ w, P x) : ∀ x ∈ upper w, P x := by
  intro x hx
  simp only [upper, List.mem_map] at hx
  obtain ⟨y, hy, rfl⟩ := hx
  exact hP y (h y hy)

theorem mem_lower (w : Name) (P : Nat → Prop) (hP : ∀ c, P c → P (loC c)) (h : ∀ x ∈ w, P x) : ∀ x ∈ lower w, P x := by
  intro x hx
  simp only [lower, List.mem_map] at hx
  obtain ⟨y, hy, rfl⟩ := hx
  exact hP y (h y hy)

theorem mem_ucFirst (w : Name) (P : Nat → Prop) (hP : ∀ c, P c → P (upC c)) (h : ∀ x ∈ w, P x) : ∀ x ∈ ucFirst w, P x := by
  cases w with
  | nil => simp [ucFirst]
  | cons a t =>
    intro x hx
    simp only [ucFirst, List.mem_cons] at hx
    rcases hx with rfl | hx
    · exact hP a (h a (by simp))
    · exact h x (by simp [hx])

theorem mem_lcFirst (w : Name) (P : Nat → Prop) (hP : ∀ c, P c → P (loC c)) (h : ∀ x ∈ w, P x) : ∀ x ∈ lcFirst w, P x := by
  cases w with
  | nil => simp [lcFirst]
  | cons a t =>
    intro x hx
    simp only [lcFirst, List.mem_cons] at hx
    rcases hx with rfl | hx
    · exact hP a (h a (by simp))
    · exact h x (by simp [hx])

/-- every character `xform` writes is the (case-mapped) image of a character of the word -/
theorem xform_chars (priv : Bool) (w : WordInfo) (h : ∀ x ∈ w.word, isIdentChar x = true) :
    ∀ x ∈ xform priv w, isIdentChar x = true := by
  unfold xform
  simp only
  split
  · split
    · exact mem_lower _ _ loC_ident h
    · exact mem_lcFirst _ _ loC_ident h
  · split
    · exact mem_upper _ _ upC_ident h
    · split
      · exact mem_ucFirst _ _ upC_ident (mem_lower _ _ loC_ident h)
      · exact h

/-! ## lookAhead -/

theorem skipRun_spec (last : Nat) (r : List Nat) :
    (∀ x ∈ (skipRun last r).2, x ∈ r) ∧ ((skipRun last r).1 = last ∨ (skipRun last r).1 ∈ r) ∧
    (skipRun last r).2.length ≤ r.length := by
  induction r generalizing last with
  | nil => simp [skipRun]
  | cons d t ih =>
    simp only [skipRun]
    split
    · obtain ⟨h1, h2, h3⟩ := ih d
      refine ⟨fun x hx => List.mem_cons_of_mem _ (h1 x hx), ?_, by simp only [List.length_cons]; omega⟩
      right
      rcases h2 with h2 | h2
      · rw [h2]; simp
      · exact List.mem_cons_of_mem _ h2
    · simp

theorem lookAhead_mem (c : Nat) (rest : List Nat) : ∀ x ∈ (lookAhead c rest).2, x ∈ rest := by
  unfold lookAhead
  cases rest with
  | nil => simp
  | cons d r =>
    simp only
    obtain ⟨h1, h2, _⟩ := skipRun_spec d r
    split
    · split
      · simp
      · rename_i last e r' heq
        rw [heq] at h1 h2
        simp only at h1 h2
        have hl : last ∈ d :: r := by
          rcases h2 with h2 | h2
          · rw [h2]; simp
          · exact List.mem_cons_of_mem _ h2
        split
        · intro x hx
          simp only [List.mem_cons] at hx
          rcases hx with rfl | hx
          · exact hl
          · exact List.mem_cons_of_mem _ (h1 x (by simpa using hx))
        · intro x hx
          exact List.mem_cons_of_mem _ (h1 x hx)
    · split <;> simp

theorem lookAhead_length (c : Nat) (rest : List Nat) : (lookAhead c rest).2.length ≤ rest.length := by
  unfold lookAhead
  cases rest with
  | nil => simp
  | cons d r =>
    simp only
    obtain ⟨_, _, h3⟩ := skipRun_spec d r
    split
    · split
      · simp
      · rename_i last e r' heq
        rw [heq] at h3
        simp only [List.length_cons] at h3 ⊢
        split <;> simp only [List.length_cons] <;> omega
    · split <;> simp

/-- when the look-ahead does not end the word, nothing was deleted, the text goes on, and a lower-case
character is followed by a lower-case one -/
theorem lookAhead_noeow (c : Nat) (rest : List Nat) (h : (lookAhead c rest).1 = false) :
    (lookAhead c rest).2 = rest ∧ ∃ d r, rest = d :: r ∧ (isLower c = true → isLower d = true) := by
  unfold lookAhead at h ⊢
  cases rest with
  | nil => simp at h
  | cons d r =>
    simp only at h ⊢
    split at h
    · split at h
      · simp at h
      · split at h <;> simp at h
    · rename_i hd
      split at h
      · simp at h
      · rename_i hl
        rw [if_neg hd, if_neg hl]
        refine ⟨rfl, d, r, rfl, ?_⟩
        intro hc
        simp only [Bool.and_eq_true, Bool.not_eq_true', not_and, Bool.not_eq_false] at hl
        exact hl hc

end GqlgenVerif.Naming

namespace GqlgenVerif.Naming

/-! ## one iteration of wordWalker -/

/-- no regenerated initialism contains a lower-case letter (the table is re-read from the source) -/
theorem inits_no_lower : ∀ w ∈ inits, ∀ x ∈ w, isLower x = false := by decide

theorem not_init_of_lower (w : Name) (x : Nat) (hx : x ∈ w) (hl : isLower x = true) : inits.contains w = false := by
  cases h : inits.contains w with
  | false => rfl
  | true =>
    have := inits_no_lower w (by simpa using h) x hx
    rw [this] at hl; cases hl

theorem stepWord_cont (wo : Nat) (hci : Bool) (cur : List Nat) (c : Nat) (rest : List Nat)
    (hci' : Bool) (word rest' : List Nat) (h : stepWord wo hci cur c rest = .cont hci' word rest') :
    word = cur ++ [c] ∧ rest' = rest ∧ (∃ d r, rest = d :: r ∧ (isLower c = true → isLower d = true)) ∧
    (hci' = hci ∨ inits.contains word = true) := by
  unfold stepWord at h
  simp only at h
  by_cases h1 : (!(lookAhead c rest).1 && !(inits.contains (cur ++ [c]) && headNotLower (lookAhead c rest).2)) = true
  · rw [if_pos h1] at h
    simp only [Bool.and_eq_true, Bool.not_eq_true'] at h1
    obtain ⟨e1, e2⟩ := lookAhead_noeow c rest h1.1
    injection h with ha hb hc
    refine ⟨hb.symm, by rw [← hc, e1], e2, ?_⟩
    cases hi : inits.contains (cur ++ [c]) with
    | false => left; rw [← ha, hi]; simp
    | true => right; rw [← hb]; exact hi
  · rw [if_neg h1] at h
    by_cases h2 : inits.contains (upper (cur ++ [c])) = true
    · rw [if_pos h2] at h
      by_cases h3 : (shorts.contains (upper (cur ++ [c])) && !(lookAhead c rest).1 && idipSkip (cur ++ [c]) (lookAhead c rest).2) = true
      · rw [if_pos h3] at h
        simp only [Bool.and_eq_true, Bool.not_eq_true'] at h3
        obtain ⟨e1, e2⟩ := lookAhead_noeow c rest h3.1.2
        injection h with ha hb hc
        exact ⟨hb.symm, by rw [← hc, e1], e2, Or.inl ha.symm⟩
      · rw [if_neg h3] at h; cases h
    · rw [if_neg h2] at h; cases h

theorem stepWord_emit (wo : Nat) (hci : Bool) (cur : List Nat) (c : Nat) (rest : List Nat)
    (info : WordInfo) (rest' : List Nat) (h : stepWord wo hci cur c rest = .emit info rest') :
    info.word = cur ++ [c] ∧ info.wordOffset = wo ∧ (info.matchCI = true ∨ (info.matchCI = false ∧ info.hasCI = hci)) ∧
    (∀ x ∈ rest', x ∈ rest) ∧ rest'.length ≤ rest.length := by
  unfold stepWord at h
  simp only at h
  by_cases h1 : (!(lookAhead c rest).1 && !(inits.contains (cur ++ [c]) && headNotLower (lookAhead c rest).2)) = true
  · rw [if_pos h1] at h; cases h
  · rw [if_neg h1] at h
    by_cases h2 : inits.contains (upper (cur ++ [c])) = true
    · rw [if_pos h2] at h
      by_cases h3 : (shorts.contains (upper (cur ++ [c])) && !(lookAhead c rest).1 && idipSkip (cur ++ [c]) (lookAhead c rest).2) = true
      · rw [if_pos h3] at h; cases h
      · rw [if_neg h3] at h
        injection h with ha hb
        subst ha hb
        exact ⟨rfl, rfl, Or.inl rfl, lookAhead_mem c rest, lookAhead_length c rest⟩
    · rw [if_neg h2] at h
      injection h with ha hb
      subst ha hb
      exact ⟨rfl, rfl, Or.inr ⟨rfl, rfl⟩, lookAhead_mem c rest, lookAhead_length c rest⟩

/-! ## every character of every word comes from the input -/

theorem walkAux_mem (fuel wo : Nat) (hci : Bool) (cur rest : List Nat) :
    ∀ w ∈ walkAux fuel wo hci cur rest, ∀ x ∈ w.word, x ∈ cur ∨ x ∈ rest := by
  induction fuel generalizing wo hci cur rest with
  | zero => simp [walkAux]
  | succ f ih =>
    cases rest with
    | nil => simp [walkAux]
    | cons c r =>
      intro w hw x hx
      simp only [walkAux] at hw
      split at hw
      · rename_i hci' word rest' hs
        obtain ⟨e1, e2, _, _⟩ := stepWord_cont _ _ _ _ _ _ _ _ hs
        subst e1 e2
        rcases ih _ _ _ _ w hw x hx with h | h
        · simp only [List.mem_append, List.mem_singleton] at h
          rcases h with h | h
          · exact Or.inl h
          · exact Or.inr (by simp [h])
        · exact Or.inr (List.mem_cons_of_mem _ h)
      · rename_i info rest' hs
        obtain ⟨e1, _, _, e4, _⟩ := stepWord_emit _ _ _ _ _ _ _ hs
        simp only [List.mem_cons] at hw
        rcases hw with rfl | hw
        · rw [e1] at hx
          simp only [List.mem_append, List.mem_singleton] at hx
          rcases hx with h | h
          · exact Or.inl h
          · exact Or.inr (by simp [h])
        · rcases ih _ _ _ _ w hw x hx with h | h
          · simp at h
          · exact Or.inr (List.mem_cons_of_mem _ (e4 x h))

theorem trim_mem (s : Name) : ∀ x ∈ trim s, x ∈ s := by
  intro x hx
  unfold trim at hx
  rw [List.mem_reverse] at hx
  have h1 := (List.dropWhile_sublist isDelim).subset hx
  rw [List.mem_reverse] at h1
  exact (List.dropWhile_sublist isDelim).subset h1

theorem walk_chars (name : Name) (h : ∀ c ∈ name, isIdentChar c = true) :
    ∀ w ∈ walk name, ∀ x ∈ w.word, isIdentChar x = true := by
  intro w hw x hx
  unfold walk at hw
  rcases walkAux_mem _ _ _ _ _ w hw x hx with h1 | h1
  · simp at h1
  · exact h x (trim_mem name x h1)

theorem flatMap_xform_chars (priv : Bool) (ws : List WordInfo)
    (h : ∀ w ∈ ws, ∀ x ∈ w.word, isIdentChar x = true) : ∀ x ∈ ws.flatMap (xform priv), isIdentChar x = true := by
  intro x hx
  rw [List.mem_flatMap] at hx
  obtain ⟨w, hw, hxw⟩ := hx
  exact xform_chars priv w (h w hw) x hxw

end GqlgenVerif.Naming

namespace GqlgenVerif.Naming

/-! ## the first character of the output -/

theorem xform_head (priv : Bool) (w : WordInfo) (h : Nat) (t : List Nat) (hw : w.word = h :: t)
    (hl : isLetter h = true)
    (hlow : isLower h = true → (∀ x ∈ w.word, isLower x = true) ∧ (w.matchCI = false → w.hasCI = false)) :
    ∃ u r, xform priv w = u :: r ∧ isLetter u = true ∧ ((priv && w.wordOffset == 0) = false → isUpper u = true) := by
  unfold xform
  simp only
  by_cases c1 : (priv && w.wordOffset == 0) = true
  · rw [if_pos c1]
    split
    · refine ⟨loC h, lower t, by rw [hw]; rfl, loC_letter h hl, ?_⟩
      intro hf; rw [c1] at hf; cases hf
    · refine ⟨loC h, t, by rw [hw]; rfl, loC_letter h hl, ?_⟩
      intro hf; rw [c1] at hf; cases hf
  · rw [if_neg c1]
    by_cases c2 : w.matchCI = true
    · rw [if_pos c2]
      exact ⟨upC h, upper t, by rw [hw]; rfl, upper_isLetter _ (upC_letter_upper h hl), fun _ => upC_letter_upper h hl⟩
    · rw [if_neg c2]
      by_cases c3 : (!w.hasCI && (upper w.word == w.word || lower w.word == w.word)) = true
      · rw [if_pos c3]
        refine ⟨upC (loC h), lower t, by rw [hw]; rfl, upper_isLetter _ (upC_loC_letter_upper h hl), fun _ => upC_loC_letter_upper h hl⟩
      · rw [if_neg c3]
        cases hu : isUpper h with
        | true => exact ⟨h, t, hw, hl, fun _ => hu⟩
        | false =>
          exfalso
          have hlo := letter_not_upper_lower h hl hu
          obtain ⟨hall, hci⟩ := hlow hlo
          have hm : w.matchCI = false := by cases hm : w.matchCI <;> simp_all
          apply c3
          rw [hci hm, lower_of_all_lower _ hall]
          simp

/-- what the loop knows about the word in progress whose first character is lower case -/
def HeadInv (cur rest : List Nat) (hci : Bool) : Prop :=
  (cur = [] → hci = false) ∧
  (∀ h t, cur = h :: t → isLower h = true →
    (∀ x ∈ cur, isLower x = true) ∧ hci = false ∧ (∀ d r, rest = d :: r → isLower d = true))

theorem headInv_step (cur : List Nat) (c : Nat) (rest : List Nat) (hci hci' : Bool)
    (inv : HeadInv cur (c :: rest) hci)
    (hnext : ∃ d r, rest = d :: r ∧ (isLower c = true → isLower d = true))
    (hh : hci' = hci ∨ inits.contains (cur ++ [c]) = true) :
    HeadInv (cur ++ [c]) rest hci' := by
  obtain ⟨d, r, hr, hcd⟩ := hnext
  refine ⟨fun h => by simp at h, ?_⟩
  intro h t hcur hlow
  -- all characters of the new word are lower case, and the old flag was false
  have key : (∀ x ∈ cur ++ [c], isLower x = true) ∧ hci = false := by
    cases cur with
    | nil =>
      simp only [List.nil_append, List.cons.injEq] at hcur
      obtain ⟨rfl, _⟩ := hcur
      exact ⟨by simpa using hlow, inv.1 rfl⟩
    | cons a as =>
      simp only [List.cons_append, List.cons.injEq] at hcur
      obtain ⟨rfl, _⟩ := hcur
      obtain ⟨hall, hf, hn⟩ := inv.2 a as rfl hlow
      refine ⟨?_, hf⟩
      intro x hx
      simp only [List.cons_append, List.mem_cons, List.mem_append, List.not_mem_nil, or_false] at hx
      rcases hx with rfl | hx | rfl
      · exact hlow
      · exact hall x (by simp [hx])
      · exact hn x rest rfl
  refine ⟨key.1, ?_, ?_⟩
  · rcases hh with hh | hh
    · rw [hh]; exact key.2
    · have : h ∈ cur ++ [c] := by rw [hcur]; simp
      rw [not_init_of_lower _ h this hlow] at hh
      cases hh
  · intro d' r' hr'
    rw [hr] at hr'
    injection hr' with e1 _
    subst e1
    exact hcd (key.1 c (by simp))

theorem walkAux_first (priv : Bool) (fuel : Nat) : ∀ (wo : Nat) (hci : Bool) (cur rest : List Nat),
    rest ≠ [] → rest.length < fuel → HeadInv cur rest hci →
    (∃ h, (cur ++ rest).head? = some h ∧ isLetter h = true) →
    ∃ w ws, walkAux fuel wo hci cur rest = w :: ws ∧
      ∃ u r, xform priv w = u :: r ∧ isLetter u = true ∧ ((priv && wo == 0) = false → isUpper u = true) := by
  induction fuel with
  | zero => intro _ _ _ _ _ h; omega
  | succ f ih =>
    intro wo hci cur rest hne hlen inv ⟨h, hh, hl⟩
    cases rest with
    | nil => exact absurd rfl hne
    | cons c r =>
      simp only [walkAux]
      cases hs : stepWord wo hci cur c r with
      | cont hci' word rest' =>
        obtain ⟨e1, e2, e3, e4⟩ := stepWord_cont _ _ _ _ _ _ _ _ hs
        simp only
        rw [e1, e2]
        have e3' := e3
        obtain ⟨d, r', hr, _⟩ := e3'
        apply ih wo hci' (cur ++ [c]) r
        · rw [hr]; simp
        · simp only [List.length_cons] at hlen; omega
        · exact headInv_step cur c r hci hci' inv e3 (e1 ▸ e4)
        · exact ⟨h, by simpa using hh, hl⟩
      | emit info rest' =>
        obtain ⟨e1, e2, e3, _, _⟩ := stepWord_emit _ _ _ _ _ _ _ hs
        simp only
        refine ⟨info, _, rfl, ?_⟩
        -- the word starts with h
        have hw : ∃ t, info.word = h :: t := by
          rw [e1]
          cases cur with
          | nil => simp at hh; exact ⟨[], by simp [hh]⟩
          | cons a as => simp at hh; exact ⟨as ++ [c], by simp [hh]⟩
        obtain ⟨t, hw⟩ := hw
        have := xform_head priv info h t hw hl ?_
        · rw [e2] at this; exact this
        · intro hlow
          have key : (∀ x ∈ cur ++ [c], isLower x = true) ∧ hci = false := by
            cases cur with
            | nil =>
              simp only [List.nil_append, List.head?_cons, Option.some.injEq] at hh
              subst hh
              exact ⟨by simpa using hlow, inv.1 rfl⟩
            | cons a as =>
              simp only [List.cons_append, List.head?_cons, Option.some.injEq] at hh
              subst hh
              obtain ⟨hall, hf, hn⟩ := inv.2 a as rfl hlow
              refine ⟨?_, hf⟩
              intro x hx
              simp only [List.cons_append, List.mem_cons, List.mem_append, List.not_mem_nil, or_false] at hx
              rcases hx with rfl | hx | rfl
              · exact hlow
              · exact hall x (by simp [hx])
              · exact hn x r rfl
          refine ⟨by rw [e1]; exact key.1, ?_⟩
          intro hm
          rcases e3 with e3 | ⟨_, e3⟩
          · rw [e3] at hm; cases hm
          · rw [e3]; exact key.2

end GqlgenVerif.Naming

namespace GqlgenVerif.Naming

theorem letter_not_delim (c : Nat) (h : isLetter c = true) : isDelim c = false := by
  simp only [isLetter, isLower, isUpper, isDelim, isSpace, Bool.or_eq_true, Bool.and_eq_true, decide_eq_true_eq,
    Bool.or_eq_false_iff, beq_eq_false_iff_ne, ne_eq, Bool.and_eq_false_iff, decide_eq_false_iff_not] at *
  omega

theorem dropWhile_append_singleton (p : Nat → Bool) (xs : List Nat) (a : Nat) (h : p a = false) :
    (xs ++ [a]).dropWhile p = xs.dropWhile p ++ [a] := by
  induction xs with
  | nil => simp [List.dropWhile, h]
  | cons x t ih =>
    simp only [List.cons_append, List.dropWhile_cons]
    split
    · exact ih
    · rfl

/-- trimming keeps the first non-delimiter character in front -/
theorem trim_head (s : Name) (h : Nat) (t : List Nat) (hs : s.dropWhile isDelim = h :: t) (hd : isDelim h = false) :
    ∃ t', trim s = h :: t' := by
  unfold trim
  rw [hs, List.reverse_cons, dropWhile_append_singleton _ _ _ hd, List.reverse_append]
  exact ⟨_, rfl⟩

/-- the hypothesis of the partial theorems: after leading delimiters the name starts with a letter -/
def StartsWithLetter (name : Name) : Prop := ∃ h t, name.dropWhile isDelim = h :: t ∧ isLetter h = true

theorem walk_first (priv : Bool) (name : Name) (hs : StartsWithLetter name) :
    ∃ u r, (walk name).flatMap (xform priv) = u :: r ∧ isLetter u = true ∧ (priv = false → isUpper u = true) := by
  obtain ⟨h, t, hd, hl⟩ := hs
  obtain ⟨t', ht⟩ := trim_head name h t hd (letter_not_delim h hl)
  unfold walk
  simp only [ht]
  obtain ⟨w, ws, hw, u, r, hx, hlu, hup⟩ := walkAux_first priv ((h :: t').length + 1) 0 false [] (h :: t')
    (by simp) (by omega) ⟨fun _ => rfl, fun _ _ hc => by cases hc⟩ ⟨h, by simp, hl⟩
  refine ⟨u, r ++ ws.flatMap (xform priv), ?_, hlu, ?_⟩
  · rw [hw, List.flatMap_cons, hx]; rfl
  · intro hp
    apply hup
    rw [hp]; rfl

theorem startsWithLetter_ne_underscore (name : Name) (hs : StartsWithLetter name) : (name == underscore) = false := by
  cases h : name == underscore with
  | false => rfl
  | true =>
    have : name = underscore := by simpa using h
    obtain ⟨a, t, hd, _⟩ := hs
    rw [this] at hd
    simp [underscore, List.dropWhile, isDelim] at hd

theorem suffix_chars : ∀ c ∈ suffix, isIdentChar c = true := by decide

end GqlgenVerif.Naming
