import GqlgenVerif.Lemmas.ComplexitySwitch
import GqlgenVerif.Model.ComplexityLabel
/-! Helper lemmas for `Props/C14Label.lean`: `typeName + "." + field` is injective on names without a dot;
`find?` over two lists built from the same groups with pointwise-equal predicates. -/
namespace GqlgenVerif.Lemmas.ComplexityLabel
open GqlgenVerif.FieldMap GqlgenVerif.Gen.UniqueFields GqlgenVerif.ComplexitySwitch GqlgenVerif.ComplexityLabel

theorem split_dot : ∀ (a a' b b' : List Char), '.' ∉ a → '.' ∉ a' → a ++ '.' :: b = a' ++ '.' :: b' → a = a' ∧ b = b'
  | [], [], b, b', _, _, h => by simpa using h
  | [], c :: cs, b, b', _, ha', h => by
    simp only [List.nil_append, List.cons_append, List.cons.injEq] at h
    exact absurd (h.1 ▸ List.mem_cons_self) ha'
  | c :: cs, [], b, b', ha, _, h => by
    simp only [List.nil_append, List.cons_append, List.cons.injEq] at h
    exact absurd (h.1 ▸ List.mem_cons_self) ha
  | c :: cs, c' :: cs', b, b', ha, ha', h => by
    simp only [List.cons_append, List.cons.injEq] at h
    have := split_dot cs cs' b b' (fun hm => ha (List.mem_cons_of_mem _ hm)) (fun hm => ha' (List.mem_cons_of_mem _ hm)) h.2
    exact ⟨by rw [h.1, this.1], this.2⟩

theorem key_toList (t f : String) : (t ++ "." ++ f).toList = t.toList ++ '.' :: f.toList := by
  simp [String.toList_append]

theorem option_map_or {α β : Type} (f : α → β) (a b : Option α) : (a.or b).map f = (a.map f).or (b.map f) := by
  cases a <;> rfl

theorem find_congr {α : Type} {p q : α → Bool} : ∀ (l : List α), (∀ x ∈ l, p x = q x) → l.find? p = l.find? q
  | [], _ => rfl
  | a :: l, h => by
    have ha := h a List.mem_cons_self
    have ih := find_congr l fun x hx => h x (List.mem_cons_of_mem _ hx)
    simp only [List.find?_cons, ha, ih]

end GqlgenVerif.Lemmas.ComplexityLabel
