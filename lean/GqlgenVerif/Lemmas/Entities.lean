import GqlgenVerif.Model.Entities
/-!
Lemmas about the `_entities` model (C20): grouping keeps indices and partitions the valid positions; tasks
write only inside their own index set; effects with disjoint targets commute, hence every completion order
gives the same list; the cell of an index is decided by the one task that owns it.
-/
namespace GqlgenVerif.Entities

/-! ## A. grouping -/

/-- all indices mentioned by the groups -/
def gidxs (g : Groups) : List Nat := g.flatMap fun p => p.2.map (·.1)

/-- positions whose representation has a string `__typename`, ascending from `i` -/
def validFrom (i : Nat) : List Rep → List Nat
  | [] => []
  | r :: rest => (if (typenameOf r).isSome then [i] else []) ++ validFrom (i + 1) rest

@[simp] theorem gidxs_nil : gidxs [] = [] := rfl
@[simp] theorem gidxs_cons (p : String × List (Nat × Rep)) (g : Groups) :
    gidxs (p :: g) = p.2.map (·.1) ++ gidxs g := by simp [gidxs]

theorem gidxs_addFront (ty : String) (x : Nat × Rep) (g : Groups) :
    (gidxs (addFront ty x g)).Perm (x.1 :: gidxs g) := by
  induction g with
  | nil => simp [addFront]
  | cons p g ih =>
    obtain ⟨t, xs⟩ := p
    simp only [addFront]
    split
    · simp
    · simp only [gidxs_cons]
      exact (List.Perm.append_left _ ih).trans List.perm_middle

theorem gidxs_groupsFrom (i : Nat) (reps : List Rep) :
    (gidxs (groupsFrom i reps)).Perm (validFrom i reps) := by
  induction reps generalizing i with
  | nil => simp [groupsFrom, validFrom]
  | cons r rest ih =>
    simp only [groupsFrom, validFrom]
    cases h : typenameOf r with
    | none => simpa using ih (i + 1)
    | some ty =>
      simp only [Option.isSome_some, if_true, List.singleton_append]
      exact (gidxs_addFront ty (i, r) _).trans (List.Perm.cons _ (ih (i + 1)))

theorem validFrom_bounds (i : Nat) (reps : List Rep) :
    ∀ j ∈ validFrom i reps, i ≤ j ∧ j < i + reps.length := by
  induction reps generalizing i with
  | nil => simp [validFrom]
  | cons r rest ih =>
    intro j hj
    simp only [validFrom, List.mem_append] at hj
    rcases hj with hj | hj
    · split at hj
      · simp at hj; subst hj; simp
      · simp at hj
    · have := ih (i + 1) j hj
      simp only [List.length_cons]; omega

theorem validFrom_sorted (i : Nat) (reps : List Rep) : (validFrom i reps).Pairwise (· < ·) := by
  induction reps generalizing i with
  | nil => simp [validFrom]
  | cons r rest ih =>
    simp only [validFrom]
    rw [List.pairwise_append]
    refine ⟨?_, ih (i + 1), ?_⟩
    · split <;> simp
    · intro a ha b hb
      have := validFrom_bounds (i + 1) rest b hb
      split at ha
      · simp at ha; omega
      · simp at ha

theorem validFrom_nodup (i : Nat) (reps : List Rep) : (validFrom i reps).Nodup :=
  (validFrom_sorted i reps).imp (fun h => Nat.ne_of_lt h)

/-- membership in `validFrom`, stated on the whole list `pre ++ suf` -/
theorem mem_validFrom (pre suf : List Rep) (j : Nat) :
    j ∈ validFrom pre.length suf ↔
      pre.length ≤ j ∧ ∃ r, (pre ++ suf)[j]? = some r ∧ (typenameOf r).isSome := by
  induction suf generalizing pre with
  | nil =>
    simp only [validFrom, List.not_mem_nil, List.append_nil, false_iff]
    rintro ⟨h1, r, h2, _⟩
    have := (List.getElem?_eq_some_iff.mp h2).1
    omega
  | cons r rest ih =>
    have e1 : (pre ++ [r]).length = pre.length + 1 := by simp
    have e2 : pre ++ r :: rest = (pre ++ [r]) ++ rest := by simp
    simp only [validFrom, List.mem_append]
    rw [← e1, ih (pre ++ [r]), e1, e2]
    constructor
    · rintro (h | ⟨h1, h2⟩)
      · split at h
        · rename_i ht
          simp at h; subst h
          refine ⟨Nat.le_refl _, r, ?_, ht⟩
          simp
        · simp at h
      · exact ⟨by omega, h2⟩
    · rintro ⟨h1, r', h2, h3⟩
      by_cases hj : j = pre.length
      · left
        subst hj
        have : r' = r := by simpa using h2.symm
        subst this
        simp [h3]
      · right
        exact ⟨by omega, r', h2, h3⟩

theorem mem_addFront {ty : String} {x : Nat × Rep} {g : Groups} {t : String} {xs : List (Nat × Rep)}
    (h : (t, xs) ∈ addFront ty x g) :
    (t, xs) ∈ g ∨ (t = ty ∧ ∃ xs', xs = x :: xs' ∧ (xs' = [] ∨ (ty, xs') ∈ g)) := by
  induction g with
  | nil =>
    simp only [addFront, List.mem_singleton, Prod.mk.injEq] at h
    exact Or.inr ⟨h.1, [], h.2, Or.inl rfl⟩
  | cons p g ih =>
    obtain ⟨t', xs'⟩ := p
    simp only [addFront] at h
    split at h
    · rename_i heq
      subst heq
      simp only [List.mem_cons, Prod.mk.injEq] at h
      rcases h with ⟨h1, h2⟩ | h
      · exact Or.inr ⟨h1, xs', h2, Or.inr (by simp)⟩
      · exact Or.inl (by simp [h])
    · simp only [List.mem_cons, Prod.mk.injEq] at h
      rcases h with ⟨h1, h2⟩ | h
      · exact Or.inl (by simp [h1, h2])
      · rcases ih h with h | ⟨h1, ys, h2, h3⟩
        · exact Or.inl (by simp [h])
        · refine Or.inr ⟨h1, ys, h2, ?_⟩
          rcases h3 with h3 | h3
          · exact Or.inl h3
          · exact Or.inr (by simp [h3])

/-- every member of a group is the representation at that index and has the group's `__typename` -/
theorem groupsFrom_sound (pre suf : List Rep) {t : String} {xs : List (Nat × Rep)}
    (h : (t, xs) ∈ groupsFrom pre.length suf) :
    ∀ p ∈ xs, (pre ++ suf)[p.1]? = some p.2 ∧ typenameOf p.2 = some t ∧ pre.length ≤ p.1 := by
  induction suf generalizing pre t xs with
  | nil => simp [groupsFrom] at h
  | cons r rest ih =>
    have e1 : (pre ++ [r]).length = pre.length + 1 := by simp
    have e2 : pre ++ r :: rest = (pre ++ [r]) ++ rest := by simp
    simp only [groupsFrom] at h
    rw [← e1] at h
    have ih' : ∀ {t : String} {xs : List (Nat × Rep)}, (t, xs) ∈ groupsFrom (pre ++ [r]).length rest →
        ∀ p ∈ xs, (pre ++ r :: rest)[p.1]? = some p.2 ∧ typenameOf p.2 = some t ∧ pre.length ≤ p.1 := by
      intro t xs h p hp
      have := ih (pre ++ [r]) h p hp
      rw [← e2, e1] at this
      exact ⟨this.1, this.2.1, by omega⟩
    cases hty : typenameOf r with
    | none => rw [hty] at h; exact ih' h
    | some ty =>
      rw [hty] at h
      rcases mem_addFront h with h | ⟨h1, ys, h2, h3⟩
      · exact ih' h
      · subst h1 h2
        intro p hp
        simp only [List.mem_cons] at hp
        rcases hp with hp | hp
        · subst hp
          simp [hty]
        · rcases h3 with h3 | h3
          · subst h3; simp at hp
          · exact ih' h3 p hp

theorem addFront_keeps {ty : String} {x : Nat × Rep} {g : Groups} {t : String} {xs : List (Nat × Rep)}
    (h : (t, xs) ∈ g) : ∃ xs', (t, xs') ∈ addFront ty x g ∧ ∀ p ∈ xs, p ∈ xs' := by
  induction g with
  | nil => simp at h
  | cons q g ih =>
    obtain ⟨t', ys⟩ := q
    simp only [addFront]
    simp only [List.mem_cons, Prod.mk.injEq] at h
    split
    · rename_i heq
      rcases h with ⟨h1, h2⟩ | h
      · subst h1 h2
        exact ⟨x :: xs, by simp, fun p hp => by simp [hp]⟩
      · exact ⟨xs, by simp [h], fun p hp => hp⟩
    · rcases h with ⟨h1, h2⟩ | h
      · subst h1 h2
        exact ⟨xs, by simp, fun p hp => hp⟩
      · obtain ⟨xs', h1, h2⟩ := ih h
        exact ⟨xs', by simp [h1], h2⟩

theorem addFront_has (ty : String) (x : Nat × Rep) (g : Groups) :
    ∃ xs', (ty, xs') ∈ addFront ty x g ∧ x ∈ xs' := by
  induction g with
  | nil => exact ⟨[x], by simp [addFront], by simp⟩
  | cons q g ih =>
    obtain ⟨t', ys⟩ := q
    simp only [addFront]
    split
    · rename_i heq
      subst heq
      exact ⟨x :: ys, by simp, by simp⟩
    · obtain ⟨xs', h1, h2⟩ := ih
      exact ⟨xs', by simp [h1], h2⟩

/-- every representation with a string `__typename` is a member of the group of that name, with its index -/
theorem groupsFrom_complete (pre suf : List Rep) (j : Nat) (r : Rep) (ty : String)
    (hj : pre.length ≤ j) (hr : (pre ++ suf)[j]? = some r) (hty : typenameOf r = some ty) :
    ∃ xs, (ty, xs) ∈ groupsFrom pre.length suf ∧ (j, r) ∈ xs := by
  induction suf generalizing pre with
  | nil =>
    simp only [List.append_nil] at hr
    have := (List.getElem?_eq_some_iff.mp hr).1
    omega
  | cons r0 rest ih =>
    have e1 : (pre ++ [r0]).length = pre.length + 1 := by simp
    have e2 : pre ++ r0 :: rest = (pre ++ [r0]) ++ rest := by simp
    simp only [groupsFrom]
    by_cases hjj : j = pre.length
    · subst hjj
      have : r0 = r := by simpa using hr
      subst this
      rw [hty]
      exact addFront_has ty (pre.length, r0) _
    · have := ih (pre ++ [r0]) (by rw [e1]; omega) (by rw [← e2]; exact hr)
      rw [e1] at this
      obtain ⟨xs, h1, h2⟩ := this
      cases h0 : typenameOf r0 with
      | none => exact ⟨xs, h1, h2⟩
      | some t0 =>
        obtain ⟨xs', h3, h4⟩ := addFront_keeps (ty := t0) (x := (pre.length, r0)) h1
        exact ⟨xs', h3, h4 _ h2⟩

theorem addFront_keys (ty : String) (x : Nat × Rep) (g : Groups) (h : (g.map (·.1)).Nodup) :
    ((addFront ty x g).map (·.1)).Nodup ∧ ∀ t, t ∈ (addFront ty x g).map (·.1) → t = ty ∨ t ∈ g.map (·.1) := by
  induction g with
  | nil => simp [addFront]
  | cons q g ih =>
    obtain ⟨t', ys⟩ := q
    simp only [List.map_cons, List.nodup_cons] at h
    simp only [addFront]
    split
    · rename_i heq
      subst heq
      refine ⟨by simpa using h, ?_⟩
      intro t ht
      simp only [List.map_cons, List.mem_cons] at ht ⊢
      rcases ht with ht | ht
      · exact Or.inl ht
      · exact Or.inr (Or.inr ht)
    · rename_i hne
      obtain ⟨ih1, ih2⟩ := ih h.2
      refine ⟨?_, ?_⟩
      · simp only [List.map_cons, List.nodup_cons]
        refine ⟨?_, ih1⟩
        intro hm
        rcases ih2 _ hm with h' | h'
        · exact hne h'
        · exact h.1 h'
      · intro t ht
        simp only [List.map_cons, List.mem_cons] at ht ⊢
        rcases ht with ht | ht
        · exact Or.inr (Or.inl ht)
        · rcases ih2 _ ht with h' | h'
          · exact Or.inl h'
          · exact Or.inr (Or.inr h')

/-- one group per `__typename` -/
theorem groupsFrom_keys_nodup (i : Nat) (reps : List Rep) : ((groupsFrom i reps).map (·.1)).Nodup := by
  induction reps generalizing i with
  | nil => simp [groupsFrom]
  | cons r rest ih =>
    simp only [groupsFrom]
    cases typenameOf r with
    | none => exact ih (i + 1)
    | some ty => exact (addFront_keys ty (i, r) _ (ih (i + 1))).1

/-! ## B. tasks own their indices; writes stay inside -/

theorem groupTasks_idxs (cfg : Cfg) (g : String × List (Nat × Rep)) :
    (groupTasks cfg g).flatMap Task.idxs = g.2.map (·.1) := by
  simp only [groupTasks]
  split
  · simp [Task.idxs]
  · induction g.2 with
    | nil => simp
    | cons x xs ih => simp [Task.idxs, ih]

theorem tasksOf_idxs (cfg : Cfg) (g : Groups) : (tasksOf cfg g).flatMap Task.idxs = gidxs g := by
  induction g with
  | nil => simp [tasksOf]
  | cons p g ih =>
    simp only [tasksOf, List.flatMap_cons, List.flatMap_append, gidxs_cons] at ih ⊢
    rw [groupTasks_idxs, ih]

theorem zipWrite_targets (e : EntityCfg) (es : List (Option String)) (reps : List (Nat × Rep)) :
    ∀ w ∈ (zipWrite e es reps).1, w.1 ∈ reps.map (·.1) := by
  induction es generalizing reps with
  | nil => simp [zipWrite]
  | cons o es ih =>
    cases reps with
    | nil => simp [zipWrite]
    | cons p reps =>
      obtain ⟨i, rep⟩ := p
      simp only [zipWrite]
      split
      · simp
      · intro w hw
        simp only [List.mem_cons] at hw
        rcases hw with hw | hw
        · subst hw; simp
        · have := ih reps w hw
          simp only [List.map_cons, List.mem_cons]
          exact Or.inr this

theorem resolveMany_targets (cfg : Cfg) (u : User) (ty : String) (reps : List (Nat × Rep)) :
    ∀ w ∈ (resolveMany cfg u ty reps).1, w.1 ∈ reps.map (·.1) := by
  unfold resolveMany
  split
  · simp
  · simp
  · rename_i e i0 rep0 rest
    split
    · simp
    · split
      · simp
      · split
        · simp
        · simp
        · split
          · simp
          · exact zipWrite_targets _ _ _

/-- a task writes only at indices it owns -/
theorem effect_targets (cfg : Cfg) (u : User) (t : Task) :
    ∀ w ∈ (t.effect cfg u).writes, w.1 ∈ t.idxs := by
  cases t with
  | single ty i rep =>
    simp only [Task.effect, Task.idxs]
    split <;> simp
  | multi ty reps =>
    simp only [Task.effect, Task.idxs]
    exact resolveMany_targets cfg u ty reps

def Eff.targets (e : Eff) : List Nat := e.writes.map (·.1)

/-- two effects never write the same cell -/
def Eff.Disjoint (a b : Eff) : Prop := ∀ i, i ∈ a.targets → i ∉ b.targets

theorem Eff.Disjoint.symm {a b : Eff} (h : Eff.Disjoint a b) : Eff.Disjoint b a :=
  fun i hb ha => h i ha hb

theorem tasks_idxs_nodup (cfg : Cfg) (reps : List Rep) : ((tasks cfg reps).flatMap Task.idxs).Nodup := by
  rw [tasks, tasksOf_idxs, groupsOf]
  exact (gidxs_groupsFrom 0 reps).nodup_iff.mpr (validFrom_nodup 0 reps)

/-- the index sets of distinct tasks are disjoint -/
theorem tasks_pairwise_disjoint (cfg : Cfg) (reps : List Rep) :
    (tasks cfg reps).Pairwise (fun a b => ∀ i, i ∈ a.idxs → i ∉ b.idxs) := by
  have h := tasks_idxs_nodup cfg reps
  rw [List.Nodup, List.pairwise_flatMap] at h
  exact h.2.imp (fun {a b} hab i ha hb => hab i ha i hb rfl)

theorem effects_pairwise_disjoint (cfg : Cfg) (u : User) (reps : List Rep) :
    (effects cfg u reps).Pairwise Eff.Disjoint := by
  rw [effects, List.pairwise_map]
  refine (tasks_pairwise_disjoint cfg reps).imp ?_
  intro a b hab i ha hb
  simp only [Eff.targets, List.mem_map] at ha hb
  obtain ⟨w, hw, rfl⟩ := ha
  obtain ⟨w', hw', hww⟩ := hb
  exact hab _ (effect_targets cfg u a w hw) (hww ▸ effect_targets cfg u b w' hw')

/-! ## C. effects with disjoint targets commute: every completion order gives the same list -/

def applyAll (effs : List Eff) (l : List (Option Ent)) : List (Option Ent) :=
  effs.foldl (fun l e => applyWrites e.writes l) l

theorem runE_errs (effs : List Eff) (s : St) : (runE effs s).errs = s.errs ++ effs.flatMap (·.errs) := by
  induction effs generalizing s with
  | nil => simp [runE]
  | cons e effs ih =>
    simp only [runE, List.foldl_cons] at ih ⊢
    rw [ih]; simp [St.apply]

theorem runE_list (effs : List Eff) (s : St) : (runE effs s).list = applyAll effs s.list := by
  induction effs generalizing s with
  | nil => simp [runE, applyAll]
  | cons e effs ih =>
    simp only [runE, applyAll, List.foldl_cons] at ih ⊢
    rw [ih]; simp [St.apply]

theorem applyWrites_set (ws : List (Nat × Ent)) (l : List (Option Ent)) (i : Nat) (x : Option Ent)
    (h : i ∉ ws.map (·.1)) : applyWrites ws (l.set i x) = (applyWrites ws l).set i x := by
  induction ws generalizing l with
  | nil => simp [applyWrites]
  | cons w ws ih =>
    simp only [List.map_cons, List.mem_cons, not_or] at h
    simp only [applyWrites, List.foldl_cons] at ih ⊢
    rw [List.set_comm _ _ h.1, ih _ h.2]

theorem applyWrites_comm (a b : List (Nat × Ent)) (l : List (Option Ent))
    (h : ∀ i, i ∈ a.map (·.1) → i ∉ b.map (·.1)) :
    applyWrites b (applyWrites a l) = applyWrites a (applyWrites b l) := by
  induction a generalizing l with
  | nil => simp [applyWrites]
  | cons w a ih =>
    have h1 : w.1 ∉ b.map (·.1) := h w.1 (by simp)
    have h2 : ∀ i, i ∈ a.map (·.1) → i ∉ b.map (·.1) := fun i hi => h i (by simp [hi])
    have e : ∀ l, applyWrites (w :: a) l = applyWrites a (l.set w.1 (some w.2)) := by
      intro l; simp [applyWrites]
    rw [e, e, ih _ h2, applyWrites_set b l w.1 _ h1]

theorem applyAll_perm {l l' : List Eff} (h : l.Perm l') (hp : l.Pairwise Eff.Disjoint)
    (s : List (Option Ent)) : applyAll l s = applyAll l' s := by
  induction h generalizing s with
  | nil => rfl
  | cons x _ ih =>
    simp only [applyAll, List.foldl_cons]
    exact ih (List.pairwise_cons.mp hp).2 _
  | swap x y l =>
    simp only [applyAll, List.foldl_cons]
    have hxy : Eff.Disjoint y x := (List.pairwise_cons.mp hp).1 x (by simp)
    rw [applyWrites_comm y.writes x.writes s hxy]
  | trans h1 _ ih1 ih2 =>
    rw [ih1 hp, ih2 ((h1.pairwise_iff (fun h => Eff.Disjoint.symm h)).mp hp)]

/-- **any completion order**: same list, the same errors up to order -/
theorem runE_perm {l l' : List Eff} (h : l.Perm l') (hp : l.Pairwise Eff.Disjoint) (s : St) :
    (runE l s).list = (runE l' s).list ∧ (runE l s).errs.Perm (runE l' s).errs := by
  refine ⟨?_, ?_⟩
  · rw [runE_list, runE_list]; exact applyAll_perm h hp _
  · rw [runE_errs, runE_errs]
    exact List.Perm.append_left _ (h.flatMap_right _)

/-! ## D. the cell of an index is decided by the one task that owns it -/

theorem applyWrites_length (ws : List (Nat × Ent)) (l : List (Option Ent)) :
    (applyWrites ws l).length = l.length := by
  induction ws generalizing l with
  | nil => simp [applyWrites]
  | cons w ws ih =>
    simp only [applyWrites, List.foldl_cons] at ih ⊢
    rw [ih]; simp

theorem applyWrites_get_ne (ws : List (Nat × Ent)) (l : List (Option Ent)) (i : Nat)
    (h : i ∉ ws.map (·.1)) : (applyWrites ws l)[i]? = l[i]? := by
  induction ws generalizing l with
  | nil => simp [applyWrites]
  | cons w ws ih =>
    simp only [List.map_cons, List.mem_cons, not_or] at h
    simp only [applyWrites, List.foldl_cons] at ih ⊢
    rw [ih _ h.2, List.getElem?_set_ne (Ne.symm h.1)]

/-- what `applyWrites` leaves in cell `i` depends only on what was there -/
theorem applyWrites_get_congr (ws : List (Nat × Ent)) (l l' : List (Option Ent)) (i : Nat)
    (h : l[i]? = l'[i]?) : (applyWrites ws l)[i]? = (applyWrites ws l')[i]? := by
  induction ws generalizing l l' with
  | nil => simpa [applyWrites] using h
  | cons w ws ih =>
    simp only [applyWrites, List.foldl_cons] at ih ⊢
    apply ih
    rw [List.getElem?_set, List.getElem?_set]
    by_cases hw : w.1 = i
    · subst hw
      by_cases hl : w.1 < l.length
      · have hl' : w.1 < l'.length := by
          apply Classical.byContradiction
          intro hc
          have : l'[w.1]? = none := List.getElem?_eq_none (by omega)
          rw [← h, List.getElem?_eq_getElem hl] at this; simp at this
        simp [hl, hl']
      · have hl' : ¬ w.1 < l'.length := by
          intro hc
          have : l[w.1]? = none := List.getElem?_eq_none (by omega)
          rw [h, List.getElem?_eq_getElem hc] at this; simp at this
        simp [hl, hl']
    · simp [hw, h]

theorem applyAll_notouch (effs : List Eff) (l : List (Option Ent)) (i : Nat)
    (h : ∀ e ∈ effs, i ∉ e.targets) : (applyAll effs l)[i]? = l[i]? := by
  induction effs generalizing l with
  | nil => simp [applyAll]
  | cons e effs ih =>
    simp only [applyAll, List.foldl_cons] at ih ⊢
    rw [ih _ (fun x hx => h x (by simp [hx]))]
    exact applyWrites_get_ne _ _ _ (h e (by simp))

theorem applyAll_append (a b : List Eff) (l : List (Option Ent)) :
    applyAll (a ++ b) l = applyAll b (applyAll a l) := by
  simp [applyAll]

/-- if nothing else touches `i`, cell `i` is what the owner's writes make of the initial cell -/
theorem applyAll_owner (l1 l2 : List Eff) (e : Eff) (l : List (Option Ent)) (i : Nat)
    (h1 : ∀ x ∈ l1, i ∉ x.targets) (h2 : ∀ x ∈ l2, i ∉ x.targets) :
    (applyAll (l1 ++ e :: l2) l)[i]? = (applyWrites e.writes l)[i]? := by
  rw [applyAll_append]
  show (applyAll l2 (applyWrites e.writes (applyAll l1 l)))[i]? = _
  rw [applyAll_notouch _ _ _ h2]
  exact applyWrites_get_congr _ _ _ _ (applyAll_notouch _ _ _ h1)

theorem entities_list (cfg : Cfg) (u : User) (reps : List Rep) :
    (entities cfg u reps).list = applyAll (effects cfg u reps) (initSt reps).list := by
  simp [entities, runOrder, runE_list, effects]

theorem cell_of_owner (cfg : Cfg) (u : User) (reps : List Rep) (t : Task) (ht : t ∈ tasks cfg reps)
    (i : Nat) (hi : i ∈ t.idxs) :
    (entities cfg u reps).list[i]? = (applyWrites (t.effect cfg u).writes (initSt reps).list)[i]? := by
  obtain ⟨l1, l2, hl⟩ := List.append_of_mem ht
  have hp := tasks_pairwise_disjoint cfg reps
  rw [hl, List.pairwise_append, List.pairwise_cons] at hp
  obtain ⟨_, ⟨hr, _⟩, hl1⟩ := hp
  rw [entities_list, effects, hl, List.map_append, List.map_cons]
  apply applyAll_owner
  · intro x hx
    obtain ⟨a, ha, rfl⟩ := List.mem_map.mp hx
    intro hti
    obtain ⟨w, hw, hwi⟩ := List.mem_map.mp hti
    exact hl1 a ha t (by simp) i (hwi ▸ effect_targets cfg u a w hw) hi
  · intro x hx
    obtain ⟨a, ha, rfl⟩ := List.mem_map.mp hx
    intro hti
    obtain ⟨w, hw, hwi⟩ := List.mem_map.mp hti
    exact hr a ha i hi (hwi ▸ effect_targets cfg u a w hw)

theorem cell_unowned (cfg : Cfg) (u : User) (reps : List Rep) (i : Nat)
    (h : ∀ t ∈ tasks cfg reps, i ∉ t.idxs) :
    (entities cfg u reps).list[i]? = (initSt reps).list[i]? := by
  rw [entities_list]
  apply applyAll_notouch
  intro e he
  obtain ⟨a, ha, rfl⟩ := List.mem_map.mp he
  intro hti
  obtain ⟨w, hw, hwi⟩ := List.mem_map.mp hti
  exact h a ha (hwi ▸ effect_targets cfg u a w hw)

theorem mem_tasks_idxs_iff (cfg : Cfg) (reps : List Rep) (i : Nat) :
    (∃ t ∈ tasks cfg reps, i ∈ t.idxs) ↔ i ∈ validFrom 0 reps := by
  rw [← (gidxs_groupsFrom 0 reps).mem_iff, ← groupsOf, ← tasksOf_idxs cfg, ← tasks, List.mem_flatMap]

theorem single_task_mem (cfg : Cfg) (reps : List Rep) (i : Nat) (r : Rep) (ty : String)
    (hr : reps[i]? = some r) (hty : typenameOf r = some ty) (hm : cfg.isMulti ty = false) :
    Task.single ty i r ∈ tasks cfg reps := by
  obtain ⟨xs, h1, h2⟩ := groupsFrom_complete [] reps i r ty (by simp) (by simpa using hr) hty
  simp only [tasks, tasksOf, List.mem_flatMap]
  refine ⟨(ty, xs), h1, ?_⟩
  simp only [groupTasks, hm, Bool.false_eq_true, if_false, List.mem_map]
  exact ⟨(i, r), h2, rfl⟩

theorem multi_task_mem (cfg : Cfg) (reps : List Rep) (i : Nat) (r : Rep) (ty : String)
    (hr : reps[i]? = some r) (hty : typenameOf r = some ty) (hm : cfg.isMulti ty = true) :
    ∃ xs, Task.multi ty xs ∈ tasks cfg reps ∧ (i, r) ∈ xs ∧ (ty, xs) ∈ groupsOf reps := by
  obtain ⟨xs, h1, h2⟩ := groupsFrom_complete [] reps i r ty (by simp) (by simpa using hr) hty
  refine ⟨xs, ?_, h2, h1⟩
  simp only [tasks, tasksOf, List.mem_flatMap]
  refine ⟨(ty, xs), h1, ?_⟩
  simp [groupTasks, hm]

theorem initSt_get (reps : List Rep) (i : Nat) (h : i < reps.length) : (initSt reps).list[i]? = some none := by
  simp [initSt, h]

theorem lt_of_get {reps : List Rep} {i : Nat} {r : Rep} (h : reps[i]? = some r) : i < reps.length :=
  (List.getElem?_eq_some_iff.mp h).1

/-- a write list with distinct targets leaves exactly the written entity in a targeted cell -/
theorem applyWrites_get_mem (ws : List (Nat × Ent)) (l : List (Option Ent)) (i : Nat) (e : Ent)
    (hn : (ws.map (·.1)).Nodup) (hm : (i, e) ∈ ws) (hi : i < l.length) :
    (applyWrites ws l)[i]? = some (some e) := by
  induction ws generalizing l with
  | nil => simp at hm
  | cons w ws ih =>
    simp only [List.map_cons, List.nodup_cons] at hn
    simp only [applyWrites, List.foldl_cons] at ih ⊢
    simp only [List.mem_cons] at hm
    rcases hm with hm | hm
    · subst hm
      have := applyWrites_get_ne ws (l.set i (some e)) i hn.1
      simp only [applyWrites] at this
      rw [this, List.getElem?_set_self hi]
    · exact ih _ hn.2 hm (by simpa using hi)

/-! ## E. the batch path's positional zip -/

/-- what the zip loop stores for a returned element `o` paired with the representation `p` -/
def zipEnt (e : EntityCfg) (o : Option String) (p : Nat × Rep) : Except String (Nat × Ent) :=
  match assignRequires p.2 o.isNone e.requires with
  | .ok q => .ok (p.1, { ty := e.name, tag := o.getD "", isNil := o.isNone, req := q })
  | .error m => .error m

theorem zipEnt_fst {e : EntityCfg} {o : Option String} {p : Nat × Rep} {w : Nat × Ent}
    (h : zipEnt e o p = .ok w) : w.1 = p.1 := by
  simp only [zipEnt] at h
  split at h
  · simp only [Except.ok.injEq] at h; rw [← h]
  · simp at h

/-- every write pairs the k-th returned element with the k-th representation (index and `@requires`) -/
theorem zipWrite_sound (e : EntityCfg) (es : List (Option String)) (rs : List (Nat × Rep)) :
    ∀ w ∈ (zipWrite e es rs).1, ∃ x ∈ es.zip rs, zipEnt e x.1 x.2 = .ok w := by
  induction es generalizing rs with
  | nil => simp [zipWrite]
  | cons o es ih =>
    cases rs with
    | nil => simp [zipWrite]
    | cons p rs =>
      obtain ⟨i, rep⟩ := p
      simp only [zipWrite]
      cases hq : assignRequires rep o.isNone e.requires with
      | error m => simp
      | ok q =>
        intro w hw
        simp only [List.mem_cons] at hw
        rcases hw with hw | hw
        · subst hw
          exact ⟨(o, (i, rep)), by simp, by simp [zipEnt, hq]⟩
        · obtain ⟨x, hx, hx2⟩ := ih rs w hw
          exact ⟨x, by simp [hx], hx2⟩

/-- if the loop ended without a failure, every pair of the zip was written -/
theorem zipWrite_complete (e : EntityCfg) (es : List (Option String)) (rs : List (Nat × Rep))
    (h : (zipWrite e es rs).2 = none) :
    es.length ≤ rs.length ∧ ∀ x ∈ es.zip rs, ∃ w ∈ (zipWrite e es rs).1, zipEnt e x.1 x.2 = .ok w := by
  induction es generalizing rs with
  | nil => simp [zipWrite]
  | cons o es ih =>
    cases rs with
    | nil => simp [zipWrite, msgIndex] at h
    | cons p rs =>
      obtain ⟨i, rep⟩ := p
      simp only [zipWrite] at h ⊢
      cases hq : assignRequires rep o.isNone e.requires with
      | error m => simp [hq] at h
      | ok q =>
        simp only [hq] at h ⊢
        obtain ⟨ih1, ih2⟩ := ih rs h
        refine ⟨by simp; omega, ?_⟩
        intro x hx
        simp only [List.zip_cons_cons, List.mem_cons] at hx
        rcases hx with hx | hx
        · subst hx
          exact ⟨(i, { ty := e.name, tag := o.getD "", isNil := o.isNone, req := q }), by simp,
            by simp [zipEnt, hq]⟩
        · obtain ⟨w, hw, hw2⟩ := ih2 x hx
          exact ⟨w, by simp [hw], hw2⟩

/-- the loop does not fail when the lengths agree and no `@requires` assignment fails -/
theorem zipWrite_ok (e : EntityCfg) (es : List (Option String)) (rs : List (Nat × Rep))
    (hlen : es.length = rs.length) (hall : ∀ x ∈ es.zip rs, ∃ w, zipEnt e x.1 x.2 = .ok w) :
    (zipWrite e es rs).2 = none := by
  induction es generalizing rs with
  | nil => simp [zipWrite]
  | cons o es ih =>
    cases rs with
    | nil => simp at hlen
    | cons p rs =>
      obtain ⟨i, rep⟩ := p
      simp only [zipWrite]
      obtain ⟨w, hw⟩ := hall (o, (i, rep)) (by simp)
      cases hq : assignRequires rep o.isNone e.requires with
      | error m => simp [zipEnt, hq] at hw
      | ok q =>
        simp only
        exact ih rs (by simpa using hlen) (fun x hx => hall x (by simp [hx]))

theorem zipWrite_targets_sublist (e : EntityCfg) (es : List (Option String)) (rs : List (Nat × Rep)) :
    ((zipWrite e es rs).1.map (·.1)).Sublist (rs.map (·.1)) := by
  induction es generalizing rs with
  | nil => simp [zipWrite]
  | cons o es ih =>
    cases rs with
    | nil => simp [zipWrite]
    | cons p rs =>
      obtain ⟨i, rep⟩ := p
      simp only [zipWrite]
      cases hq : assignRequires rep o.isNone e.requires with
      | error m => simp
      | ok q =>
        simp only [List.map_cons]
        exact (ih rs).cons_cons _

/-- the k-th input of the batch call was read from the k-th representation of the group -/
theorem typedReps_zip (r : ResolverCfg) (rs : List (Nat × Rep)) (argss : List (List KV))
    (h : typedReps r rs = .ok argss) :
    argss.length = rs.length ∧
    ∀ x ∈ argss.zip rs,
      keyArgs x.2.2 (fun _ k _ => s!"Field {k.defName} undefined in schema.") r.keys 0 = .ok x.1 := by
  induction rs generalizing argss with
  | nil => simp [typedReps] at h; subst h; simp
  | cons p rs ih =>
    obtain ⟨i, rep⟩ := p
    simp only [typedReps] at h
    cases hk : keyArgs rep (fun _ k _ => s!"Field {k.defName} undefined in schema.") r.keys 0 with
    | error m => simp [hk] at h
    | ok a =>
      simp only [hk] at h
      cases hrest : typedReps r rs with
      | error m => simp [hrest] at h
      | ok as =>
        simp only [hrest, Except.ok.injEq] at h
        subst h
        obtain ⟨ih1, ih2⟩ := ih as hrest
        refine ⟨by simp [ih1], ?_⟩
        intro x hx
        simp only [List.zip_cons_cons, List.mem_cons] at hx
        rcases hx with hx | hx
        · subst hx; exact hk
        · exact ih2 x hx

/-- whether a key value unmarshals does not depend on how the failure would be worded -/
theorem keyArgs_ok_irrel (rep : Rep) (f g : Nat → KeyField → String → String) (ks : List KeyField) (j : Nat)
    (args : List KV) (h : keyArgs rep f ks j = .ok args) : keyArgs rep g ks j = .ok args := by
  induction ks generalizing j args with
  | nil => simpa [keyArgs] using h
  | cons k ks ih =>
    simp only [keyArgs] at h ⊢
    cases ha : access rep k.path with
    | assertPanic => simp [ha] at h
    | val v =>
      simp only [ha] at h ⊢
      cases hu : unmarshal k.ty v with
      | error m => simp [hu] at h
      | ok a =>
        simp only [hu] at h ⊢
        cases hrest : keyArgs rep f ks (j + 1) with
        | error m => simp [hrest] at h
        | ok as =>
          simp only [hrest, Except.ok.injEq] at h
          subst h
          simp [ih (j + 1) as hrest]

theorem task_idxs_nodup (cfg : Cfg) (reps : List Rep) (t : Task) (ht : t ∈ tasks cfg reps) : t.idxs.Nodup := by
  have h := tasks_idxs_nodup cfg reps
  rw [List.Nodup, List.pairwise_flatMap] at h
  exact h.1 t ht

theorem exists_zip_of_mem_right {α β : Type} (as : List α) (bs : List β) (b : β) (hb : b ∈ bs)
    (hlen : as.length = bs.length) : ∃ a, (a, b) ∈ as.zip bs := by
  induction bs generalizing as with
  | nil => simp at hb
  | cons b0 bs ih =>
    cases as with
    | nil => simp at hlen
    | cons a0 as =>
      simp only [List.mem_cons] at hb
      rcases hb with hb | hb
      · subst hb; exact ⟨a0, by simp⟩
      · obtain ⟨a, ha⟩ := ih as hb (by simpa using hlen)
        exact ⟨a, by simp [ha]⟩

/-! ## F. the errors of a single-mode request are exactly the per-representation errors -/

def gerrs (cfg : Cfg) (u : User) (g : Groups) : List String :=
  (tasksOf cfg g).flatMap fun t => (t.effect cfg u).errs

theorem tasksOf_cons (cfg : Cfg) (p : String × List (Nat × Rep)) (g : Groups) :
    tasksOf cfg (p :: g) = groupTasks cfg p ++ tasksOf cfg g := by simp [tasksOf]

theorem gerrs_addFront (cfg : Cfg) (u : User) (ty : String) (x : Nat × Rep) (g : Groups)
    (hm : cfg.isMulti ty = false) :
    (gerrs cfg u (addFront ty x g)).Perm (((Task.single ty x.1 x.2).effect cfg u).errs ++ gerrs cfg u g) := by
  induction g with
  | nil => simp [addFront, gerrs, tasksOf, groupTasks, hm]
  | cons p g ih =>
    obtain ⟨t, xs⟩ := p
    simp only [addFront]
    split
    · rename_i heq
      subst heq
      simp [gerrs, tasksOf_cons, groupTasks, hm]
    · simp only [gerrs, tasksOf_cons, List.flatMap_append] at ih ⊢
      refine (List.Perm.append_left _ ih).trans ?_
      rw [← List.append_assoc, ← List.append_assoc]
      exact List.Perm.append_right _ List.perm_append_comm

theorem specElem_errs_single (cfg : Cfg) (u : User) (r : Rep) (ty : String) (i : Nat)
    (hty : typenameOf r = some ty) (hm : cfg.isMulti ty = false) :
    (specElem cfg u r).2 = ((Task.single ty i r).effect cfg u).errs := by
  simp only [specElem, hty, hm, Bool.false_eq_true, if_false, Task.effect]
  cases resolveEntity cfg u ty r <;> rfl

theorem errs_eq_spec (cfg : Cfg) (u : User) (i : Nat) (reps : List Rep)
    (hall : ∀ r ∈ reps, ∀ ty, typenameOf r = some ty → cfg.isMulti ty = false) :
    (preErrs reps ++ gerrs cfg u (groupsFrom i reps)).Perm (reps.flatMap fun r => (specElem cfg u r).2) := by
  induction reps generalizing i with
  | nil => simp [preErrs, groupsFrom, gerrs, tasksOf]
  | cons r rest ih =>
    have ih' := ih (i + 1) (fun r hr => hall r (by simp [hr]))
    simp only [preErrs, groupsFrom, List.flatMap_cons]
    cases hty : typenameOf r with
    | none =>
      simp only [Option.isNone_none, if_true, specElem, hty, List.cons_append]
      exact List.Perm.cons _ ih'
    | some ty =>
      have hm := hall r (by simp) ty hty
      simp only [Option.isNone_some, Bool.false_eq_true, if_false, List.nil_append]
      rw [specElem_errs_single cfg u r ty i hty hm]
      refine (List.Perm.append_left _ (gerrs_addFront cfg u ty (i, r) _ hm)).trans ?_
      rw [← List.append_assoc]
      refine (List.Perm.append_right _ List.perm_append_comm).trans ?_
      rw [List.append_assoc]
      exact List.Perm.append_left _ ih'

theorem applyAll_length (effs : List Eff) (l : List (Option Ent)) : (applyAll effs l).length = l.length := by
  induction effs generalizing l with
  | nil => simp [applyAll]
  | cons e effs ih =>
    simp only [applyAll, List.foldl_cons] at ih ⊢
    rw [ih, applyWrites_length]

/-! ## concrete entity table and user code for the witnesses and non-vacuity examples -/

namespace Probe

def cfg : Cfg :=
  { entities := [
      { name := "Crate", multi := true,
        resolvers := [⟨"findManyCrateByAs", [⟨["a"], .string, "a"⟩]⟩,
                      ⟨"findManyCrateByBAndOrgIDs", [⟨["b"], .string, "b"⟩, ⟨["org", "id"], .id, "orgID"⟩]⟩],
        requires := [⟨["extra"], .optString, "extra"⟩] },
      { name := "Bin", multi := true,
        resolvers := [⟨"findManyBinByCodes", [⟨["code"], .optString, "code"⟩]⟩,
                      ⟨"findManyBinBySlots", [⟨["slot"], .optString, "slot"⟩]⟩],
        requires := [] },
      { name := "User", multi := false, resolvers := [⟨"findUserByID", [⟨["id"], .id, "id"⟩]⟩], requires := [] },
      { name := "Parcel", multi := false, resolvers := [⟨"findParcelByCode", [⟨["code"], .optString, "code"⟩]⟩],
        requires := [⟨["dims", "h"], .optInt, "dimsH"⟩] }] }

def kvText : KV → String
  | .str s => s
  | .int n => toString n
  | .nil => "nil"

def tagOf (n : String) (a : List KV) : String := n ++ "(" ++ ",".intercalate (a.map kvText) ++ ")"

/-- well-behaved user code: every call succeeds, the batch resolver is pointwise -/
def echoUser : User :=
  { single := fun n a => .value (tagOf n a),
    multi := fun n l => .values (l.map fun a => some (tagOf n a)),
    populate := fun _ e _ => .ok e }

def crate (fs : List (String × JV)) : Rep := ("__typename", .str "Crate") :: fs
def user (id : String) : Rep := [("__typename", .str "User"), ("id", .str id)]
def parcel (code : String) (h : Int) : Rep :=
  [("__typename", .str "Parcel"), ("code", .str code), ("dims", .obj [("h", .num h)])]

def bin (fs : List (String × JV)) : Rep := ("__typename", .str "Bin") :: fs

/-- two `Bin` representations in one request that use different `@key`s of nullable type (F20a) -/
def mixedKeys : List Rep := [bin [("code", .str "c1")], bin [("slot", .str "s2")]]

/-- the same with `Crate`, whose key fields are non-null -/
def mixedKeysNN : List Rep :=
  [crate [("a", .str "a1")], crate [("b", .str "b2"), ("org", .obj [("id", .str "o2")])]]

/-- three `Crate` representations, the middle one with a malformed `@requires` source (F20c) -/
def badMiddle : List Rep :=
  [crate [("a", .str "a1"), ("extra", .str "e")], crate [("a", .str "a2"), ("extra", .obj [("x", .num 1)])],
   crate [("a", .str "a3"), ("extra", .str "f")]]

/-- interleaved types, one representation without `__typename`, an unknown type -/
def mixed : List Rep :=
  [user "u1", parcel "p1" 3, [("id", .str "zz")], user "u2", [("__typename", .str "Nope")], parcel "p2" 4]

end Probe

end GqlgenVerif.Entities
