import GqlgenVerif.Model.WsWriteLock
/-! Invariant of `Model/WsWriteLock`: when every write goes through a locked site, at most one thread holds the
mutex, nobody is inside an unlocked write - hence never two threads inside a write. -/
namespace GqlgenVerif.WsWriteLock

structure Inv (s : State) : Prop where
  one : ∀ (i j : Nat) (ti tj : Thread), s[i]? = some ti → s[j]? = some tj → ti.holds = true → tj.holds = true → i = j
  noBare : ∀ (i : Nat) (t : Thread), s[i]? = some t → t.phase ≠ .writing false
  allLocked : ∀ (i : Nat) (t : Thread), s[i]? = some t → t.todo.all id = true

theorem mutexFree_holds {s : State} (h : mutexFree s = true) (j : Nat) (t : Thread) (hj : s[j]? = some t) :
    t.holds = false := by
  have := (List.all_eq_true.mp h) t (List.mem_of_getElem? hj)
  simpa using this

theorem get_set {s : State} {i j : Nat} {a t : Thread} (h : (s.set i a)[j]? = some t) :
    (i = j ∧ t = a) ∨ (i ≠ j ∧ s[j]? = some t) := by
  rw [List.getElem?_set] at h
  by_cases hij : i = j
  · left
    simp only [hij, if_true] at h
    split at h
    · exact ⟨hij, (Option.some.inj h).symm⟩
    · cases h
  · right
    simp only [hij, if_false] at h
    exact ⟨hij, h⟩

/-- replacing thread `i` by a thread that holds the mutex only if the old one did (or nobody did), is not inside an
unlocked write and has only locked writes left, keeps the invariant -/
theorem inv_set {s : State} (hs : Inv s) (i : Nat) (t t' : Thread) (hi : s[i]? = some t)
    (hh : t'.holds = true → t.holds = true ∨ mutexFree s = true)
    (hb : t'.phase ≠ .writing false) (hl : t'.todo.all id = true) : Inv (s.set i t') := by
  constructor
  · intro a b ta tb ha hb' hta htb
    rcases get_set ha with ⟨e1, r1⟩ | ⟨n1, r1⟩ <;> rcases get_set hb' with ⟨e2, r2⟩ | ⟨n2, r2⟩
    · omega
    · subst r1; subst e1
      rcases hh hta with h | h
      · exact hs.one _ _ _ _ hi r2 h htb
      · have := mutexFree_holds h b tb r2
        rw [this] at htb; cases htb
    · subst r2; subst e2
      rcases hh htb with h | h
      · exact hs.one _ _ _ _ r1 hi hta h
      · have := mutexFree_holds h a ta r1
        rw [this] at hta; cases hta
    · exact hs.one _ _ _ _ r1 r2 hta htb
  · intro a ta ha
    rcases get_set ha with ⟨_, r⟩ | ⟨_, r⟩
    · subst r; exact hb
    · exact hs.noBare a ta r
  · intro a ta ha
    rcases get_set ha with ⟨_, r⟩ | ⟨_, r⟩
    · subst r; exact hl
    · exact hs.allLocked a ta r

theorem step_inv {s : State} (hs : Inv s) (i : Nat) : Inv (step s i) := by
  unfold step
  cases hi : s[i]? with
  | none => exact hs
  | some t =>
    simp only
    have hnb := hs.noBare i t hi
    have hal := hs.allLocked i t hi
    obtain ⟨ph, todo⟩ := t
    cases ph with
    | idle =>
      cases todo with
      | nil => simpa [next] using hs
      | cons b rest =>
        cases b with
        | false => simp at hal
        | true =>
          simp only [next]
          by_cases hf : mutexFree s = true
          · simp only [hf, if_true]
            exact inv_set hs i _ _ hi (fun _ => Or.inr hf) (by simp) hal
          · simp only [hf]
            exact hs
    | holding =>
      simp only [next]
      exact inv_set hs i _ _ hi (fun _ => Or.inl (by simp [Thread.holds])) (by simp) hal
    | writing l =>
      cases l with
      | false => exact absurd rfl hnb
      | true =>
        simp only [next]
        refine inv_set hs i _ _ hi (fun h => ?_) (by simp) ?_
        · simp [Thread.holds] at h
        · cases todo with
          | nil => simp
          | cons b rest =>
            simp only [List.all_cons, Bool.and_eq_true] at hal
            simpa using hal.2

theorem exec_inv (is : List Nat) : ∀ {s : State}, Inv s → Inv (exec s is) := by
  induction is with
  | nil => intro s hs; exact hs
  | cons i is ih => intro s hs; exact ih (step_inv hs i)

theorem inv_start (progs : List (List Bool)) (h : ∀ p ∈ progs, p.all id = true) : Inv (start progs) := by
  constructor
  · intro i j ti tj hi _ hti _
    simp only [start, List.getElem?_map] at hi
    cases hp : progs[i]? with
    | none => simp [hp] at hi
    | some p =>
      simp only [hp, Option.map_some, Option.some.injEq] at hi
      subst hi
      simp [Thread.holds] at hti
  · intro i t hi
    simp only [start, List.getElem?_map] at hi
    cases hp : progs[i]? with
    | none => simp [hp] at hi
    | some p =>
      simp only [hp, Option.map_some, Option.some.injEq] at hi
      subst hi
      simp
  · intro i t hi
    simp only [start, List.getElem?_map] at hi
    cases hp : progs[i]? with
    | none => simp [hp] at hi
    | some p =>
      simp only [hp, Option.map_some, Option.some.injEq] at hi
      subst hi
      exact h p (List.mem_of_getElem? hp)

theorem inv_exclusive {s : State} (hs : Inv s) : ¬ concurrentWrite s := by
  rintro ⟨i, j, ti, tj, hne, hi, hj, wi, wj⟩
  have hti : ti.holds = true := by
    have := hs.noBare i ti hi
    obtain ⟨ph, todo⟩ := ti
    cases ph with
    | idle => simp [Thread.isWriting] at wi
    | holding => simp [Thread.isWriting] at wi
    | writing l => cases l with
      | false => exact absurd rfl this
      | true => simp [Thread.holds]
  have htj : tj.holds = true := by
    have := hs.noBare j tj hj
    obtain ⟨ph, todo⟩ := tj
    cases ph with
    | idle => simp [Thread.isWriting] at wj
    | holding => simp [Thread.isWriting] at wj
    | writing l => cases l with
      | false => exact absurd rfl this
      | true => simp [Thread.holds]
  exact hne (hs.one i j ti tj hi hj hti htj)

end GqlgenVerif.WsWriteLock
