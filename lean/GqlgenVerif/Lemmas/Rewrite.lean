import GqlgenVerif.Model.Rewrite
import GqlgenVerif.Model.RewriteSpec
/-!
# Lemmas for C19 (model `Model/Rewrite.lean`)

`TrimSpace` facts (`trim_pad`, `infix_trim`), `hasInfix ↔ <:+:`, where declarations end up
(`leftover_contains`, `copied_cases`, `method_in_output`, `method_of_output`), how written files replace old
ones (`mem_apply`, `reparse_mem_apply`), the invariant carried through repeated regeneration (`Agree`,
`agree_step`, `agree_iterate`), the scanner over the WARNING block (`valid_trailer_line/block`), `Reserve`
(`reserve_keeps`), Impl ⊨ Spec for the method part (`spec_methods_hold`), and the fixed point of rendering
(`content_toDecl`, `mkOf_fixed`, `idempotent_methods_lemma`).
-/
namespace GqlgenVerif.Rewrite
open GqlgenVerif.Gen.RewriteOffsets
open GqlgenVerif.Gen.ReserveFacts

def NoLeadSpace (t : Text) : Prop := ∀ c r, t = c :: r → isSpace c = false
def NoTrailSpace (t : Text) : Prop := ∀ c r, t = r ++ [c] → isSpace c = false

theorem dropWhile_append_cons {α} (p : α → Bool) (a : List α) (c : α) (r : List α) (h : p c = false) :
    (a ++ c :: r).dropWhile p = a.dropWhile p ++ c :: r := by
  induction a with
  | nil => simp [List.dropWhile, h]
  | cons x xs ih =>
    simp only [List.cons_append, List.dropWhile_cons]
    split
    · exact ih
    · simp

theorem dropWhile_all {α} (p : α → Bool) (a : List α) (h : ∀ x ∈ a, p x = true) : a.dropWhile p = [] := by
  induction a with
  | nil => rfl
  | cons x xs ih =>
    simp only [List.dropWhile_cons, h x (by simp)]
    simp
    exact ih (fun y hy => h y (by simp [hy]))

theorem noLead_dropWhile (t : Text) : NoLeadSpace (trimLeft t) := by
  intro c r h
  induction t with
  | nil => simp [trimLeft] at h
  | cons x xs ih =>
    simp only [trimLeft, List.dropWhile_cons] at h
    split at h
    · exact ih h
    · rename_i hx
      simp at h
      rw [← h.1]; simpa using hx

theorem trimLeft_eq_self {t : Text} (h : NoLeadSpace t) : trimLeft t = t := by
  cases t with
  | nil => rfl
  | cons c r => simp [trimLeft, h c r rfl]

theorem trimRight_eq_self {t : Text} (h : NoTrailSpace t) : trimRight t = t := by
  unfold trimRight
  rcases List.eq_nil_or_concat t with rfl | ⟨r, c, rfl⟩
  · rfl
  · have := h c r (by simp)
    simp [this]

theorem noTrail_trimRight (t : Text) : NoTrailSpace (trimRight t) := by
  intro c r h
  have h2 : (t.reverse.dropWhile isSpace) = c :: r.reverse := by
    have := congrArg List.reverse h
    simpa [trimRight] using this
  have := noLead_dropWhile t.reverse c r.reverse (by simpa [trimLeft] using h2)
  exact this

theorem trimRight_prefix (t : Text) : trimRight t <+: t := by
  unfold trimRight
  have : t.reverse.dropWhile isSpace <:+ t.reverse := List.dropWhile_suffix _
  simpa using List.reverse_prefix.mpr this

theorem noLead_of_prefix {a t : Text} (h : a <+: t) (ht : NoLeadSpace t) : NoLeadSpace a := by
  intro c r ha
  obtain ⟨b, rfl⟩ := h
  exact ht c (r ++ b) (by simp [ha])

theorem noLead_trim (t : Text) : NoLeadSpace (trim t) :=
  noLead_of_prefix (trimRight_prefix _) (noLead_dropWhile t)

theorem noTrail_trim (t : Text) : NoTrailSpace (trim t) := noTrail_trimRight _

theorem trim_eq_self {t : Text} (h1 : NoLeadSpace t) (h2 : NoTrailSpace t) : trim t = t := by
  unfold trim; rw [trimLeft_eq_self h1, trimRight_eq_self h2]

theorem trim_idem (t : Text) : trim (trim t) = trim t := trim_eq_self (noLead_trim t) (noTrail_trim t)


theorem trimLeft_pad (a t : Text) (ha : ∀ c ∈ a, isSpace c = true) : trimLeft (a ++ t) = trimLeft t := by
  induction a with
  | nil => rfl
  | cons x xs ih =>
    simp only [trimLeft, List.cons_append, List.dropWhile_cons, ha x (by simp)]
    exact ih (fun c hc => ha c (by simp [hc]))

theorem trimRight_pad (t b : Text) (hb : ∀ c ∈ b, isSpace c = true) : trimRight (t ++ b) = trimRight t := by
  unfold trimRight
  rw [List.reverse_append]
  have := trimLeft_pad b.reverse t.reverse (by simpa using hb)
  simp only [trimLeft] at this
  rw [this]

theorem trimLeft_all (a : Text) (ha : ∀ c ∈ a, isSpace c = true) : trimLeft a = [] :=
  dropWhile_all _ _ ha

/-- a trimmed text written on its own lines reads back as itself -/
theorem trim_pad (a x b : Text) (ha : ∀ c ∈ a, isSpace c = true) (hb : ∀ c ∈ b, isSpace c = true)
    (h1 : NoLeadSpace x) (h2 : NoTrailSpace x) : trim (a ++ (x ++ b)) = x := by
  unfold trim
  rw [trimLeft_pad a _ ha]
  cases x with
  | nil => simp [trimLeft_all b hb, trimRight]
  | cons c r =>
    have hc := h1 c r rfl
    have : trimLeft (c :: r ++ b) = c :: r ++ b := by simp [trimLeft, hc]
    rw [this, trimRight_pad _ _ hb, trimRight_eq_self h2]

theorem hasInfix_iff (xs t : Text) : hasInfix xs t = true ↔ xs <:+: t := by
  induction t with
  | nil => simp [hasInfix, List.isEmpty_iff]
  | cons c t ih =>
    simp only [hasInfix, Bool.or_eq_true, List.isPrefixOf_iff_prefix, ih, List.infix_cons_iff]

/-- a text that starts and ends with a non-space character survives `TrimSpace` of any text containing it -/
theorem infix_trim {x t : Text} (hx : x ≠ []) (h1 : NoLeadSpace x) (h2 : NoTrailSpace x) (h : x <:+: t) :
    x <:+: trim t := by
  obtain ⟨a, b, rfl⟩ := h
  obtain ⟨c, r, rfl⟩ := List.exists_cons_of_ne_nil hx
  have hc := h1 c r rfl
  have e1 : trimLeft (a ++ (c :: r) ++ b) = a.dropWhile isSpace ++ (c :: r) ++ b := by
    have := dropWhile_append_cons isSpace a c (r ++ b) hc
    simpa [trimLeft] using this
  obtain ⟨r', c', hr⟩ : ∃ r' c', c :: r = r' ++ [c'] := by
    rcases List.eq_nil_or_concat (c :: r) with h | ⟨r', c', h⟩
    · simp at h
    · exact ⟨r', c', by simpa using h⟩
  have hc' := h2 c' r' hr
  unfold trim
  rw [e1, hr]
  have e2 : trimRight (a.dropWhile isSpace ++ (r' ++ [c']) ++ b) = a.dropWhile isSpace ++ (r' ++ [c']) ++ trimRight b := by
    unfold trimRight
    have := dropWhile_append_cons isSpace b.reverse c' (r'.reverse ++ (a.dropWhile isSpace).reverse) hc'
    have e : (a.dropWhile isSpace ++ (r' ++ [c']) ++ b).reverse
        = b.reverse ++ c' :: (r'.reverse ++ (a.dropWhile isSpace).reverse) := by simp
    rw [e, this]
    simp
  rw [e2]
  exact ⟨a.dropWhile isSpace, trimRight b, by simp⟩

theorem infix_flatMap_of_mem {α β} (g : α → List β) (l : List α) (x : α) (h : x ∈ l) : g x <:+: l.flatMap g := by
  obtain ⟨l1, l2, rfl⟩ := List.append_of_mem h
  exact ⟨l1.flatMap g, l2.flatMap g, by simp⟩

theorem mem_zipIdx_of_getElem? {α} (l : List α) (j : Nat) (x : α) (h : l[j]? = some x) : (x, j) ∈ l.zipIdx := by
  rw [List.mem_zipIdx_iff_getElem?]; simpa using h

theorem mem_allDecls_iff (p : Pkg) (i j : Nat) (d : Decl) :
    ((i, j), d) ∈ allDecls p ↔ ∃ f, p[i]? = some f ∧ f.decls[j]? = some d := by
  unfold allDecls
  simp only [List.mem_flatMap, List.mem_map, Prod.exists, List.mem_zipIdx_iff_getElem?]
  constructor
  · rintro ⟨f, i', hf, d', j', hd, h⟩
    simp at h hf hd
    obtain ⟨⟨rfl, rfl⟩, rfl⟩ := h
    exact ⟨f, hf, hd⟩
  · rintro ⟨f, hf, hd⟩
    exact ⟨f, i, by simpa using hf, d, j, by simpa using hd, rfl⟩

theorem findFile_getElem? {p : Pkg} {name : String} {fi : Nat} {f : File} (h : findFile p name = some (fi, f)) :
    p[fi]? = some f ∧ f.name = name := by
  unfold findFile at h
  simp only [Option.map_eq_some_iff] at h
  obtain ⟨⟨f', i'⟩, hfind, heq⟩ := h
  simp at heq
  obtain ⟨rfl, rfl⟩ := heq
  have hm := List.mem_of_find?_eq_some hfind
  have hp := List.find?_some hfind
  rw [List.mem_zipIdx_iff_getElem?] at hm
  simp at hm hp
  exact ⟨hm, hp⟩

theorem src_infix_remainingRaw (cp : List Key) (fi : Nat) (f : File) (j : Nat) (d : Decl)
    (hd : f.decls[j]? = some d) (hs : skipped cp (fi, j) d = false) : d.src <:+: remainingRaw cp fi f := by
  have hm := mem_zipIdx_of_getElem? _ _ _ hd
  have := infix_flatMap_of_mem (fun dj : Decl × Nat => if skipped cp (fi, dj.2) dj.1 then [] else dj.1.src ++ declSep.toList) _ _ hm
  simp only [hs] at this
  exact List.IsInfix.trans ⟨[], declSep.toList, by simp⟩ this

/-- core of `nothing_lost`: a non-import declaration of a rewritten file that is not marked copied is inside
the leftover text of that file -/
theorem leftover_contains (cp : List Key) (p : Pkg) (name : String) (fi : Nat) (f : File) (j : Nat) (d : Decl)
    (hfile : findFile p name = some (fi, f)) (hd : f.decls[j]? = some d)
    (hni : d.isImport = false) (hne : d.src ≠ []) (h1 : NoLeadSpace d.src) (h2 : NoTrailSpace d.src)
    (hc : (fi, j) ∉ cp) : hasInfix d.src (remainingSource cp p name) = true := by
  rw [hasInfix_iff]
  unfold remainingSource
  rw [hfile]
  have hs : skipped cp (fi, j) d = false := by
    have : cp.contains (fi, j) = false := by simpa using hc
    simp only [skipped, this, Bool.and_false, Bool.false_or]
    simp only [Decl.isImport] at hni
    simp [skipToks] 
    intro h; simpa [h] using hni
  have := src_infix_remainingRaw cp fi f j d hd hs
  simp only [trimRemaining, if_true]
  exact infix_trim hne h1 h2 this

theorem copied_cases (cfg : Cfg) (p : Pkg) (sch : Schema) (k : Key) (h : k ∈ copied cfg p sch) :
    (∃ r ∈ reqs cfg sch, ∃ d, firstMatch p r.recv r.name = some (k, d)) ∨
    (∃ n ∈ structNames cfg sch, ∃ d, (k, d) ∈ allDecls p ∧ isStructDecl n d = true) := by
  unfold copied at h
  rw [List.mem_append] at h
  rcases h with h | h
  · left
    simp only [List.mem_filterMap, Option.map_eq_some_iff] at h
    obtain ⟨r, hr, ⟨k', d⟩, hfm, rfl⟩ := h
    exact ⟨r, hr, d, hfm⟩
  · right
    simp only [List.mem_map, List.mem_filter, List.any_eq_true] at h
    obtain ⟨⟨k', d⟩, ⟨hm, n, hn, hs⟩, rfl⟩ := h
    exact ⟨n, hn, d, hm, hs⟩

theorem getMethodBody_inner (d : Decl) : getMethodBody d = d.inner := by
  simp [getMethodBody, Decl.body, bodyStartOff, bodyEndOff]

theorem mem_dedup {a : String} {l : List String} (h : a ∈ l) : a ∈ dedup l := by
  induction l with
  | nil => simp at h
  | cons x xs ih =>
    simp only [dedup, List.mem_cons, List.mem_filter]
    by_cases hax : a = x
    · exact Or.inl hax
    · rcases List.mem_cons.mp h with h | h
      · exact absurd h hax
      · exact Or.inr ⟨ih h, by simpa using hax⟩

theorem dedup_subset {a : String} {l : List String} (h : a ∈ dedup l) : a ∈ l := by
  induction l with
  | nil => simp [dedup] at h
  | cons x xs ih =>
    simp only [dedup, List.mem_cons, List.mem_filter] at h
    rcases h with h | h
    · simp [h]
    · exact List.mem_cons_of_mem _ (ih h.1)

theorem dedup_nodup (l : List String) : (dedup l).Nodup := by
  induction l with
  | nil => simp [dedup]
  | cons x xs ih =>
    simp only [dedup, List.nodup_cons, List.mem_filter]
    exact ⟨by simp, ih.filter _⟩

/-- the layout's choice of file for a field -/
def targetFile (cfg : Cfg) (file : String) : String :=
  match cfg.layout with | .single => cfg.singleName | .follow => file

/-! ## the names resolver.go looks up are the names resolver.gotpl emits

The facts are regenerated (`Gen/RewriteOffsets`: which helper computes which name in which layout), so these
close only while the two sides apply the same helper — for every type name and whatever `ToGo`,
`ToGoPrivate`, `cases.Title` return (`cfg.names` is arbitrary). Everything below about kept bodies rests on
`lookupName_eq`. -/

/-- the receiver a previous method is looked up under is the receiver the template writes -/
theorem lookupName_eq (cfg : Cfg) (o : Obj) : lookupName cfg o = structName cfg o := by
  unfold lookupName structName byLayout; cases cfg.layout <;> rfl

/-- the struct type marked copied is the struct type the template writes -/
theorem markName_eq (cfg : Cfg) (o : Obj) : markName cfg o = structTypeName cfg o.name := by
  unfold markName structTypeName byLayout; cases cfg.layout <;> rfl

theorem mkMethod_def (cfg : Cfg) (p : Pkg) (o : Obj) (f : Field) :
    mkMethod cfg p o f = mkOf cfg o f ((firstMatch p (structName cfg o) f.goName).map fun kd => content kd.2) := by
  unfold mkMethod mkMethodAt; rw [lookupName_eq]

theorem fieldReqs_def (cfg : Cfg) (o : Obj) :
    fieldReqs cfg o = o.resolverFields.map fun f => ⟨structName cfg o, f.goName⟩ := by
  unfold fieldReqs; simp only [lookupName_eq]

theorem emittedReqs_eq (cfg : Cfg) (sch : Schema) : emittedReqs cfg sch = resolverReqs cfg sch := by
  unfold emittedReqs resolverReqs
  congr 1; funext o; exact (fieldReqs_def cfg o).symm

theorem mkMethod_of_match (cfg : Cfg) (p : Pkg) (o : Obj) (f : Field) (k : Key) (d : Decl)
    (hm : firstMatch p (structName cfg o) f.goName = some (k, d)) (hne : trim d.inner ≠ []) :
    (mkMethod cfg p o f).recv = structName cfg o ∧ (mkMethod cfg p o f).name = f.goName ∧
    (mkMethod cfg p o f).impl = trim d.inner ∧ (mkMethod cfg p o f).namedV = d.namedV ∧
    (mkMethod cfg p o f).namedE = d.namedE ∧
    (trim (trimBackslashes d.doc) ≠ [] → (mkMethod cfg p o f).doc = trim (trimBackslashes d.doc)) := by
  have hb : (trim d.inner != []) = true := by simpa using hne
  have hk : keepOf cfg (some (content d)) = true := by
    unfold keepOf; cases cfg.layout <;> simp [implStrOf, content, getMethodBody_inner, hb]
  refine ⟨rfl, rfl, ?_, ?_, ?_, ?_⟩
  · simp [mkMethod_def, mkOf, implStrOf, content, hm, getMethodBody_inner, hb]
  · rw [mkMethod_def, hm]; simp only [Option.map_some, mkOf, hk, if_true]; rfl
  · rw [mkMethod_def, hm]; simp only [Option.map_some, mkOf, hk, if_true]; rfl
  · intro hdoc
    have : (trim (trimBackslashes d.doc) != []) = true := by simpa using hdoc
    have hkc : keptComment cfg (some (content d)) = trim (trimBackslashes d.doc) := by
      simp only [keptComment, hk, if_true]; rfl
    rw [mkMethod_def, hm]; simp only [Option.map_some, mkOf, hkc, this, if_true]

theorem mkMethod_recv (cfg : Cfg) (p : Pkg) (o : Obj) (f : Field) : (mkMethod cfg p o f).recv = structName cfg o := rfl
theorem mkMethod_name (cfg : Cfg) (p : Pkg) (o : Obj) (f : Field) : (mkMethod cfg p o f).name = f.goName := rfl

theorem item_meth_mem (cfg : Cfg) (p : Pkg) (sch : Schema) (o : Obj) (f : Field) (ho : o ∈ sch) (hf : f ∈ o.resolverFields) :
    (targetFile cfg f.file, Item.meth (mkMethod cfg p o f)) ∈ items cfg p sch := by
  unfold items
  rw [List.mem_flatMap]
  refine ⟨o, ho, ?_⟩
  rw [List.mem_append]
  right
  rw [List.mem_map]
  exact ⟨f, hf, rfl⟩

theorem targetFile_mem_outNames (cfg : Cfg) (p : Pkg) (sch : Schema) (file : String) (it : Item)
    (h : (targetFile cfg file, it) ∈ items cfg p sch) : targetFile cfg file ∈ outNames cfg p sch := by
  unfold outNames
  cases hl : cfg.layout with
  | single => simp [targetFile, hl]
  | follow =>
    simp only
    apply mem_dedup
    rw [List.mem_map]
    exact ⟨_, h, rfl⟩

/-- every resolver field of the schema gets its method in the file the layout assigns to it -/
theorem method_in_output (cfg : Cfg) (p : Pkg) (sch : Schema) (o : Obj) (f : Field) (ho : o ∈ sch) (hf : f ∈ o.resolverFields) :
    ∃ nf ∈ regenerate cfg p sch, nf.name = targetFile cfg f.file ∧ mkMethod cfg p o f ∈ nf.methods := by
  have hi := item_meth_mem cfg p sch o f ho hf
  have hn := targetFile_mem_outNames cfg p sch f.file _ hi
  refine ⟨mkFile cfg p sch (targetFile cfg f.file), ?_, rfl, ?_⟩
  · unfold regenerate; exact List.mem_map.mpr ⟨_, hn, rfl⟩
  · unfold mkFile
    simp only [List.mem_filterMap, List.mem_filter]
    exact ⟨_, ⟨hi, by simp⟩, rfl⟩

/-- and nothing else: every method of the output was built by `mkMethod` for a resolver field of the schema -/
theorem method_of_output (cfg : Cfg) (p : Pkg) (sch : Schema) (nf : NewFile) (m : NewMethod)
    (hnf : nf ∈ regenerate cfg p sch) (hm : m ∈ nf.methods) :
    ∃ o ∈ sch, ∃ f ∈ o.resolverFields, m = mkMethod cfg p o f := by
  unfold regenerate at hnf
  obtain ⟨name, _, rfl⟩ := List.mem_map.mp hnf
  unfold mkFile at hm
  simp only [List.mem_filterMap, List.mem_filter] at hm
  obtain ⟨⟨fn, it⟩, ⟨hit, _⟩, hsome⟩ := hm
  unfold items at hit
  rw [List.mem_flatMap] at hit
  obtain ⟨o, ho, hit⟩ := hit
  rw [List.mem_append] at hit
  rcases hit with hit | hit
  · split at hit
    · simp at hit
      obtain ⟨_, rfl⟩ := hit
      simp at hsome
    · simp at hit
  · rw [List.mem_map] at hit
    obtain ⟨f, hf, heq⟩ := hit
    simp at heq
    obtain ⟨_, rfl⟩ := heq
    simp at hsome
    exact ⟨o, ho, f, hf, hsome.symm⟩

theorem object_of_output (cfg : Cfg) (p : Pkg) (sch : Schema) (nf : NewFile) (n : String)
    (hnf : nf ∈ regenerate cfg p sch) (hn : n ∈ nf.objects) : ∃ o ∈ sch, o.hasResolvers = true ∧ n = o.name := by
  unfold regenerate at hnf
  obtain ⟨name, _, rfl⟩ := List.mem_map.mp hnf
  unfold mkFile at hn
  simp only [List.mem_filterMap, List.mem_filter] at hn
  obtain ⟨⟨fn, it⟩, ⟨hit, _⟩, hsome⟩ := hn
  unfold items at hit
  rw [List.mem_flatMap] at hit
  obtain ⟨o, ho, hit⟩ := hit
  rw [List.mem_append] at hit
  rcases hit with hit | hit
  · split at hit
    · rename_i hres
      simp at hit
      obtain ⟨_, rfl⟩ := hit
      simp at hsome
      exact ⟨o, ho, hres, hsome.symm⟩
    · simp at hit
  · rw [List.mem_map] at hit
    obtain ⟨f, hf, heq⟩ := hit
    simp at heq
    obtain ⟨_, rfl⟩ := heq
    simp at hsome

theorem mem_writeFile {q : Pkg} {f g : File} (h : g ∈ writeFile q f) : g ∈ q ∨ g = f := by
  unfold writeFile at h
  split at h
  · rw [List.mem_map] at h
    obtain ⟨x, hx, rfl⟩ := h
    split
    · exact Or.inr rfl
    · exact Or.inl hx
  · rw [List.mem_append] at h
    rcases h with h | h
    · exact Or.inl h
    · exact Or.inr (by simpa using h)

theorem writeFile_mem_self (q : Pkg) (f : File) : f ∈ writeFile q f := by
  unfold writeFile
  split
  · rename_i h
    rw [List.any_eq_true] at h
    obtain ⟨x, hx, hn⟩ := h
    rw [List.mem_map]
    exact ⟨x, hx, by simp [hn]⟩
  · simp

theorem writeFile_preserve {q : Pkg} {f g : File} (hg : g ∈ q) (hne : g.name ≠ f.name) : g ∈ writeFile q f := by
  unfold writeFile
  split
  · rw [List.mem_map]
    exact ⟨g, hg, by simp [hne]⟩
  · simp [hg]

theorem mem_apply {cfg : Cfg} {out : List NewFile} : ∀ {p : Pkg} {g : File}, g ∈ apply cfg p out →
    g ∈ p ∨ ∃ nf ∈ out, g = reparse cfg nf := by
  induction out with
  | nil => intro p g h; exact Or.inl h
  | cons x xs ih =>
    intro p g h
    have h' : g ∈ apply cfg (writeFile p (reparse cfg x)) xs := h
    rcases ih h' with h1 | ⟨nf, hnf, rfl⟩
    · rcases mem_writeFile h1 with h2 | rfl
      · exact Or.inl h2
      · exact Or.inr ⟨x, by simp, rfl⟩
    · exact Or.inr ⟨nf, by simp [hnf], rfl⟩

theorem apply_preserve {cfg : Cfg} {out : List NewFile} : ∀ {p : Pkg} {g : File}, g ∈ p →
    (∀ y ∈ out, y.name ≠ g.name) → g ∈ apply cfg p out := by
  induction out with
  | nil => intro p g h _; exact h
  | cons x xs ih =>
    intro p g h hn
    have : g ∈ writeFile p (reparse cfg x) := writeFile_preserve h (by
      have := hn x (by simp)
      intro e; exact this (by simpa [reparse] using e.symm))
    exact ih this (fun y hy => hn y (by simp [hy]))

theorem reparse_mem_apply {cfg : Cfg} {out : List NewFile} : ∀ {p : Pkg} {nf : NewFile}, nf ∈ out →
    (out.map (·.name)).Nodup → reparse cfg nf ∈ apply cfg p out := by
  induction out with
  | nil => intro p nf h; simp at h
  | cons x xs ih =>
    intro p nf h hnd
    simp only [List.map_cons, List.nodup_cons] at hnd
    rcases List.mem_cons.mp h with rfl | h
    · have : reparse cfg nf ∈ writeFile p (reparse cfg nf) := writeFile_mem_self _ _
      refine apply_preserve (cfg := cfg) (out := xs) this ?_
      intro y hy e
      exact hnd.1 (List.mem_map.mpr ⟨y, hy, by simpa [reparse] using e⟩)
    · exact ih h hnd.2

theorem regenerate_names_nodup (cfg : Cfg) (p : Pkg) (sch : Schema) : ((regenerate cfg p sch).map (·.name)).Nodup := by
  have : (regenerate cfg p sch).map (·.name) = outNames cfg p sch := by
    unfold regenerate
    rw [List.map_map]
    have : ((fun x : NewFile => x.name) ∘ mkFile cfg p sch) = id := by funext n; rfl
    rw [this, List.map_id]
  rw [this]
  unfold outNames
  cases cfg.layout with
  | single => simp
  | follow => exact dedup_nodup _

theorem mem_allDecls_of_mem {p : Pkg} {f : File} {d : Decl} (hf : f ∈ p) (hd : d ∈ f.decls) : ∃ k, (k, d) ∈ allDecls p := by
  obtain ⟨i, hi⟩ := List.mem_iff_getElem?.mp hf
  obtain ⟨j, hj⟩ := List.mem_iff_getElem?.mp hd
  exact ⟨(i, j), (mem_allDecls_iff p i j d).mpr ⟨f, hi, hj⟩⟩

theorem mem_of_mem_allDecls {p : Pkg} {k : Key} {d : Decl} (h : (k, d) ∈ allDecls p) : ∃ f ∈ p, d ∈ f.decls := by
  obtain ⟨i, j⟩ := k
  obtain ⟨f, hf, hd⟩ := (mem_allDecls_iff p i j d).mp h
  exact ⟨f, List.mem_of_getElem? hf, List.mem_of_getElem? hd⟩

/-- what a resolver method carries through regeneration -/
structure Kept where
  body : Text      -- the body, `TrimSpace`d
  namedV : String
  namedE : String
  doc : Text       -- the doc comment text
  deriving DecidableEq, Repr

/-- every declaration of method `s.m` in the package carries `k` -/
def Agree (p : Pkg) (s m : String) (k : Kept) : Prop :=
  ∀ kd ∈ allDecls p, isMethod s m kd.2 = true →
    trim kd.2.inner = k.body ∧ kd.2.namedV = k.namedV ∧ kd.2.namedE = k.namedE ∧ trim (trimBackslashes kd.2.doc) = k.doc

def Present (p : Pkg) (s m : String) : Prop := ∃ kd ∈ allDecls p, isMethod s m kd.2 = true

/-- the schema still has a resolver field whose method is `s.m` -/
def Requested (cfg : Cfg) (sch : Schema) (s m : String) : Prop :=
  ∃ o ∈ sch, ∃ f ∈ o.resolverFields, structName cfg o = s ∧ f.goName = m

theorem firstMatch_of_present {p : Pkg} {s m : String} (h : Present p s m) :
    ∃ k d, firstMatch p s m = some (k, d) ∧ (k, d) ∈ allDecls p ∧ isMethod s m d = true := by
  obtain ⟨kd, hkd, hm⟩ := h
  unfold firstMatch
  cases hf : (allDecls p).find? fun kd => isMethod s m kd.2 with
  | none =>
    rw [List.find?_eq_none] at hf
    exact absurd hm (by simpa using hf kd hkd)
  | some x =>
    exact ⟨x.1, x.2, rfl, List.mem_of_find?_eq_some hf, by simpa using List.find?_some hf⟩

theorem trimBackslashes_of_head {t : Text} (h : t.head? ≠ some '\\') : trimBackslashes t = t := by
  cases t with
  | nil => rfl
  | cons c r =>
    have : c ≠ '\\' := by intro e; apply h; simp [e]
    simp [trimBackslashes, this]

theorem isSpace_nl : isSpace '\n' = true := by decide
theorem isSpace_tab : isSpace '\t' = true := by decide

/-- the regenerated method, read back, carries what the first declaration of the method carried -/
theorem toDecl_carries (cfg : Cfg) (p : Pkg) (o : Obj) (f : Field) (k : Key) (d : Decl) (kp : Kept)
    (hm : firstMatch p (structName cfg o) f.goName = some (k, d))
    (hb : trim d.inner = kp.body) (hne : kp.body ≠ []) (hv : d.namedV = kp.namedV) (he : d.namedE = kp.namedE)
    (hd : trim (trimBackslashes d.doc) = kp.doc) (hdne : kp.doc ≠ []) (hbs : kp.doc.head? ≠ some '\\') :
    trim (mkMethod cfg p o f).toDecl.inner = kp.body ∧ (mkMethod cfg p o f).toDecl.namedV = kp.namedV ∧
    (mkMethod cfg p o f).toDecl.namedE = kp.namedE ∧ trim (trimBackslashes (mkMethod cfg p o f).toDecl.doc) = kp.doc := by
  obtain ⟨_, _, himpl, hnv, hne', hdoc⟩ := mkMethod_of_match cfg p o f k d hm (by rw [hb]; exact hne)
  have hdoc' := hdoc (by rw [hd]; exact hdne)
  refine ⟨?_, ?_, ?_, ?_⟩
  · show trim ('\n' :: '\t' :: ((mkMethod cfg p o f).impl ++ ['\n'])) = kp.body
    rw [himpl, hb]
    have := trim_pad ['\n', '\t'] kp.body ['\n'] (by simp [isSpace_nl, isSpace_tab]) (by simp [isSpace_nl])
      (by rw [← hb]; exact noLead_trim _) (by rw [← hb]; exact noTrail_trim _)
    simpa using this
  · show (mkMethod cfg p o f).namedV = kp.namedV
    rw [hnv, hv]
  · show (mkMethod cfg p o f).namedE = kp.namedE
    rw [hne', he]
  · show trim (trimBackslashes (if (mkMethod cfg p o f).doc == [] then [] else (mkMethod cfg p o f).doc ++ ['\n'])) = kp.doc
    rw [hdoc', hd]
    have hne2 : (kp.doc == []) = false := by simpa using hdne
    simp only [hne2, Bool.false_eq_true, if_false]
    have hh : (kp.doc ++ ['\n']).head? ≠ some '\\' := by
      cases hk : kp.doc with
      | nil => exact absurd hk hdne
      | cons c r => rw [hk] at hbs; simpa using hbs
    rw [trimBackslashes_of_head hh]
    have := trim_pad [] kp.doc ['\n'] (by simp) (by simp [isSpace_nl])
      (by rw [← hd]; exact noLead_trim _) (by rw [← hd]; exact noTrail_trim _)
    simpa using this

/-- One regeneration keeps the invariant "every declaration of `s.m` carries `kp`", and the method is still
declared afterwards when the schema still asks for it. -/
theorem agree_step (cfg : Cfg) (p : Pkg) (sch : Schema) (s m : String) (kp : Kept)
    (hs : s ≠ cfg.rtype) (hne : kp.body ≠ []) (hdne : kp.doc ≠ []) (hbs : kp.doc.head? ≠ some '\\')
    (hag : Agree p s m kp) (hpr : Present p s m) :
    Agree (step cfg p sch) s m kp ∧ (Requested cfg sch s m → Present (step cfg p sch) s m) := by
  obtain ⟨k0, d0, hfm, hmem0, hm0⟩ := firstMatch_of_present hpr
  obtain ⟨hb0, hv0, he0, hd0⟩ := hag (k0, d0) hmem0 hm0
  constructor
  · intro kd hkd hmm
    obtain ⟨g, hg, hdg⟩ := mem_of_mem_allDecls (k := kd.1) (d := kd.2) hkd
    rcases mem_apply hg with hold | ⟨nf, hnf, rfl⟩
    · obtain ⟨k', hk'⟩ := mem_allDecls_of_mem hold hdg
      exact hag (k', kd.2) hk' hmm
    · simp only [reparse, List.mem_append, List.mem_map] at hdg
      rcases hdg with ((hroot | ⟨nm, hnm, hnmeq⟩) | ⟨on, _, hacc⟩) | ⟨on, _, hst⟩
      · split at hroot
        · simp at hroot; rw [hroot] at hmm; simp [isMethod, rootDecl] at hmm
        · simp at hroot
      · obtain ⟨o, ho, f, hf, rfl⟩ := method_of_output cfg p sch nf nm hnf hnm
        rw [← hnmeq] at hmm ⊢
        have hrn : structName cfg o = s ∧ f.goName = m := by
          simp only [isMethod, NewMethod.toDecl, Bool.and_eq_true, beq_iff_eq, Bool.true_and] at hmm
          exact ⟨hmm.2, hmm.1⟩
        have hfm' : firstMatch p (structName cfg o) f.goName = some (k0, d0) := by rw [hrn.1, hrn.2]; exact hfm
        exact toDecl_carries cfg p o f k0 d0 kp hfm' hb0 hne hv0 he0 hd0 hdne hbs
      · rw [← hacc] at hmm
        simp only [isMethod, accessorDecl, Bool.and_eq_true, beq_iff_eq, Bool.true_and] at hmm
        exact absurd hmm.2.symm hs
      · rw [← hst] at hmm
        simp [isMethod, structDecl] at hmm
  · rintro ⟨o, ho, f, hf, rfl, rfl⟩
    obtain ⟨nf, hnf, _, hmeth⟩ := method_in_output cfg p sch o f ho hf
    have hfile : reparse cfg nf ∈ step cfg p sch := reparse_mem_apply hnf (regenerate_names_nodup cfg p sch)
    have hdecl : (mkMethod cfg p o f).toDecl ∈ (reparse cfg nf).decls := by
      simp only [reparse, List.mem_append, List.mem_map]
      exact Or.inl (Or.inl (Or.inr ⟨_, hmeth, rfl⟩))
    obtain ⟨k, hk⟩ := mem_allDecls_of_mem hfile hdecl
    exact ⟨(k, _), hk, by simp [isMethod, NewMethod.toDecl, mkMethod_recv, mkMethod_name]⟩

theorem agree_iterate (cfg : Cfg) (s m : String) (kp : Kept)
    (hs : s ≠ cfg.rtype) (hne : kp.body ≠ []) (hdne : kp.doc ≠ []) (hbs : kp.doc.head? ≠ some '\\') :
    ∀ (schs : List Schema) (p : Pkg), Agree p s m kp → Present p s m → (∀ sch ∈ schs, Requested cfg sch s m) →
      Agree (iterate cfg p schs) s m kp ∧ Present (iterate cfg p schs) s m := by
  intro schs
  induction schs with
  | nil => intro p ha hp _; exact ⟨ha, hp⟩
  | cons sch rest ih =>
    intro p ha hp hreq
    obtain ⟨ha', hp'⟩ := agree_step cfg p sch s m kp hs hne hdne hbs ha hp
    exact ih (step cfg p sch) ha' (hp' (hreq sch (by simp))) (fun x hx => hreq x (by simp [hx]))

theorem lexRun_append (s : LexSt) (a b : Text) :
    lexRun s (a ++ b) = match lexRun s a with | some s' => lexRun s' b | none => none := by
  induction a generalizing s with
  | nil => rfl
  | cons c t ih =>
    simp only [List.cons_append, lexRun]
    cases lexStep s c with
    | none => rfl
    | some s' => exact ih s'

set_option maxRecDepth 100000 in
theorem lexRun_header : lexRun .code warningHeader = some .code := by decide

theorem lexRun_line_prefixed (rem : Text) :
    lexRun .line (rem.flatMap fun c => if c == '\n' then '\n' :: "// ".toList else [c]) = some .line := by
  induction rem with
  | nil => rfl
  | cons c t ih =>
    simp only [List.flatMap_cons]
    rw [lexRun_append]
    by_cases hc : c = '\n'
    · subst hc
      have : lexRun .line ('\n' :: "// ".toList) = some .line := by decide
      simp only [beq_self_eq_true, if_true, this]
      exact ih
    · have h1 : (c == '\n') = false := by simpa using hc
      simp only [h1, Bool.false_eq_true, if_false, lexRun, lexStep]
      exact ih

theorem lexRun_block_noEnd : ∀ (rem : Text) (st : LexSt),
    (st = .block ∨ (st = .blockStar ∧ rem.head? ≠ some '/')) → hasInfix blockEnd rem = false →
    (lexRun st rem = some .block ∨ lexRun st rem = some .blockStar) := by
  intro rem
  induction rem with
  | nil => intro st h _; rcases h with rfl | ⟨rfl, _⟩ <;> simp [lexRun]
  | cons c t ih =>
    intro st h hinf
    simp only [hasInfix, Bool.or_eq_false_iff] at hinf
    obtain ⟨hpre, hrest⟩ := hinf
    have hnext : c = '*' → t.head? ≠ some '/' := by
      rintro rfl hh
      cases t with
      | nil => simp at hh
      | cons x xs =>
        simp at hh; subst hh
        simp [blockEnd, List.isPrefixOf] at hpre
    rcases h with rfl | ⟨rfl, hhead⟩
    · by_cases hc : c = '*'
      · simp only [lexRun, lexStep, hc, beq_self_eq_true, if_true]
        exact ih .blockStar (Or.inr ⟨rfl, hnext hc⟩) hrest
      · have : (c == '*') = false := by simpa using hc
        simp only [lexRun, lexStep, this, Bool.false_eq_true, if_false]
        exact ih .block (Or.inl rfl) hrest
    · have hc1 : (c == '/') = false := by
        have : c ≠ '/' := by intro e; apply hhead; simp [e]
        simpa using this
      by_cases hc : c = '*'
      · simp only [lexRun, lexStep, hc, beq_self_eq_true, if_true]
        exact ih .blockStar (Or.inr ⟨rfl, hnext hc⟩) hrest
      · have : (c == '*') = false := by simpa using hc
        simp only [lexRun, lexStep, hc1, this, Bool.false_eq_true, if_false]
        exact ih .block (Or.inl rfl) hrest

theorem valid_trailer_line (rem : Text) : validTail (warningHeader ++ prefixLines "// ".toList rem ++ ['\n']) = true := by
  unfold validTail
  rw [List.append_assoc, lexRun_append, lexRun_header]
  simp only
  unfold prefixLines
  rw [List.append_assoc, lexRun_append]
  have : lexRun .code "// ".toList = some .line := by decide
  rw [this]
  simp only
  rw [lexRun_append, lexRun_line_prefixed]
  simp [lexRun, lexStep]

theorem valid_trailer_block (rem : Text) (h : hasInfix blockEnd rem = false) :
    validTail (warningHeader ++ "/*\n\t".toList ++ rem ++ "\n\t*/\n".toList) = true := by
  unfold validTail
  rw [List.append_assoc, List.append_assoc, lexRun_append, lexRun_header]
  simp only
  rw [lexRun_append]
  have : lexRun .code "/*\n\t".toList = some .block := by decide
  rw [this]
  simp only
  rw [lexRun_append]
  rcases lexRun_block_noEnd rem .block (Or.inl rfl) h with h1 | h1 <;> rw [h1] <;> decide

/-- the entry `Reserve` stores for a user import -/
def reservedOf (i : Import) : Import := { i with alias := userLocal i }

theorem reserve1_mono (acc : List Import) (i j : Import) (h : j ∈ acc) : j ∈ reserve1 acc i := by
  unfold reserve1 reserve1With
  split
  · exact h
  · simp [h]

theorem foldl_reserve1_mono (l : List Import) : ∀ (acc : List Import) (j : Import), j ∈ acc → j ∈ l.foldl reserve1 acc := by
  induction l with
  | nil => intro acc j h; exact h
  | cons x xs ih => intro acc j h; exact ih _ j (reserve1_mono acc x j h)

/-- everything in the reserved list is a template import or comes from a user import -/
theorem foldl_reserve1_origin (l : List Import) : ∀ (acc : List Import) (j : Import), j ∈ l.foldl reserve1 acc →
    j ∈ acc ∨ ∃ i ∈ l, j = reservedOf i := by
  induction l with
  | nil => intro acc j h; exact Or.inl h
  | cons x xs ih =>
    intro acc j h
    rcases ih _ j h with h1 | ⟨i, hi, rfl⟩
    · unfold reserve1 reserve1With at h1
      split at h1
      · exact Or.inl h1
      · rw [List.mem_append] at h1
        rcases h1 with h1 | h1
        · exact Or.inl h1
        · right; exact ⟨x, by simp, by simpa [reservedOf] using h1⟩
    · exact Or.inr ⟨i, by simp [hi], rfl⟩

/-- a user import whose path and name are free when its turn comes is reserved under its own name -/
theorem reserve1_adds (acc : List Import) (i : Import)
    (hp : ∀ j ∈ acc, j.path ≠ i.path) (ha : ∀ j ∈ acc, j.alias ≠ userLocal i) : reservedOf i ∈ reserve1 acc i := by
  unfold reserve1 reserve1With
  -- the collision is looked up under the name the import will HAVE (regenerated key): closes only for `.alias`
  have hk : collisionName collisionKey i = userLocal i := rfl
  rw [hk]
  have h1 : (acc.any fun x => x.path == i.path) = false := by
    rw [List.any_eq_false]; intro j hj; simpa using hp j hj
  have h2 : (acc.any fun x => x.alias == userLocal i) = false := by
    rw [List.any_eq_false]; intro j hj; simpa using ha j hj
  simp [h1, h2, reservedOf]

/-- an import whose alias is exempt from the collision test (regenerated list: `_`, `.`) is reserved as soon as its
path is free - whatever aliases are taken -/
theorem reserve1_adds_exempt (acc : List Import) (i : Import)
    (hp : ∀ j ∈ acc, j.path ≠ i.path) (he : collisionExempt.contains (userLocal i) = true) : reservedOf i ∈ reserve1 acc i := by
  unfold reserve1 reserve1With
  have h1 : (acc.any fun x => x.path == i.path) = false := by
    rw [List.any_eq_false]; intro j hj; simpa using hp j hj
  have he' : userLocal i ∈ collisionExempt := by simpa using he
  simp [h1, he', reservedOf]

/-- the user's import is one of the template's own imports, bound to the same name -/
def isAmbient (i : Import) : Bool := ambient.any fun a => a.path == i.path && a.alias == userLocal i

theorem reserve_keeps_aux : ∀ (post : List Import) (i : Import) (acc : List Import),
    (∀ j ∈ acc, j.path ≠ i.path) → (∀ j ∈ acc, j.alias ≠ userLocal i) →
    reservedOf i ∈ (i :: post).foldl reserve1 acc := by
  intro post i acc hp ha
  exact foldl_reserve1_mono post _ _ (reserve1_adds acc i hp ha)

/-- a user import whose path and name are taken neither by the template nor by another user import is reserved -/
theorem reserve_keeps (user : List Import) (hnp : (user.map (·.path)).Nodup) (hnn : (user.map userLocal).Nodup)
    (i : Import) (hi : i ∈ user) (hfp : ∀ a ∈ ambient, a.path ≠ i.path) (hfn : ∀ a ∈ ambient, a.alias ≠ userLocal i) :
    reservedOf i ∈ reserve user := by
  obtain ⟨pre, post, rfl⟩ := List.append_of_mem hi
  unfold reserve
  rw [List.foldl_append]
  apply reserve_keeps_aux post i
  · intro j hj
    rcases foldl_reserve1_origin pre ambient j hj with hamb | ⟨x, hx, rfl⟩
    · exact hfp j hamb
    · simp only [List.map_append, List.map_cons] at hnp
      have hnd := (List.nodup_append.mp hnp).2.2
      intro e
      exact hnd x.path (List.mem_map.mpr ⟨x, hx, rfl⟩) i.path (by simp) (by simpa [reservedOf] using e)
  · intro j hj
    rcases foldl_reserve1_origin pre ambient j hj with hamb | ⟨x, hx, rfl⟩
    · exact hfn j hamb
    · simp only [List.map_append, List.map_cons] at hnn
      have hnd := (List.nodup_append.mp hnn).2.2
      intro e
      exact hnd (userLocal x) (List.mem_map.mpr ⟨x, hx, rfl⟩) (userLocal i) (by simp) (by simpa [reservedOf] using e)

/-- a user import with an exempt alias whose path is taken neither by the template nor by another user import is reserved -/
theorem reserve_keeps_exempt (user : List Import) (hnp : (user.map (·.path)).Nodup)
    (i : Import) (hi : i ∈ user) (hfp : ∀ a ∈ ambient, a.path ≠ i.path)
    (he : collisionExempt.contains (userLocal i) = true) : reservedOf i ∈ reserve user := by
  obtain ⟨pre, post, rfl⟩ := List.append_of_mem hi
  unfold reserve
  rw [List.foldl_append]
  refine foldl_reserve1_mono post _ _ (reserve1_adds_exempt _ i ?_ he)
  intro j hj
  rcases foldl_reserve1_origin pre ambient j hj with hamb | ⟨x, hx, rfl⟩
  · exact hfp j hamb
  · simp only [List.map_append, List.map_cons] at hnp
    have hnd := (List.nodup_append.mp hnp).2.2
    intro e
    exact hnd x.path (List.mem_map.mpr ⟨x, hx, rfl⟩) i.path (by simp) (by simpa [reservedOf] using e)

theorem ambient_subset_reserve (user : List Import) (a : Import) (h : a ∈ ambient) : a ∈ reserve user :=
  foldl_reserve1_mono user ambient a h

theorem printedLocal_ambient : ∀ a ∈ ambient, printedLocal a = a.alias := by decide

/-- `Import.String` as it is in the source now (regenerated rule) -/
theorem omitAlias_eq (i : Import) :
    omitAlias i = (isSuffixStr i.alias i.path && (i.alias == i.pkg || i.pkg == "")) := rfl

/-- the written import binds the name the user's import bound -/
theorem printedLocal_reservedOf (i : Import) (hpkg : i.pkg ≠ "") : printedLocal (reservedOf i) = userLocal i := by
  unfold printedLocal
  rw [omitAlias_eq]
  cases h : (isSuffixStr (reservedOf i).alias (reservedOf i).path && ((reservedOf i).alias == (reservedOf i).pkg || (reservedOf i).pkg == ""))
  · simp [reservedOf]
  · simp only [Bool.and_eq_true, Bool.or_eq_true, beq_iff_eq] at h
    simp only [if_true]
    rcases h.2 with h2 | h2
    · simpa [reservedOf] using h2.symm
    · exact absurd (by simpa [reservedOf] using h2) hpkg

theorem dropPrefix_append (pre t : Text) : dropPrefix pre (pre ++ t) = t := by
  unfold dropPrefix
  have : pre.isPrefixOf (pre ++ t) = true := by rw [List.isPrefixOf_iff_prefix]; exact List.prefix_append _ _
  simp [this]

theorem unprefixTail_flatMap (pre : Text) (t : Text) :
    unprefixTail pre (t.flatMap fun c => if c == '\n' then '\n' :: pre else [c]) = t := by
  induction t with
  | nil => simp [unprefixTail]
  | cons c r ih =>
    by_cases hc : c = '\n'
    · subst hc
      simp only [List.flatMap_cons, beq_self_eq_true, if_true, List.cons_append]
      rw [unprefixTail]
      simp only [beq_self_eq_true, if_true, dropPrefix_append]
      rw [ih]
    · have h1 : (c == '\n') = false := by simpa using hc
      simp only [List.flatMap_cons, h1, Bool.false_eq_true, if_false, List.cons_append, List.nil_append]
      rw [unprefixTail]
      simp only [h1, Bool.false_eq_true, if_false]
      rw [ih]

/-- leftover code written as `// ` lines is recovered verbatim by removing the prefix of every line -/
theorem unprefix_prefixLines (pre t : Text) : unprefixLines pre (prefixLines pre t) = t := by
  unfold unprefixLines prefixLines
  rw [dropPrefix_append, unprefixTail_flatMap]

/-- when every non-import declaration of a file is marked copied, nothing is left over -/
theorem nothing_left_of_all_copied (cp : List Key) (p : Pkg) (name : String)
    (h : ∀ fi f, findFile p name = some (fi, f) → ∀ j d, f.decls[j]? = some d → d.isImport = true ∨ (fi, j) ∈ cp) :
    remainingSource cp p name = [] := by
  unfold remainingSource
  cases hf : findFile p name with
  | none => rfl
  | some x =>
    obtain ⟨fi, f⟩ := x
    have hraw : remainingRaw cp fi f = [] := by
      unfold remainingRaw
      rw [List.flatMap_eq_nil_iff]
      intro dj hdj
      obtain ⟨d, j⟩ := dj
      rw [List.mem_zipIdx_iff_getElem?] at hdj
      have := h fi f hf j d (by simpa using hdj)
      have hs : skipped cp (fi, j) d = true := by
        unfold skipped
        rcases this with hi | hc
        · simp only [Decl.isImport, Bool.and_eq_true, Bool.not_eq_true', beq_iff_eq] at hi
          simp [hi.1, hi.2, skipToks]
        · simp [skipCopied, hc]
      simp [hs]
    simp [hraw, trim, trimLeft, trimRight]

/-- the doc comment read by `Doc.Text()` loses nothing and does not start with a backslash (what F19d / F19e
exclude): then the Spec's marker-free doc text is what resolvergen re-emits -/
def DocPlain (d : Decl) : Prop := d.specDoc = trim (trimBackslashes d.doc)

/-- the declaration sits in a gofmt-ed file: gofmt's form of its body is its trimmed body text -/
def Formatted (d : Decl) : Prop := d.canon = trim d.inner

/-- Impl ⊨ Spec, method part: on the model's own output the executable Spec finds no resolver method that
lost its body, its named results or its doc comment. -/
theorem spec_methods_hold (cfg : Cfg) (p : Pkg) (sch : Schema)
    (hdoc : ∀ r ∈ resolverReqs cfg sch, ∀ k d, firstMatch p r.recv r.name = some (k, d) → DocPlain d ∧ Formatted d) :
    Spec.methodViolations cfg p sch (step cfg p sch) = [] := by
  unfold Spec.methodViolations
  rw [emittedReqs_eq, List.flatMap_eq_nil_iff]
  intro r hr
  cases hfm : firstMatch p r.recv r.name with
  | none => rfl
  | some kd =>
    obtain ⟨k, d⟩ := kd
    simp only
    by_cases hemp : trim d.inner = []
    · simp [hemp]
    · have hemp' : (trim d.inner == []) = false := by simpa using hemp
      simp only [hemp', Bool.false_eq_true, if_false]
      -- the request comes from a resolver field
      unfold resolverReqs at hr
      rw [List.mem_flatMap] at hr
      obtain ⟨o, ho, hr⟩ := hr
      rw [fieldReqs_def] at hr
      rw [List.mem_map] at hr
      obtain ⟨f, hf, rfl⟩ := hr
      simp only at hfm
      obtain ⟨_, _, himpl, hnv, hne, hdc⟩ := mkMethod_of_match cfg p o f k d hfm hemp
      obtain ⟨nf, hnf, _, hmeth⟩ := method_in_output cfg p sch o f ho hf
      have hfile : reparse cfg nf ∈ step cfg p sch := reparse_mem_apply hnf (regenerate_names_nodup cfg p sch)
      have hdecl : (mkMethod cfg p o f).toDecl ∈ (reparse cfg nf).decls := by
        simp only [reparse, List.mem_append, List.mem_map]
        exact Or.inl (Or.inl (Or.inr ⟨_, hmeth, rfl⟩))
      obtain ⟨k', hk'⟩ := mem_allDecls_of_mem hfile hdecl
      have hism : isMethod (structName cfg o) f.goName (mkMethod cfg p o f).toDecl = true := by
        simp [isMethod, NewMethod.toDecl, mkMethod_recv, mkMethod_name]
      have hkeeps : Spec.keeps d (mkMethod cfg p o f).toDecl = true := by
        have hdpf := hdoc _ (by
          unfold resolverReqs; rw [List.mem_flatMap]
          exact ⟨o, ho, by rw [fieldReqs_def]; exact List.mem_map.mpr ⟨f, hf, rfl⟩⟩) k d hfm
        have hdp := hdpf.1
        have hb : (mkMethod cfg p o f).toDecl.canon = d.canon := by
          show (mkMethod cfg p o f).impl = d.canon
          rw [himpl, hdpf.2]
        have hsd : d.specDoc = [] ∨ (mkMethod cfg p o f).toDecl.specDoc = d.specDoc := by
          by_cases he : d.specDoc = []
          · exact Or.inl he
          · right
            show (mkMethod cfg p o f).doc = d.specDoc
            rw [hdp] at he ⊢
            exact hdc he
        unfold Spec.keeps Spec.lostParts
        have e1 : ((mkMethod cfg p o f).toDecl.canon == d.canon) = true := by simp [hb]
        have e2 : ((mkMethod cfg p o f).toDecl.namedV == d.namedV && (mkMethod cfg p o f).toDecl.namedE == d.namedE) = true := by
          show ((mkMethod cfg p o f).namedV == d.namedV && (mkMethod cfg p o f).namedE == d.namedE) = true
          simp [hnv, hne]
        have e3 : (d.specDoc == [] || (mkMethod cfg p o f).toDecl.specDoc == d.specDoc) = true := by
          rcases hsd with h | h <;> simp [h]
        simp only [e1, e2, e3, if_true, List.append_nil, beq_self_eq_true]
      have hany : (List.filter (fun kd => isMethod (structName cfg o) f.goName kd.2) (allDecls (step cfg p sch))).any
          (fun kd => Spec.keeps d kd.2) = true := by
        rw [List.any_eq_true]
        exact ⟨(k', _), List.mem_filter.mpr ⟨hk', hism⟩, hkeeps⟩
      simp [hany]

/-- two rendered methods are written identically -/
def SameOut (a b : NewMethod) : Prop :=
  a.recv = b.recv ∧ a.name = b.name ∧ a.gqlName = b.gqlName ∧ a.doc = b.doc ∧ a.namedV = b.namedV ∧
  a.namedE = b.namedE ∧ a.impl = b.impl

/-- a Go identifier: starts with something that is neither white space nor a backslash -/
def StartsWithLetter (s : String) : Prop := ∃ c r, s.toList = c :: r ∧ isSpace c = false ∧ c ≠ '\\'

theorem noTrail_append_cons (a : Text) (b : Text) (c : Char) (h : isSpace c = false) : NoTrailSpace (a ++ (b ++ [c])) := by
  intro x r hx
  have : a ++ (b ++ [c]) = (a ++ b) ++ [c] := by simp
  rw [this] at hx
  have := List.append_inj' hx rfl
  simp at this
  rw [← this.2]; exact h

theorem defaultImpl_tight (f : Field) : NoLeadSpace (defaultImpl f) ∧ NoTrailSpace (defaultImpl f) ∧ defaultImpl f ≠ [] := by
  have e1 : "panic(fmt.Errorf(\"not implemented: ".toList = 'p' :: "anic(fmt.Errorf(\"not implemented: ".toList := by decide
  have e2 : "\"))".toList = "\")".toList ++ [')'] := by decide
  refine ⟨?_, ?_, ?_⟩
  · intro c r h
    unfold defaultImpl at h
    rw [e1] at h
    simp only [List.cons_append] at h
    injection h with h _
    rw [← h]; decide
  · unfold defaultImpl
    rw [e2]
    have := noTrail_append_cons ("panic(fmt.Errorf(\"not implemented: ".toList ++ f.goName.toList ++ " - ".toList ++ f.name.toList) "\")".toList ')' (by decide)
    simpa using this
  · unfold defaultImpl; rw [e1]; simp

theorem singleDefaultImpl_tight : NoLeadSpace singleDefaultImpl ∧ NoTrailSpace singleDefaultImpl ∧ singleDefaultImpl ≠ [] := by
  have e1 : singleDefaultImpl = 'p' :: "anic(\"not implemented\")".toList := by decide
  have e2 : singleDefaultImpl = "panic(\"not implemented\"".toList ++ [')'] := by decide
  refine ⟨?_, ?_, ?_⟩
  · intro c r h; rw [e1] at h; injection h with h _; rw [← h]; decide
  · intro c r h; rw [e2] at h
    have := List.append_inj' h rfl
    simp at this; rw [← this.2]; decide
  · rw [e1]; simp

theorem defaultDoc_ne_nil (f : Field) : defaultDoc f ≠ [] := by
  unfold defaultDoc
  have : " field.".toList = " field".toList ++ ['.'] := by decide
  rw [this]
  intro h
  have := congrArg List.length h
  simp at this

theorem defaultDoc_tight (f : Field) (h : StartsWithLetter f.goName) :
    NoLeadSpace (defaultDoc f) ∧ NoTrailSpace (defaultDoc f) ∧ (defaultDoc f).head? ≠ some '\\' := by
  obtain ⟨c, r, hc, hsp, hbs⟩ := h
  have e2 : " field.".toList = " field".toList ++ ['.'] := by decide
  refine ⟨?_, ?_, ?_⟩
  · intro x r' hx
    unfold defaultDoc at hx
    rw [hc] at hx
    simp only [List.cons_append] at hx
    injection hx with hx _
    rw [← hx]; exact hsp
  · unfold defaultDoc
    rw [e2]
    have := noTrail_append_cons (f.goName.toList ++ " is the resolver for the ".toList ++ f.name.toList) " field".toList '.' (by decide)
    simpa using this
  · unfold defaultDoc
    rw [hc]
    simp only [List.cons_append, List.head?_cons]
    intro e; injection e with e; exact hbs e

/-- reading a written method back: go/parser's declaration has exactly the content that was written -/
theorem content_toDecl (X : NewMethod) (hi1 : NoLeadSpace X.impl) (hi2 : NoTrailSpace X.impl)
    (hd1 : NoLeadSpace X.doc) (hd2 : NoTrailSpace X.doc) (hbs : X.doc.head? ≠ some '\\') :
    content X.toDecl = ⟨X.impl, X.namedV, X.namedE, X.doc⟩ := by
  unfold content
  rw [getMethodBody_inner]
  have h1 : trim X.toDecl.inner = X.impl := by
    show trim ('\n' :: '\t' :: (X.impl ++ ['\n'])) = X.impl
    have := trim_pad ['\n', '\t'] X.impl ['\n'] (by simp [isSpace_nl, isSpace_tab]) (by simp [isSpace_nl]) hi1 hi2
    simpa using this
  have h2 : trim (trimBackslashes X.toDecl.doc) = X.doc := by
    show trim (trimBackslashes (if X.doc == [] then [] else X.doc ++ ['\n'])) = X.doc
    by_cases hd : X.doc = []
    · rw [hd]; decide
    · have hne : (X.doc == []) = false := by simpa using hd
      simp only [hne, Bool.false_eq_true, if_false]
      have hh : (X.doc ++ ['\n']).head? ≠ some '\\' := by
        cases hk : X.doc with
        | nil => exact absurd hk hd
        | cons c r => rw [hk] at hbs; simpa using hbs
      rw [trimBackslashes_of_head hh]
      have := trim_pad [] X.doc ['\n'] (by simp) (by simp [isSpace_nl]) hd1 hd2
      simpa using this
  rw [h1, h2]
  rfl

theorem mkOf_impl_ne_nil (cfg : Cfg) (o : Obj) (f : Field) (c : Option Content) : (mkOf cfg o f c).impl ≠ [] := by
  show (if implStrOf c != [] then implStrOf c else defaultFor cfg f) ≠ []
  by_cases h : implStrOf c = []
  · have : (implStrOf c != []) = false := by simpa using h
    simp only [this, Bool.false_eq_true, if_false]
    unfold defaultFor
    cases cfg.layout
    · exact singleDefaultImpl_tight.2.2
    · exact (defaultImpl_tight f).2.2
  · have : (implStrOf c != []) = true := by simpa using h
    simp only [this, if_true]; exact h

theorem mkOf_doc_nil (cfg : Cfg) (o : Obj) (f : Field) (c : Option Content) (h : (mkOf cfg o f c).doc = []) :
    cfg.omitTemplateComment = true := by
  have h' : (if keptComment cfg c != [] then keptComment cfg c else if cfg.omitTemplateComment then [] else defaultDoc f) = [] := h
  by_cases hk : keptComment cfg c = []
  · have : (keptComment cfg c != []) = false := by simpa using hk
    simp only [this, Bool.false_eq_true, if_false] at h'
    by_cases ho : cfg.omitTemplateComment = true
    · exact ho
    · simp only [ho] at h'
      exact absurd h' (defaultDoc_ne_nil f)
  · have : (keptComment cfg c != []) = true := by simpa using hk
    simp only [this, if_true] at h'
    exact absurd h' hk

theorem mkOf_fixed_aux (cfg : Cfg) (o : Obj) (f : Field) (X : NewMethod)
    (hr : X.recv = structName cfg o) (hn : X.name = f.goName) (hg : X.gqlName = f.name)
    (himpl : X.impl ≠ []) (hdocnil : X.doc = [] → cfg.omitTemplateComment = true) :
    SameOut (mkOf cfg o f (some ⟨X.impl, X.namedV, X.namedE, X.doc⟩)) X := by
  have hi : (X.impl != []) = true := by simpa using himpl
  have hk : keepOf cfg (some ⟨X.impl, X.namedV, X.namedE, X.doc⟩) = true := by
    unfold keepOf; cases cfg.layout <;> simp [implStrOf, hi]
  have hkc : keptComment cfg (some ⟨X.impl, X.namedV, X.namedE, X.doc⟩) = X.doc := by
    simp only [keptComment, hk, if_true]; rfl
  refine ⟨hr.symm, hn.symm, hg.symm, ?_, ?_, ?_, ?_⟩
  · show (if keptComment cfg _ != [] then keptComment cfg _ else if cfg.omitTemplateComment then [] else defaultDoc f) = X.doc
    rw [hkc]
    by_cases hd : X.doc = []
    · simp [hd, hdocnil hd]
    · have : (X.doc != []) = true := by simpa using hd
      simp [this]
  · show (if keepOf cfg _ then _ else "") = X.namedV
    rw [hk]; rfl
  · show (if keepOf cfg _ then _ else "") = X.namedE
    rw [hk]; rfl
  · show (if implStrOf (some ⟨X.impl, X.namedV, X.namedE, X.doc⟩) != [] then implStrOf (some ⟨X.impl, X.namedV, X.namedE, X.doc⟩) else defaultFor cfg f) = X.impl
    simp [implStrOf, hi]

/-- rendering from what a rendered method reads back as renders the same method again -/
theorem mkOf_fixed (cfg : Cfg) (o : Obj) (f : Field) (c : Option Content) :
    SameOut (mkOf cfg o f (some ⟨(mkOf cfg o f c).impl, (mkOf cfg o f c).namedV, (mkOf cfg o f c).namedE, (mkOf cfg o f c).doc⟩))
      (mkOf cfg o f c) :=
  mkOf_fixed_aux cfg o f (mkOf cfg o f c) rfl rfl rfl (mkOf_impl_ne_nil cfg o f c) (mkOf_doc_nil cfg o f c)

theorem mkOf_congr (cfg : Cfg) (o o' : Obj) (f f' : Field) (c : Option Content)
    (h1 : structName cfg o' = structName cfg o) (h2 : f'.goName = f.goName) (h3 : f'.name = f.name) :
    mkOf cfg o' f' c = mkOf cfg o f c := by
  unfold mkOf defaultFor defaultDoc defaultImpl
  simp only [h1, h2, h3]

theorem noLead_nil : NoLeadSpace [] := by intro c r h; simp at h
theorem noTrail_nil : NoTrailSpace [] := by intro c r h; simp at h

/-- what `mkMethod` writes is tight: bodies and comments are trimmed, the defaults start and end with ink -/
theorem mkMethod_tight (cfg : Cfg) (p : Pkg) (o : Obj) (f : Field) (hgo : StartsWithLetter f.goName) :
    NoLeadSpace (mkMethod cfg p o f).impl ∧ NoTrailSpace (mkMethod cfg p o f).impl ∧
    NoLeadSpace (mkMethod cfg p o f).doc ∧ NoTrailSpace (mkMethod cfg p o f).doc := by
  rw [mkMethod_def]
  generalize hc : (firstMatch p (structName cfg o) f.goName).map (fun kd => content kd.2) = c
  have hbody : NoLeadSpace (implStrOf c) ∧ NoTrailSpace (implStrOf c) := by
    cases c with
    | none => exact ⟨noLead_nil, noTrail_nil⟩
    | some x =>
      cases hfm : firstMatch p (structName cfg o) f.goName with
      | none => rw [hfm] at hc; simp at hc
      | some kd =>
        rw [hfm] at hc; simp at hc; subst hc
        exact ⟨noLead_trim _, noTrail_trim _⟩
  have hcom : NoLeadSpace (keptComment cfg c) ∧ NoTrailSpace (keptComment cfg c) := by
    unfold keptComment
    split
    · cases c with
      | none => exact ⟨noLead_nil, noTrail_nil⟩
      | some x =>
        cases hfm : firstMatch p (structName cfg o) f.goName with
        | none => rw [hfm] at hc; simp at hc
        | some kd =>
          rw [hfm] at hc; simp at hc; subst hc
          exact ⟨noLead_trim _, noTrail_trim _⟩
    · exact ⟨noLead_nil, noTrail_nil⟩
  have himpl : NoLeadSpace (mkOf cfg o f c).impl ∧ NoTrailSpace (mkOf cfg o f c).impl := by
    show NoLeadSpace (if implStrOf c != [] then implStrOf c else defaultFor cfg f) ∧
         NoTrailSpace (if implStrOf c != [] then implStrOf c else defaultFor cfg f)
    split
    · exact hbody
    · unfold defaultFor
      cases cfg.layout
      · exact ⟨singleDefaultImpl_tight.1, singleDefaultImpl_tight.2.1⟩
      · exact ⟨(defaultImpl_tight f).1, (defaultImpl_tight f).2.1⟩
  have hdoc : NoLeadSpace (mkOf cfg o f c).doc ∧ NoTrailSpace (mkOf cfg o f c).doc := by
    show NoLeadSpace (if keptComment cfg c != [] then keptComment cfg c else if cfg.omitTemplateComment then [] else defaultDoc f) ∧
         NoTrailSpace (if keptComment cfg c != [] then keptComment cfg c else if cfg.omitTemplateComment then [] else defaultDoc f)
    split
    · exact hcom
    · split
      · exact ⟨noLead_nil, noTrail_nil⟩
      · exact ⟨(defaultDoc_tight f hgo).1, (defaultDoc_tight f hgo).2.1⟩
  exact ⟨himpl.1, himpl.2, hdoc.1, hdoc.2⟩

/-- **Regenerating twice writes the same methods as regenerating once.** -/
theorem idempotent_methods_lemma (cfg : Cfg) (p : Pkg) (sch : Schema) (o : Obj) (f : Field)
    (ho : o ∈ sch) (hf : f ∈ o.resolverFields) (hs : structName cfg o ≠ cfg.rtype)
    (hagree : ∀ kd ∈ allDecls p, ∀ kd' ∈ allDecls p, isMethod (structName cfg o) f.goName kd.2 = true →
      isMethod (structName cfg o) f.goName kd'.2 = true → content kd.2 = content kd'.2)
    (huniq : ∀ o' ∈ sch, ∀ f' ∈ o'.resolverFields, structName cfg o' = structName cfg o → f'.goName = f.goName → f'.name = f.name)
    (hgo : StartsWithLetter f.goName) (hbs : (mkMethod cfg p o f).doc.head? ≠ some '\\') :
    SameOut (mkMethod cfg (step cfg p sch) o f) (mkMethod cfg p o f) := by
  -- the method is declared after the first run
  have hreq : Requested cfg sch (structName cfg o) f.goName := ⟨o, ho, f, hf, rfl, rfl⟩
  have hpres : Present (step cfg p sch) (structName cfg o) f.goName := by
    obtain ⟨nf, hnf, _, hmeth⟩ := method_in_output cfg p sch o f ho hf
    have hfile : reparse cfg nf ∈ step cfg p sch := reparse_mem_apply hnf (regenerate_names_nodup cfg p sch)
    have hdecl : (mkMethod cfg p o f).toDecl ∈ (reparse cfg nf).decls := by
      simp only [reparse, List.mem_append, List.mem_map]
      exact Or.inl (Or.inl (Or.inr ⟨_, hmeth, rfl⟩))
    obtain ⟨k, hk⟩ := mem_allDecls_of_mem hfile hdecl
    exact ⟨(k, _), hk, by simp [isMethod, NewMethod.toDecl, mkMethod_recv, mkMethod_name]⟩
  obtain ⟨k1, d1, hfm1, hmem1, hm1⟩ := firstMatch_of_present hpres
  have hY : mkMethod cfg (step cfg p sch) o f = mkOf cfg o f (some (content d1)) := by
    rw [mkMethod_def, hfm1]; rfl
  rw [hY]
  obtain ⟨g, hg, hdg⟩ := mem_of_mem_allDecls hmem1
  rcases mem_apply hg with hold | ⟨nf, hnf, rfl⟩
  · -- an old declaration: it reads like the first match of the first run
    obtain ⟨k', hk'⟩ := mem_allDecls_of_mem hold hdg
    have hp : Present p (structName cfg o) f.goName := ⟨(k', d1), hk', hm1⟩
    obtain ⟨k0, d0, hfm0, hmem0, hm0⟩ := firstMatch_of_present hp
    have hc : content d1 = content d0 := hagree (k', d1) hk' (k0, d0) hmem0 hm1 hm0
    have hX : mkMethod cfg p o f = mkOf cfg o f (some (content d0)) := by
      rw [mkMethod_def, hfm0]; rfl
    rw [hX, hc]
    exact ⟨rfl, rfl, rfl, rfl, rfl, rfl, rfl⟩
  · -- a declaration written by the first run
    simp only [reparse, List.mem_append, List.mem_map] at hdg
    rcases hdg with ((hroot | ⟨nm, hnm, hnmeq⟩) | ⟨on, _, hacc⟩) | ⟨on, _, hst⟩
    · split at hroot
      · simp at hroot; rw [hroot] at hm1; simp [isMethod, rootDecl] at hm1
      · simp at hroot
    · obtain ⟨o', ho', f', hf', rfl⟩ := method_of_output cfg p sch nf nm hnf hnm
      rw [← hnmeq] at hm1
      have hrn : structName cfg o' = structName cfg o ∧ f'.goName = f.goName := by
        simp only [isMethod, NewMethod.toDecl, Bool.and_eq_true, beq_iff_eq, Bool.true_and] at hm1
        exact ⟨hm1.2, hm1.1⟩
      have hname := huniq o' ho' f' hf' hrn.1 hrn.2
      have hsame : mkMethod cfg p o' f' = mkMethod cfg p o f := by
        rw [mkMethod_def, mkMethod_def]
        rw [hrn.1, hrn.2]
        exact mkOf_congr cfg o o' f f' _ hrn.1 hrn.2 hname
      rw [← hnmeq, hsame]
      obtain ⟨t1, t2, t3, t4⟩ := mkMethod_tight cfg p o f hgo
      rw [content_toDecl _ t1 t2 t3 t4 hbs]
      exact mkOf_fixed cfg o f _
    · rw [← hacc] at hm1
      simp only [isMethod, accessorDecl, Bool.and_eq_true, beq_iff_eq, Bool.true_and] at hm1
      exact absurd hm1.2.symm hs
    · rw [← hst] at hm1
      simp [isMethod, structDecl] at hm1

end GqlgenVerif.Rewrite
