import GqlgenVerif.Lemmas.Defer
/-!
# The worklist of deferred groups (`D.runGroups`): which groups are delivered, and in what order

`D.runGroups` runs the started groups first-in first-out; a group that runs may start further groups, which
join the end of the worklist. Here the worklist is characterised without reference to payload contents:
`schedule` is the list of groups it delivers, `startedBy` the groups one group starts while it runs.

* `runGroups_eq`        : the payload sequence is `schedule` mapped through `payloadOf` (one payload per
                          scheduled group, carrying that group's path and label);
* `schedule_bfs`        : when the fuel is not exhausted, `schedule = initial ++ schedule.flatMap startedBy`;
* `schedule_causal`     : every delivered group is one of the initial groups or was started by a group
                          delivered strictly earlier (for every fuel);
* `groups_noNested`     : a group whose fields' sub-selections contain no `@defer` starts no group, and its
                          payload is the plain mechanism (`Impl.completeFields`) run on a fresh state.
-/
namespace GqlgenVerif
open D

namespace D

/-- the groups a group starts while it runs (fresh response context, as in `runGroups`) -/
def startedBy (o : Oracle) (g : Group) : List Group :=
  (completeFields o g.ty true g.fields g.path {}).2.2.groups

/-- the payload `runGroups` appends for a group -/
def payloadOf (o : Oracle) (g : Group) : Payload :=
  let r := completeFields o g.ty true g.fields g.path {}
  { path := g.path, label := g.label, data := if r.2.1 > 0 then Out.null else Out.obj r.1, st := r.2.2.st }

/-- the groups the worklist delivers, in delivery order -/
def schedule (o : Oracle) : Nat → List Group → List Group
  | 0, _ => []
  | _ + 1, [] => []
  | fuel + 1, g :: rest => g :: schedule o fuel (rest ++ startedBy o g)

end D

theorem runGroups_eq (o : Oracle) : ∀ (fuel : Nat) (gs : List Group) (acc : List Payload),
    D.runGroups o fuel gs acc = acc ++ (D.schedule o fuel gs).map (D.payloadOf o)
  | 0, _, acc => by simp [D.runGroups, D.schedule]
  | _ + 1, [], acc => by simp [D.runGroups, D.schedule]
  | fuel + 1, g :: rest, acc => by
    simp only [D.runGroups, D.schedule, List.map_cons]
    rw [runGroups_eq o fuel]
    simp [D.payloadOf, D.startedBy]

theorem schedule_length_le (o : Oracle) : ∀ (fuel : Nat) (gs : List Group), (D.schedule o fuel gs).length ≤ fuel
  | 0, _ => by simp [D.schedule]
  | _ + 1, [] => by simp [D.schedule]
  | fuel + 1, g :: rest => by
    simp only [D.schedule, List.length_cons]
    have := schedule_length_le o fuel (rest ++ D.startedBy o g)
    omega

/-- the breadth-first equation: with fuel to spare, the delivered groups are the initially started ones followed by
    the groups started by the delivered ones, in delivery order -/
theorem schedule_bfs (o : Oracle) : ∀ (fuel : Nat) (gs : List Group),
    (D.schedule o fuel gs).length < fuel →
    D.schedule o fuel gs = gs ++ (D.schedule o fuel gs).flatMap (D.startedBy o)
  | 0, _, h => by simp at h
  | _ + 1, [], _ => by simp [D.schedule]
  | fuel + 1, g :: rest, h => by
    simp only [D.schedule, List.length_cons] at h ⊢
    have ih := schedule_bfs o fuel (rest ++ D.startedBy o g) (by omega)
    simp only [List.flatMap_cons, List.cons_append, List.cons.injEq, true_and]
    conv => lhs; rw [ih]
    simp [List.append_assoc]

/-- causality, for every fuel: the `i`-th delivered group is an initial one or was started by an earlier delivery -/
theorem schedule_causal (o : Oracle) : ∀ (fuel : Nat) (gs : List Group) (i : Nat)
    (hi : i < (D.schedule o fuel gs).length),
    (D.schedule o fuel gs)[i] ∈ gs ∨
      ∃ j, ∃ (hj : j < i), (D.schedule o fuel gs)[i] ∈ D.startedBy o ((D.schedule o fuel gs)[j]'(by omega))
  | 0, _, i, hi => by simp [D.schedule] at hi
  | _ + 1, [], i, hi => by simp [D.schedule] at hi
  | fuel + 1, g :: rest, i, hi => by
    simp only [D.schedule] at hi ⊢
    cases i with
    | zero => left; simp
    | succ k =>
      have hk : k < (D.schedule o fuel (rest ++ D.startedBy o g)).length := by simpa using hi
      simp only [List.getElem_cons_succ]
      rcases schedule_causal o fuel (rest ++ D.startedBy o g) k hk with h | ⟨j, hj, h⟩
      · rcases List.mem_append.mp h with h | h
        · left; exact List.mem_cons_of_mem _ h
        · right; exact ⟨0, Nat.succ_pos k, by simpa using h⟩
      · right; exact ⟨j + 1, Nat.succ_lt_succ hj, by simpa using h⟩

/-- the initially started groups are delivered first, in their order, when the fuel covers them -/
theorem schedule_prefix (o : Oracle) : ∀ (gs more : List Group) (fuel : Nat), gs.length ≤ fuel →
    gs <+: D.schedule o fuel (gs ++ more)
  | [], _, _, _ => List.nil_prefix
  | g :: rest, more, 0, h => by simp at h
  | g :: rest, more, fuel + 1, h => by
    simp only [List.cons_append, D.schedule]
    have ih := schedule_prefix o rest (more ++ D.startedBy o g) fuel (by simpa using h)
    rw [List.append_assoc]
    exact (List.prefix_cons_inj g).mpr ih

/-! ### groups without nested `@defer` -/

/-- the sub-selections of these fields contain no `@defer` (the fields themselves may be deferred) -/
def fieldsSubNoDefer : List (FInfo × Shape) → Prop
  | [] => True
  | (_, sh) :: rest => sh.noDefer ∧ fieldsSubNoDefer rest

/-- run as a group's field set (`inGroup = true`), fields are completed by the plain mechanism whatever their own
    `deferred` mark says -/
theorem D_group_fields (o : Oracle) (ty : String) : ∀ (fields : List (FInfo × Shape)) (p : Path) (d : DSt),
    fieldsSubNoDefer fields →
    D.completeFields o ty true fields p d =
      ((Impl.completeFields o ty fields p d.st).1, (Impl.completeFields o ty fields p d.st).2.1,
        { d with st := (Impl.completeFields o ty fields p d.st).2.2 })
  | [], _, _, _ => by simp [D.completeFields, Impl.completeFields]
  | (fi, sh) :: rest, p, d, h => by
    simp only [fieldsSubNoDefer] at h
    simp only [D.completeFields, Impl.completeFields, Bool.not_true, Bool.false_and, Bool.false_eq_true, ↓reduceIte]
    by_cases ht : (fi.name == "__typename") = true
    · simp only [ht, ↓reduceIte]
      rw [D_group_fields o ty rest p d h.2]
    · simp only [ht, Bool.false_eq_true, ↓reduceIte]
      rw [D_field o fi sh (p ++ [Seg.key fi.alias]) d h.1]
      rw [D_group_fields o ty rest p _ h.2]

/-- a group without nested `@defer` starts nothing and delivers what the plain mechanism computes for its fields on a
    fresh state -/
theorem groups_noNested (o : Oracle) (g : Group) (h : fieldsSubNoDefer g.fields) :
    D.startedBy o g = [] ∧
    (D.payloadOf o g).data =
      (if (Impl.completeFields o g.ty g.fields g.path {}).2.1 > 0 then Out.null
       else Out.obj (Impl.completeFields o g.ty g.fields g.path {}).1) ∧
    (D.payloadOf o g).st = (Impl.completeFields o g.ty g.fields g.path {}).2.2 := by
  have hf := D_group_fields o g.ty g.fields g.path {} h
  simp [D.startedBy, D.payloadOf, hf]

end GqlgenVerif
