import GqlgenVerif.Model.StreamLoop
/-! Small facts about `markFirst` / `wanted` used by `Props/C12.lean`. -/
namespace GqlgenVerif.StreamLoop

theorem markFirst_false {α : Type} (l : List α) : markFirst false l = l.map fun q => (q, false) := by
  cases l <;> simp [markFirst]

theorem markFirst_cons {α : Type} (b : Bool) (p : α) (r : List α) :
    markFirst b (p :: r) = (p, b) :: r.map fun q => (q, false) := rfl

theorem markFirst_fst {α : Type} (b : Bool) (l : List α) : (markFirst b l).map Prod.fst = l := by
  cases l <;> simp [markFirst, Function.comp_def]

end GqlgenVerif.StreamLoop
