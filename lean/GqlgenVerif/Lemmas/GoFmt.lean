import GqlgenVerif.Model.GoFmt
/-!
# Lemmas about the `fmt.Fprintf` model (C12, content dimension)

For **every** literal format without a `%` around one `%s` and **every** operand, `goFmt` writes
`pre ++ operand ++ suf` - the operand is never looked at.
-/
namespace GqlgenVerif.GoFmt

theorem goFmt_cons_ne (c : Nat) (rest : Bytes) (as : List Bytes) (h : c ≠ 0x25) :
    goFmt (c :: rest) as = c :: goFmt rest as := by
  rw [goFmt.eq_def]
  simp [h]

/-- a literal without `%` and no operands is written as it is -/
theorem goFmt_plain (s : Bytes) (h : 0x25 ∉ s) : goFmt s [] = s := by
  induction s with
  | nil => simp [goFmt]
  | cons c rest ih =>
    have hc : c ≠ 0x25 := fun e => h (by simp [e])
    have hr : 0x25 ∉ rest := fun m => h (List.mem_cons_of_mem _ m)
    rw [goFmt_cons_ne c rest [] hc, ih hr]

/-- `%s` with an operand, in front of a suffix without `%`: the operand verbatim, whatever it contains -/
theorem goFmt_verb_s (suf p : Bytes) (h : 0x25 ∉ suf) : goFmt (0x25 :: 0x73 :: suf) [p] = p ++ suf := by
  rw [goFmt.eq_def]
  simp [goFmt_plain suf h]

/-- one `%s` between literals without `%`: `pre ++ operand ++ suf` for all operands -/
theorem goFmt_one_verb (pre suf p : Bytes) (h1 : 0x25 ∉ pre) (h2 : 0x25 ∉ suf) :
    goFmt (pre ++ 0x25 :: 0x73 :: suf) [p] = pre ++ p ++ suf := by
  induction pre with
  | nil => simpa using goFmt_verb_s suf p h2
  | cons c rest ih =>
    have hc : c ≠ 0x25 := fun e => h1 (by simp [e])
    have hr : 0x25 ∉ rest := fun m => h1 (List.mem_cons_of_mem _ m)
    rw [List.cons_append, goFmt_cons_ne _ _ _ hc, ih hr]
    simp

end GqlgenVerif.GoFmt
