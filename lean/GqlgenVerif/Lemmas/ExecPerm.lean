import GqlgenVerif.Lemmas.ExecLocal
/-! Order independence: the fields of an object are independent tasks — completing them in any order
    gives the same key/value pairs, the same failure status, and a permutation of the same errors and
    invocations. -/
namespace GqlgenVerif
open Spec

/-- "same result up to the order in which sibling tasks finished" -/
structure SameUpToOrder (r r' : Option (List (String × Out)) × St) : Prop where
  none_iff : r.1 = none ↔ r'.1 = none
  vals : ∀ os os', r.1 = some os → r'.1 = some os' → os.Perm os'
  errs : r.2.errs.Perm r'.2.errs
  invs : r.2.invs.Perm r'.2.invs
  recovers : r.2.recovers = r'.2.recovers
  unlogged : r.2.unlogged.Perm r'.2.unlogged

theorem SameUpToOrder.refl (r) : SameUpToOrder r r :=
  ⟨Iff.rfl, fun os os' h h' => by rw [h] at h'; cases h'; exact List.Perm.refl _, List.Perm.refl _,
    List.Perm.refl _, rfl, List.Perm.refl _⟩

theorem SameUpToOrder.trans {a b c} (h1 : SameUpToOrder a b) (h2 : SameUpToOrder b c) :
    SameUpToOrder a c := by
  refine ⟨h1.none_iff.trans h2.none_iff, ?_, h1.errs.trans h2.errs, h1.invs.trans h2.invs,
    h1.recovers.trans h2.recovers, h1.unlogged.trans h2.unlogged⟩
  intro os os'' ha hc
  cases hb : b.1 with
  | none => exact absurd (h1.none_iff.mpr hb) (by rw [ha]; simp)
  | some os' => exact (h1.vals os os' ha hb).trans (h2.vals os' os'' hb hc)

/-- the per-field result used by `Spec.completeFields` -/
def fieldResult (o : Oracle) (ty : String) (p : Path) (f : FInfo × Shape) : Option Out × St :=
  if f.1.name == "__typename" then (some (Out.leaf (quoteTypename ty)), ({} : St))
  else Spec.completeField o f.1 f.2 (p ++ [Seg.key f.1.alias])

theorem completeFields_cons (o : Oracle) (ty : String) (p : Path) (f : FInfo × Shape)
    (rest : List (FInfo × Shape)) :
    Spec.completeFields o ty (f :: rest) p =
      ((match (fieldResult o ty p f).1, (Spec.completeFields o ty rest p).1 with
          | some x, some xs => some ((f.1.alias, x) :: xs)
          | _, _ => none),
        (fieldResult o ty p f).2.append (Spec.completeFields o ty rest p).2) := by
  obtain ⟨fi, sh⟩ := f
  simp only [Spec.completeFields, fieldResult]
  rfl

theorem fields_perm (o : Oracle) (ty : String) (p : Path) {l l' : List (FInfo × Shape)}
    (h : l.Perm l') :
    SameUpToOrder (Spec.completeFields o ty l p) (Spec.completeFields o ty l' p) := by
  induction h with
  | nil => exact SameUpToOrder.refl _
  | @cons x l₁ l₂ _ ih =>
    rw [completeFields_cons, completeFields_cons]
    obtain ⟨i1, i2, i3, i4, i5, i6⟩ := ih
    refine ⟨?_, ?_, ?_, ?_, ?_, ?_⟩
    · cases hx : (fieldResult o ty p x).1 with
      | none => simp
      | some v =>
        cases h1 : (Spec.completeFields o ty l₁ p).1 with
        | none => simp [i1.mp h1]
        | some xs =>
          cases h2 : (Spec.completeFields o ty l₂ p).1 with
          | none => exact absurd (i1.mpr h2) (by rw [h1]; simp)
          | some ys => simp
    · intro os os' ha hb
      cases hx : (fieldResult o ty p x).1 with
      | none => rw [hx] at ha; simp at ha
      | some v =>
        rw [hx] at ha hb
        cases h1 : (Spec.completeFields o ty l₁ p).1 with
        | none => rw [h1] at ha; simp at ha
        | some xs =>
          cases h2 : (Spec.completeFields o ty l₂ p).1 with
          | none => rw [h2] at hb; simp at hb
          | some ys =>
            rw [h1] at ha; rw [h2] at hb
            simp at ha hb
            subst ha hb
            exact List.Perm.cons _ (i2 xs ys h1 h2)
    · simp only [St.append_errs]; exact List.Perm.append_left _ i3
    · simp only [St.append_invs]; exact List.Perm.append_left _ i4
    · simp only [St.append_recovers, i5]
    · simp only [St.append_unlogged]; exact List.Perm.append_left _ i6
  | swap x y l =>
    rw [completeFields_cons, completeFields_cons, completeFields_cons, completeFields_cons]
    refine ⟨?_, ?_, ?_, ?_, ?_, ?_⟩
    · cases (fieldResult o ty p x).1 <;> cases (fieldResult o ty p y).1 <;>
        cases (Spec.completeFields o ty l p).1 <;> simp
    · intro os os' ha hb
      cases hx : (fieldResult o ty p x).1 <;> cases hy : (fieldResult o ty p y).1 <;>
        cases hl : (Spec.completeFields o ty l p).1 <;> rw [hx, hy, hl] at ha hb <;> simp at ha hb
      subst ha hb
      exact List.Perm.swap _ _ _
    · simp only [St.append_errs, ← List.append_assoc]
      exact List.Perm.append_right _ List.perm_append_comm
    · simp only [St.append_invs, ← List.append_assoc]
      exact List.Perm.append_right _ List.perm_append_comm
    · simp only [St.append_recovers]; omega
    · simp only [St.append_unlogged, ← List.append_assoc]
      exact List.Perm.append_right _ List.perm_append_comm
  | trans _ _ ih1 ih2 => exact ih1.trans ih2

end GqlgenVerif
