import GqlgenVerif.Model.Coerce
import GqlgenVerif.Model.CoerceSpec
import GqlgenVerif.Lemmas.GoInt
/-! Helper lemmas for Props/C02: decimal text parsing (`strconv` as modelled), `liftCast`, range facts,
    `mapE`/`mapIdxE`, error paths. -/
namespace GqlgenVerif.Coerce
open GqlgenVerif

theorem parseDigits_minus (r : List Char) : parseDigits ('-' :: r) = none := by
  simp [parseDigits, digitsAcc, digitVal]
theorem parseDigits_plus (r : List Char) : parseDigits ('+' :: r) = none := by
  simp [parseDigits, digitsAcc, digitVal]

/-- `strconv.ParseInt(t, 10, 64)` succeeds only on a decimal text `[+-]?digits`, with its value -/
theorem parseInt64_ok {t : String} {r : Int} (h : parseInt64 t = .ok r) :
    Spec.decimalText true t = some r ∧ Go.inInt64 r := by
  unfold parseInt64 at h
  unfold Spec.decimalText
  split at h
  · split at h
    · cases h
    · split at h
      · cases h
        simp_all [Go.inInt64, Go.minInt64, Go.maxInt64]
      · cases h
  · split at h
    · cases h
    · split at h
      · cases h
        simp_all [Go.inInt64, Go.minInt64, Go.maxInt64]
      · cases h
  · split at h
    · cases h
    · split at h
      · cases h
        rename_i hm hp _ n hd hle
        refine ⟨?_, ?_⟩
        · split
          · rename_i r he; exact absurd he (hm r)
          · rename_i r he; exact absurd he (hp r)
          · simp [hd]
        · simp only [Go.inInt64, Go.minInt64, Go.maxInt64] at *; omega
      · cases h

/-- `strconv.ParseUint(t, 10, 64)` succeeds only on unsigned decimal digits, with their value -/
theorem parseUint64_ok {t : String} {r : Int} (h : parseUint64 t = .ok r) :
    Spec.decimalText true t = some r ∧ Go.inUint64 r := by
  unfold parseUint64 at h
  split at h
  · cases h
  · rename_i n hd
    split at h
    · cases h
      refine ⟨?_, ?_⟩
      · unfold Spec.decimalText
        split
        · rename_i r he; rw [he, parseDigits_minus] at hd; cases hd
        · rename_i r he; rw [he, parseDigits_plus] at hd; cases hd
        · simp [hd]
      · simp only [Go.inUint64, Go.maxUint64] at *; omega
    · cases h

theorem liftCast_ok {p : Path} {x : Except String Int} {g : GoV} (h : liftCast p x = .ok g) :
    ∃ r, x = .ok r ∧ g = .int r := by
  unfold liftCast at h
  split at h
  · cases h; exact ⟨_, rfl, rfl⟩
  · cases h

theorem uintSignErr_ne_ok {p : Path} {s : String} {e : PErr} {g : GoV} : uintSignErr p s e ≠ .ok g := by
  unfold uintSignErr; split <;> simp

theorem conv_uint_id {r : Int} (h : Go.inUint64 r) : Go.conv_uint r = r := by
  simp only [Go.inUint64, Go.maxUint64, Go.conv_uint, Go.conv_uint64] at *; omega

theorem safeCastInt32_ok {r r' : Int} (h : Gen.IntCasts.safeCastInt32 r = .ok r') : r' = r ∧ Go.inInt32 r' := by
  simp only [Gen.IntCasts.safeCastInt32] at h
  split at h
  · cases h
  · cases h
    simp only [Go.inInt32, Go.minInt32, Go.maxInt32, Go.conv_int32] at *
    omega

theorem safeCastUint32_ok {r r' : Int} (hr : 0 ≤ r) (h : Gen.IntCasts.safeCastUint32 r = .ok r') :
    r' = r ∧ Go.inUint32 r' := by
  simp only [Gen.IntCasts.safeCastUint32] at h
  split at h
  · cases h
  · cases h
    simp only [Go.inUint32, Go.maxUint32, Go.conv_uint32] at *
    omega

theorem inRange_int {r : Int} (h : Go.inInt64 r) : Spec.inRange .int r = true := by
  simp only [Go.inInt64] at h; simp [Spec.inRange, Spec.intRange, h.1, h.2]
theorem inRange_int64 {r : Int} (h : Go.inInt64 r) : Spec.inRange .int64 r = true := by
  simp only [Go.inInt64] at h; simp [Spec.inRange, Spec.intRange, h.1, h.2]
theorem inRange_intID {r : Int} (h : Go.inInt64 r) : Spec.inRange .intID r = true := by
  simp only [Go.inInt64] at h; simp [Spec.inRange, Spec.intRange, h.1, h.2]
theorem inRange_int32 {r : Int} (h : Go.inInt32 r) : Spec.inRange .int32 r = true := by
  simp only [Go.inInt32] at h; simp [Spec.inRange, Spec.intRange, h.1, h.2]
theorem inRange_uint {r : Int} (h : Go.inUint64 r) : Spec.inRange .uint r = true := by
  simp only [Go.inUint64] at h; simp [Spec.inRange, Spec.intRange, h.1, h.2]
theorem inRange_uint64 {r : Int} (h : Go.inUint64 r) : Spec.inRange .uint64 r = true := by
  simp only [Go.inUint64] at h; simp [Spec.inRange, Spec.intRange, h.1, h.2]
theorem inRange_uintID {r : Int} (h : Go.inUint64 r) : Spec.inRange .uintID r = true := by
  simp only [Go.inUint64] at h; simp [Spec.inRange, Spec.intRange, h.1, h.2]
theorem inRange_uint32 {r : Int} (h : Go.inUint32 r) : Spec.inRange .uint32 r = true := by
  simp only [Go.inUint32] at h; simp [Spec.inRange, Spec.intRange, h.1, h.2]

/-! ## `mapE` / `mapIdxE`, error paths -/

theorem mapIdxE_error {ε α β : Type} {f : Nat → α → Except ε β} {i : Nat} {xs : List α} {e : ε}
    (h : mapIdxE f i xs = .error e) : ∃ j x, x ∈ xs ∧ f j x = .error e := by
  induction xs generalizing i with
  | nil => simp [mapIdxE] at h
  | cons a r ih =>
    simp only [mapIdxE] at h
    split at h
    · rename_i e' he; cases h; exact ⟨i, a, by simp, he⟩
    · split at h
      · rename_i e' he; cases h
        obtain ⟨j, x, hx, hf⟩ := ih he
        exact ⟨j, x, by simp [hx], hf⟩
      · cases h

theorem mapE_error {ε α β : Type} {f : α → Except ε β} {xs : List α} {e : ε}
    (h : mapE f xs = .error e) : ∃ x, x ∈ xs ∧ f x = .error e := by
  induction xs with
  | nil => simp [mapE] at h
  | cons a r ih =>
    simp only [mapE] at h
    split at h
    · rename_i e' he; cases h; exact ⟨a, by simp, he⟩
    · split at h
      · rename_i e' he; cases h
        obtain ⟨x, hx, hf⟩ := ih he
        exact ⟨x, by simp [hx], hf⟩
      · cases h

theorem liftCast_err_path {path p : Path} {c : String} {x : Except String Int}
    (h : liftCast path x = .error (.err p c)) : p = path := by
  unfold liftCast at h; split at h <;> simp_all

theorem uintSignErr_path {path p : Path} {c s : String} {e : PErr}
    (h : uintSignErr path s e = .error (.err p c)) : p = path := by
  unfold uintSignErr at h; split at h <;> simp_all

theorem armSem_err_path {fn tag : String} {v : Raw} {path p : Path} {c : String}
    (h : armSem fn tag v path = .error (.err p c)) : p = path := by
  unfold armSem at h
  dsimp only at h
  split at h
  all_goals first
    | (split at h <;> first
        | exact liftCast_err_path h
        | exact uintSignErr_path h
        | (cases h; done)
        | (injection h with h; injection h with h1 h2; exact h1.symm))
    | (cases h; done)
    | (injection h with h; injection h with h1 h2; exact h1.symm)

theorem scalar_err_path {k : ScalarK} {v : Raw} {path p : Path} {c : String}
    (h : scalar k v path = .error (.err p c)) : p = path := by
  unfold scalar at h
  split at h
  · cases h
  · dsimp only at h
    split at h
    · cases h
    · split at h
      · split at h
        · exact liftCast_err_path h
        · cases h
      · exact armSem_err_path h

theorem unmEnum_err_path {s : Schema} {n : String} {v : Raw} {path p : Path} {c : String}
    (h : unmEnum s n v path = .error (.err p c)) : p = path := by
  unfold unmEnum at h
  split at h
  · split at h <;> simp_all
  · simp_all

theorem prefix_of_append {path p : Path} {x : String} (h : (path ++ [x]) <+: p) : path <+: p :=
  List.IsPrefix.trans (List.prefix_append path [x]) h

/-! equations of `unmSh`, one per Go shape -/

theorem unmSh_ptr (s : Schema) (obj : String → Bool → Raw → Path → Res GoV) (i : Sh) (t : Ty) (v : Raw) (path : Path) :
    unmSh s obj (.ptr i) t v path =
      if v.isNil && t.nn then .error (.err path "null") else
      if v.isNil then .ok .nil
      else (match unmSh s obj i t v path with
        | .ok g => .ok (.ptr g)
        | .error e => .error e) := by
  conv => lhs; unfold unmSh
  try rfl

theorem unmSh_slice (s : Schema) (obj : String → Bool → Raw → Path → Res GoV) (el : Sh) (t : Ty) (v : Raw) (path : Path) :
    unmSh s obj (.slice el) t v path =
      if v.isNil && t.nn then .error (.err path "null") else
      if v.isNil then .ok .nilSlice
      else (match t with
        | .list et _ => unmSlice (unmSh s obj el et) v path
        | _ => .error (.panic "slice shape for a named type")) := by
  conv => lhs; unfold unmSh
  try rfl

theorem unmSh_struct (s : Schema) (obj : String → Bool → Raw → Path → Res GoV) (n : String) (t : Ty) (v : Raw) (path : Path) :
    unmSh s obj (.struct n) t v path =
      if v.isNil && t.nn then .error (.err path "null") else obj n false v path := by
  conv => lhs; unfold unmSh
  try rfl

theorem unmSh_mapIn (s : Schema) (obj : String → Bool → Raw → Path → Res GoV) (n : String) (t : Ty) (v : Raw) (path : Path) :
    unmSh s obj (.mapIn n) t v path =
      if v.isNil && t.nn then .error (.err path "null") else
      if v.isNil then .ok .nilMap else obj n true v path := by
  conv => lhs; unfold unmSh
  try rfl

theorem unmSh_enum (s : Schema) (obj : String → Bool → Raw → Path → Res GoV) (n : String) (t : Ty) (v : Raw) (path : Path) :
    unmSh s obj (.enum n) t v path =
      if v.isNil && t.nn then .error (.err path "null") else unmEnum s n v path := by
  conv => lhs; unfold unmSh
  try rfl

theorem unmSh_any (s : Schema) (obj : String → Bool → Raw → Path → Res GoV) (t : Ty) (v : Raw) (path : Path) :
    unmSh s obj (.scalar .any) t v path =
      if v.isNil && t.nn then .error (.err path "null") else
      if v.isNil then .ok .nil else .ok (.any v) := by
  conv => lhs; unfold unmSh
  try rfl

theorem unmSh_scalar (s : Schema) (obj : String → Bool → Raw → Path → Res GoV) (k : ScalarK) (hk : k ≠ .any) (t : Ty) (v : Raw) (path : Path) :
    unmSh s obj (.scalar k) t v path =
      if v.isNil && t.nn then .error (.err path "null") else scalar k v path := by
  cases k <;> first | (exact absurd rfl hk) | (conv => lhs; unfold unmSh) <;> rfl

/-- an equation for `unm` at positive fuel -/
theorem unm_succ (s : Schema) (c : Cfg) (f : Nat) (t : Ty) (sh : Sh) (v : Raw) (path : Path) :
    unm s c (f + 1) t sh v path =
      unmSh s (fun n isMap v path =>
        if isMap then unmMap s c (unm s c f) n v path
        else unmStruct s c (zero s c f) (unm s c f) n v path) sh t v path := rfl

theorem unmMap_err_prefix {s : Schema} {c : Cfg} {rec : Rec} {n : String} {v : Raw} {path p : Path} {cls : String}
    (hrec : ∀ t sh v path p cls, rec t sh v path = .error (.err p cls) → path <+: p)
    (h : unmMap s c rec n v path = .error (.err p cls)) : path <+: p := by
  unfold unmMap at h
  split at h
  · split at h
    · cases h
    · rename_i e he; cases h
      obtain ⟨fd, _, hf⟩ := mapE_error he
      unfold mapField at hf
      split at hf
      · cases hf
      · split at hf
        · cases hf
        · rename_i e' he'; cases hf; exact prefix_of_append (hrec _ _ _ _ _ _ he')
  · cases h

theorem unmStruct_err_prefix {s : Schema} {c : Cfg} {z : Sh → GoV} {rec : Rec} {n : String} {v : Raw}
    {path p : Path} {cls : String}
    (hrec : ∀ t sh v path p cls, rec t sh v path = .error (.err p cls) → path <+: p)
    (h : unmStruct s c z rec n v path = .error (.err p cls)) : path <+: p := by
  unfold unmStruct at h
  split at h
  · split at h
    · cases h
    · rename_i e he; cases h
      obtain ⟨fd, _, hf⟩ := mapE_error he
      unfold structField at hf
      dsimp only at hf
      split at hf
      · cases hf
      · split at hf
        · cases hf
        · rename_i e' he'; cases hf; exact prefix_of_append (hrec _ _ _ _ _ _ he')
  · cases h

theorem unmSh_err_prefix (s : Schema) (obj : String → Bool → Raw → Path → Res GoV)
    (hobj : ∀ n m v path p cls, obj n m v path = .error (.err p cls) → path <+: p) :
    ∀ (sh : Sh) (t : Ty) (v : Raw) (path p : Path) (cls : String),
      unmSh s obj sh t v path = .error (.err p cls) → path <+: p := by
  intro sh
  induction sh with
  | scalar k =>
    intro t v path p cls h
    unfold unmSh at h
    split at h
    · cases h; exact List.prefix_refl _
    · split at h
      all_goals first
        | (rw [scalar_err_path h]; exact List.prefix_refl _)
        | (split at h <;> cases h; done)
        | (cases h; done)
        | (rename_i hh; cases hh; done)
        | (exfalso; simp_all; done)
  | enum n =>
    intro t v path p cls h
    unfold unmSh at h
    split at h
    · cases h; exact List.prefix_refl _
    · split at h
      all_goals first
        | (rw [unmEnum_err_path h]; exact List.prefix_refl _)
        | (rename_i hh; cases hh; done)
        | (exfalso; simp_all; done)
  | struct n =>
    intro t v path p cls h
    unfold unmSh at h
    split at h
    · cases h; exact List.prefix_refl _
    · split at h
      all_goals first
        | (rename_i hh; cases hh; exact hobj _ _ _ _ _ _ h)
        | (rename_i hh; cases hh; done)
        | (exfalso; simp_all; done)
  | mapIn n =>
    intro t v path p cls h
    unfold unmSh at h
    split at h
    · cases h; exact List.prefix_refl _
    · split at h
      all_goals first
        | (rename_i hh; cases hh; split at h; (· cases h); (· exact hobj _ _ _ _ _ _ h))
        | (rename_i hh; cases hh; done)
        | (exfalso; simp_all; done)
  | bad w =>
    intro t v path p cls h
    unfold unmSh at h
    split at h
    · cases h; exact List.prefix_refl _
    · split at h
      all_goals first
        | (cases h; done)
        | (rename_i hh; cases hh; done)
        | (exfalso; simp_all; done)
  | ptr inner ih =>
    intro t v path p cls h
    unfold unmSh at h
    split at h
    · cases h; exact List.prefix_refl _
    · split at h
      all_goals first
        | (rename_i hh; cases hh
           split at h
           · cases h
           · split at h
             · cases h
             · rename_i e he; cases h; exact ih _ _ _ _ _ he)
        | (rename_i hh; cases hh; done)
        | (exfalso; simp_all; done)
  | slice el ih =>
    intro t v path p cls h
    unfold unmSh at h
    split at h
    · cases h; exact List.prefix_refl _
    · split at h
      all_goals first
        | (rename_i hh; cases hh
           split at h
           · cases h
           · split at h
             · unfold unmSlice at h
               split at h
               · cases h
               · rename_i e he; cases h
                 obtain ⟨j, x, _, hf⟩ := mapIdxE_error he
                 exact prefix_of_append (ih _ _ _ _ _ hf)
             · cases h)
        | (rename_i hh; cases hh; done)
        | (exfalso; simp_all; done)

/-- every coercion error is reported at the position being unmarshalled or below it -/
theorem unm_err_prefix (s : Schema) (c : Cfg) : ∀ (f : Nat) (t : Ty) (sh : Sh) (v : Raw) (path p : Path) (cls : String),
    unm s c f t sh v path = .error (.err p cls) → path <+: p := by
  intro f
  induction f with
  | zero => intro t sh v path p cls h; simp [unm] at h
  | succ f ih =>
    intro t sh v path p cls h
    rw [unm_succ] at h
    refine unmSh_err_prefix s _ ?_ sh t v path p cls h
    intro n m v path p cls h'
    split at h'
    · exact unmMap_err_prefix ih h'
    · exact unmStruct_err_prefix ih h'

theorem mapE_ok_mem {ε α β : Type} {f : α → Except ε β} {xs : List α} {ys : List β} {y : β}
    (h : mapE f xs = .ok ys) (hy : y ∈ ys) : ∃ x, x ∈ xs ∧ f x = .ok y := by
  induction xs generalizing ys with
  | nil => simp [mapE] at h; subst h; cases hy
  | cons a r ih =>
    simp only [mapE] at h
    split at h
    · cases h
    · rename_i b hb
      split at h
      · cases h
      · rename_i bs hbs
        cases h
        cases hy with
        | head => exact ⟨a, by simp, hb⟩
        | tail _ hy' =>
          obtain ⟨x, hx, hf⟩ := ih hbs hy'
          exact ⟨x, by simp [hx], hf⟩

theorem argRaw_not_err {vars : List (String × Raw)} {d : ArgDef} {g : Option Lit} {p : Path} {c : String} :
    argRaw vars d g ≠ .error (.err p c) := by
  unfold argRaw
  intro h
  dsimp only at h
  split at h
  · split at h
    · cases h
    · split at h
      · cases h
      · split at h <;> cases h
  · split at h <;> cases h
  · split at h
    · cases h
    · split at h <;> cases h

/-- an argument coercion error is at `fieldPath ++ [argument name, …]` -/
theorem fieldArgs_err_prefix {s : Schema} {c : Cfg} {vars : List (String × Raw)} {defs : List ArgDef}
    {given : List (String × Lit)} {fp p : Path} {cls : String}
    (h : fieldArgs s c vars defs given fp = .error (.err p cls)) :
    ∃ d, d ∈ defs ∧ (fp ++ [d.name]) <+: p := by
  unfold fieldArgs at h
  split at h
  · rename_i e he
    cases h
    obtain ⟨d, _, hd⟩ := mapE_error he
    split at hd
    · cases hd
    · rename_i e' he'; cases hd; exact absurd he' argRaw_not_err
  · rename_i raws hr
    obtain ⟨dr, hmem, hd⟩ := mapE_error h
    dsimp only at hd
    split at hd
    · cases hd
    · refine ⟨dr.1, ?_, unm_err_prefix _ _ _ _ _ _ _ _ _ hd⟩
      obtain ⟨d, hdm, hf⟩ := mapE_ok_mem hr hmem
      split at hf
      · cases hf; exact hdm
      · cases hf

/-! ## lists, null, nilable shapes -/

/-- a value that is neither null nor a list (nor a typed slice) -/
def Single : Raw → Bool
  | .nil | .list _ | .typed _ _ => false
  | _ => true

theorem coerceList_single (v : Raw) (h : Single v = true) : coerceList v = [v] := by
  cases v <;> simp [Single] at h <;>
    simp [coerceList, arm, armBody, Gen.ScalarArms.fn_CoerceList, Raw.goType]

/-- the Go "nil" values: nil pointer / interface, nil slice, nil map -/
def GoV.isNilGo : GoV → Bool
  | .nil | .nilSlice | .nilMap => true
  | _ => false

/-- a null given to a nullable type of nilable shape is the Go nil of that shape -/
theorem unm_null (s : Schema) (c : Cfg) (f : Nat) (t : Ty) (sh : Sh) (path : Path)
    (ht : t.nn = false) (hs : sh.nilable = true) :
    ∃ z, unm s c (f + 1) t sh .nil path = .ok z ∧ z.isNilGo = true := by
  rw [unm_succ]
  cases sh <;> simp [Sh.nilable] at hs
  case scalar k =>
    cases k <;> simp at hs
    exact ⟨.nil, by simp [unmSh_any, Raw.isNil, ht], rfl⟩
  case mapIn n => exact ⟨.nilMap, by simp [unmSh_mapIn, Raw.isNil, ht], rfl⟩
  case ptr i => exact ⟨.nil, by simp [unmSh_ptr, Raw.isNil, ht], rfl⟩
  case slice e => exact ⟨.nilSlice, by simp [unmSh_slice, Raw.isNil, ht], rfl⟩

/-- a non-null value never unmarshals to a Go nil of a nilable shape -/
theorem unm_value_not_nil (s : Schema) (c : Cfg) (f : Nat) (t : Ty) (sh : Sh) (v : Raw) (path : Path) (g : GoV)
    (hv : v.isNil = false) (hs : sh.nilable = true) (h : unm s c (f + 1) t sh v path = .ok g) :
    g.isNilGo = false := by
  rw [unm_succ] at h
  cases sh <;> simp [Sh.nilable] at hs
  case scalar k =>
    cases k <;> simp at hs
    simp [unmSh_any, hv] at h
    subst h; rfl
  case mapIn n =>
    simp only [unmSh_mapIn, hv, unmMap] at h
    simp at h
    split at h
    · split at h
      · cases h; rfl
      · cases h
    · cases h
  case ptr i =>
    simp only [unmSh_ptr, hv] at h
    simp at h
    split at h
    · cases h; rfl
    · cases h
  case slice e =>
    simp only [unmSh_slice, hv] at h
    simp at h
    split at h
    · unfold unmSlice at h
      split at h
      · cases h; rfl
      · cases h
    · cases h

theorem shapeRef_nilable (s : Schema) (c : Cfg) (t : Ty) (ht : t.nn = false) : (shapeRef s c t).nilable = true := by
  unfold shapeRef
  split
  · rfl
  · cases t with
    | named n nn =>
      simp [Ty.nn] at ht; subst ht
      simp only [shapeArg]
      cases h : (baseShape s n).nilable
      · simp [h, Sh.nilable]
      · simpa [h] using h
    | list e nn => simp [shapeArg, Sh.nilable]

theorem shapeField_nilable (s : Schema) (c : Cfg) (t : Ty) (ht : t.nn = false) : (shapeField s c t).nilable = true := by
  unfold shapeField
  dsimp only
  split
  · rfl
  · exact shapeRef_nilable s c t ht

theorem fieldOmittable_nullable {c : Cfg} {t : Ty} (h : fieldOmittable c t = true) : t.nn = false := by
  simp [fieldOmittable] at h; exact h.2

end GqlgenVerif.Coerce
