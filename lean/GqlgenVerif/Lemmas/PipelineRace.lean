import GqlgenVerif.Lemmas.Pipeline
/-! Lemmas for the concurrency clause of C03: with the swap atomic every schedule is safe. -/
namespace GqlgenVerif.Pipeline.Race
open GqlgenVerif.Pipeline

theorem mem_setNth {α : Type} {l : List α} {i : Nat} {a x : α} (h : x ∈ setNth l i a) : x = a ∨ x ∈ l := by
  induction l generalizing i with
  | nil => simp [setNth] at h
  | cons y ys ih =>
    cases i with
    | zero =>
      simp only [setNth, List.mem_cons] at h
      rcases h with h | h
      · exact Or.inl h
      · exact Or.inr (by simp [h])
    | succ i =>
      simp only [setNth, List.mem_cons] at h
      rcases h with h | h
      · exact Or.inr (by simp [h])
      · rcases ih h with h | h
        · exact Or.inl h
        · exact Or.inr (by simp [h])

theorem ws_mem_swapRules (g : Rules) : Rule.ws ∈ swapRules g :=
  List.count_pos_iff.1 (count_swapRules_ws g)

/-- invariant of the locked program: a thread is before its (atomic) swap, or past it — and then the
shared list contains the no-suggestion field rule, as does every list a `Validate` has used -/
def LInv (s : State) : Prop :=
  (∀ t ∈ s.threads, t.pc = .swap ∨ t.pc = .valRead ∨ t.pc = .done) ∧
  (∀ t ∈ s.threads, t.pc ≠ .swap → Rule.ws ∈ s.global) ∧
  (∀ t ∈ s.threads, ∀ l, t.seen = some l → Rule.ws ∈ l)

theorem LInv.start (g : Rules) (n : Nat) : LInv (start true g n) := by
  refine ⟨?_, ?_, ?_⟩ <;> intro t ht <;> simp [Race.start] at ht <;> obtain ⟨_, rfl⟩ := ht <;> simp

theorem LInv.step {s : State} (h : LInv s) (i : Nat) : LInv (step s i) := by
  obtain ⟨h1, h2, h3⟩ := h
  unfold Race.step
  cases hi : s.threads[i]? with
  | none => exact ⟨h1, h2, h3⟩
  | some t =>
    have htm : t ∈ s.threads := List.mem_of_getElem? hi
    simp only
    rcases h1 t htm with hp | hp | hp
    · -- the atomic swap
      have hst : stepThread s.global t = (swapRules s.global, { t with pc := .valRead }) := by
        simp [stepThread, hp]
      rw [hst]
      refine ⟨?_, ?_, ?_⟩
      · intro x hx
        rcases mem_setNth hx with rfl | hx
        · simp
        · exact h1 x hx
      · intro x _ _
        exact ws_mem_swapRules _
      · intro x hx l hl
        rcases mem_setNth hx with rfl | hx
        · exact h3 t htm l hl
        · exact h3 x hx l hl
    · -- Validate reads the list
      have hst : stepThread s.global t = (s.global, { t with pc := .done, seen := some s.global }) := by
        simp [stepThread, hp]
      rw [hst]
      have hws : Rule.ws ∈ s.global := h2 t htm (by simp [hp])
      refine ⟨?_, ?_, ?_⟩
      · intro x hx
        rcases mem_setNth hx with rfl | hx
        · simp
        · exact h1 x hx
      · intro x _ _
        exact hws
      · intro x hx l hl
        rcases mem_setNth hx with rfl | hx
        · simp at hl; subst hl; exact hws
        · exact h3 x hx l hl
    · have hst : stepThread s.global t = (s.global, t) := by simp [stepThread, hp]
      rw [hst]
      refine ⟨?_, ?_, ?_⟩
      · intro x hx
        rcases mem_setNth hx with rfl | hx
        · exact h1 x htm
        · exact h1 x hx
      · intro x hx hne
        rcases mem_setNth hx with rfl | hx
        · exact h2 x htm hne
        · exact h2 x hx hne
      · intro x hx l hl
        rcases mem_setNth hx with rfl | hx
        · exact h3 x htm l hl
        · exact h3 x hx l hl

theorem LInv.exec {s : State} (h : LInv s) (sched : List Nat) : LInv (exec s sched) := by
  induction sched generalizing s with
  | nil => exact h
  | cons i is ih => exact ih (h.step i)

theorem locked_safe (g : Rules) (n : Nat) (sched : List Nat) :
    ∀ t ∈ (exec (start true g n) sched).threads, ∀ l, t.seen = some l → hasFieldRule l = true := by
  intro t ht l hl
  have := ((LInv.start g n).exec sched).2.2 t ht l hl
  simp [hasFieldRule, this]

/-! ### several executors: swap threads and validate-only threads -/

theorem hasFieldRule_of_ws {l : Rules} (h : Rule.ws ∈ l) : hasFieldRule l = true := by
  simp [hasFieldRule, h]

/-- invariant of the atomic program with validate-only threads: the shared list always contains a
field-existence rule, as does every list a `Validate` has used -/
def MInv (s : State) : Prop :=
  (∀ t ∈ s.threads, t.pc = .swap ∨ t.pc = .valRead ∨ t.pc = .done) ∧
  hasFieldRule s.global = true ∧
  (∀ t ∈ s.threads, ∀ l, t.seen = some l → hasFieldRule l = true)

theorem MInv.start (g : Rules) (hg : hasFieldRule g = true) (n m : Nat) : MInv (startMixed .atomic g n m) := by
  refine ⟨?_, hg, ?_⟩ <;> intro t ht <;> simp [startMixed, LockShape.entry] at ht <;>
    rcases ht with ⟨_, rfl⟩ | ⟨_, rfl⟩ <;> simp

theorem MInv.step {s : State} (h : MInv s) (i : Nat) : MInv (step s i) := by
  obtain ⟨h1, h2, h3⟩ := h
  unfold Race.step
  cases hi : s.threads[i]? with
  | none => exact ⟨h1, h2, h3⟩
  | some t =>
    have htm : t ∈ s.threads := List.mem_of_getElem? hi
    simp only
    rcases h1 t htm with hp | hp | hp
    · have hst : stepThread s.global t = (swapRules s.global, { t with pc := .valRead }) := by
        simp [stepThread, hp]
      rw [hst]
      refine ⟨?_, hasFieldRule_of_ws (ws_mem_swapRules _), ?_⟩
      · intro x hx
        rcases mem_setNth hx with rfl | hx
        · simp
        · exact h1 x hx
      · intro x hx l hl
        rcases mem_setNth hx with rfl | hx
        · exact h3 t htm l hl
        · exact h3 x hx l hl
    · have hst : stepThread s.global t = (s.global, { t with pc := .done, seen := some s.global }) := by
        simp [stepThread, hp]
      rw [hst]
      refine ⟨?_, h2, ?_⟩
      · intro x hx
        rcases mem_setNth hx with rfl | hx
        · simp
        · exact h1 x hx
      · intro x hx l hl
        rcases mem_setNth hx with rfl | hx
        · simp at hl; subst hl; exact h2
        · exact h3 x hx l hl
    · have hst : stepThread s.global t = (s.global, t) := by simp [stepThread, hp]
      rw [hst]
      refine ⟨?_, h2, ?_⟩
      · intro x hx
        rcases mem_setNth hx with rfl | hx
        · exact h1 x htm
        · exact h1 x hx
      · intro x hx l hl
        rcases mem_setNth hx with rfl | hx
        · exact h3 x htm l hl
        · exact h3 x hx l hl

theorem MInv.exec {s : State} (h : MInv s) (sched : List Nat) : MInv (exec s sched) := by
  induction sched generalizing s with
  | nil => exact h
  | cons i is ih => exact ih (h.step i)

theorem mixed_safe (g : Rules) (hg : hasFieldRule g = true) (n m : Nat) (sched : List Nat) :
    ∀ t ∈ (exec (startMixed .atomic g n m) sched).threads, ∀ l, t.seen = some l → hasFieldRule l = true :=
  ((MInv.start g hg n m).exec sched).2.2

end GqlgenVerif.Pipeline.Race
