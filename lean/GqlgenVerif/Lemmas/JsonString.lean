import GqlgenVerif.Model.JsonString
/-! Helper lemmas for C08 (strings): the strict decoder inverts `quotedBody` chunk by chunk. -/
namespace GqlgenVerif
set_option linter.unusedVariables false

theorem decodeBody_out {s bs r : Bytes} (h : tok s = .out bs r) :
    decodeBody s = pre bs (decodeBody r) := by
  rw [decodeBody]; split <;> simp_all

theorem decodeBody_close {s r : Bytes} (h : tok s = .close r) :
    decodeBody s = some ([], r) := by
  rw [decodeBody]; split <;> simp_all

theorem tok_repl (t : Bytes) : tok (replacementEscape ++ t) = .out [0xEF, 0xBF, 0xBD] t := by
  simp [replacementEscape, tok, escTok, uTok, hex4, hexVal, encodeRune]

theorem hex_roundtrip : ∀ b, b < 0x20 → hex4 0x30 0x30 (hexUpper (b / 16)) (hexUpper (b % 16)) = some b := by
  decide

theorem tok_ascii (b : Nat) (hb : b < 0x80) (t : Bytes) :
    tok (escAscii b ++ t) = .out [b] t := by
  unfold escAscii
  split
  · subst_vars; simp [tok, escTok]
  split
  · subst_vars; simp [tok, escTok]
  split
  · subst_vars; simp [tok, escTok]
  split
  · subst_vars; simp [tok, escTok]
  split
  · subst_vars; simp [tok, escTok]
  split
  · next h1 h2 h3 h4 h5 h6 =>
    have := hex_roundtrip b h6
    have e1 : ¬ (55296 ≤ b ∧ b ≤ 56319) := by omega
    have e2 : ¬ (56320 ≤ b ∧ b ≤ 57343) := by omega
    simp [tok, escTok, uTok, this, encodeRune, e1, e2, hb]
  · next h1 h2 h3 h4 h5 h6 =>
    simp [tok, h4, h5, h6, chunk, hb]


theorem chunk_multi_append {s bs r : Bytes} (h : chunk s = some (.multi bs, r)) (t : Bytes) :
    chunk (bs ++ t) = some (.multi bs, t) ∧ ∃ b0 tl, bs = b0 :: tl ∧ 0x80 ≤ b0 := by
  unfold chunk at h
  split at h
  · cases h
  · next b0 r0 =>
    split at h
    · cases h
    · next hb0 =>
      split at h
      · next lo hi b1 r' hl =>
        split at h
        · next hc =>
          cases h
          refine ⟨?_, b0, [b1], rfl, by omega⟩
          simp [chunk, hb0, hl, hc]
        · cases h
      · next lo hi b1 b2 r' hl =>
        split at h
        · next hc =>
          cases h
          refine ⟨?_, b0, [b1, b2], rfl, by omega⟩
          simp [chunk, hb0, hl, hc]
        · cases h
      · next lo hi b1 b2 b3 r' hl =>
        split at h
        · next hc =>
          cases h
          refine ⟨?_, b0, [b1, b2, b3], rfl, by omega⟩
          simp [chunk, hb0, hl, hc]
        · cases h
      · cases h

theorem tok_multi {s bs r : Bytes} (h : chunk s = some (.multi bs, r)) (t : Bytes) :
    tok (bs ++ t) = .out bs t := by
  obtain ⟨hc, b0, tl, rfl, hb0⟩ := chunk_multi_append h t
  have h1 : ¬ b0 = 0x22 := by omega
  have h2 : ¬ b0 = 0x5C := by omega
  have h3 : ¬ b0 < 0x20 := by omega
  simp only [List.cons_append] at hc
  simp only [tok, List.cons_append, h1, h2, h3, ↓reduceIte, hc]

theorem tok_quote (t : Bytes) : tok (0x22 :: t) = .close t := by simp [tok]

theorem quotedBody_none {s : Bytes} (h : chunk s = none) : quotedBody s = [] := by
  rw [quotedBody]; split <;> simp_all
theorem quotedBody_some {s r : Bytes} {c : Chunk} (h : chunk s = some (c, r)) :
    quotedBody s = emit c ++ quotedBody r := by
  rw [quotedBody]; split <;> simp_all
theorem sanitize_none {s : Bytes} (h : chunk s = none) : sanitize s = [] := by
  rw [sanitize]; split <;> simp_all
theorem sanitize_some {s r : Bytes} {c : Chunk} (h : chunk s = some (c, r)) :
    sanitize s = c.clean ++ sanitize r := by
  rw [sanitize]; split <;> simp_all

theorem decode_quotedBody (s t : Bytes) :
    decodeBody (quotedBody s ++ 0x22 :: t) = some (sanitize s, t) := by
  induction s using quotedBody.induct with
  | case1 s h =>
    rw [quotedBody_none h, sanitize_none h]
    exact decodeBody_close (tok_quote t)
  | case2 s c r h ih =>
    rw [quotedBody_some h, sanitize_some h, List.append_assoc]
    cases c with
    | ascii b =>
      have hb : b < 0x80 := by
        unfold chunk at h; split at h; · cases h
        split at h
        · cases h; assumption
        · split at h <;> (try split at h) <;> cases h
      simp only [emit]
      rw [decodeBody_out (tok_ascii b hb _), ih]; simp [pre, Chunk.clean]
    | multi bs =>
      simp only [emit]
      rw [decodeBody_out (tok_multi h _), ih]; simp [pre, Chunk.clean]
    | bad b =>
      simp only [emit]
      rw [decodeBody_out (tok_repl _), ih]; simp [pre, Chunk.clean]

/-! ### UTF-8 validity of the written bytes -/

theorem validUtf8_none {s : Bytes} (h : chunk s = none) : validUtf8 s = true := by
  rw [validUtf8]; split <;> simp_all
theorem validUtf8_ascii {s r : Bytes} {b : Nat} (h : chunk s = some (.ascii b, r)) :
    validUtf8 s = validUtf8 r := by
  rw [validUtf8]; split <;> simp_all
theorem validUtf8_multi {s r : Bytes} {bs : Bytes} (h : chunk s = some (.multi bs, r)) :
    validUtf8 s = validUtf8 r := by
  rw [validUtf8]; split <;> simp_all
theorem validUtf8_bad {s r : Bytes} {b : Nat} (h : chunk s = some (.bad b, r)) :
    validUtf8 s = false := by
  rw [validUtf8]; split <;> simp_all

theorem validUtf8_cons_ascii (b : Nat) (hb : b < 0x80) (t : Bytes) :
    validUtf8 (b :: t) = validUtf8 t :=
  validUtf8_ascii (b := b) (r := t) (by simp [chunk, hb])

theorem hexUpper_lt (n : Nat) (h : n < 16) : hexUpper n < 0x80 := by
  unfold hexUpper; split <;> omega

theorem validUtf8_escAscii (b : Nat) (hb : b < 0x80) (t : Bytes) :
    validUtf8 (escAscii b ++ t) = validUtf8 t := by
  unfold escAscii
  repeat' split
  all_goals simp only [List.cons_append, List.nil_append]
  all_goals repeat rw [validUtf8_cons_ascii _ (by first | omega | (apply hexUpper_lt; omega))]

theorem validUtf8_emit {s r : Bytes} {c : Chunk} (h : chunk s = some (c, r)) (t : Bytes) :
    validUtf8 (emit c ++ t) = validUtf8 t := by
  cases c with
  | ascii b =>
    have hb : b < 0x80 := by
      unfold chunk at h; split at h; · cases h
      split at h
      · cases h; assumption
      · split at h <;> (try split at h) <;> cases h
    exact validUtf8_escAscii b hb t
  | multi bs => exact validUtf8_multi (chunk_multi_append h t).1
  | bad b =>
    simp only [emit, replacementEscape, List.cons_append, List.nil_append]
    repeat rw [validUtf8_cons_ascii _ (by omega)]

theorem validUtf8_quotedBody (s t : Bytes) : validUtf8 (quotedBody s ++ t) = validUtf8 t := by
  induction s using quotedBody.induct with
  | case1 s h => rw [quotedBody_none h]; rfl
  | case2 s c r h ih => rw [quotedBody_some h, List.append_assoc, validUtf8_emit h, ih]

/-- on valid UTF-8 the sanitiser is the identity -/
theorem sanitize_valid (s : Bytes) (h : validUtf8 s = true) : sanitize s = s := by
  induction s using sanitize.induct with
  | case1 s hc =>
    rw [sanitize_none hc]
    unfold chunk at hc; split at hc
    · rfl
    · split at hc; · cases hc
      split at hc <;> (try split at hc) <;> cases hc
  | case2 s c r hc ih =>
    rw [sanitize_some hc]
    cases c with
    | ascii b =>
      rw [validUtf8_ascii hc] at h
      rw [ih h]; have := chunk_src hc; simpa [Chunk.src, Chunk.clean] using this.symm
    | multi bs =>
      rw [validUtf8_multi hc] at h
      rw [ih h]; have := chunk_src hc; simpa [Chunk.src, Chunk.clean] using this.symm
    | bad b => rw [validUtf8_bad hc] at h; cases h

end GqlgenVerif