import GqlgenVerif.Lemmas.Upload
/-!
# Helper lemmas for C10: the `MultipartForm.Do` state machine

* `Tidy` / `runDefers_clean`: every live temp file and open handle has a pending deferred call, so
  running the deferred calls leaves none.
* `Acct`: the accounting invariant (stored bytes <= consumed bytes <= budget; memory vs disk),
  preserved by every stage (`body_acct`).
* `Served0` / `Covered`: what holds of the readers created so far; `body_exec` gives them for every
  run that reaches the executor.
* `body_noPanic`: no stage takes the `panicked` exit when `addUpload` is total.
-/
namespace GqlgenVerif.Upload

/-! ## deferred calls -/

def Tidy (st : St) : Prop :=
  (∀ f ∈ st.live, Defer.remove f ∈ st.defers) ∧ (∀ h ∈ st.openH, Defer.close h ∈ st.defers)

theorem foldl_applyDefer_live (ds : List Defer) : ∀ (st : St) (x : Nat),
    x ∈ (ds.foldl applyDefer st).live ↔ x ∈ st.live ∧ Defer.remove x ∉ ds := by
  induction ds with
  | nil => intro st x; simp
  | cons d ds ih =>
    intro st x
    rw [List.foldl_cons, ih]
    cases d with
    | remove f =>
      simp only [applyDefer, List.mem_filter, List.mem_cons, not_or, decide_eq_true_eq]
      constructor
      · rintro ⟨⟨h1, h2⟩, h3⟩; exact ⟨h1, fun h => h2 (by cases h; rfl), h3⟩
      · rintro ⟨h1, h2, h3⟩; exact ⟨⟨h1, fun h => h2 (by rw [h])⟩, h3⟩
    | close h =>
      simp only [applyDefer, List.mem_cons, not_or]
      constructor
      · rintro ⟨h1, h3⟩; exact ⟨h1, by simp, h3⟩
      · rintro ⟨h1, _, h3⟩; exact ⟨h1, h3⟩

theorem foldl_applyDefer_openH (ds : List Defer) : ∀ (st : St) (x : Nat),
    x ∈ (ds.foldl applyDefer st).openH ↔ x ∈ st.openH ∧ Defer.close x ∉ ds := by
  induction ds with
  | nil => intro st x; simp
  | cons d ds ih =>
    intro st x
    rw [List.foldl_cons, ih]
    cases d with
    | close f =>
      simp only [applyDefer, List.mem_filter, List.mem_cons, not_or, decide_eq_true_eq]
      constructor
      · rintro ⟨⟨h1, h2⟩, h3⟩; exact ⟨h1, fun h => h2 (by cases h; rfl), h3⟩
      · rintro ⟨h1, h2, h3⟩; exact ⟨⟨h1, fun h => h2 (by rw [h])⟩, h3⟩
    | remove h =>
      simp only [applyDefer, List.mem_cons, not_or]
      constructor
      · rintro ⟨h1, h3⟩; exact ⟨h1, by simp, h3⟩
      · rintro ⟨h1, _, h3⟩; exact ⟨h1, h3⟩

theorem runDefers_clean (st : St) (h : Tidy st) : (runDefers st).live = [] ∧ (runDefers st).openH = [] := by
  constructor
  · apply List.eq_nil_iff_forall_not_mem.mpr
    intro x hx
    have := (foldl_applyDefer_live st.defers st x).mp (by simpa [runDefers] using hx)
    exact this.2 (h.1 x this.1)
  · apply List.eq_nil_iff_forall_not_mem.mpr
    intro x hx
    have := (foldl_applyDefer_openH st.defers st x).mp (by simpa [runDefers] using hx)
    exact this.2 (h.2 x this.1)

/-! ## accounting invariant of `MultipartForm.Do` -/

structure Acct (req : Req) (st : St) : Prop where
  tidy : Tidy st
  stored : st.mem + st.disk ≤ st.off
  budget : st.off ≤ req.cfg.budget
  memOnly : 0 < st.mem → req.contentLength < req.cfg.maxMem
  diskOnly : 0 < st.disk → ¬ req.contentLength < req.cfg.maxMem

theorem addPathsMem_acct (g : Guards) (req : Req) (idx : Nat) (key : Key) (ps : List (List Char)) :
    ∀ st, Acct req st → Acct req (addPathsMem g idx key st ps).1 := by
  induction ps with
  | nil => intro st h; simpa [addPathsMem] using h
  | cons p ps ih =>
    intro st h
    simp only [addPathsMem]
    split
    · apply ih
      exact ⟨h.tidy, h.stored, h.budget, h.memOnly, h.diskOnly⟩
    · exact ⟨h.tidy, h.stored, h.budget, h.memOnly, h.diskOnly⟩

theorem Tidy.push_close {st : St} (h : Tidy st) (id : Nat) (st' : St) (h1 : st'.live = st.live)
    (h2 : st'.openH = id :: st.openH) (h3 : st'.defers = .close id :: st.defers) : Tidy st' := by
  constructor
  · intro f hf; rw [h3]; rw [h1] at hf; exact List.mem_cons_of_mem _ (h.1 f hf)
  · intro x hx; rw [h3]; rw [h2] at hx
    rcases List.mem_cons.mp hx with rfl | hx
    · exact List.mem_cons_self
    · exact List.mem_cons_of_mem _ (h.2 x hx)

theorem Tidy.push_remove {st : St} (h : Tidy st) (f : Nat) (st' : St) (h1 : st'.live = f :: st.live)
    (h2 : st'.openH = st.openH) (h3 : st'.defers = .remove f :: st.defers) : Tidy st' := by
  constructor
  · intro x hx; rw [h3]; rw [h1] at hx
    rcases List.mem_cons.mp hx with rfl | hx
    · exact List.mem_cons_self
    · exact List.mem_cons_of_mem _ (h.1 x hx)
  · intro x hx; rw [h3]; rw [h2] at hx; exact List.mem_cons_of_mem _ (h.2 x hx)

theorem addPathsFile_acct (g : Guards) (req : Req) (fs : FsPlan) (idx : Nat) (key : Key) (file : Nat) (ps : List (List Char)) :
    ∀ st, Acct req st → Acct req (addPathsFile g fs idx key file st ps).1 := by
  induction ps with
  | nil => intro st h; simpa [addPathsFile] using h
  | cons p ps ih =>
    intro st h
    simp only [addPathsFile]
    split
    · exact ⟨h.tidy, h.stored, h.budget, h.memOnly, h.diskOnly⟩
    · split
      · apply ih
        exact ⟨h.tidy.push_close _ _ rfl rfl rfl, h.stored, h.budget, h.memOnly, h.diskOnly⟩
      · exact ⟨h.tidy.push_close _ _ rfl rfl rfl, h.stored, h.budget, h.memOnly, h.diskOnly⟩

theorem contentReadable_le {req : Req} {start : Nat} {p : Part} {last : Bool} :
    contentReadable req start p last = true → start + p.size ≤ req.cfg.budget := by
  unfold contentReadable
  simp only [Bool.and_eq_true, decide_eq_true_eq]
  omega

theorem filePart_acct (g : Guards) (req : Req) (st : St) (idx : Nat) (p : Part) (last : Bool)
    (h : Acct req st) (hb : st.off + p.hdr ≤ req.cfg.budget) : Acct req (filePart g req st idx p last).1 := by
  have hle : st.mem + st.disk ≤ st.off + p.hdr := by have := h.stored; omega
  unfold filePart
  simp only
  split
  · exact ⟨h.tidy, hle, hb, h.memOnly, h.diskOnly⟩
  · exact ⟨h.tidy, hle, hb, h.memOnly, h.diskOnly⟩
  · split
    · rename_i hmem
      split
      · rename_i hr
        apply addPathsMem_acct
        have := contentReadable_le hr
        exact ⟨h.tidy, by have := h.stored; simp only; omega, this, fun _ => hmem, h.diskOnly⟩
      · exact ⟨h.tidy, hle, hb, h.memOnly, h.diskOnly⟩
    · rename_i hmem
      split
      · exact ⟨h.tidy, hle, hb, h.memOnly, h.diskOnly⟩
      · split
        · rename_i hr
          have hb' := contentReadable_le hr
          split
          · exact ⟨h.tidy.push_remove _ _ rfl rfl rfl, by have := h.stored; simp only; omega, hb', h.memOnly, fun _ => hmem⟩
          · apply addPathsFile_acct
            exact ⟨h.tidy.push_remove _ _ rfl rfl rfl, by have := h.stored; simp only; omega, hb', h.memOnly, fun _ => hmem⟩
        · exact ⟨h.tidy.push_remove _ _ rfl rfl rfl, hle, hb, h.memOnly, h.diskOnly⟩

theorem fileLoop_acct (g : Guards) (req : Req) (ps : List Part) :
    ∀ st idx, Acct req st → Acct req (fileLoop g req st idx ps).1 := by
  induction ps with
  | nil =>
    intro st idx h
    simp only [fileLoop]
    split
    · split <;> exact h
    · exact h
  | cons p ps ih =>
    intro st idx h
    simp only [fileLoop]
    split
    · exact h
    · rename_i hc
      have hb : st.off + p.hdr ≤ req.cfg.budget := by
        apply Classical.byContradiction; intro hn; exact hc (Or.inr hn)
      have hf := filePart_acct g req st idx p ps.isEmpty h hb
      generalize filePart g req st idx p ps.isEmpty = r at hf
      obtain ⟨st', oe⟩ := r
      cases oe with
      | some e => exact hf
      | none => exact ih _ _ hf

theorem acct_init (req : Req) : Acct req {} where
  tidy := ⟨fun f hf => absurd hf List.not_mem_nil, fun f hf => absurd hf List.not_mem_nil⟩
  stored := Nat.le_refl _
  budget := Nat.zero_le _
  memOnly := fun h => absurd h (Nat.lt_irrefl 0)
  diskOnly := fun h => absurd h (Nat.lt_irrefl 0)

theorem nextOk_le {req : Req} {st : St} {p : Part} : nextOk req st p = true → st.off + p.hdr ≤ req.cfg.budget := by
  unfold nextOk; simp only [Bool.and_eq_true, decide_eq_true_eq]; omega

theorem stage_guard {req : Req} {st : St} {p : Part} {nm : List Char}
    (h : ¬ ((!(nextOk req st p) || p.name != nm) = true)) : st.off + p.hdr ≤ req.cfg.budget ∧ p.name = nm := by
  simp only [Bool.or_eq_true, Bool.not_eq_true', bne_iff_ne, ne_eq, not_or, Bool.not_eq_false, Decidable.not_not] at h
  exact ⟨nextOk_le h.1, h.2⟩

theorem fieldDecodable_le {req : Req} {start : Nat} {p : Part} {sd last : Bool} :
    fieldDecodable req start p sd last = true → start + p.size ≤ req.cfg.budget := by
  unfold fieldDecodable
  simp only [Bool.and_eq_true, decide_eq_true_eq]
  exact fun h => h.1

theorem mapStage_acct (g : Guards) (req : Req) (st : St) (ps : List Part) (h : Acct req st) :
    Acct req (mapStage g req st ps).1 := by
  cases ps with
  | nil => exact h
  | cons p1 files =>
    simp only [mapStage]
    split
    · exact h
    · rename_i hg
      have hb := (stage_guard hg).1
      have hle : st.mem + st.disk ≤ st.off + p1.hdr := by have := h.stored; omega
      split
      · rename_i hs
        replace hs := fieldDecodable_le hs
        split
        · exact ⟨h.tidy, hle, hb, h.memOnly, h.diskOnly⟩
        · apply fileLoop_acct
          exact ⟨h.tidy, by have := h.stored; simp only; omega, hs, h.memOnly, h.diskOnly⟩
      · exact ⟨h.tidy, hle, hb, h.memOnly, h.diskOnly⟩

theorem opsStage_acct (g : Guards) (req : Req) (st : St) (ps : List Part) (h : Acct req st) :
    Acct req (opsStage g req st ps).1 := by
  cases ps with
  | nil => exact h
  | cons p0 rest =>
    simp only [opsStage]
    split
    · exact h
    · rename_i hg
      have hb := (stage_guard hg).1
      have hle : st.mem + st.disk ≤ st.off + p0.hdr := by have := h.stored; omega
      split
      · rename_i hs
        replace hs := fieldDecodable_le hs
        split
        · exact ⟨h.tidy, hle, hb, h.memOnly, h.diskOnly⟩
        · apply mapStage_acct
          exact ⟨h.tidy, by have := h.stored; simp only; omega, hs, h.memOnly, h.diskOnly⟩
      · exact ⟨h.tidy, hle, hb, h.memOnly, h.diskOnly⟩

theorem body_acct (g : Guards) (req : Req) : Acct req (body g req).1 := by
  unfold body
  split
  · exact acct_init req
  · split
    · exact acct_init req
    · exact opsStage_acct g req {} req.parts (acct_init req)


theorem applyPaths_append (g : Guards) (as : List (List Char × Nat)) (p : List Char) (id : Nat) :
    ∀ v, applyPaths g v (as ++ [(p, id)]) =
      match applyPaths g v as with
      | some v1 => (match addUpload g v1 p (.upload id) with | .ok v' => some v' | _ => none)
      | none => none := by
  induction as with
  | nil =>
    intro v
    simp only [List.nil_append, applyPaths]
    cases addUpload g v p (.upload id) <;> simp [applyPaths]
  | cons a as ih =>
    intro v
    obtain ⟨q, j⟩ := a
    simp only [List.cons_append, applyPaths]
    cases addUpload g v q (.upload j) <;> simp [ih]

theorem assocGet_assocErase_ne {α : Type} (l : List (Key × α)) (k q : Key) (h : k ≠ q) :
    assocGet (assocErase l k) q = assocGet l q := by
  induction l with
  | nil => rfl
  | cons e r ih =>
    obtain ⟨k', v⟩ := e
    by_cases h1 : k' = k
    · subst h1
      simp [assocErase, assocGet, h, ih]
    · by_cases h2 : k' = q
      · subst h2; simp [assocErase, assocGet, h1]
      · simp [assocErase, assocGet, h1, h2, ih]

/-- what holds of the readers created so far (all fields are untouched by the parts of the state
the inner loops do not write) -/
structure Served0 (g : Guards) (req : Req) (vars0 : UV) (st : St) : Prop where
  ids : st.readers.map (·.id) = (List.range st.readers.length).reverse
  applied : applyPaths g vars0 (assignments st) = some st.vars
  named : ∀ r ∈ st.readers, ∃ p, req.parts[r.part]? = some p ∧ p.name = r.key
  kind : ∀ r ∈ st.readers, (r.file = none ↔ req.contentLength < req.cfg.maxMem) ∧ ∀ f, r.file = some f → f ∈ st.live

theorem served0_push {g : Guards} {req : Req} {vars0 : UV} {st : St} (h : Served0 g req vars0 st)
    (r : Reader) (v : UV) (st' : St)
    (hid : r.id = st.readers.length)
    (hr : st'.readers = r :: st.readers) (hv : st'.vars = v) (hl : st'.live = st.live)
    (hw : addUpload g st.vars r.path (.upload r.id) = .ok v)
    (hn : ∃ p, req.parts[r.part]? = some p ∧ p.name = r.key)
    (hk : (r.file = none ↔ req.contentLength < req.cfg.maxMem) ∧ ∀ f, r.file = some f → f ∈ st.live) :
    Served0 g req vars0 st' := by
  constructor
  · rw [hr, List.map_cons, List.length_cons, List.range_succ, List.reverse_append, h.ids, hid]; rfl
  · unfold assignments
    rw [hr, List.reverse_cons, List.map_append, List.map_cons, List.map_nil, applyPaths_append]
    have := h.applied; unfold assignments at this; rw [this]
    simp only [hw, hv]
  · intro r' hr'; rw [hr] at hr'
    rcases List.mem_cons.mp hr' with rfl | hr'
    · exact hn
    · exact h.named r' hr'
  · intro r' hr'; rw [hr] at hr'; rw [hl]
    rcases List.mem_cons.mp hr' with rfl | hr'
    · exact hk
    · exact h.kind r' hr'

theorem addPathsMem_served (g : Guards) (req : Req) (vars0 : UV) (idx : Nat) (key : Key)
    (hn : ∃ p, req.parts[idx]? = some p ∧ p.name = key) (hm : req.contentLength < req.cfg.maxMem)
    (ps : List (List Char)) :
    ∀ st st', Served0 g req vars0 st → addPathsMem g idx key st ps = (st', none) →
      Served0 g req vars0 st' ∧ st'.pending = st.pending ∧ st'.live = st.live ∧
      (∀ r ∈ st.readers, r ∈ st'.readers) ∧ ∀ p ∈ ps, ∃ r ∈ st'.readers, r.key = key ∧ r.path = p := by
  induction ps with
  | nil =>
    intro st st' h he
    simp only [addPathsMem] at he
    cases he
    exact ⟨h, rfl, rfl, fun r hr => hr, fun p hp => absurd hp List.not_mem_nil⟩
  | cons p ps ih =>
    intro st st' h he
    simp only [addPathsMem] at he
    split at he
    · rename_i v hw
      have h1 := served0_push h ⟨st.readers.length, idx, key, p, none⟩ v
        { st with readers := ⟨st.readers.length, idx, key, p, none⟩ :: st.readers, vars := v }
        rfl rfl rfl rfl hw hn ⟨⟨fun _ => hm, fun _ => rfl⟩, fun f hf => (by cases hf)⟩
      obtain ⟨s1, s2, s3, s4, s5⟩ := ih _ _ h1 he
      refine ⟨s1, s2, s3, fun r hr => s4 r (List.mem_cons_of_mem _ hr), ?_⟩
      intro q hq
      rcases List.mem_cons.mp hq with rfl | hq
      · exact ⟨_, s4 _ List.mem_cons_self, rfl, rfl⟩
      · exact s5 q hq
    · cases he

theorem addPathsFile_served (g : Guards) (req : Req) (vars0 : UV) (fs : FsPlan) (idx : Nat) (key : Key) (file : Nat)
    (hn : ∃ p, req.parts[idx]? = some p ∧ p.name = key) (hm : ¬ req.contentLength < req.cfg.maxMem)
    (ps : List (List Char)) :
    ∀ st st', Served0 g req vars0 st → file ∈ st.live → addPathsFile g fs idx key file st ps = (st', none) →
      Served0 g req vars0 st' ∧ st'.pending = st.pending ∧ st'.live = st.live ∧
      (∀ r ∈ st.readers, r ∈ st'.readers) ∧ ∀ p ∈ ps, ∃ r ∈ st'.readers, r.key = key ∧ r.path = p := by
  induction ps with
  | nil =>
    intro st st' h _ he
    simp only [addPathsFile] at he
    cases he
    exact ⟨h, rfl, rfl, fun r hr => hr, fun p hp => absurd hp List.not_mem_nil⟩
  | cons p ps ih =>
    intro st st' h hf he
    simp only [addPathsFile] at he
    split at he
    · cases he
    · split at he
      · rename_i v hw
        have h1 := served0_push h ⟨st.readers.length, idx, key, p, some file⟩ v
          { st with opens := st.opens + 1, openH := st.readers.length :: st.openH,
                    defers := Defer.close st.readers.length :: st.defers,
                    readers := ⟨st.readers.length, idx, key, p, some file⟩ :: st.readers, vars := v }
          rfl rfl rfl rfl hw hn
          ⟨⟨fun hx => (by cases hx), fun hx => absurd hx hm⟩, fun f hf' => (by cases hf'; exact hf)⟩
        obtain ⟨s1, s2, s3, s4, s5⟩ := ih _ _ h1 hf he
        refine ⟨s1, s2, s3, fun r hr => s4 r (List.mem_cons_of_mem _ hr), ?_⟩
        intro q hq
        rcases List.mem_cons.mp hq with rfl | hq
        · exact ⟨_, s4 _ List.mem_cons_self, rfl, rfl⟩
        · exact s5 q hq
      · cases he

theorem served0_mono {g : Guards} {req : Req} {vars0 : UV} {st : St} (h : Served0 g req vars0 st) (st' : St)
    (hr : st'.readers = st.readers) (hv : st'.vars = st.vars) (hl : ∀ f ∈ st.live, f ∈ st'.live) :
    Served0 g req vars0 st' := by
  constructor
  · rw [hr]; exact h.ids
  · unfold assignments; rw [hr, hv]; exact h.applied
  · rw [hr]; exact h.named
  · rw [hr]; intro r hr'; exact ⟨(h.kind r hr').1, fun f hf => hl f ((h.kind r hr').2 f hf)⟩

/-- every mapped path is either still waiting for its part or has a reader -/
def Covered (m : UploadsMap) (st : St) : Prop :=
  ∀ k ps, assocGet m k = some ps →
    assocGet st.pending k = some ps ∨ ∀ path ∈ ps, ∃ r ∈ st.readers, r.key = k ∧ r.path = path

theorem covered_step {m : UploadsMap} {st st' : St} {key : Key} {paths : List (List Char)}
    (hc : Covered m st) (hg : assocGet st.pending key = some paths)
    (hp : st'.pending = assocErase st.pending key)
    (hgrow : ∀ r ∈ st.readers, r ∈ st'.readers)
    (hcov : ∀ p ∈ paths, ∃ r ∈ st'.readers, r.key = key ∧ r.path = p) : Covered m st' := by
  intro k ps hk
  rcases hc k ps hk with hl | hr
  · by_cases hkk : key = k
    · subst hkk
      rw [hg] at hl; cases hl
      exact Or.inr hcov
    · left; rw [hp, assocGet_assocErase_ne _ _ _ hkk]; exact hl
  · right
    intro path hpath
    obtain ⟨r, hr1, hr2⟩ := hr path hpath
    exact ⟨r, hgrow r hr1, hr2⟩

theorem filePart_served (g : Guards) (req : Req) (vars0 : UV) (m : UploadsMap) (st st' : St) (idx : Nat)
    (p : Part) (last : Bool)
    (h0 : Served0 g req vars0 st) (hc : Covered m st) (hp : req.parts[idx]? = some p)
    (he : filePart g req st idx p last = (st', none)) :
    Served0 g req vars0 st' ∧ Covered m st' := by
  have hn : ∃ q, req.parts[idx]? = some q ∧ q.name = p.name := ⟨p, hp, rfl⟩
  unfold filePart at he
  simp only at he
  split at he
  · cases he
  · cases he
  · rename_i path paths hg
    split at he
    · rename_i hm
      split at he
      · have h1 := served0_mono h0
          { st with off := st.off + p.hdr + p.size, pending := assocErase st.pending p.name, mem := st.mem + p.size }
          rfl rfl (fun f hf => hf)
        obtain ⟨s1, s2, _, s4, s5⟩ := addPathsMem_served g req vars0 idx p.name hn hm _ _ _ h1 he
        exact ⟨s1, covered_step hc hg s2 s4 s5⟩
      · cases he
    · rename_i hm
      split at he
      · cases he
      · split at he
        · split at he
          · cases he
          · have h1 := served0_mono h0
              { st with off := st.off + p.hdr + p.size, pending := assocErase st.pending p.name,
                        creates := st.creates + 1, live := st.creates :: st.live,
                        defers := Defer.remove st.creates :: st.defers, disk := st.disk + p.size }
              rfl rfl (fun f hf => List.mem_cons_of_mem _ hf)
            obtain ⟨s1, s2, _, s4, s5⟩ := addPathsFile_served g req vars0 req.fs idx p.name st.creates hn hm _ _ _ h1
              List.mem_cons_self he
            exact ⟨s1, covered_step hc hg s2 s4 s5⟩
        · cases he

theorem toExit_ne_exec {o : Outcome} (h : ∀ v, o = .ok v → False) : o.toExit ≠ .exec := by
  cases o with
  | ok v => exact absurd rfl (h v)
  | err e => simp [Outcome.toExit]
  | panic p => simp [Outcome.toExit]

theorem addPathsMem_ne_exec (g : Guards) (idx : Nat) (key : Key) (ps : List (List Char)) :
    ∀ st st' e, addPathsMem g idx key st ps = (st', some e) → e ≠ .exec := by
  induction ps with
  | nil => intro st st' e h; simp [addPathsMem] at h
  | cons p ps ih =>
    intro st st' e h
    simp only [addPathsMem] at h
    split at h
    · exact ih _ _ _ h
    · rename_i hno
      cases h
      exact toExit_ne_exec (fun v hv => hno v hv)

theorem addPathsFile_ne_exec (g : Guards) (fs : FsPlan) (idx : Nat) (key : Key) (file : Nat) (ps : List (List Char)) :
    ∀ st st' e, addPathsFile g fs idx key file st ps = (st', some e) → e ≠ .exec := by
  induction ps with
  | nil => intro st st' e h; simp [addPathsFile] at h
  | cons p ps ih =>
    intro st st' e h
    simp only [addPathsFile] at h
    split at h
    · cases h; simp
    · split at h
      · exact ih _ _ _ h
      · rename_i hno
        cases h
        exact toExit_ne_exec (fun v hv => hno v hv)

theorem filePart_ne_exec (g : Guards) (req : Req) (st st' : St) (idx : Nat) (p : Part) (last : Bool) (e : Exit)
    (h : filePart g req st idx p last = (st', some e)) : e ≠ .exec := by
  unfold filePart at h
  simp only at h
  split at h
  · cases h; simp
  · cases h; simp
  · split at h
    · split at h
      · exact addPathsMem_ne_exec _ _ _ _ _ _ _ h
      · cases h; simp
    · split at h
      · cases h; simp
      · split at h
        · split at h
          · cases h; simp
          · exact addPathsFile_ne_exec _ _ _ _ _ _ _ _ _ h
        · cases h; simp

theorem fileLoop_served (g : Guards) (req : Req) (vars0 : UV) (m : UploadsMap) (ps : List Part) :
    ∀ (st st' : St) (idx : Nat), Served0 g req vars0 st → Covered m st → req.parts.drop idx = ps →
      fileLoop g req st idx ps = (st', .exec) →
      Served0 g req vars0 st' ∧ Covered m st' ∧ st'.pending = [] := by
  induction ps with
  | nil =>
    intro st st' idx h0 hc _ he
    simp only [fileLoop] at he
    split at he
    · split at he
      · rename_i hpend
        cases he
        exact ⟨h0, hc, hpend⟩
      · cases he
    · cases he
  | cons p ps ih =>
    intro st st' idx h0 hc hd he
    simp only [fileLoop] at he
    split at he
    · cases he
    · have hp : req.parts[idx]? = some p := by
        have := congrArg List.head? hd
        simpa [List.head?_drop] using this
      have hd' : req.parts.drop (idx + 1) = ps := by
        have := congrArg List.tail hd
        simpa [List.tail_drop] using this
      generalize hfp : filePart g req st idx p ps.isEmpty = r at he
      obtain ⟨st1, oe⟩ := r
      cases oe with
      | some e =>
        simp only at he
        have := filePart_ne_exec g req st st1 idx p _ e hfp
        cases he
        exact absurd rfl this
      | none =>
        simp only at he
        obtain ⟨s1, s2⟩ := filePart_served g req vars0 m st st1 idx p _ h0 hc hp hfp
        exact ih st1 st' (idx + 1) s1 s2 hd' he

theorem mapStage_served (g : Guards) (req : Req) (vars0 : UV) (st st' : St) (ps : List Part)
    (h0 : Served0 g req vars0 st) (hd : req.parts.drop 1 = ps)
    (he : mapStage g req st ps = (st', .exec)) :
    ∃ m, req.map = .ok m ∧ Served0 g req vars0 st' ∧ Covered m st' ∧ st'.pending = [] := by
  cases ps with
  | nil => simp [mapStage] at he
  | cons p1 files =>
    simp only [mapStage] at he
    split at he
    · cases he
    · split at he
      · split at he
        · cases he
        · rename_i m hm
          refine ⟨m, hm, ?_⟩
          have hd2 : req.parts.drop 2 = files := by
            have := congrArg (List.drop 1) hd
            simpa [List.drop_drop] using this
          apply fileLoop_served g req vars0 m files _ st' 2 _ _ hd2 he
          · exact served0_mono h0 _ rfl rfl (fun f hf => hf)
          · intro k ps hk; exact Or.inl hk
      · cases he

theorem opsStage_served (g : Guards) (req : Req) (st' : St)
    (he : opsStage g req {} req.parts = (st', .exec)) :
    ∃ vars0 m, req.ops = .ok vars0 ∧ req.map = .ok m ∧ Served0 g req vars0 st' ∧ Covered m st' ∧ st'.pending = [] := by
  cases hps : req.parts with
  | nil => rw [hps] at he; simp [opsStage] at he
  | cons p0 rest =>
    rw [hps] at he
    simp only [opsStage] at he
    split at he
    · cases he
    · split at he
      · split at he
        · cases he
        · rename_i vars0 hv
          have hd : req.parts.drop 1 = rest := by rw [hps]; rfl
          have h0 : Served0 g req vars0 { ({} : St) with off := (({} : St).off + p0.hdr) + p0.size, vars := vars0 } :=
            ⟨rfl, rfl, fun r hr => absurd hr List.not_mem_nil, fun r hr => absurd hr List.not_mem_nil⟩
          obtain ⟨m, hm, s1, s2, s3⟩ := mapStage_served g req vars0 _ st' rest h0 hd he
          exact ⟨vars0, m, hv, hm, s1, s2, s3⟩
      · cases he

theorem body_exec (g : Guards) (req : Req) (st' : St) (he : body g req = (st', .exec)) :
    ∃ vars0 m, req.ops = .ok vars0 ∧ req.map = .ok m ∧ Served0 g req vars0 st' ∧ Covered m st' ∧ st'.pending = [] := by
  unfold body at he
  split at he
  · cases he
  · split at he
    · cases he
    · exact opsStage_served g req st' he

section
variable (g : Guards) (hg : ∀ v path up, (addUpload g v path up).isPanic = false)
include hg

theorem addPathsMem_noPanic (idx : Nat) (key : Key) (ps : List (List Char)) :
    ∀ st st' e, addPathsMem g idx key st ps = (st', some e) → e.isPanic = false := by
  induction ps with
  | nil => intro st st' e h; simp [addPathsMem] at h
  | cons p ps ih =>
    intro st st' e h
    simp only [addPathsMem] at h
    split at h
    · exact ih _ _ _ h
    · cases h; rw [toExit_isPanic]; exact hg _ _ _

theorem addPathsFile_noPanic (fs : FsPlan) (idx : Nat) (key : Key) (file : Nat) (ps : List (List Char)) :
    ∀ st st' e, addPathsFile g fs idx key file st ps = (st', some e) → e.isPanic = false := by
  induction ps with
  | nil => intro st st' e h; simp [addPathsFile] at h
  | cons p ps ih =>
    intro st st' e h
    simp only [addPathsFile] at h
    split at h
    · cases h; rfl
    · split at h
      · exact ih _ _ _ h
      · cases h; rw [toExit_isPanic]; exact hg _ _ _

theorem filePart_noPanic (req : Req) (st st' : St) (idx : Nat) (p : Part) (last : Bool) (e : Exit)
    (h : filePart g req st idx p last = (st', some e)) : e.isPanic = false := by
  unfold filePart at h
  simp only at h
  split at h
  · cases h; rfl
  · cases h; rfl
  · split at h
    · split at h
      · exact addPathsMem_noPanic g hg _ _ _ _ _ _ h
      · cases h; rfl
    · split at h
      · cases h; rfl
      · split at h
        · split at h
          · cases h; rfl
          · exact addPathsFile_noPanic g hg _ _ _ _ _ _ _ _ h
        · cases h; rfl

theorem fileLoop_noPanic (req : Req) (ps : List Part) :
    ∀ st idx, (fileLoop g req st idx ps).2.isPanic = false := by
  induction ps with
  | nil =>
    intro st idx
    simp only [fileLoop]
    split
    · split <;> rfl
    · rfl
  | cons p ps ih =>
    intro st idx
    simp only [fileLoop]
    split
    · rfl
    · generalize hfp : filePart g req st idx p ps.isEmpty = r
      obtain ⟨st1, oe⟩ := r
      cases oe with
      | some e => exact filePart_noPanic g hg req st st1 idx p _ e hfp
      | none => exact ih _ _

theorem body_noPanic (req : Req) : (body g req).2.isPanic = false := by
  unfold body
  split
  · rfl
  · split
    · rfl
    · cases req.parts with
      | nil => rfl
      | cons p0 rest =>
        simp only [opsStage]
        split
        · rfl
        · split
          · split
            · rfl
            · cases rest with
              | nil => rfl
              | cons p1 files =>
                simp only [mapStage]
                split
                · rfl
                · split
                  · split
                    · rfl
                    · exact fileLoop_noPanic g hg req files _ _
                  · rfl
          · rfl
end



theorem BodyClass.mem_all (b : BodyClass) : b ∈ BodyClass.all := by
  cases b <;> simp [BodyClass.all]

/-! ## fixtures for the non-vacuity examples and witnesses of `Props/C10.lean` -/
namespace Fixture

def vars : UV := .obj [("a".toList, .arr [.null, .null]), ("s".toList, .leaf "\"x\"".toList)]

def noFaults : FsPlan := ⟨fun _ => false, fun _ => false, fun _ => false⟩

def threeParts : List Part :=
  [⟨"operations".toList, [], [], 60, 80, .none⟩, ⟨"map".toList, [], [], 60, 40, .none⟩,
   ⟨"0".toList, "a.txt".toList, "text/plain".toList, 100, 5, .none⟩]

/-- `{"0":["variables.a.5"]}` over `{"a":[null]}` -/
def badIndexReq : Req :=
  { cfg := ⟨0, 0⟩, contentLength := 400, dlen := 14, tail := 18, boundaryOk := true, fs := noFaults,
    ops := .ok (.obj [("a".toList, .arr [.null])]),
    map := .ok [("0".toList, ["variables.a.5".toList])], opsSelfDelim := true, mapSelfDelim := true,
    parts := threeParts, term := .eof }

/-- one file mapped to two variables, MaxMemory 1 (spill) -/
def twoPathsSpillReq : Req :=
  { cfg := ⟨0, 1⟩, contentLength := 500, dlen := 14, tail := 18, boundaryOk := true, fs := noFaults,
    ops := .ok (.obj [("file".toList, .null), ("b".toList, .null)]),
    map := .ok [("0".toList, ["variables.file".toList, "variables.b".toList])], opsSelfDelim := true, mapSelfDelim := true,
    parts := threeParts, term := .eof }

/-- MaxUploadSize 300 against a 363-byte body, with declared length `cl` -/
def limitedReq (cl : Int) : Req :=
  { cfg := ⟨300, 0⟩, contentLength := cl, dlen := 14, tail := 18, boundaryOk := true, fs := noFaults,
    ops := .ok (.obj [("file".toList, .null)]),
    map := .ok [("0".toList, ["variables.file".toList])], opsSelfDelim := true, mapSelfDelim := true,
    parts := threeParts, term := .eof }

end Fixture

end GqlgenVerif.Upload
