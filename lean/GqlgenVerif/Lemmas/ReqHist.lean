import GqlgenVerif.Model.ReqHist
/-! Helper lemmas for `Props/C10Hist.lean`: with the complete gate the query cache holds validated
documents only, and then it cannot be observed. -/
namespace GqlgenVerif.ReqHist

/-- every cached document is one the validator accepted -/
def Inv (cls : Nat → QClass) (c : Cache) : Prop := ∀ q ∈ c, cls q = .valid

theorem inv_nil (cls : Nat → QClass) : Inv cls [] := by
  intro q h; cases h

theorem inv_touch {cls : Nat → QClass} {c : Cache} {q : Nat} (h : Inv cls c) (hq : cls q = .valid) :
    Inv cls (touch c q) := by
  intro x hx
  simp only [touch, List.mem_cons] at hx
  cases hx with
  | inl e => rw [e]; exact hq
  | inr m => exact h x (List.mem_of_mem_erase m)

theorem inv_add {cls : Nat → QClass} {c : Cache} {q : Nat} (cap : Nat) (h : Inv cls c) (hq : cls q = .valid) :
    Inv cls (add cap c q) := by
  intro x hx
  exact inv_touch h hq x (List.mem_of_mem_take hx)

theorem stores_all (c : QClass) : Gate.all.stores c = (c == .valid) := by
  cases c <;> rfl

/-- with the complete gate, on a cache of validated documents: the answer of a fresh server, and the cache
still holds validated documents only -/
theorem parseQuery_all (cap : Nat) (cls : Nat → QClass) (c : Cache) (q : Nat) (h : Inv cls c) :
    (parseQuery Gate.all cap cls c q).1 = fresh (cls q) ∧ Inv cls (parseQuery Gate.all cap cls c q).2 := by
  unfold parseQuery
  by_cases hm : q ∈ c
  · have hv := h q hm
    simp only [hm, if_true]
    exact ⟨by rw [hv]; rfl, inv_touch h hv⟩
  · simp only [hm, if_false, true_and]
    rw [stores_all]
    cases hc : cls q <;> first | exact h | exact inv_add cap h hc

/-- capacity 0 (`graphql.NoCache`): nothing is ever stored -/
theorem parseQuery_nocache (g : Gate) (cls : Nat → QClass) (q : Nat) :
    parseQuery g 0 cls [] q = (fresh (cls q), []) := by
  unfold parseQuery add
  simp

/-- one request: a server with a cache of validated documents answers like one without a cache -/
theorem step_all (cap : Nat) (apqOn : Bool) (cls : Nat → QClass) (s : St) (x : Step) (h : Inv cls s.cache) :
    (step Gate.all cap apqOn cls s x).1 = (step Gate.all 0 apqOn cls ⟨[], s.apq⟩ x).1 ∧
    (step Gate.all cap apqOn cls s x).2.apq = (step Gate.all 0 apqOn cls ⟨[], s.apq⟩ x).2.apq ∧
    (step Gate.all 0 apqOn cls ⟨[], s.apq⟩ x).2.cache = [] ∧
    Inv cls (step Gate.all cap apqOn cls s x).2.cache := by
  have via : ∀ (a : List (Nat × Nat)) (q : Nat),
      (viaCache Gate.all cap cls s a q).1 = (viaCache Gate.all 0 cls ⟨[], s.apq⟩ a q).1 ∧
      (viaCache Gate.all cap cls s a q).2.apq = (viaCache Gate.all 0 cls ⟨[], s.apq⟩ a q).2.apq ∧
      (viaCache Gate.all 0 cls ⟨[], s.apq⟩ a q).2.cache = [] ∧
      Inv cls (viaCache Gate.all cap cls s a q).2.cache := by
    intro a q
    have h1 := parseQuery_all cap cls s.cache q h
    simp only [viaCache, parseQuery_nocache]
    exact ⟨h1.1, trivial, trivial, h1.2⟩
  cases x with
  | unreached => exact ⟨rfl, rfl, rfl, h⟩
  | op q e =>
    simp only [step]
    cases apqOn
    · simpa using via s.apq q
    · cases e with
      | none => simpa using via s.apq q
      | invalid => exact ⟨rfl, rfl, rfl, h⟩
      | version => exact ⟨rfl, rfl, rfl, h⟩
      | hash hh =>
        by_cases hq : q = emptyQ
        · simp only [hq, if_true]
          cases hl : s.apq.lookup hh with
          | none => exact ⟨rfl, rfl, rfl, h⟩
          | some q' => simpa using via s.apq q'
        · simp only [hq, if_false]
          by_cases hne : hh ≠ q
          · simp only [if_pos hne]; exact ⟨rfl, rfl, rfl, h⟩
          · simp only [if_neg hne]; simpa using via ((hh, q) :: s.apq) q

theorem runAll_all (cap : Nat) (apqOn : Bool) (cls : Nat → QClass) (xs : List Step) :
    ∀ s : St, Inv cls s.cache →
      runAll Gate.all cap apqOn cls s xs = runAll Gate.all 0 apqOn cls ⟨[], s.apq⟩ xs := by
  induction xs with
  | nil => intro s _; rfl
  | cons x xs ih =>
    intro s h
    have hs := step_all cap apqOn cls s x h
    simp only [runAll]
    rw [hs.1, ih _ hs.2.2.2, hs.2.1]
    congr 2
    have h3 := hs.2.2.1
    generalize step Gate.all 0 apqOn cls ⟨[], s.apq⟩ x = r at h3 ⊢
    cases r with
    | mk o st => cases st with
      | mk c a => simp at h3; subst h3; rfl

/-- without a cache every answer that hands a document on hands on a validated one -/
theorem step_nocache_ok (g : Gate) (apqOn : Bool) (cls : Nat → QClass) (a : List (Nat × Nat)) (x : Step) :
    (step g 0 apqOn cls ⟨[], a⟩ x).1.ok = true ∧ (step g 0 apqOn cls ⟨[], a⟩ x).2.cache = [] := by
  have via : ∀ (a' : List (Nat × Nat)) (q : Nat),
      (viaCache g 0 cls ⟨[], a⟩ a' q).1.ok = true ∧ (viaCache g 0 cls ⟨[], a⟩ a' q).2.cache = [] := by
    intro a' q
    simp only [viaCache, parseQuery_nocache]
    exact ⟨by cases cls q <;> rfl, trivial⟩
  cases x with
  | unreached => exact ⟨rfl, rfl⟩
  | op q e =>
    simp only [step]
    cases apqOn
    · simpa using via a q
    · cases e with
      | none => simpa using via a q
      | invalid => exact ⟨rfl, rfl⟩
      | version => exact ⟨rfl, rfl⟩
      | hash hh =>
        by_cases hq : q = emptyQ
        · simp only [hq, if_true]
          cases hl : List.lookup hh a with
          | none => exact ⟨rfl, rfl⟩
          | some q' => simpa using via a q'
        · simp only [hq, if_false]
          by_cases hne : hh ≠ q
          · simp only [if_pos hne]; exact ⟨rfl, rfl⟩
          · simp only [if_neg hne]; simpa using via ((hh, q) :: a) q

theorem runAll_nocache_ok (g : Gate) (apqOn : Bool) (cls : Nat → QClass) (xs : List Step) :
    ∀ a : List (Nat × Nat), ∀ o ∈ runAll g 0 apqOn cls ⟨[], a⟩ xs, o.ok = true := by
  induction xs with
  | nil => intro a o h; cases h
  | cons x xs ih =>
    intro a o h
    have hs := step_nocache_ok g apqOn cls a x
    simp only [runAll, List.mem_cons] at h
    cases h with
    | inl e => rw [e]; exact hs.1
    | inr m =>
      have h3 := hs.2
      generalize step g 0 apqOn cls ⟨[], a⟩ x = r at h3 m
      cases r with
      | mk o' st => cases st with
        | mk c a' => simp at h3; subst h3; exact ih a' o m

end GqlgenVerif.ReqHist
