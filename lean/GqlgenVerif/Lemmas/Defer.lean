import GqlgenVerif.Model.Defer
import GqlgenVerif.Lemmas.ExecPerm
/-! Helper lemmas for C13: grouping of deferred fields is a partition; any sub-collection of an object's
    fields completes to the corresponding entries of the plain completion. -/
namespace GqlgenVerif
open D

def isDeferredField (f : FInfo × Shape) : Bool :=
  (if f.1.name == "__typename" then none else f.1.deferred).isSome

theorem flatMap_modify_append {α β : Type} (acc : List (α × List β)) (i : Nat) (x : β) (h : i < acc.length) :
    ((acc.modify i fun g => (g.1, g.2 ++ [x])).flatMap (·.2)).Perm (acc.flatMap (·.2) ++ [x]) := by
  induction acc generalizing i with
  | nil => simp at h
  | cons g rest ih =>
    cases i with
    | zero =>
      simp [List.flatMap_cons]
      exact List.Perm.append_left _ (List.perm_append_comm (l₁ := [x]))
    | succ j =>
      simp only [List.modify_succ_cons, List.flatMap_cons, List.append_assoc]
      exact List.Perm.append_left _ (ih j (by simpa using h))

theorem groupByLabel_partition (fields : List (FInfo × Shape)) (acc : List (String × List (FInfo × Shape))) :
    ((groupByLabel fields acc).flatMap (·.2)).Perm (acc.flatMap (·.2) ++ fields.filter isDeferredField) := by
  induction fields generalizing acc with
  | nil => simp [groupByLabel]
  | cons f rest ih =>
    obtain ⟨fi, sh⟩ := f
    simp only [groupByLabel]
    cases hd : (if fi.name == "__typename" then none else fi.deferred) with
    | none =>
      have : isDeferredField (fi, sh) = false := by unfold isDeferredField; rw [hd]; rfl
      simp only [List.filter_cons, this]
      exact ih acc
    | some l =>
      have hdf : isDeferredField (fi, sh) = true := by unfold isDeferredField; rw [hd]; rfl
      simp only [List.filter_cons, hdf, ↓reduceIte]
      cases hi : acc.findIdx? (·.1 == l) with
      | some i =>
        simp only []
        have hlt : i < acc.length := by
          have := List.findIdx?_eq_some_iff_getElem.mp hi
          exact this.1
        refine (ih _).trans ?_
        have := flatMap_modify_append acc i (fi, sh) hlt
        refine (this.append_right _).trans ?_
        simp
      | none =>
        simp only []
        refine (ih _).trans ?_
        simp [List.flatMap_append]
end GqlgenVerif

namespace GqlgenVerif
open D Spec

theorem plain_some_field (o : Oracle) (ty : String) (p : Path) :
    ∀ (fs : List (FInfo × Shape)) (vals : List (String × Out)),
      (Spec.completeFields o ty fs p).1 = some vals →
      ∀ f ∈ fs, ∃ v, (fieldResult o ty p f).1 = some v ∧ (f.1.alias, v) ∈ vals ∧
        ∀ e ∈ (fieldResult o ty p f).2.errs, e ∈ (Spec.completeFields o ty fs p).2.errs := by
  intro fs
  induction fs with
  | nil => intro vals _ f hf; cases hf
  | cons g rest ih =>
    intro vals h f hf
    rw [completeFields_cons] at h ⊢
    cases hg : (fieldResult o ty p g).1 with
    | none => rw [hg] at h; simp at h
    | some x =>
      cases hr : (Spec.completeFields o ty rest p).1 with
      | none => rw [hg, hr] at h; simp at h
      | some xs =>
        rw [hg, hr] at h
        simp at h
        subst h
        rcases List.mem_cons.mp hf with rfl | hf'
        · exact ⟨x, hg, by simp, fun e he => by simp [he]⟩
        · obtain ⟨v, h1, h2, h3⟩ := ih xs hr f hf'
          exact ⟨v, h1, by simp [h2], fun e he => by simp [h3 e he]⟩

theorem subset_of_plain (o : Oracle) (ty : String) (p : Path) (fs : List (FInfo × Shape))
    (plainVals : List (String × Out)) (h : (Spec.completeFields o ty fs p).1 = some plainVals) :
    ∀ g : List (FInfo × Shape), (∀ f ∈ g, f ∈ fs) →
      ∃ vals, (Spec.completeFields o ty g p).1 = some vals ∧ (∀ kv ∈ vals, kv ∈ plainVals) ∧
        (vals.map (·.1) = g.map (·.1.alias)) ∧
        ∀ e ∈ (Spec.completeFields o ty g p).2.errs, e ∈ (Spec.completeFields o ty fs p).2.errs := by
  intro g
  induction g with
  | nil => intro _; exact ⟨[], by simp [Spec.completeFields], by simp, by simp, by simp [Spec.completeFields]⟩
  | cons f rest ih =>
    intro hg
    obtain ⟨v, h1, h2, h3⟩ := plain_some_field o ty p fs plainVals h f (hg f (by simp))
    obtain ⟨vals, i1, i2, i3, i4⟩ := ih (fun x hx => hg x (by simp [hx]))
    rw [completeFields_cons, h1, i1]
    refine ⟨(f.1.alias, v) :: vals, rfl, ?_, by simp [i3], ?_⟩
    · intro kv hkv
      rcases List.mem_cons.mp hkv with rfl | hkv
      · exact h2
      · exact i2 kv hkv
    · intro e he
      simp only [St.append_errs, List.mem_append] at he
      rcases he with he | he
      · exact h3 e he
      · exact i4 e he

end GqlgenVerif
