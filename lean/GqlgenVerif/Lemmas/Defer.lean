import GqlgenVerif.Model.Defer
import GqlgenVerif.Lemmas.ExecPerm
/-! Helper lemmas for C13: grouping of deferred fields is a partition; any sub-collection of an object's
    fields completes to the corresponding entries of the plain completion. -/
namespace GqlgenVerif
open D

/-- deferred by the generated code: a resolver-backed field (not `__typename`, not a plain struct field) whose
    collected entry carries a deferral label -/
def isDeferredField (f : FInfo × Shape) : Bool :=
  (if f.1.name == "__typename" || f.1.plain then none else f.1.deferred).isSome

theorem flatMap_modify_append {α β : Type} (acc : List (α × List β)) (i : Nat) (x : β) (h : i < acc.length) :
    ((acc.modify i fun g => (g.1, g.2 ++ [x])).flatMap (·.2)).Perm (acc.flatMap (·.2) ++ [x]) := by
  induction acc generalizing i with
  | nil => simp at h
  | cons g rest ih =>
    cases i with
    | zero =>
      simp [List.flatMap_cons]
      exact List.Perm.append_left _ (List.perm_append_comm (l₁ := [x]))
    | succ j =>
      simp only [List.modify_succ_cons, List.flatMap_cons, List.append_assoc]
      exact List.Perm.append_left _ (ih j (by simpa using h))

theorem groupByLabel_partition (fields : List (FInfo × Shape)) (acc : List (String × List (FInfo × Shape))) :
    ((groupByLabel fields acc).flatMap (·.2)).Perm (acc.flatMap (·.2) ++ fields.filter isDeferredField) := by
  induction fields generalizing acc with
  | nil => simp [groupByLabel]
  | cons f rest ih =>
    obtain ⟨fi, sh⟩ := f
    simp only [groupByLabel]
    cases hd : (if fi.name == "__typename" || fi.plain then none else fi.deferred) with
    | none =>
      have : isDeferredField (fi, sh) = false := by unfold isDeferredField; rw [hd]; rfl
      simp only [List.filter_cons, this]
      exact ih acc
    | some l =>
      have hdf : isDeferredField (fi, sh) = true := by unfold isDeferredField; rw [hd]; rfl
      simp only [List.filter_cons, hdf, ↓reduceIte]
      cases hi : acc.findIdx? (·.1 == l) with
      | some i =>
        simp only []
        have hlt : i < acc.length := by
          have := List.findIdx?_eq_some_iff_getElem.mp hi
          exact this.1
        refine (ih _).trans ?_
        have := flatMap_modify_append acc i (fi, sh) hlt
        refine (this.append_right _).trans ?_
        simp
      | none =>
        simp only []
        refine (ih _).trans ?_
        simp [List.flatMap_append]
end GqlgenVerif

namespace GqlgenVerif
open D Spec

theorem plain_some_field (o : Oracle) (ty : String) (p : Path) :
    ∀ (fs : List (FInfo × Shape)) (vals : List (String × Out)),
      (Spec.completeFields o ty fs p).1 = some vals →
      ∀ f ∈ fs, ∃ v, (fieldResult o ty p f).1 = some v ∧ (f.1.alias, v) ∈ vals ∧
        ∀ e ∈ (fieldResult o ty p f).2.errs, e ∈ (Spec.completeFields o ty fs p).2.errs := by
  intro fs
  induction fs with
  | nil => intro vals _ f hf; cases hf
  | cons g rest ih =>
    intro vals h f hf
    rw [completeFields_cons] at h ⊢
    cases hg : (fieldResult o ty p g).1 with
    | none => rw [hg] at h; simp at h
    | some x =>
      cases hr : (Spec.completeFields o ty rest p).1 with
      | none => rw [hg, hr] at h; simp at h
      | some xs =>
        rw [hg, hr] at h
        simp at h
        subst h
        rcases List.mem_cons.mp hf with rfl | hf'
        · exact ⟨x, hg, by simp, fun e he => by simp [he]⟩
        · obtain ⟨v, h1, h2, h3⟩ := ih xs hr f hf'
          exact ⟨v, h1, by simp [h2], fun e he => by simp [h3 e he]⟩

theorem subset_of_plain (o : Oracle) (ty : String) (p : Path) (fs : List (FInfo × Shape))
    (plainVals : List (String × Out)) (h : (Spec.completeFields o ty fs p).1 = some plainVals) :
    ∀ g : List (FInfo × Shape), (∀ f ∈ g, f ∈ fs) →
      ∃ vals, (Spec.completeFields o ty g p).1 = some vals ∧ (∀ kv ∈ vals, kv ∈ plainVals) ∧
        (vals.map (·.1) = g.map (·.1.alias)) ∧
        ∀ e ∈ (Spec.completeFields o ty g p).2.errs, e ∈ (Spec.completeFields o ty fs p).2.errs := by
  intro g
  induction g with
  | nil => intro _; exact ⟨[], by simp [Spec.completeFields], by simp, by simp, by simp [Spec.completeFields]⟩
  | cons f rest ih =>
    intro hg
    obtain ⟨v, h1, h2, h3⟩ := plain_some_field o ty p fs plainVals h f (hg f (by simp))
    obtain ⟨vals, i1, i2, i3, i4⟩ := ih (fun x hx => hg x (by simp [hx]))
    rw [completeFields_cons, h1, i1]
    refine ⟨(f.1.alias, v) :: vals, rfl, ?_, by simp [i3], ?_⟩
    · intro kv hkv
      rcases List.mem_cons.mp hkv with rfl | hkv
      · exact h2
      · exact i2 kv hkv
    · intro e he
      simp only [St.append_errs, List.mem_append] at he
      rcases he with he | he
      · exact h3 e he
      · exact i4 e he


/-! ### without deferred fields the defer model is the plain mechanism -/

mutual
def Shape.noDefer : Shape → Prop
  | .leaf _ => True
  | .obj _ _ cases => casesNoDefer cases
  | .list _ _ e => e.noDefer
def casesNoDefer : List (String × List (FInfo × Shape)) → Prop
  | [] => True
  | (_, fs) :: rest => fieldsNoDefer fs ∧ casesNoDefer rest
def fieldsNoDefer : List (FInfo × Shape) → Prop
  | [] => True
  | (fi, sh) :: rest => fi.deferred = none ∧ sh.noDefer ∧ fieldsNoDefer rest
end

theorem groupByLabel_noDefer : ∀ (fields : List (FInfo × Shape)) (acc : List (String × List (FInfo × Shape))),
    fieldsNoDefer fields → D.groupByLabel fields acc = acc
  | [], _, _ => rfl
  | (fi, sh) :: rest, acc, h => by
    simp only [fieldsNoDefer] at h
    simp only [D.groupByLabel, h.1]
    have : (if fi.name == "__typename" || fi.plain then (none : Option String) else none) = none := by split <;> rfl
    rw [this]
    exact groupByLabel_noDefer rest acc h.2.2

mutual
theorem D_value (o : Oracle) : ∀ (sh : Shape) (v : V) (p : Path) (d : DSt), sh.noDefer →
    D.completeValue o sh v p d =
      ((Impl.completeValue o sh v p d.st).1, { d with st := (Impl.completeValue o sh v p d.st).2 })
  | .leaf nn, v, p, d, _ => by
    cases v <;> simp [D.completeValue, Impl.completeValue, D.lift]
  | .obj nn ifc cases, v, p, d, h => by
    cases v with
    | obj ty =>
      simp only [D.completeValue, Impl.completeValue]
      have hc := D_cases o ty cases p d (by simpa [Shape.noDefer] using h)
      cases hi : Impl.completeCases o ty cases p d.st with
      | none => rw [hi] at hc; rw [hc]; simp [D.lift]
      | some r => rw [hi] at hc; rw [hc]
    | null => simp [D.completeValue, Impl.completeValue]
    | leaf t => simp [D.completeValue, Impl.completeValue, D.lift]
    | list vs => simp [D.completeValue, Impl.completeValue, D.lift]
  | .list nn ec elem, v, p, d, h => by
    cases v with
    | list vs =>
      simp only [D.completeValue, Impl.completeValue]
      rw [D_elems o elem ec vs p 0 d (by simpa [Shape.noDefer] using h)]
    | null => cases nn <;> simp [D.completeValue, Impl.completeValue]
    | leaf t => simp [D.completeValue, Impl.completeValue, D.lift]
    | obj ty => simp [D.completeValue, Impl.completeValue, D.lift]

theorem D_cases (o : Oracle) (ty : String) : ∀ (cases : List (String × List (FInfo × Shape))) (p : Path)
    (d : DSt), casesNoDefer cases →
    D.completeCases o ty cases p d =
      match Impl.completeCases o ty cases p d.st with
      | some r => some (if r.2.1 > 0 then Out.null else Out.obj r.1, { d with st := r.2.2 })
      | none => none
  | [], _, _, _ => by simp [D.completeCases, Impl.completeCases]
  | (c, fields) :: rest, p, d, h => by
    simp only [casesNoDefer] at h
    simp only [D.completeCases, Impl.completeCases]
    by_cases hc : (c == ty) = true
    · simp only [hc, ↓reduceIte]
      rw [D_fields o ty false fields p d h.1]
      simp only [groupByLabel_noDefer fields [] h.1, List.map_nil, List.append_nil]
      split <;> rfl
    · simp only [hc, Bool.false_eq_true, ↓reduceIte]
      exact D_cases o ty rest p d h.2

theorem D_fields (o : Oracle) (ty : String) (b : Bool) : ∀ (fields : List (FInfo × Shape)) (p : Path) (d : DSt),
    fieldsNoDefer fields →
    D.completeFields o ty b fields p d =
      ((Impl.completeFields o ty fields p d.st).1, (Impl.completeFields o ty fields p d.st).2.1,
        { d with st := (Impl.completeFields o ty fields p d.st).2.2 })
  | [], _, _, _ => by simp [D.completeFields, Impl.completeFields]
  | (fi, sh) :: rest, p, d, h => by
    simp only [fieldsNoDefer] at h
    simp only [D.completeFields, Impl.completeFields, h.1, Option.isSome_none, Bool.false_and, Bool.and_false,
      Bool.false_eq_true, ↓reduceIte]
    by_cases ht : (fi.name == "__typename") = true
    · simp only [ht, ↓reduceIte]
      rw [D_fields o ty b rest p d h.2.2]
    · simp only [ht, Bool.false_eq_true, ↓reduceIte]
      rw [D_field o fi sh (p ++ [Seg.key fi.alias]) d h.2.1]
      rw [D_fields o ty b rest p _ h.2.2]

theorem D_field (o : Oracle) (fi : FInfo) : ∀ (sh : Shape) (p : Path) (d : DSt), sh.noDefer →
    D.completeField o fi sh p d =
      ((Impl.completeField o fi sh p d.st).1, { d with st := (Impl.completeField o fi sh p d.st).2 })
  | sh, p, d, h => by
    simp only [D.completeField, Impl.completeField]
    cases Impl.runDirs o p fi.dirs.reverse d.st with
    | mk c st1 =>
      cases c with
      | reached =>
        simp only []
        cases o.outcome fi p with
        | val v =>
          simp only []
          split
          · rfl
          · rw [D_value o sh v p _ h]
        | _ => rfl
      | _ => rfl

theorem D_elems (o : Oracle) : ∀ (elem : Shape) (ec : Bool) (vs : List V) (p : Path) (i : Nat) (d : DSt),
    elem.noDefer →
    D.completeElems o elem ec vs p i d =
      ((Impl.completeElems o elem ec vs p i d.st).1, { d with st := (Impl.completeElems o elem ec vs p i d.st).2 })
  | _, _, [], _, _, _, _ => by simp [D.completeElems, Impl.completeElems]
  | elem, ec, v :: rest, p, i, d, h => by
    simp only [D.completeElems, Impl.completeElems]
    split
    · cases rest.any V.isNull with
      | true =>
        simp only [↓reduceIte]
        rw [D_elems o elem ec rest p (i + 1) _ h]
      | false =>
        simp only [Bool.false_eq_true, ↓reduceIte, D.lift]
        rw [D_elems o elem ec rest p (i + 1) _ h]
    · rw [D_value o elem v _ d h]
      rw [D_elems o elem ec rest p (i + 1) _ h]
end


end GqlgenVerif
