import GqlgenVerif.Model.Apq
/-! Helper lemmas for C15: unfolding equations of `step`, `runAll` over append, list lemmas of the LRU model. -/
namespace GqlgenVerif.Apq

variable {σ Text Hash : Type} [DecidableEq Hash]
variable (H : Text → Hash) (C : CacheImpl σ Text Hash)

/-! ### `step`, case by case -/

theorem step_absent (s : σ) (q : Option Text) :
    step H C s ⟨q, .absent⟩ = ⟨s, .run q, []⟩ := rfl

theorem step_malformed (s : σ) (q : Option Text) :
    step H C s ⟨q, .malformed⟩ = ⟨s, .invalidExt, []⟩ := rfl

theorem step_badVersion (s : σ) (q : Option Text) (v : Int) (h : Hash) (hv : v ≠ 1) :
    step H C s ⟨q, .decoded v h⟩ = ⟨s, .badVersion, []⟩ := by
  simp [step, hv]

theorem step_miss (s : σ) (h : Hash) (hg : (C.get s h).1 = none) :
    step H C s ⟨none, .decoded 1 h⟩ = ⟨(C.get s h).2, .notFound, [.get h none]⟩ := by
  cases hc : C.get s h with
  | mk o s' =>
    rw [hc] at hg
    simp at hg
    subst hg
    simp [step, hc]

theorem step_hit (s : σ) (h : Hash) (t : Text) (hg : (C.get s h).1 = some t) :
    step H C s ⟨none, .decoded 1 h⟩ = ⟨(C.get s h).2, .run (some t), [.get h (some t)]⟩ := by
  cases hc : C.get s h with
  | mk o s' =>
    rw [hc] at hg
    simp at hg
    subst hg
    simp [step, hc]

theorem step_mismatch (s : σ) (h : Hash) (t : Text) (hh : H t ≠ h) :
    step H C s ⟨some t, .decoded 1 h⟩ = ⟨s, .mismatch, []⟩ := by
  simp [step, hh]

theorem step_register (s : σ) (h : Hash) (t : Text) (hh : H t = h) :
    step H C s ⟨some t, .decoded 1 h⟩ = ⟨C.add s h t, .run (some t), [.add h t]⟩ := by
  simp [step, hh]

/-! ### histories -/

theorem runAll_nil (s : σ) : runAll H C s [] = (s, []) := rfl

theorem runAll_cons (s : σ) (r : Req Text Hash) (rs : List (Req Text Hash)) :
    runAll H C s (r :: rs) =
      ((runAll H C (step H C s r).state rs).1, step H C s r :: (runAll H C (step H C s r).state rs).2) := rfl

theorem finalState_nil (s : σ) : finalState H C s [] = s := rfl

theorem finalState_cons (s : σ) (r : Req Text Hash) (rs : List (Req Text Hash)) :
    finalState H C s (r :: rs) = finalState H C (step H C s r).state rs := rfl

theorem outcomes_nil (s : σ) : outcomes H C s [] = [] := rfl

theorem outcomes_cons (s : σ) (r : Req Text Hash) (rs : List (Req Text Hash)) :
    outcomes H C s (r :: rs) = (step H C s r).out :: outcomes H C (step H C s r).state rs := rfl

theorem finalState_append (s : σ) (a b : List (Req Text Hash)) :
    finalState H C s (a ++ b) = finalState H C (finalState H C s a) b := by
  induction a generalizing s with
  | nil => rfl
  | cons r rs ih => simp [finalState_cons, ih]

theorem outcomes_append (s : σ) (a b : List (Req Text Hash)) :
    outcomes H C s (a ++ b) = outcomes H C s a ++ outcomes H C (finalState H C s a) b := by
  induction a generalizing s with
  | nil => rfl
  | cons r rs ih => simp [outcomes_cons, finalState_cons, ih]

theorem outcomes_length (s : σ) (a : List (Req Text Hash)) : (outcomes H C s a).length = a.length := by
  induction a generalizing s with
  | nil => rfl
  | cons r rs ih => simp [outcomes_cons, ih]

omit [DecidableEq Hash] in
theorem sentPairs_append (a b : List (Req Text Hash)) : sentPairs (a ++ b) = sentPairs a ++ sentPairs b := by
  induction a with
  | nil => rfl
  | cons r rs ih => simp [sentPairs, ih]

/-! ### recency list -/

theorem find_remove (k k' : Hash) (l : List (Hash × Text)) :
    find k' (remove k l) = if k' = k then none else find k' l := by
  induction l with
  | nil => simp [find, remove]
  | cons p r ih =>
    obtain ⟨a, v⟩ := p
    by_cases hak : a = k
    · subst hak
      by_cases hk : k' = a
      · subst hk; simp [remove, ih]
      · have : ¬ a = k' := fun e => hk e.symm
        simp [remove, find, ih, hk, this]
    · by_cases hk : k' = k
      · subst hk; simp [remove, find, hak, ih]
      · simp [remove, find, hak, ih, hk]

theorem find_dropOldest (k : Hash) (v : Text) (l : List (Hash × Text)) :
    find k (dropOldest l) = some v → find k l = some v := by
  induction l using dropOldest.induct with
  | case1 => simp [dropOldest, find]
  | case2 x => simp [dropOldest, find]
  | case3 x y r ih =>
    obtain ⟨a, w⟩ := x
    simp only [dropOldest, find]
    by_cases h : a = k
    · simp [h]
    · simp only [h, if_false]; exact ih

theorem length_remove_le (k : Hash) (l : List (Hash × Text)) : (remove k l).length ≤ l.length := by
  induction l with
  | nil => simp [remove]
  | cons p r ih =>
    obtain ⟨a, v⟩ := p
    by_cases h : a = k <;> simp [remove, h] <;> omega

theorem length_remove_lt (k : Hash) (v : Text) (l : List (Hash × Text)) (h : find k l = some v) :
    (remove k l).length < l.length := by
  induction l with
  | nil => simp [find] at h
  | cons p r ih =>
    obtain ⟨a, w⟩ := p
    by_cases hak : a = k
    · have := length_remove_le k r
      simp [remove, hak]; omega
    · simp [find, hak] at h
      have := ih h
      simp [remove, hak]; omega

omit [DecidableEq Hash] in
theorem length_dropOldest (l : List (Hash × Text)) : (dropOldest l).length = l.length - 1 := by
  induction l using dropOldest.induct with
  | case1 => rfl
  | case2 x => rfl
  | case3 x y r ih => simp [dropOldest, ih]

/-! ### the cache invariant and its preservation by one step -/

/-- every binding a lookup can return maps a hash to a text with that hash that was sent with it -/
def Inv (sent : List (Text × Hash)) (view : Hash → Option Text) : Prop :=
  ∀ h t, view h = some t → H t = h ∧ (t, h) ∈ sent

omit [DecidableEq Hash] in
theorem Inv.mono {sent sent' : List (Text × Hash)} {view : Hash → Option Text}
    (hi : Inv H sent view) (hs : ∀ p, p ∈ sent → p ∈ sent') : Inv H sent' view :=
  fun h t hv => ⟨(hi h t hv).1, hs _ (hi h t hv).2⟩

theorem step_inv {view : σ → Hash → Option Text} (law : Lawful C view)
    (sent : List (Text × Hash)) (s : σ) (r : Req Text Hash) (hi : Inv H sent (view s)) :
    Inv H (sent ++ sentOf r) (view (step H C s r).state) := by
  have keep : Inv H (sent ++ sentOf r) (view s) := hi.mono H (fun p hp => List.mem_append_left _ hp)
  obtain ⟨q, e⟩ := r
  cases e with
  | absent => simpa [step_absent] using keep
  | malformed => simpa [step_malformed] using keep
  | decoded v h =>
    by_cases hv : v = 1
    · subst hv
      cases q with
      | none =>
        cases hg : (C.get s h).1 with
        | none =>
          rw [step_miss H C s h hg]
          intro k t hk
          exact keep k t (law.get_mono s h k t hk)
        | some t0 =>
          rw [step_hit H C s h t0 hg]
          intro k t hk
          exact keep k t (law.get_mono s h k t hk)
      | some t =>
        by_cases hh : H t = h
        · rw [step_register H C s h t hh]
          intro k t' hk
          rcases law.add_law s h t k t' hk with ⟨rfl, rfl⟩ | ⟨_, hold⟩
          · exact ⟨hh, by simp [sentOf]⟩
          · exact keep k t' hold
        · rw [step_mismatch H C s h t hh]; exact keep
    · rw [step_badVersion H C s q v h hv]; exact keep

theorem runAll_inv {view : σ → Hash → Option Text} (law : Lawful C view)
    (sent : List (Text × Hash)) (s : σ) (rs : List (Req Text Hash)) (hi : Inv H sent (view s)) :
    Inv H (sent ++ sentPairs rs) (view (finalState H C s rs)) := by
  induction rs generalizing s sent with
  | nil => simpa [finalState_nil, sentPairs] using hi
  | cons r rs ih =>
    have := ih (sent ++ sentOf r) (step H C s r).state (step_inv H C law sent s r hi)
    simpa [finalState_cons, sentPairs, List.append_assoc] using this

end GqlgenVerif.Apq
