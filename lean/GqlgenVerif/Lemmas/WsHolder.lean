import GqlgenVerif.Model.WsHolder
/-! Helper lemmas for the error-holder model (C07): with a holder installed per operation, every event touches
only what its own operation sees. -/
namespace GqlgenVerif.WsHolder

/-- well-formed state: holders referred to exist, and no two operations refer to the same one -/
structure WF (s : St) : Prop where
  bound : ∀ o h, s.ops o = some h → h < s.holders.length
  inj : ∀ o o' h, s.ops o = some h → s.ops o' = some h → o = o'

theorem wf_init (p : Policy) : WF (init p) :=
  ⟨by intro o h hh; simp [init] at hh, by intro o o' h hh; simp [init] at hh⟩

/-- the effect of one event of the always-install policy, as seen by each operation `j`:
its holder (`held`) and its terminating frames (`framesOf`) change only by events of `j` itself -/
theorem step_always (p : Policy) (hp : p.install = .always) (s : St) (hs : WF s) (e : Ev) :
    WF (step p s e) ∧
    (∀ j, j ≠ e.op → held (step p s e) j = held s j ∧ framesOf j (step p s e).out = framesOf j s.out) ∧
    held (step p s e) e.op = (match e with
      | .start _ => some []
      | .addErr _ x => (held s e.op).map (· ++ [x])
      | .finish _ => held s e.op) ∧
    (step p s e).out = (match e with
      | .finish o => s.out ++ [(o, held s o)]
      | _ => s.out) := by
  cases e with
  | start o =>
    have hstep : step p s (.start o) = { s with holders := s.holders ++ [[]], ops := bind s.ops o (some s.holders.length) } := by
      simp [step, hp]
    rw [hstep]
    refine ⟨⟨?_, ?_⟩, ?_, ?_, rfl⟩
    · intro o' h hh
      simp only [bind] at hh
      split at hh
      · cases hh; simp
      · have := hs.bound o' h hh; simp; omega
    · intro o1 o2 h h1 h2
      simp only [bind] at h1 h2
      split at h1 <;> split at h2
      · omega
      · cases h1; have := hs.bound o2 _ h2; omega
      · cases h2; have := hs.bound o1 _ h1; omega
      · exact hs.inj o1 o2 h h1 h2
    · intro j hj
      simp only [Ev.op] at hj
      refine ⟨?_, rfl⟩
      simp only [held, bind, hj, if_false]
      cases hh : s.ops j with
      | none => rfl
      | some h =>
        simp only [Option.bind]
        exact List.getElem?_append_left (hs.bound j h hh)
    · simp [held, bind, Ev.op]
  | addErr o x =>
    cases ho : s.ops o with
    | none =>
      have hstep : step p s (.addErr o x) = s := by simp [step, ho]
      rw [hstep]
      refine ⟨hs, fun j _ => ⟨rfl, rfl⟩, ?_, rfl⟩
      simp [held, ho, Ev.op]
    | some h =>
      have hstep : step p s (.addErr o x) = { s with holders := s.holders.set h ((s.holders.getD h []) ++ [x]) } := by
        simp [step, ho]
      rw [hstep]
      have hb := hs.bound o h ho
      refine ⟨⟨?_, hs.inj⟩, ?_, ?_, rfl⟩
      · intro o' h' hh; simp only [List.length_set]; exact hs.bound o' h' hh
      · intro j hj
        simp only [Ev.op] at hj
        refine ⟨?_, rfl⟩
        simp only [held]
        cases hh : s.ops j with
        | none => rfl
        | some h' =>
          have hne : h ≠ h' := by
            intro heq; subst heq
            exact hj (hs.inj j o h hh ho)
          simp only [Option.bind]
          exact List.getElem?_set_ne hne
      · simp only [held, ho, Option.bind, Ev.op]
        rw [List.getElem?_set_self hb, List.getD_eq_getElem?_getD]
        obtain ⟨a, ha⟩ : ∃ a, s.holders[h]? = some a := ⟨s.holders[h], List.getElem?_eq_getElem hb⟩
        simp [ha]
  | finish o =>
    have hstep : step p s (.finish o) = { s with out := s.out ++ [(o, held s o)] } := rfl
    rw [hstep]
    refine ⟨⟨hs.bound, hs.inj⟩, ?_, rfl, rfl⟩
    intro j hj
    simp only [Ev.op] at hj
    refine ⟨rfl, ?_⟩
    simp only [framesOf, List.filter_append]
    have : (List.filter (fun f : Nat × Option (List String) => f.1 == j) [(o, held s o)]) = [] := by
      have : (o == j) = false := by
        cases h : o == j
        · rfl
        · exact absurd (by simpa using h : o = j).symm hj
      simp [this]
    rw [this, List.append_nil]

/-- two connections on which operation `o` sees the same holder content and has received the same frames stay
that way when the first serves any events and the second only those of `o` -/
theorem run_only (p : Policy) (hp : p.install = .always) (o : Nat) (evs : List Ev) :
    ∀ (s t : St), WF s → WF t → held s o = held t o → framesOf o s.out = framesOf o t.out →
      framesOf o (runFrom p s evs).out = framesOf o (runFrom p t (only o evs)).out := by
  induction evs with
  | nil => intro s t _ _ _ h; simpa [runFrom, only] using h
  | cons e evs ih =>
    intro s t hs ht hh hf
    obtain ⟨ws, os, hs', outs⟩ := step_always p hp s hs e
    by_cases he : e.op = o
    · have hon : only o (e :: evs) = e :: only o evs := by simp [only, he]
      rw [hon]
      obtain ⟨wt, _, ht', outt⟩ := step_always p hp t ht e
      simp only [runFrom, List.foldl_cons]
      apply ih _ _ ws wt
      · rw [← he, hs', ht']
        cases e <;> simp only [Ev.op] at he ⊢ <;> subst he <;> simp [hh]
      · rw [outs, outt]
        cases e with
        | start _ => exact hf
        | addErr _ _ => exact hf
        | finish o' =>
          simp only [Ev.op] at he; subst he
          simp only [framesOf, List.filter_append] at hf ⊢
          rw [hf, hh]
    · have hon : only o (e :: evs) = only o evs := by
        have : (e.op == o) = false := by
          cases h : e.op == o
          · rfl
          · exact absurd (by simpa using h) he
        simp [only, this]
      rw [hon]
      simp only [runFrom, List.foldl_cons]
      have hne : o ≠ e.op := fun h => he h.symm
      apply ih _ _ ws ht
      · rw [(os o hne).1]; exact hh
      · rw [(os o hne).2]; exact hf

/-- a connection that only ever served operation `o` has sent frames of `o` only -/
theorem out_only (p : Policy) (o : Nat) (evs : List Ev) :
    ∀ (s : St), (∀ f ∈ s.out, f.1 = o) → (∀ e ∈ evs, e.op = o) → ∀ f ∈ (runFrom p s evs).out, f.1 = o := by
  induction evs with
  | nil => intro s h _; simpa [runFrom] using h
  | cons e evs ih =>
    intro s h he
    simp only [runFrom, List.foldl_cons]
    apply ih
    · cases e with
      | start o' =>
        simp only [step]
        split <;> exact h
      | addErr o' x =>
        simp only [step]
        split <;> exact h
      | finish o' =>
        intro f hf
        simp only [step, List.mem_append, List.mem_singleton] at hf
        rcases hf with hf | hf
        · exact h f hf
        · subst hf
          exact he (.finish o') (List.mem_cons_self ..)
    · intro e' he'; exact he e' (List.mem_cons_of_mem _ he')

end GqlgenVerif.WsHolder
