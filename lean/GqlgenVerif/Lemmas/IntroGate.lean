import GqlgenVerif.Model.IntroGate
import GqlgenVerif.Lemmas.Exec
import GqlgenVerif.Lemmas.ExecLocal
/-! Helper lemmas for the disabled-introspection half of C16 (over the C01 execution model). -/
namespace GqlgenVerif.IntroGate
open GqlgenVerif Spec

theorem gated_ne_typename {n : String} (h : isGated n = true) : (n == "__typename") = false := by
  simp only [isGated, gatedNames, List.contains_cons, List.contains_nil, Bool.or_false, Bool.or_eq_true,
    beq_iff_eq] at h
  rcases h with rfl | rfl | rfl <;> decide

/-- `Impl = Spec` at the root (as `C01.exec_eq_spec`, re-derived from `fields_rel` so that this property
    does not import another property's theorem file) -/
theorem exec_eq_spec (o : Oracle) (rootTy : String) (fields : List (FInfo × Shape))
    (hwf : fieldsWF fields) :
    Impl.execRoot o rootTy fields = Spec.execRoot o rootTy fields := by
  have h := fields_rel o rootTy fields [] {} hwf (by intro f _ x hx; simp at hx)
  obtain ⟨h1, h2, h3, _⟩ := h
  unfold Impl.execRoot Spec.execRoot
  simp only [St.empty_append] at h1
  cases hs : (Spec.completeFields o rootTy fields []).1 with
  | none =>
    have : (Impl.completeFields o rootTy fields [] {}).2.1 > 0 := h2.mpr hs
    simp [this, h1, hs]
  | some os =>
    have h0 : ¬ (Impl.completeFields o rootTy fields [] {}).2.1 > 0 := fun h => by
      have := h2.mp h; rw [hs] at this; cases this
    simp [h0, h1, h3 os hs, hs]

/-- a field without schema directives whose bound method fails: null (or propagate) with that error -/
theorem spec_gated_field (o : Oracle) (fi : FInfo) (sh : Shape) (p : Path) (m : String)
    (hd : fi.dirs = []) (hp : fi.plain = false) (hr : o.res p = .err m) :
    Spec.completeField o fi sh p = (Spec.failed sh.nn, eff [⟨p, m⟩] [(pathStr p, "resolver")]) := by
  simp [Spec.completeField, hd, Impl.runDirs, Oracle.outcome, hp, hr]

theorem alias_unique : ∀ (fields : List (FInfo × Shape)), fieldsWF fields →
    ∀ f g, f ∈ fields → g ∈ fields → f.1.alias = g.1.alias → f = g
  | [], _, f, _, hf, _, _ => by simp at hf
  | (fi, sh) :: rest, hwf, f, g, hf, hg, h => by
    simp only [fieldsWF] at hwf
    rcases List.mem_cons.mp hf with rfl | hf' <;> rcases List.mem_cons.mp hg with rfl | hg'
    · rfl
    · exact absurd h.symm (hwf.1 g hg')
    · exact absurd h (hwf.1 f hf')
    · exact alias_unique rest hwf.2.2 f g hf' hg' h

theorem gatedAt_self (fields : List (FInfo × Shape)) (hwf : fieldsWF fields) (fi : FInfo) (sh : Shape)
    (hmem : (fi, sh) ∈ fields) (hg : isGated fi.name = true) : gatedAt fields fi.alias = some fi := by
  unfold gatedAt
  cases hf : fields.find? (fun f => f.1.alias == fi.alias && isGated f.1.name) with
  | none =>
    have := List.find?_eq_none.mp hf (fi, sh) hmem
    simp [hg] at this
  | some f' =>
    have hp := List.find?_some hf
    have hm := List.mem_of_find?_eq_some hf
    simp only [Bool.and_eq_true, beq_iff_eq] at hp
    have := alias_unique fields hwf f' (fi, sh) hm hmem hp.1
    simp [this]

theorem gatedAt_none (fields : List (FInfo × Shape)) (hwf : fieldsWF fields) (fi : FInfo) (sh : Shape)
    (hmem : (fi, sh) ∈ fields) (hg : isGated fi.name = false) : gatedAt fields fi.alias = none := by
  unfold gatedAt
  cases hf : fields.find? (fun f => f.1.alias == fi.alias && isGated f.1.name) with
  | none => rfl
  | some f' =>
    have hp := List.find?_some hf
    have hm := List.mem_of_find?_eq_some hf
    simp only [Bool.and_eq_true, beq_iff_eq] at hp
    have := alias_unique fields hwf f' (fi, sh) hm hmem hp.1
    subst this
    simp [hg] at hp

/-- the head field's result in `Spec.completeFields` -/
def headRes (o : Oracle) (ty : String) (fj : FInfo) (shj : Shape) (p : Path) : Option Out × St :=
  if fj.name == "__typename" then (some (Out.leaf (quoteTypename ty)), ({} : St))
  else Spec.completeField o fj shj (p ++ [.key fj.alias])

theorem completeFields_cons (o : Oracle) (ty : String) (fj : FInfo) (shj : Shape)
    (rest : List (FInfo × Shape)) (p : Path) :
    Spec.completeFields o ty ((fj, shj) :: rest) p =
      (match (headRes o ty fj shj p).1, (Spec.completeFields o ty rest p).1 with
        | some x, some xs => some ((fj.alias, x) :: xs)
        | _, _ => none,
       (headRes o ty fj shj p).2.append (Spec.completeFields o ty rest p).2) := by
  unfold headRes
  rw [Spec.completeFields]
  rfl

/-- in a selection set whose gated fields fail with the gate's error, every gated field is null (or
    nulls the set) and its error is reported at its path -/
theorem spec_fields_gated (o : Oracle) (ty : String) (p : Path) :
    ∀ fields : List (FInfo × Shape),
      (∀ f ∈ fields, isGated f.1.name = true →
        f.1.dirs = [] ∧ f.1.plain = false ∧ o.res (p ++ [.key f.1.alias]) = .err (gateMsg f.1.name)) →
      ∀ fi sh, (fi, sh) ∈ fields → isGated fi.name = true →
        (⟨p ++ [.key fi.alias], gateMsg fi.name⟩ : Err) ∈ (Spec.completeFields o ty fields p).2.errs ∧
        (∀ os, (Spec.completeFields o ty fields p).1 = some os → (fi.alias, Out.null) ∈ os) ∧
        (sh.nn = true → (Spec.completeFields o ty fields p).1 = none)
  | [], _, _, _, hm, _ => by simp at hm
  | (fj, shj) :: rest, hall, fi, sh, hm, hg => by
    rw [completeFields_cons]
    rcases List.mem_cons.mp hm with heq | hrest
    · cases heq
      have hh := hall (fj, shj) (by simp) hg
      have hr : headRes o ty fj shj p =
          (Spec.failed shj.nn, eff [⟨p ++ [.key fj.alias], gateMsg fj.name⟩]
            [(pathStr (p ++ [.key fj.alias]), "resolver")]) := by
        unfold headRes
        rw [gated_ne_typename hg]
        simp only [Bool.false_eq_true, if_false]
        exact spec_gated_field o fj shj _ _ hh.1 hh.2.1 hh.2.2
      rw [hr]
      refine ⟨by simp, ?_, ?_⟩
      · intro os hos
        cases hnn : shj.nn <;> cases hrs : (Spec.completeFields o ty rest p).1 <;>
          simp [Spec.failed, hnn, hrs] at hos
        subst hos; simp
      · intro hnn
        simp [Spec.failed, hnn]
    · have ih := spec_fields_gated o ty p rest (fun f hf => hall f (by simp [hf])) fi sh hrest hg
      obtain ⟨i1, i2, i3⟩ := ih
      generalize headRes o ty fj shj p = r1
      obtain ⟨r11, r12⟩ := r1
      refine ⟨by simp [i1], ?_, ?_⟩
      · intro os hos
        cases r11 <;> cases hrs : (Spec.completeFields o ty rest p).1 <;> simp [hrs] at hos
        subst hos
        exact List.mem_cons_of_mem _ (i2 _ hrs)
      · intro hnn
        rw [i3 hnn]
        cases r11 <;> rfl

theorem gatedNoDirs_mem {fields : List (FInfo × Shape)} (h : gatedNoDirs fields = true)
    {f : FInfo × Shape} (hf : f ∈ fields) (hg : isGated f.1.name = true) :
    f.1.dirs = [] ∧ f.1.plain = false := by
  have := List.all_eq_true.mp h f hf
  simpa [hg] using this

theorem gateOracle_res_gated (fields : List (FInfo × Shape)) (hwf : fieldsWF fields) (o : Oracle)
    (fi : FInfo) (sh : Shape) (hmem : (fi, sh) ∈ fields) (hg : isGated fi.name = true) :
    (gateOracle fields o).res [.key fi.alias] = .err (gateMsg fi.name) := by
  simp [gateOracle, gatedAt_self fields hwf fi sh hmem hg]

/-! locality (completion of a position consults user code only at paths under that position) is
    `Lemmas/ExecLocal.lean: field_local` over `AgreeUnder`. -/

theorem gateOracle_res_other (fields : List (FInfo × Shape)) (o : Oracle) (q : Path)
    (h : ∀ k, q = [.key k] → gatedAt fields k = none) : (gateOracle fields o).res q = o.res q := by
  unfold gateOracle
  match q with
  | [] => rfl
  | [.key k] => simp [h k rfl]
  | [.idx _] => rfl
  | .key _ :: _ :: _ => rfl
  | .idx _ :: _ :: _ => rfl

/-- with the gate closed, the selection set's result is the same for any two oracles that agree
    outside the subtrees of the gated root fields -/
theorem spec_fields_noninterference (fields : List (FInfo × Shape)) (hwf : fieldsWF fields)
    (hnd : gatedNoDirs fields = true) (o1 o2 : Oracle)
    (h : ∀ q, (∀ f ∈ fields, isGated f.1.name = true → ¬ [Seg.key f.1.alias] <+: q) →
      o1.res q = o2.res q ∧ (∀ n, o1.dir q n = o2.dir q n) ∧
        ∀ n, o1.plain q.dropLast n = o2.plain q.dropLast n) (ty : String) :
    ∀ fs : List (FInfo × Shape), (∀ f ∈ fs, f ∈ fields) →
      Spec.completeFields (gateOracle fields o1) ty fs [] = Spec.completeFields (gateOracle fields o2) ty fs []
  | [], _ => by simp [Spec.completeFields]
  | (fj, shj) :: rest, hsub => by
    rw [completeFields_cons, completeFields_cons,
      spec_fields_noninterference fields hwf hnd o1 o2 h ty rest (fun f hf => hsub f (by simp [hf]))]
    have hmem : (fj, shj) ∈ fields := hsub _ (by simp)
    have hhead : headRes (gateOracle fields o1) ty fj shj [] = headRes (gateOracle fields o2) ty fj shj [] := by
      unfold headRes
      by_cases ht : (fj.name == "__typename") = true
      · simp [ht]
      · simp only [ht, Bool.false_eq_true, if_false]
        cases hg : isGated fj.name with
        | true =>
          have hd := gatedNoDirs_mem hnd hmem hg
          rw [spec_gated_field _ fj shj _ _ hd.1 hd.2 (by simpa using gateOracle_res_gated fields hwf o1 fj shj hmem hg),
            spec_gated_field _ fj shj _ _ hd.1 hd.2 (by simpa using gateOracle_res_gated fields hwf o2 fj shj hmem hg)]
        | false =>
          apply field_local
          intro q hq
          have hk : ∀ k, q = [Seg.key k] → gatedAt fields k = none := by
            intro k hk
            subst hk
            have : k = fj.alias := by
              obtain ⟨t, ht⟩ := hq
              simp only [List.nil_append, List.cons_append, List.cons.injEq, Seg.key.injEq] at ht
              exact ht.1.symm
            subst this
            exact gatedAt_none fields hwf fj shj hmem hg
          have hcond : ∀ f ∈ fields, isGated f.1.name = true → ¬ [Seg.key f.1.alias] <+: q := by
            intro f hf hgf hpf
            simp only [List.nil_append] at hq
            obtain ⟨t1, rfl⟩ := hq
            obtain ⟨t2, ht2⟩ := hpf
            simp only [List.cons_append, List.nil_append, List.cons.injEq, Seg.key.injEq] at ht2
            have := alias_unique fields hwf f (fj, shj) hf hmem ht2.1
            subst this
            simp [hg] at hgf
          have hh := h q hcond
          exact ⟨by rw [gateOracle_res_other fields o1 q hk, gateOracle_res_other fields o2 q hk]; exact hh.1,
            fun n => hh.2.1 n, fun n => hh.2.2 n⟩
    rw [hhead]

end GqlgenVerif.IntroGate
