import GqlgenVerif.Model.IntroGate
import GqlgenVerif.Lemmas.Exec
/-! Helper lemmas for the disabled-introspection half of C16 (over the C01 execution model). -/
namespace GqlgenVerif.IntroGate
open GqlgenVerif Spec

theorem gated_ne_typename {n : String} (h : isGated n = true) : (n == "__typename") = false := by
  simp only [isGated, gatedNames, List.contains_cons, List.contains_nil, Bool.or_false, Bool.or_eq_true,
    beq_iff_eq] at h
  rcases h with rfl | rfl | rfl <;> decide

/-- `Impl = Spec` at the root (as `C01.exec_eq_spec`, re-derived from `fields_rel` so that this property
    does not import another property's theorem file) -/
theorem exec_eq_spec (o : Oracle) (rootTy : String) (fields : List (FInfo × Shape))
    (hwf : fieldsWF fields) :
    Impl.execRoot o rootTy fields = Spec.execRoot o rootTy fields := by
  have h := fields_rel o rootTy fields [] {} hwf (by intro f _ x hx; simp at hx)
  obtain ⟨h1, h2, h3, _⟩ := h
  unfold Impl.execRoot Spec.execRoot
  simp only [St.empty_append] at h1
  cases hs : (Spec.completeFields o rootTy fields []).1 with
  | none =>
    have : (Impl.completeFields o rootTy fields [] {}).2.1 > 0 := h2.mpr hs
    simp [this, h1, hs]
  | some os =>
    have h0 : ¬ (Impl.completeFields o rootTy fields [] {}).2.1 > 0 := fun h => by
      have := h2.mp h; rw [hs] at this; cases this
    simp [h0, h1, h3 os hs, hs]

/-- a field without schema directives whose bound method fails: null (or propagate) with that error -/
theorem spec_gated_field (o : Oracle) (fi : FInfo) (sh : Shape) (p : Path) (m : String)
    (hd : fi.dirs = []) (hr : o.res p = .err m) :
    Spec.completeField o fi sh p = (Spec.failed sh.nn, eff [⟨p, m⟩] [(pathStr p, "resolver")]) := by
  simp [Spec.completeField, hd, Impl.runDirs, hr]

theorem alias_unique : ∀ (fields : List (FInfo × Shape)), fieldsWF fields →
    ∀ f g, f ∈ fields → g ∈ fields → f.1.alias = g.1.alias → f = g
  | [], _, f, _, hf, _, _ => by simp at hf
  | (fi, sh) :: rest, hwf, f, g, hf, hg, h => by
    simp only [fieldsWF] at hwf
    rcases List.mem_cons.mp hf with rfl | hf' <;> rcases List.mem_cons.mp hg with rfl | hg'
    · rfl
    · exact absurd h.symm (hwf.1 g hg')
    · exact absurd h (hwf.1 f hf')
    · exact alias_unique rest hwf.2.2 f g hf' hg' h

theorem gatedAt_self (fields : List (FInfo × Shape)) (hwf : fieldsWF fields) (fi : FInfo) (sh : Shape)
    (hmem : (fi, sh) ∈ fields) (hg : isGated fi.name = true) : gatedAt fields fi.alias = some fi := by
  unfold gatedAt
  cases hf : fields.find? (fun f => f.1.alias == fi.alias && isGated f.1.name) with
  | none =>
    have := List.find?_eq_none.mp hf (fi, sh) hmem
    simp [hg] at this
  | some f' =>
    have hp := List.find?_some hf
    have hm := List.mem_of_find?_eq_some hf
    simp only [Bool.and_eq_true, beq_iff_eq] at hp
    have := alias_unique fields hwf f' (fi, sh) hm hmem hp.1
    simp [this]

theorem gatedAt_none (fields : List (FInfo × Shape)) (hwf : fieldsWF fields) (fi : FInfo) (sh : Shape)
    (hmem : (fi, sh) ∈ fields) (hg : isGated fi.name = false) : gatedAt fields fi.alias = none := by
  unfold gatedAt
  cases hf : fields.find? (fun f => f.1.alias == fi.alias && isGated f.1.name) with
  | none => rfl
  | some f' =>
    have hp := List.find?_some hf
    have hm := List.mem_of_find?_eq_some hf
    simp only [Bool.and_eq_true, beq_iff_eq] at hp
    have := alias_unique fields hwf f' (fi, sh) hm hmem hp.1
    subst this
    simp [hg] at hp

/-- the head field's result in `Spec.completeFields` -/
def headRes (o : Oracle) (ty : String) (fj : FInfo) (shj : Shape) (p : Path) : Option Out × St :=
  if fj.name == "__typename" then (some (Out.leaf (quoteTypename ty)), ({} : St))
  else Spec.completeField o fj shj (p ++ [.key fj.alias])

theorem completeFields_cons (o : Oracle) (ty : String) (fj : FInfo) (shj : Shape)
    (rest : List (FInfo × Shape)) (p : Path) :
    Spec.completeFields o ty ((fj, shj) :: rest) p =
      (match (headRes o ty fj shj p).1, (Spec.completeFields o ty rest p).1 with
        | some x, some xs => some ((fj.alias, x) :: xs)
        | _, _ => none,
       (headRes o ty fj shj p).2.append (Spec.completeFields o ty rest p).2) := by
  unfold headRes
  rw [Spec.completeFields]
  rfl

/-- in a selection set whose gated fields fail with the gate's error, every gated field is null (or
    nulls the set) and its error is reported at its path -/
theorem spec_fields_gated (o : Oracle) (ty : String) (p : Path) :
    ∀ fields : List (FInfo × Shape),
      (∀ f ∈ fields, isGated f.1.name = true →
        f.1.dirs = [] ∧ o.res (p ++ [.key f.1.alias]) = .err (gateMsg f.1.name)) →
      ∀ fi sh, (fi, sh) ∈ fields → isGated fi.name = true →
        (⟨p ++ [.key fi.alias], gateMsg fi.name⟩ : Err) ∈ (Spec.completeFields o ty fields p).2.errs ∧
        (∀ os, (Spec.completeFields o ty fields p).1 = some os → (fi.alias, Out.null) ∈ os) ∧
        (sh.nn = true → (Spec.completeFields o ty fields p).1 = none)
  | [], _, _, _, hm, _ => by simp at hm
  | (fj, shj) :: rest, hall, fi, sh, hm, hg => by
    rw [completeFields_cons]
    rcases List.mem_cons.mp hm with heq | hrest
    · cases heq
      have hh := hall (fj, shj) (by simp) hg
      have hr : headRes o ty fj shj p =
          (Spec.failed shj.nn, eff [⟨p ++ [.key fj.alias], gateMsg fj.name⟩]
            [(pathStr (p ++ [.key fj.alias]), "resolver")]) := by
        unfold headRes
        rw [gated_ne_typename hg]
        simp only [Bool.false_eq_true, if_false]
        exact spec_gated_field o fj shj _ _ hh.1 hh.2
      rw [hr]
      refine ⟨by simp, ?_, ?_⟩
      · intro os hos
        cases hnn : shj.nn <;> cases hrs : (Spec.completeFields o ty rest p).1 <;>
          simp [Spec.failed, hnn, hrs] at hos
        subst hos; simp
      · intro hnn
        simp [Spec.failed, hnn]
    · have ih := spec_fields_gated o ty p rest (fun f hf => hall f (by simp [hf])) fi sh hrest hg
      obtain ⟨i1, i2, i3⟩ := ih
      generalize headRes o ty fj shj p = r1
      obtain ⟨r11, r12⟩ := r1
      refine ⟨by simp [i1], ?_, ?_⟩
      · intro os hos
        cases r11 <;> cases hrs : (Spec.completeFields o ty rest p).1 <;> simp [hrs] at hos
        subst hos
        exact List.mem_cons_of_mem _ (i2 _ hrs)
      · intro hnn
        rw [i3 hnn]
        cases r11 <;> rfl

theorem gatedNoDirs_mem {fields : List (FInfo × Shape)} (h : gatedNoDirs fields = true)
    {f : FInfo × Shape} (hf : f ∈ fields) (hg : isGated f.1.name = true) : f.1.dirs = [] := by
  have := List.all_eq_true.mp h f hf
  simpa [hg] using this

theorem gateOracle_res_gated (fields : List (FInfo × Shape)) (hwf : fieldsWF fields) (o : Oracle)
    (fi : FInfo) (sh : Shape) (hmem : (fi, sh) ∈ fields) (hg : isGated fi.name = true) :
    (gateOracle fields o).res [.key fi.alias] = .err (gateMsg fi.name) := by
  simp [gateOracle, gatedAt_self fields hwf fi sh hmem hg]

end GqlgenVerif.IntroGate
