// Transports dimension of the C03 tie: every transport of graphql/handler/transport that calls
// CreateOperationContext carries generated requests to the SAME instrumented handler.Server. What a
// transport wrote (JSON body, SSE events, multipart/mixed parts, websocket frames of both
// sub-protocols) is read back into the observation format of the direct route:
//
//	answers = every response the client received, in order (an `error` frame counts as a response
//	          with errors only), followed by `nil` when the transport polled the handler to its end
//	          (stream terminated by complete / closing boundary) for a request that passed the gates
//
// so that the Lean model (`R`) and the Spec (`C`) judge them like any other request.
package main

import (
	"bytes"
	"context"
	"encoding/json"
	"fmt"
	"mime/multipart"
	"net/http"
	"net/http/httptest"
	"net/url"
	"strconv"
	"strings"
	"sync"
	"time"

	"github.com/gorilla/websocket"

	"github.com/99designs/gqlgen/graphql"
	"github.com/99designs/gqlgen/graphql/errcode"
	"github.com/99designs/gqlgen/graphql/handler"
	"github.com/99designs/gqlgen/graphql/handler/transport"
)

// vias: one entry per way a request can reach CreateOperationContext in graphql/handler/transport
// (the regenerated list Gen/TransportGates.lean is proved equal to the modelled list in Props/C03.lean)
var vias = []string{"post", "get", "form", "urlenc", "graphql", "sse", "mixed", "ws-graphql-ws", "ws-graphql-transport-ws"}

func streaming(via string) bool {
	return via == "sse" || via == "mixed" || strings.HasPrefix(via, "ws-")
}

// protocolKind: the codes of extensions whose id is divisible by 3 are registered as protocol-kind
// errors (errcode.RegisterErrorType), all other extension rejections are user-kind (the default), so
// that both arms of every `switch errcode.GetErrorKind(err)` of a transport see extension rejections.
func protocolKind(id int) bool { return id%3 == 0 }

func init() {
	for id := 0; id < 32; id++ {
		if protocolKind(id) {
			errcode.RegisterErrorType(fmt.Sprintf("C03_PM%d", id), errcode.KindProtocol)
			errcode.RegisterErrorType(fmt.Sprintf("C03_CM%d", id), errcode.KindProtocol)
		}
	}
}

func addTransports(srv *handler.Server) {
	srv.AddTransport(transport.Websocket{})
	srv.AddTransport(transport.SSE{})
	srv.AddTransport(transport.MultipartMixed{})
	srv.AddTransport(transport.GET{})
	srv.AddTransport(transport.POST{})
	srv.AddTransport(transport.MultipartForm{})
	srv.AddTransport(transport.UrlEncodedForm{})
	srv.AddTransport(transport.GRAPHQL{})
}

// feasible: can the transport carry this request unchanged (and does it execute what the executor accepted)?
func (s *session) feasible(r *request, via string) bool {
	v := classify(s.finalText(r))
	switch via {
	case "get":
		// transport.GET itself refuses non-query operations after the gates
		for _, o := range v.ops {
			if o.def.Operation != "query" {
				return false
			}
		}
	case "graphql":
		// the body is the query text only
		if r.op != "" || r.vars != "" || strings.HasPrefix(r.text, "query=") || strings.HasPrefix(r.text, "%7B") {
			return false
		}
	case "mixed":
		// later payloads are batched into `incremental` lists by a timer: one payload per request only
		for _, o := range v.ops {
			if o.sub {
				return false
			}
		}
	}
	return true
}

func (s *session) pickVia(r *request, want string) string {
	if s.feasible(r, want) {
		return want
	}
	return "post"
}

// ------------------------------------------------------------------ websocket plumbing

var (
	wsOnce   sync.Once
	wsServer *httptest.Server
	wsMu     sync.Mutex
	wsConns  = map[string]wsTarget{}
	wsSeq    int
)

type wsTarget struct {
	srv *handler.Server
	rl  *reqLog
}

func wsURL() string {
	wsOnce.Do(func() {
		wsServer = httptest.NewServer(http.HandlerFunc(func(w http.ResponseWriter, r *http.Request) {
			wsMu.Lock()
			t, ok := wsConns[r.Header.Get("X-C03-Conn")]
			wsMu.Unlock()
			if !ok {
				http.Error(w, "unknown connection", 400)
				return
			}
			t.srv.ServeHTTP(w, r.WithContext(context.WithValue(r.Context(), logKey{}, t.rl)))
		}))
	})
	return "ws" + strings.TrimPrefix(wsServer.URL, "http") + "/"
}

type frame struct {
	Type    string          `json:"type"`
	ID      string          `json:"id"`
	Payload json.RawMessage `json:"payload"`
}

// doWS: one connection, connection_init, one operation; every frame of the operation up to `complete`.
func (s *session) doWS(sub string, body map[string]any, rl *reqLog) (frames []frame, flag string) {
	u := wsURL()
	wsMu.Lock()
	wsSeq++
	key := strconv.Itoa(wsSeq)
	wsConns[key] = wsTarget{s.srv, rl}
	wsMu.Unlock()
	defer func() {
		wsMu.Lock()
		delete(wsConns, key)
		wsMu.Unlock()
	}()
	d := websocket.Dialer{Subprotocols: []string{sub}, HandshakeTimeout: 5 * time.Second}
	conn, _, err := d.Dial(u, http.Header{"X-C03-Conn": {key}})
	if err != nil {
		return nil, "ws-dial:" + err.Error()
	}
	defer conn.Close()
	conn.SetReadDeadline(time.Now().Add(5 * time.Second))
	start, ack := "start", "connection_ack"
	if sub == "graphql-transport-ws" {
		start = "subscribe"
	}
	_ = conn.WriteJSON(map[string]any{"type": "connection_init"})
	for {
		var f frame
		if err := conn.ReadJSON(&f); err != nil {
			return nil, "ws-no-ack:" + err.Error()
		}
		if f.Type == ack {
			break
		}
	}
	_ = conn.WriteJSON(map[string]any{"type": start, "id": "op1", "payload": body})
	for {
		var f frame
		if err := conn.ReadJSON(&f); err != nil {
			return frames, "stream-not-terminated"
		}
		if f.Type == "ka" || f.Type == "ping" || f.Type == "pong" {
			continue
		}
		if f.Type == "complete" {
			break
		}
		frames = append(frames, f)
	}
	_ = conn.WriteMessage(websocket.CloseMessage, websocket.FormatCloseMessage(websocket.CloseNormalClosure, ""))
	return frames, ""
}

// ------------------------------------------------------------------ one request through a transport

func decodeResp(b []byte) (*graphql.Response, bool) {
	var resp graphql.Response
	if err := json.Unmarshal(b, &resp); err != nil {
		return nil, false
	}
	return &resp, true
}

// doVia sends the request through transport r.via of the session's handler.Server.
func (s *session) doVia(r *request, ctx context.Context, rl *reqLog) (acc string, rs []string, flag string) {
	body := map[string]any{"query": r.text, "extensions": map[string]any{"c03": r.tags()}}
	if r.op != "" {
		body["operationName"] = r.op
	}
	if r.vars != "" {
		body["variables"] = json.RawMessage(r.vars)
	}
	jb, _ := json.Marshal(body)
	tagsJSON, _ := json.Marshal(r.tags())

	var got []*graphql.Response // every response received, in order
	terminated := false         // the transport polled the handler to its end / closed the stream
	sawNull := false

	if strings.HasPrefix(r.via, "ws-") {
		frames, fl := s.doWS(r.via[3:], body, rl)
		if fl != "" {
			flag = fl
		} else {
			terminated = true
		}
		for _, f := range frames {
			switch f.Type {
			case "data", "next":
				resp, ok := decodeResp(f.Payload)
				if !ok {
					return "baddoc", []string{string(f.Payload)}, "ws-frame"
				}
				got = append(got, resp)
			case "error":
				var errs []json.RawMessage
				resp := &graphql.Response{}
				if err := json.Unmarshal(f.Payload, &errs); err == nil {
					resp, _ = decodeResp([]byte(`{"errors":` + string(f.Payload) + `}`))
				} else {
					resp, _ = decodeResp([]byte(`{"errors":[` + string(f.Payload) + `]}`))
				}
				if resp == nil {
					return "baddoc", []string{string(f.Payload)}, "ws-error-frame"
				}
				got = append(got, resp)
			default:
				return "baddoc", []string{f.Type}, "ws-unexpected-frame"
			}
		}
	} else {
		var req *http.Request
		switch r.via {
		case "get":
			q := url.Values{"query": {r.text}}
			if r.op != "" {
				q.Set("operationName", r.op)
			}
			if r.vars != "" {
				q.Set("variables", r.vars)
			}
			eb, _ := json.Marshal(map[string]any{"c03": r.tags()})
			q.Set("extensions", string(eb))
			req = httptest.NewRequest("GET", "/query?"+q.Encode(), nil)
		case "form":
			var buf bytes.Buffer
			mw := multipart.NewWriter(&buf)
			_ = mw.WriteField("operations", string(jb))
			_ = mw.WriteField("map", "{}")
			_ = mw.Close()
			req = httptest.NewRequest("POST", "/query", &buf)
			req.Header.Set("Content-Type", mw.FormDataContentType())
		case "urlenc":
			req = httptest.NewRequest("POST", "/query", bytes.NewReader(jb))
			req.Header.Set("Content-Type", "application/x-www-form-urlencoded")
		case "graphql":
			req = httptest.NewRequest("POST", "/query", strings.NewReader(r.text))
			req.Header.Set("Content-Type", "application/graphql")
			req.Header.Set("X-C03", string(tagsJSON))
		case "sse":
			req = httptest.NewRequest("POST", "/query", bytes.NewReader(jb))
			req.Header.Set("Content-Type", "application/json")
			req.Header.Set("Accept", "text/event-stream")
		case "mixed":
			req = httptest.NewRequest("POST", "/query", bytes.NewReader(jb))
			req.Header.Set("Content-Type", "application/json")
			req.Header.Set("Accept", "multipart/mixed")
		default: // post
			req = httptest.NewRequest("POST", "/query", bytes.NewReader(jb))
			req.Header.Set("Content-Type", "application/json")
		}
		w := httptest.NewRecorder()
		s.srv.ServeHTTP(w, req.WithContext(ctx))
		text := w.Body.String()
		switch r.via {
		case "sse":
			for _, ev := range strings.Split(text, "\n\n") {
				ev = strings.TrimSpace(ev)
				switch {
				case ev == "" || ev == ":":
				case ev == "event: complete":
					terminated = true
				case strings.HasPrefix(ev, "event: next\ndata: "):
					resp, ok := decodeResp([]byte(strings.TrimPrefix(ev, "event: next\ndata: ")))
					if !ok {
						return "baddoc", []string{ev}, "sse-event"
					}
					got = append(got, resp)
				default:
					return "baddoc", []string{ev}, "sse-event"
				}
			}
			if !terminated {
				flag = "stream-not-terminated"
			}
		case "mixed":
			if !strings.HasPrefix(w.Header().Get("Content-Type"), "multipart/mixed") {
				// rejected before the stream was opened: a plain JSON answer
				resp, ok := decodeResp(w.Body.Bytes())
				if !ok {
					return "baddoc", []string{text}, "http"
				}
				got = append(got, resp)
				break
			}
			for _, ln := range strings.Split(text, "\r\n") {
				if !strings.HasPrefix(ln, "{") {
					continue
				}
				var inc struct {
					Incremental []*graphql.Response `json:"incremental"`
				}
				if json.Unmarshal([]byte(ln), &inc) == nil && inc.Incremental != nil {
					got = append(got, inc.Incremental...)
					continue
				}
				resp, ok := decodeResp([]byte(ln))
				if !ok {
					return "baddoc", []string{ln}, "mixed-part"
				}
				got = append(got, resp)
			}
			terminated = strings.HasSuffix(text, "----\r\n")
			if !terminated {
				flag = "stream-not-terminated"
			}
		default:
			if strings.TrimSpace(text) == "null" {
				sawNull = true // the handler answered nil: the transport writes the JSON text null
				break
			}
			resp, ok := decodeResp(w.Body.Bytes())
			if !ok {
				return "baddoc", []string{text}, "http"
			}
			got = append(got, resp)
		}
	}

	// accepted? : what CreateOperationContext decided is visible in the first answer
	acc = "rej"
	first := "-"
	if len(got) > 0 {
		first = codeOf(got[0].Errors)
	}
	if first == "-" || first == "X" || strings.HasPrefix(first, "blk") {
		acc = "ok"
	}
	for _, g := range got {
		rs = append(rs, showResp(g))
	}
	if sawNull || (streaming(r.via) && acc == "ok" && terminated) {
		rs = append(rs, "nil")
	}
	return acc, rs, flag
}
