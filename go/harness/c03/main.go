package main

import (
	"context"
	"fmt"

	"github.com/99designs/gqlgen/graphql"
	"github.com/99designs/gqlgen/graphql/executor/testexecutor"
	"github.com/vektah/gqlparser/v2/ast"
)

func main() {
	for _, cached := range []bool{false, true} {
		e := testexecutor.New()
		if cached {
			e.SetQueryCache(graphql.MapCache[*ast.QueryDocument]{})
		}
		q := "query A { name } query B { name }"
		for _, op := range []string{"A", "", "B"} {
			ctx := graphql.StartOperationTrace(context.Background())
			oc, errs := e.CreateOperationContext(ctx, &graphql.RawParams{Query: q, OperationName: op})
			if errs != nil {
				fmt.Println(cached, op, "REJECT", errs)
				continue
			}
			rh, ctx2 := e.DispatchOperation(ctx, oc)
			r := rh(ctx2)
			fmt.Println(cached, op, "EXEC", string(r.Data), r.Errors, len(oc.Doc.Operations))
		}
	}
}
