// Harness for C03: drives the REAL graphql/executor (directly, the way a transport does, and through
// handler.Server + every transport of graphql/handler/transport, see transports.go) with instrumented extensions of every hook-kind subset, a universal
// hand-built ExecutableSchema and a logging wrapper around the real query caches, and prints per
// request the protocol line for the Lean driver together with what was observed (accept/reject,
// answers, ordered event log). Query texts are classified by an oracle that calls gqlparser directly
// (parse, each rule group with an explicit rule list, VariableValues) on its own copy of the document.
//
// Modes:  -mode seq    sequential sessions (default)
//         -mode conc   concurrent requests on one executor, per-request logs (run under -race in thorough)
//         -mode window concurrent first requests with SetDisableSuggestion(true): does a request
//                      with an unknown field get past validation? (F03's semantic window)
package main

import (
	"bufio"
	"context"
	"encoding/json"
	"flag"
	"fmt"
	"net/http"
	"os"
	"sort"
	"strconv"
	"strings"
	"sync"
	"sync/atomic"

	"github.com/vektah/gqlparser/v2"
	"github.com/vektah/gqlparser/v2/ast"
	"github.com/vektah/gqlparser/v2/gqlerror"
	"github.com/vektah/gqlparser/v2/parser"
	"github.com/vektah/gqlparser/v2/validator"
	"github.com/vektah/gqlparser/v2/validator/rules"

	"github.com/99designs/gqlgen/graphql"
	"github.com/99designs/gqlgen/graphql/executor"
	"github.com/99designs/gqlgen/graphql/handler"
	"github.com/99designs/gqlgen/graphql/handler/lru"
	"verifharness/internal/rng"
)

var out = bufio.NewWriterSize(os.Stdout, 1<<20)

const schemaText = `
type Query {
  a: Int
  name: String!
  b(x: Int!): T
  c(s: String, n: [Int!]): T
  d(i: Inp): Int
  list: [T!]
}
type T { id: ID!  v: Int  w(k: Int = 1): String  t: T  name: String }
type Mutation { set(x: Int!): T  bump: Int }
type Subscription { tick(n: Int): T  beat: Int }
input Inp { a: Int!  b: String }
`

var schema = gqlparser.MustLoadSchema(&ast.Source{Input: schemaText})

// ------------------------------------------------------------------ per-request log

type logKey struct{}
type pathKey struct{}

type reqLog struct {
	mu sync.Mutex
	ev []string
	// Spec-side flags raised by the cache wrapper
	addInvalid bool
}

func (rl *reqLog) events() []string {
	rl.mu.Lock()
	defer rl.mu.Unlock()
	return append([]string(nil), rl.ev...)
}

func lg(ctx context.Context, f string, a ...any) {
	rl, _ := ctx.Value(logKey{}).(*reqLog)
	if rl == nil {
		return
	}
	rl.mu.Lock()
	rl.ev = append(rl.ev, fmt.Sprintf(f, a...))
	rl.mu.Unlock()
}

func pathOf(ctx context.Context) string {
	p, _ := ctx.Value(pathKey{}).(string)
	return p
}

// ------------------------------------------------------------------ request tags

type tags struct {
	PmRej []int             `json:"pmrej,omitempty"`
	PmRw  map[string]string `json:"pmrw,omitempty"`
	CmRej []int             `json:"cmrej,omitempty"`
	Blk   []int             `json:"blk,omitempty"`
	XErr  bool              `json:"xerr,omitempty"`
	Emit  int               `json:"emit"`
}

// tagsOf: the request's tags travel in `extensions.c03`; transports that carry the query text only
// (application/graphql) put them into the X-C03 header instead
func tagsOf(ext map[string]any, h http.Header) *tags {
	if _, ok := ext["c03"]; !ok && h != nil && h.Get("X-C03") != "" {
		t := &tags{}
		_ = json.Unmarshal([]byte(h.Get("X-C03")), t)
		return t
	}
	return getTags(ext)
}

func getTags(ext map[string]any) *tags {
	v, ok := ext["c03"]
	if !ok {
		return &tags{Emit: 1}
	}
	if t, ok := v.(*tags); ok {
		return t
	}
	b, _ := json.Marshal(v)
	t := &tags{}
	_ = json.Unmarshal(b, t)
	return t
}

func has(l []int, i int) bool {
	for _, x := range l {
		if x == i {
			return true
		}
	}
	return false
}

// ------------------------------------------------------------------ instrumented extensions

type base struct {
	id    int
	flags string
}

func (b *base) name() string { return fmt.Sprintf("C03Ext%d", b.id) }

func coded(msg, code string) *gqlerror.Error {
	return &gqlerror.Error{Message: msg, Extensions: map[string]any{"code": code}}
}

func (b *base) mutateParams(ctx context.Context, p *graphql.RawParams) *gqlerror.Error {
	lg(ctx, "pm%d", b.id)
	t := tagsOf(p.Extensions, p.Headers)
	if has(t.PmRej, b.id) {
		return coded("rejected by parameter mutator", fmt.Sprintf("C03_PM%d", b.id))
	}
	if q, ok := t.PmRw[strconv.Itoa(b.id)]; ok {
		p.Query = q
	}
	return nil
}

func (b *base) mutateContext(ctx context.Context, oc *graphql.OperationContext) *gqlerror.Error {
	lg(ctx, "cm%d", b.id)
	if has(tagsOf(oc.Extensions, oc.Headers).CmRej, b.id) {
		return coded("rejected by context mutator", fmt.Sprintf("C03_CM%d", b.id))
	}
	return nil
}

func (b *base) interceptOperation(ctx context.Context, next graphql.OperationHandler) graphql.ResponseHandler {
	lg(ctx, "O+%d", b.id)
	if oc := graphql.GetOperationContext(ctx); has(tagsOf(oc.Extensions, oc.Headers).Blk, b.id) {
		lg(ctx, "O-%d", b.id)
		return graphql.OneShot(&graphql.Response{Errors: gqlerror.List{coded("blocked", fmt.Sprintf("C03_BLK%d", b.id))}})
	}
	rh := next(ctx)
	lg(ctx, "O-%d", b.id)
	return rh
}

func (b *base) interceptResponse(ctx context.Context, next graphql.ResponseHandler) *graphql.Response {
	lg(ctx, "R+%d", b.id)
	r := next(ctx)
	lg(ctx, "R-%d", b.id)
	return r
}

func (b *base) interceptRootField(ctx context.Context, next graphql.RootResolver) graphql.Marshaler {
	lg(ctx, "T+%d@%s", b.id, pathOf(ctx))
	m := next(ctx)
	lg(ctx, "T-%d@%s", b.id, pathOf(ctx))
	return m
}

func (b *base) interceptField(ctx context.Context, next graphql.Resolver) (any, error) {
	lg(ctx, "F+%d@%s", b.id, pathOf(ctx))
	r, err := next(ctx)
	lg(ctx, "F-%d@%s", b.id, pathOf(ctx))
	return r, err
}

// ------------------------------------------------------------------ universal schema

func fieldsOf(ss ast.SelectionSet) []*ast.Field {
	var fs []*ast.Field
	for _, s := range ss {
		if f, ok := s.(*ast.Field); ok {
			fs = append(fs, f)
		}
	}
	return fs
}

func resolveField(ctx context.Context, oc *graphql.OperationContext, obj string, f *ast.Field, path string) {
	ctx = context.WithValue(ctx, pathKey{}, path)
	ctx = graphql.WithFieldContext(ctx, &graphql.FieldContext{Object: obj, Field: graphql.CollectedField{Field: f}, IsResolver: true})
	_, _ = oc.ResolverMiddleware(ctx, func(ctx context.Context) (any, error) {
		lg(ctx, "D@%s", path) // the field's directive chain
		lg(ctx, "V@%s", path) // the resolver
		return 1, nil
	})
}

var es = &graphql.ExecutableSchemaMock{
	SchemaFunc: func() *ast.Schema { return schema },
	ComplexityFunc: func(ctx context.Context, typeName, fieldName string, childComplexity int, args map[string]any) (int, bool) {
		return 0, false
	},
	ExecFunc: func(ctx context.Context) graphql.ResponseHandler {
		lg(ctx, "X")
		oc := graphql.GetOperationContext(ctx)
		t := tagsOf(oc.Extensions, oc.Headers)
		if t.XErr {
			graphql.AddError(ctx, coded("exec set-up failed", "C03_EXEC"))
			return graphql.OneShot(&graphql.Response{})
		}
		avail := 1
		rootName := "Query"
		switch oc.Operation.Operation {
		case ast.Mutation:
			rootName = "Mutation"
		case ast.Subscription:
			rootName = "Subscription"
			avail = t.Emit
		}
		j := 0
		return func(ctx context.Context) *graphql.Response {
			if j >= avail {
				return nil
			}
			j++
			for a, f := range fieldsOf(oc.Operation.SelectionSet) {
				pa := strconv.Itoa(a)
				fctx := context.WithValue(ctx, pathKey{}, pa)
				fctx = graphql.WithFieldContext(fctx, &graphql.FieldContext{Object: rootName, Field: graphql.CollectedField{Field: f}, IsResolver: true})
				f := f
				_ = oc.RootResolverMiddleware(fctx, func(ctx context.Context) graphql.Marshaler {
					resolveField(ctx, oc, rootName, f, pa)
					for b, c := range fieldsOf(f.SelectionSet) {
						resolveField(ctx, oc, "T", c, pa+"."+strconv.Itoa(b))
					}
					return graphql.Null
				})
			}
			return &graphql.Response{Data: json.RawMessage(`{}`)}
		}
	},
}

// ------------------------------------------------------------------ logging cache wrapper

type logCache struct {
	inner graphql.Cache[*ast.QueryDocument]
	limit int // the executor's parser token limit (0 = none)
}

func (c logCache) Get(ctx context.Context, key string) (*ast.QueryDocument, bool) {
	d, ok := c.inner.Get(ctx, key)
	if ok {
		lg(ctx, "g%dh", keyOf(key))
	} else {
		lg(ctx, "g%dm", keyOf(key))
	}
	return d, ok
}

func (c logCache) Add(ctx context.Context, key string, d *ast.QueryDocument) {
	lg(ctx, "a%d", keyOf(key))
	// Spec on the implementation: only a document that is valid under the complete rule set and has an
	// operation may be stored (oracle verdict of this text, computed on the oracle's own copy)
	if o := classify(key); !o.parses || o.nField != 0 || o.nOther != 0 || len(o.ops) == 0 || (c.limit != 0 && o.need > c.limit) {
		if rl, _ := ctx.Value(logKey{}).(*reqLog); rl != nil {
			rl.addInvalid = true
		}
		atomic.AddInt64(&invalidAdds, 1)
	}
	c.inner.Add(ctx, key, d)
}

var invalidAdds int64

// ------------------------------------------------------------------ oracle (gqlparser called directly)

type opInfo struct {
	name  string
	sub   bool
	roots []int
	def   *ast.OperationDefinition
}

type verdict struct {
	key     int
	parses  bool
	ops     []opInfo
	nField  int
	nOther  int
	sugg    bool
	emitted bool
	need    int // tokens the parser consumes: the smallest token limit that does not refuse the text
}

var (
	tableMu sync.Mutex
	table   = map[string]*verdict{}
)

var otherRules = []validator.Rule{
	rules.FragmentsOnCompositeTypesRule, rules.KnownArgumentNamesRule, rules.KnownDirectivesRule,
	rules.KnownFragmentNamesRule, rules.KnownRootTypeRule, rules.KnownTypeNamesRule,
	rules.LoneAnonymousOperationRule, rules.MaxIntrospectionDepth, rules.NoFragmentCyclesRule,
	rules.NoUndefinedVariablesRule, rules.NoUnusedFragmentsRule, rules.NoUnusedVariablesRule,
	rules.OverlappingFieldsCanBeMergedRule, rules.PossibleFragmentSpreadsRule,
	rules.ProvidedRequiredArgumentsRule, rules.ScalarLeafsRule, rules.SingleFieldSubscriptionsRule,
	rules.UniqueArgumentNamesRule, rules.UniqueDirectivesPerLocationRule, rules.UniqueFragmentNamesRule,
	rules.UniqueInputFieldNamesRule, rules.UniqueOperationNamesRule, rules.UniqueVariableNamesRule,
	rules.ValuesOfCorrectTypeRule, rules.VariablesAreInputTypesRule, rules.VariablesInAllowedPositionRule,
}

func classify(text string) *verdict {
	tableMu.Lock()
	defer tableMu.Unlock()
	if v, ok := table[text]; ok {
		return v
	}
	v := &verdict{key: len(table), need: tokenNeed(text)}
	table[text] = v
	doc, err := parser.ParseQuery(&ast.Source{Input: text})
	if err != nil {
		return v
	}
	v.parses = true
	fe := validator.Validate(schema, doc, rules.FieldsOnCorrectTypeRule)
	v.nField = len(fe)
	for _, e := range fe {
		if strings.Contains(e.Message, "Did you mean") {
			v.sugg = true
		}
	}
	v.nOther = len(validator.Validate(schema, doc, otherRules...))
	for _, op := range doc.Operations {
		oi := opInfo{name: op.Name, sub: op.Operation == ast.Subscription, def: op}
		for _, f := range fieldsOf(op.SelectionSet) {
			oi.roots = append(oi.roots, len(fieldsOf(f.SelectionSet)))
		}
		v.ops = append(v.ops, oi)
	}
	return v
}

func keyOf(text string) int { return classify(text).key }

// qLine prints the Q line of a text the first time it is used.
func qLine(text string) {
	v := classify(text)
	if v.emitted {
		return
	}
	v.emitted = true
	if !v.parses {
		fmt.Fprintf(out, "Q\tQ %d - %d\t%s\n", v.key, v.need, strconv.Quote(text))
		return
	}
	var ops []string
	for _, o := range v.ops {
		n := o.name
		if n == "" {
			n = "_"
		}
		k := "q"
		if o.sub {
			k = "s"
		}
		rs := "-"
		if len(o.roots) > 0 {
			var s []string
			for _, r := range o.roots {
				s = append(s, strconv.Itoa(r))
			}
			rs = strings.Join(s, ".")
		}
		ops = append(ops, n+"/"+k+"/"+rs)
	}
	os_ := "-"
	if len(ops) > 0 {
		os_ = strings.Join(ops, ";")
	}
	sg := 0
	if v.sugg {
		sg = 1
	}
	fmt.Fprintf(out, "Q\tQ %d %d:%d:%d:%s %d\t%s\n", v.key, v.nField, v.nOther, sg, os_, v.need, strconv.Quote(text))
}

func decodeVars(js string) map[string]any {
	if js == "" {
		return nil
	}
	dec := json.NewDecoder(strings.NewReader(js))
	dec.UseNumber()
	var m map[string]any
	if err := dec.Decode(&m); err != nil {
		panic(err)
	}
	return m
}

// varsBits: per operation of the text, does VariableValues accept the variables ("-" when no document)
func varsBits(text, varsJSON string) (bits string) {
	v := classify(text)
	if !v.parses || len(v.ops) == 0 {
		return "-"
	}
	for _, o := range v.ops {
		ok := func() (ok bool) {
			defer func() {
				if recover() != nil {
					ok = true
				}
			}()
			_, err := validator.VariableValues(schema, o.def, decodeVars(varsJSON))
			return err == nil
		}()
		if ok {
			bits += "1"
		} else {
			bits += "0"
		}
	}
	return bits
}

// ------------------------------------------------------------------ the global rule list

func resetRules() {
	validator.RemoveRule(rules.FieldsOnCorrectTypeRuleWithoutSuggestions.Name)
	validator.RemoveRule(rules.FieldsOnCorrectTypeRule.Name)
	validator.AddRule(rules.FieldsOnCorrectTypeRule.Name, rules.FieldsOnCorrectTypeRule.RuleFunc)
}

// ------------------------------------------------------------------ sessions

type extSpec struct {
	id    int
	flags string
}

type session struct {
	cache   string
	disable bool
	exts    []extSpec
	server  bool // through handler.Server + one of its transports (request.via) instead of calling the executor directly
	limit   int  // SetParserTokenLimit (0 = not configured)

	exec *executor.Executor
	srv  *handler.Server
}

func (s *session) line() string {
	d := 0
	if s.disable {
		d = 1
	}
	var es_ []string
	for _, e := range s.exts {
		es_ = append(es_, fmt.Sprintf("%d:%s", e.id, e.flags))
	}
	x := "-"
	if len(es_) > 0 {
		x = strings.Join(es_, ",")
	}
	return fmt.Sprintf("S %s %d %s %d", s.cache, d, x, s.limit)
}

func newCache(kind string, limit int) graphql.Cache[*ast.QueryDocument] {
	switch {
	case kind == "none":
		return logCache{graphql.NoCache[*ast.QueryDocument]{}, limit}
	case kind == "map":
		return logCache{graphql.MapCache[*ast.QueryDocument]{}, limit}
	case strings.HasPrefix(kind, "lru"):
		n, _ := strconv.Atoi(kind[3:])
		return logCache{lru.New[*ast.QueryDocument](n), limit}
	}
	panic(kind)
}

func (s *session) build() {
	if s.server {
		s.srv = handler.New(es)
		addTransports(s.srv)
		// like DefaultRecover without printing the stack
		s.srv.SetRecoverFunc(func(ctx context.Context, err any) error { return gqlerror.Errorf("internal system error") })
		s.srv.SetQueryCache(newCache(s.cache, s.limit))
		s.srv.SetDisableSuggestion(s.disable)
		if s.limit != 0 {
			s.srv.SetParserTokenLimit(s.limit)
		}
		for _, e := range s.exts {
			s.srv.Use(newExt(&base{e.id, e.flags}))
		}
		return
	}
	s.exec = executor.New(es)
	s.exec.SetQueryCache(newCache(s.cache, s.limit))
	s.exec.SetDisableSuggestion(s.disable)
	if s.limit != 0 {
		s.exec.SetParserTokenLimit(s.limit)
	}
	for _, e := range s.exts {
		s.exec.Use(newExt(&base{e.id, e.flags}))
	}
}

type request struct {
	text   string
	op     string
	vars   string // JSON object or ""
	pmrej  []int
	pmrw   map[int]string
	cmrej  []int
	blk    []int
	xerr   bool
	emit   int
	polls  int
	class_ string // generator class, for the input distribution
	via    string // server sessions: the transport that carries the request (transports.go: vias)
}

func ints(l []int) string {
	if len(l) == 0 {
		return "-"
	}
	var s []string
	for _, x := range l {
		s = append(s, strconv.Itoa(x))
	}
	return strings.Join(s, ",")
}

// finalText: the text the executor will parse (oracle: rewrites of registered P extensions in order)
func (s *session) finalText(r *request) string {
	t := r.text
	for _, e := range s.exts {
		if !strings.Contains(e.flags, "P") {
			continue
		}
		if has(r.pmrej, e.id) {
			break
		}
		if q, ok := r.pmrw[e.id]; ok {
			t = q
		}
	}
	return t
}

func (s *session) reqLine(r *request) string {
	qLine(r.text)
	var rw []string
	ids := make([]int, 0, len(r.pmrw))
	for i := range r.pmrw {
		ids = append(ids, i)
	}
	sort.Ints(ids)
	for _, i := range ids {
		qLine(r.pmrw[i])
		rw = append(rw, fmt.Sprintf("%d>%d", i, keyOf(r.pmrw[i])))
	}
	rws := "-"
	if len(rw) > 0 {
		rws = strings.Join(rw, ",")
	}
	op := r.op
	if op == "" {
		op = "_"
	}
	x := 0
	if r.xerr {
		x = 1
	}
	return fmt.Sprintf("%d %s %s %s %s %s %s %d %d %d", keyOf(r.text), op, varsBits(s.finalText(r), r.vars),
		ints(r.pmrej), rws, ints(r.cmrej), ints(r.blk), x, r.emit, r.polls)
}

func (r *request) tags() *tags {
	t := &tags{PmRej: r.pmrej, CmRej: r.cmrej, Blk: r.blk, XErr: r.xerr, Emit: r.emit}
	if len(r.pmrw) > 0 {
		t.PmRw = map[string]string{}
		for i, q := range r.pmrw {
			t.PmRw[strconv.Itoa(i)] = q
		}
	}
	return t
}

func codeOf(errs gqlerror.List) string {
	if len(errs) == 0 {
		return "-"
	}
	e := errs[0]
	c, _ := e.Extensions["code"].(string)
	switch {
	case c == "GRAPHQL_PARSE_FAILED":
		return "P"
	case c == "GRAPHQL_VALIDATION_FAILED":
		switch {
		case e.Message == "no operation provided":
			return "N"
		case strings.HasPrefix(e.Message, "operation ") && strings.HasSuffix(e.Message, " not found"):
			return "S"
		case len(e.Path) > 0:
			return "A"
		default:
			return "V"
		}
	case strings.HasPrefix(c, "C03_PM"):
		return "pm" + c[6:]
	case strings.HasPrefix(c, "C03_CM"):
		return "cm" + c[6:]
	case strings.HasPrefix(c, "C03_BLK"):
		return "blk" + c[7:]
	case c == "C03_EXEC":
		return "X"
	}
	return "?" + c
}

func showResp(r *graphql.Response) string {
	if r == nil {
		return "nil"
	}
	d, s := 0, 0
	if len(r.Data) > 0 && string(r.Data) != "null" {
		d = 1
	}
	for _, e := range r.Errors {
		// a suggestion made by the field-existence rule (other rules suggest type / argument names)
		if strings.HasPrefix(e.Message, "Cannot query field") && strings.Contains(e.Message, "Did you mean") {
			s = 1
		}
	}
	return fmt.Sprintf("d%de%dc%ss%d", d, len(r.Errors), codeOf(r.Errors), s)
}

// do runs one request and returns (accepted?, answers, log, flags)
func (s *session) do(r *request) (acc string, resps string, log string, flags string) {
	rl := &reqLog{}
	ctx := context.WithValue(context.Background(), logKey{}, rl)
	var rs []string
	defer func() {
		if p := recover(); p != nil {
			acc, resps, log, flags = "panic", "-", strings.Join(rl.events(), ","), fmt.Sprint(p)
		}
	}()
	var tflag string
	if s.server {
		if r.via == "" {
			r.via = "post"
		}
		acc, rs, tflag = s.doVia(r, ctx, rl)
		if acc == "baddoc" {
			return acc, strings.ReplaceAll(strings.Join(rs, ";"), " ", "_"), strings.Join(rl.events(), ","), tflag
		}
	} else {
		ctx = graphql.StartOperationTrace(ctx)
		params := &graphql.RawParams{Query: r.text, OperationName: r.op, Variables: decodeVars(r.vars),
			Extensions: map[string]any{"c03": r.tags()}}
		oc, errs := s.exec.CreateOperationContext(ctx, params)
		if len(errs) != 0 {
			acc = "rej"
			rs = append(rs, showResp(s.exec.DispatchError(graphql.WithOperationContext(ctx, oc), errs)))
		} else {
			acc = "ok"
			rh, ctx2 := s.exec.DispatchOperation(ctx, oc)
			for i := 0; i < r.polls; i++ {
				resp := rh(ctx2)
				rs = append(rs, showResp(resp))
				if resp == nil {
					break
				}
			}
		}
	}
	log = "-"
	if ev := rl.events(); len(ev) > 0 {
		log = strings.Join(ev, ",")
	}
	resps = "-"
	if len(rs) > 0 {
		resps = strings.Join(rs, ";")
	}
	flags = "-"
	if tflag != "" {
		flags = tflag
	}
	if rl.addInvalid {
		flags = "cache-add-of-unvalidated-document"
	}
	return
}

// ------------------------------------------------------------------ generators

var rootFields = []string{"a", "name", "b(x: 1) { id }", "b(x: 2) { id v }", "c(s: \"x\") { id w(k: 2) name }", "c { v }",
	"d(i: {a: 1})", "d(i: {a: 2, b: \"y\"})", "list { id }", "list { id t { id } v }", "c(n: [1, 2]) { id }"}

func pick[T any](r *rng.R, l []T) T { return l[r.Below(len(l))] }

func genSel(r *rng.R, root string) string {
	switch root {
	case "Mutation":
		return pick(r, []string{"bump", "set(x: 1) { id }", "m1: bump m2: set(x: 3) { id v }", "set(x: 2) { id w }"})
	case "Subscription":
		return pick(r, []string{"beat", "tick { id }", "tick(n: 2) { id v name }"})
	}
	n := 1 + r.Below(3)
	var fs []string
	for i := 0; i < n; i++ {
		fs = append(fs, fmt.Sprintf("k%d: %s", i, pick(r, rootFields)))
	}
	return strings.Join(fs, " ")
}

type genq struct {
	text, class_ string
	ops         []string // operation names to choose from ("" = none)
	vars        []string // candidate variables JSON ("" = none); first = valid
}

func genValid(r *rng.R) genq {
	switch r.Below(6) {
	case 0:
		return genq{text: "{ " + genSel(r, "Query") + " }", class_: "valid-anon", ops: []string{""}}
	case 1:
		return genq{text: "query A { " + genSel(r, "Query") + " }", class_: "valid-named", ops: []string{"A", ""}}
	case 2:
		return genq{text: "query A { " + genSel(r, "Query") + " } mutation B { " + genSel(r, "Mutation") + " } subscription C { " + genSel(r, "Subscription") + " }",
			class_: "valid-multi", ops: []string{"A", "B", "C"}}
	case 3:
		return genq{text: "query V($x: Int!, $s: String) { b(x: $x) { id } c(s: $s) { v } }", class_: "valid-vars", ops: []string{"V", ""},
			vars: []string{`{"x": 1}`, `{"x": 5, "s": "q"}`, `{}`, `{"x": "no"}`, `{"x": null}`, `{"x": 1, "zz": 2}`, `{"x": 1.5}`}}
	case 4:
		return genq{text: "mutation M($x: Int!) { set(x: $x) { id } }  query Q2($i: Inp) { d(i: $i) }", class_: "valid-vars-multi", ops: []string{"M", "Q2"},
			vars: []string{`{"x": 3, "i": {"a": 1}}`, `{"x": 3}`, `{"i": {"a": 1}}`, `{"i": {"b": "only"}}`, `{"x": [1]}`, ``}}
	default:
		return genq{text: "subscription S { " + genSel(r, "Subscription") + " }", class_: "valid-sub", ops: []string{"S", ""}}
	}
}

func genInvalid(r *rng.R) genq {
	base := genSel(r, "Query")
	switch r.Below(16) {
	case 0:
		return genq{text: "{ " + base, class_: "syntax-unclosed", ops: []string{""}}
	case 1:
		return genq{text: "query { " + base + " } }", class_: "syntax-extra-brace", ops: []string{""}}
	case 2:
		return genq{text: pick(r, []string{"", "   ", "}", "query", "{ a(x: ) }", "{ a } ??", "\"str\"", "{ a: }"}), class_: "syntax-garbage", ops: []string{""}}
	case 3:
		return genq{text: "{ " + base + " " + pick(r, []string{"nam", "nme", "lst", "aa"}) + " }", class_: "unknown-field-near", ops: []string{""}}
	case 4:
		return genq{text: "{ " + base + " " + pick(r, []string{"zzzzzzzz", "qqqq_unknown"}) + " }", class_: "unknown-field-far", ops: []string{""}}
	case 5:
		return genq{text: "{ b(x: 1) { id " + pick(r, []string{"vv", "nope", "idd"}) + " } }", class_: "unknown-child-field", ops: []string{""}}
	case 6:
		return genq{text: "{ b(x: \"str\") { id } }", class_: "wrong-arg-type", ops: []string{""}}
	case 7:
		return genq{text: "{ b { id } }", class_: "missing-required-arg", ops: []string{""}}
	case 8:
		return genq{text: "{ a(zz: 1) " + base + " }", class_: "unknown-arg", ops: []string{""}}
	case 9:
		return genq{text: "query A { a } query A { name }", class_: "duplicate-op-name", ops: []string{"A", ""}}
	case 10:
		return genq{text: "{ a } query B { name }", class_: "anonymous-not-alone", ops: []string{"", "B"}}
	case 11:
		return genq{text: "fragment F on T { id }", class_: "no-operation", ops: []string{"", "F"}}
	case 12:
		return genq{text: "query U($x: Int) { a }", class_: "unused-variable", ops: []string{"U", ""}, vars: []string{``, `{"x": 1}`}}
	case 13:
		return genq{text: "{ b(x: $y) { id } }", class_: "undefined-variable", ops: []string{""}, vars: []string{``, `{"y": 1}`}}
	case 14:
		return genq{text: "{ a { id } name }", class_: "selection-on-scalar", ops: []string{""}}
	default:
		return genq{text: "{ list " + base + " ... on Nope { id } }", class_: "leaf-missing+unknown-type", ops: []string{""}}
	}
}

func allFlags(r *rng.R) string {
	for {
		m := r.Below(64)
		if m == 0 {
			continue
		}
		// favour richer extensions
		if r.Below(3) == 0 {
			m |= r.Below(64)
		}
		s := ""
		for i, c := range "PCORTF" {
			if m>>i&1 == 1 {
				s += string(c)
			}
		}
		return s
	}
}

func genSession(r *rng.R, forceServer int) *session {
	s := &session{}
	s.cache = pick(r, []string{"none", "map", "lru1", "lru2", "lru3", "lru1000"})
	s.disable = r.Below(3) == 0
	n := r.Below(6)
	if r.Below(8) == 0 {
		n = 6 + r.Below(6)
	}
	ids := map[int]bool{}
	for i := 0; i < n; i++ {
		id := r.Below(20)
		for ids[id] {
			id = r.Below(20)
		}
		ids[id] = true
		s.exts = append(s.exts, extSpec{id, allFlags(r)})
	}
	s.server = r.Below(3) == 0
	if forceServer >= 0 {
		s.server = forceServer == 1
	}
	return s
}

func subset(r *rng.R, s *session, flag string, p int) []int {
	var l []int
	for _, e := range s.exts {
		if strings.Contains(e.flags, flag) && r.Below(p) == 0 {
			l = append(l, e.id)
		}
	}
	// occasionally name an extension that is not registered / has no such hook: must have no effect
	if r.Below(10) == 0 {
		l = append(l, 20+r.Below(5))
	}
	return l
}

func genRequest(r *rng.R, s *session, pool []genq) *request {
	g := pick(r, pool)
	q := &request{text: g.text, class_: g.class_, emit: 1, polls: 1}
	// operation name: mostly a sensible one, sometimes unknown
	switch r.Below(8) {
	case 0:
		q.op = "Nope"
	default:
		q.op = pick(r, g.ops)
	}
	if len(g.vars) > 0 {
		if r.Below(2) == 0 {
			q.vars = g.vars[0]
		} else {
			q.vars = pick(r, g.vars)
		}
	}
	if r.Below(6) == 0 {
		q.pmrej = subset(r, s, "P", 2)
	}
	if r.Below(6) == 0 {
		q.cmrej = subset(r, s, "C", 2)
	}
	if r.Below(8) == 0 {
		q.blk = subset(r, s, "O", 2)
	}
	if r.Below(8) == 0 {
		q.pmrw = map[int]string{}
		for _, id := range subset(r, s, "P", 2) {
			q.pmrw[id] = pick(r, pool).text
		}
	}
	q.xerr = r.Below(12) == 0
	q.emit = r.Below(4)
	if !s.server {
		q.polls = 1 + r.Below(5)
	} else {
		q.setVia(s, pick(r, vias))
	}
	return q
}

// setVia: the transport of a server-session request (post when `want` cannot carry it); streaming
// transports call the handler until it answers nil
func (q *request) setVia(s *session, want string) {
	q.via = s.pickVia(q, want)
	q.polls = 1
	if streaming(q.via) {
		q.polls = 5
	}
}

func runSession(s *session, reqs []*request) {
	s.build()
	route := "direct"
	if s.server {
		route = "server"
	}
	fmt.Fprintf(out, "S\t%s\t%s\n", s.line(), route)
	for _, q := range reqs {
		if s.server && q.via == "" {
			q.setVia(s, "post")
		}
		line := s.reqLine(q)
		acc, resps, log, flags := s.do(q)
		via := q.via
		if !s.server {
			via = "direct"
		}
		fmt.Fprintf(out, "R\t%s\t%s %s %s\t%s\t%s\t%s\t%s\n", line, acc, resps, log, flags, q.class_, strconv.Quote(q.text), via)
	}
}

// directed sessions: the shapes section 6 of the design lists
func directed() {
	all := []extSpec{{0, "PCORTF"}, {1, "PCORTF"}, {2, "PCORTF"}}
	valid := "{ k0: name k1: b(x: 1) { id v } }"
	two := "query A { a } query B { name }"
	for _, cache := range []string{"none", "map", "lru1", "lru2"} {
		for _, dis := range []bool{false, true} {
			for _, server := range []bool{false, true} {
				s := &session{cache: cache, disable: dis, exts: all, server: server}
				reqs := []*request{
					{text: valid, emit: 1, polls: 1, class_: "d-valid"},
					{text: valid, emit: 1, polls: 1, class_: "d-valid-cached"},
					{text: "{ nam }", emit: 1, polls: 1, class_: "d-unknown-near"},
					{text: "{ nam }", emit: 1, polls: 1, class_: "d-unknown-near-again"},
					{text: two, op: "A", emit: 1, polls: 1, class_: "d-two-A"},
					{text: two, op: "", emit: 1, polls: 1, class_: "d-two-ambiguous-after-A"},
					{text: two, op: "B", emit: 1, polls: 1, class_: "d-two-B"},
					{text: two, op: "C", emit: 1, polls: 1, class_: "d-two-unknown"},
					{text: valid, pmrej: []int{1}, emit: 1, polls: 1, class_: "d-pm-reject-cached"},
					{text: valid, cmrej: []int{0, 2}, emit: 1, polls: 1, class_: "d-cm-reject-cached"},
					{text: valid, blk: []int{1}, emit: 1, polls: 1, class_: "d-op-block"},
					{text: valid, xerr: true, emit: 1, polls: 1, class_: "d-exec-error"},
					{text: "{ a", pmrw: map[int]string{1: valid}, emit: 1, polls: 1, class_: "d-rewrite-to-valid"},
					{text: valid, pmrw: map[int]string{0: "{ nope }", 2: "{ a"}, emit: 1, polls: 1, class_: "d-rewrite-to-invalid"},
					{text: "query V($x: Int!) { b(x: $x) { id } }", vars: `{"x": 1}`, emit: 1, polls: 1, class_: "d-vars-ok"},
					{text: "query V($x: Int!) { b(x: $x) { id } }", vars: `{}`, emit: 1, polls: 1, class_: "d-vars-missing-cached"},
					{text: "query V($x: Int!) { b(x: $x) { id } }", vars: `{"x": "s"}`, emit: 1, polls: 1, class_: "d-vars-badtype-cached"},
					{text: "fragment F on T { id }", emit: 1, polls: 1, class_: "d-no-operation"},
					{text: "", emit: 1, polls: 1, class_: "d-empty"},
				}
				if !server {
					reqs = append(reqs,
						&request{text: "subscription { tick { id v } }", emit: 3, polls: 6, class_: "d-sub-3"},
						&request{text: "subscription { tick { id v } }", emit: 0, polls: 2, class_: "d-sub-0"},
						&request{text: "subscription { tick { id v } }", emit: 3, polls: 2, class_: "d-sub-short-poll"},
						&request{text: valid, emit: 1, polls: 3, class_: "d-query-poll-to-nil"},
						&request{text: valid, blk: []int{0}, emit: 1, polls: 3, class_: "d-op-block-outer"},
						&request{text: valid, xerr: true, emit: 1, polls: 3, class_: "d-exec-error-poll"},
					)
				}
				runSession(s, reqs)
			}
		}
	}
	// every transport x the gates: each kind of rejection (parse, validation, selection, variables, parameter /
	// context mutator with a protocol-kind and with a user-kind error code), blocking, Exec errors, subscriptions
	sub := "subscription { tick { id v } }"
	for _, via := range vias {
		for _, cache := range []string{"none", "lru2"} {
			s := &session{cache: cache, exts: all, server: true}
			mk := func(q request) *request {
				q.emit, q.polls = 1, 1
				if strings.HasPrefix(q.text, "subscription") {
					q.emit = 2
				}
				q.class_ = "t-" + q.class_
				(&q).setVia(s, via)
				return &q
			}
			runSession(s, []*request{
				mk(request{text: valid, class_: "valid"}),
				mk(request{text: valid, cmrej: []int{0}, class_: "cm-reject-protocol-kind"}),
				mk(request{text: valid, cmrej: []int{1}, class_: "cm-reject-user-kind"}),
				mk(request{text: valid, cmrej: []int{2, 1}, class_: "cm-reject-user-kind-two"}),
				mk(request{text: valid, pmrej: []int{0}, class_: "pm-reject-protocol-kind"}),
				mk(request{text: valid, pmrej: []int{1}, class_: "pm-reject-user-kind"}),
				mk(request{text: valid, class_: "valid-after-rejections"}),
				mk(request{text: "{ nam }", class_: "unknown-near"}),
				mk(request{text: "{ a", class_: "parse"}),
				mk(request{text: two, op: "C", class_: "two-unknown"}),
				mk(request{text: two, op: "B", class_: "two-B"}),
				mk(request{text: "query V($x: Int!) { b(x: $x) { id } }", vars: `{}`, class_: "vars-missing"}),
				mk(request{text: "query V($x: Int!) { b(x: $x) { id } }", vars: `{"x": 4}`, class_: "vars-ok"}),
				mk(request{text: valid, blk: []int{1}, class_: "op-block"}),
				mk(request{text: valid, xerr: true, class_: "exec-error"}),
				mk(request{text: "{ a", pmrw: map[int]string{1: valid}, class_: "rewrite-to-valid"}),
				mk(request{text: valid, pmrw: map[int]string{0: "{ nope }"}, class_: "rewrite-to-invalid"}),
				mk(request{text: "mutation { m1: bump m2: set(x: 3) { id v } }", class_: "mutation"}),
				mk(request{text: "mutation { m1: bump }", cmrej: []int{2}, class_: "mutation-cm-reject-user-kind"}),
				mk(request{text: sub, class_: "sub-2"}),
				mk(request{text: sub, cmrej: []int{1}, class_: "sub-cm-reject-user-kind"}),
				mk(request{text: sub, pmrej: []int{2}, class_: "sub-pm-reject-user-kind"}),
				mk(request{text: sub, cmrej: []int{0}, class_: "sub-cm-reject-protocol-kind"}),
				mk(request{text: "", class_: "empty"}),
			})
		}
	}
	directedNearKeys(all)
	directedTokenLimit(all)
	// registration order and hook subsets
	for _, exts := range [][]extSpec{
		{},
		{{5, "O"}, {3, "O"}, {9, "O"}},
		{{9, "F"}, {3, "T"}, {5, "R"}, {1, "O"}, {7, "C"}, {2, "P"}},
		{{2, "P"}, {7, "C"}, {1, "O"}, {5, "R"}, {3, "T"}, {9, "F"}},
		{{4, "RF"}, {0, "PCORTF"}, {8, "OT"}, {6, "PC"}},
	} {
		s := &session{cache: "lru2", exts: exts}
		runSession(s, []*request{
			{text: valid, emit: 1, polls: 2, class_: "d-order"},
			{text: "{ nope }", emit: 1, polls: 1, class_: "d-order-rejected"},
			{text: "mutation { m1: bump m2: set(x: 3) { id v } }", emit: 1, polls: 1, class_: "d-order-mutation"},
		})
	}
}

// near-key families: a base text and texts that differ from it only in white space kind / comment end / string
// white space / letter case / tail. Every sibling is requested after the base was served (and cached), and the
// base after every sibling, with every cache kind, directly and through the server.
var nearKeyFamilies = [][]string{
	{"{ name # c\n}", "{ name # c }", "{ name # c\t}", "{ name # c\r}", "{ name # c\u2028}", "{ name # c\n }"},
	{"{ k0: name # x\n k1: a\n}", "{ k0: name # x k1: a\n}", "{ k0: name # x\n k1: a }", "{ k0: name # x k1: a }"},
	{"{ c(s: \"x y\") { id } }", "{ c(s: \"x\ny\") { id } }", "{ c(s: \"x  y\") { id } }", "{ c(s: \"x\ty\") { id } }", "{ c(s:\"x y\"){id} }"},
	{"{ c(s: \"\"\"x\ny\"\"\") { id } }", "{ c(s: \"\"\"x y\"\"\") { id } }", "{ c(s: \"x\ny\") { id } }"},
	{"{ name }", "{ name\u00a0}", "{\u00a0name }", "{ Name }", "{ NAME }", "{ name }\n", " { name }", "{\tname\t}", "{name}", "{ name } }", "{ name", "{ name }\v", "\ufeff{ name }", "{ name }\u0085"},
	{"query A { a }\nquery B { name }", "query A { a } query B { name }", "query A { a }\nQuery B { name }", "query a { a }\nquery B { name }", "query A { a } #\nquery B { name }", "query A { a } # query B { name }"},
}

func directedNearKeys(all []extSpec) {
	for _, cache := range []string{"none", "map", "lru1", "lru2", "lru1000"} {
		for _, server := range []bool{false, true} {
			for _, fam := range nearKeyFamilies {
				s := &session{cache: cache, exts: all, server: server}
				var reqs []*request
				mk := func(t, c string) *request {
					q := &request{text: t, emit: 1, polls: 1, class_: c}
					if strings.HasPrefix(t, "query A") || strings.HasPrefix(t, "query a") {
						q.op = "A"
					}
					return q
				}
				reqs = append(reqs, mk(fam[0], "d-near-base"))
				for _, sb := range fam[1:] {
					reqs = append(reqs, mk(sb, "d-near-sibling-after-base"), mk(fam[0], "d-near-base-after-sibling"))
				}
				// and the siblings from a cache that saw the base last
				for _, sb := range fam[1:] {
					reqs = append(reqs, mk(sb, "d-near-sibling-again"))
				}
				runSession(s, reqs)
			}
		}
	}
}

// token limit: limits around the number of tokens the parser consumes for `long`
func directedTokenLimit(all []extSpec) {
	long := "{ k0: name k1: b(x: 1) { id v } }"
	short := "{ name }"
	commented := "{ name # a\n # b\n # c\n # d\n}"
	need := classify(long).need
	for _, lim := range []int{1, classify(short).need - 1, classify(short).need, classify(short).need + 1, need - 1, need, need + 1, 1000} {
		for _, cache := range []string{"none", "map", "lru2"} {
			for _, server := range []bool{false, true} {
				s := &session{cache: cache, exts: all, server: server, limit: lim}
				mk := func(q request) *request { q.emit, q.polls = 1, 1; q.class_ = "d-limit-" + q.class_; return &q }
				runSession(s, []*request{
					mk(request{text: long, class_: "long"}),
					mk(request{text: short, class_: "short"}),
					mk(request{text: long, class_: "long-again"}),
					mk(request{text: commented, class_: "comments-count"}),
					mk(request{text: short, pmrw: map[int]string{1: long}, class_: "rewrite-to-long"}),
					mk(request{text: long, pmrw: map[int]string{0: short}, class_: "rewrite-to-short"}),
					mk(request{text: long + " }", class_: "long-syntax-error"}),
					mk(request{text: "{ k0: name k1: b(x: 1) { id v } nope }", class_: "long-invalid-tail"}),
					mk(request{text: "query A { name } query B { a }", op: "A", class_: "two-ops-second-cut"}),
					mk(request{text: long, class_: "long-last"}),
				})
			}
		}
	}
}

// ------------------------------------------------------------------ modes

func seq(tier string, seed uint64) {
	r := rng.New(seed)
	fmt.Fprintf(out, "G\tG reset\n")
	resetRules()
	directed()
	nSess := 1500
	if tier == "thorough" {
		nSess = 12000
	}
	for i := 0; i < nSess; i++ {
		if i%7 == 3 {
			fmt.Fprintf(out, "G\tG reset\n")
			resetRules()
		}
		s := genSession(r, -1)
		// a small pool per session so that texts repeat (cache hits, evictions with lru1..3)
		var pool []genq
		for j, n := 0, 2+r.Below(4); j < n; j++ {
			if r.Below(3) == 0 {
				pool = append(pool, genInvalid(r))
			} else {
				pool = append(pool, genValid(r))
			}
		}
		pool = widenPool(r, pool)
		s.limit = pickLimit(r, pool)
		var reqs []*request
		for j, n := 0, 3+r.Below(10); j < n; j++ {
			reqs = append(reqs, genRequest(r, s, pool))
		}
		runSession(s, reqs)
	}
	fmt.Fprintf(out, "E\tinvalidAdds=%d\n", atomic.LoadInt64(&invalidAdds))
}

// conc: one executor, many goroutines; per-request logs are judged by the Spec (cache events ignored)
func conc(seed uint64, disable bool, workers, perWorker int) {
	r := rng.New(seed)
	resetRules()
	s := genSession(r, 0)
	for len(s.exts) < 3 {
		s = genSession(r, 0)
	}
	s.cache = "lru3"
	s.disable = disable
	var pool []genq
	for j := 0; j < 6; j++ {
		if j%3 == 2 {
			pool = append(pool, genInvalid(r))
		} else {
			pool = append(pool, genValid(r))
		}
	}
	pool = widenPool(r, pool)
	s.limit = pickLimit(r, pool)
	s.build()
	fmt.Fprintf(out, "S\t%s\tconc\n", s.line())
	type job struct {
		q    *request
		line string
	}
	jobs := make([][]job, workers)
	for w := range jobs {
		for i := 0; i < perWorker; i++ {
			q := genRequest(r, s, pool)
			jobs[w] = append(jobs[w], job{q, s.reqLine(q)})
		}
	}
	out.Flush()
	var wg sync.WaitGroup
	var mu sync.Mutex
	start := make(chan struct{})
	for w := range jobs {
		wg.Add(1)
		go func(js []job) {
			defer wg.Done()
			<-start
			for _, j := range js {
				acc, resps, log, flags := s.do(j.q)
				mu.Lock()
				fmt.Fprintf(out, "K\t%s\t%s %s %s\t%s\t%s\t%s\n", j.line, acc, resps, log, flags, j.q.class_, strconv.Quote(j.q.text))
				mu.Unlock()
			}
		}(jobs[w])
	}
	close(start)
	wg.Wait()
	fmt.Fprintf(out, "E\tinvalidAdds=%d\n", atomic.LoadInt64(&invalidAdds))
}

// window: F03's semantic window. Every try starts from the initial rule list, then `workers` goroutines
// send their first requests at once; half of them send a document with an unknown field. Such a request
// being accepted means Validate ran without any field-existence rule. The executors of the process are a
// configuration dimension (gqlparser's rule list is global to the process):
//
//	try%3 == 0  one executor with SetDisableSuggestion(true), all workers on it
//	try%3 == 1  executor A with SetDisableSuggestion(true) gets the valid documents (its first uncached
//	            requests swap the rule), executor B with suggestions ON gets the invalid ones, repeatedly
//	try%3 == 2  two executors with SetDisableSuggestion(true), the workers alternate between them
func window(tries, workers int) {
	bad := "{ nope_unknown_field }"
	good := "{ name }"
	configs := []string{"one executor (disableSuggestion)", "executor A (disableSuggestion) gets the valid documents, executor B (suggestions on) the invalid ones", "two executors (both disableSuggestion)"}
	accepted, poisoned := 0, 0
	var panics, goodRejected int64
	first, firstPanic := "", ""
	var pmu sync.Mutex
	for t := 0; t < tries; t++ {
		resetRules()
		cfg := t % 3
		var cmu sync.Mutex
		newEx := func(disable bool) (*executor.Executor, graphql.MapCache[*ast.QueryDocument]) {
			ex := executor.New(es)
			cache := graphql.MapCache[*ast.QueryDocument]{}
			ex.SetQueryCache(lockedCache{&cmu, cache})
			ex.SetDisableSuggestion(disable)
			return ex, cache
		}
		exA, cacheA := newEx(true)
		exB, cacheB := exA, cacheA
		switch cfg {
		case 1:
			exB, cacheB = newEx(false)
		case 2:
			exB, cacheB = newEx(true)
		}
		var wg sync.WaitGroup
		start := make(chan struct{})
		var acc int64
		for w := 0; w < workers; w++ {
			wg.Add(1)
			go func(w int) {
				defer wg.Done()
				q, ex, reps := good, exA, 1
				if w%2 == 0 {
					q = bad
				}
				switch cfg {
				case 1:
					if q == bad {
						ex, reps = exB, 12 // a rejected document is never cached: every repetition validates
					}
				case 2:
					if w%4 >= 2 {
						ex = exB
					}
				}
				defer func() {
					if p := recover(); p != nil {
						atomic.AddInt64(&panics, 1)
						pmu.Lock()
						if firstPanic == "" {
							firstPanic = fmt.Sprintf("try %d [%s]: CreateOperationContext(`%s`) panicked: %v", t, configs[cfg], q, p)
						}
						pmu.Unlock()
					}
				}()
				<-start
				for i := 0; i < reps; i++ {
					_, errs := ex.CreateOperationContext(graphql.StartOperationTrace(context.Background()), &graphql.RawParams{Query: q})
					if q == bad && len(errs) == 0 {
						atomic.AddInt64(&acc, 1)
					}
					if q == good && len(errs) != 0 {
						atomic.AddInt64(&goodRejected, 1)
					}
				}
			}(w)
		}
		close(start)
		wg.Wait()
		if atomic.LoadInt64(&panics) > 0 {
			// a torn rule slice may have been left behind: the process state is beyond repair, stop here
			tries = t + 1
			break
		}
		if acc > 0 {
			accepted++
			if first == "" {
				first = fmt.Sprintf("try %d [%s]: %d concurrent first requests `%s` passed validation", t, configs[cfg], acc, bad)
			}
			_, okA := cacheA[bad]
			_, okB := cacheB[bad]
			if okA || okB {
				poisoned++
			}
		}
	}
	func() {
		defer func() { _ = recover() }()
		resetRules()
	}()
	fmt.Fprintf(out, "W\ttries=%d\tworkers=%d\taccepted_tries=%d\tcache_poisoned=%d\tpanics=%d\tgood_rejected=%d\t%s\t%s\n", tries, workers, accepted, poisoned, panics, goodRejected, first, firstPanic)
}

type lockedCache struct {
	mu *sync.Mutex
	m  graphql.MapCache[*ast.QueryDocument]
}

func (c lockedCache) Get(ctx context.Context, k string) (*ast.QueryDocument, bool) {
	c.mu.Lock()
	defer c.mu.Unlock()
	return c.m.Get(ctx, k)
}
func (c lockedCache) Add(ctx context.Context, k string, v *ast.QueryDocument) {
	c.mu.Lock()
	defer c.mu.Unlock()
	c.m.Add(ctx, k, v)
}

func main() {
	tier := flag.String("tier", "quick", "")
	seedS := flag.String("seed", "1", "")
	mode := flag.String("mode", "seq", "")
	disable := flag.Bool("disable", false, "")
	workers := flag.Int("workers", 8, "")
	per := flag.Int("per", 50, "")
	tries := flag.Int("tries", 2000, "")
	flag.Parse()
	seed, _ := strconv.ParseUint(*seedS, 10, 64)
	defer out.Flush()
	switch *mode {
	case "seq":
		seq(*tier, seed)
	case "conc":
		conc(seed, *disable, *workers, *per)
	case "window":
		window(*tries, *workers)
	}
}
