// Near-key siblings and the parser token limit (round 4).
//
// The query cache maps the RAW query text to a validated document, and a hit skips parsing and validation.
// The dimension exercised here: texts that a "harmless" normalisation of the cache key (collapsing / trimming
// whitespace, unifying line terminators, folding case, cutting the key to a prefix) would identify although
// gqlparser tells them apart. For a base text the generator derives siblings that differ from it ONLY in
//
//   - the kind of one separator between two tokens (blank, tab, line terminators, comma, BOM, and characters
//     Go's unicode.IsSpace accepts but GraphQL does not: NBSP, VT, FF, U+2028, U+0085),
//   - separators at the edges of the text,
//   - what terminates a `#` comment (a line terminator: the rest of the text is lexed; anything else: the
//     comment swallows the rest, which either no longer parses or is a different valid document),
//   - white space inside a string literal (a raw line terminator inside "..." is a syntax error, inside a
//     block string it is not),
//   - letter case of one name or keyword,
//   - the tail after a long common prefix.
//
// Whether a sibling is valid is never decided here: the oracle (classify) asks gqlparser. A session's pool gets a
// base together with some of its siblings, so the histories base -> sibling and sibling -> base occur with every
// cache kind.
//
// Token limit: Executor.SetParserTokenLimit is a session dimension. `need(text)` is the smallest limit under
// which gqlparser parses the text like it does without a limit (found by asking gqlparser, on the oracle's own
// copy); limits are drawn around the `need` of the session's pool texts.
package main

import (
	"strings"
	"unicode"

	"github.com/vektah/gqlparser/v2/ast"
	"github.com/vektah/gqlparser/v2/parser"

	"verifharness/internal/rng"
)

// ------------------------------------------------------------------ token need (oracle)

func sameParse(text string, limit int, wantErr string) bool {
	_, err := parser.ParseQueryWithTokenLimit(&ast.Source{Input: text}, limit)
	got := ""
	if err != nil {
		got = err.Error()
	}
	return got == wantErr
}

// tokenNeed: smallest n >= 1 such that parsing with token limit n gives what parsing without a limit gives
// (the parser counts every token it consumes, comments included, and fails with a plain error once the
// count exceeds the limit).
func tokenNeed(text string) int {
	_, err := parser.ParseQuery(&ast.Source{Input: text})
	want := ""
	if err != nil {
		want = err.Error()
	}
	hi := 1
	for !sameParse(text, hi, want) {
		hi *= 2
		if hi > 1<<20 {
			panic("tokenNeed: no limit reproduces the unlimited parse of " + text)
		}
	}
	lo := hi / 2 // fails (or 0)
	for lo+1 < hi {
		mid := (lo + hi) / 2
		if sameParse(text, mid, want) {
			hi = mid
		} else {
			lo = mid
		}
	}
	return hi
}

// pickLimit: a token limit for a session whose pool is `pool`: none, or around the need of a pool text
func pickLimit(r *rng.R, pool []genq) int {
	switch r.Below(10) {
	case 0, 1, 2, 3, 4, 5:
		return 0
	case 6:
		return pick(r, []int{1, 2, 3, 5, 1000})
	default:
		n := classify(pick(r, pool).text).need + pick(r, []int{-3, -2, -1, -1, 0, 0, 1, 2})
		if n < 1 {
			n = 1
		}
		return n
	}
}

// ------------------------------------------------------------------ siblings

type span struct{ from, to int }

// scan: the separator runs between tokens (outside strings and comments) and the string literals of a text
func scan(t string) (seps []span, strs []span) {
	i := 0
	for i < len(t) {
		c := t[i]
		switch {
		case c == '"':
			j := i + 1
			if strings.HasPrefix(t[i:], `"""`) {
				k := strings.Index(t[i+3:], `"""`)
				if k < 0 {
					return seps, strs
				}
				j = i + 3 + k + 3
			} else {
				for j < len(t) && t[j] != '"' && t[j] != '\n' {
					if t[j] == '\\' {
						j++
					}
					j++
				}
				j++
			}
			if j > len(t) {
				j = len(t)
			}
			strs = append(strs, span{i, j})
			i = j
		case c == '#':
			for i < len(t) && t[i] != '\n' && t[i] != '\r' {
				i++
			}
		case c == ' ' || c == '\t' || c == '\n' || c == '\r' || c == ',':
			j := i
			for j < len(t) && (t[j] == ' ' || t[j] == '\t' || t[j] == '\n' || t[j] == '\r' || t[j] == ',') {
				j++
			}
			seps = append(seps, span{i, j})
			i = j
		default:
			i++
		}
	}
	return seps, strs
}

// separator kinds: ignored by GraphQL (first row), white space for Go but not for GraphQL (second row)
var sepKinds = []string{" ", "\t", "\n", "\r", "\r\n", ",", "  ", " \n ", "\ufeff", "",
	"\u00a0", "\v", "\f", "\u2028", "\u0085", "\u3000"}

// what may follow a comment's text: line terminators end it, the others do not
var commentEnds = []string{"\n", "\r", "\r\n", " ", "\t", "  ", "\u2028", "\u0085", "\v", ",", "\u00a0"}

var stringInsides = []string{"x y", "x  y", "x\ty", "x\ny", "x\r\ny", " x", "x ", "x\u00a0y"}

func sib(base genq, text, class_ string) genq {
	return genq{text: text, class_: class_, ops: base.ops, vars: base.vars}
}

// genSiblings: up to n texts that differ from g.text only in one of the ways listed at the top of the file
func genSiblings(r *rng.R, g genq, n int) []genq {
	t := g.text
	seps, strs := scan(t)
	var l []genq
	for tries := 0; len(l) < n && tries < 4*n+4; tries++ {
		var s genq
		switch r.Below(8) {
		case 0, 1: // kind of one separator
			if len(seps) == 0 {
				continue
			}
			sp := pick(r, seps)
			s = sib(g, t[:sp.from]+pick(r, sepKinds)+t[sp.to:], "sib-separator-kind")
		case 2: // separators at the edges
			k := pick(r, sepKinds)
			if r.Below(2) == 0 {
				s = sib(g, k+t, "sib-edge")
			} else {
				s = sib(g, t+k, "sib-edge")
			}
		case 3, 4: // a comment and what ends it: both variants join the pool
			if len(seps) == 0 {
				continue
			}
			sp := pick(r, seps)
			cm := pick(r, []string{"# c", "#", "# the user's name", "#}"})
			l = append(l, sib(g, t[:sp.from]+" "+cm+"\n"+t[sp.to:], "sib-comment-eol"))
			s = sib(g, t[:sp.from]+" "+cm+pick(r, commentEnds)+t[sp.to:], "sib-comment-end-kind")
		case 5: // white space inside a string literal
			if len(strs) == 0 {
				continue
			}
			sp := pick(r, strs)
			in := pick(r, stringInsides)
			if r.Below(3) == 0 {
				s = sib(g, t[:sp.from]+`"""`+in+`"""`+t[sp.to:], "sib-block-string-ws")
			} else {
				s = sib(g, t[:sp.from]+`"`+in+`"`+t[sp.to:], "sib-string-ws")
			}
		case 6: // letter case
			switch r.Below(3) {
			case 0:
				s = sib(g, strings.ToUpper(t), "sib-case")
			case 1:
				s = sib(g, strings.ToLower(t), "sib-case")
			default:
				var pos []int
				for i, c := range t {
					if c < 128 && unicode.IsLetter(c) {
						pos = append(pos, i)
					}
				}
				if len(pos) == 0 {
					continue
				}
				i := pick(r, pos)
				c := rune(t[i])
				if unicode.IsUpper(c) {
					c = unicode.ToLower(c)
				} else {
					c = unicode.ToUpper(c)
				}
				s = sib(g, t[:i]+string(c)+t[i+1:], "sib-case")
			}
		default: // same long prefix, different tail
			i := strings.LastIndex(t, "}")
			if i < 0 {
				continue
			}
			s = sib(g, t[:i]+pick(r, []string{"zzzz }", "name }", "} }", "", "}}", "... on Nope { id } }"}), "sib-tail")
		}
		if s.text == t {
			continue
		}
		l = append(l, s)
	}
	return l
}

// widenPool: with probability 1/2 a pool member is joined by 1-3 of its siblings
func widenPool(r *rng.R, pool []genq) []genq {
	if r.Below(2) == 0 {
		return pool
	}
	g := pick(r, pool)
	if classify(g.text).nField+classify(g.text).nOther != 0 || !classify(g.text).parses {
		g = pick(r, pool) // favour valid bases, keep invalid ones possible
	}
	return append(pool, genSiblings(r, g, 1+r.Below(3))...)
}
