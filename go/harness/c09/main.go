// Harness for C09: drives the REAL handler.Server (+ the real transports, executor and gqlparser) in
// process through net/http/httptest with a hand-built ExecutableSchema that records every execution,
// and prints one TSV line per case:
//
//	c  <abstract request for the Lean model>  <status ct body exec>  <json: the concrete request>
//
// plus table-tie lines for the unexported pure functions (statusFor, statusForGraphQLResponse,
// determineResponseContentType) reached through the verif-tagged export file:
//
//	st <codes>          <statusFor> <statusForGraphQLResponse>
//	ct <explicit> <acc> <content type>
//
// The abstract request is what the Lean model `GqlgenVerif.Http.serve` takes; checks/c09.py pipes it to
// the driver and diffs. Nothing here decides the property; the body classification (valid JSON GraphQL
// response or not) is the only Go-side oracle.
package main

import (
	"bufio"
	"bytes"
	"context"
	"crypto/sha256"
	"encoding/hex"
	"encoding/json"
	"flag"
	"fmt"
	"mime"
	"mime/multipart"
	"net/http"
	"net/http/httptest"
	"net/textproto"
	"net/url"
	"os"
	"sort"
	"strings"

	"github.com/vektah/gqlparser/v2"
	"github.com/vektah/gqlparser/v2/ast"
	"github.com/vektah/gqlparser/v2/gqlerror"
	"github.com/vektah/gqlparser/v2/parser"
	"github.com/vektah/gqlparser/v2/validator"

	"github.com/99designs/gqlgen/graphql"
	"github.com/99designs/gqlgen/graphql/errcode"
	"github.com/99designs/gqlgen/graphql/handler"
	"github.com/99designs/gqlgen/graphql/handler/extension"
	"github.com/99designs/gqlgen/graphql/handler/lru"
	"github.com/99designs/gqlgen/graphql/handler/transport"
	"verifharness/internal/rng"
)

var out = bufio.NewWriterSize(os.Stdout, 1<<20)

var schema = gqlparser.MustLoadSchema(&ast.Source{Input: `
	type Query { name: String! find(id: Int!): String! banned: String! }
	type Mutation { name: String! find(id: Int!): String! banned: String! }
	type Subscription { name: String! find(id: Int!): String! banned: String! }
`})

// a CUSTOM validation rule (gqlparser's rule list is process wide): the schema has the field, the rule rejects it
func init() {
	validator.AddRule("VerifNoBannedField", func(observers *validator.Events, addError validator.AddErrFunc) {
		observers.OnField(func(walker *validator.Walker, field *ast.Field) {
			if field.Name == "banned" {
				addError(validator.Message("field banned by a custom rule"), validator.At(field.Position))
			}
		})
	})
}

// ---------------------------------------------------------------- server configuration

// scfg: the options of handler.Server that change WHICH error value reaches the transport
type scfg struct {
	TokenLimit int    `json:"parser_token_limit,omitempty"` // SetParserTokenLimit: the parser fails with a PLAIN error
	NoSuggest  bool   `json:"disable_suggestion,omitempty"` // SetDisableSuggestion: validation rule swap
	Presenter  string `json:"error_presenter,omitempty"`    // SetErrorPresenter: strip | recode | uncode | rewrap
	Ctx        string `json:"context_mutator,omitempty"`    // an OperationContextMutator: complexity0 | complexity9 | deny-nocode | deny-custom | deny-validation
}

type denyExt struct{ code string }

func (denyExt) ExtensionName() string                          { return "VerifDeny" }
func (denyExt) Validate(schema graphql.ExecutableSchema) error { return nil }
func (d denyExt) MutateOperationContext(ctx context.Context, opCtx *graphql.OperationContext) *gqlerror.Error {
	e := gqlerror.Errorf("denied by an operation context mutator")
	if d.code != "" {
		errcode.Set(e, d.code)
	}
	return e
}

// ctxCode: the code of the error the configured context mutator refuses every request with ("" = it refuses none)
func (c scfg) ctxCode() string {
	switch c.Ctx {
	case "complexity0": // every operation of the harness documents has complexity 1 > 0
		return "COMPLEXITY_LIMIT_EXCEEDED"
	case "deny-nocode":
		return "nocode"
	case "deny-custom":
		return "VERIF_DENIED"
	case "deny-validation":
		return errcode.ValidationFailed
	}
	return ""
}

func applyCfg(srv *handler.Server, c scfg) {
	if c.TokenLimit != 0 {
		srv.SetParserTokenLimit(c.TokenLimit)
	}
	if c.NoSuggest {
		srv.SetDisableSuggestion(true)
	}
	switch c.Presenter {
	case "strip": // hides everything: the body has no code any more, the status must not follow
		srv.SetErrorPresenter(func(ctx context.Context, err error) *gqlerror.Error {
			return &gqlerror.Error{Message: "internal error"}
		})
	case "recode": // stamps a protocol code on EVERY error, in place (resolver errors, APQ misses …)
		srv.SetErrorPresenter(func(ctx context.Context, err error) *gqlerror.Error {
			e := graphql.DefaultErrorPresenter(ctx, err)
			errcode.Set(e, errcode.ParseFailed)
			return e
		})
	case "uncode": // removes the code in place
		srv.SetErrorPresenter(func(ctx context.Context, err error) *gqlerror.Error {
			e := graphql.DefaultErrorPresenter(ctx, err)
			if e.Extensions != nil {
				delete(e.Extensions, "code")
			}
			return e
		})
	case "rewrap":
		srv.SetErrorPresenter(func(ctx context.Context, err error) *gqlerror.Error {
			return &gqlerror.Error{Message: "wrapped: " + err.Error(), Extensions: map[string]any{"code": "WRAPPED"}}
		})
	}
	switch c.Ctx {
	case "complexity0":
		srv.Use(extension.FixedComplexityLimit(0))
	case "complexity9":
		srv.Use(extension.FixedComplexityLimit(9))
	case "deny-nocode":
		srv.Use(denyExt{})
	case "deny-custom":
		srv.Use(denyExt{"VERIF_DENIED"})
	case "deny-validation":
		srv.Use(denyExt{errcode.ValidationFailed})
	}
}

// effective: what the configured server makes of the document. With a parser token limit the class of a text is
// the parser's own answer under that limit (library code): no error - as labelled; a *gqlerror.Error - P; a plain
// error (`exceeded token limit`) - PL.
func (k kase) effective() kase {
	if k.cfg.TokenLimit > 0 {
		if _, err := parser.ParseQueryWithTokenLimit(&ast.Source{Input: k.d.text}, k.cfg.TokenLimit); err != nil {
			_, isGql := err.(*gqlerror.Error)
			k.d = doc{class: "P", plain: !isGql, text: k.d.text, vars: k.d.vars}
		}
	}
	return k
}

// ---------------------------------------------------------------- executable schema that records

type recSchema struct {
	log     []string
	execErr bool
}

func (s *recSchema) Schema() *ast.Schema { return schema }
func (s *recSchema) Complexity(ctx context.Context, typeName, fieldName string, childComplexity int, args map[string]any) (int, bool) {
	return 1, true
}
func (s *recSchema) Exec(ctx context.Context) graphql.ResponseHandler {
	op := graphql.GetOperationContext(ctx).Operation
	s.log = append(s.log, opTok(string(op.Operation), op.Name))
	if s.execErr {
		return graphql.OneShot(graphql.ErrorResponse(ctx, "resolver failed"))
	}
	return graphql.OneShot(&graphql.Response{Data: []byte(`{"name":"x"}`)})
}

func opTok(kind, name string) string { return kind[:1] + "." + name }

// ---------------------------------------------------------------- abstract case

type tcfg struct {
	Kind   string `json:"kind"` // O G P Q U M
	CT     string `json:"ct,omitempty"`
	Others bool   `json:"others,omitempty"`
}

type op struct{ kind, name string }

type doc struct {
	class string // P parse error, I validation error, V valid (ops may be empty = no operation)
	ops   []op
	text  string
	vars  bool // operations declare a required variable $id
	plain bool // class P: the parser's error is a plain error (token limit), not a *gqlerror.Error
}

type accPart struct{ raw, class string } // class "!" = mime.ParseMediaType fails

type kase struct {
	srv     []tcfg
	method  string
	upgrade bool
	rctRaw  string // request Content-Type header ("" = absent)
	rct     string // class
	form    string // carrier sub-form
	accept  []accPart
	accSet  bool
	dec     string
	apq     string // "", miss, hit, mismatch
	d       doc
	opName  string
	varsBad bool
	execErr bool
	qcache  bool
	// the envelope carries an operationName key even when the name is empty (`"operationName": ""`)
	opExplicit bool
	cfg        scfg
}

func hdrMap(t tcfg) map[string][]string {
	if t.CT == "" && !t.Others {
		return nil
	}
	m := map[string][]string{}
	if t.CT != "" {
		m["Content-Type"] = []string{t.CT}
	}
	if t.Others {
		m["X-Verif"] = []string{"1"}
	}
	return m
}

func mkTransport(t tcfg) graphql.Transport {
	h := hdrMap(t)
	switch t.Kind {
	case "O":
		return transport.Options{}
	case "G":
		return transport.GET{ResponseHeaders: h}
	case "P":
		return transport.POST{ResponseHeaders: h}
	case "Q":
		return transport.GRAPHQL{ResponseHeaders: h}
	case "U":
		return transport.UrlEncodedForm{ResponseHeaders: h}
	case "M":
		return transport.MultipartForm{ResponseHeaders: h, MaxUploadSize: 4096}
	}
	panic("kind " + t.Kind)
}

// ---------------------------------------------------------------- documents

var fieldOf = map[string]string{"query": "Query", "mutation": "Mutation", "subscription": "Subscription"}

func opText(o op, vars bool, shorthand bool) string {
	if shorthand && o.kind == "query" && o.name == "" && !vars {
		return "{ name }"
	}
	s := o.kind
	if o.name != "" {
		s += " " + o.name
	}
	if vars {
		return s + "($id: Int!) { find(id: $id) }"
	}
	return s + " { name }"
}

func validDoc(ops []op, vars bool) doc {
	parts := make([]string, len(ops))
	for i, o := range ops {
		parts[i] = opText(o, vars, len(ops) == 1)
	}
	return doc{class: "V", ops: ops, text: strings.Join(parts, " "), vars: vars}
}

var kinds = []string{"query", "mutation", "subscription"}

func badDocs() []doc {
	return []doc{
		{class: "P", text: "query a { name"},
		{class: "P", text: "{ name } }"},
		{class: "P", text: "mutation { name"},
		{class: "I", text: "query a { nosuch }", ops: []op{{"query", "a"}}},
		{class: "I", text: "mutation { nosuch }", ops: []op{{"mutation", ""}}},
		{class: "I", text: "{ name } mutation b { name }", ops: []op{{"query", ""}, {"mutation", "b"}}},       // lone anonymous operation
		{class: "I", text: "query a { name } mutation a { name }", ops: []op{{"query", "a"}, {"mutation", "a"}}}, // duplicate operation names
		{class: "I", text: "query a { name } query a { name }", ops: []op{{"query", "a"}, {"query", "a"}}},
		{class: "V", text: ""}, // no operation provided
		{class: "V", text: "fragment f on Query { name }"},
		{class: "I", text: "{ banned }", ops: []op{{"query", ""}}},                    // rejected by the CUSTOM validation rule only
		{class: "I", text: "mutation m { banned }", ops: []op{{"mutation", "m"}}},     // "
		{class: "I", text: "{ nam }", ops: []op{{"query", ""}}},                       // FieldsOnCorrectType with a suggestion (the rule SetDisableSuggestion swaps)
		{class: "I", text: "query q { name ... on Querry { name } }", ops: []op{{"query", "q"}}}, // unknown type with a suggestion
	}
}

// ---------------------------------------------------------------- request construction

type built struct {
	req   *http.Request
	descr map[string]any
	// what the carrier actually carries (the model is told this)
	opName  string
	varsOK  bool
	dec     string
	paramEr bool
}

func sha(q string) string { h := sha256.Sum256([]byte(q)); return hex.EncodeToString(h[:]) }

func (k *kase) envelope(query string, withQuery bool) map[string]any {
	m := map[string]any{}
	if withQuery {
		m["query"] = query
	}
	if k.opName != "" || k.opExplicit {
		m["operationName"] = k.opName
	}
	if k.d.vars {
		if k.varsBad {
			m["variables"] = map[string]any{}
		} else {
			m["variables"] = map[string]any{"id": 1}
		}
	}
	switch k.apq {
	case "miss", "hit", "register":
		m["extensions"] = map[string]any{"persistedQuery": map[string]any{"version": 1, "sha256Hash": sha(query)}}
	case "mismatch":
		m["extensions"] = map[string]any{"persistedQuery": map[string]any{"version": 1, "sha256Hash": sha(query + " ")}}
	}
	return m
}

func js(v any) string { b, _ := json.Marshal(v); return string(b) }

// build constructs the concrete HTTP request carrying the abstract case.
func (k *kase) build() built {
	kk := *k
	withQuery := kk.apq == "" || kk.apq == "mismatch" || kk.apq == "register"
	b := built{opName: kk.opName, varsOK: !kk.d.vars || !kk.varsBad, dec: kk.dec}
	var body []byte
	target := "/graphql"
	q := kk.d.text
	env := kk.envelope(q, withQuery)
	carrier := "other"
	if kk.method == "GET" {
		carrier = "get"
	} else if kk.method == "POST" {
		carrier = kk.rct
	}
	rctRaw := kk.rctRaw
	switch carrier {
	case "get":
		v := url.Values{}
		for key, val := range env {
			if s, ok := val.(string); ok {
				v.Set(key, s)
			} else {
				v.Set(key, js(val))
			}
		}
		raw := v.Encode()
		switch kk.dec {
		case "getQuery":
			raw += "&x=%zz"
		case "getVars":
			v.Set("variables", "{bad")
			raw = v.Encode()
		case "getExt":
			v.Set("extensions", "[1")
			raw = v.Encode()
		}
		target += "?" + raw
	case "json":
		body = []byte(js(env))
		if kk.dec == "postJson" {
			body = []byte(`{"query": ` + q)
		}
	case "graphql":
		// carries the query text only
		b.opName = ""
		b.varsOK = !kk.d.vars
		switch kk.form {
		case "prefixed":
			body = []byte("query=" + q)
		case "escaped": // only for text starting with "{"
			body = []byte(url.QueryEscape(q))
		case "prefixed-escaped":
			body = []byte("query=" + url.QueryEscape(q))
		default:
			body = []byte(q)
		}
		if kk.dec == "gqlEscape" {
			body = []byte("%7B%zz name }")
		}
	case "urlencoded":
		switch kk.form {
		case "json":
			if _, ok := env["query"]; !ok {
				env["query"] = "" // the json form is recognised by the substring "query":
			}
			body = []byte(js(env))
			if kk.dec == "ueJson" {
				body = []byte(`{"query": ` + q)
			}
		case "escaped": // requires text starting with "{"
			b.opName = ""
			b.varsOK = !kk.d.vars
			body = []byte("query=" + url.QueryEscape(q))
			if kk.dec == "ueEscape" {
				body = []byte("query=%7B%zz")
			}
		case "bare":
			b.opName = ""
			b.varsOK = !kk.d.vars
			body = []byte(q)
		default: // plain
			b.opName = ""
			b.varsOK = !kk.d.vars
			body = []byte("query=" + q)
		}
	case "multipart":
		var buf bytes.Buffer
		mw := multipart.NewWriter(&buf)
		field := func(name, val string) {
			w, _ := mw.CreateFormField(name)
			w.Write([]byte(val))
		}
		file := func(name string) {
			h := textproto.MIMEHeader{}
			h.Set("Content-Disposition", fmt.Sprintf(`form-data; name=%q; filename="f.txt"`, name))
			h.Set("Content-Type", "text/plain")
			w, _ := mw.CreatePart(h)
			w.Write([]byte("hello"))
		}
		ops := js(env)
		switch kk.dec {
		case "mpFirst":
			field("map", "{}")
			field("operations", ops)
		case "mpOpsJson":
			field("operations", `{"query": `)
			field("map", "{}")
		case "mpSecond":
			field("operations", ops)
			field("other", "{}")
		case "mpMapJson":
			field("operations", ops)
			field("map", "{bad")
		case "mpUnknownFile":
			field("operations", ops)
			field("map", "{}")
			file("0")
		case "mpMissingFile":
			field("operations", ops)
			field("map", `{"0":["variables.file"]}`)
		case "mpTooLarge":
			field("operations", ops)
			field("map", "{}")
			field("pad", strings.Repeat("x", 5000))
		default:
			field("operations", ops)
			field("map", "{}")
		}
		mw.Close()
		body = buf.Bytes()
		rctRaw = mw.FormDataContentType()
		if kk.dec == "mpNoBoundary" {
			rctRaw = "multipart/form-data"
		}
	default:
		body = []byte(js(env))
	}
	r := httptest.NewRequest(kk.method, target, bytes.NewReader(body))
	if rctRaw != "" {
		r.Header.Set("Content-Type", rctRaw)
	}
	if kk.upgrade {
		r.Header.Set("Upgrade", "websocket")
	}
	if kk.accSet {
		raws := make([]string, len(kk.accept))
		for i, p := range kk.accept {
			raws[i] = p.raw
		}
		r.Header.Set("Accept", strings.Join(raws, ","))
	}
	b.req = r
	b.descr = map[string]any{"method": kk.method, "target": target, "headers": r.Header, "body": string(body), "server": kk.srv}
	if kk.cfg != (scfg{}) {
		b.descr["config"] = kk.cfg
	}
	return b
}

// ---------------------------------------------------------------- observation

// recorder is a minimal http.ResponseWriter with net/http's semantics for what reaches the wire: the
// status and headers are fixed by the first WriteHeader/Write; unlike httptest.ResponseRecorder it does no
// Content-Type sniffing of its own, so "no Content-Type was set" stays observable.
type recorder struct {
	hdr    http.Header
	sent   http.Header
	status int
	body   bytes.Buffer
}

func (r *recorder) Header() http.Header { return r.hdr }
func (r *recorder) WriteHeader(code int) {
	if r.sent != nil {
		return
	}
	r.status = code
	r.sent = r.hdr.Clone()
}
func (r *recorder) Write(b []byte) (int, error) {
	r.WriteHeader(200)
	return r.body.Write(b)
}

func classifyBody(b []byte) string {
	if len(b) == 0 {
		return "empty"
	}
	var v any
	dec := json.NewDecoder(bytes.NewReader(b))
	if err := dec.Decode(&v); err != nil {
		return "notjson"
	}
	if dec.More() {
		return "notjson"
	}
	m, ok := v.(map[string]any)
	if !ok {
		return "notgraphql"
	}
	for key := range m {
		switch key {
		case "errors", "data", "extensions", "hasNext", "label", "path":
		default:
			return "notgraphql"
		}
	}
	errs, hasErrs := m["errors"]
	if hasErrs {
		l, ok := errs.([]any)
		if !ok || len(l) == 0 {
			return "notgraphql"
		}
		for _, e := range l {
			em, ok := e.(map[string]any)
			if !ok {
				return "notgraphql"
			}
			if _, ok := em["message"].(string); !ok {
				return "notgraphql"
			}
		}
	}
	data, hasData := m["data"]
	if hasData && data != nil {
		if _, ok := data.(map[string]any); !ok {
			return "notgraphql"
		}
		return "data"
	}
	if hasErrs {
		return "errors"
	}
	return "notgraphql"
}

func modelSrv(srv []tcfg) string {
	if len(srv) == 0 {
		return "-"
	}
	p := make([]string, len(srv))
	for i, t := range srv {
		ct := t.CT
		if ct == "" {
			ct = "~"
		}
		o := "0"
		if t.Others {
			o = "1"
		}
		p[i] = t.Kind + "/" + strings.ReplaceAll(ct, "/", "%") + "/" + o
	}
	return strings.Join(p, ",")
}

var ncase int

// newServer builds the server of a single-request case.
func newServer(k kase) (*handler.Server, *recSchema) {
	es := &recSchema{execErr: k.execErr}
	srv := handler.New(es)
	for _, t := range k.srv {
		srv.AddTransport(mkTransport(t))
	}
	applyCfg(srv, k.cfg)
	if k.qcache {
		srv.SetQueryCache(lru.New[*ast.QueryDocument](16))
	}
	if k.apq != "" {
		cache := graphql.MapCache[string]{}
		if k.apq == "hit" { // the text was registered earlier: the request carries only its hash
			cache[sha(k.d.text)] = k.d.text
		}
		srv.Use(extension.AutomaticPersistedQuery{Cache: cache})
	}
	return srv, es
}

func run(k kase) {
	if dry {
		trace = append(trace, step{k: k, sess: -1})
		return
	}
	srv, es := newServer(k)
	in, obs, descr := serveOne(srv, es, k)
	fmt.Fprintf(out, "c\t%s\t%s\t%s\t%d\t-\n", in, obs, js(descr), ncase-1)
}

// serveOne sends the request of k to srv and answers the abstract request (for the Lean model), the
// observation and the concrete request.
func serveOne(srv http.Handler, es *recSchema, k kase) (string, string, map[string]any) {
	ncase++
	es.log = nil
	es.execErr = k.execErr
	k = k.effective()
	b := k.build()
	w := &recorder{hdr: http.Header{}}
	func() {
		defer func() {
			if e := recover(); e != nil {
				es.log = append(es.log, fmt.Sprintf("PANIC(%v)", e))
			}
		}()
		srv.ServeHTTP(w, b.req)
	}()
	w.WriteHeader(200) // a handler that never writes answers 200 with the headers set so far
	cts := w.sent.Values("Content-Type")
	ct := "none"
	if len(cts) > 0 {
		ct = strings.Join(cts, "|")
	}
	body := w.body.Bytes()
	sniff := ""
	if len(cts) == 0 && len(body) > 0 {
		sniff = http.DetectContentType(body) // what net/http puts on the wire when no Content-Type was set
	}
	exec := "-"
	if len(es.log) > 0 {
		exec = strings.Join(es.log, ",")
	}
	obs := fmt.Sprintf("%d %s %s %s", w.status, strings.ReplaceAll(ct, " ", ""), classifyBody(body), exec)
	in := abstractOf(k, b)
	b.descr["apq"] = k.apq
	b.descr["sniffed"] = sniff
	b.descr["response_body"] = string(body)
	return in, obs, b.descr
}

// abstractOf is the request as the Lean model `serve` takes it.
func abstractOf(k kase, b built) string {
	acc := "~"
	if k.accSet && b.req.Header.Get("Accept") != "" { // an empty Accept value is an absent one
		p := make([]string, len(k.accept))
		for i, a := range k.accept {
			p[i] = strings.ReplaceAll(a.class, "/", "%")
		}
		acc = strings.Join(p, ",")
	}
	opn := b.opName
	if opn == "" {
		opn = "~"
	}
	dec := b.dec
	if dec == "" {
		dec = "~"
	}
	param := "0"
	switch k.apq {
	case "miss":
		param = "PERSISTED_QUERY_NOT_FOUND" // the code APQ stamps on its error
	case "mismatch":
		param = "nocode"
	}
	if c := k.cfg.ctxCode(); c != "" && param == "0" {
		param = "ctx:" + c // reached only by a request nothing else stops (the model's gate decides that)
	}
	up, vo, ee := "0", "0", "ok"
	if k.upgrade {
		up = "1"
	}
	if b.varsOK {
		vo = "1"
	}
	if k.execErr {
		ee = "err"
	}
	return strings.Join([]string{modelSrv(k.srv), absMethod(k.method), up, k.rct, acc, dec, param, docTok(k.d, false), opn, vo, ee}, " ")
}

func absMethod(m string) string {
	switch m {
	case "GET", "POST", "HEAD", "OPTIONS":
		return m
	}
	return "OTHER"
}

// docTok: the document outcome class; withOps also names the operations of an invalid document
func docTok(d doc, withOps bool) string {
	if d.class == "V" || (withOps && d.class == "I") {
		p := make([]string, len(d.ops))
		for i, o := range d.ops {
			p[i] = opTok(o.kind, o.name)
		}
		return d.class + strings.Join(p, ":")
	}
	if d.class == "P" && d.plain {
		return "PL"
	}
	return d.class
}

// ---------------------------------------------------------------- generators

var allKinds = []string{"O", "G", "P", "Q", "U", "M"}

func fullSrv(ct string, others bool) []tcfg {
	s := make([]tcfg, len(allKinds))
	for i, k := range allKinds {
		s[i] = tcfg{Kind: k, CT: ct, Others: others}
	}
	return s
}

var ctPool = []string{"", "application/json", "application/graphql-response+json", "application/json;charset=utf-8", "text/x-custom"}

var accPool = []accPart{
	{"application/json", "application/json"},
	{"application/graphql-response+json", "application/graphql-response+json"},
	{"*/*", "*/*"},
	{"application/*", "application/*"},
	{"text/html", "text/html"},
	{"application/json;q=0.5", "application/json"},
	{" application/graphql-response+json; charset=utf-8", "application/graphql-response+json"},
	{"APPLICATION/JSON", "application/json"},
	{"*/*;q=0.1", "*/*"},
	{"text/*", "text/*"},
	{"application/xml", "application/xml"},
	{"application/json+x", "application/json+x"},
	{";;", "!"},
	{"a/b/c", "!"},
	{"", "!"},
	{"application/json; q", "!"},
	{"multipart/mixed", "multipart/mixed"},
	{"text/event-stream", "text/event-stream"},
}

func checkPools() {
	for _, p := range accPool {
		mt, _, err := mime.ParseMediaType(strings.TrimSpace(p.raw))
		got := mt
		if err != nil {
			got = "!"
		}
		if got != p.class {
			panic(fmt.Sprintf("accept pool entry %q: class %q, mime says %q (%v)", p.raw, p.class, got, err))
		}
	}
	for _, p := range rctPool {
		mt, _, err := mime.ParseMediaType(p.raw)
		got := "other"
		switch {
		case err != nil:
			got = "invalid"
		case mt == "application/json":
			got = "json"
		case mt == "application/graphql":
			got = "graphql"
		case mt == "application/x-www-form-urlencoded":
			got = "urlencoded"
		case mt == "multipart/form-data":
			got = "multipart"
		}
		if got != p.class {
			panic(fmt.Sprintf("content-type pool entry %q: class %q, mime says %q", p.raw, p.class, got))
		}
	}
}

type rctEntry struct{ raw, class string }

var rctPool = []rctEntry{
	{"application/json", "json"},
	{"application/json; charset=utf-8", "json"},
	{"APPLICATION/JSON", "json"},
	{"application/graphql", "graphql"},
	{"application/graphql; charset=utf-8", "graphql"},
	{"application/x-www-form-urlencoded", "urlencoded"},
	{"multipart/form-data; boundary=x", "multipart"},
	{"text/plain", "other"},
	{"application/graphql-response+json", "other"},
	{"", "invalid"},
	{"application/json; charset", "invalid"},
	{"application/json/x", "invalid"},
	// surface shapes of the request Content-Type: case, whitespace, parameters, lists, near misses
	{"application/json;charset=UTF-8", "json"},
	{"application/json ; charset=utf-8", "json"},
	{" application/json", "json"},
	{"application/json\t", "json"},
	{"application/json;", "json"},
	{"Application/Json; Charset=\"utf-8\"", "json"},
	{"application/json; q=0.5", "json"},
	{"application/json; boundary=x", "json"},
	{"APPLICATION/GRAPHQL", "graphql"},
	{"application/graphql;charset=utf-8;q=1", "graphql"},
	{"application/x-www-form-urlencoded; charset=UTF-8", "urlencoded"},
	{"Application/X-WWW-Form-Urlencoded", "urlencoded"},
	{"MULTIPART/FORM-DATA; boundary=x", "multipart"},
	{"application/json,application/graphql", "invalid"},
	{"application/json, text/plain", "invalid"},
	{"application/jsonx", "other"},
	{"application/json+graphql", "other"},
	{"application/graphql+json", "other"},
	{"text/json", "other"},
	{"*/*", "other"},
	{"application/*", "other"},
	{"application/x-www-form-urlencodedx", "other"},
	{"multipart/mixed; boundary=x", "other"},
	{"json", "other"},
	{";application/json", "invalid"},
	{"application/ json", "invalid"},
}

func accepts(sel ...int) []accPart {
	a := make([]accPart, len(sel))
	for i, s := range sel {
		a[i] = accPool[s]
	}
	return a
}

// the accept sets of the exhaustive product
var accSets = [][]accPart{
	nil, // header absent
	accepts(0),
	accepts(1),
	accepts(2),
	accepts(4),          // nothing recognised
	accepts(4, 0, 1),    // first recognised wins: json
	accepts(12, 1, 0),   // unparsable part skipped, then gqlresp
	accepts(5, 1),       // q ignored
	accepts(3),
	accepts(14),
}

// ---------------------------------------------------------------- Accept headers: the full surface
//
// A header is a comma-joined list of parts; a part is a media range of one of six CATEGORIES (json, gqlresp, */*,
// application/*, a range the server cannot produce, an unparsable part) in some surface spelling: case, leading /
// trailing blanks and tabs, parameters (q-values incl. q=0, charset, quoted values, several parameters, a trailing
// semicolon). The class the model is given is mime.ParseMediaType's own answer for the trimmed part.

var accCats = [][]string{
	{"application/json"},
	{"application/graphql-response+json"},
	{"*/*"},
	{"application/*"},
	{"text/html", "image/webp", "text/*", "application/xml", "application/json+x", "application/graphql+json", "application/jsonx",
		"*/json", "application/graphql", "text/json", "application/graphql-response", "application/xhtml+xml", "text/event-stream", "multipart/mixed"},
	{"", " ", ";;", "a/b/c", "application/json; q", "application/json;q=", "/json", "application/", "application/json/", "app lication/json",
		"application/json;profile=\"a", "b\"", "*", "*/*/*"},
}

var accCatNames = []string{"json", "gqlresp", "any", "application-any", "unknown", "unparsable"}

func mkPart(raw string) accPart {
	mt, _, err := mime.ParseMediaType(strings.TrimSpace(raw))
	if err != nil {
		return accPart{raw, "!"}
	}
	return accPart{raw, mt}
}

// surface spells the media range `base` of category cat in a random way that keeps it what it is.
func surface(r *rng.R, cat int) accPart {
	base := accCats[cat][r.Below(len(accCats[cat]))]
	if cat == 5 {
		return mkPart(base)
	}
	s := base
	switch r.Below(4) {
	case 1:
		s = strings.ToUpper(s)
	case 2: // Application/Json
		b := []byte(s)
		up := true
		for i, c := range b {
			if up && c >= 'a' && c <= 'z' {
				b[i] = c - 32
			}
			up = c == '/' || c == '-' || c == '+'
		}
		s = string(b)
	}
	switch r.Below(9) {
	case 2:
		s += fmt.Sprintf(";q=0.%d", 1+r.Below(9))
	case 3:
		s += "; charset=utf-8"
	case 4:
		s += ";q=0" // "not acceptable" by RFC 9110; q-values are not looked at (modelled as it is)
	case 5:
		s += "; profile=\"x y\"; q=1.0"
	case 6:
		s += " ; Q=0.5;charset=UTF-8"
	case 7:
		s += ";"
	case 8:
		s += ";q=1;ext=\"a;b\""
	}
	switch r.Below(5) {
	case 1:
		s = " " + s
	case 2:
		s += " "
	case 3:
		s = "\t " + s + "  "
	}
	p := mkPart(s)
	if p.class != base {
		panic(fmt.Sprintf("accept surface %q of %q: mime says %q", s, base, p.class))
	}
	return p
}

// accLists: every ordered list of 1..maxLen categories, `draws` surface spellings each
func accLists(r *rng.R, maxLen, draws int) [][]accPart {
	var res [][]accPart
	var rec func(prefix []int)
	rec = func(prefix []int) {
		if len(prefix) > 0 {
			for d := 0; d < draws; d++ {
				l := make([]accPart, len(prefix))
				for i, c := range prefix {
					l[i] = surface(r, c)
				}
				if len(l) == 1 && strings.TrimSpace(l[0].raw) == "" && l[0].raw != "" {
					l[0] = accPart{"", "!"} // a blank-only header value: net/http hands it on as it is; keep the plain empty one
				}
				res = append(res, l)
			}
		}
		if len(prefix) == maxLen {
			return
		}
		for c := range accCats {
			rec(append(append([]int{}, prefix...), c))
		}
	}
	rec(nil)
	return res
}

func randAccept(r *rng.R) []accPart {
	n := 1 + r.Below(8)
	l := make([]accPart, n)
	for i := range l {
		c := r.Below(len(accCats))
		if r.Below(3) == 0 { // unknown / unparsable parts are what the loop has to get past
			c = 4 + r.Below(2)
		}
		l[i] = surface(r, c)
	}
	return l
}

// ---------------------------------------------------------------- server configurations

var tokenLimits = []int{0, 4, 9, 1000}
var presenters = []string{"", "strip", "recode", "uncode", "rewrap"}
var ctxMuts = []string{"", "complexity0", "complexity9", "deny-nocode", "deny-custom", "deny-validation"}

func randCfg(r *rng.R) scfg {
	c := scfg{}
	if r.Below(2) == 0 {
		c.TokenLimit = tokenLimits[1+r.Below(3)]
		if r.Below(4) == 0 {
			c.TokenLimit = 1 + r.Below(30)
		}
	}
	c.NoSuggest = r.Below(3) == 0
	if r.Below(2) == 0 {
		c.Presenter = presenters[r.Below(len(presenters))]
	}
	if r.Below(3) == 0 {
		c.Ctx = ctxMuts[r.Below(len(ctxMuts))]
	}
	return c
}

// cfgGrid: token limit x error presenter, token limit x context mutator, suggestions off x both (pairwise)
func cfgGrid() []scfg {
	var l []scfg
	seen := map[scfg]bool{{}: true}
	add := func(c scfg) {
		if !seen[c] {
			seen[c] = true
			l = append(l, c)
		}
	}
	for _, tl := range tokenLimits {
		for _, p := range presenters {
			add(scfg{TokenLimit: tl, Presenter: p})
		}
		for _, m := range ctxMuts {
			add(scfg{TokenLimit: tl, Ctx: m})
		}
		add(scfg{TokenLimit: tl, NoSuggest: true})
	}
	for _, p := range presenters {
		add(scfg{NoSuggest: true, Presenter: p})
		for _, m := range ctxMuts[1:] {
			add(scfg{Presenter: p, Ctx: m})
		}
	}
	return l
}

// refusalDocs: one document per way the executor refuses (or does not refuse) a request
func refusalDocs() []doc {
	b := badDocs()
	return []doc{
		validDoc([]op{{"query", ""}}, false),                                    // 3 tokens: runs unless a limit < 3 / a context mutator stops it
		validDoc([]op{{"query", "a"}, {"mutation", "b"}}, false),                // 10 tokens; operationName decides (unknown / absent: refused)
		validDoc([]op{{"mutation", "a"}}, true),                                 // variables (bad: refused); a mutation (GET refuses)
		validDoc([]op{{"query", "a"}, {"query", "b"}, {"subscription", "c"}}, false), // 15 tokens
		b[0], b[1],                                                              // syntax errors (late / early in the text)
		{class: "P", text: "query a { name name name name name name name name name name ] }"}, // syntax error BEHIND the small token limits
		b[3], b[5], b[10], b[11], b[12],                                         // validation errors: unknown field, lone anonymous, custom rule, suggestions
		b[8], b[9],                                                              // no operation
	}
}

// productCfg: configurations x documents x carriers x accept, each request on its own configured server
func productCfg(cfgs []scfg, accs [][]accPart, docs []doc, cars []carrier) {
	for _, c := range cfgs {
		for _, acc := range accs {
			for _, d := range docs {
				for _, car := range cars {
					names := []string{""}
					if carries(car) {
						names = opNames(d)
					}
					for _, n := range names {
						k := kase{srv: fullSrv("", false), cfg: c, method: car.method, rct: car.rct, rctRaw: car.rctRaw, form: car.form,
							accept: acc, accSet: acc != nil, d: d, opName: n}
						run(k)
						if d.vars && carries(car) {
							k.varsBad = true
							run(k)
						}
					}
				}
			}
		}
	}
}

type carrier struct {
	method, rct, rctRaw, form string
}

var carriers = []carrier{
	{"GET", "invalid", "", ""},
	{"GET", "json", "application/json", ""},
	{"POST", "json", "application/json", ""},
	{"POST", "json", "application/json; charset=utf-8", ""},
	{"POST", "graphql", "application/graphql", "raw"},
	{"POST", "graphql", "application/graphql", "prefixed"},
	{"POST", "urlencoded", "application/x-www-form-urlencoded", "json"},
	{"POST", "urlencoded", "application/x-www-form-urlencoded", "plain"},
	{"POST", "urlencoded", "application/x-www-form-urlencoded", "bare"},
	{"POST", "multipart", "", ""},
}

// carriers that need a query text starting with "{"
var braceCarriers = []carrier{
	{"POST", "graphql", "application/graphql", "escaped"},
	{"POST", "graphql", "application/graphql", "prefixed-escaped"},
	{"POST", "urlencoded", "application/x-www-form-urlencoded", "escaped"},
}

func structuredDocs() []doc {
	var ds []doc
	for _, k := range kinds {
		ds = append(ds, validDoc([]op{{k, ""}}, false), validDoc([]op{{k, "a"}}, false), validDoc([]op{{k, "a"}}, true))
	}
	for _, k1 := range kinds {
		for _, k2 := range kinds {
			ds = append(ds, validDoc([]op{{k1, "a"}, {k2, "b"}}, false))
		}
	}
	ds = append(ds,
		validDoc([]op{{"mutation", "a"}, {"query", "b"}, {"subscription", "c"}}, false),
		validDoc([]op{{"query", "a"}, {"query", "b"}, {"mutation", "c"}}, true),
		validDoc([]op{{"subscription", "c"}, {"mutation", "b"}, {"query", "a"}}, false),
		validDoc([]op{{"query", "zz"}, {"mutation", "a"}}, false), // an operation literally named like the "unknown" name
		// names that differ only in letter case: selection is by exact name at every site (GET guard, executor)
		validDoc([]op{{"mutation", "a"}, {"query", "A"}}, false),
		validDoc([]op{{"query", "A"}, {"mutation", "a"}}, false),
	)
	return append(ds, badDocs()...)
}

func opNames(d doc) []string {
	set := map[string]bool{"": true, "zz": true}
	for _, o := range d.ops {
		set[o.name] = true
		if o.name != "" { // near-miss names: a case variant of a defined name is an unknown operation
			set[strings.ToUpper(o.name)] = true
			set[strings.ToLower(o.name)] = true
		}
	}
	var l []string
	for n := range set {
		l = append(l, n)
	}
	sort.Strings(l)
	return l
}

func carries(c carrier) bool { // carrier transports operationName / variables
	return c.method == "GET" || c.rct == "json" || c.rct == "multipart" || (c.rct == "urlencoded" && c.form == "json")
}

func product(srvs [][]tcfg, accs [][]accPart, docs []doc, cars []carrier) {
	for _, srv := range srvs {
		for ai, acc := range accs {
			for _, d := range docs {
				for _, c := range cars {
					names := []string{""}
					if carries(c) {
						names = opNames(d)
					}
					for _, n := range names {
						k := kase{srv: srv, method: c.method, rct: c.rct, rctRaw: c.rctRaw, form: c.form, accept: acc, accSet: ai != 0 || acc != nil, d: d, opName: n}
						run(k)
						if d.vars && carries(c) {
							k.varsBad = true
							run(k)
						}
					}
				}
			}
		}
	}
}

func randDoc(r *rng.R) doc {
	switch r.Below(8) {
	case 0:
		b := badDocs()
		return b[r.Below(len(b))]
	}
	n := 1 + r.Below(5)
	if n == 1 && r.Bool() {
		return validDoc([]op{{kinds[r.Below(3)], ""}}, r.Below(4) == 0)
	}
	names := []string{"a", "b", "c", "d", "e", "zz", "query", "mutation"}
	// unique names: take a random permutation prefix
	for i := len(names) - 1; i > 0; i-- {
		j := r.Below(i + 1)
		names[i], names[j] = names[j], names[i]
	}
	ops := make([]op, n)
	for i := range ops {
		ops[i] = op{kinds[r.Below(3)], names[i]}
	}
	return validDoc(ops, r.Below(4) == 0)
}

func randSrv(r *rng.R) []tcfg {
	ks := append([]string{}, allKinds...)
	for i := len(ks) - 1; i > 0; i-- {
		j := r.Below(i + 1)
		ks[i], ks[j] = ks[j], ks[i]
	}
	switch r.Below(7) {
	case 0: // drop some transports
		ks = ks[:r.Below(len(ks)+1)]
	case 1: // duplicate kinds with different configuration: the first one must win
		ks = append(ks, ks[r.Below(len(ks))], ks[r.Below(len(ks))])
		for i := len(ks) - 1; i > 0; i-- {
			j := r.Below(i + 1)
			ks[i], ks[j] = ks[j], ks[i]
		}
	}
	s := make([]tcfg, len(ks))
	for i, k := range ks {
		s[i] = tcfg{Kind: k}
		if r.Below(3) == 0 {
			s[i].CT = ctPool[r.Below(len(ctPool))]
		}
		if r.Below(4) == 0 {
			s[i].Others = true
		}
	}
	return s
}

var methods = []string{"GET", "POST", "POST", "POST", "GET", "HEAD", "OPTIONS", "PUT", "DELETE", "PATCH"}

var decsFor = map[string][]string{
	"get":        {"getQuery", "getVars", "getExt"},
	"json":       {"postJson"},
	"graphql":    {"gqlEscape"},
	"urlencoded": {"ueJson", "ueEscape"},
	"multipart":  {"mpFirst", "mpOpsJson", "mpSecond", "mpMapJson", "mpUnknownFile", "mpMissingFile", "mpTooLarge", "mpNoBoundary"},
}

func randCase(r *rng.R, malformed bool) kase {
	k := kase{srv: randSrv(r), d: randDoc(r)}
	k.method = methods[r.Below(len(methods))]
	rc := rctPool[r.Below(len(rctPool))]
	if !malformed && r.Below(3) != 0 {
		rc = rctPool[[]int{0, 3, 5, 6}[r.Below(4)]]
	}
	if r.Below(10) < 8 { // mostly a request some transport is meant for
		if r.Below(4) == 0 {
			k.method = "GET"
		} else {
			k.method = "POST"
			rc = rctPool[[]int{0, 1, 2, 3, 4, 5, 6}[r.Below(7)]]
		}
	}
	k.rct, k.rctRaw = rc.class, rc.raw
	k.upgrade = r.Below(12) == 0
	if r.Below(5) != 0 {
		k.accSet = true
		n := 1 + r.Below(4)
		for i := 0; i < n; i++ {
			k.accept = append(k.accept, accPool[r.Below(len(accPool))])
		}
	}
	if r.Below(3) == 0 { // the full Accept surface
		k.accSet = true
		k.accept = randAccept(r)
	}
	if r.Below(3) == 0 { // a server with non-default error-path options
		k.cfg = randCfg(r)
	}
	switch k.rct {
	case "graphql":
		k.form = []string{"raw", "prefixed"}[r.Below(2)]
		if strings.HasPrefix(k.d.text, "{") && r.Bool() {
			k.form = []string{"escaped", "prefixed-escaped"}[r.Below(2)]
		}
	case "urlencoded":
		k.form = []string{"json", "plain", "bare"}[r.Below(3)]
		if strings.HasPrefix(k.d.text, "{") && r.Bool() {
			k.form = "escaped"
		}
	}
	names := opNames(k.d)
	k.opName = names[r.Below(len(names))]
	k.varsBad = r.Below(3) == 0
	k.execErr = r.Below(6) == 0
	k.qcache = r.Bool()
	car := "other"
	if k.method == "GET" {
		car = "get"
	} else if k.method == "POST" {
		car = k.rct
	}
	if malformed && r.Below(2) == 0 {
		if ds := decsFor[car]; len(ds) > 0 {
			k.dec = ds[r.Below(len(ds))]
			if car == "urlencoded" {
				if k.dec == "ueJson" {
					k.form = "json"
				} else {
					k.form = "escaped"
				}
			}
		}
	}
	// APQ only on carriers with an extensions field, and only where the decode stage is intact
	if k.dec == "" && r.Below(5) == 0 && (car == "get" || car == "json" || car == "multipart" || (car == "urlencoded" && k.form == "json")) {
		k.apq = []string{"miss", "hit", "mismatch"}[r.Below(3)]
		if k.apq == "hit" {
			has := false
			for _, t := range k.srv {
				has = has || t.Kind == "P"
			}
			if !has || k.d.text == "" {
				k.apq = "miss"
			}
		}
		if k.apq == "mismatch" && k.d.text == "" {
			k.apq = "miss"
		}
	}
	return k
}

// ---------------------------------------------------------------- table tie

func tableTie(r *rng.R, n int) {
	codes := []string{"GRAPHQL_VALIDATION_FAILED", "GRAPHQL_PARSE_FAILED", "PERSISTED_QUERY_NOT_FOUND", "OTHER", "graphql_parse_failed", "~"}
	emit := func(sel []string) {
		var l gqlerror.List
		for _, c := range sel {
			e := &gqlerror.Error{Message: "m"}
			if c != "~" {
				e.Extensions = map[string]any{"code": c}
			}
			l = append(l, e)
		}
		tok := strings.Join(sel, ",")
		if len(sel) == 0 {
			tok = "-"
		}
		fmt.Fprintf(out, "st\t%s\t%d %d\n", tok, transport.StatusForVerif(l), transport.StatusForGraphQLResponseVerif(l))
	}
	emit(nil)
	for _, a := range codes {
		emit([]string{a})
		for _, b := range codes {
			emit([]string{a, b})
		}
	}
	for i := 0; i < n; i++ {
		m := r.Below(5)
		sel := make([]string, m)
		for j := range sel {
			sel[j] = codes[r.Below(len(codes))]
		}
		emit(sel)
	}
	ct := func(explicit string, set bool, acc []accPart) {
		var h map[string][]string
		if explicit != "" {
			h = map[string][]string{"Content-Type": {explicit}, "X-Verif": {"1"}}
		}
		req := httptest.NewRequest("POST", "/", nil)
		tok := "~"
		if set && !(len(acc) == 1 && acc[0].raw == "") {
			raws := make([]string, len(acc))
			cls := make([]string, len(acc))
			for i, p := range acc {
				raws[i] = p.raw
				cls[i] = strings.ReplaceAll(p.class, "/", "%")
			}
			req.Header.Set("Accept", strings.Join(raws, ","))
			tok = strings.Join(cls, ",")
		} else if set {
			req.Header.Set("Accept", "")
		}
		e := explicit
		if e == "" {
			e = "~"
		}
		got := transport.DetermineResponseContentTypeVerif(h, req)
		fmt.Fprintf(out, "ct\t%s\t%s\t%s\t%s\n", strings.ReplaceAll(e, "/", "%"), tok, strings.ReplaceAll(got, "/", "%"), js(req.Header.Values("Accept")))
	}
	for _, e := range ctPool {
		ct(e, false, nil)
		for i := range accPool {
			ct(e, true, accepts(i))
			for j := range accPool {
				ct(e, true, accepts(i, j))
			}
		}
	}
	for i := 0; i < n; i++ {
		m := 1 + r.Below(5)
		acc := make([]accPart, m)
		for j := range acc {
			acc[j] = accPool[r.Below(len(accPool))]
		}
		ct(ctPool[r.Below(len(ctPool))], true, acc)
	}
	// the Accept surface (own generator state: the dry run of -min need not mirror it)
	rs := rng.New(uint64(n)*31 + 5)
	for _, l := range accLists(rs, 3, 2) {
		ct("", true, l)
	}
	for i := 0; i < n; i++ {
		ct(ctPool[r2idx(rs, len(ctPool))], true, randAccept(rs))
	}
}

func r2idx(r *rng.R, n int) int {
	if r.Below(2) == 0 {
		return 0
	}
	return r.Below(n)
}

func main() {
	tier := flag.String("tier", "quick", "")
	seed := flag.Uint64("seed", 1, "")
	corpus := flag.String("corpus", "", "JSON file of directed request sequences")
	minStep := flag.Int("min", -1, "minimise the history of step N (prints one JSON object)")
	window := flag.Int("window", 48, "single-request cases before step N considered by -min")
	flag.Parse()
	defer out.Flush()
	checkPools()
	r := rng.New(*seed)

	nrand, nmal, ntab, nsessions := 6000, 3000, 500, 150
	if *tier == "thorough" {
		nrand, nmal, ntab, nsessions = 150000, 60000, 5000, 3000
	}
	if *minStep >= 0 {
		dry = true
		defer func() {
			dry = false
			minimise(*minStep, *window)
		}()
	}

	if !dry {
		tableTie(r, ntab)
	} else {
		tableTieDry(r, ntab)
	}

	// 1. exhaustive structured product on the full transport list (default configuration)
	docs := structuredDocs()
	product([][]tcfg{fullSrv("", false)}, accSets, docs, carriers)
	// brace-only carriers on the anonymous shorthand query and on a parse error starting with "{"
	product([][]tcfg{fullSrv("", false)}, accSets[:4], []doc{validDoc([]op{{"query", ""}}, false), badDocs()[1], badDocs()[5]}, braceCarriers)
	// 2. configured ResponseHeaders x accept x carriers on a small document set
	small := []doc{docs[0], docs[3], validDoc([]op{{"query", "a"}, {"mutation", "b"}}, false), badDocs()[0], badDocs()[3], badDocs()[8]}
	var cfgs [][]tcfg
	for _, ct := range ctPool {
		for _, o := range []bool{false, true} {
			if ct == "" && !o {
				continue
			}
			cfgs = append(cfgs, fullSrv(ct, o))
		}
	}
	accN := accSets
	if *tier != "thorough" {
		accN = accSets[:6]
	}
	product(cfgs, accN, small, carriers)
	// 3. transport subsets: each single transport alone, and none
	var subsets [][]tcfg
	subsets = append(subsets, nil)
	for _, k := range allKinds {
		subsets = append(subsets, []tcfg{{Kind: k}})
	}
	product(subsets, accSets[:3], small, carriers)
	// 4. directed: methods x content types x upgrade without any document concern
	for _, m := range []string{"GET", "POST", "HEAD", "OPTIONS", "PUT", "DELETE"} {
		for _, rc := range rctPool {
			for _, up := range []bool{false, true} {
				for _, acc := range accSets[:3] {
					k := kase{srv: fullSrv("", false), method: m, rct: rc.class, rctRaw: rc.raw, upgrade: up, accept: acc, accSet: acc != nil, d: docs[0]}
					if rc.class == "graphql" || rc.class == "urlencoded" {
						k.form = "raw"
					}
					run(k)
				}
			}
		}
	}
	// 5. directed: every decode failure on every configuration, resolver errors, APQ
	for _, srv := range append([][]tcfg{fullSrv("", false)}, cfgs...) {
		for _, acc := range accSets[:4] {
			for car, ds := range map[string][]string{"get": decsFor["get"], "json": decsFor["json"], "graphql": decsFor["graphql"], "urlencoded": decsFor["urlencoded"], "multipart": decsFor["multipart"]} {
				for _, dname := range ds {
					k := kase{srv: srv, method: "POST", rct: car, accept: acc, accSet: acc != nil, d: docs[0], dec: dname}
					switch car {
					case "get":
						k.method, k.rct = "GET", "invalid"
					case "json":
						k.rctRaw = "application/json"
					case "graphql":
						k.rctRaw, k.form = "application/graphql", "raw"
					case "urlencoded":
						k.rctRaw = "application/x-www-form-urlencoded"
						k.form = map[string]string{"ueJson": "json", "ueEscape": "escaped"}[dname]
					}
					run(k)
				}
			}
			for _, d := range []doc{docs[0], docs[3], docs[6], validDoc([]op{{"query", "a"}, {"mutation", "b"}}, false), badDocs()[0]} {
				for _, c := range []carrier{carriers[0], carriers[2], carriers[6], carriers[9]} {
					for _, apq := range []string{"miss", "hit", "mismatch"} {
						for _, n := range opNames(d) {
							run(kase{srv: srv, method: c.method, rct: c.rct, rctRaw: c.rctRaw, form: c.form, accept: acc, accSet: acc != nil, d: d, opName: n, apq: apq, qcache: true})
						}
					}
					run(kase{srv: srv, method: c.method, rct: c.rct, rctRaw: c.rctRaw, form: c.form, accept: acc, accSet: acc != nil, d: d, execErr: true})
				}
			}
		}
	}
	// 5b. server CONFIGURATION x every kind of refusal x carriers x negotiated media type: the options that change
	// which error VALUE reaches the transport (parser token limit: plain parser error; disabled suggestions: swapped
	// validation rule; error presenters that strip / rewrite / remove codes, in place or not; operation context
	// mutators refusing with and without codes), each crossed with syntax errors, token-limit errors, validation errors
	// (standard, custom rule, suggestion carrying), no operation, unknown operationName, bad variables, GET mutations
	cfgCarriers := []carrier{carriers[0], carriers[2], carriers[4], carriers[6], carriers[7], carriers[9]}
	cfgAcc := [][]accPart{nil, accepts(0), accepts(1)}
	grid := cfgGrid()
	if *tier != "thorough" { // quick: every configuration on two carriers + a rotating third, all on the thorough tier
		for i, c := range grid {
			productCfg([]scfg{c}, cfgAcc, refusalDocs(), []carrier{carriers[2], carriers[0], cfgCarriers[2+i%4]})
		}
	} else {
		productCfg(grid, cfgAcc, refusalDocs(), cfgCarriers)
	}
	// 5c. the Accept surface: every ordered list of up to three part categories (known / covering / unknown /
	// unparsable) in random surface spellings x {runs, parse error, validation error} x one carrier per transport + none
	ra := rng.New(*seed*7919 + 101)
	draws, maxLen := 1, 3
	if *tier == "thorough" {
		draws, maxLen = 3, 4
	}
	accDocs := []doc{docs[0], badDocs()[0], badDocs()[3]}
	accCars := append(append([]carrier{}, cfgCarriers...), carrier{"PUT", "json", "application/json", ""})
	product([][]tcfg{fullSrv("", false)}, accLists(ra, maxLen, draws), accDocs, accCars)
	// … and on a server with a token limit (the refusal whose error value is the odd one out)
	productCfg([]scfg{{TokenLimit: 4}}, accLists(ra, 2, 1), []doc{refusalDocs()[1]}, cfgCarriers)
	// 6. seeded random: structured mostly-valid stream and a malformed stream
	for i := 0; i < nrand; i++ {
		run(randCase(r, false))
	}
	for i := 0; i < nmal; i++ {
		run(randCase(r, true))
	}
	// 7. request sequences against long-lived production-like servers (seq.go)
	sessions(*seed, nsessions, *corpus)
}

// tableTieDry consumes the random numbers tableTie consumes (so that -min regenerates the same cases).
func tableTieDry(r *rng.R, n int) {
	for i := 0; i < n; i++ {
		m := r.Below(5)
		for j := 0; j < m; j++ {
			r.Below(6)
		}
	}
	for i := 0; i < n; i++ {
		m := 1 + r.Below(5)
		for j := 0; j < m; j++ {
			r.Below(len(accPool))
		}
		r.Below(len(ctPool))
	}
}
