// Request SEQUENCES against one long-lived, production-like server (query cache, APQ with a cache, the
// standard transports): every generated request is sent k >= 2 times, interleaved with the others, and every
// response is printed as an ordinary `c` line (the model's prediction for a request is a function of the
// request alone) plus, per session, one `sq` line for the Lean history model (`seq` op of the driver).
//
//	sq <session id> <srv>|<world>|<event>|<event>…  <json: session configuration>
//
// `-min N` re-generates the run without executing it, takes the steps that can have influenced step N (its
// session, or the preceding single-request cases: POST's params pool is process wide), replays them on fresh
// servers with a flushed pool and delta-debugs the sequence down to a minimal one that still produces the
// same answer to the same request; it prints one JSON object.
package main

import (
	"encoding/json"
	"fmt"
	"mime"
	"os"
	"runtime"
	"sort"
	"strings"

	"github.com/vektah/gqlparser/v2/ast"

	"github.com/99designs/gqlgen/graphql/handler"
	"github.com/99designs/gqlgen/graphql/handler/extension"
	"github.com/99designs/gqlgen/graphql/handler/lru"
	"verifharness/internal/rng"
)

type sessCfg struct {
	ID     int    `json:"id"`
	Name   string `json:"name,omitempty"`
	Srv    []tcfg `json:"transports"`
	QCache int    `json:"query_cache_size"`
	APQ    int    `json:"apq_cache_size"`
	Config scfg   `json:"config"`
}

type step struct {
	k    kase
	sess int // -1: a single-request case on its own server
	cfg  *sessCfg
}

var (
	dry   bool
	trace []step
)

// ---------------------------------------------------------------- a live session

type session struct {
	cfg  *sessCfg
	es   *recSchema
	srv  *handler.Server
	reg  map[string]bool // ledger: query texts an earlier request registered with the APQ extension
	evs  []string        // events for the history model
	seen map[string]bool
}

func newSession(cfg *sessCfg) *session {
	es := &recSchema{}
	srv := handler.New(es)
	for _, t := range cfg.Srv {
		srv.AddTransport(mkTransport(t))
	}
	applyCfg(srv, cfg.Config)
	srv.SetQueryCache(lru.New[*ast.QueryDocument](cfg.QCache))
	srv.Use(extension.AutomaticPersistedQuery{Cache: lru.New[string](cfg.APQ)})
	return &session{cfg: cfg, es: es, srv: srv, reg: map[string]bool{}, seen: map[string]bool{}}
}

// text ids of the history model: 0 is the empty string
var (
	textID  = map[string]int{"": 0}
	textDoc = map[int]string{0: "V"}
)

func idOf(text string, d *doc) int {
	id, ok := textID[text]
	if !ok {
		id = len(textID)
		textID[text] = id
		textDoc[id] = "P" // a text only ever used as a (wrong) hash: never parsed
	}
	if d != nil && id != 0 {
		textDoc[id] = docTok(*d, true)
	}
	return id
}

func carrierOf(k kase) string {
	if k.method == "GET" {
		return "get"
	}
	if k.method == "POST" {
		if k.rct == "urlencoded" {
			return "urlencoded/" + k.form
		}
		return k.rct
	}
	return "other"
}

// carriesEnvelope: the carrier has operationName / variables / extensions
func carriesEnvelope(k kase) bool {
	switch carrierOf(k) {
	case "get", "json", "multipart", "urlencoded/json":
		return true
	}
	return false
}

// reachesMutators: on a server with all six transports the request gets as far as the APQ extension
func reachesMutators(k kase) bool {
	if k.upgrade || k.dec != "" {
		return false
	}
	switch carrierOf(k) {
	case "get":
		return true
	case "json", "graphql", "multipart", "urlencoded/json", "urlencoded/plain", "urlencoded/bare", "urlencoded/escaped", "urlencoded/raw":
		return true
	}
	return false
}

// normalise makes a session request well-formed: APQ modes only where the envelope can carry them.
func (s *session) normalise(k kase) kase {
	k.srv = s.cfg.Srv
	k.cfg = s.cfg.Config
	k.qcache = true
	k = k.effective() // the class of a text under the session's parser token limit
	if !carriesEnvelope(k) || k.dec != "" {
		k.apq = ""
	}
	switch k.apq {
	case "register", "mismatch":
		if k.d.text == "" { // an empty query with a hash IS a hash-only request
			k.apq = "hashonly"
		}
	}
	return k
}

// serve sends one request of the session; mode "hashonly" becomes hit/miss by the ledger.
func (s *session) serve(k kase) (string, string, map[string]any) {
	k = s.normalise(k)
	mode := k.apq
	hash := "~"
	qid := idOf(k.d.text, &k.d)
	switch mode {
	case "hashonly":
		hash = fmt.Sprint(qid)
		qid = 0
		if s.reg[k.d.text] {
			k.apq = "hit"
		} else {
			k.apq = "miss"
		}
	case "register":
		hash = fmt.Sprint(qid)
	case "mismatch":
		hash = fmt.Sprint(idOf(k.d.text+" ", nil))
	}
	in, obs, descr := serveOne(s.srv, s.es, k)
	if mode == "register" && reachesMutators(k) {
		s.reg[k.d.text] = true
	}
	// what the carrier carries of the name: key absent / present
	b := k.build()
	opn := "~"
	if carriesEnvelope(k) && (b.opName != "" || k.opExplicit) {
		opn = "=" + b.opName
	}
	if carrierOf(k) == "get" && k.opName == "" {
		opn = "~"
	}
	s.evs = append(s.evs, fmt.Sprintf("%s %d %s %s", in, qid, opn, hash))
	descr["apq"] = mode
	return in, obs, descr
}

func (s *session) sqLine() string {
	ids := make([]int, 0, len(textDoc))
	for id := range textDoc {
		ids = append(ids, id)
	}
	sort.Ints(ids)
	w := make([]string, len(ids))
	for i, id := range ids {
		w[i] = fmt.Sprintf("%d=%s", id, textDoc[id])
	}
	return modelSrv(s.cfg.Srv) + "|" + strings.Join(w, ",") + "|" + strings.Join(s.evs, "|")
}

// flushPool empties sync.Pools (POST's pool of *RawParams): two collections drop primary and victim caches.
func flushPool() {
	runtime.GC()
	runtime.GC()
}

var nsess int

// runSession executes (or, dry, records) one session.
func runSession(cfg *sessCfg, ks []kase) {
	cfg.ID = nsess
	nsess++
	if dry {
		for _, k := range ks {
			trace = append(trace, step{k: k, sess: cfg.ID, cfg: cfg})
		}
		return
	}
	flushPool()
	s := newSession(cfg)
	for i, k := range ks {
		in, obs, descr := s.serve(k)
		descr["session"] = map[string]any{"id": cfg.ID, "index": i, "name": cfg.Name}
		fmt.Fprintf(out, "c\t%s\t%s\t%s\t%d\t%d\n", in, obs, js(descr), ncase-1, cfg.ID)
	}
	fmt.Fprintf(out, "sq\t%d\t%s\t%s\n", cfg.ID, s.sqLine(), js(cfg))
}

// ---------------------------------------------------------------- generated sessions

func sessSrv(r *rng.R) []tcfg {
	ks := append([]string{}, allKinds...)
	if r.Below(3) == 0 {
		for i := len(ks) - 1; i > 0; i-- {
			j := r.Below(i + 1)
			ks[i], ks[j] = ks[j], ks[i]
		}
	}
	s := make([]tcfg, len(ks))
	cfgd := r.Below(3) == 0
	for i, k := range ks {
		s[i] = tcfg{Kind: k}
		if cfgd && r.Below(3) == 0 {
			s[i].CT = ctPool[r.Below(len(ctPool))]
		}
		if cfgd && r.Below(4) == 0 {
			s[i].Others = true
		}
	}
	return s
}

var sessCarriers = []carrier{
	{"GET", "invalid", "", ""},
	{"POST", "json", "application/json", ""},
	{"POST", "json", "application/json", ""},
	{"POST", "json", "application/json; charset=utf-8", ""},
	{"POST", "graphql", "application/graphql", "raw"},
	{"POST", "urlencoded", "application/x-www-form-urlencoded", "json"},
	{"POST", "urlencoded", "application/x-www-form-urlencoded", "plain"},
	{"POST", "multipart", "", ""},
}

// sessDocs: a small pool of texts per session so that the same text comes back through different carriers
func sessDocs(r *rng.R) []doc {
	bad := badDocs()
	n := 3 + r.Below(4)
	ds := make([]doc, 0, n)
	for i := 0; i < n; i++ {
		switch r.Below(5) {
		case 0, 1:
			ds = append(ds, bad[r.Below(len(bad))])
		case 2:
			ds = append(ds, validDoc([]op{{kinds[r.Below(3)], []string{"", "a"}[r.Below(2)]}}, r.Below(3) == 0))
		default:
			ds = append(ds, randDoc(r))
		}
	}
	return ds
}

func sessReq(r *rng.R, docs []doc) kase {
	if r.Below(12) == 0 { // anything at all: other methods, content types, Upgrade, decode failures
		k := randCase(r, r.Bool())
		switch k.apq {
		case "miss":
			k.apq = "hashonly"
		case "hit":
			k.apq = "register"
		}
		return k
	}
	c := sessCarriers[r.Below(len(sessCarriers))]
	d := docs[r.Below(len(docs))]
	k := kase{method: c.method, rct: c.rct, rctRaw: c.rctRaw, form: c.form, d: d}
	names := opNames(d)
	k.opName = names[r.Below(len(names))]
	if r.Below(3) == 0 {
		k.opName = ""
	}
	k.opExplicit = r.Below(4) == 0
	k.varsBad = r.Below(3) == 0
	k.execErr = r.Below(10) == 0
	if r.Below(2) == 0 {
		k.accSet = true
		k.accept = accSets[1+r.Below(len(accSets)-1)]
	}
	if r.Below(3) == 0 {
		k.apq = []string{"register", "hashonly", "hashonly", "mismatch"}[r.Below(4)]
	}
	return k
}

func genSession(seed uint64, sid int) (*sessCfg, []kase) {
	r := rng.New(seed*1000003 + uint64(sid)*7919 + 17)
	cfg := &sessCfg{Srv: sessSrv(r), QCache: []int{1, 2, 16, 1000}[r.Below(4)], APQ: 4096}
	if sid%3 == 2 { // every third session on a server with non-default error-path options
		cfg.Config = randCfg(r)
	}
	docs := sessDocs(r)
	n := 6 + r.Below(10)
	reqs := make([]kase, n)
	for i := range reqs {
		reqs[i] = sessReq(r, docs)
	}
	// every request k >= 2 times, interleaved
	var seq []kase
	for i := range reqs {
		for j := 0; j < 2+r.Below(2); j++ {
			seq = append(seq, reqs[i])
		}
	}
	for i := len(seq) - 1; i > 0; i-- {
		j := r.Below(i + 1)
		seq[i], seq[j] = seq[j], seq[i]
	}
	return cfg, seq
}

// ---------------------------------------------------------------- directed sequences (corpus)

type jstep struct {
	Carrier    string   `json:"carrier"` // get | json | graphql | urlencoded-json | urlencoded-plain | multipart
	Query      string   `json:"query"`
	Class      string   `json:"class"` // V | I | P: what the document is (hand labelled)
	Ops        []string `json:"ops"`   // kind.name of its operations, e.g. "q.a", "m."
	Vars       bool     `json:"vars,omitempty"`
	OpName     string   `json:"operationName,omitempty"`
	OpExplicit bool     `json:"operationNameKey,omitempty"`
	VarsBad    bool     `json:"badVariables,omitempty"`
	Accept     []string `json:"accept,omitempty"`
	Apq        string   `json:"apq,omitempty"`
	Dec        string   `json:"decodeFailure,omitempty"`
	ExecErr    bool     `json:"resolverError,omitempty"`
}

type jseq struct {
	Name   string  `json:"name"`
	Why    string  `json:"why"`
	QCache int     `json:"query_cache_size"`
	Config scfg    `json:"config"`
	Steps  []jstep `json:"steps"`
}

var carrierByName = map[string]carrier{
	"get":              {"GET", "invalid", "", ""},
	"json":             {"POST", "json", "application/json", ""},
	"graphql":          {"POST", "graphql", "application/graphql", "raw"},
	"urlencoded-json":  {"POST", "urlencoded", "application/x-www-form-urlencoded", "json"},
	"urlencoded-plain": {"POST", "urlencoded", "application/x-www-form-urlencoded", "plain"},
	"multipart":        {"POST", "multipart", "", ""},
}

var kindByLetter = map[string]string{"q": "query", "m": "mutation", "s": "subscription"}

func (j jstep) kase() kase {
	c, ok := carrierByName[j.Carrier]
	if !ok {
		panic("corpus: unknown carrier " + j.Carrier)
	}
	d := doc{class: j.Class, text: j.Query, vars: j.Vars}
	for _, o := range j.Ops {
		p := strings.SplitN(o, ".", 2)
		d.ops = append(d.ops, op{kindByLetter[p[0]], p[1]})
	}
	k := kase{method: c.method, rct: c.rct, rctRaw: c.rctRaw, form: c.form, d: d, opName: j.OpName, opExplicit: j.OpExplicit,
		varsBad: j.VarsBad, apq: j.Apq, dec: j.Dec, execErr: j.ExecErr}
	if j.Accept != nil {
		k.accSet = true
		for _, a := range j.Accept {
			mt, _, err := mime.ParseMediaType(strings.TrimSpace(a))
			if err != nil {
				mt = "!"
			}
			k.accept = append(k.accept, accPart{a, mt})
		}
	}
	return k
}

func loadCorpus(path string) []jseq {
	if path == "" {
		return nil
	}
	b, err := os.ReadFile(path)
	if err != nil {
		panic(err)
	}
	var l []jseq
	if err := json.Unmarshal(b, &l); err != nil {
		panic("corpus " + path + ": " + err.Error())
	}
	return l
}

func sessions(seed uint64, n int, corpus string) {
	prev := runtime.GOMAXPROCS(1) // one P: sync.Pool hands back what was just put (as for back-to-back requests)
	defer runtime.GOMAXPROCS(prev)
	for _, js := range loadCorpus(corpus) {
		for _, qc := range []int{js.QCache, 1} {
			cfg := &sessCfg{Name: js.Name, Srv: fullSrv("", false), QCache: qc, APQ: 4096, Config: js.Config}
			ks := make([]kase, len(js.Steps))
			for i, st := range js.Steps {
				ks[i] = st.kase()
			}
			runSession(cfg, ks)
		}
	}
	for i := 0; i < n; i++ {
		cfg, ks := genSession(seed, i)
		runSession(cfg, ks)
	}
}

// ---------------------------------------------------------------- replay + minimisation

type rstep struct {
	In      string         `json:"abstract_request"`
	Obs     string         `json:"observed"`
	Request map[string]any `json:"request"`
	Session int            `json:"session"`
}

// replay runs the steps on fresh servers (one per session id) with a flushed pool.
func replay(steps []step) []rstep {
	flushPool()
	live := map[int]*session{}
	res := make([]rstep, len(steps))
	for i, st := range steps {
		var in, obs string
		var descr map[string]any
		if st.sess >= 0 {
			s := live[st.sess]
			if s == nil {
				s = newSession(st.cfg)
				live[st.sess] = s
			}
			in, obs, descr = s.serve(st.k)
		} else {
			srv, es := newServer(st.k)
			in, obs, descr = serveOne(srv, es, st.k)
		}
		if st.cfg != nil {
			descr["server"] = st.cfg
		}
		res[i] = rstep{in, obs, descr, st.sess}
	}
	return res
}

func minimise(n int, window int) {
	if n < 0 || n >= len(trace) {
		fmt.Fprintf(out, "%s\n", js(map[string]any{"error": fmt.Sprintf("step %d out of range (%d steps)", n, len(trace))}))
		return
	}
	prev := runtime.GOMAXPROCS(1)
	defer runtime.GOMAXPROCS(prev)
	target := trace[n]
	var pre []step
	if target.sess >= 0 {
		for i := n - 1; i >= 0 && trace[i].sess == target.sess; i-- {
			pre = append([]step{trace[i]}, pre...)
		}
	} else {
		lo := n - window
		if lo < 0 {
			lo = 0
		}
		pre = append(pre, trace[lo:n]...)
	}
	full := replay(append(append([]step{}, pre...), target))
	want := full[len(full)-1]
	alone := replay([]step{target})[0]
	fails := func(sub []step) bool {
		r := replay(append(append([]step{}, sub...), target))
		last := r[len(r)-1]
		return last.In == want.In && last.Obs == want.Obs
	}
	// ddmin over the prefix
	cur := pre
	if fails(nil) {
		cur = nil
	}
	gran := 2
	for len(cur) >= 2 {
		chunk := (len(cur) + gran - 1) / gran
		reduced := false
		for i := 0; i < len(cur); i += chunk {
			j := i + chunk
			if j > len(cur) {
				j = len(cur)
			}
			compl := append(append([]step{}, cur[:i]...), cur[j:]...)
			if fails(compl) {
				cur = compl
				if gran > 2 {
					gran--
				}
				reduced = true
				break
			}
		}
		if !reduced {
			if gran >= len(cur) {
				break
			}
			gran *= 2
			if gran > len(cur) {
				gran = len(cur)
			}
		}
	}
	if len(cur) == 1 && fails(nil) {
		cur = nil
	}
	seq := replay(append(append([]step{}, cur...), target))
	fmt.Fprintf(out, "%s\n", js(map[string]any{
		"step": n, "prefix_considered": len(pre), "target": want, "alone": alone,
		"sequence": seq, "reproduced": seq[len(seq)-1].In == want.In && seq[len(seq)-1].Obs == want.Obs,
	}))
}
