// Harness for C02 (input coercion).
//
//	-mode scalars   runs the REAL graphql.Unmarshal* functions and graphql.CoerceList in-process on a boundary
//	                grid of dynamic Go values (int / int64 / float64 / json.Number / string / bool / nil / typed
//	                slices) and prints   fn \t raw(JSON) \t result
//	-mode gen       generates operations against the coercion probe schema (read from -schema, the output of the
//	                generated server's `-mode c02schema`): seeded, structured, mostly valid values for every
//	                argument shape, literals and variables (top level and nested in literals, provided / absent /
//	                null, with and without defaults), boundary integers, single-value→list, defaults, a separate
//	                stream of invalid inputs, and directed adversarial shapes. One JSON line per case holding the
//	                runner's Case (query, varsJSON, plan) and the same case in structured form for the Lean model.
//
//	-mode methods   -file <hand-written model .go(.tmpl)>: the methods of the probe's hand-written model as go/ast sees
//	                them: receiver type, method name, whether the first parameter is a context, the parameter NAMES in
//	                declaration order (reflection has no names), whether the last one is variadic. JSON.
//
// The generated servers themselves (real templates, real runtime) are driven by checks/c02.py with these cases.
package main

import (
	"bufio"
	"encoding/json"
	"flag"
	"fmt"
	goast "go/ast"
	"go/parser"
	"go/token"
	"os"
	"path/filepath"
	"reflect"
	"sort"
	"strconv"
	"strings"

	"github.com/99designs/gqlgen/graphql"
	"verifharness/internal/rng"
)

var out = bufio.NewWriterSize(os.Stdout, 1<<20)

// ------------------------------------------------------------------------------------------ scalars

type rawJ struct {
	K string `json:"k"`
	T string `json:"t,omitempty"`
	S string `json:"s,omitempty"`
	B bool   `json:"b,omitempty"`
}

func renderGo(v any) string {
	rv := reflect.ValueOf(v)
	switch rv.Kind() {
	case reflect.Int, reflect.Int32, reflect.Int64:
		return strconv.FormatInt(rv.Int(), 10)
	case reflect.Uint, reflect.Uint32, reflect.Uint64:
		return strconv.FormatUint(rv.Uint(), 10)
	case reflect.String:
		return strconv.Quote(rv.String())
	case reflect.Bool:
		return strconv.FormatBool(rv.Bool())
	case reflect.Float64:
		return strconv.FormatFloat(rv.Float(), 'g', -1, 64)
	}
	return fmt.Sprint(v)
}

func errClass(err error) string {
	m := err.Error()
	switch {
	case strings.Contains(m, "includes sign"):
		return "newUintSignError"
	case strings.Contains(m, "overflows signed 32-bit"):
		return "newInt32OverflowError"
	case strings.Contains(m, "overflows unsigned 32-bit"):
		return "newUint32OverflowError"
	case strings.Contains(m, "value out of range"):
		return "range"
	case strings.Contains(m, "invalid syntax"):
		return "syntax"
	case strings.Contains(m, " is not a"):
		return "type"
	}
	return "other:" + m
}

func runScalars() {
	ints := []string{"0", "1", "-1", "7", "2147483646", "2147483647", "2147483648", "-2147483647", "-2147483648", "-2147483649",
		"4294967295", "4294967296", "9007199254740993", "9223372036854775806", "9223372036854775807", "-9223372036854775808"}
	texts := append([]string{}, ints...)
	texts = append(texts, "9223372036854775808", "-9223372036854775809", "18446744073709551615", "18446744073709551616",
		"99999999999999999999999", "+5", "-0", "007", "1.0", "1.5", "1e3", "-1.5", "", " 5", "5 ", "abc", "0x10", "+", "-",
		"true", "TRUE", "True", "yes", "null", "-18446744073709551615", "+18446744073709551616", "0.1234567", "1e-7", "1e21", "-2.25", "100")
	floats := []string{"0", "1", "1.5", "-2.25", "0.1234567", "5e-07", "6e-07", "1e+21", "123456789.12345679", "2147483648", "-1"}
	var raws []struct {
		j rawJ
		v any
	}
	add := func(j rawJ, v any) {
		raws = append(raws, struct {
			j rawJ
			v any
		}{j, v})
	}
	for _, s := range ints {
		n, _ := strconv.ParseInt(s, 10, 64)
		add(rawJ{K: "int", T: s}, int(n))
		add(rawJ{K: "i64", T: s}, n)
	}
	for _, s := range texts {
		add(rawJ{K: "num", T: s}, json.Number(s))
		add(rawJ{K: "str", S: s}, s)
	}
	for _, s := range floats {
		f, _ := strconv.ParseFloat(s, 64)
		add(rawJ{K: "f64", T: s}, f)
	}
	add(rawJ{K: "bool", B: true}, true)
	add(rawJ{K: "bool", B: false}, false)
	add(rawJ{K: "null"}, nil)
	add(rawJ{K: "list"}, []any{})
	add(rawJ{K: "obj"}, map[string]any{})
	fns := []struct {
		k string
		f func(any) (any, error)
	}{
		{"int", func(v any) (any, error) { return graphql.UnmarshalInt(v) }},
		{"int32", func(v any) (any, error) { return graphql.UnmarshalInt32(v) }},
		{"int64", func(v any) (any, error) { return graphql.UnmarshalInt64(v) }},
		{"uint", func(v any) (any, error) { return graphql.UnmarshalUint(v) }},
		{"uint32", func(v any) (any, error) { return graphql.UnmarshalUint32(v) }},
		{"uint64", func(v any) (any, error) { return graphql.UnmarshalUint64(v) }},
		{"id", func(v any) (any, error) { return graphql.UnmarshalID(v) }},
		{"intID", func(v any) (any, error) { return graphql.UnmarshalIntID(v) }},
		{"uintID", func(v any) (any, error) { return graphql.UnmarshalUintID(v) }},
		{"string", func(v any) (any, error) { return graphql.UnmarshalString(v) }},
		{"float", func(v any) (any, error) { return graphql.UnmarshalFloatContext(nil, v) }},
		{"bool", func(v any) (any, error) { return graphql.UnmarshalBoolean(v) }},
	}
	for _, fn := range fns {
		for _, r := range raws {
			jb, _ := json.Marshal(r.j)
			res := ""
			func() {
				defer func() {
					if p := recover(); p != nil {
						res = "panic " + fmt.Sprint(p)
					}
				}()
				v, err := fn.f(r.v)
				if err != nil {
					res = "err " + errClass(err)
				} else if (fn.k == "id" || fn.k == "string") && r.j.K == "f64" {
					res = "ok FMT(" + r.j.T + ")=" + renderGo(v)
				} else {
					res = "ok " + renderGo(v)
				}
			}()
			fmt.Fprintf(out, "s\t%s\t%s\t%s\n", fn.k, jb, res)
		}
	}
	// CoerceList on every typed slice the validator's wrap can produce
	cl := []struct {
		name string
		v    any
	}{
		{"nil", nil}, {"[]any:2", []any{json.Number("1"), "x"}}, {"[]string:2", []string{"a", "b"}},
		{"[]json.Number:1", []json.Number{"5"}}, {"[]bool:1", []bool{true}}, {"[]map[string]any:1", []map[string]any{{"a": 1}}},
		{"[]float64:1", []float64{1.5}}, {"[]int64:1", []int64{7}}, {"[]int:2", []int{7, 8}}, {"[]uint64:1", []uint64{7}},
		{"scalar", json.Number("5")}, {"map", map[string]any{"a": 1}}, {"[]string:0", []string{}},
		// single values of every dynamic type the decoder / gqlparser / `dump` produce, incl. the "empty" ones
		{"single:map:0", map[string]any{}}, {"single:map:2", map[string]any{"a": nil, "b": []any{}}}, {"single:string:0", ""}, {"single:string", "x"},
		{"single:json.Number", json.Number("0")}, {"single:int:0", 0}, {"single:int64", int64(7)}, {"single:float64:0", 0.0}, {"single:bool:false", false},
		{"single:bool:true", true}, {"[]any:0", []any{}}, {"[]any:1:nil", []any{nil}}, {"[]map[string]any:0", []map[string]any{}},
		{"[]map[string]any:1:empty", []map[string]any{{}}}, {"[]json.Number:0", []json.Number{}}, {"[]bool:0", []bool{}}, {"[]any:1:[]", []any{[]any{}}},
	}
	for _, c := range cl {
		fmt.Fprintf(out, "cl\t%s\t%d\n", c.name, len(graphql.CoerceList(c.v)))
	}
}

// --------------------------------------------------------------------------------------- schema JSON

type TRef struct {
	Name string `json:"name,omitempty"`
	Elem *TRef  `json:"elem,omitempty"`
	NN   bool   `json:"nn"`
}

func (t *TRef) String() string {
	s := t.Name
	if t.Elem != nil {
		s = "[" + t.Elem.String() + "]"
	}
	if t.NN {
		s += "!"
	}
	return s
}
func (t *TRef) nullable() *TRef { c := *t; c.NN = false; return &c }

type LitJ struct {
	K string  `json:"k"`
	T string  `json:"t,omitempty"`
	S string  `json:"s,omitempty"`
	B bool    `json:"b,omitempty"`
	L []LitJ  `json:"l,omitempty"`
	F []LitFJ `json:"f,omitempty"`
}
type LitFJ struct {
	N string `json:"n"`
	V LitJ   `json:"v"`
}
type FieldJ struct {
	Name    string `json:"name"`
	Type    *TRef  `json:"type"`
	Default *LitJ  `json:"default,omitempty"`
	Dir     bool   `json:"dir"`
}
type TypeJ struct {
	Name   string   `json:"name"`
	Kind   string   `json:"kind"`
	IsMap  bool     `json:"isMap"`
	Values []string `json:"values,omitempty"`
	Fields []FieldJ `json:"fields,omitempty"`
}
type ResolverJ struct {
	Obj  string   `json:"obj"`
	Name string   `json:"name"`
	List int      `json:"list"`
	Args []FieldJ `json:"args"`
	// bound to a method of a hand-written model (checks/c02.py merges -mode methods into the schema JSON)
	Bound    string   `json:"bound,omitempty"`
	HasCtx   bool     `json:"hasCtx,omitempty"`
	Variadic bool     `json:"variadic,omitempty"`
	Params   []string `json:"params,omitempty"`
}

// dropped: the method has no parameter for this argument (it is never unmarshalled, never handed over)
func (r *ResolverJ) dropped(arg string) bool {
	if r.Bound != "method" {
		return false
	}
	n := len(r.Params)
	if r.Variadic && n > len(r.Args) {
		n = len(r.Args)
	}
	for _, p := range r.Params[:n] {
		if strings.EqualFold(p, arg) {
			return false
		}
	}
	return true
}

func (r *ResolverJ) permuted() bool {
	k := 0
	for _, a := range r.Args {
		if r.dropped(a.Name) {
			continue
		}
		if k >= len(r.Params) || !strings.EqualFold(r.Params[k], a.Name) {
			return true
		}
		k++
	}
	return false
}

func lowerFirst(s string) string { return strings.ToLower(s[:1]) + s[1:] }
type SchemaJ struct {
	Types  []TypeJ     `json:"types"`
	Fields []ResolverJ `json:"fields"`
}

// --------------------------------------------------------------------------------------------- values

// V is a value as the client writes it; it can be rendered as a GraphQL literal or as JSON.
type V struct {
	K   string // null | bool | int | float | str | enum | list | obj | var
	T   string // int / float text
	S   string // str / enum / var name
	B   bool
	L   []*V
	F   []KV
	Var *VarUse
}
type KV struct {
	N string
	V *V
}

// VarUse: a variable standing at this position.
type VarUse struct {
	Name    string
	Type    *TRef
	Default *V   // nil = no default
	State   int  // 0 provided, 1 absent, 2 explicit null
	Value   *V   // provided value
}

func gqlString(s string) string {
	var b strings.Builder
	b.WriteByte('"')
	for _, c := range s {
		switch c {
		case '"':
			b.WriteString(`\"`)
		case '\\':
			b.WriteString(`\\`)
		case '\n':
			b.WriteString(`\n`)
		case '\t':
			b.WriteString(`\t`)
		default:
			b.WriteRune(c)
		}
	}
	b.WriteByte('"')
	return b.String()
}

func (v *V) lit() string {
	switch v.K {
	case "null":
		return "null"
	case "bool":
		return strconv.FormatBool(v.B)
	case "int", "float":
		return v.T
	case "str":
		return gqlString(v.S)
	case "enum":
		return v.S
	case "var":
		return "$" + v.S
	case "list":
		var p []string
		for _, e := range v.L {
			p = append(p, e.lit())
		}
		return "[" + strings.Join(p, ", ") + "]"
	default:
		var p []string
		for _, kv := range v.F {
			p = append(p, kv.N+": "+kv.V.lit())
		}
		return "{" + strings.Join(p, ", ") + "}"
	}
}

func (v *V) litJ() LitJ {
	switch v.K {
	case "list":
		l := LitJ{K: "list", L: []LitJ{}}
		for _, e := range v.L {
			l.L = append(l.L, e.litJ())
		}
		return l
	case "obj":
		o := LitJ{K: "obj", F: []LitFJ{}}
		for _, kv := range v.F {
			o.F = append(o.F, LitFJ{N: kv.N, V: kv.V.litJ()})
		}
		return o
	case "var":
		return LitJ{K: "var", S: v.S}
	}
	return LitJ{K: v.K, T: v.T, S: v.S, B: v.B}
}

// json renders the value as JSON text (enum → string).
func (v *V) json() string {
	switch v.K {
	case "null":
		return "null"
	case "bool":
		return strconv.FormatBool(v.B)
	case "int", "float":
		return v.T
	case "str", "enum":
		b, _ := json.Marshal(v.S)
		return string(b)
	case "list":
		var p []string
		for _, e := range v.L {
			p = append(p, e.json())
		}
		return "[" + strings.Join(p, ",") + "]"
	default:
		var p []string
		for _, kv := range v.F {
			k, _ := json.Marshal(kv.N)
			p = append(p, string(k)+":"+kv.V.json())
		}
		return "{" + strings.Join(p, ",") + "}"
	}
}

// rawJ renders the decoded JSON value for the model (numbers: json.Number, or float64 when f64).
type RawVJ struct {
	K string    `json:"k"`
	T string    `json:"t,omitempty"`
	S string    `json:"s,omitempty"`
	B bool      `json:"b,omitempty"`
	L []RawVJ   `json:"l,omitempty"`
	F []RawKVJ  `json:"f,omitempty"`
}
type RawKVJ struct {
	N string `json:"n"`
	V RawVJ  `json:"v"`
}

func (v *V) raw(f64 bool) RawVJ {
	switch v.K {
	case "null":
		return RawVJ{K: "null"}
	case "bool":
		return RawVJ{K: "bool", B: v.B}
	case "int", "float":
		if f64 {
			return RawVJ{K: "f64", T: v.T}
		}
		return RawVJ{K: "num", T: v.T}
	case "str", "enum":
		return RawVJ{K: "str", S: v.S}
	case "list":
		l := RawVJ{K: "list", L: []RawVJ{}}
		for _, e := range v.L {
			l.L = append(l.L, e.raw(f64))
		}
		return l
	default:
		o := RawVJ{K: "obj", F: []RawKVJ{}}
		seen := map[string]bool{}
		for _, kv := range v.F {
			if seen[kv.N] {
				continue
			}
			seen[kv.N] = true
			o.F = append(o.F, RawKVJ{N: kv.N, V: kv.V.raw(f64)})
		}
		return o
	}
}

// ------------------------------------------------------------------------------------------ generator

type G struct {
	r      *rng.R
	s      SchemaJ
	types  map[string]*TypeJ
	tags   map[string]bool
	vars   []*VarUse
	nvar   int
	inval  bool // this case may contain one invalid position
	usedIv bool
	asVar  bool // currently generating a value that is sent as JSON (no nested variables, enums as strings)
}

func (g *G) tag(t string) { g.tags[t] = true }

var intGrid = []string{"0", "1", "-1", "7", "42", "2147483647", "2147483648", "-2147483648", "-2147483649", "4294967295", "4294967296",
	"9007199254740993", "9223372036854775807", "-9223372036854775808"}
var bigGrid = []string{"9223372036854775808", "-9223372036854775809", "18446744073709551615", "18446744073709551616"}
var floatGrid = []string{"1.5", "-2.25", "0.1", "1e21", "1e-7", "100.0", "0.1234567", "3.0"}
var strGrid = []string{"a", "", "x y", "q\"uote", "back\\slash", "é", "line\nbreak", "7", "1.5", "true", "RED"}

func pick(r *rng.R, l []string) string { return l[r.Below(len(l))] }

func vInt(t string) *V   { return &V{K: "int", T: t} }
func vFloat(t string) *V { return &V{K: "float", T: t} }
func vStr(s string) *V   { return &V{K: "str", S: s} }
func vEnum(s string) *V  { return &V{K: "enum", S: s} }
func vNull() *V          { return &V{K: "null"} }
func vBool(b bool) *V    { return &V{K: "bool", B: b} }
func vList(l ...*V) *V   { return &V{K: "list", L: l} }
func vObj(f ...KV) *V    { return &V{K: "obj", F: f} }

// wrong produces a value of a kind the type does not accept.
func (g *G) wrong(t *TRef) *V {
	g.usedIv = true
	g.tag("invalid")
	td := g.types[t.Name]
	var opts []*V
	switch {
	case td != nil && td.Kind == "enum":
		opts = []*V{vEnum("PURPLE"), vEnum("red"), vStr("RED"), vInt("1"), vBool(true), vObj()}
	case td != nil && td.Kind == "input":
		opts = []*V{vStr("x"), vInt("1"), vList(vInt("1")), vObj(KV{"zzz", vInt("1")})}
	default:
		switch t.Name {
		case "Int", "Int32", "Int64", "Uint", "Uint32", "Uint64", "IntID", "UintID":
			opts = []*V{vFloat("1.5"), vFloat("1.0"), vFloat("1e3"), vStr("abc"), vStr("7"), vStr("+5"), vStr(" 5"), vStr(""), vBool(true),
				vInt(pick(g.r, bigGrid)), vInt("-1"), vInt("4294967296"), vInt("2147483648"), vStr("-1"), vStr("18446744073709551616"), vObj(), vList(vInt("1"), vInt("2"))}
		case "Float":
			opts = []*V{vStr("1.5"), vStr("abc"), vBool(false), vObj()}
		case "String":
			opts = []*V{vInt("5"), vFloat("1.5"), vBool(true), vEnum("RED")}
		case "Boolean":
			opts = []*V{vInt("1"), vInt("0"), vStr("true"), vStr("yes")}
		case "ID", "MyID":
			opts = []*V{vFloat("1.5"), vFloat("0.1234567"), vBool(true), vObj()}
		default:
			opts = []*V{vObj()}
		}
	}
	return opts[g.r.Below(len(opts))]
}

func (g *G) scalarValue(name string) *V {
	switch name {
	case "Int", "Int64", "IntID":
		if g.r.Below(10) == 0 {
			g.tag("boundary")
			return vInt(pick(g.r, intGrid))
		}
		return vInt(pick(g.r, intGrid[:5]))
	case "Int32":
		g.tag("boundary")
		return vInt(pick(g.r, []string{"0", "1", "-1", "2147483647", "-2147483648", "2147483646", "77"}))
	case "Uint", "Uint64", "UintID":
		g.tag("boundary")
		return vInt(pick(g.r, []string{"0", "1", "7", "4294967296", "9223372036854775807", "42"}))
	case "Uint32":
		g.tag("boundary")
		return vInt(pick(g.r, []string{"0", "1", "4294967295", "4294967294", "9"}))
	case "Float":
		if g.r.Bool() {
			return vFloat(pick(g.r, floatGrid))
		}
		return vInt(pick(g.r, intGrid[:6]))
	case "String":
		return vStr(pick(g.r, strGrid))
	case "Boolean":
		return vBool(g.r.Bool())
	case "ID", "MyID":
		if g.r.Below(3) == 0 {
			return vInt(pick(g.r, intGrid[:5]))
		}
		return vStr(pick(g.r, []string{"id1", "7", "", "abc def", "007"}))
	case "Any":
		opts := []*V{vInt("5"), vStr("s"), vBool(true), vList(vInt("1"), vStr("x")), vObj(KV{"a", vInt("1")}, KV{"b", vList(vNull())}), vFloat("2.5")}
		return opts[g.r.Below(len(opts))]
	}
	return vInt("1")
}

// value generates a (mostly valid) value for type t; depth limits recursive inputs.
func (g *G) value(t *TRef, depth int) *V {
	// one invalid position per case at most, in the invalid stream
	if g.inval && !g.usedIv && g.r.Below(6) == 0 {
		if g.r.Below(4) == 0 && t.NN {
			g.usedIv = true
			g.tag("invalid")
			g.tag("invalid:null-for-nonnull")
			return vNull()
		}
		return g.wrong(&TRef{Name: baseName(t)})
	}
	if !t.NN && g.r.Below(8) == 0 {
		g.tag("explicit-null")
		return vNull()
	}
	// a variable nested inside a literal
	if !g.asVar && depth > 0 && g.r.Below(12) == 0 {
		return g.variable(t, depth, true)
	}
	if t.Elem != nil {
		if g.r.Below(4) == 0 {
			g.tag("single-to-list")
			g.tag("single-to-list:" + g.kindOf(t))
			return g.value(withNN(t.Elem), depth+1) // a single item (not null)
		}
		n := g.r.Below(4)
		l := &V{K: "list", L: []*V{}}
		for i := 0; i < n; i++ {
			it := g.value(t.Elem, depth+1)
			if it.K == "null" && t.Elem.Elem != nil && !t.Elem.NN && g.asVar && g.inval {
				// a null item of a nested list inside a variable makes gqlparser's validator panic (finding F02e). In the
				// INVALID stream the same variable may also hold a value that gqlparser only rejects late (an enum in
				// another case, a float for a custom scalar): which of the two refusals comes first is then decided by
				// gqlparser's leniency, not by the specification. Keep F02e to the valid stream and the directed cases.
				it = &V{K: "list", L: []*V{}}
			}
			l.L = append(l.L, it)
		}
		if n == 0 {
			g.tag("empty-list")
		}
		return l
	}
	td := g.types[t.Name]
	if td == nil {
		return vNull()
	}
	switch td.Kind {
	case "enum":
		return vEnum(td.Values[g.r.Below(len(td.Values))])
	case "input":
		o := &V{K: "obj", F: []KV{}}
		if g.allOptional(td) && g.r.Below(5) == 0 {
			// the empty object: valid for an input type whose fields are all nullable or defaulted
			g.tag("empty-object")
			if td.IsMap {
				g.tag("map-backed")
			}
			return o
		}
		for _, f := range td.Fields {
			required := f.Type.NN && f.Default == nil
			if !required {
				skip := 50
				if depth >= 3 {
					skip = 100
				}
				if g.r.Below(100) < skip {
					if f.Default != nil {
						g.tag("default-injected")
					}
					continue
				}
			} else if g.inval && !g.usedIv && g.r.Below(10) == 0 {
				g.usedIv = true
				g.tag("invalid")
				g.tag("invalid:missing-required")
				continue
			}
			o.F = append(o.F, KV{f.Name, g.value(f.Type, depth+1)})
		}
		if g.inval && !g.usedIv && g.r.Below(15) == 0 {
			g.usedIv = true
			g.tag("invalid")
			g.tag("invalid:unknown-field")
			o.F = append(o.F, KV{"zzz", vInt("1")})
		}
		if td.IsMap {
			g.tag("map-backed")
		}
		return o
	default:
		return g.scalarValue(t.Name)
	}
}

func baseName(t *TRef) string {
	for t.Elem != nil {
		t = t.Elem
	}
	return t.Name
}

func withNN(t *TRef) *TRef { c := *t; c.NN = true; return &c }

// variable puts a variable at a position of type t.
func (g *G) variable(t *TRef, depth int, nested bool) *V {
	g.nvar++
	vu := &VarUse{Name: fmt.Sprintf("v%d", g.nvar), Type: t}
	g.tag("variable")
	if nested {
		g.tag("nested-variable")
	}
	was := g.asVar
	g.asVar = true
	defer func() { g.asVar = was }()
	// declared type: exactly the position's type; sometimes nullable with a default at a non-null position
	if t.NN && g.r.Below(6) == 0 {
		vu.Type = t.nullable()
		vu.Default = g.validNoNull(t, depth+1)
		g.tag("nullable-var-with-default-at-nonnull")
	} else if g.r.Below(8) == 0 {
		vu.Default = g.validNoNull(t, depth+1)
		g.tag("var-default")
	}
	st := g.r.Below(10)
	switch {
	case st == 0 && (!vu.Type.NN || vu.Default != nil):
		vu.State = 1
		g.tag("absent-variable")
		if nested {
			g.tag("absent-nested-variable")
		}
	case st == 1 && !vu.Type.NN:
		vu.State = 2
		g.tag("null-variable")
	default:
		vu.Value = g.value(withNNIf(t, vu.Type.NN), depth+1)
	}
	g.vars = append(g.vars, vu)
	return &V{K: "var", S: vu.Name, Var: vu}
}

func withNNIf(t *TRef, nn bool) *TRef { c := *t; c.NN = nn; return &c }

// validNoNull: a valid non-null literal for a default value (no variables inside)
func (g *G) validNoNull(t *TRef, depth int) *V {
	save, si, su := g.inval, g.asVar, g.usedIv
	g.inval, g.asVar = false, true
	defer func() { g.inval, g.asVar, g.usedIv = save, si, su }()
	for i := 0; i < 20; i++ {
		v := g.value(withNN(t), depth)
		if v.K != "null" {
			// defaults are literals in the document: enums must be enum literals (they are: vEnum)
			return v
		}
	}
	return vInt("1")
}

type FieldUseJ struct {
	Path  string    `json:"path"`
	Obj   string    `json:"obj"`
	Field string    `json:"field"`
	Args  []ArgUseJ `json:"args"`
}
type ArgUseJ struct {
	N string `json:"n"`
	V LitJ   `json:"v"`
}
type VarDefJ struct {
	Name    string `json:"name"`
	Type    *TRef  `json:"type"`
	Default *LitJ  `json:"default,omitempty"`
}
type ValJ struct {
	N string `json:"n"`
	V RawVJ  `json:"v"`
}
type ModelJ struct {
	Vars   []VarDefJ   `json:"vars"`
	Values []ValJ      `json:"values"`
	Fields []FieldUseJ `json:"fields"`
}
type CaseJ struct {
	ID        string          `json:"id"`
	Query     string          `json:"query"`
	VarsJSON  string          `json:"varsJSON,omitempty"`
	Variables json.RawMessage `json:"variables,omitempty"`
	Plan      json.RawMessage `json:"plan"`
	Model     ModelJ          `json:"model"`
	Tags      []string        `json:"tags"`
	F64       bool            `json:"f64,omitempty"`
}

// use: one field selection with chosen arguments
type use struct {
	res  *ResolverJ
	args []KV
}

func (g *G) build(id string, uses []use, f64 bool) CaseJ {
	var sels []string
	m := ModelJ{Vars: []VarDefJ{}, Values: []ValJ{}, Fields: []FieldUseJ{}}
	overrides := map[string]any{}
	for i, u := range uses {
		alias := fmt.Sprintf("a%d", i)
		var ap []string
		fu := FieldUseJ{Obj: u.res.Obj, Field: u.res.Name, Args: []ArgUseJ{}}
		for _, kv := range u.args {
			ap = append(ap, kv.N+": "+kv.V.lit())
			fu.Args = append(fu.Args, ArgUseJ{N: kv.N, V: kv.V.litJ()})
		}
		call := u.res.Name
		if len(ap) > 0 {
			call += "(" + strings.Join(ap, ", ") + ")"
		}
		switch u.res.Obj {
		case "Query":
			sels = append(sels, alias+": "+call)
			fu.Path = alias
			m.Fields = append(m.Fields, fu)
		default:
			// reached through Query.obj (single) or Query.objs (list of 2); Query.meth / Query.meths for Meth
			single := lowerFirst(u.res.Obj)
			if i%2 == 0 {
				sels = append(sels, alias+": "+single+" { "+call+" }")
				fu.Path = alias + "/" + u.res.Name
				m.Fields = append(m.Fields, fu)
			} else {
				sels = append(sels, alias+": "+single+"s { "+call+" }")
				overrides[alias] = map[string]any{"kind": "value", "len": 2}
				for k := 0; k < 2; k++ {
					c := fu
					c.Path = fmt.Sprintf("%s/%d/%s", alias, k, u.res.Name)
					m.Fields = append(m.Fields, c)
				}
			}
		}
	}
	var decl []string
	var vj []string
	for _, vu := range g.vars {
		d := "$" + vu.Name + ": " + vu.Type.String()
		vd := VarDefJ{Name: vu.Name, Type: vu.Type}
		if vu.Default != nil {
			d += " = " + vu.Default.lit()
			lj := vu.Default.litJ()
			vd.Default = &lj
		}
		decl = append(decl, d)
		m.Vars = append(m.Vars, vd)
		switch vu.State {
		case 0:
			vj = append(vj, strconv.Quote(vu.Name)+":"+vu.Value.json())
			m.Values = append(m.Values, ValJ{N: vu.Name, V: vu.Value.raw(f64)})
		case 2:
			vj = append(vj, strconv.Quote(vu.Name)+":null")
			m.Values = append(m.Values, ValJ{N: vu.Name, V: RawVJ{K: "null"}})
		}
	}
	q := "query"
	if len(decl) > 0 {
		q += "(" + strings.Join(decl, ", ") + ")"
	}
	q += " { " + strings.Join(sels, " ") + " }"
	plan, _ := json.Marshal(map[string]any{"seed": 1, "overrides": overrides})
	c := CaseJ{ID: id, Query: q, Plan: plan, Model: m, F64: f64}
	vars := "{" + strings.Join(vj, ",") + "}"
	if f64 {
		c.Variables = json.RawMessage(vars)
		g.tag("f64-mode")
	} else {
		c.VarsJSON = vars
	}
	for t := range g.tags {
		c.Tags = append(c.Tags, t)
	}
	sort.Strings(c.Tags)
	return c
}

func (g *G) reset(inval bool) {
	g.tags = map[string]bool{}
	g.vars = nil
	g.nvar = 0
	g.inval = inval
	g.usedIv = false
	g.asVar = false
}

// random case
func (g *G) random(i int, withArgs []*ResolverJ) CaseJ {
	g.reset(i%4 == 3)
	n := 1 + g.r.Below(3)
	if g.inval {
		n = 1 // an invalid document rejects the whole operation: keep those cases to one field
	}
	var uses []use
	for k := 0; k < n; k++ {
		res := withArgs[g.r.Below(len(withArgs))]
		u := use{res: res}
		if res.Bound == "method" {
			g.tag("method-bound")
			if res.HasCtx {
				g.tag("method-ctx")
			} else {
				g.tag("method-noctx")
			}
			if res.permuted() {
				g.tag("params-permuted")
			}
		}
		for _, a := range res.Args {
			required := a.Type.NN && a.Default == nil
			if res.dropped(a.Name) {
				// the method has no parameter for it: never unmarshalled. Always a valid literal, so that the
				// operation is valid and the Spec (which coerces every argument) accepts it too
				g.tag("argument-without-parameter")
				if !required && g.r.Below(3) == 0 {
					continue
				}
				iv := g.inval
				g.inval = false
				u.args = append(u.args, KV{a.Name, g.validNoNull(a.Type, 0)})
				g.inval = iv
				continue
			}
			if !required && g.r.Below(4) == 0 {
				g.tag("argument-omitted")
				if a.Default != nil {
					g.tag("argument-default")
				}
				continue
			}
			if required && g.inval && !g.usedIv && g.r.Below(12) == 0 {
				g.usedIv = true
				g.tag("invalid")
				g.tag("invalid:missing-required-arg")
				continue
			}
			var v *V
			if g.r.Below(2) == 0 {
				v = g.variable(a.Type, 0, false)
			} else {
				g.tag("literal")
				v = g.value(a.Type, 0)
			}
			if a.Dir {
				g.tag("argument-directive")
			}
			u.args = append(u.args, KV{a.Name, v})
		}
		if len(u.args) > 1 && g.r.Below(4) == 0 {
			// GraphQL arguments are unordered: write them in another order than the schema declares them
			g.tag("args-permuted-in-query")
			for k := len(u.args) - 1; k > 0; k-- {
				j := g.r.Below(k + 1)
				u.args[k], u.args[j] = u.args[j], u.args[k]
			}
		}
		uses = append(uses, u)
	}
	f64 := i%25 == 24 && len(g.vars) > 0
	return g.build(fmt.Sprintf("r%d", i), uses, f64)
}

func (g *G) has(obj, name string) bool {
	for i := range g.s.Fields {
		if g.s.Fields[i].Obj == obj && g.s.Fields[i].Name == name {
			return true
		}
	}
	return false
}

// distinctVal: a valid, non-null value of type t that differs for different k (so that two parameters of the same Go
// type that receive each other's value are told apart)
func (g *G) distinctVal(t *TRef, k int) *V {
	if t.Elem != nil {
		return vList(g.distinctVal(t.Elem, 2*k+1), g.distinctVal(t.Elem, 2*k+2))
	}
	td := g.types[t.Name]
	if td != nil && td.Kind == "enum" {
		return vEnum(td.Values[k%len(td.Values)])
	}
	if td != nil && td.Kind == "input" {
		var kvs []KV
		for i, f := range td.Fields {
			if f.Type.NN && f.Default == nil || i == 0 {
				kvs = append(kvs, KV{f.Name, g.distinctVal(f.Type, k)})
			}
		}
		return vObj(kvs...)
	}
	switch t.Name {
	case "String":
		return vStr(fmt.Sprintf("s%d", k))
	case "ID", "MyID":
		return vStr(fmt.Sprintf("id%d", k))
	case "Boolean":
		return vBool(k%2 == 0)
	case "Float":
		return vFloat(fmt.Sprintf("%d.5", k+1))
	}
	return vInt(strconv.Itoa(11 * (k + 1)))
}

// directedMethods: every field bound to a model method, with pairwise distinct values for all its arguments - as
// literals, through variables, written in reverse order in the query, and with only the required arguments
func (g *G) directedMethods(emit func(tags []string, f64 bool, uses ...use)) {
	for i := range g.s.Fields {
		res := &g.s.Fields[i]
		if res.Bound != "method" || len(res.Args) == 0 {
			continue
		}
		tags := []string{"method-bound", "method-noctx"}
		if res.HasCtx {
			tags[1] = "method-ctx"
		}
		if res.permuted() {
			tags = append(tags, "params-permuted")
		}
		var lits, rev, vars, req []KV
		for k, a := range res.Args {
			lits = append(lits, KV{a.Name, g.distinctVal(a.Type, k)})
			if a.Type.NN && a.Default == nil {
				req = append(req, KV{a.Name, g.distinctVal(a.Type, k+3)})
			}
		}
		for k := len(lits) - 1; k >= 0; k-- {
			rev = append(rev, lits[k])
		}
		emit(append([]string{"literal"}, tags...), false, use{res: res, args: lits})
		emit(append([]string{"literal", "args-permuted-in-query"}, tags...), false, use{res: res, args: rev})
		// the same field twice in one operation (once below the list parent)
		emit(append([]string{"literal"}, tags...), false, use{res: res, args: lits}, use{res: res, args: rev})
		for k, a := range res.Args {
			if res.dropped(a.Name) {
				vars = append(vars, lits[k])
				continue
			}
			vars = append(vars, KV{a.Name, g.mkVar(fmt.Sprintf("v%d", k), a.Type, nil, 0, g.distinctVal(a.Type, k+5))})
		}
		emit(append([]string{"variable"}, tags...), false, use{res: res, args: vars})
		emit(append([]string{"literal", "argument-omitted"}, tags...), false, use{res: res, args: req})
	}
}

// allOptional: every field of the input type is nullable or has a default, so `{}` is a valid value of it
func (g *G) allOptional(td *TypeJ) bool {
	for _, f := range td.Fields {
		if f.Type.NN && f.Default == nil {
			return false
		}
	}
	return true
}

// kindOf: the kind of the innermost item of a list type (scalar name / enum / input / input-all-optional / map-input)
func (g *G) kindOf(t *TRef) string {
	depth := 0
	for t.Elem != nil {
		t = t.Elem
		depth++
	}
	k := t.Name
	if td := g.types[t.Name]; td != nil {
		switch {
		case td.Kind == "enum":
			k = "enum"
		case td.Kind == "input" && td.IsMap:
			k = "map-input"
		case td.Kind == "input" && g.allOptional(td):
			k = "input-all-optional"
		case td.Kind == "input":
			k = "input"
		}
	}
	if depth > 1 {
		k += fmt.Sprintf("/depth%d", depth)
	}
	return k
}

// required: the object holding only the fields an input type requires (`{}` when it requires none)
func (g *G) required(td *TypeJ, k int) *V {
	o := vObj()
	o.F = []KV{}
	for _, f := range td.Fields {
		if f.Type.NN && f.Default == nil {
			o.F = append(o.F, KV{f.Name, g.singleOf(f.Type, k)[0]})
		}
	}
	return o
}

// singleOf: single (non-list, non-null) values of the innermost item type of t. Input objects: the object with
// only the required fields - the EMPTY object when nothing is required -, and that object plus each optional
// non-input field in turn (a scalar / enum / list field, written as a single value too).
func (g *G) singleOf(t *TRef, k int) []*V {
	for t.Elem != nil {
		t = t.Elem
	}
	td := g.types[t.Name]
	if td == nil || td.Kind != "input" {
		return []*V{g.distinctVal(t, k)}
	}
	base := g.required(td, k)
	out := []*V{base}
	n := 0
	for _, f := range td.Fields {
		if f.Type.NN && f.Default == nil {
			continue
		}
		if ft := g.types[baseName(f.Type)]; ft != nil && ft.Kind == "input" {
			continue
		}
		if n++; n > 2 {
			break
		}
		o := vObj(append(append([]KV{}, base.F...), KV{f.Name, g.singleOf(f.Type, k+n)[0]})...)
		out = append(out, o)
	}
	// ... and plus the first list-of-input-objects field, given as a single object (a single value inside a single value)
	for _, f := range td.Fields {
		ft := g.types[baseName(f.Type)]
		if f.Type.Elem == nil || ft == nil || ft.Kind != "input" || ft.IsMap || ft.Name == td.Name {
			continue
		}
		out = append(out, vObj(append(append([]KV{}, base.F...), KV{f.Name, g.required(ft, k+3)})...))
		break
	}
	return out
}

func listDepth(t *TRef) int {
	d := 0
	for t.Elem != nil {
		t = t.Elem
		d++
	}
	return d
}

// listForms: the ways of writing the one-item list [..[s]..] of depth d: s itself, [s], [[s]], ... (every prefix of
// the brackets may be left out: single value -> list applies at every level), and the empty list
func listForms(s *V, d int) []*V {
	out := []*V{s}
	cur := s
	for i := 0; i < d; i++ {
		cur = vList(cur)
		out = append(out, cur)
	}
	return append(out, &V{K: "list", L: []*V{}})
}

// directedLists: single value -> list, systematically: EVERY list-typed argument of every resolver and EVERY
// list-typed field of every input type that is an argument's type, for every single value of singleOf (scalars,
// enums, input objects incl. the empty object and objects whose fields all have defaults, items of nested lists),
// written as the bare item, wrapped at every depth and as the empty list; as a literal, as a variable of the whole
// argument and - for input fields - as a variable standing at the field.
func (g *G) directedLists(emit func(tags []string, f64 bool, uses ...use)) {
	for i := range g.s.Fields {
		res := &g.s.Fields[i]
		if res.Bound == "method" {
			continue
		}
		// the other required arguments of the field
		others := func(skip string) []KV {
			var kvs []KV
			for _, a := range res.Args {
				if a.Name != skip && a.Type.NN && a.Default == nil {
					kvs = append(kvs, KV{a.Name, g.singleOf(a.Type, 7)[0]})
				}
			}
			return kvs
		}
		for _, a := range res.Args {
			td := g.types[baseName(a.Type)]
			if td != nil && td.IsMap {
				continue // a list of map-backed inputs is finding F02c whatever the value; MapIn's own list fields are covered below
			}
			if a.Type.Elem != nil {
				kind := g.kindOf(a.Type)
				for si, s := range g.singleOf(a.Type, 0) {
					for fi, form := range listForms(s, listDepth(a.Type)) {
						if si > 0 && fi == listDepth(a.Type)+1 {
							continue // the empty list once
						}
						tags := []string{"directed-lists", "argument-list", "single-to-list:" + kind}
						if fi == 0 {
							tags = append(tags, "single-to-list")
						}
						if s.K == "obj" && len(s.F) == 0 && fi <= listDepth(a.Type) {
							tags = append(tags, "empty-object")
						}
						emit(append([]string{"literal"}, tags...), false, use{res: res, args: append(others(a.Name), KV{a.Name, form})})
						emit(append([]string{"variable"}, tags...), false, use{res: res, args: append(others(a.Name), KV{a.Name, g.mkVar("x", a.Type, nil, 0, form)})})
					}
				}
				// omitted: the argument's default (possibly a single value for the list), and a variable's default
				if !a.Type.NN || a.Default != nil {
					emit([]string{"directed-lists", "argument-list", "argument-omitted"}, false, use{res: res, args: others(a.Name)})
					s := g.singleOf(a.Type, 3)[0]
					emit([]string{"directed-lists", "argument-list", "var-default", "absent-variable", "single-to-list"}, false,
						use{res: res, args: append(others(a.Name), KV{a.Name, g.mkVar("x", a.Type.nullable(), s, 1, nil)})})
				}
				continue
			}
			if td == nil || td.Kind != "input" || a.Type.Elem != nil {
				continue
			}
			// list-typed fields of the argument's input type
			base := g.required(td, 5)
			obj := func(kv ...KV) *V { return vObj(append(append([]KV{}, base.F...), kv...)...) }
			emit([]string{"directed-lists", "input-field-list", "default-injected", "literal"}, false, use{res: res, args: append(others(a.Name), KV{a.Name, obj()})})
			emit([]string{"directed-lists", "input-field-list", "default-injected", "variable"}, false,
				use{res: res, args: append(others(a.Name), KV{a.Name, g.mkVar("x", a.Type, nil, 0, obj())})})
			for _, f := range td.Fields {
				if f.Type.Elem == nil {
					continue
				}
				if ft := g.types[baseName(f.Type)]; ft != nil && ft.IsMap {
					continue
				}
				kind := g.kindOf(f.Type)
				for si, s := range g.singleOf(f.Type, 1) {
					for fi, form := range listForms(s, listDepth(f.Type)) {
						if si > 0 && fi == listDepth(f.Type)+1 {
							continue
						}
						tags := []string{"directed-lists", "input-field-list", "single-to-list:" + kind}
						if fi == 0 {
							tags = append(tags, "single-to-list")
						}
						if s.K == "obj" && len(s.F) == 0 && fi <= listDepth(f.Type) {
							tags = append(tags, "empty-object")
						}
						emit(append([]string{"literal"}, tags...), false, use{res: res, args: append(others(a.Name), KV{a.Name, obj(KV{f.Name, form})})})
						emit(append([]string{"variable"}, tags...), false,
							use{res: res, args: append(others(a.Name), KV{a.Name, g.mkVar("x", a.Type, nil, 0, obj(KV{f.Name, form}))})})
						emit(append([]string{"variable", "nested-variable"}, tags...), false,
							use{res: res, args: append(others(a.Name), KV{a.Name, obj(KV{f.Name, g.mkVar("x", f.Type, nil, 0, form)})})})
					}
				}
				// explicit null for a list field with a default: the default must not be applied
				if f.Default != nil && !f.Type.NN {
					emit([]string{"directed-lists", "input-field-list", "explicit-null", "literal"}, false,
						use{res: res, args: append(others(a.Name), KV{a.Name, obj(KV{f.Name, vNull()})})})
				}
			}
		}
	}
}

func (g *G) find(obj, name string) *ResolverJ {
	for i := range g.s.Fields {
		if g.s.Fields[i].Obj == obj && g.s.Fields[i].Name == name {
			return &g.s.Fields[i]
		}
	}
	panic("no resolver " + obj + "." + name)
}

func (g *G) mkVar(name string, t *TRef, dflt *V, state int, val *V) *V {
	vu := &VarUse{Name: name, Type: t, Default: dflt, State: state, Value: val}
	g.vars = append(g.vars, vu)
	return &V{K: "var", S: name, Var: vu}
}

func named(n string, nn bool) *TRef { return &TRef{Name: n, NN: nn} }
func listOf(e *TRef, nn bool) *TRef { return &TRef{Elem: e, NN: nn} }

// directed adversarial shapes
func (g *G) directed() []CaseJ {
	var out []CaseJ
	n := 0
	emit := func(tags []string, f64 bool, uses ...use) {
		for _, t := range tags {
			g.tag(t)
		}
		g.tag("directed")
		out = append(out, g.build(fmt.Sprintf("d%d", n), uses, f64))
		n++
		g.reset(false)
	}
	g.reset(false)
	g.directedMethods(emit)
	if !g.has("Query", "int") {
		return out // not the main coercion probe (go/probes/coercemt): only the method-bound fields
	}
	g.directedLists(emit)
	q := func(name string, args ...KV) use { return use{res: g.find("Query", name), args: args} }
	// boundary integers on every integer scalar, as literal / json.Number variable / string variable
	ints := map[string]string{"int": "Int", "intNN": "Int", "i32": "Int32", "i64": "Int64", "u": "Uint", "u32": "Uint32", "u64": "Uint64",
		"intid": "IntID", "uintid": "UintID", "id": "ID", "myid": "MyID", "flt": "Float", "str": "String", "bool": "Boolean"}
	var fields []string
	for f := range ints {
		fields = append(fields, f)
	}
	sort.Strings(fields)
	grid := append(append([]string{}, intGrid...), bigGrid...)
	grid = append(grid, "2147483646", "-2147483647", "4294967294", "9223372036854775806")
	for _, f := range fields {
		tn := ints[f]
		nn := f == "intNN"
		for _, x := range grid {
			emit([]string{"boundary", "literal"}, false, q(f, KV{"v", vInt(x)}))
			emit([]string{"boundary", "variable"}, false, q(f, KV{"v", g.mkVar("x", named(tn, nn), nil, 0, vInt(x))}))
			emit([]string{"boundary", "variable", "string-for-number"}, false, q(f, KV{"v", g.mkVar("x", named(tn, nn), nil, 0, vStr(x))}))
		}
		for _, x := range []string{"1.0", "1.5", "1e3", "-0.0", "0.1234567", "123456789.123456789"} {
			emit([]string{"float-for-int", "literal"}, false, q(f, KV{"v", vFloat(x)}))
			emit([]string{"float-for-int", "variable"}, false, q(f, KV{"v", g.mkVar("x", named(tn, nn), nil, 0, vFloat(x))}))
			emit([]string{"float-for-int", "variable", "f64-mode"}, true, q(f, KV{"v", g.mkVar("x", named(tn, nn), nil, 0, vFloat(x))}))
		}
		for _, x := range []string{"+5", "-0", "007", " 5", "abc", "", "0x10", "true"} {
			emit([]string{"string-for-number", "variable"}, false, q(f, KV{"v", g.mkVar("x", named(tn, nn), nil, 0, vStr(x))}))
			emit([]string{"string-for-number", "literal"}, false, q(f, KV{"v", vStr(x)}))
		}
		emit([]string{"bool-for-number"}, false, q(f, KV{"v", g.mkVar("x", named(tn, nn), nil, 0, vBool(true))}))
		emit([]string{"bool-for-number", "literal"}, false, q(f, KV{"v", vBool(true)}))
		emit([]string{"f64-mode"}, true, q(f, KV{"v", g.mkVar("x", named(tn, nn), nil, 0, vInt("7"))}))
		if !nn {
			emit([]string{"explicit-null", "literal"}, false, q(f, KV{"v", vNull()}))
			emit([]string{"null-variable"}, false, q(f, KV{"v", g.mkVar("x", named(tn, false), nil, 2, nil)}))
			emit([]string{"absent-variable"}, false, q(f, KV{"v", g.mkVar("x", named(tn, false), nil, 1, nil)}))
			emit([]string{"argument-omitted"}, false, q(f))
		}
	}
	// null through a defaulted nullable variable at a non-null position
	emit([]string{"nullable-var-with-default-at-nonnull", "null-variable"}, false, q("intNN", KV{"v", g.mkVar("x", named("Int", false), vInt("5"), 2, nil)}))
	emit([]string{"nullable-var-with-default-at-nonnull", "null-variable"}, false, q("idNN", KV{"v", g.mkVar("x", named("ID", false), vInt("5"), 2, nil)}))
	emit([]string{"nullable-var-with-default-at-nonnull", "null-variable"}, false, q("innerNN", KV{"v", g.mkVar("x", named("Inner", false), vObj(KV{"n", vInt("1")}), 2, nil)}))
	emit([]string{"nullable-var-with-default-at-nonnull", "null-variable", "nested-variable"}, false,
		q("inner", KV{"v", vObj(KV{"n", g.mkVar("x", named("Int", false), vInt("5"), 2, nil)})}))
	emit([]string{"nullable-var-with-default-at-nonnull", "null-variable", "nested-variable"}, false,
		q("intsNN", KV{"v", vList(vInt("1"), g.mkVar("x", named("Int", false), vInt("5"), 2, nil))}))
	emit([]string{"nullable-var-with-default-at-nonnull", "absent-variable"}, false, q("intNN", KV{"v", g.mkVar("x", named("Int", false), vInt("5"), 1, nil)}))
	emit([]string{"nullable-var-with-default-at-nonnull"}, false, q("intNN", KV{"v", g.mkVar("x", named("Int", false), vInt("5"), 0, vInt("8"))}))
	// absent / null / value for every nullable field of Inner, Outer.opt*, MapIn: literal and variable
	for _, st := range []int{0, 1, 2} {
		for _, fld := range []string{"inner", "mapin", "dirin", "outer"} {
			var o *V
			switch fld {
			case "inner":
				o = vObj(KV{"n", vInt("1")}, KV{"o", g.mkVar("x", named("Int", false), nil, st, vInt("3"))}, KV{"s", g.mkVar("y", named("String", false), nil, st, vStr("given"))})
			case "mapin":
				o = vObj(KV{"a", g.mkVar("x", named("Int", false), nil, st, vInt("3"))}, KV{"b", g.mkVar("y", named("String", false), nil, st, vStr("given"))})
			case "dirin":
				o = vObj(KV{"a", g.mkVar("x", named("Int", false), nil, st, vInt("3"))})
			default:
				o = vObj(KV{"id", vStr("i")}, KV{"innerNN", vObj(KV{"n", vInt("2")})}, KV{"optD", g.mkVar("x", named("Int", false), nil, st, vInt("3"))}, KV{"opt", g.mkVar("y", named("Int", false), nil, st, vInt("4"))})
			}
			tg := []string{"nested-variable", "variable"}
			if st == 1 {
				tg = append(tg, "absent-nested-variable", "absent-variable")
			}
			if st == 2 {
				tg = append(tg, "null-variable")
			}
			emit(tg, false, q(fld, KV{"v", o}))
		}
	}
	for _, fv := range []*V{nil, vNull(), vInt("3")} {
		for _, viaVar := range []bool{false, true} {
			for _, fld := range []struct{ q, ty, f string }{{"inner", "Inner", "o"}, {"inner", "Inner", "s"}, {"inner", "Inner", "l"}, {"mapin", "MapIn", "a"}, {"mapin", "MapIn", "b"}, {"dirin", "DirIn", "a"}} {
				o := vObj()
				if fld.ty == "Inner" {
					o.F = append(o.F, KV{"n", vInt("1")})
				}
				if fv != nil {
					val := fv
					if fv.K == "int" && (fld.f == "s" || fld.f == "b") {
						val = vStr("given")
					}
					o.F = append(o.F, KV{fld.f, val})
				}
				tg := []string{"omitted-vs-null"}
				if viaVar {
					emit(append(tg, "variable"), false, q(fld.q, KV{"v", g.mkVar("x", named(fld.ty, false), nil, 0, o)}))
				} else {
					emit(append(tg, "literal"), false, q(fld.q, KV{"v", o}))
				}
			}
		}
	}
	// single value → list at every depth, nested lists, null items
	for _, viaVar := range []bool{false, true} {
		mk := func(f string, t *TRef, v *V) {
			if viaVar {
				emit([]string{"single-to-list", "variable"}, false, q(f, KV{"v", g.mkVar("x", t, nil, 0, v)}))
			} else {
				emit([]string{"single-to-list", "literal"}, false, q(f, KV{"v", v}))
			}
		}
		ints1 := listOf(named("Int", false), false)
		intss := listOf(ints1, false)
		mk("ints", ints1, vInt("5"))
		mk("ints", ints1, vList(vInt("1"), vNull(), vInt("3")))
		mk("ints", ints1, vList())
		mk("intss", intss, vInt("5"))
		mk("intss", intss, vList(vInt("1"), vInt("2")))
		mk("intss", intss, vList(vList(vInt("1")), vInt("2"), vNull()))
		mk("intss", intss, vList(vNull()))
		mk("intss", intss, vList(vList(vNull())))
		mk("intsNN", listOf(named("Int", true), true), vInt("5"))
		mk("intsNN", listOf(named("Int", true), true), vList(vInt("1"), vNull()))
		mk("u32s", listOf(named("Uint32", true), false), vInt("4294967295"))
		mk("u32s", listOf(named("Uint32", true), false), vList(vInt("1"), vInt("4294967296")))
		mk("colors", listOf(named("Color", true), false), vEnum("RED"))
		mk("colors", listOf(named("Color", true), false), vList(vEnum("RED"), vEnum("PURPLE")))
		mk("inners", listOf(named("Inner", false), false), vObj(KV{"n", vInt("1")}))
		mk("inners", listOf(named("Inner", false), false), vList(vObj(KV{"n", vInt("1")}), vNull(), vObj(KV{"n", vInt("2")}, KV{"l", vInt("9")})))
		mk("innersNN", listOf(named("Inner", true), true), vObj(KV{"n", vInt("1")}, KV{"child", vObj(KV{"n", vInt("2")}, KV{"l", vInt("4")})}))
		mk("mapins", listOf(named("MapIn", true), false), vObj(KV{"a", vInt("1")}))
		mk("mapins", listOf(named("MapIn", true), false), vList(vObj(KV{"a", vInt("1")})))
		mk("outer", named("Outer", false), vObj(KV{"id", vInt("5")}, KV{"innerNN", vObj(KV{"n", vInt("1")})}, KV{"inners", vObj(KV{"n", vInt("2")})}, KV{"ll", vInt("3")}, KV{"u", vInt("7")}, KV{"f", vInt("2")}))
		mk("outer", named("Outer", false), vObj(KV{"id", vStr("x")}, KV{"innerNN", vObj(KV{"n", vInt("1")})}, KV{"ll", vList(vInt("1"), vList(vInt("2"), vNull()))}, KV{"e", vEnum("BLUE")}, KV{"innerD", vNull()}))
		mk("mapin", named("MapIn", false), vObj(KV{"c", vInt("4")}, KV{"m", vObj(KV{"inner", vObj(KV{"n", vInt("1")})}, KV{"nn", vInt("8")})}))
	}
	// defaults of every kind
	emit([]string{"argument-default"}, false, q("intD"), q("intNND"), q("strD"), q("colorD"), q("intsD"), q("innerD"), q("multi"))
	emit([]string{"argument-default", "explicit-null"}, false, q("intD", KV{"v", vNull()}), q("colorD", KV{"v", vNull()}), q("intsD", KV{"v", vNull()}), q("innerD", KV{"v", vNull()}))
	emit([]string{"argument-default", "absent-variable"}, false, q("intD", KV{"v", g.mkVar("x", named("Int", false), nil, 1, nil)}), q("innerD", KV{"v", g.mkVar("y", named("Inner", false), nil, 1, nil)}))
	emit([]string{"var-default", "absent-variable"}, false, q("int", KV{"v", g.mkVar("x", named("Int", false), vInt("11"), 1, nil)}), q("ints", KV{"v", g.mkVar("y", listOf(named("Int", false), false), vInt("12"), 1, nil)}),
		q("inner", KV{"v", g.mkVar("z", named("Inner", false), vObj(KV{"n", vInt("13")}), 1, nil)}))
	// literal out of int64 for custom scalars (arg2map)
	emit([]string{"literal-over-int64"}, false, q("u64", KV{"v", vInt("18446744073709551615")}))
	emit([]string{"literal-over-int64"}, false, q("any", KV{"v", vInt("9223372036854775808")}))
	// enum forms
	for _, x := range []*V{vEnum("RED"), vEnum("PURPLE"), vEnum("red"), vStr("RED"), vInt("1")} {
		emit([]string{"enum", "literal"}, false, q("color", KV{"v", x}))
		emit([]string{"enum", "variable"}, false, q("color", KV{"v", g.mkVar("x", named("Color", false), nil, 0, x)}))
	}
	// directives on arguments: absent / null / value
	for _, f := range []string{"dint", "dinner", "dints"} {
		emit([]string{"argument-directive", "argument-omitted"}, false, q(f))
		emit([]string{"argument-directive", "explicit-null"}, false, q(f, KV{"v", vNull()}))
	}
	emit([]string{"argument-directive"}, false, q("dint", KV{"v", vInt("3")}), q("dintNN", KV{"v", vInt("4")}), q("dinner", KV{"v", vObj(KV{"n", vInt("1")})}), q("dints", KV{"v", vInt("6")}))
	emit([]string{"argument-directive", "invalid"}, false, q("dintNN", KV{"v", g.mkVar("x", named("Int", true), nil, 0, vStr("abc"))}))
	// nested object fields and list-returning parents (paths)
	of := g.find("Obj", "f")
	emit([]string{"nested-field"}, false, use{res: of, args: []KV{{"v", vInt("1")}, {"w", vObj(KV{"n", vInt("2")})}}}, use{res: of, args: []KV{{"v", vInt("3")}}})
	emit([]string{"nested-field", "invalid"}, false, use{res: of, args: []KV{{"v", vInt("1")}, {"w", g.mkVar("x", named("Inner", false), nil, 0, vObj(KV{"n", vInt("1")}, KV{"c", vStr("red")}))}}},
		use{res: of, args: []KV{{"v", g.mkVar("y", named("Int", true), nil, 0, vStr("abc"))}}})
	// several arguments: the first failing one reports, later ones are not reached
	emit([]string{"multi"}, false, q("multi", KV{"a", vInt("1")}, KV{"b", vStr("s")}, KV{"c", vList(vInt("1"), vInt("2"))}, KV{"d", vObj(KV{"n", vInt("3")})}, KV{"e", vInt("4")}))
	emit([]string{"multi", "invalid"}, false, q("multi", KV{"a", vInt("1")}, KV{"c", g.mkVar("x", listOf(named("Int", true), false), nil, 0, vList(vInt("1"), vStr("zz")))}, KV{"e", vInt("4294967296")}))
	emit([]string{"any"}, false, q("any", KV{"v", g.mkVar("x", named("Any", false), nil, 0, vObj(KV{"x", vList(vInt("1"), vFloat("2.5"), vStr("s"), vNull(), vBool(true))}))}), q("any", KV{"v", vList(vInt("1"), vObj(KV{"a", vFloat("2.5")}))}))
	return out
}

// ---------------------------------------------------------------------------------------------- corpus

// parseType: "[[Item!]]!" -> TRef
func parseType(s string) *TRef {
	s = strings.TrimSpace(s)
	nn := strings.HasSuffix(s, "!")
	if nn {
		s = s[:len(s)-1]
	}
	if strings.HasPrefix(s, "[") && strings.HasSuffix(s, "]") {
		return &TRef{Elem: parseType(s[1 : len(s)-1]), NN: nn}
	}
	return &TRef{Name: s, NN: nn}
}

// corpusValue: decoded JSON (UseNumber) -> V. {"$enum": "RED"} is an enum literal; {"$var": "[Item!]", "value": …}
// (optionally "default": …, "state": "absent" | "null") puts a variable of that declared type at the position.
func (g *G) corpusValue(x any) *V {
	switch x := x.(type) {
	case nil:
		return vNull()
	case bool:
		return vBool(x)
	case json.Number:
		if strings.ContainsAny(string(x), ".eE") {
			return vFloat(string(x))
		}
		return vInt(string(x))
	case string:
		return vStr(x)
	case []any:
		l := &V{K: "list", L: []*V{}}
		for _, e := range x {
			l.L = append(l.L, g.corpusValue(e))
		}
		return l
	case map[string]any:
		if e, ok := x["$enum"].(string); ok {
			return vEnum(e)
		}
		if t, ok := x["$var"].(string); ok {
			g.nvar++
			var d *V
			if dv, ok := x["default"]; ok {
				d = g.corpusValue(dv)
			}
			st := map[any]int{"absent": 1, "null": 2}[x["state"]]
			var val *V
			if st == 0 {
				val = g.corpusValue(x["value"])
			}
			return g.mkVar(fmt.Sprintf("c%d", g.nvar), parseType(t), d, st, val)
		}
		keys := make([]string, 0, len(x))
		for k := range x {
			keys = append(keys, k)
		}
		sort.Strings(keys)
		o := &V{K: "obj", F: []KV{}}
		for _, k := range keys {
			o.F = append(o.F, KV{k, g.corpusValue(x[k])})
		}
		return o
	}
	panic(fmt.Sprintf("corpus value %T", x))
}

// corpus: the directed operations kept in /verif/corpus/C02/*.jsonl (one selection per line:
// {"name", "obj", "field", "args": {arg: value}}); lines naming a field the probe schema does not have are skipped.
func (g *G) corpus(dir string) []CaseJ {
	var out []CaseJ
	files, _ := filepath.Glob(filepath.Join(dir, "*.jsonl"))
	sort.Strings(files)
	n := 0
	for _, f := range files {
		b, err := os.ReadFile(f)
		if err != nil {
			panic(err)
		}
		for ln, line := range strings.Split(string(b), "\n") {
			if strings.TrimSpace(line) == "" || strings.HasPrefix(line, "#") {
				continue
			}
			var c struct {
				Name  string         `json:"name"`
				Obj   string         `json:"obj"`
				Field string         `json:"field"`
				Args  map[string]any `json:"args"`
			}
			dec := json.NewDecoder(strings.NewReader(line))
			dec.UseNumber()
			if err := dec.Decode(&c); err != nil {
				panic(fmt.Sprintf("%s:%d: %v", f, ln+1, err))
			}
			if c.Obj == "" {
				c.Obj = "Query"
			}
			if !g.has(c.Obj, c.Field) {
				continue
			}
			g.reset(false)
			res := g.find(c.Obj, c.Field)
			u := use{res: res}
			for _, a := range res.Args { // schema order
				if v, ok := c.Args[a.Name]; ok {
					u.args = append(u.args, KV{a.Name, g.corpusValue(v)})
				}
			}
			g.tag("corpus")
			g.tag("corpus:" + strings.TrimSuffix(filepath.Base(f), ".jsonl"))
			out = append(out, g.build(fmt.Sprintf("c%d", n), []use{u}, false))
			n++
		}
	}
	g.reset(false)
	return out
}

func runGen(schemaPath string, seed uint64, n int, corpusDir string) {
	b, err := os.ReadFile(schemaPath)
	if err != nil {
		panic(err)
	}
	g := &G{r: rng.New(seed), types: map[string]*TypeJ{}}
	if err := json.Unmarshal(b, &g.s); err != nil {
		panic(err)
	}
	for i := range g.s.Types {
		g.types[g.s.Types[i].Name] = &g.s.Types[i]
	}
	enc := json.NewEncoder(out)
	enc.SetEscapeHTML(false)
	if corpusDir != "" {
		for _, c := range g.corpus(corpusDir) {
			enc.Encode(c)
		}
	}
	for _, c := range g.directed() {
		enc.Encode(c)
	}
	var withArgs []*ResolverJ
	for i := range g.s.Fields {
		if len(g.s.Fields[i].Args) > 0 {
			withArgs = append(withArgs, &g.s.Fields[i])
		}
	}
	for i := 0; i < n; i++ {
		enc.Encode(g.random(i, withArgs))
	}
}

// runMethods: the methods declared in a hand-written model file, with their parameter names
func runMethods(file string) {
	fset := token.NewFileSet()
	f, err := parser.ParseFile(fset, file, nil, 0)
	if err != nil {
		panic(err)
	}
	type mj struct {
		Ctx      bool     `json:"hasCtx"`
		Params   []string `json:"params"`
		Variadic bool     `json:"variadic"`
	}
	res := map[string]map[string]mj{}
	for _, d := range f.Decls {
		fd, ok := d.(*goast.FuncDecl)
		if !ok || fd.Recv == nil || len(fd.Recv.List) != 1 {
			continue
		}
		rt := fd.Recv.List[0].Type
		if st, ok := rt.(*goast.StarExpr); ok {
			rt = st.X
		}
		id, ok := rt.(*goast.Ident)
		if !ok {
			continue
		}
		m := mj{Params: []string{}}
		first := true
		for _, p := range fd.Type.Params.List {
			_, variadic := p.Type.(*goast.Ellipsis)
			isCtx := false
			if se, ok := p.Type.(*goast.SelectorExpr); ok && se.Sel.Name == "Context" {
				isCtx = true
			}
			for _, n := range p.Names {
				if first && isCtx {
					m.Ctx = true
					first = false
					continue
				}
				first = false
				m.Params = append(m.Params, n.Name)
				m.Variadic = m.Variadic || variadic
			}
		}
		if res[id.Name] == nil {
			res[id.Name] = map[string]mj{}
		}
		res[id.Name][fd.Name.Name] = m
	}
	b, _ := json.Marshal(res)
	out.Write(b)
	out.WriteString("\n")
}

func main() {
	file := flag.String("file", "", "")
	mode := flag.String("mode", "scalars", "")
	schema := flag.String("schema", "", "")
	seed := flag.Uint64("seed", 1, "")
	n := flag.Int("n", 500, "")
	corpusDir := flag.String("corpus", "", "directory of directed operations (*.jsonl) run before the generated ones")
	flag.Parse()
	defer out.Flush()
	switch *mode {
	case "scalars":
		runScalars()
	case "gen":
		runGen(*schema, *seed, *n, *corpusDir)
	case "methods":
		runMethods(*file)
	}
}
