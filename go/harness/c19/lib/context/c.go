package context

// Key is a user package that happens to be called like a package the resolver template reserves.
func Key(s string) string { return s }
