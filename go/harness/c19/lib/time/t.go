package time

// Tick is a user package that happens to be called like a package the resolver template reserves.
func Tick() int { return 1 }
