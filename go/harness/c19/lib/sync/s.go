package sync

// Once is a user package that happens to be called like a package the resolver template reserves.
func Once() int { return 1 }
