package deep

func G() int { return 2 }
