package errors

// Wrap mimics github.com/pkg/errors.
func Wrap(s string) error { return nil }
