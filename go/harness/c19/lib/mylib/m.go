package mylib

func F() int { return 1 }
