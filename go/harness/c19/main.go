// Command c19 is the correspondence harness of property C19 (regeneration never loses user-written
// resolver code). For every case it creates a scratch gqlgen project under /verif/go/genout/c19_<id>/,
// runs the REAL api.Generate of /repo, plays the user (edit.go), evolves the schema (schema.go), runs
// api.Generate again, and prints one JSON line per regeneration with the resolver files before and after
// parsed into the structure of the Lean model, the flattened schema, and the generator's error.
// Cases run in parallel worker subprocesses (api.Generate uses process-global state).
package main

import (
	"bufio"
	"encoding/json"
	"flag"
	"fmt"
	"os"
	"os/exec"
	"path/filepath"
	"runtime"
	"sort"
	"strings"
	"sync"
	"time"

	"github.com/99designs/gqlgen/api"
	"github.com/99designs/gqlgen/codegen/config"

	"verifharness/internal/rng"
)

type Case struct {
	ID     int    `json:"id"`
	Kind   string `json:"kind"` // "random" or the name of a directed case
	Seed   uint64 `json:"seed"`
	Layout string `json:"layout"` // follow | single
	Steps  int    `json:"steps"`
	Omit   bool   `json:"omit"`   // resolver.omit_template_comment
	Mangle int    `json:"mangle"` // percentage of type / field names drawn from the name-mangling pools
	Clash  int    `json:"clash"`  // round 6: percentage of edited files that get imports whose alias dodges a taken package name
	Bytes  int    `json:"bytes"`  // round 6: percentage of edited files written in a non-canonical byte shape (CRLF, BOM, ...), bodies with non-ASCII text
	Shadow int    `json:"shadow"` // percentage of new fields with arguments / rewritten bodies with locals that shadow a package the template reserves
}

type Obs struct {
	Case    int               `json:"case"`
	Kind    string            `json:"kind"`
	Seed    uint64            `json:"seed"`
	Step    int               `json:"step"`
	Layout  string            `json:"layout"`
	Omit    bool              `json:"omitTemplateComment"`
	Ops     []string          `json:"ops"`
	AddOnly bool              `json:"addOnly"`
	Before  []OFile           `json:"before"`
	Schema  []OObj            `json:"schema"`
	Names   []OName           `json:"names"`
	After   []OFile           `json:"after"`
	GenErr  string            `json:"genErr"`
	Dir     string            `json:"dir"`
	Note    string            `json:"note,omitempty"`
	Raw     map[string]string `json:"raw,omitempty"` // raw text of files that do not parse
}

type W struct {
	Dir, Pkg, Layout  string
	N                 int
	Sch               *Schema
	KeepUnusedImports bool
	Shadow            int
	Clash, Bytes      int
}

// generate runs one `gqlgen generate` the way a user does: in a process of its own (gqlgen keeps process-global
// state between calls of api.Generate - the registry behind templates.ToGoModelName hands `UserID0` to a type
// `userId` when an earlier run in the same process saw a type `user_id` - which no second invocation of the
// command ever sees). The error text of the child is its standard output.
func generate(dir string) error {
	exe, err := os.Executable()
	if err != nil {
		return generateHere(dir)
	}
	cmd := exec.Command(exe, "-gen", dir)
	cmd.Dir = dir
	cmd.Env = os.Environ()
	var out, errb strings.Builder
	cmd.Stdout = &out
	cmd.Stderr = &errb
	if err := cmd.Start(); err != nil {
		return generateHere(dir)
	}
	done := make(chan error, 1)
	go func() { done <- cmd.Wait() }()
	select {
	case err = <-done:
	case <-time.After(4 * time.Minute):
		cmd.Process.Kill()
		<-done
		return fmt.Errorf("PANIC: generation did not finish within 4 minutes")
	}
	if msg := strings.TrimSuffix(out.String(), "\n"); strings.HasPrefix(msg, genErrMark) {
		return fmt.Errorf("%s", strings.TrimPrefix(msg, genErrMark))
	}
	if err != nil {
		e := errb.String()
		if len(e) > 1200 {
			e = e[len(e)-1200:]
		}
		return fmt.Errorf("PANIC: generator process: %v: %s", err, e)
	}
	return nil
}

const genErrMark = "C19-GENERATE-ERROR: "

func generateHere(dir string) (err error) {
	defer func() {
		if p := recover(); p != nil {
			err = fmt.Errorf("PANIC: %v", p)
		}
	}()
	cfg, err := config.LoadConfig(filepath.Join(dir, "gqlgen.yml"))
	if err != nil {
		return fmt.Errorf("load config: %w", err)
	}
	return api.Generate(cfg)
}

// genoutRoot: <module root>/genout of the module the harness was started in (bin/check starts it in
// <verif>/go, so an isolated copy of the framework uses its own tree and its own `replace` of gqlgen).
func genoutRoot() string {
	if r := os.Getenv("C19_ROOT"); r != "" {
		return r
	}
	if d, err := os.Getwd(); err == nil {
		for ; d != "/" && d != "."; d = filepath.Dir(d) {
			if _, err := os.Stat(filepath.Join(d, "go.mod")); err == nil {
				return filepath.Join(d, "genout")
			}
		}
	}
	return "/verif/go/genout"
}

// runDir: the scratch projects of ONE harness run live in <genout>/c19r_<pid of the run>/c19_<case>/, so that
// two runs at the same time (another seed, another tier, another copy of the framework) never write into, or
// clean up, each other's projects. C19_RUN hands the directory to the worker subprocesses.
func runDir() string {
	if d := os.Getenv("C19_RUN"); d != "" {
		return d
	}
	return filepath.Join(genoutRoot(), fmt.Sprintf("c19r_%d", os.Getpid()))
}

// sweepStale removes what dead runs left behind: c19r_<pid> of a process that no longer exists, and
// c19_* directories of the old flat layout once they are an hour old.
func sweepStale(root string) {
	ds, _ := filepath.Glob(filepath.Join(root, "c19r_*"))
	for _, d := range ds {
		pid := strings.TrimPrefix(filepath.Base(d), "c19r_")
		if _, err := os.Stat("/proc/" + pid); err != nil {
			os.RemoveAll(d)
		}
	}
	ds, _ = filepath.Glob(filepath.Join(root, "c19_*"))
	for _, d := range ds {
		if st, err := os.Stat(d); err == nil && time.Since(st.ModTime()) > time.Hour {
			os.RemoveAll(d)
		}
	}
}

func worker(c Case) {
	pkg := fmt.Sprintf("c19_%d", c.ID)
	dir := filepath.Join(runDir(), pkg)
	os.RemoveAll(dir)
	if err := os.MkdirAll(dir, 0o755); err != nil {
		panic(err)
	}
	if err := os.Chdir(dir); err != nil {
		panic(err)
	}
	r := rng.New(c.Seed)
	w := &W{Dir: dir, Pkg: pkg, Layout: c.Layout}
	enc := json.NewEncoder(os.Stdout)
	script := directed[c.Kind]
	if script == nil {
		script = randomScript
	}
	manglePct = c.Mangle
	shadowPct = c.Shadow
	w.Shadow = c.Shadow
	w.Clash, w.Bytes = c.Clash, c.Bytes
	w.Sch = initialSchema(r)
	for k := 0; k <= c.Steps; k++ {
		o := Obs{Case: c.ID, Kind: c.Kind, Seed: c.Seed, Step: k, Layout: c.Layout, Omit: c.Omit, Dir: dir, AddOnly: true}
		if err := script(w, r, k, &o); err != nil {
			o.Note = "harness-error: " + err.Error()
			enc.Encode(o)
			return
		}
		if err := w.Sch.write(dir, pkg, c.Layout, c.Omit); err != nil {
			panic(err)
		}
		o.Before = observeAll(dir)
		o.Schema = w.Sch.flatten(c.Layout)
		o.Names = w.Sch.names()
		if err := generate(dir); err != nil {
			o.GenErr = err.Error()
			if len(o.GenErr) > 1500 {
				o.GenErr = o.GenErr[:1500]
			}
		}
		o.After = observeAll(dir)
		for _, f := range o.After {
			if !f.ParseOK {
				if o.Raw == nil {
					o.Raw = map[string]string{}
				}
				o.Raw[f.Name] = f.Raw
			}
		}
		enc.Encode(o)
		if o.GenErr != "" && !strings.HasPrefix(o.GenErr, "validation failed") {
			return // the generator stopped before writing: nothing further to observe in this case
		}
		broken := false
		for _, f := range o.After {
			if !f.ParseOK {
				broken = true
			}
		}
		if broken {
			return
		}
	}
}

// randomScript: step 0 generates from scratch; later steps edit as a user, then evolve the schema.
func randomScript(w *W, r *rng.R, k int, o *Obs) error {
	if k == 0 {
		o.Ops = []string{"initial"}
		return nil
	}
	if err := w.userEdit(r, EditOpts{Prob: 20, Helpers: r.Below(3), Shadow: w.Shadow, ClashImports: w.Clash, BytesPct: w.Bytes, Unicode: w.Bytes > 0}); err != nil {
		return err
	}
	if r.Below(5) == 0 {
		o.Ops = []string{"repeat"} // regeneration repeated with an unchanged schema
		return nil
	}
	o.Ops, o.AddOnly = w.Sch.evolve(r)
	return nil
}

func main() {
	tier := flag.String("tier", "quick", "quick|thorough")
	seed := flag.Uint64("seed", 1, "seed")
	workerCase := flag.String("worker", "", "run one case (JSON) and print its observations")
	genDir := flag.String("gen", "", "run api.Generate once in this project directory and print its error")
	only := flag.String("only", "", "comma-separated directed case names / 'random' to restrict to")
	nrand := flag.Int("n", -1, "number of random cases (default by tier)")
	par := flag.Int("j", 0, "parallel workers")
	onlyCase := flag.Int("case", -1, "run only the case with this number (as printed in a replay line)")
	flag.Parse()
	if *genDir != "" {
		if err := os.Chdir(*genDir); err != nil {
			panic(err)
		}
		if err := generateHere(*genDir); err != nil {
			fmt.Print(genErrMark + err.Error())
		}
		return
	}
	if *workerCase != "" {
		var c Case
		if err := json.Unmarshal([]byte(*workerCase), &c); err != nil {
			panic(err)
		}
		worker(c)
		return
	}
	sweepStale(genoutRoot())
	run := runDir()
	os.RemoveAll(run)
	if err := os.MkdirAll(run, 0o755); err != nil {
		panic(err)
	}
	r := rng.New(*seed*0x9E3779B1 + 19)
	var cases []Case
	want := map[string]bool{}
	for _, s := range strings.Split(*only, ",") {
		if s != "" {
			want[s] = true
		}
	}
	var names []string
	for n := range directed {
		names = append(names, n)
	}
	sort.Strings(names)
	for _, n := range names {
		if len(want) > 0 && !want[n] {
			continue
		}
		for _, layout := range []string{"follow", "single"} {
			cases = append(cases, Case{Kind: n, Seed: r.Next(), Layout: layout, Steps: directedSteps[n]})
		}
	}
	nr := 14
	steps := 4
	if *tier == "thorough" {
		nr, steps = 300, 7
	}
	if *nrand >= 0 {
		nr = *nrand
	}
	if len(want) > 0 && !want["random"] {
		nr = 0
	}
	for i := 0; i < nr; i++ {
		layout := "follow"
		if i%3 == 2 {
			layout = "single"
		}
		// five random cases in six draw 60% of their type / field names from the name-mangling pools (both layouts)
		mangle := 60
		if i%6 == 4 {
			mangle = 0
		}
		// half of the random cases (i%6 in {1, 4}: follow, 2: single) have schema arguments, parameters and locals that
		// shadow the packages the resolver template reserves
		shadow := 0
		if i%3 == 1 || i%6 == 2 {
			shadow = 60
		}
		// round 6: every second random case writes 60% of its edited files in a byte shape other than gofmt's (CRLF, mixed
		// endings, BOM, no final newline, space indentation) with non-ASCII text in the bodies; two in five add imports
		// whose alias dodges a package name that is already taken
		bytesPct, clash := 0, 0
		if i%2 == 0 {
			bytesPct = 60
		}
		if i%5 == 0 || i%5 == 3 {
			clash = 70
		}
		cases = append(cases, Case{Kind: "random", Seed: r.Next(), Layout: layout, Steps: steps + r.Below(2), Omit: i%4 == 1, Mangle: mangle, Shadow: shadow, Clash: clash, Bytes: bytesPct})
	}
	for i := range cases {
		cases[i].ID = i
	}
	if *onlyCase >= 0 && *onlyCase < len(cases) {
		cases = cases[*onlyCase : *onlyCase+1]
	}
	exe, err := os.Executable()
	if err != nil {
		panic(err)
	}
	j := *par
	if j <= 0 {
		j = runtime.NumCPU() - 2
		if j < 2 {
			j = 2
		}
		if j > 14 {
			j = 14
		}
	}
	outs := make([]string, len(cases))
	sem := make(chan struct{}, j)
	var wg sync.WaitGroup
	for i, c := range cases {
		wg.Add(1)
		sem <- struct{}{}
		go func(i int, c Case) {
			defer wg.Done()
			defer func() { <-sem }()
			cj, _ := json.Marshal(c)
			cmd := exec.Command(exe, "-worker", string(cj))
			cmd.Env = append(os.Environ(), "C19_RUN="+run)
			var errb strings.Builder
			cmd.Stderr = &errb
			done := make(chan struct{})
			var out []byte
			var rerr error
			go func() { out, rerr = cmd.Output(); close(done) }()
			select {
			case <-done:
			case <-time.After(8 * time.Minute):
				if cmd.Process != nil {
					cmd.Process.Kill()
				}
				<-done
				rerr = fmt.Errorf("timeout")
			}
			s := string(out)
			if rerr != nil {
				e := errb.String()
				if len(e) > 1500 {
					e = e[len(e)-1500:]
				}
				o := Obs{Case: c.ID, Kind: c.Kind, Seed: c.Seed, Step: -1, Layout: c.Layout, Note: "worker-failed: " + rerr.Error() + ": " + e}
				b, _ := json.Marshal(o)
				s += string(b) + "\n"
			}
			outs[i] = s
		}(i, c)
	}
	wg.Wait()
	bw := bufio.NewWriter(os.Stdout)
	for _, s := range outs {
		bw.WriteString(s)
	}
	bw.Flush()
	if os.Getenv("C19_KEEP") == "" {
		os.RemoveAll(run)
	}
}
