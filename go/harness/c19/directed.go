package main

// Directed adversarial cases: shapes the random generator would rarely hit, each on the same small fixed
// schema. A script is called before every regeneration (k = 0 is the initial generation from scratch).

import (
	"os"
	"path/filepath"

	"verifharness/internal/rng"
)

func fixedSchema() *Schema {
	s := &Schema{Files: []string{"a", "b"}}
	s.Types = []*SType{
		{Name: "Query", File: "a", Fields: []*SField{
			{Name: "todos", Ret: "[Todo!]!", File: "a", Resolver: true},
			{Name: "todo", Args: 1, Ret: "Todo", File: "a", Resolver: true},
			{Name: "users", Ret: "[User!]!", File: "b", Resolver: true},
		}},
		{Name: "Todo", File: "a", Fields: []*SField{
			{Name: "id", Ret: "ID!", File: "a"},
			{Name: "text", Ret: "String!", File: "a"},
			{Name: "owner", Ret: "User!", File: "a", Resolver: true},
		}},
		{Name: "User", File: "b", Fields: []*SField{
			{Name: "id", Ret: "ID!", File: "b"},
			{Name: "name", Ret: "String!", File: "b"},
		}},
		{Name: "Mutation", File: "b", Fields: []*SField{
			{Name: "createTodo", Args: 1, Ret: "Todo!", File: "b", Resolver: true},
		}},
	}
	return s
}

type scriptFn func(w *W, r *rng.R, k int, o *Obs) error

// edit-then-regenerate with an unchanged schema, then one more plain regeneration
func editCase(opts EditOpts) scriptFn {
	return func(w *W, r *rng.R, k int, o *Obs) error {
		switch k {
		case 0:
			w.Sch = fixedSchema()
			o.Ops = []string{"initial"}
		case 1:
			o.Ops = []string{"edit", "repeat"}
			opts.NoRandom = true
			return w.userEdit(r, opts)
		default:
			o.Ops = []string{"repeat"}
		}
		return nil
	}
}

const implTodos = "\n\tpanic(fmt.Errorf(\"mine todos { %d\", 1))\n"

var directedSteps = map[string]int{}
var directed = map[string]scriptFn{}

func reg(name string, steps int, f scriptFn) {
	directed[name] = f
	directedSteps[name] = steps
}

func init() {
	// F19: leftover code containing "*/" inside the /* */ WARNING block
	reg("block-comment-helper", 1, editCase(EditOpts{ExtraHelpers: []string{"func helperBC() int {\n\t/* a block comment */\n\treturn 1\n}"}}))
	reg("block-end-in-string", 1, editCase(EditOpts{
		ExtraImports: []string{`"path/filepath"`},
		ExtraHelpers: []string{"func helperGlob() ([]string, error) { return filepath.Glob(\"static/*/index.html\") }"}}))
	reg("removed-resolver-with-block-comment", 2, func(w *W, r *rng.R, k int, o *Obs) error {
		switch k {
		case 0:
			w.Sch = fixedSchema()
			o.Ops = []string{"initial"}
		case 1:
			o.Ops = []string{"edit", "remove-field Query.todo"}
			o.AddOnly = false
			q := w.Sch.typ("Query")
			q.Fields = append(q.Fields[:1:1], q.Fields[2:]...)
			return w.userEdit(r, EditOpts{NoRandom: true, BodyFor: map[string]string{"queryResolver.Todo": "\n\t/* why */\n\tpanic(fmt.Errorf(\"todo\"))\n"}})
		default:
			o.Ops = []string{"repeat"}
		}
		return nil
	})
	// imports
	reg("import-ambient-name-clash", 1, editCase(EditOpts{
		ExtraImports: []string{`"verifharness/genout/c19lib/errors"`},
		BodyFor:      map[string]string{"queryResolver.Todos": "\n\tpanic(errors.Wrap(\"x\"))\n"}}))
	reg("import-alias-on-template-path", 1, editCase(EditOpts{
		ExtraImports: []string{`f "fmt"`},
		BodyFor:      map[string]string{"queryResolver.Todos": "\n\tpanic(f.Errorf(\"x\"))\n"}}))
	reg("import-alias-suffix-of-path", 1, editCase(EditOpts{
		ExtraImports: []string{`lib "verifharness/genout/c19lib/mylib"`},
		BodyFor:      map[string]string{"queryResolver.Todos": "\n\tpanic(fmt.Errorf(\"x %d\", lib.F()))\n"}}))
	reg("import-alias-version-suffix", 1, editCase(EditOpts{
		ExtraImports: []string{`v2 "verifharness/genout/c19lib/v2"`},
		BodyFor:      map[string]string{"queryResolver.Todos": "\n\tpanic(fmt.Errorf(\"x %d\", v2.G()))\n"}}))
	reg("import-benign-aliases", 2, editCase(EditOpts{
		ExtraImports: []string{`str "strings"`, `. "math"`, `_ "embed"`, `deep "verifharness/genout/c19lib/v2"`, `"verifharness/genout/c19lib/mylib"`},
		BodyFor:      map[string]string{"queryResolver.Todos": "\n\t_ = str.ToUpper(\"a\")\n\t_ = Pi\n\tpanic(fmt.Errorf(\"x %d %d\", deep.G(), mylib.F()))\n"}}))
	// doc comments
	reg("doc-directive", 2, editCase(EditOpts{
		BodyFor: map[string]string{"queryResolver.Todos": implTodos},
		DocFor:  map[string]string{"queryResolver.Todos": "// Todos lists the todos.\n//\n//nolint:gocyclo\n"}}))
	reg("doc-block-comment", 2, editCase(EditOpts{
		BodyFor: map[string]string{"queryResolver.Todos": implTodos},
		DocFor:  map[string]string{"queryResolver.Todos": "/* Todos lists the todos. */\n"}}))
	reg("doc-leading-backslash", 2, editCase(EditOpts{
		BodyFor: map[string]string{"queryResolver.Todos": implTodos},
		DocFor:  map[string]string{"queryResolver.Todos": "// \\brief Todos lists the todos.\n"}}))
	reg("doc-plain-shapes", 2, editCase(EditOpts{
		BodyFor: map[string]string{"queryResolver.Todos": implTodos, "queryResolver.Todo": implTodos, "todoResolver.Owner": implTodos},
		DocFor: map[string]string{
			"queryResolver.Todos": "// Todos lists: a, b {.\n//\n// Second paragraph with */ and /* inside.\n//\tindented code()\n",
			"queryResolver.Todo":  "",
			"todoResolver.Owner":  "// Owner\n"}}))
	// silently replaced boilerplate
	reg("accessor-and-struct-modified", 1, editCase(EditOpts{
		StructFor:    map[string]string{"queryResolver": "type queryResolver struct {\n\t*Resolver\n\textra int\n}"},
		AccessorBody: map[string]string{"Query": " return &queryResolver{r, 1} "}}))
	// bodies
	reg("body-shapes", 2, editCase(EditOpts{
		NamedFor: map[string][2]string{"queryResolver.Todo": {"res", "err"}, "todoResolver.Owner": {"_", "err"}},
		BodyFor: map[string]string{
			"queryResolver.Todos": "\n\t// only a leading comment\n\n\tpanic(\"x\") // same line comment\n\t// trailing line comment }\n",
			"queryResolver.Todo":  "\n\treturn\n",
			"todoResolver.Owner":  " err = fmt.Errorf(`raw\n}\n\t{`); return ",
			"queryResolver.Users": "\n\tpanic(fmt.Errorf(\"not implemented: Users - users\"))\n"}}))
	// a file that was never gofmt-ed: no white space inside the braces, odd indentation
	reg("unformatted-file", 2, editCase(EditOpts{
		Raw: true,
		BodyFor: map[string]string{
			"queryResolver.Todos": "panic(fmt.Errorf(\"tight %d\", 1))",
			"queryResolver.Todo":  "\n      if a0 != nil {\n   panic(fmt.Errorf(\"odd\"))\n }\n\n\n   return nil, nil",
			"todoResolver.Owner":  "return nil, fmt.Errorf(\"x\")"},
		ExtraHelpers: []string{"func helperTight()int{return 1}", "var   helperSpaced   =   []int{1,\n2}"}}))
	// malformed stream: the user's package does not type-check / does not parse when gqlgen runs
	reg("malformed-type-error-in-body", 2, editCase(EditOpts{
		BodyFor: map[string]string{"queryResolver.Todos": "\n\tx := undefinedThing(ctx)\n\treturn x.Nope, nil\n"},
		ExtraHelpers: []string{"func helperBad() int { return alsoUndefined }"}}))
	reg("malformed-syntax-error", 1, func(w *W, r *rng.R, k int, o *Obs) error {
		switch k {
		case 0:
			w.Sch = fixedSchema()
			o.Ops = []string{"initial"}
		default:
			o.Ops = []string{"syntax error in a.resolvers.go / resolver.go", "repeat"}
			o.AddOnly = false
			name := "a.resolvers.go"
			if w.Layout == "single" {
				name = "resolver.go"
			}
			b, err := os.ReadFile(filepath.Join(w.Dir, name))
			if err != nil {
				return err
			}
			return os.WriteFile(filepath.Join(w.Dir, name), append(b, []byte("\nfunc broken( {\n")...), 0o644)
		}
		return nil
	})
	reg("value-receiver", 2, editCase(EditOpts{
		NamedFor:      map[string][2]string{"queryResolver.Todos": {"", ""}},
		ValueReceiver: map[string]bool{"queryResolver.Todos": true}}))
	reg("keep-warning-block", 3, func(w *W, r *rng.R, k int, o *Obs) error {
		switch k {
		case 0:
			w.Sch = fixedSchema()
			o.Ops = []string{"initial"}
		case 1:
			o.Ops = []string{"edit+helpers", "repeat"}
			return w.userEdit(r, EditOpts{Prob: 100, Helpers: 3})
		default:
			// the user leaves the WARNING block where it is and regenerates again
			o.Ops = []string{"keep-warning", "repeat"}
			return w.userEdit(r, EditOpts{NoRandom: true, KeepWarning: true})
		}
		return nil
	})
	reg("rename-type-and-field", 3, func(w *W, r *rng.R, k int, o *Obs) error {
		switch k {
		case 0:
			w.Sch = fixedSchema()
			o.Ops = []string{"initial"}
		case 1:
			o.Ops = []string{"edit", "rename-type Todo->Item", "rename-field Query.todos->items"}
			o.AddOnly = false
			if err := w.userEdit(r, EditOpts{Prob: 100, Helpers: 1}); err != nil {
				return err
			}
			for _, x := range w.Sch.Types {
				for _, f := range x.Fields {
					f.Ret = replaceBase(f.Ret, "Todo", "Item")
				}
			}
			w.Sch.typ("Todo").Name = "Item"
			w.Sch.typ("Query").Fields[0].Name = "items"
		default:
			o.Ops = []string{"repeat"}
		}
		return nil
	})
	reg("stale-file", 3, func(w *W, r *rng.R, k int, o *Obs) error {
		switch k {
		case 0:
			w.Sch = fixedSchema()
			o.Ops = []string{"initial"}
		case 1:
			o.Ops = []string{"edit", "move everything from b to a"}
			o.AddOnly = false
			if err := w.userEdit(r, EditOpts{Prob: 100}); err != nil {
				return err
			}
			for _, x := range w.Sch.Types {
				x.File = "a"
				for _, f := range x.Fields {
					f.File = "a"
				}
			}
		case 2:
			o.Ops = []string{"edit", "repeat"}
			o.AddOnly = false
			return w.userEdit(r, EditOpts{Prob: 100})
		default:
			o.Ops = []string{"repeat"}
			o.AddOnly = false
		}
		return nil
	})
	reg("method-moved-to-handwritten-file", 2, func(w *W, r *rng.R, k int, o *Obs) error {
		switch k {
		case 0:
			w.Sch = fixedSchema()
			o.Ops = []string{"initial"}
		case 1:
			o.Ops = []string{"user keeps Mutation.createTodo in custom.go", "repeat"}
			o.AddOnly = false
			src := "package " + w.Pkg + "\n\nimport (\n\t\"context\"\n\t\"fmt\"\n)\n\n// CreateTodo lives in a hand-written file.\nfunc (r *mutationResolver) CreateTodo(ctx context.Context, a0 *int) (*Todo, error) {\n\tpanic(fmt.Errorf(\"custom %d\", 7))\n}\n\nfunc customHelper() int { return 1 }\n"
			if w.Layout == "single" {
				// in the single-file layout the method is simply an extra copy in another file
			}
			return os.WriteFile(filepath.Join(w.Dir, "custom.go"), []byte(src), 0o644)
		default:
			o.Ops = []string{"repeat"}
			o.AddOnly = false
		}
		return nil
	})
	reg("add-only", 3, func(w *W, r *rng.R, k int, o *Obs) error {
		switch k {
		case 0:
			w.Sch = fixedSchema()
			o.Ops = []string{"initial"}
		default:
			if err := w.userEdit(r, EditOpts{Prob: 70}); err != nil {
				return err
			}
			for _, t := range w.Sch.Types {
				f := w.Sch.addField(r, t, w.Sch.randFile(r))
				o.Ops = append(o.Ops, "add-field "+t.Name+"."+f.Name+"@"+f.File)
			}
		}
		return nil
	})
	reg("repeat-idempotent", 3, func(w *W, r *rng.R, k int, o *Obs) error {
		switch k {
		case 0:
			w.Sch = fixedSchema()
			o.Ops = []string{"initial"}
		case 1:
			o.Ops = []string{"edit", "repeat"}
			return w.userEdit(r, EditOpts{Prob: 100})
		default:
			o.Ops = []string{"repeat"}
		}
		return nil
	})
}
