package main

// Directed adversarial cases: shapes the random generator would rarely hit, each on the same small fixed
// schema. A script is called before every regeneration (k = 0 is the initial generation from scratch).

import (
	"os"
	"path/filepath"

	"verifharness/internal/rng"
)

func fixedSchema() *Schema {
	s := &Schema{Files: []string{"a", "b"}}
	s.Types = []*SType{
		{Name: "Query", File: "a", Fields: []*SField{
			{Name: "todos", Ret: "[Todo!]!", File: "a", Resolver: true},
			{Name: "todo", Args: 1, Ret: "Todo", File: "a", Resolver: true},
			{Name: "users", Ret: "[User!]!", File: "b", Resolver: true},
		}},
		{Name: "Todo", File: "a", Fields: []*SField{
			{Name: "id", Ret: "ID!", File: "a"},
			{Name: "text", Ret: "String!", File: "a"},
			{Name: "owner", Ret: "User!", File: "a", Resolver: true},
		}},
		{Name: "User", File: "b", Fields: []*SField{
			{Name: "id", Ret: "ID!", File: "b"},
			{Name: "name", Ret: "String!", File: "b"},
		}},
		{Name: "Mutation", File: "b", Fields: []*SField{
			{Name: "createTodo", Args: 1, Ret: "Todo!", File: "b", Resolver: true},
		}},
	}
	return s
}

// mangledSchema: object types and fields whose names Go name mangling treats specially (leading initialism,
// all-caps, snake_case, trailing underscore, leading lower case, digits, single letters, Go keywords after
// lower-casing). LcFirst / ToGoPrivate / ToGo / cases.Title disagree on most of the type names.
func mangledSchema() *Schema {
	s := &Schema{Files: []string{"a", "b"}}
	obj := func(name, file string, fs ...*SField) *SType {
		t := &SType{Name: name, File: file, Fields: []*SField{{Name: "id", Ret: "ID!", File: file}}}
		for _, f := range fs {
			if f.File == "" {
				f.File = file
			}
			t.Fields = append(t.Fields, f)
		}
		return t
	}
	s.Types = []*SType{
		{Name: "Query", File: "a", Fields: []*SField{
			{Name: "urlInfo", Ret: "URLInfo!", File: "a", Resolver: true},
			{Name: "audit_log", Args: 1, Ret: "[audit_entry!]!", File: "b", Resolver: true},
			{Name: "SKUs", Ret: "[SKU!]", File: "a", Resolver: true},
		}},
		obj("URLInfo", "a", &SField{Name: "hits", Ret: "Int!", Resolver: true}, &SField{Name: "URL", Ret: "String!", Resolver: true},
			&SField{Name: "user_id", Ret: "ID!", Resolver: true, File: "b"}, &SField{Name: "headers", Ret: "[HTTPHeader!]!"}),
		obj("audit_entry", "b", &SField{Name: "actor", Ret: "String!", Resolver: true}, &SField{Name: "created_at", Args: 1, Ret: "String", Resolver: true}),
		obj("SKU", "b", &SField{Name: "apiKey", Ret: "String", Resolver: true}),
		obj("HTTPHeader", "a", &SField{Name: "x", Ret: "Int", Resolver: true}),
		obj("my_Type", "b", &SField{Name: "type", Ret: "Type", Resolver: true}),
		obj("userId", "a", &SField{Name: "n2o", Ret: "Int", Resolver: true, File: "b"}),
		obj("Type", "b", &SField{Name: "func", Ret: "String", Resolver: true}),
		obj("X", "a", &SField{Name: "Y", Ret: "Int", Resolver: true}),
		obj("Item_", "b", &SField{Name: "trailing_", Ret: "Int", Resolver: true}, &SField{Name: "getURLForID", Args: 2, Ret: "userId", Resolver: true}),
		{Name: "Mutation", File: "b", Fields: []*SField{
			{Name: "setURL", Args: 1, Ret: "URLInfo", File: "b", Resolver: true},
		}},
	}
	return s
}

type scriptFn func(w *W, r *rng.R, k int, o *Obs) error

// edit-then-regenerate with an unchanged schema, then one more plain regeneration
func editCase(opts EditOpts) scriptFn {
	return func(w *W, r *rng.R, k int, o *Obs) error {
		switch k {
		case 0:
			w.Sch = fixedSchema()
			o.Ops = []string{"initial"}
		case 1:
			o.Ops = []string{"edit", "repeat"}
			opts.NoRandom = true
			return w.userEdit(r, opts)
		default:
			o.Ops = []string{"repeat"}
		}
		return nil
	}
}

const implTodos = "\n\tpanic(fmt.Errorf(\"mine todos { %d\", 1))\n"

var directedSteps = map[string]int{}
var directed = map[string]scriptFn{}

func reg(name string, steps int, f scriptFn) {
	directed[name] = f
	directedSteps[name] = steps
}

func init() {
	// F19: leftover code containing "*/" inside the /* */ WARNING block
	reg("block-comment-helper", 1, editCase(EditOpts{ExtraHelpers: []string{"func helperBC() int {\n\t/* a block comment */\n\treturn 1\n}"}}))
	reg("block-end-in-string", 1, editCase(EditOpts{
		ExtraImports: []string{`"path/filepath"`},
		ExtraHelpers: []string{"func helperGlob() ([]string, error) { return filepath.Glob(\"static/*/index.html\") }"}}))
	reg("removed-resolver-with-block-comment", 2, func(w *W, r *rng.R, k int, o *Obs) error {
		switch k {
		case 0:
			w.Sch = fixedSchema()
			o.Ops = []string{"initial"}
		case 1:
			o.Ops = []string{"edit", "remove-field Query.todo"}
			o.AddOnly = false
			q := w.Sch.typ("Query")
			q.Fields = append(q.Fields[:1:1], q.Fields[2:]...)
			return w.userEdit(r, EditOpts{NoRandom: true, BodyFor: map[string]string{"queryResolver.Todo": "\n\t/* why */\n\tpanic(fmt.Errorf(\"todo\"))\n"}})
		default:
			o.Ops = []string{"repeat"}
		}
		return nil
	})
	// imports
	reg("import-ambient-name-clash", 1, editCase(EditOpts{
		ExtraImports: []string{`"verifharness/harness/c19/lib/errors"`},
		BodyFor:      map[string]string{"queryResolver.Todos": "\n\tpanic(errors.Wrap(\"x\"))\n"}}))
	reg("import-alias-on-template-path", 1, editCase(EditOpts{
		ExtraImports: []string{`f "fmt"`},
		BodyFor:      map[string]string{"queryResolver.Todos": "\n\tpanic(f.Errorf(\"x\"))\n"}}))
	reg("import-alias-suffix-of-path", 1, editCase(EditOpts{
		ExtraImports: []string{`lib "verifharness/harness/c19/lib/mylib"`},
		BodyFor:      map[string]string{"queryResolver.Todos": "\n\tpanic(fmt.Errorf(\"x %d\", lib.F()))\n"}}))
	reg("import-alias-version-suffix", 1, editCase(EditOpts{
		ExtraImports: []string{`v2 "verifharness/harness/c19/lib/v2"`},
		BodyFor:      map[string]string{"queryResolver.Todos": "\n\tpanic(fmt.Errorf(\"x %d\", v2.G()))\n"}}))
	reg("import-benign-aliases", 2, editCase(EditOpts{
		ExtraImports: []string{`str "strings"`, `. "math"`, `_ "embed"`, `deep "verifharness/harness/c19/lib/v2"`, `"verifharness/harness/c19/lib/mylib"`},
		BodyFor:      map[string]string{"queryResolver.Todos": "\n\t_ = str.ToUpper(\"a\")\n\t_ = Pi\n\tpanic(fmt.Errorf(\"x %d %d\", deep.G(), mylib.F()))\n"}}))
	// doc comments
	reg("doc-directive", 2, editCase(EditOpts{
		BodyFor: map[string]string{"queryResolver.Todos": implTodos},
		DocFor:  map[string]string{"queryResolver.Todos": "// Todos lists the todos.\n//\n//nolint:gocyclo\n"}}))
	reg("doc-block-comment", 2, editCase(EditOpts{
		BodyFor: map[string]string{"queryResolver.Todos": implTodos},
		DocFor:  map[string]string{"queryResolver.Todos": "/* Todos lists the todos. */\n"}}))
	reg("doc-leading-backslash", 2, editCase(EditOpts{
		BodyFor: map[string]string{"queryResolver.Todos": implTodos},
		DocFor:  map[string]string{"queryResolver.Todos": "// \\brief Todos lists the todos.\n"}}))
	reg("doc-plain-shapes", 2, editCase(EditOpts{
		BodyFor: map[string]string{"queryResolver.Todos": implTodos, "queryResolver.Todo": implTodos, "todoResolver.Owner": implTodos},
		DocFor: map[string]string{
			"queryResolver.Todos": "// Todos lists: a, b {.\n//\n// Second paragraph with */ and /* inside.\n//\tindented code()\n",
			"queryResolver.Todo":  "",
			"todoResolver.Owner":  "// Owner\n"}}))
	// silently replaced boilerplate
	reg("accessor-and-struct-modified", 1, editCase(EditOpts{
		StructFor:    map[string]string{"queryResolver": "type queryResolver struct {\n\t*Resolver\n\textra int\n}"},
		AccessorBody: map[string]string{"Query": " return &queryResolver{r, 1} "}}))
	// bodies
	reg("body-shapes", 2, editCase(EditOpts{
		NamedFor: map[string][2]string{"queryResolver.Todo": {"res", "err"}, "todoResolver.Owner": {"_", "err"}},
		BodyFor: map[string]string{
			"queryResolver.Todos": "\n\t// only a leading comment\n\n\tpanic(\"x\") // same line comment\n\t// trailing line comment }\n",
			"queryResolver.Todo":  "\n\treturn\n",
			"todoResolver.Owner":  " err = fmt.Errorf(`raw\n}\n\t{`); return ",
			"queryResolver.Users": "\n\tpanic(fmt.Errorf(\"not implemented: Users - users\"))\n"}}))
	// a file that was never gofmt-ed: no white space inside the braces, odd indentation
	reg("unformatted-file", 2, editCase(EditOpts{
		Raw: true,
		BodyFor: map[string]string{
			"queryResolver.Todos": "panic(fmt.Errorf(\"tight %d\", 1))",
			"queryResolver.Todo":  "\n      if a0 != nil {\n   panic(fmt.Errorf(\"odd\"))\n }\n\n\n   return nil, nil",
			"todoResolver.Owner":  "return nil, fmt.Errorf(\"x\")"},
		ExtraHelpers: []string{"func helperTight()int{return 1}", "var   helperSpaced   =   []int{1,\n2}"}}))
	// malformed stream: the user's package does not type-check / does not parse when gqlgen runs
	reg("malformed-type-error-in-body", 2, editCase(EditOpts{
		BodyFor:      map[string]string{"queryResolver.Todos": "\n\tx := undefinedThing(ctx)\n\treturn x.Nope, nil\n"},
		ExtraHelpers: []string{"func helperBad() int { return alsoUndefined }"}}))
	reg("malformed-syntax-error", 1, func(w *W, r *rng.R, k int, o *Obs) error {
		switch k {
		case 0:
			w.Sch = fixedSchema()
			o.Ops = []string{"initial"}
		default:
			o.Ops = []string{"syntax error in a.resolvers.go / resolver.go", "repeat"}
			o.AddOnly = false
			name := "a.resolvers.go"
			if w.Layout == "single" {
				name = "resolver.go"
			}
			b, err := os.ReadFile(filepath.Join(w.Dir, name))
			if err != nil {
				return err
			}
			return os.WriteFile(filepath.Join(w.Dir, name), append(b, []byte("\nfunc broken( {\n")...), 0o644)
		}
		return nil
	})
	reg("value-receiver", 2, editCase(EditOpts{
		NamedFor:      map[string][2]string{"queryResolver.Todos": {"", ""}},
		ValueReceiver: map[string]bool{"queryResolver.Todos": true}}))
	reg("keep-warning-block", 3, func(w *W, r *rng.R, k int, o *Obs) error {
		switch k {
		case 0:
			w.Sch = fixedSchema()
			o.Ops = []string{"initial"}
		case 1:
			o.Ops = []string{"edit+helpers", "repeat"}
			return w.userEdit(r, EditOpts{Prob: 100, Helpers: 3})
		default:
			// the user leaves the WARNING block where it is and regenerates again
			o.Ops = []string{"keep-warning", "repeat"}
			return w.userEdit(r, EditOpts{NoRandom: true, KeepWarning: true})
		}
		return nil
	})
	reg("rename-type-and-field", 3, func(w *W, r *rng.R, k int, o *Obs) error {
		switch k {
		case 0:
			w.Sch = fixedSchema()
			o.Ops = []string{"initial"}
		case 1:
			o.Ops = []string{"edit", "rename-type Todo->Item", "rename-field Query.todos->items"}
			o.AddOnly = false
			if err := w.userEdit(r, EditOpts{Prob: 100, Helpers: 1}); err != nil {
				return err
			}
			for _, x := range w.Sch.Types {
				for _, f := range x.Fields {
					f.Ret = replaceBase(f.Ret, "Todo", "Item")
				}
			}
			w.Sch.typ("Todo").Name = "Item"
			w.Sch.typ("Query").Fields[0].Name = "items"
		default:
			o.Ops = []string{"repeat"}
		}
		return nil
	})
	reg("stale-file", 3, func(w *W, r *rng.R, k int, o *Obs) error {
		switch k {
		case 0:
			w.Sch = fixedSchema()
			o.Ops = []string{"initial"}
		case 1:
			o.Ops = []string{"edit", "move everything from b to a"}
			o.AddOnly = false
			if err := w.userEdit(r, EditOpts{Prob: 100}); err != nil {
				return err
			}
			for _, x := range w.Sch.Types {
				x.File = "a"
				for _, f := range x.Fields {
					f.File = "a"
				}
			}
		case 2:
			o.Ops = []string{"edit", "repeat"}
			o.AddOnly = false
			return w.userEdit(r, EditOpts{Prob: 100})
		default:
			o.Ops = []string{"repeat"}
			o.AddOnly = false
		}
		return nil
	})
	reg("method-moved-to-handwritten-file", 2, func(w *W, r *rng.R, k int, o *Obs) error {
		switch k {
		case 0:
			w.Sch = fixedSchema()
			o.Ops = []string{"initial"}
		case 1:
			o.Ops = []string{"user keeps Mutation.createTodo in custom.go", "repeat"}
			o.AddOnly = false
			src := "package " + w.Pkg + "\n\nimport (\n\t\"context\"\n\t\"fmt\"\n)\n\n// CreateTodo lives in a hand-written file.\nfunc (r *mutationResolver) CreateTodo(ctx context.Context, a0 *int) (*Todo, error) {\n\tpanic(fmt.Errorf(\"custom %d\", 7))\n}\n\nfunc customHelper() int { return 1 }\n"
			if w.Layout == "single" {
				// in the single-file layout the method is simply an extra copy in another file
			}
			return os.WriteFile(filepath.Join(w.Dir, "custom.go"), []byte(src), 0o644)
		default:
			o.Ops = []string{"repeat"}
			o.AddOnly = false
		}
		return nil
	})
	reg("add-only", 3, func(w *W, r *rng.R, k int, o *Obs) error {
		switch k {
		case 0:
			w.Sch = fixedSchema()
			o.Ops = []string{"initial"}
		default:
			if err := w.userEdit(r, EditOpts{Prob: 70}); err != nil {
				return err
			}
			for _, t := range w.Sch.Types {
				f := w.Sch.addField(r, t, w.Sch.randFile(r))
				o.Ops = append(o.Ops, "add-field "+t.Name+"."+f.Name+"@"+f.File)
			}
		}
		return nil
	})
	// ---- names that exercise Go name mangling
	// the user implements every resolver of the mangled schema (named results and a doc comment on two of
	// them), then only ADDS a field, then regenerates twice more with the schema unchanged
	reg("mangled-names-add-only", 3, func(w *W, r *rng.R, k int, o *Obs) error {
		switch k {
		case 0:
			w.Sch = mangledSchema()
			o.Ops = []string{"initial"}
		case 1:
			o.Ops = []string{"edit", "add-field Query.version@a"}
			q := w.Sch.typ("Query")
			q.Fields = append(q.Fields, &SField{Name: "version", Ret: "String!", File: "a", Resolver: true})
			return w.userEdit(r, EditOpts{Prob: 100,
				NamedFor: map[string][2]string{"uRLInfoResolver.Hits": {"n", "err"}, "audit_entryResolver.Actor": {"res", "err"}},
				DocFor:   map[string]string{"uRLInfoResolver.Hits": "// Hits counts the hits.\n//\n// Second paragraph.\n", "sKUResolver.APIKey": "// APIKey of the SKU.\n"}})
		default:
			o.Ops = []string{"repeat"}
		}
		return nil
	})
	// … then renames / removes / moves things around them, with helpers in the files
	reg("mangled-names-evolve", 3, func(w *W, r *rng.R, k int, o *Obs) error {
		switch k {
		case 0:
			w.Sch = mangledSchema()
			o.Ops = []string{"initial"}
		case 1:
			o.Ops = []string{"edit+helpers", "rename-type SKU->Sku2", "remove-field URLInfo.URL", "move-type audit_entry b->a", "rename-field Type.func->fn"}
			o.AddOnly = false
			if err := w.userEdit(r, EditOpts{Prob: 100, Helpers: 2}); err != nil {
				return err
			}
			for _, x := range w.Sch.Types {
				for _, f := range x.Fields {
					f.Ret = replaceBase(f.Ret, "SKU", "Sku2")
				}
			}
			w.Sch.typ("SKU").Name = "Sku2"
			u := w.Sch.typ("URLInfo")
			u.Fields = append(u.Fields[:2:2], u.Fields[3:]...)
			a := w.Sch.typ("audit_entry")
			a.File = "a"
			for _, f := range a.Fields {
				f.File = "a"
			}
			w.Sch.typ("Type").Fields[1].Name = "fn"
		case 2:
			o.Ops = []string{"edit", "add-type APIKey@b", "toggle-resolver HTTPHeader.x=false"}
			o.AddOnly = false
			if err := w.userEdit(r, EditOpts{Prob: 50}); err != nil {
				return err
			}
			w.Sch.Types = append(w.Sch.Types, &SType{Name: "APIKey", File: "b", Fields: []*SField{
				{Name: "id", Ret: "ID!", File: "b"}, {Name: "IPAddress", Ret: "String", File: "b", Resolver: true}}})
			w.Sch.typ("HTTPHeader").Fields[1].Resolver = false
		default:
			o.Ops = []string{"repeat"}
			o.AddOnly = false
		}
		return nil
	})
	// a type name with a leading underscore: cases.Title gives `_Meta`, ucFirst `_meta`. gqlgen's own generated.go
	// does not compile for it (ResolverRoot declares `_meta()`, the executor calls `_Meta()`), so validation fails on
	// every run; resolvergen still rewrites the files: the accessor is looked up as `_Meta`, never found, and the old
	// one goes to the WARNING block while the template writes a new one. The user's bodies must be kept all the same.
	reg("leading-underscore-type", 2, func(w *W, r *rng.R, k int, o *Obs) error {
		o.AddOnly = false
		switch k {
		case 0:
			w.Sch = fixedSchema()
			w.Sch.Types = append(w.Sch.Types, &SType{Name: "_meta", File: "a", Fields: []*SField{
				{Name: "id", Ret: "ID!", File: "a"}, {Name: "_rev", Ret: "Int", File: "a", Resolver: true}, {Name: "URL", Ret: "String", File: "b", Resolver: true}}})
			o.Ops = []string{"initial"}
		case 1:
			o.Ops = []string{"edit", "repeat"}
			return w.userEdit(r, EditOpts{Prob: 100})
		default:
			o.Ops = []string{"repeat"}
		}
		return nil
	})
	// leftover code that contains the block-comment terminator but not the opener (inside strings)
	reg("block-end-without-opener", 2, func(w *W, r *rng.R, k int, o *Obs) error {
		switch k {
		case 0:
			w.Sch = fixedSchema()
			o.Ops = []string{"initial"}
		case 1:
			o.Ops = []string{"edit", "remove-field Query.todo"}
			o.AddOnly = false
			q := w.Sch.typ("Query")
			q.Fields = append(q.Fields[:1:1], q.Fields[2:]...)
			return w.userEdit(r, EditOpts{NoRandom: true,
				BodyFor:      map[string]string{"queryResolver.Todo": "\n\tpanic(fmt.Errorf(\"no match for %s\", \"a*/b\"))\n"},
				ExtraHelpers: []string{"var helperStatic = \"^.*/static/\"", "func helperStar(p string) string {\n\treturn p + `**/`\n}"}})
		default:
			o.Ops = []string{"repeat"}
			o.AddOnly = false
		}
		return nil
	})
	reg("repeat-idempotent", 3, func(w *W, r *rng.R, k int, o *Obs) error {
		switch k {
		case 0:
			w.Sch = fixedSchema()
			o.Ops = []string{"initial"}
		case 1:
			o.Ops = []string{"edit", "repeat"}
			return w.userEdit(r, EditOpts{Prob: 100})
		default:
			o.Ops = []string{"repeat"}
		}
		return nil
	})
}
