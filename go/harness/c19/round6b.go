package main

// Round 6 directed corpus, part 2: several imports that bind NO name (blank, dot) and one path imported twice.

func init() {
	reg("import-two-blank", 1, editCase(EditOpts{
		ExtraImports: []string{`_ "embed"`, `_ "image/png"`},
		BodyFor:      map[string]string{"queryResolver.Todos": "\n\tpanic(fmt.Errorf(\"x\"))\n"}}))
	// two dot imports, both used (fix: 0731d3e - `.` binds no name either)
	reg("import-two-dot", 1, editCase(EditOpts{
		ExtraImports: []string{`. "math"`, `. "math/bits"`, `_ "embed"`, `_ "image/png"`},
		BodyFor:      map[string]string{"queryResolver.Todos": "\n\t_ = Pi\n\tpanic(fmt.Errorf(\"x %d\", UintSize))\n"}}))
	reg("import-same-path-twice", 1, editCase(EditOpts{
		ExtraImports: []string{`"os"`, `xos "os"`},
		BodyFor:      map[string]string{"queryResolver.Todos": "\n\t_ = os.Getenv(\"A\")\n\tpanic(fmt.Errorf(\"x %s\", xos.Getenv(\"B\")))\n"}}))
}
