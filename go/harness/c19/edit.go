package main

// "User edits" of resolver files between regenerations: the harness plays the user who fills in resolver
// bodies (nested braces, strings, raw strings, comments, closures), writes doc comments, names results,
// adds helper declarations between the methods and extra imports. The edited file is gofmt-ed and always
// type-checks (every body ends in panic or a naked return of named results), so that "compiled before"
// holds by construction.

import (
	"bytes"
	"fmt"
	"go/ast"
	"go/format"
	"go/parser"
	"go/printer"
	"go/token"
	"os"
	"path/filepath"
	"sort"
	"strings"

	"verifharness/internal/rng"
)

type bodyGen struct {
	r     *rng.R
	n     *int // shared counter (unique identifiers / ids)
	named bool
	uses  []string // statements exercising the file's extra imports
	// identifiers shadowing packages the resolver template reserves (see shadowArgWords in schema.go)
	shadow bool     // add such statements
	params []string // parameters of this method of type ShadowIn / *ShadowIn (named after schema arguments)
	// round 6: multi-byte characters in comments, strings, raw strings and rune literals (byte offset != rune offset)
	unicode bool
}

// statements with non-ASCII text; every one of them also carries a brace / quote the slicing must not trip over
var unicodeStmts = [][]string{
	{"\t_ = \"h\u00e9llo \u2192 \u4e16\u754c }\""},
	{"\t// \u6ce8\u91c8 \u00fcn\u00ef { \u00e7a"},
	{"\t_ = '\u00e9'"},
	{"\t_ = `\u65e5\u672c {", "\u8a9e } \u00df`"},
	{"\t/* \u00a7 bl\u00f6ck \u2014 { */"},
	{"\t_ = map[string]int{\"\u00f1\": 1, \"}\u20ac\": 2}"},
}

// names for shadowing locals (block-scoped, so every one of them may be combined with every other statement)
var shadowLocalWords = []string{"time", "errors", "bytes", "sync", "io", "strconv", "ast", "graphql", "gqlparser", "introspection", "context"}

// genuine uses of the packages themselves (only in a method that has no parameter of that name)
var shadowPkgUses = []struct{ pkg, spec, stmt string }{
	{"time", `"time"`, `_ = time.Second`},
	{"errors", `"errors"`, `_ = errors.New("x")`},
	{"strconv", `"strconv"`, `_ = strconv.Itoa(1)`},
	{"bytes", `"bytes"`, `_ = bytes.MinRead`},
	{"sync", `"sync"`, `_ = sync.NewCond`},
	{"io", `"io"`, `_ = io.EOF`},
	{"graphql", `"github.com/99designs/gqlgen/graphql"`, `_ = graphql.Null`},
}

// shadowStmt: one statement in which an identifier spelled like a reserved package is the base of a selector -
// a parameter, a := local, a var, a range variable, a closure parameter, an if-initialiser, an error value whose
// method is called, a struct FIELD of that name reached through another local - or a genuine use of the package.
func (g *bodyGen) shadowStmt(ind string) []string {
	id := g.id()
	w := shadowLocalWords[g.r.Below(len(shadowLocalWords))]
	k := g.r.Below(10)
	if k <= 1 && len(g.params) == 0 {
		k = 2 + g.r.Below(8)
	}
	switch k {
	case 0:
		return []string{fmt.Sprintf("%s_ = %s.Zone", ind, g.params[g.r.Below(len(g.params))])}
	case 1:
		p := g.params[g.r.Below(len(g.params))]
		return []string{fmt.Sprintf("%sif %s.Hour != nil {", ind, p), fmt.Sprintf("%s\t_ = *%s.Hour + %d", ind, p, id), ind + "}"}
	case 2:
		return []string{ind + "{", fmt.Sprintf("%s\t%s := struct{ Text string }{Text: \"t%d\"}", ind, w, id), fmt.Sprintf("%s\t_ = %s.Text", ind, w), ind + "}"}
	case 3:
		return []string{fmt.Sprintf("%sfor _, %s := range []struct{ N int }{{N: %d}} {", ind, w, id), fmt.Sprintf("%s\t_ = %s.N", ind, w), ind + "}"}
	case 4:
		return []string{fmt.Sprintf("%s_ = func(%s struct{ A int }) int { return %s.A + %d }", ind, w, w, id)}
	case 5:
		return []string{ind + "{", fmt.Sprintf("%s\tvar %s struct{ Base int }", ind, w), fmt.Sprintf("%s\t_ = %s.Base", ind, w), ind + "}"}
	case 6:
		return []string{ind + "{", fmt.Sprintf("%s\t%s := fmt.Errorf(\"e%d\")", ind, w, id), fmt.Sprintf("%s\t_ = %s.Error()", ind, w), ind + "}"}
	case 7:
		return []string{ind + "{", fmt.Sprintf("%s\tw%d := struct{ %s struct{ Zone string } }{}", ind, id, w), fmt.Sprintf("%s\t_ = w%d.%s.Zone", ind, id, w), ind + "}"}
	case 8:
		return []string{fmt.Sprintf("%sif %s := (struct{ L int }{L: %d}); %s.L > 0 {", ind, w, id, w), fmt.Sprintf("%s\t_ = %s.L", ind, w), ind + "}"}
	default:
		var ok []string
		for _, u := range shadowPkgUses {
			free := true
			for _, p := range g.params {
				if p == u.pkg {
					free = false
				}
			}
			if free {
				ok = append(ok, u.stmt)
			}
		}
		if len(ok) == 0 {
			return []string{ind + "// no package left to use"}
		}
		return []string{ind + ok[g.r.Below(len(ok))]}
	}
}

func (g *bodyGen) id() int { *g.n++; return *g.n }

func (g *bodyGen) stmts(depth int, ind string) []string {
	var out []string
	k := 1 + g.r.Below(3)
	for i := 0; i < k; i++ {
		out = append(out, g.stmt(depth, ind)...)
	}
	return out
}

func (g *bodyGen) stmt(depth int, ind string) []string {
	id := g.id()
	c := g.r.Below(17)
	if depth <= 0 && c >= 7 && c <= 13 {
		c = g.r.Below(7)
	}
	sub := func() []string { return g.stmts(depth-1, ind+"\t") }
	wrap := func(open string, close string, inner []string) []string {
		o := []string{ind + open}
		o = append(o, inner...)
		return append(o, ind+close)
	}
	switch c {
	case 0:
		return []string{fmt.Sprintf(`%s_ = fmt.Sprintf("b%%d {", %d)`, ind, id)}
	case 1:
		return []string{fmt.Sprintf(`%ss%d := "q\"} { // not a comment /* nor this"`, ind, id), fmt.Sprintf("%s_ = s%d", ind, id)}
	case 2:
		return []string{fmt.Sprintf("%sr%d := `raw }", ind, id), "  { \" \\ // still raw", "\t} `", fmt.Sprintf("%s_ = r%d", ind, id)}
	case 3:
		return []string{ind + "// comment } { \" ` '"}
	case 4:
		return []string{ind + "/* block { \" ` */"}
	case 5:
		return []string{fmt.Sprintf("%sc%d := '}'", ind, id), fmt.Sprintf(`%s_, _ = c%d, '\''`, ind, id)}
	case 6:
		if len(g.uses) > 0 {
			return []string{ind + g.uses[g.r.Below(len(g.uses))]}
		}
		return []string{fmt.Sprintf(`%sx%d := struct{ A int }{A: %d}`, ind, id, id), fmt.Sprintf("%s_ = x%d", ind, id)}
	case 7:
		o := wrap(fmt.Sprintf("if n := %d; n > 1 {", id), "} else {", sub())
		o = append(o, sub()...)
		return append(o, ind+"}")
	case 8:
		return wrap("for i := 0; i < 2; i++ {", "}", sub())
	case 9:
		o := wrap(fmt.Sprintf("f%d := func(a int) int {", id), "}", append(sub(), ind+"\treturn a + 1"))
		return append(o, fmt.Sprintf("%s_ = f%d(1)", ind, id))
	case 10:
		return wrap("defer func() {", "}()", append([]string{ind + "\t_ = recover()"}, sub()...))
	case 11:
		o := []string{ind + "switch {", ind + "case true:"}
		o = append(o, sub()...)
		o = append(o, ind+"default:")
		o = append(o, sub()...)
		return append(o, ind+"}")
	case 12:
		return wrap("{", "}", sub())
	case 13:
		return wrap(fmt.Sprintf("go func(ch chan struct{}) {"), "}(nil)", sub())
	case 14:
		return []string{fmt.Sprintf(`%sm%d := map[string][]int{"}": {1, 2}, "{": nil}`, ind, id), fmt.Sprintf("%s_ = m%d", ind, id)}
	case 15:
		return []string{fmt.Sprintf("%svar v%d interface{} = struct{}{}", ind, id), fmt.Sprintf("%s_ = v%d", ind, id)}
	default:
		return []string{fmt.Sprintf(`%s_ = []string{"a", "}"}[%d%%2]`, ind, id)}
	}
}

// body returns the text between the braces of a resolver method (tab-indented lines).
func (g *bodyGen) body(tag string) string {
	lines := g.stmts(2, "\t")
	if g.shadow {
		// at the start or at the end only: the generated statements span lines (raw strings, blocks)
		for n := 1 + g.r.Below(3); n > 0; n-- {
			if st := g.shadowStmt("\t"); g.r.Below(2) == 0 {
				lines = append(st, lines...)
			} else {
				lines = append(lines, st...)
			}
		}
	}
	if g.unicode {
		for n := 1 + g.r.Below(2); n > 0; n-- {
			if st := unicodeStmts[g.r.Below(len(unicodeStmts))]; g.r.Below(2) == 0 {
				lines = append(append([]string{}, st...), lines...)
			} else {
				lines = append(lines, st...)
			}
		}
	}
	switch g.r.Below(8) {
	case 0:
		lines = append([]string{"\t// leading comment"}, lines...)
	}
	if g.named && g.r.Below(2) == 0 {
		lines = append(lines, fmt.Sprintf("\terr = fmt.Errorf(%q)", "impl "+tag), "\treturn")
	} else {
		lines = append(lines, fmt.Sprintf("\tpanic(fmt.Errorf(%q))", "impl "+tag))
	}
	switch g.r.Below(8) {
	case 0:
		lines = append(lines, "\t// trailing comment }")
	case 1:
		lines = append(lines, "\t/* trailing block */")
	}
	return strings.Join(lines, "\n")
}

// ---- helpers

func (w *W) helper(r *rng.R, recvs []string, uses []string) string {
	w.N++
	n := w.N
	g := &bodyGen{r: r, n: &w.N, uses: uses}
	k := r.Below(12)
	if k == 5 && len(recvs) == 0 {
		k = 0
	}
	doc := ""
	if r.Below(3) == 0 {
		doc = fmt.Sprintf("// helper%d is documented.\n", n)
	}
	switch k {
	case 0, 1:
		return doc + fmt.Sprintf("func helper%d(a int) string {\n%s\n\treturn fmt.Sprint(a)\n}", n, strings.Join(g.stmts(1, "\t"), "\n"))
	case 2:
		return doc + fmt.Sprintf("type helperT%d struct {\n\tA int\n\tB string `json:\"b}\"`\n}\n\nfunc (h *helperT%d) M() int { return h.A }", n, n)
	case 3:
		return doc + fmt.Sprintf("var helperV%d = map[string]int{\"a\": 1, \"}\": 2}", n)
	case 4:
		return doc + fmt.Sprintf("const helperC%d = \"x{\"", n)
	case 5:
		return doc + fmt.Sprintf("func (r *%s) helperM%d() int { return %d }", recvs[r.Below(len(recvs))], n, n)
	case 6:
		return doc + fmt.Sprintf("var (\n\thelperA%d = 1\n\thelperB%d = \"}{\"\n)", n, n)
	case 7:
		return doc + fmt.Sprintf("func helperG%d[T any](x T) T { return x }", n)
	case 8:
		return doc + fmt.Sprintf("type (\n\thelperX%d int\n\thelperY%d string\n)", n, n)
	case 10:
		// the block-comment terminator without an opener, inside a string
		return doc + fmt.Sprintf("const helperE%d = \"^.*/static/%d\"", n, n)
	case 11:
		return doc + fmt.Sprintf("func helperS%d(p string) string {\n\treturn p + `**/` + \"a*/b\"\n}", n)
	default:
		return doc + fmt.Sprintf("type helperI%d interface {\n\tM() int\n}", n)
	}
}

// ---- file rewriting

type piece struct {
	text string
}

var extraImports = []struct{ spec, use string }{
	{`str "strings"`, `_ = str.ToUpper("a")`},
	{`. "math"`, `_ = Pi`},
	{`_ "embed"`, ``},
	{`"os"`, `_ = os.Getenv("A")`},
	{`fp "path/filepath"`, `_ = fp.Base("a/b")`},
}

// round 6: user imports whose explicit alias exists BECAUSE the package's real name is already taken - by an import
// the resolver template reserves (ast, errors, context, time, ...) or by another import of the user (rand, template).
// Valid Go that compiles; Reserve must compare the ALIAS (free) and not the package name (taken). Un-aliased partners
// are listed before the aliased import of the same package name (gofmt sorts the block by path anyway).
var clashImports = []struct{ spec, use string }{
	{`goast "go/ast"`, `_ = goast.NewIdent("a")`},
	{`pkgerrors "verifharness/harness/c19/lib/errors"`, `_ = pkgerrors.Wrap("x")`},
	{`"crypto/rand"`, `_ = rand.Reader`},
	{`mrand "math/rand"`, `_ = mrand.Intn(3)`},
	{`"html/template"`, `_ = template.HTMLEscapeString("a")`},
	{`ttemplate "text/template"`, `_ = ttemplate.HTMLEscapeString("b")`},
	{`gotime "verifharness/harness/c19/lib/time"`, `_ = gotime.Tick()`},
	{`xctx "verifharness/harness/c19/lib/context"`, `_ = xctx.Key("k")`},
	{`gosync "verifharness/harness/c19/lib/sync"`, `_ = gosync.Once()`},
}

// EditOpts selects the adversarial features a directed case forces into an edit.
type EditOpts struct {
	Prob          int               // percentage of methods to (re)write
	Helpers       int               // number of helper declarations to insert
	ExtraHelpers  []string          // verbatim helper declarations (directed adversarial shapes)
	ExtraImports  []string          // verbatim import specs
	DocFor        map[string]string // recv.name -> verbatim doc comment source ("" = remove)
	BodyFor       map[string]string // recv.name -> verbatim body (between braces)
	NamedFor      map[string][2]string
	KeepWarning   bool
	AccessorBody  map[string]string // accessor name -> body
	StructFor     map[string]string // struct type name -> verbatim declaration
	NoRandom      bool
	ClashImports  int    // round 6: percentage chance (per edited file) of adding 1-3 imports from clashImports
	BytesPct      int    // round 6: percentage chance (per edited file) of writing the file in a random byte shape
	ByteShape     string // round 6: forced byte shape (see byteShapes)
	Unicode       bool   // round 6: non-ASCII text in the rewritten bodies
	Shadow        int  // percentage of rewritten bodies that get statements with shadowing identifiers
	Raw           bool // write the edited file as typed, without gofmt
	ValueReceiver map[string]bool
}

func isResolverFile(layout, name string) bool {
	if layout == "single" {
		return name == "resolver.go"
	}
	return strings.HasSuffix(name, ".resolvers.go")
}

// userEdit rewrites every resolver file of the package as a user would.
func (w *W) userEdit(r *rng.R, o EditOpts) error {
	ms, _ := filepath.Glob(filepath.Join(w.Dir, "*.go"))
	sort.Strings(ms)
	first := true
	for _, m := range ms {
		if !isResolverFile(w.Layout, filepath.Base(m)) {
			continue
		}
		fo := o
		if !first { // verbatim helpers / imports go into the first resolver file only
			fo.ExtraHelpers, fo.ExtraImports = nil, nil
		}
		first = false
		if err := w.editFile(r, m, fo); err != nil {
			return fmt.Errorf("edit %s: %w", m, err)
		}
	}
	return nil
}

func nodeText(fset *token.FileSet, n any) string {
	var b bytes.Buffer
	printer.Fprint(&b, fset, n)
	return b.String()
}

func (w *W) editFile(r *rng.R, path string, o EditOpts) error {
	b, err := os.ReadFile(path)
	if err != nil {
		return err
	}
	src := string(b)
	fset := token.NewFileSet()
	f, err := parser.ParseFile(fset, path, b, parser.ParseComments)
	if err != nil {
		return err
	}
	off := func(p token.Pos) int { return fset.Position(p).Offset }

	// imports: existing + a random extra one now and then
	specs := []string{}
	have := map[string]bool{}
	for _, is := range f.Imports {
		s := src[off(is.Pos()):off(is.End())]
		specs = append(specs, s)
		have[s] = true
	}
	add := func(s string) {
		if !have[s] {
			have[s] = true
			specs = append(specs, s)
		}
	}
	add(`"fmt"`)
	if !o.NoRandom && r.Below(3) == 0 {
		add(extraImports[r.Below(len(extraImports))].spec)
	}
	for _, s := range o.ExtraImports {
		add(s)
	}
	if !o.NoRandom && o.ClashImports > 0 && r.Below(100) < o.ClashImports {
		for n := 1 + r.Below(3); n > 0; n-- {
			add(clashImports[r.Below(len(clashImports))].spec)
		}
	}
	if o.Shadow > 0 {
		// the packages a body may genuinely use; the ones no body uses are dropped again below
		for _, u := range shadowPkgUses {
			add(u.spec)
		}
	}
	var uses []string
	for _, e := range extraImports {
		if have[e.spec] && e.use != "" {
			uses = append(uses, e.use)
		}
	}
	for _, e := range clashImports {
		if have[e.spec] {
			uses = append(uses, e.use)
		}
	}

	var recvs []string
	seenRecv := map[string]bool{}
	var pieces []string
	for _, d := range f.Decls {
		start := d.Pos()
		switch d := d.(type) {
		case *ast.GenDecl:
			if d.Tok == token.IMPORT {
				continue
			}
			if d.Doc != nil {
				start = d.Doc.Pos()
			}
			text := src[off(start):off(d.End())]
			if d.Tok == token.TYPE && len(d.Specs) > 0 {
				if ts, ok := d.Specs[0].(*ast.TypeSpec); ok {
					if nt, ok := o.StructFor[ts.Name.Name]; ok {
						text = nt
					}
				}
			}
			pieces = append(pieces, text)
		case *ast.FuncDecl:
			if d.Doc != nil {
				start = d.Doc.Pos()
			}
			recv := ""
			if d.Recv != nil && len(d.Recv.List) > 0 {
				rt := d.Recv.List[0].Type
				if st, ok := rt.(*ast.StarExpr); ok {
					rt = st.X
				}
				if id, ok := rt.(*ast.Ident); ok {
					recv = id.Name
				}
			}
			key := recv + "." + d.Name.Name
			isResolverMethod := recv != "" && strings.HasSuffix(recv, "Resolver") && recv != "Resolver" && !strings.HasPrefix(d.Name.Name, "helper")
			if recv == "Resolver" {
				if nb, ok := o.AccessorBody[d.Name.Name]; ok {
					pieces = append(pieces, src[off(start):off(d.Body.Lbrace)]+"{"+nb+"}")
					continue
				}
			}
			if !isResolverMethod {
				pieces = append(pieces, src[off(start):off(d.End())])
				continue
			}
			if !seenRecv[recv] {
				seenRecv[recv] = true
				recvs = append(recvs, recv)
			}
			doc := ""
			if d.Doc != nil {
				doc = src[off(d.Doc.Pos()):off(d.Doc.End())] + "\n"
			}
			inner := src[off(d.Body.Lbrace)+1 : off(d.Body.Rbrace)]
			fresh := strings.Contains(inner, "not implemented")
			rewrite := !o.NoRandom && (r.Below(100) < o.Prob || (fresh && r.Below(100) < 60))
			_, forcedB := o.BodyFor[key]
			_, forcedN := o.NamedFor[key]
			hdr := src[off(d.Pos()):off(d.Body.Lbrace)]
			named := d.Type.Results != nil && len(d.Type.Results.List) > 0 && len(d.Type.Results.List[0].Names) > 0
			if rewrite || forcedN {
				// results: maybe (re)name them
				names := [2]string{"", ""}
				if nf, ok := o.NamedFor[key]; ok {
					names = nf
				} else {
					switch r.Below(5) {
					case 0:
						names = [2]string{"res", "err"}
					case 1:
						names = [2]string{"_", "err"}
					}
				}
				if rs := d.Type.Results; rs != nil && len(rs.List) == 2 {
					for i := range rs.List {
						if names[0] == "" {
							rs.List[i].Names = nil
						} else {
							rs.List[i].Names = []*ast.Ident{ast.NewIdent(names[i])}
						}
					}
					named = names[0] != "" && names[1] == "err"
					if names[0] == "" {
						named = false
					}
					if o.ValueReceiver[key] {
						if st, ok := d.Recv.List[0].Type.(*ast.StarExpr); ok {
							d.Recv.List[0].Type = st.X
						}
					}
					cp := *d
					cp.Body = nil
					cp.Doc = nil
					hdr = nodeText(fset, &cp) + " "
				}
			}
			if rewrite || forcedN {
				w.N++
				g := &bodyGen{r: r, n: &w.N, named: named, uses: uses, unicode: o.Unicode}
				if o.Shadow > 0 && r.Below(100) < o.Shadow {
					g.shadow = true
					for _, p := range d.Type.Params.List {
						if strings.Contains(nodeText(fset, p.Type), shadowInput) {
							for _, n := range p.Names {
								g.params = append(g.params, n.Name)
							}
						}
					}
				}
				inner = "\n" + g.body(fmt.Sprintf("%s #%d", key, w.N)) + "\n"
				// doc
				switch r.Below(5) {
				case 0:
					doc = fmt.Sprintf("// %s does things %d.\n", d.Name.Name, w.N)
				case 1:
					doc = fmt.Sprintf("// %s line one %d.\n//\n// Line two: a, b {.\n//\tindented code()\n", d.Name.Name, w.N)
				case 2:
					doc = ""
				}
			}
			if nb, ok := o.BodyFor[key]; ok && forcedB {
				inner = nb
			}
			if nd, ok := o.DocFor[key]; ok {
				doc = nd
				if doc != "" && !strings.HasSuffix(doc, "\n") {
					doc += "\n"
				}
			}
			pieces = append(pieces, doc+hdr+"{"+inner+"}")
		}
	}
	// trailing WARNING block: a user either deletes it or leaves it
	if o.KeepWarning || (!o.NoRandom && r.Below(2) == 0) {
		endDecls := 0
		if n := len(f.Decls); n > 0 {
			endDecls = off(f.Decls[n-1].End())
		}
		if i := strings.Index(src[endDecls:], warnFirst); i >= 0 {
			pieces = append(pieces, strings.TrimSpace(src[endDecls+i:]))
		}
	}
	// helpers at random positions (never after a kept WARNING block)
	var hs []string
	if !o.NoRandom {
		for i := 0; i < o.Helpers; i++ {
			hs = append(hs, w.helper(r, recvs, uses))
		}
	}
	hs = append(hs, o.ExtraHelpers...)
	for _, h := range hs {
		lim := len(pieces)
		if lim > 0 && strings.HasPrefix(pieces[lim-1], warnFirst) {
			lim--
		}
		at := r.Below(lim + 1)
		pieces = append(pieces[:at:at], append([]string{h}, pieces[at:]...)...)
	}

	build := func(specs []string) string {
		var sb strings.Builder
		fmt.Fprintf(&sb, "package %s\n\nimport (\n", f.Name.Name)
		for _, s := range specs {
			sb.WriteString("\t" + s + "\n")
		}
		sb.WriteString(")\n\n")
		sb.WriteString(strings.Join(pieces, "\n\n"))
		sb.WriteString("\n")
		return sb.String()
	}
	text := build(specs)
	// drop imports the edited file does not use (so that it compiles)
	fs2 := token.NewFileSet()
	f2, err := parser.ParseFile(fs2, path, text, parser.ParseComments)
	if err != nil {
		return fmt.Errorf("edited file does not parse: %w\n%s", err, text)
	}
	used := map[string]bool{}
	ast.Inspect(f2, func(n ast.Node) bool {
		switch v := n.(type) {
		case *ast.SelectorExpr:
			if id, ok := v.X.(*ast.Ident); ok && id.Obj == nil {
				used[id.Name] = true
			}
		case *ast.Ident:
			if v.Name == "Pi" {
				used["."] = true
			}
		}
		return true
	})
	var keep []string
	for _, s := range specs {
		fields := strings.Fields(s)
		local := ""
		p := strings.Trim(fields[len(fields)-1], `"`)
		if len(fields) == 2 {
			local = fields[0]
		} else {
			local = pkgNameOf(p)
		}
		if local == "_" || used[local] || w.KeepUnusedImports {
			keep = append(keep, s)
		}
	}
	text = build(keep)
	out, err := format.Source([]byte(text))
	if err != nil {
		return fmt.Errorf("gofmt of edited file: %w\n%s", err, text)
	}
	if o.Raw {
		out = []byte(text)
	}
	shape := o.ByteShape
	if shape == "" && o.BytesPct > 0 && r.Below(100) < o.BytesPct {
		shape = byteShapes[r.Below(len(byteShapes))]
	}
	return os.WriteFile(path, reshapeBytes(out, shape), 0o644)
}

// round 6: byte-level shapes of a resolver file that are all the same Go program. go/parser positions are byte
// offsets into exactly these bytes, and the rewriter slices the file with them.
var byteShapes = []string{"crlf", "mixed-eol", "bom", "bom-crlf", "no-final-newline", "crlf-no-final-newline", "spaces", "crlf-spaces"}

func reshapeBytes(b []byte, shape string) []byte {
	s := string(b)
	has := func(x string) bool { return strings.Contains(shape, x) }
	if has("spaces") { // leading tabs -> four spaces each (a file that was never gofmt-ed)
		ls := strings.Split(s, "\n")
		for i, l := range ls {
			t := strings.TrimLeft(l, "\t")
			ls[i] = strings.Repeat("    ", len(l)-len(t)) + t
		}
		s = strings.Join(ls, "\n")
	}
	if has("no-final-newline") {
		s = strings.TrimRight(s, "\n")
	}
	switch {
	case has("mixed-eol"): // two lines in three end in CRLF
		ls := strings.SplitAfter(s, "\n")
		for i, l := range ls {
			if i%3 != 1 && strings.HasSuffix(l, "\n") {
				ls[i] = l[:len(l)-1] + "\r\n"
			}
		}
		s = strings.Join(ls, "")
	case has("crlf"):
		s = strings.ReplaceAll(s, "\n", "\r\n")
	}
	if has("bom") {
		s = "\xef\xbb\xbf" + s
	}
	return []byte(s)
}
