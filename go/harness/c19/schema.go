package main

// Abstract GraphQL schema used by the C19 harness: a few schema files holding object type definitions and
// `extend type` blocks, whose object fields can be marked `resolver: true` in gqlgen.yml. The schema is
// rendered to <file>.graphqls + gqlgen.yml before every api.Generate, and flattened (objects sorted by
// name, fields in definition order followed by extensions in file order) into the `Schema'` the Lean
// model takes.

import (
	"fmt"
	"os"
	"path/filepath"
	"sort"
	"strings"

	"github.com/99designs/gqlgen/codegen/templates"
	"golang.org/x/text/cases"
	"golang.org/x/text/language"

	"verifharness/internal/rng"
)

type SField struct {
	Name     string
	Args     int      // number of `aN: Int` arguments
	Shadow   []string // further arguments `<name>: ShadowIn[!]` (a trailing "!" = non-null) named like a package the resolver template reserves
	Ret      string   // GraphQL type reference
	Resolver bool     // models.<T>.fields.<f>.resolver: true (root fields are resolvers anyway)
	File     string   // schema file (base name without extension) holding the field
}

type SType struct {
	Name   string
	File   string // file of the `type` definition
	Fields []*SField
}

type Schema struct {
	Files []string // base names, e.g. "a", "b"
	Types []*SType
	n     int // name counter
}

func (s *Schema) clone() *Schema {
	c := &Schema{Files: append([]string{}, s.Files...), n: s.n}
	for _, t := range s.Types {
		nt := &SType{Name: t.Name, File: t.File}
		for _, f := range t.Fields {
			cf := *f
			cf.Shadow = append([]string(nil), f.Shadow...)
			nt.Fields = append(nt.Fields, &cf)
		}
		c.Types = append(c.Types, nt)
	}
	return c
}

func (s *Schema) typ(name string) *SType {
	for _, t := range s.Types {
		if t.Name == name {
			return t
		}
	}
	return nil
}

func isRoot(n string) bool { return n == "Query" || n == "Mutation" }

var fieldWords = []string{"todos", "user", "items", "count", "owner", "title", "fooBar", "created_at", "url", "itemId", "next", "total", "meta", "tags", "parent", "score"}
var typeWords = []string{"Todo", "User", "Item", "Profile", "Tag", "Order", "Node2", "Account", "gadget"}

// Names that exercise Go name mangling (templates.LcFirst / UcFirst / ToGo / ToGoPrivate, cases.Title treat
// them differently): initialisms at the start / in the middle / at the end, all-caps, snake_case and other
// underscores, leading lower case, digits, single letters, names that lower-case to a Go keyword, and groups
// that collide after mangling (ToGo(URLInfo) = ToGo(UrlInfo), ToGo(user_id) = ToGo(userId) = ToGo(UserID);
// freshType / freshField draw again when a name collides with one already in the schema, so that the
// colliding members get used in different cases / at different times).
var mangleTypeWords = []string{
	"URLInfo", "UrlInfo", "APIKey", "ApiKey", "HTTPHeader", "SKU", "Sku", "IDCard", "UserID", "userId", "user_id", "GetHTTPUrl",
	"XMLHttpRequest", "Html5Doc", "ItemURL", "SomeAPIThing", "audit_entry", "AuditEntry", "my_Type", "Foo_Bar", "foo__bar", "FooBar",
	"Item_", "Z9_z", "v2Thing", "tLS", "iPhone", "A1", "K8sPod", "X", "y", "Type", "Map", "Range", "Func", "Ascii2HTML", "nodeID",
}
var mangleFieldWords = []string{
	"URL", "uRL", "userId", "user_id", "userID", "UserID", "apiKey", "APIKey", "api_key", "httpStatus", "HTTPStatus", "x", "Y", "a1",
	"n2o", "updated_at", "_private", "trailing_", "type", "func", "map", "range", "html5", "skuID", "sku_id", "SKU", "foo_bar",
	"FooBar", "getURLForID", "ip", "IPAddress", "jsonBody", "q",
}

// mangling selects how often the wide pools are drawn from (percent); set per case by the worker.
var manglePct = 0

// Identifiers that SHADOW a package the resolver template reserves speculatively in every resolver file
// (resolver.gotpl: context fmt io strconv time sync errors bytes gqlparser ast graphql introspection, deleted again
// by imports.Prune when unused). gqlgen derives the parameter name of a resolver method from the schema argument,
// so `schedule(time: ShadowIn!)` gives `time ShadowIn` and the user's body reads `time.Zone`: a selector whose base
// is spelled like the package but is not one. `fmt` is left out of the argument pool: the bodies the harness (and
// gqlgen's own stub) writes call fmt.Errorf, which a parameter `fmt` would break before any regeneration.
var shadowArgWords = []string{"time", "errors", "bytes", "sync", "io", "strconv", "ast", "graphql", "gqlparser", "introspection", "context"}

// shadowPct: how often a new field gets such arguments (percent); set per case by the worker.
var shadowPct = 0

const shadowInput = "ShadowIn"

func (s *Schema) shadowArgs(r *rng.R) []string {
	if r.Below(100) >= shadowPct {
		return nil
	}
	var out []string
	n := 1 + r.Below(2)
	for len(out) < n {
		w := shadowArgWords[r.Below(len(shadowArgWords))]
		dup := false
		for _, x := range out {
			if strings.TrimSuffix(x, "!") == w {
				dup = true
			}
		}
		if dup {
			continue
		}
		if r.Below(3) > 0 {
			w += "!"
		}
		out = append(out, w)
	}
	return out
}

func (s *Schema) usesShadow() bool {
	for _, t := range s.Types {
		for _, f := range t.Fields {
			if len(f.Shadow) > 0 {
				return true
			}
		}
	}
	return false
}

func (s *Schema) freshField(r *rng.R, t *SType) string {
	for {
		w := fieldWords[r.Below(len(fieldWords))]
		if r.Below(100) < manglePct {
			w = mangleFieldWords[r.Below(len(mangleFieldWords))]
		}
		if r.Below(3) == 0 {
			s.n++
			w = fmt.Sprintf("%s%d", w, s.n)
		}
		ok := true
		for _, f := range t.Fields {
			if f.Name == w || templates.ToGo(f.Name) == templates.ToGo(w) {
				ok = false
			}
		}
		// a field called like the accessor of an object type on the root resolver is fine (different receiver)
		if ok {
			return w
		}
		s.n++
	}
}

// typeFree: gqlgen derives Go identifiers from a type name in several ways (model struct ToGo, resolver struct
// LcFirst+"Resolver", accessor UcFirst); two types that agree on any of them do not give a package that compiles.
func (s *Schema) typeFree(w string) bool {
	if isRoot(w) || w == "Resolver" || w == "Subscription" {
		return false
	}
	for _, t := range s.Types {
		if t.Name == w || templates.ToGo(t.Name) == templates.ToGo(w) || strings.EqualFold(t.Name, w) {
			return false
		}
	}
	return true
}

func (s *Schema) freshType(r *rng.R) string {
	for {
		w := typeWords[r.Below(len(typeWords))]
		if r.Below(100) < manglePct {
			w = mangleTypeWords[r.Below(len(mangleTypeWords))]
		}
		if s.typeFree(w) {
			return w
		}
		s.n++
		w = fmt.Sprintf("%s%d", w, s.n)
		if s.typeFree(w) {
			return w
		}
	}
}

func (s *Schema) randRet(r *rng.R) string {
	var objs []string
	for _, t := range s.Types {
		if !isRoot(t.Name) {
			objs = append(objs, t.Name)
		}
	}
	k := r.Below(6)
	switch {
	case k == 0:
		return "String!"
	case k == 1:
		return "Int"
	case k == 2:
		return "Boolean!"
	case len(objs) == 0:
		return "ID!"
	case k == 3:
		return objs[r.Below(len(objs))]
	case k == 4:
		return "[" + objs[r.Below(len(objs))] + "!]!"
	default:
		return objs[r.Below(len(objs))] + "!"
	}
}

func (s *Schema) addField(r *rng.R, t *SType, file string) *SField {
	f := &SField{Name: s.freshField(r, t), Args: r.Below(3), Ret: s.randRet(r), File: file}
	f.Resolver = isRoot(t.Name) || r.Below(3) > 0
	if shadowPct > 0 {
		f.Shadow = s.shadowArgs(r)
	}
	t.Fields = append(t.Fields, f)
	return f
}

func (s *Schema) randFile(r *rng.R) string { return s.Files[r.Below(len(s.Files))] }

func initialSchema(r *rng.R) *Schema {
	s := &Schema{Files: []string{"a", "b"}}
	if r.Below(3) == 0 {
		s.Files = append(s.Files, "c")
	}
	q := &SType{Name: "Query", File: "a"}
	s.Types = append(s.Types, q)
	nt := 1 + r.Below(3)
	for i := 0; i < nt; i++ {
		t := &SType{Name: s.freshType(r), File: s.randFile(r)}
		s.Types = append(s.Types, t)
		t.Fields = append(t.Fields, &SField{Name: "id", Ret: "ID!", File: t.File})
	}
	if r.Below(2) == 0 {
		s.Types = append(s.Types, &SType{Name: "Mutation", File: s.randFile(r)})
	}
	for _, t := range s.Types {
		n := 1 + r.Below(3)
		for i := 0; i < n; i++ {
			file := t.File
			if i > 0 && r.Below(3) == 0 {
				file = s.randFile(r) // lives in an `extend type` block
			}
			s.addField(r, t, file)
		}
		// the definition itself needs at least one field in its own file
		has := false
		for _, f := range t.Fields {
			if f.File == t.File {
				has = true
			}
		}
		if !has {
			t.Fields[0].File = t.File
		}
	}
	return s
}

// normalise keeps the schema valid: every definition has a field in its own file, Query exists and is
// non-empty, references to removed types are replaced.
func (s *Schema) normalise() {
	for _, t := range s.Types {
		for _, f := range t.Fields {
			base := strings.Trim(f.Ret, "[]!")
			switch base {
			case "String", "Int", "Boolean", "ID":
			default:
				if s.typ(base) == nil {
					f.Ret = "String"
				}
			}
			okf := false
			for _, fl := range s.Files {
				if fl == f.File {
					okf = true
				}
			}
			if !okf {
				f.File = t.File
			}
		}
	}
	var keep []*SType
	for _, t := range s.Types {
		if len(t.Fields) == 0 {
			if t.Name == "Query" {
				t.Fields = append(t.Fields, &SField{Name: "ping", Ret: "String!", Resolver: true, File: t.File})
			} else {
				continue
			}
		}
		okf := false
		for _, fl := range s.Files {
			if fl == t.File {
				okf = true
			}
		}
		if !okf {
			t.File = s.Files[0]
		}
		has := false
		for _, f := range t.Fields {
			if f.File == t.File {
				has = true
			}
		}
		if !has {
			t.File = t.Fields[0].File
		}
		keep = append(keep, t)
	}
	dropped := len(keep) != len(s.Types)
	s.Types = keep
	if dropped {
		s.normalise()
	}
}

// evolve applies 1..3 random evolution operations and returns their description; addOnly reports whether
// every operation only added fields/types.
func (s *Schema) evolve(r *rng.R) (ops []string, addOnly bool) {
	addOnly = true
	n := 1 + r.Below(3)
	for i := 0; i < n; i++ {
		t := s.Types[r.Below(len(s.Types))]
		switch k := r.Below(12); {
		case k <= 2:
			file := t.File
			if r.Below(2) == 0 {
				file = s.randFile(r)
			}
			f := s.addField(r, t, file)
			ops = append(ops, fmt.Sprintf("add-field %s.%s@%s", t.Name, f.Name, file))
		case k == 3 && len(t.Fields) > 0:
			j := r.Below(len(t.Fields))
			ops = append(ops, fmt.Sprintf("remove-field %s.%s", t.Name, t.Fields[j].Name))
			t.Fields = append(t.Fields[:j:j], t.Fields[j+1:]...)
			addOnly = false
		case k == 4 && len(t.Fields) > 0:
			f := t.Fields[r.Below(len(t.Fields))]
			nn := s.freshField(r, t)
			ops = append(ops, fmt.Sprintf("rename-field %s.%s->%s", t.Name, f.Name, nn))
			f.Name = nn
			addOnly = false
		case k == 5 && len(t.Fields) > 0:
			f := t.Fields[r.Below(len(t.Fields))]
			nf := s.randFile(r)
			ops = append(ops, fmt.Sprintf("move-field %s.%s %s->%s", t.Name, f.Name, f.File, nf))
			if nf != f.File {
				addOnly = false
			}
			f.File = nf
		case k == 6:
			nf := s.randFile(r)
			ops = append(ops, fmt.Sprintf("move-type %s %s->%s", t.Name, t.File, nf))
			if nf != t.File {
				addOnly = false
			}
			for _, f := range t.Fields {
				if f.File == t.File {
					f.File = nf
				}
			}
			t.File = nf
		case k == 7:
			nt := &SType{Name: s.freshType(r), File: s.randFile(r)}
			s.Types = append(s.Types, nt)
			nt.Fields = append(nt.Fields, &SField{Name: "id", Ret: "ID!", File: nt.File})
			s.addField(r, nt, nt.File)
			ops = append(ops, fmt.Sprintf("add-type %s@%s", nt.Name, nt.File))
		case k == 8 && !isRoot(t.Name):
			ops = append(ops, "remove-type "+t.Name)
			var keep []*SType
			for _, x := range s.Types {
				if x != t {
					keep = append(keep, x)
				}
			}
			s.Types = keep
			addOnly = false
		case k == 9 && !isRoot(t.Name):
			nn := s.freshType(r)
			ops = append(ops, fmt.Sprintf("rename-type %s->%s", t.Name, nn))
			for _, x := range s.Types {
				for _, f := range x.Fields {
					f.Ret = replaceBase(f.Ret, t.Name, nn)
				}
			}
			t.Name = nn
			addOnly = false
		case k == 10 && !isRoot(t.Name) && len(t.Fields) > 0:
			f := t.Fields[r.Below(len(t.Fields))]
			f.Resolver = !f.Resolver
			ops = append(ops, fmt.Sprintf("toggle-resolver %s.%s=%v", t.Name, f.Name, f.Resolver))
			addOnly = false
		case k == 11:
			if len(s.Files) < 4 && r.Below(2) == 0 {
				nf := string(rune('a' + len(s.Files)))
				for _, x := range s.Files {
					if x == nf {
						nf = nf + "x"
					}
				}
				s.Files = append(s.Files, nf)
				ops = append(ops, "add-file "+nf)
			} else if len(s.Files) > 1 {
				j := r.Below(len(s.Files))
				gone := s.Files[j]
				s.Files = append(s.Files[:j:j], s.Files[j+1:]...)
				dst := s.Files[r.Below(len(s.Files))]
				for _, x := range s.Types {
					if x.File == gone {
						x.File = dst
					}
					for _, f := range x.Fields {
						if f.File == gone {
							f.File = dst
						}
					}
				}
				ops = append(ops, fmt.Sprintf("remove-file %s (content to %s)", gone, dst))
				addOnly = false
			}
		default:
			ops = append(ops, "noop")
		}
		s.normalise()
	}
	return ops, addOnly
}

func replaceBase(ref, old, nw string) string {
	base := strings.Trim(ref, "[]!")
	if base != old {
		return ref
	}
	return strings.Replace(ref, old, nw, 1)
}

// write renders the schema files and gqlgen.yml into dir (stale *.graphqls are removed).
func (s *Schema) write(dir, pkg, layout string, omitComment bool) error {
	old, _ := filepath.Glob(filepath.Join(dir, "*.graphqls"))
	for _, o := range old {
		os.Remove(o)
	}
	for _, fl := range s.Files {
		var b strings.Builder
		for _, t := range s.Types {
			var own, ext []*SField
			for _, f := range t.Fields {
				if f.File != fl {
					continue
				}
				if t.File == fl {
					own = append(own, f)
				} else {
					ext = append(ext, f)
				}
			}
			emit := func(kw string, fs []*SField) {
				fmt.Fprintf(&b, "%s %s {\n", kw, t.Name)
				for _, f := range fs {
					args := ""
					if f.Args > 0 || len(f.Shadow) > 0 {
						var as []string
						for i := 0; i < f.Args; i++ {
							as = append(as, fmt.Sprintf("a%d: Int", i))
						}
						for _, a := range f.Shadow {
							if strings.HasSuffix(a, "!") {
								as = append(as, strings.TrimSuffix(a, "!")+": "+shadowInput+"!")
							} else {
								as = append(as, a+": "+shadowInput)
							}
						}
						args = "(" + strings.Join(as, ", ") + ")"
					}
					fmt.Fprintf(&b, "  %s%s: %s\n", f.Name, args, f.Ret)
				}
				b.WriteString("}\n\n")
			}
			if len(own) > 0 {
				emit("type", own)
			}
			if len(ext) > 0 {
				emit("extend type", ext)
			}
		}
		if fl == s.Files[0] && s.usesShadow() {
			fmt.Fprintf(&b, "input %s {\n  zone: String\n  hour: Int\n}\n\n", shadowInput)
		}
		if b.Len() == 0 {
			b.WriteString("# empty\n")
		}
		if err := os.WriteFile(filepath.Join(dir, fl+".graphqls"), []byte(b.String()), 0o644); err != nil {
			return err
		}
	}
	var y strings.Builder
	y.WriteString("schema:\n")
	for _, fl := range s.Files {
		fmt.Fprintf(&y, "  - %s.graphqls\n", fl)
	}
	y.WriteString("exec:\n  filename: generated.go\nmodel:\n  filename: models_gen.go\nresolver:\n")
	if layout == "follow" {
		fmt.Fprintf(&y, "  layout: follow-schema\n  dir: .\n  package: %s\n", pkg)
	} else {
		fmt.Fprintf(&y, "  layout: single-file\n  filename: resolver.go\n  package: %s\n", pkg)
	}
	if omitComment {
		y.WriteString("  omit_template_comment: true\n")
	}
	y.WriteString("skip_mod_tidy: true\nmodels:\n")
	any := false
	for _, t := range s.Types {
		if isRoot(t.Name) {
			continue
		}
		var rs []*SField
		for _, f := range t.Fields {
			if f.Resolver {
				rs = append(rs, f)
			}
		}
		if len(rs) == 0 {
			continue
		}
		any = true
		fmt.Fprintf(&y, "  %s:\n    fields:\n", t.Name)
		for _, f := range rs {
			fmt.Fprintf(&y, "      %s:\n        resolver: true\n", f.Name)
		}
	}
	if !any {
		y.WriteString("  ID:\n    model:\n      - github.com/99designs/gqlgen/graphql.ID\n")
	}
	return os.WriteFile(filepath.Join(dir, "gqlgen.yml"), []byte(y.String()), 0o644)
}

// ---- the flattened Schema' handed to the model

type OField struct {
	GoName     string `json:"goName"`
	Name       string `json:"name"`
	File       string `json:"file"`
	IsResolver bool   `json:"isResolver"`
}

type OObj struct {
	Name         string   `json:"name"`
	File         string   `json:"file"`
	HasResolvers bool     `json:"hasResolvers"`
	Fields       []OField `json:"fields"`
}

// OName: what the real name helpers return for a type name (input of the model, which computes LcFirst /
// UcFirst itself and takes the rest as given).
type OName struct {
	Name      string `json:"name"`
	GoPrivate string `json:"goPrivate"`
	GoPublic  string `json:"goPublic"`
	Title     string `json:"title"`
	LcFirst   string `json:"lcFirst"` // not read by the model (it computes these two itself): used by the check to describe a failing input
	UcFirst   string `json:"ucFirst"`
}

func (s *Schema) names() []OName {
	caser := cases.Title(language.English, cases.NoLower)
	var out []OName
	for _, t := range s.Types {
		out = append(out, OName{Name: t.Name, GoPrivate: templates.ToGoPrivate(t.Name), GoPublic: templates.ToGo(t.Name),
			Title: caser.String(t.Name), LcFirst: templates.LcFirst(t.Name), UcFirst: templates.UcFirst(t.Name)})
	}
	sort.SliceStable(out, func(i, j int) bool { return out[i].Name < out[j].Name })
	return out
}

func resolverFile(layout, schemaFile string) string {
	if layout == "single" {
		return "resolver.go"
	}
	return schemaFile + ".resolvers.go"
}

// ambiguous: codegen binds a field that is not marked as a resolver to the member of the Go model struct whose
// name equals the field's Go name ignoring case and underscores (codegen/util.go equalFieldName); modelgen
// gives every field of the type a struct member, so when two fields of a type agree that way (`uRL` -> `URl`,
// `url` -> `URL`; `userId` / `user_id` are kept apart by freshField already) bindField reports "found more
// than one matching field to bind" and buildField makes the field a resolver instead. gqlgen logs that and
// goes on: the field gets a resolver method like any other.
func (t *SType) ambiguous(f *SField) bool {
	fold := func(n string) string { return strings.ToLower(strings.ReplaceAll(templates.ToGo(n), "_", "")) }
	for _, g := range t.Fields {
		if g != f && fold(g.Name) == fold(f.Name) {
			return true
		}
	}
	return false
}

func (s *Schema) flatten(layout string) []OObj {
	var out []OObj
	for _, t := range s.Types {
		o := OObj{Name: t.Name, File: resolverFile(layout, t.File)}
		// definition fields first, then extension fields in schema-file order (gqlparser applies extensions
		// after all definitions, in source order)
		var fs []*SField
		for _, f := range t.Fields {
			if f.File == t.File {
				fs = append(fs, f)
			}
		}
		for _, fl := range s.Files {
			if fl == t.File {
				continue
			}
			for _, f := range t.Fields {
				if f.File == fl {
					fs = append(fs, f)
				}
			}
		}
		for _, f := range fs {
			res := f.Resolver || isRoot(t.Name) || t.ambiguous(f)
			if res {
				o.HasResolvers = true
			}
			o.Fields = append(o.Fields, OField{GoName: templates.ToGo(f.Name), Name: f.Name, File: resolverFile(layout, f.File), IsResolver: res})
		}
		out = append(out, o)
	}
	sort.SliceStable(out, func(i, j int) bool { return out[i].Name < out[j].Name })
	return out
}
