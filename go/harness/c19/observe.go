package main

// Parsing of resolver files (before and after a regeneration) with go/parser into the structure of the
// Lean model (Model/Rewrite.lean): imports + declarations with their source text.

import (
	"crypto/sha256"
	"fmt"
	"go/ast"
	"go/format"
	"go/parser"
	"go/token"
	"os"
	"path/filepath"
	"sort"
	"strconv"
	"strings"
)

type OImport struct {
	Alias string `json:"alias"`
	Path  string `json:"path"`
	Pkg   string `json:"pkg"` // package name behind the path (code.Packages.NameForPackage)
}

type ODecl struct {
	Kind    string `json:"kind"` // func | gen
	Tok     string `json:"tok"`  // gen: IMPORT | TYPE | VAR | CONST
	Recv    string `json:"recv"` // base type name of an `T` / `*T` receiver, else ""
	Name    string `json:"name"` // func name; first spec name of a TYPE decl
	Doc     string `json:"doc"`  // go/ast CommentGroup.Text()
	SpecDoc string `json:"specDoc"`
	RawDoc  string `json:"rawDoc"` // source text of the doc comment group
	NamedV  string `json:"namedV"`
	NamedE  string `json:"namedE"`
	Hdr     string `json:"hdr"`   // source from d.Pos() to the body's "{" (func with body), else the whole d.Pos()..d.End()
	Inner   string `json:"inner"` // source between the body's braces
	HasBody bool   `json:"hasBody"`
	Canon   string `json:"canon"` // the body as gofmt prints it, trimmed (equals TrimSpace(inner) for a gofmt-ed file)
	Tight   bool   `json:"tight"` // source starts and ends with a non-space character
}

// OSel: an identifier `Name` used as the base of a selector expression `Name.Sel`; Resolved = a declaration of the
// same file binds it (parameter, result, receiver, local, range / closure variable, file-level declaration), so
// it cannot be a package name. Computed with object resolution ON, whatever flags internal/imports uses.
type OSel struct {
	Name     string `json:"name"`
	Resolved bool   `json:"resolved"`
}

type OFile struct {
	Name      string    `json:"name"`
	ParseOK   bool      `json:"parseOK"`
	ParseErr  string    `json:"parseErr,omitempty"`
	Imports   []OImport `json:"imports"`
	Decls     []ODecl   `json:"decls"`
	Remaining string    `json:"remaining"`
	RemMode   string    `json:"remMode"` // none | block | line
	Used      []string  `json:"used"`    // unresolved selector bases (what internal/imports.Prune calls used)
	Sels      []OSel    `json:"sels"`    // every selector base with what Go's scoping says about it (input of the model's walk)
	Sha       string    `json:"sha"`     // SHA-256 of the file's bytes
	Bytes     string    `json:"bytes,omitempty"` // round 6: byte-level shape when it is not gofmt's: bom, crlf / mixed-eol, no-final-newline, space-indent, non-ascii
	Raw       string    `json:"-"`
}

var pkgNames = map[string]string{
	"github.com/vektah/gqlparser/v2":                    "gqlparser",
	"github.com/vektah/gqlparser/v2/ast":                "ast",
	"github.com/99designs/gqlgen/graphql":               "graphql",
	"github.com/99designs/gqlgen/graphql/introspection": "introspection",
	"verifharness/harness/c19/lib/errors":               "errors",
	"verifharness/harness/c19/lib/mylib":                "mylib",
	"verifharness/harness/c19/lib/v2":                   "deep",
}

func pkgNameOf(path string) string {
	if n, ok := pkgNames[path]; ok {
		return n
	}
	return path[strings.LastIndex(path, "/")+1:]
}

// specDoc is the doc comment with comment markers removed but nothing else dropped: unlike
// CommentGroup.Text() it keeps directive lines (//nolint:x, //go:noinline).
func specDoc(g *ast.CommentGroup) string {
	if g == nil {
		return ""
	}
	var lines []string
	for _, c := range g.List {
		t := c.Text
		if strings.HasPrefix(t, "//") {
			t = strings.TrimPrefix(t[2:], " ")
			lines = append(lines, strings.TrimRight(t, " \t\r"))
		} else {
			t = t[2 : len(t)-2]
			for _, l := range strings.Split(t, "\n") {
				lines = append(lines, strings.TrimSpace(l))
			}
		}
	}
	for len(lines) > 0 && lines[0] == "" {
		lines = lines[1:]
	}
	for len(lines) > 0 && lines[len(lines)-1] == "" {
		lines = lines[:len(lines)-1]
	}
	return strings.Join(lines, "\n")
}

// canonBody formats the function on its own with gofmt and returns its trimmed body text.
func canonBody(fn string, inner string) string {
	out, err := format.Source([]byte("package p\n\n" + fn + "\n"))
	if err != nil {
		return strings.TrimSpace(inner)
	}
	fs := token.NewFileSet()
	f, err := parser.ParseFile(fs, "x.go", out, parser.ParseComments)
	if err != nil || len(f.Decls) != 1 {
		return strings.TrimSpace(inner)
	}
	fd, ok := f.Decls[0].(*ast.FuncDecl)
	if !ok || fd.Body == nil {
		return strings.TrimSpace(inner)
	}
	return strings.TrimSpace(string(out[fs.Position(fd.Body.Lbrace).Offset+1 : fs.Position(fd.Body.Rbrace).Offset]))
}

func tight(s string) bool {
	return s != "" && strings.TrimSpace(s[:1]) != "" && strings.TrimSpace(s[len(s)-1:]) != ""
}

const warnFirst = "// !!! WARNING !!!"
const warnLast = "Move them out to keep these resolver files clean."

func observeFile(path string) OFile {
	of := OFile{Name: filepath.Base(path), RemMode: "none", Imports: []OImport{}, Decls: []ODecl{}, Used: []string{}, Sels: []OSel{}}
	b, err := os.ReadFile(path)
	if err != nil {
		of.ParseErr = err.Error()
		return of
	}
	src := string(b)
	of.Raw = src
	of.Sha = fmt.Sprintf("%x", sha256.Sum256(b))
	// round 6: the declarations are handed to the model / Spec in gofmt's line-ending normal form (no BOM, LF): every
	// regenerated file goes through gofmt, whose scanner drops the carriage returns (also inside comments and raw
	// strings) and the byte order mark. Sha and Raw stay the real bytes.
	of.Bytes = byteShapeOf(src)
	b = []byte(strings.ReplaceAll(strings.TrimPrefix(string(b), "\xef\xbb\xbf"), "\r\n", "\n"))
	src = string(b)
	fset := token.NewFileSet()
	f, err := parser.ParseFile(fset, path, b, parser.ParseComments|parser.AllErrors)
	if err != nil {
		of.ParseErr = err.Error()
		return of
	}
	of.ParseOK = true
	off := func(p token.Pos) int { return fset.Position(p).Offset }
	for _, is := range f.Imports {
		p, _ := strconv.Unquote(is.Path.Value)
		im := OImport{Path: p, Pkg: pkgNameOf(p)}
		if is.Name != nil {
			im.Alias = is.Name.Name
		}
		of.Imports = append(of.Imports, im)
	}
	for _, d := range f.Decls {
		switch d := d.(type) {
		case *ast.FuncDecl:
			od := ODecl{Kind: "func", Name: d.Name.Name, Doc: d.Doc.Text(), SpecDoc: specDoc(d.Doc)}
			if d.Doc != nil {
				od.RawDoc = src[off(d.Doc.Pos()):off(d.Doc.End())]
			}
			if d.Recv != nil && len(d.Recv.List) > 0 {
				rt := d.Recv.List[0].Type
				if st, ok := rt.(*ast.StarExpr); ok {
					rt = st.X
				}
				if id, ok := rt.(*ast.Ident); ok {
					od.Recv = id.Name
				}
			}
			if rs := d.Type.Results; rs != nil {
				if len(rs.List) > 0 && len(rs.List[0].Names) > 0 {
					od.NamedV = rs.List[0].Names[0].Name
				}
				if len(rs.List) > 1 && len(rs.List[1].Names) > 0 {
					od.NamedE = rs.List[1].Names[0].Name
				}
			}
			if d.Body != nil {
				od.HasBody = true
				od.Hdr = src[off(d.Pos()):off(d.Body.Lbrace)]
				od.Inner = src[off(d.Body.Lbrace)+1 : off(d.Body.Rbrace)]
				od.Canon = canonBody(src[off(d.Pos()):off(d.End())], od.Inner)
			} else {
				od.Hdr = src[off(d.Pos()):off(d.End())]
			}
			od.Tight = tight(src[off(d.Pos()):off(d.End())])
			of.Decls = append(of.Decls, od)
		case *ast.GenDecl:
			od := ODecl{Kind: "gen", Tok: d.Tok.String(), Doc: d.Doc.Text(), SpecDoc: specDoc(d.Doc)}
			od.Tok = strings.ToUpper(od.Tok)
			if d.Tok == token.TYPE && len(d.Specs) > 0 {
				if ts, ok := d.Specs[0].(*ast.TypeSpec); ok {
					od.Name = ts.Name.Name
				}
			}
			od.Hdr = src[off(d.Pos()):off(d.End())]
			od.Tight = tight(od.Hdr)
			of.Decls = append(of.Decls, od)
		}
	}
	// used names: the walk of internal/imports.getUnusedImports
	used := map[string]bool{}
	sels := map[OSel]bool{}
	ast.Inspect(f, func(n ast.Node) bool {
		if se, ok := n.(*ast.SelectorExpr); ok {
			if id, ok := se.X.(*ast.Ident); ok {
				sels[OSel{Name: id.Name, Resolved: id.Obj != nil}] = true
				if id.Obj == nil {
					used[id.Name] = true
				}
			}
		}
		return true
	})
	for k := range sels {
		of.Sels = append(of.Sels, k)
	}
	sort.Slice(of.Sels, func(i, j int) bool {
		if of.Sels[i].Name != of.Sels[j].Name {
			return of.Sels[i].Name < of.Sels[j].Name
		}
		return !of.Sels[i].Resolved && of.Sels[j].Resolved
	})
	for k := range used {
		of.Used = append(of.Used, k)
	}
	sort.Strings(of.Used)
	// trailing WARNING block
	var all []*ast.Comment
	for _, g := range f.Comments {
		all = append(all, g.List...)
	}
	last := len(f.Decls)
	_ = last
	endDecls := token.NoPos
	if n := len(f.Decls); n > 0 {
		endDecls = f.Decls[n-1].End()
	}
	start := -1
	for i, c := range all {
		if c.Pos() > endDecls && strings.HasPrefix(c.Text, warnFirst) {
			start = i
		}
	}
	if start >= 0 {
		i := start
		for i < len(all) && !strings.Contains(all[i].Text, warnLast) {
			i++
		}
		rest := all[min(i+1, len(all)):]
		if len(rest) == 1 && strings.HasPrefix(rest[0].Text, "/*") {
			of.RemMode = "block"
			of.Remaining = rest[0].Text[2 : len(rest[0].Text)-2]
		} else if len(rest) > 0 {
			of.RemMode = "line"
			var ls []string
			prevLine := -1
			for _, c := range rest {
				if !strings.HasPrefix(c.Text, "//") {
					of.RemMode = "mixed"
				}
				ln := fset.Position(c.Pos()).Line
				for prevLine >= 0 && ln > prevLine+1 { // blank source lines between comment groups
					ls = append(ls, "")
					prevLine++
				}
				prevLine = ln
				ls = append(ls, strings.TrimPrefix(strings.TrimPrefix(c.Text, "//"), " "))
			}
			of.Remaining = strings.Join(ls, "\n")
		}
	}
	return of
}

func byteShapeOf(s string) string {
	var fs []string
	if strings.HasPrefix(s, "\xef\xbb\xbf") {
		fs = append(fs, "bom")
	}
	if crlf, lf := strings.Count(s, "\r\n"), strings.Count(s, "\n"); crlf > 0 && crlf == lf {
		fs = append(fs, "crlf")
	} else if crlf > 0 {
		fs = append(fs, "mixed-eol")
	}
	if s != "" && !strings.HasSuffix(s, "\n") {
		fs = append(fs, "no-final-newline")
	}
	if strings.Contains(s, "\n    ") {
		fs = append(fs, "space-indent")
	}
	for i := 0; i < len(s); i++ {
		if s[i] >= 0x80 && !(i < 3 && strings.HasPrefix(s, "\xef\xbb\xbf")) {
			fs = append(fs, "non-ascii")
			break
		}
	}
	return strings.Join(fs, ",")
}

func min(a, b int) int {
	if a < b {
		return a
	}
	return b
}

// observeAll parses every hand-editable .go file of the package directory, in file-name order (the order
// of packages.Package.Syntax).
func observeAll(dir string) []OFile {
	ms, _ := filepath.Glob(filepath.Join(dir, "*.go"))
	sort.Strings(ms)
	out := []OFile{}
	for _, m := range ms {
		switch filepath.Base(m) {
		case "generated.go", "models_gen.go":
			continue
		}
		out = append(out, observeFile(m))
	}
	return out
}
