package main

// Round 6 directed corpus: (a) the user's IMPORTS - explicit aliases that exist because the package's real name is
// already taken (by an import the resolver template reserves, or by another import of the user), aliases spelled
// like another import's package name, blank imports of such packages; (b) the BYTES of the resolver file - CRLF,
// mixed line endings, a byte order mark, no final newline, space indentation, non-ASCII text - all of them the
// same valid Go program as far as go/parser and the compiler are concerned.

import (
	"verifharness/internal/rng"
)

const unicodeBody = "\n\t// 注釈 ünï { ça\n\ts := \"héllo → 世界 }\"\n\tfor _, c := range s {\n\t\tif c == 'é' || c == '}' {\n\t\t\t_ = `日本 {\n語 } ß`\n\t\t}\n\t}\n\t/* § blöck — { */\n\tpanic(fmt.Errorf(\"mine todos { %d %s\", 1, s))\n"

const unicodeTodoBody = "\n\tm := map[string]int{\"ñ\": 1, \"}€\": 2}\n\tif len(m) > 1 {\n\t\terr = fmt.Errorf(\"tödo %d\", len(m))\n\t}\n\treturn\n"

// bytesCase: a fully implemented resolver file (two-line doc comment, named results, nested braces, brace characters in
// rune / string / raw string literals, non-ASCII text, a helper function and a helper var) saved in the given byte
// shape; then one resolver is removed from the schema (its body must reach the WARNING block), the file is edited and
// saved in that shape again with the WARNING block kept, and regeneration is repeated.
func bytesCase(shape string) scriptFn {
	opts := func() EditOpts {
		return EditOpts{NoRandom: true, ByteShape: shape,
			BodyFor:      map[string]string{"queryResolver.Todos": unicodeBody, "queryResolver.Todo": unicodeTodoBody, "todoResolver.Owner": "\n\tpanic(fmt.Errorf(\"owner of %v\", helperR6(\"ü\")))\n"},
			DocFor:       map[string]string{"queryResolver.Todos": "// Todos lists the tödos.\n// Second line — with a brace {.\n"},
			NamedFor:     map[string][2]string{"queryResolver.Todo": {"res", "err"}},
			ExtraHelpers: []string{"// helperR6 is documented.\nfunc helperR6(p string) string {\n\tif p == \"\" {\n\t\treturn \"é{\"\n\t}\n\treturn p + `}`\n}", "var helperR6V = map[string]int{\"ä\": 1, \"}\": 2}"}}
	}
	return func(w *W, r *rng.R, k int, o *Obs) error {
		switch k {
		case 0:
			w.Sch = fixedSchema()
			o.Ops = []string{"initial"}
		case 1:
			o.Ops = []string{"edit bytes=" + shape, "add-field Todo.done"}
			td := w.Sch.typ("Todo")
			td.Fields = append(td.Fields, &SField{Name: "done", Ret: "Boolean!", File: "a", Resolver: true})
			return w.userEdit(r, opts())
		case 2:
			o.Ops = []string{"edit bytes=" + shape, "remove-field Query.todo"}
			o.AddOnly = false
			q := w.Sch.typ("Query")
			q.Fields = append(q.Fields[:1:1], q.Fields[2:]...)
			e := opts()
			e.ExtraHelpers = nil
			return w.userEdit(r, e)
		default:
			o.Ops = []string{"edit bytes=" + shape, "repeat"}
			return w.userEdit(r, EditOpts{NoRandom: true, ByteShape: shape, KeepWarning: true})
		}
		return nil
	}
}

func init() {
	for _, sh := range []string{"crlf", "mixed-eol", "bom", "bom-crlf", "no-final-newline", "spaces"} {
		reg("bytes-"+sh, 3, bytesCase(sh))
	}
	// the alias is free, the package NAME is the alias of an import the template reserved
	reg("import-alias-dodges-template-name", 2, editCase(EditOpts{
		ExtraImports: []string{`goast "go/ast"`, `pkgerrors "verifharness/harness/c19/lib/errors"`, `gotime "verifharness/harness/c19/lib/time"`,
			`xctx "verifharness/harness/c19/lib/context"`, `gosync "verifharness/harness/c19/lib/sync"`},
		BodyFor: map[string]string{"queryResolver.Todos": "\n\t_ = goast.NewIdent(\"a\")\n\t_ = pkgerrors.Wrap(\"x\")\n\tpanic(fmt.Errorf(\"x %d %s %d\", gotime.Tick(), xctx.Key(\"k\"), gosync.Once()))\n"}}))
	// the package NAME is the alias of an un-aliased import of the user that is reserved before it
	reg("import-alias-dodges-user-name", 2, editCase(EditOpts{
		ExtraImports: []string{`"crypto/rand"`, `mrand "math/rand"`, `"html/template"`, `ttemplate "text/template"`},
		BodyFor:      map[string]string{"queryResolver.Todos": "\n\t_ = rand.Reader\n\t_ = mrand.Intn(3)\n\tpanic(fmt.Errorf(\"x %s %s\", template.HTMLEscapeString(\"a\"), ttemplate.HTMLEscapeString(\"b\")))\n"}}))
	reg("import-alias-dodges-user-name-reversed", 1, editCase(EditOpts{
		ExtraImports: []string{`crand "crypto/rand"`, `"math/rand"`},
		BodyFor:      map[string]string{"queryResolver.Todos": "\n\t_ = crand.Reader\n\tpanic(fmt.Errorf(\"x %d\", rand.Intn(3)))\n"}}))
	// an alias spelled like ANOTHER import's package name, that other import aliased away (both orders of reservation)
	reg("import-alias-is-other-package-name", 1, editCase(EditOpts{
		ExtraImports: []string{`deep "verifharness/harness/c19/lib/mylib"`, `other "verifharness/harness/c19/lib/v2"`},
		BodyFor:      map[string]string{"queryResolver.Todos": "\n\tpanic(fmt.Errorf(\"x %d %d\", deep.F(), other.G()))\n"}}))
	// blank import of a package whose name the template reserves, next to a dot import
	reg("import-blank-of-reserved-name", 1, editCase(EditOpts{
		ExtraImports: []string{`_ "verifharness/harness/c19/lib/errors"`, `. "math"`},
		BodyFor:      map[string]string{"queryResolver.Todos": "\n\t_ = Pi\n\tpanic(fmt.Errorf(\"x\"))\n"}}))
}
