package main

// Directed cases for identifiers that SHADOW a package the resolver template reserves (resolver.gotpl reserves
// context fmt io strconv time sync errors bytes gqlparser ast graphql introspection in every resolver file and
// imports.Prune deletes the unused ones): parameters gqlgen derives from schema arguments, named results,
// := locals, var, range / closure / if-initialiser variables, struct fields of that name, next to genuine uses
// of the packages. The bodies are copied verbatim; whether `time.Zone` keeps the import "time" alive decides
// whether the regenerated file still compiles.

import "verifharness/internal/rng"

func shadowSchema() *Schema {
	s := &Schema{Files: []string{"a", "b"}}
	s.Types = []*SType{
		{Name: "Query", File: "a", Fields: []*SField{
			{Name: "schedule", Shadow: []string{"time!"}, Ret: "String!", File: "a", Resolver: true},
			{Name: "report", Args: 1, Shadow: []string{"errors", "bytes!"}, Ret: "String!", File: "a", Resolver: true},
			{Name: "plain", Ret: "String!", File: "b", Resolver: true},
			{Name: "todos", Ret: "[Todo!]!", File: "b", Resolver: true},
		}},
		{Name: "Todo", File: "b", Fields: []*SField{
			{Name: "id", Ret: "ID!", File: "b"},
			{Name: "due", Shadow: []string{"sync!", "io"}, Ret: "String", File: "b", Resolver: true},
			{Name: "owner", Shadow: []string{"context!", "strconv!"}, Ret: "String!", File: "a", Resolver: true},
		}},
		{Name: "Mutation", File: "b", Fields: []*SField{
			{Name: "plan", Shadow: []string{"graphql!", "ast"}, Ret: "Todo", File: "b", Resolver: true},
		}},
	}
	return s
}

// every resolver of shadowSchema implemented through its shadowing parameters
var shadowParamBodies = map[string]string{
	"queryResolver.Schedule": "\n\tif time.Hour != nil {\n\t\treturn *time.Zone, nil\n\t}\n\tpanic(fmt.Errorf(\"schedule %v\", time.Zone))\n",
	"queryResolver.Report":   "\n\tif errors != nil && errors.Zone != nil {\n\t\treturn *errors.Zone, nil\n\t}\n\treturn fmt.Sprint(bytes.Hour, a0), nil\n",
	"todoResolver.Due":       "\n\tif io != nil {\n\t\t_ = io.Zone\n\t}\n\treturn sync.Zone, nil\n",
	"todoResolver.Owner":     "\n\treturn fmt.Sprint(context.Hour, strconv.Zone, obj.ID), nil\n",
	"mutationResolver.Plan":  "\n\tif ast != nil {\n\t\t_ = ast.Hour\n\t}\n\treturn &Todo{ID: fmt.Sprint(graphql.Zone)}, nil\n",
	"queryResolver.Plain":    "\n\treturn \"plain\", nil\n",
	"queryResolver.Todos":    "\n\treturn nil, nil\n",
}

// locals, named results, range / closure / if-initialiser variables and a struct field spelled like the packages
const shadowLocalsTodos = `
	errors := struct{ Text string }{Text: "x"}
	for _, io := range []struct{ N int }{{N: 1}} {
		_ = io.N
	}
	var strconv struct{ Base int }
	_ = strconv.Base
	sync := func(bytes struct{ L int }) int { return bytes.L }
	_ = sync
	w := struct{ introspection struct{ Zone string } }{}
	_ = w.introspection.Zone
	if time := fmt.Errorf("t"); time.Error() != "" {
		panic(fmt.Errorf("mine %s", errors.Text))
	}
	return nil, nil
`

func init() {
	addFields := func(w *Schema, o *Obs) {
		q := w.typ("Query")
		q.Fields = append(q.Fields, &SField{Name: "version", Ret: "String!", File: "a", Resolver: true})
		t := w.typ("Todo")
		t.Fields = append(t.Fields, &SField{Name: "extra", Args: 1, Ret: "String", File: "b", Resolver: true})
		o.Ops = []string{"edit", "add-field Query.version@a", "add-field Todo.extra@b"}
	}
	// parameters named after schema arguments; the change only ADDS fields; a plain regeneration; then (not add-only) a
	// resolver with a shadowing parameter is renamed, another removed, a third moves to the other file
	reg("shadow-params-add-only", 3, func(w *W, r *rng.R, k int, o *Obs) error {
		switch k {
		case 0:
			w.Sch = shadowSchema()
			o.Ops = []string{"initial"}
		case 1:
			addFields(w.Sch, o)
			return w.userEdit(r, EditOpts{NoRandom: true, BodyFor: shadowParamBodies})
		case 2:
			o.Ops = []string{"repeat"}
		default:
			o.Ops = []string{"rename-field Query.schedule->timetable", "remove-field Todo.due", "move-field Todo.owner a->b"}
			o.AddOnly = false
			w.Sch.typ("Query").Fields[0].Name = "timetable"
			t := w.Sch.typ("Todo")
			t.Fields = append([]*SField{t.Fields[0]}, t.Fields[2:]...)
			t.Fields[1].File = "b"
		}
		return nil
	})
	// locals / named results on the plain schema
	reg("shadow-locals-add-only", 2, func(w *W, r *rng.R, k int, o *Obs) error {
		switch k {
		case 0:
			w.Sch = fixedSchema()
			o.Ops = []string{"initial"}
		case 1:
			addFields(w.Sch, o)
			return w.userEdit(r, EditOpts{NoRandom: true,
				NamedFor: map[string][2]string{"queryResolver.Users": {"bytes", "errors"}},
				BodyFor: map[string]string{
					"queryResolver.Todos":         shadowLocalsTodos,
					"queryResolver.Users":         "\n\tif errors != nil {\n\t\t_ = errors.Error()\n\t}\n\treturn bytes, errors\n",
					"todoResolver.Owner":          "\n\tast := obj\n\t_ = ast.ID\n\tgraphql := r\n\t_ = graphql.Resolver\n\tpanic(fmt.Errorf(\"owner\"))\n",
					"mutationResolver.CreateTodo": "\n\tgqlparser, context := struct{ A int }{A: 1}, struct{ B int }{B: 2}\n\treturn nil, fmt.Errorf(\"%d\", gqlparser.A+context.B)\n",
				}})
		default:
			o.Ops = []string{"repeat"}
		}
		return nil
	})
	// the same names as parameter in one method and as the genuine package in another method of the same file:
	// the import has to stay
	reg("shadow-mixed-with-genuine-use", 2, func(w *W, r *rng.R, k int, o *Obs) error {
		switch k {
		case 0:
			w.Sch = shadowSchema()
			o.Ops = []string{"initial"}
		case 1:
			addFields(w.Sch, o)
			b := map[string]string{}
			for k, v := range shadowParamBodies {
				b[k] = v
			}
			b["queryResolver.Report"] = "\n\t_ = time.Second\n\t_ = strconv.Itoa(1)\n\treturn fmt.Sprint(bytes.Hour, errors, a0), nil\n"
			b["queryResolver.Todos"] = "\n\t_ = sync.NewCond\n\treturn nil, io.EOF\n"
			b["queryResolver.Plain"] = "\n\treturn \"\", errors.New(\"plain\")\n"
			return w.userEdit(r, EditOpts{NoRandom: true, Shadow: 1, BodyFor: b})
		default:
			o.Ops = []string{"repeat"}
		}
		return nil
	})
	// F19g: the one reserved name the STUB itself needs. A field with an argument called `fmt` is added (add-only); the
	// stub gqlgen writes for it, `panic(fmt.Errorf("not implemented: …"))`, has `fmt` bound to the parameter.
	reg("shadow-arg-fmt-add-only", 1, func(w *W, r *rng.R, k int, o *Obs) error {
		switch k {
		case 0:
			w.Sch = fixedSchema()
			o.Ops = []string{"initial"}
		default:
			q := w.Sch.typ("Query")
			q.Fields = append(q.Fields, &SField{Name: "render", Shadow: []string{"fmt!"}, Ret: "String!", File: "a", Resolver: true})
			o.Ops = []string{"add-field Query.render(fmt: ShadowIn!)@a"}
		}
		return nil
	})
}
