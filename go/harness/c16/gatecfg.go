package main

import (
	"encoding/json"
	"fmt"
	"os"
	"sort"
	"strings"

	"verifharness/internal/rng"
)

// Configuration dimension of the gate (C16): which handler extensions a server registers around
// OperationContext.DisableIntrospection, and IN WHICH ORDER. A case is a list of extensions (the real
// extension.Introspection{} and hook extensions implementing any subset of OperationParameterMutator /
// OperationContextMutator / OperationInterceptor, see go/universal/c16ext.go), the request's role and operation
// name, and a hiding query. Directed configurations (corpus/C16/gatecfg/*.json) are run in EVERY registration
// order; generated ones in the generated order, reversed, and shuffled.

type hookSpec struct {
	When string `json:"when"`
	Arg  string `json:"arg,omitempty"`
	Do   string `json:"do"`
	B    bool   `json:"b,omitempty"`
	S    string `json:"s,omitempty"`
}

type extSpec struct {
	Type   string    `json:"type"`
	Param  *hookSpec `json:"param,omitempty"`
	Ctx    *hookSpec `json:"ctx,omitempty"`
	Around *hookSpec `json:"around,omitempty"`
}

type cfgFile struct {
	What  string    `json:"what"`
	Exts  []extSpec `json:"exts"`
	Roles []string  `json:"roles"`
	Ops   []string  `json:"ops"` // "" = the anonymous-operation queries; "OpA"/"OpB" = the two-operation document
}

func (e extSpec) key() string {
	b, _ := json.Marshal(e)
	return string(b)
}

// permutations of 0..n-1 in lexicographic order (n <= 4 for the corpus: at most 24)
func perms(n int) [][]int {
	if n == 0 {
		return [][]int{{}}
	}
	var out [][]int
	var rec func(cur []int, used []bool)
	rec = func(cur []int, used []bool) {
		if len(cur) == n {
			out = append(out, append([]int(nil), cur...))
			return
		}
		for i := 0; i < n; i++ {
			if !used[i] {
				used[i] = true
				rec(append(cur, i), used)
				used[i] = false
			}
		}
	}
	rec(nil, make([]bool, n))
	return out
}

func genCond(r *rng.R) (string, string) {
	switch r.Below(8) {
	case 0, 1:
		return "roleIs", []string{"admin", "anon", ""}[r.Below(3)]
	case 2, 3:
		return "roleIsNot", []string{"admin", "admin", "anon", ""}[r.Below(4)]
	case 4:
		return "opIs", []string{"OpA", "OpB", ""}[r.Below(3)]
	case 5:
		return "opIsNot", []string{"OpA", "OpB", ""}[r.Below(3)]
	}
	return "always", ""
}

func genFlagHook(r *rng.R, who string) *hookSpec {
	w, a := genCond(r)
	h := &hookSpec{When: w, Arg: a}
	switch r.Below(10) {
	case 0, 1, 2, 3:
		h.Do, h.B = "set", true
	case 4, 5, 6:
		h.Do, h.B = "set", false
	case 7:
		h.Do = "flip"
	case 8:
		h.Do, h.S = "fail", "verif-hook: "+who+" says no"
	default:
		h.Do = "keep"
	}
	return h
}

func genParamHook(r *rng.R, who string) *hookSpec {
	w, a := genCond(r)
	h := &hookSpec{When: w, Arg: a}
	switch r.Below(8) {
	case 0, 1, 2, 3, 4:
		h.Do, h.S = "setRole", []string{"admin", "anon", "anon", ""}[r.Below(4)]
	case 5:
		h.Do, h.S = "fail", "verif-hook: "+who+" rejects the parameters"
	default:
		h.Do = "keep"
	}
	return h
}

func genExt(r *rng.R, i int) extSpec {
	if r.Below(3) == 0 {
		return extSpec{Type: "introspection"}
	}
	e := extSpec{Type: "hooks"}
	who := fmt.Sprintf("ext%d", i)
	switch r.Below(10) {
	case 0, 1, 2, 3:
		e.Ctx = genFlagHook(r, who+".ctx")
	case 4, 5:
		e.Param = genParamHook(r, who+".param")
	case 6:
		e.Around = genFlagHook(r, who+".around")
	case 7:
		e.Param, e.Ctx = genParamHook(r, who+".param"), genFlagHook(r, who+".ctx")
	case 8:
		e.Ctx, e.Around = genFlagHook(r, who+".ctx"), genFlagHook(r, who+".around")
	default:
		e.Param, e.Ctx, e.Around = genParamHook(r, who+".param"), genFlagHook(r, who+".ctx"), genFlagHook(r, who+".around")
	}
	return e
}

func cfgTags(exts []extSpec) []string {
	np, nc, na, ni := 0, 0, 0, 0
	for _, e := range exts {
		if e.Type == "introspection" {
			ni++
			nc++
			continue
		}
		if e.Param != nil {
			np++
		}
		if e.Ctx != nil {
			nc++
		}
		if e.Around != nil {
			na++
		}
	}
	cnt := func(n int) string {
		if n >= 2 {
			return "2+"
		}
		return fmt.Sprint(n)
	}
	tags := []string{"cfg-param-mutators:" + cnt(np), "cfg-context-mutators:" + cnt(nc), "cfg-operation-middleware:" + cnt(na)}
	if ni > 0 {
		// where the real extension stands among the context mutators
		first, last := -1, -1
		k := 0
		for _, e := range exts {
			if e.Type == "introspection" || e.Ctx != nil {
				if e.Type == "introspection" {
					if first < 0 {
						first = k
					}
					last = k
				}
				k++
			}
		}
		switch {
		case nc == ni:
			tags = append(tags, "cfg-introspection-ext:only-context-mutator")
		case last < nc-1 && first > 0:
			tags = append(tags, "cfg-introspection-ext:between-mutators")
		case last < nc-1:
			tags = append(tags, "cfg-introspection-ext:before-a-mutator")
		default:
			tags = append(tags, "cfg-introspection-ext:after-the-mutators")
		}
	} else {
		tags = append(tags, "cfg-introspection-ext:absent")
	}
	return tags
}

func genGateCfg(root *rng.R, count int, fed bool, corpusDir string) {
	emit := func(id, sent, query, op string, vars map[string]any, role *string, exts []extSpec, tags []string, seed uint64) {
		c := J{"id": id, "query": sent, "realQuery": query, "plan": J{"seed": seed, "rates": J{"err": 100, "nil": 100, "maxLen": 2}},
			"exts": exts, "tags": append(append([]string{}, tags...), cfgTags(exts)...)}
		if exts == nil {
			c["exts"] = []extSpec{}
		}
		if op != "" {
			c["operationName"] = op
		}
		if len(vars) > 0 {
			c["variables"] = vars
		}
		if role != nil {
			c["extensions"] = J{"role": *role}
			c["role"] = *role
		} else {
			c["role"] = ""
		}
		enc.Encode(c)
	}
	gatedRoot := "__schema { queryType { name } }"
	if fed {
		gatedRoot = "_service { sdl }"
	}
	anonQ := []string{
		`{ __schema { queryType { name } } }`,
		`{ i x: __type(name: "Query") { name } ...F } fragment F on Query { ... @include(if: true) { s: ` + gatedRoot + ` } }`,
	}
	twoOps := `query OpA { a: ` + gatedRoot + ` i } query OpB { ...G } fragment G on Query { __type(name: "Query") { kind } b: __schema { types { name } } }`

	// ---- directed: every registration order of every corpus configuration
	if corpusDir != "" {
		ents, _ := os.ReadDir(corpusDir)
		var names []string
		for _, e := range ents {
			if strings.HasSuffix(e.Name(), ".json") {
				names = append(names, e.Name())
			}
		}
		sort.Strings(names)
		for _, n := range names {
			b, err := os.ReadFile(corpusDir + "/" + n)
			var cf cfgFile
			if err == nil {
				err = json.Unmarshal(b, &cf)
			}
			if err != nil || len(cf.Exts) > 4 {
				fmt.Fprintf(os.Stderr, "corpus configuration %s: %v (at most 4 extensions)\n", n, err)
				os.Exit(2)
			}
			if len(cf.Roles) == 0 {
				cf.Roles = []string{""}
			}
			if len(cf.Ops) == 0 {
				cf.Ops = []string{""}
			}
			seen := map[string]bool{}
			qi := 0
			for pi, p := range perms(len(cf.Exts)) {
				exts := []extSpec{}
				key := ""
				for _, i := range p {
					exts = append(exts, cf.Exts[i])
					key += cf.Exts[i].key() + ";"
				}
				if seen[key] {
					continue
				}
				seen[key] = true
				for _, role := range cf.Roles {
					for _, op := range cf.Ops {
						role := role
						rp := &role
						if role == "" && pi%2 == 1 {
							rp = nil // no `extensions` in the request at all
						}
						q := twoOps
						if op == "" {
							q = anonQ[qi%len(anonQ)]
							qi++
						}
						emit(fmt.Sprintf("cd/%s/p%d/%s/%s", strings.TrimSuffix(n, ".json"), pi, role, op), q, q, op, nil, rp, exts,
							[]string{"cfg-directed"}, uint64(pi))
					}
				}
			}
		}
	}

	// ---- generated
	for i := 0; i < count; i++ {
		r := root.Fork()
		n := r.Below(6)
		exts := []extSpec{}
		for k := 0; k < n; k++ {
			exts = append(exts, genExt(r, k))
		}
		query, op, vars, tags := genQuery(r, fed)
		var role *string
		if r.Below(5) != 0 {
			s := []string{"admin", "anon", "anon", ""}[r.Below(4)]
			role = &s
		}
		sent := query
		if r.Below(8) == 0 {
			// the query arrives through a parameter mutator (persisted-query style): the gate applies to what is executed
			sent = "{ __typename }"
			at := r.Below(len(exts) + 1)
			pq := extSpec{Type: "hooks", Param: &hookSpec{When: "always", Do: "setQuery", S: query}}
			exts = append(exts[:at:at], append([]extSpec{pq}, exts[at:]...)...)
			tags = append(tags, "cfg-query-set-by-parameter-mutator")
		}
		seed := r.Next() % 1000
		orders := [][]extSpec{exts}
		rev := make([]extSpec, len(exts))
		for k := range exts {
			rev[len(exts)-1-k] = exts[k]
		}
		orders = append(orders, rev)
		sh := append([]extSpec(nil), exts...)
		for k := len(sh) - 1; k > 0; k-- {
			j := r.Below(k + 1)
			sh[k], sh[j] = sh[j], sh[k]
		}
		orders = append(orders, sh)
		seen := map[string]bool{}
		for oi, o := range orders {
			key := ""
			for _, e := range o {
				key += e.key() + ";"
			}
			if seen[key] {
				continue
			}
			seen[key] = true
			emit(fmt.Sprintf("cg/%d/o%d", i, oi), sent, query, op, vars, role, o, append([]string{"cfg-generated"}, tags...), seed)
		}
	}
}
