package main

// The dimension "WHICH schema the server serves": `generated.Config{Schema: s}` replaces the compiled-in
// `parsedSchema` by `s` for validation, variable coercion and introspection. -mode overrides prints one JSON line
// per runtime schema to serve on a server generated from -files (the compiled-in sources):
//
//	identity        the compiled-in sources loaded a second time (equal content, another *ast.Schema)
//	corpus/<file>   directed overrides kept in -corpus (corpus/C16/override/*.graphql)
//	derived/<i>     1-6 seeded edits of the compiled-in SDL, each kept only if gqlparser still loads the result:
//	                subset edits (drop a type / field / argument / enum value / input field / directive definition /
//	                interface implementation / union member / the mutation root), superset edits (add a type of any
//	                kind, a field, an argument, an enum value, an input field, a directive definition), changes in
//	                place (descriptions, defaults, own @deprecated with and without reason, nullability, field order,
//	                repeatable, locations), in four profiles: subset only, superset only, changes only, mixed
//	unrelated/<i>   a random schema of the mirror generator (shares nothing with the compiled-in one)
//
// {id, tags, relation, sdl, schema (for the Lean model, definitions shuffled), gateSafe}. `relation` is computed
// from the two loaded schemas (element paths), not from the edits. `gateSafe`: every type reachable from the
// compiled-in query root keeps its field signatures, so the ordinary fields of the gate queries execute alike.

import (
	"bytes"
	"fmt"
	"os"
	"sort"
	"strings"

	"github.com/vektah/gqlparser/v2"
	"github.com/vektah/gqlparser/v2/ast"
	"github.com/vektah/gqlparser/v2/formatter"
	"github.com/vektah/gqlparser/v2/parser"

	"verifharness/internal/rng"
)

type ovLine struct {
	ID       string   `json:"id"`
	Tags     []string `json:"tags"`
	Relation string   `json:"relation"`
	SDL      string   `json:"sdl"`
	Schema   J        `json:"schema,omitempty"`
	GateSafe bool     `json:"gateSafe"`
	Reject   string   `json:"reject,omitempty"`
}

// ------------------------------------------------------------------------------------ relation / gate safety

func elemPaths(s *ast.Schema) map[string]bool {
	out := map[string]bool{}
	for n, d := range s.Types {
		if strings.HasPrefix(n, "__") || d.BuiltIn {
			continue
		}
		out[n] = true
		for _, f := range d.Fields {
			if strings.HasPrefix(f.Name, "__") {
				continue
			}
			out[n+"."+f.Name] = true
			for _, a := range f.Arguments {
				out[n+"."+f.Name+"("+a.Name+")"] = true
			}
		}
		for _, v := range d.EnumValues {
			out[n+"."+v.Name] = true
		}
		for _, i := range d.Interfaces {
			out[n+" implements "+i] = true
		}
		for _, u := range d.Types {
			out[n+" | "+u] = true
		}
	}
	for n, d := range s.Directives {
		if d.Position == nil || d.Position.Src == nil || d.Position.Src.BuiltIn {
			continue
		}
		out["@"+n] = true
		for _, a := range d.Arguments {
			out["@"+n+"("+a.Name+")"] = true
		}
	}
	if s.Mutation != nil {
		out["schema.mutation"] = true
	}
	if s.Subscription != nil {
		out["schema.subscription"] = true
	}
	return out
}

func relation(compiled, ov *ast.Schema) string {
	a, b := elemPaths(compiled), elemPaths(ov)
	onlyA, onlyB, both := 0, 0, 0
	for k := range a {
		if b[k] {
			both++
		} else {
			onlyA++
		}
	}
	for k := range b {
		if !a[k] {
			onlyB++
		}
	}
	switch {
	case both == 0:
		return "unrelated"
	case onlyA == 0 && onlyB == 0:
		return "same-elements"
	case onlyB == 0:
		return "subset"
	case onlyA == 0:
		return "superset"
	}
	return "mixed"
}

func sig(f *ast.FieldDefinition) string {
	var as []string
	for _, a := range f.Arguments {
		as = append(as, a.Name+":"+a.Type.String())
	}
	sort.Strings(as)
	return f.Type.String() + "(" + strings.Join(as, ",") + ")"
}

func gateSafe(compiled, ov *ast.Schema) bool {
	if compiled.Query == nil || ov.Query == nil || compiled.Query.Name != ov.Query.Name {
		return false
	}
	seen := map[string]bool{}
	var visit func(n string) bool
	visit = func(n string) bool {
		if seen[n] {
			return true
		}
		seen[n] = true
		d := compiled.Types[n]
		if d == nil || d.BuiltIn {
			return true
		}
		o := ov.Types[n]
		if o == nil || o.Kind != d.Kind {
			return false
		}
		if strings.Join(d.Interfaces, ",") != strings.Join(o.Interfaces, ",") || strings.Join(d.Types, ",") != strings.Join(o.Types, ",") {
			return false
		}
		for _, p := range compiled.PossibleTypes[n] {
			if !visit(p.Name) {
				return false
			}
		}
		for _, f := range d.Fields {
			if strings.HasPrefix(f.Name, "__") {
				continue
			}
			of := o.Fields.ForName(f.Name)
			if of == nil || sig(of) != sig(f) {
				return false
			}
			if !visit(f.Type.Name()) {
				return false
			}
			for _, a := range f.Arguments {
				if !visit(a.Type.Name()) {
					return false
				}
			}
		}
		return true
	}
	return visit(compiled.Query.Name)
}

// ------------------------------------------------------------------------------------------------- edits

type ovEdit struct {
	r   *rng.R
	doc *ast.SchemaDocument
	n   int // counter for fresh names
}

func (e *ovEdit) fresh(p string) string { e.n++; return fmt.Sprintf("%s%d", p, e.r.Below(900)+100) }

func (e *ovEdit) roots() map[string]bool {
	out := map[string]bool{"Query": true, "Mutation": true, "Subscription": true}
	for _, sd := range e.doc.Schema {
		out = map[string]bool{}
		for _, ot := range sd.OperationTypes {
			out[ot.Type] = true
		}
	}
	return out
}

func (e *ovEdit) defs(kinds ...ast.DefinitionKind) []*ast.Definition {
	var out []*ast.Definition
	for _, d := range e.doc.Definitions {
		for _, k := range kinds {
			if d.Kind == k {
				out = append(out, d)
			}
		}
	}
	return out
}

type ovField struct {
	d *ast.Definition
	f *ast.FieldDefinition
}

func (e *ovEdit) fields(kinds ...ast.DefinitionKind) []ovField {
	var out []ovField
	for _, d := range e.defs(kinds...) {
		for _, f := range d.Fields {
			out = append(out, ovField{d, f})
		}
	}
	return out
}

func dep(r *rng.R) *ast.Directive {
	d := &ast.Directive{Name: "deprecated"}
	if r.Below(3) != 0 {
		d.Arguments = ast.ArgumentList{{Name: "reason", Value: &ast.Value{Kind: ast.StringValue, Raw: fmt.Sprintf("override says %d", r.Below(100))}}}
	}
	return d
}

func withoutDirective(l ast.DirectiveList, name string) ast.DirectiveList {
	var out ast.DirectiveList
	for _, d := range l {
		if d.Name != name {
			out = append(out, d)
		}
	}
	return out
}

func named(n string, nonNull bool) *ast.Type { return &ast.Type{NamedType: n, NonNull: nonNull} }

var ovDescs = []string{"", "override description", "an \"override\" with \\ backslash", "line one\nline two of the override", "é 日本"}

// the edits; each returns a tag, or "" when it does not apply to this document
var ovSubset = []func(e *ovEdit) string{
	func(e *ovEdit) string { // drop a type and what mentions it
		roots := e.roots()
		var cands []*ast.Definition
		for _, d := range e.doc.Definitions {
			if !roots[d.Name] {
				cands = append(cands, d)
			}
		}
		if len(cands) == 0 {
			return ""
		}
		victim := cands[e.r.Below(len(cands))]
		var keep ast.DefinitionList
		for _, d := range e.doc.Definitions {
			if d == victim {
				continue
			}
			var fs ast.FieldList
			for _, f := range d.Fields {
				if f.Type.Name() == victim.Name {
					continue
				}
				var as ast.ArgumentDefinitionList
				for _, a := range f.Arguments {
					if a.Type.Name() != victim.Name {
						as = append(as, a)
					}
				}
				f.Arguments = as
				fs = append(fs, f)
			}
			d.Fields = fs
			var is, us []string
			for _, i := range d.Interfaces {
				if i != victim.Name {
					is = append(is, i)
				}
			}
			for _, u := range d.Types {
				if u != victim.Name {
					us = append(us, u)
				}
			}
			d.Interfaces, d.Types = is, us
			keep = append(keep, d)
		}
		e.doc.Definitions = keep
		for _, dd := range e.doc.Directives {
			var as ast.ArgumentDefinitionList
			for _, a := range dd.Arguments {
				if a.Type.Name() != victim.Name {
					as = append(as, a)
				}
			}
			dd.Arguments = as
		}
		return "drop-type:" + string(victim.Kind)
	},
	func(e *ovEdit) string { // drop a field / input field
		fs := e.fields(ast.Object, ast.Interface, ast.InputObject)
		if len(fs) == 0 {
			return ""
		}
		x := fs[e.r.Below(len(fs))]
		if len(x.d.Fields) < 2 {
			return ""
		}
		var keep ast.FieldList
		for _, f := range x.d.Fields {
			if f != x.f {
				keep = append(keep, f)
			}
		}
		x.d.Fields = keep
		if x.d.Kind == ast.InputObject {
			return "drop-input-field"
		}
		return "drop-field"
	},
	func(e *ovEdit) string { // drop an argument
		var cands []ovField
		for _, x := range e.fields(ast.Object, ast.Interface) {
			if len(x.f.Arguments) > 0 {
				cands = append(cands, x)
			}
		}
		if len(cands) == 0 {
			return ""
		}
		x := cands[e.r.Below(len(cands))]
		i := e.r.Below(len(x.f.Arguments))
		x.f.Arguments = append(append(ast.ArgumentDefinitionList{}, x.f.Arguments[:i]...), x.f.Arguments[i+1:]...)
		return "drop-argument"
	},
	func(e *ovEdit) string { // drop an enum value
		var cands []*ast.Definition
		for _, d := range e.defs(ast.Enum) {
			if len(d.EnumValues) > 1 {
				cands = append(cands, d)
			}
		}
		if len(cands) == 0 {
			return ""
		}
		d := cands[e.r.Below(len(cands))]
		i := e.r.Below(len(d.EnumValues))
		d.EnumValues = append(append(ast.EnumValueList{}, d.EnumValues[:i]...), d.EnumValues[i+1:]...)
		return "drop-enum-value"
	},
	func(e *ovEdit) string { // drop a directive definition and its applications
		if len(e.doc.Directives) == 0 {
			return ""
		}
		i := e.r.Below(len(e.doc.Directives))
		name := e.doc.Directives[i].Name
		e.doc.Directives = append(append(ast.DirectiveDefinitionList{}, e.doc.Directives[:i]...), e.doc.Directives[i+1:]...)
		for _, d := range e.doc.Definitions {
			d.Directives = withoutDirective(d.Directives, name)
			for _, f := range d.Fields {
				f.Directives = withoutDirective(f.Directives, name)
				for _, a := range f.Arguments {
					a.Directives = withoutDirective(a.Directives, name)
				}
			}
			for _, v := range d.EnumValues {
				v.Directives = withoutDirective(v.Directives, name)
			}
		}
		return "drop-directive"
	},
	func(e *ovEdit) string { // drop the mutation root
		for _, sd := range e.doc.Schema {
			for i, ot := range sd.OperationTypes {
				if ot.Operation == ast.Mutation {
					name := ot.Type
					sd.OperationTypes = append(append(ast.OperationTypeDefinitionList{}, sd.OperationTypes[:i]...), sd.OperationTypes[i+1:]...)
					var keep ast.DefinitionList
					for _, d := range e.doc.Definitions {
						if d.Name != name {
							keep = append(keep, d)
						}
					}
					e.doc.Definitions = keep
					return "drop-mutation-root"
				}
			}
		}
		return ""
	},
	func(e *ovEdit) string { // drop an interface implementation / a union member
		var cands []*ast.Definition
		for _, d := range e.doc.Definitions {
			if len(d.Interfaces) > 0 || len(d.Types) > 1 {
				cands = append(cands, d)
			}
		}
		if len(cands) == 0 {
			return ""
		}
		d := cands[e.r.Below(len(cands))]
		if len(d.Types) > 1 {
			i := e.r.Below(len(d.Types))
			d.Types = append(append([]string{}, d.Types[:i]...), d.Types[i+1:]...)
			return "drop-union-member"
		}
		i := e.r.Below(len(d.Interfaces))
		d.Interfaces = append(append([]string{}, d.Interfaces[:i]...), d.Interfaces[i+1:]...)
		return "drop-implements"
	},
}

var ovSuperset = []func(e *ovEdit) string{
	func(e *ovEdit) string { // add a type of some kind
		name := e.fresh("Extra")
		desc := ovDescs[e.r.Below(len(ovDescs))]
		switch e.r.Below(6) {
		case 0:
			d := &ast.Definition{Kind: ast.Object, Name: name, Description: desc, Fields: ast.FieldList{
				{Name: "id", Type: named("ID", true)},
				{Name: "note", Type: named("String", false), Directives: ast.DirectiveList{dep(e.r)},
					Arguments: ast.ArgumentDefinitionList{{Name: "max", Type: named("Int", false), DefaultValue: &ast.Value{Kind: ast.IntValue, Raw: "7"}, Directives: ast.DirectiveList{dep(e.r)}}}},
			}}
			e.doc.Definitions = append(e.doc.Definitions, d)
			return "add-type:OBJECT"
		case 1:
			d := &ast.Definition{Kind: ast.Enum, Name: name, Description: desc, EnumValues: ast.EnumValueList{
				{Name: "ONE"}, {Name: "TWO", Description: "second", Directives: ast.DirectiveList{dep(e.r)}}}}
			e.doc.Definitions = append(e.doc.Definitions, d)
			return "add-type:ENUM"
		case 2:
			d := &ast.Definition{Kind: ast.InputObject, Name: name, Description: desc, Fields: ast.FieldList{
				{Name: "a", Type: named("Int", false), DefaultValue: &ast.Value{Kind: ast.IntValue, Raw: "-3"}},
				{Name: "b", Type: &ast.Type{Elem: named("String", true)}, Directives: ast.DirectiveList{dep(e.r)}},
				{Name: "self", Type: named(name, false)},
			}}
			e.doc.Definitions = append(e.doc.Definitions, d)
			return "add-type:INPUT_OBJECT"
		case 3:
			i := &ast.Definition{Kind: ast.Interface, Name: name, Description: desc, Fields: ast.FieldList{{Name: "key", Type: named("String", true)}}}
			o := &ast.Definition{Kind: ast.Object, Name: name + "Impl", Interfaces: []string{name}, Fields: ast.FieldList{
				{Name: "key", Type: named("String", true)}, {Name: "more", Type: &ast.Type{Elem: named(name, true), NonNull: true}}}}
			e.doc.Definitions = append(e.doc.Definitions, i, o)
			return "add-type:INTERFACE"
		case 4:
			d := &ast.Definition{Kind: ast.Scalar, Name: name, Description: desc, Directives: ast.DirectiveList{{Name: "specifiedBy",
				Arguments: ast.ArgumentList{{Name: "url", Value: &ast.Value{Kind: ast.StringValue, Raw: "https://example.org/" + name}}}}}}
			e.doc.Definitions = append(e.doc.Definitions, d)
			return "add-type:SCALAR"
		}
		objs := e.defs(ast.Object)
		roots := e.roots()
		var members []string
		for _, o := range objs {
			if !roots[o.Name] && e.r.Below(2) == 0 {
				members = append(members, o.Name)
			}
		}
		if len(members) == 0 {
			return ""
		}
		e.doc.Definitions = append(e.doc.Definitions, &ast.Definition{Kind: ast.Union, Name: name, Description: desc, Types: members})
		return "add-type:UNION"
	},
	func(e *ovEdit) string { // add a field / input field
		ds := e.defs(ast.Object, ast.InputObject)
		if len(ds) == 0 {
			return ""
		}
		d := ds[e.r.Below(len(ds))]
		f := &ast.FieldDefinition{Name: e.fresh("extra"), Type: named("Int", false), Description: ovDescs[e.r.Below(len(ovDescs))]}
		if e.r.Below(2) == 0 {
			f.Directives = ast.DirectiveList{dep(e.r)}
		}
		if d.Kind == ast.InputObject {
			f.DefaultValue = &ast.Value{Kind: ast.IntValue, Raw: "11"}
			d.Fields = append(d.Fields, f)
			return "add-input-field"
		}
		f.Arguments = ast.ArgumentDefinitionList{{Name: "n", Type: named("Int", false), DefaultValue: &ast.Value{Kind: ast.IntValue, Raw: "5"}}}
		pos := e.r.Below(len(d.Fields) + 1)
		d.Fields = append(append(append(ast.FieldList{}, d.Fields[:pos]...), f), d.Fields[pos:]...)
		return "add-field"
	},
	func(e *ovEdit) string { // add an argument
		fs := e.fields(ast.Object)
		if len(fs) == 0 {
			return ""
		}
		x := fs[e.r.Below(len(fs))]
		a := &ast.ArgumentDefinition{Name: e.fresh("xarg"), Type: named("String", false), DefaultValue: &ast.Value{Kind: ast.StringValue, Raw: "override"}}
		if e.r.Below(2) == 0 {
			a.Directives = ast.DirectiveList{dep(e.r)}
		}
		x.f.Arguments = append(x.f.Arguments, a)
		return "add-argument"
	},
	func(e *ovEdit) string { // add an enum value
		ds := e.defs(ast.Enum)
		if len(ds) == 0 {
			return ""
		}
		d := ds[e.r.Below(len(ds))]
		v := &ast.EnumValueDefinition{Name: strings.ToUpper(e.fresh("extra"))}
		if e.r.Below(2) == 0 {
			v.Directives = ast.DirectiveList{dep(e.r)}
		}
		d.EnumValues = append(d.EnumValues, v)
		return "add-enum-value"
	},
	func(e *ovEdit) string { // add a directive definition
		e.doc.Directives = append(e.doc.Directives, &ast.DirectiveDefinition{Name: e.fresh("extra"), Description: ovDescs[e.r.Below(len(ovDescs))],
			Arguments:    ast.ArgumentDefinitionList{{Name: "a", Type: named("Int", false), DefaultValue: &ast.Value{Kind: ast.IntValue, Raw: "1"}, Directives: ast.DirectiveList{dep(e.r)}}},
			Locations:    []ast.DirectiveLocation{ast.LocationFieldDefinition, ast.LocationObject},
			IsRepeatable: e.r.Bool(), Position: &ast.Position{Src: &ast.Source{Name: "o.graphql"}}})
		return "add-directive"
	},
}

var ovChange = []func(e *ovEdit) string{
	func(e *ovEdit) string { // a description
		nd := ovDescs[e.r.Below(len(ovDescs))]
		switch e.r.Below(5) {
		case 0:
			if len(e.doc.Definitions) > 0 {
				d := e.doc.Definitions[e.r.Below(len(e.doc.Definitions))]
				if d.Description != nd {
					d.Description = nd
					return "change-description:type"
				}
			}
		case 1:
			fs := e.fields(ast.Object, ast.Interface, ast.InputObject)
			if len(fs) > 0 {
				x := fs[e.r.Below(len(fs))]
				if x.f.Description != nd {
					x.f.Description = nd
					return "change-description:field"
				}
			}
		case 2:
			for _, x := range e.fields(ast.Object, ast.Interface) {
				if len(x.f.Arguments) > 0 && e.r.Below(3) == 0 {
					a := x.f.Arguments[e.r.Below(len(x.f.Arguments))]
					if a.Description != nd {
						a.Description = nd
						return "change-description:argument"
					}
				}
			}
		case 3:
			for _, d := range e.defs(ast.Enum) {
				v := d.EnumValues[e.r.Below(len(d.EnumValues))]
				if v.Description != nd {
					v.Description = nd
					return "change-description:enum-value"
				}
			}
		case 4:
			for _, sd := range e.doc.Schema {
				if sd.Description != nd {
					sd.Description = nd
					return "change-description:schema"
				}
			}
			if len(e.doc.Directives) > 0 {
				d := e.doc.Directives[e.r.Below(len(e.doc.Directives))]
				if d.Description != nd {
					d.Description = nd
					return "change-description:directive"
				}
			}
		}
		return ""
	},
	func(e *ovEdit) string { // a default value
		type slot struct {
			t *ast.Type
			v **ast.Value
		}
		var slots []slot
		for _, x := range e.fields(ast.Object, ast.Interface) {
			for _, a := range x.f.Arguments {
				slots = append(slots, slot{a.Type, &a.DefaultValue})
			}
		}
		for _, x := range e.fields(ast.InputObject) {
			slots = append(slots, slot{x.f.Type, &x.f.DefaultValue})
		}
		for _, d := range e.doc.Directives {
			for _, a := range d.Arguments {
				slots = append(slots, slot{a.Type, &a.DefaultValue})
			}
		}
		if len(slots) == 0 {
			return ""
		}
		s := slots[e.r.Below(len(slots))]
		old := *s.v
		if old == nil {
			if s.t.Elem != nil || s.t.NonNull {
				return ""
			}
			switch s.t.NamedType {
			case "Int":
				*s.v = &ast.Value{Kind: ast.IntValue, Raw: "99"}
			case "String", "ID":
				*s.v = &ast.Value{Kind: ast.StringValue, Raw: "new default"}
			case "Boolean":
				*s.v = &ast.Value{Kind: ast.BooleanValue, Raw: "true"}
			default:
				*s.v = &ast.Value{Kind: ast.NullValue, Raw: "null"}
			}
			return "change-default:added"
		}
		switch old.Kind {
		case ast.IntValue:
			*s.v = &ast.Value{Kind: ast.IntValue, Raw: old.Raw + "1"}
		case ast.FloatValue:
			*s.v = &ast.Value{Kind: ast.FloatValue, Raw: "2.25"}
		case ast.StringValue:
			*s.v = &ast.Value{Kind: ast.StringValue, Raw: old.Raw + " (override)"}
		case ast.BooleanValue:
			*s.v = &ast.Value{Kind: ast.BooleanValue, Raw: map[string]string{"true": "false", "false": "true"}[old.Raw]}
		case ast.EnumValue:
			for _, d := range e.defs(ast.Enum) {
				if d.Name == s.t.Name() {
					for _, v := range d.EnumValues {
						if v.Name != old.Raw {
							*s.v = &ast.Value{Kind: ast.EnumValue, Raw: v.Name}
							return "change-default:enum"
						}
					}
				}
			}
			return ""
		default:
			if s.t.NonNull {
				return ""
			}
			*s.v = nil
			return "change-default:removed"
		}
		return "change-default:value"
	},
	func(e *ovEdit) string { // an element's own @deprecated
		type slot struct {
			l    *ast.DirectiveList
			what string
		}
		var slots []slot
		for _, x := range e.fields(ast.Object, ast.Interface) {
			slots = append(slots, slot{&x.f.Directives, "field"})
			for _, a := range x.f.Arguments {
				if !a.Type.NonNull || a.DefaultValue != nil {
					slots = append(slots, slot{&a.Directives, "argument"})
				}
			}
		}
		for _, x := range e.fields(ast.InputObject) {
			if !x.f.Type.NonNull || x.f.DefaultValue != nil {
				slots = append(slots, slot{&x.f.Directives, "input-field"})
			}
		}
		for _, d := range e.defs(ast.Enum) {
			for _, v := range d.EnumValues {
				slots = append(slots, slot{&v.Directives, "enum-value"})
			}
		}
		for _, d := range e.doc.Directives {
			for _, a := range d.Arguments {
				if !a.Type.NonNull || a.DefaultValue != nil {
					slots = append(slots, slot{&a.Directives, "directive-argument"})
				}
			}
		}
		if len(slots) == 0 {
			return ""
		}
		s := slots[e.r.Below(len(slots))]
		if s.l.ForName("deprecated") != nil {
			*s.l = withoutDirective(*s.l, "deprecated")
			if e.r.Bool() {
				*s.l = append(*s.l, &ast.Directive{Name: "deprecated", Arguments: ast.ArgumentList{{Name: "reason", Value: &ast.Value{Kind: ast.StringValue, Raw: "another reason"}}}})
				return "change-deprecation:reason:" + s.what
			}
			return "change-deprecation:removed:" + s.what
		}
		*s.l = append(*s.l, dep(e.r))
		return "change-deprecation:added:" + s.what
	},
	func(e *ovEdit) string { // nullability of an output field
		fs := e.fields(ast.Object)
		if len(fs) == 0 {
			return ""
		}
		x := fs[e.r.Below(len(fs))]
		t := *x.f.Type
		t.NonNull = !t.NonNull
		x.f.Type = &t
		return "change-nullability"
	},
	func(e *ovEdit) string { // field order
		var cands []*ast.Definition
		for _, d := range e.defs(ast.Object, ast.Interface, ast.InputObject) {
			if len(d.Fields) > 1 {
				cands = append(cands, d)
			}
		}
		if len(cands) == 0 {
			return ""
		}
		d := cands[e.r.Below(len(cands))]
		fs := append(ast.FieldList{}, d.Fields...)
		i := e.r.Below(len(fs) - 1)
		fs[i], fs[i+1] = fs[i+1], fs[i]
		d.Fields = fs
		return "change-field-order"
	},
	func(e *ovEdit) string { // a directive definition: repeatable, locations
		if len(e.doc.Directives) == 0 {
			return ""
		}
		d := e.doc.Directives[e.r.Below(len(e.doc.Directives))]
		if e.r.Bool() {
			d.IsRepeatable = !d.IsRepeatable
			return "change-repeatable"
		}
		for _, l := range d.Locations {
			if l == ast.LocationUnion {
				return ""
			}
		}
		d.Locations = append(d.Locations, ast.LocationUnion)
		return "change-locations"
	},
}

func ovFormat(doc *ast.SchemaDocument) string {
	var b bytes.Buffer
	formatter.NewFormatter(&b, formatter.WithIndent("  ")).FormatSchemaDocument(doc)
	return b.String()
}

// derive: up to `k` edits of `sdl`, each kept only when the result still loads
func derive(r *rng.R, sdl string, profile int, k int) (string, []string) {
	var tags []string
	cur := sdl
	for tries := 0; len(tags) < k && tries < 6*k; tries++ {
		doc, err := parser.ParseSchema(&ast.Source{Name: "o.graphql", Input: cur})
		if err != nil {
			break
		}
		var pool []func(e *ovEdit) string
		switch profile {
		case 0:
			pool = ovSubset
		case 1:
			pool = ovSuperset
		case 2:
			pool = ovChange
		default:
			pool = [][]func(e *ovEdit) string{ovSubset, ovSuperset, ovChange}[r.Below(3)]
		}
		e := &ovEdit{r: r, doc: doc}
		tag := pool[r.Below(len(pool))](e)
		if tag == "" {
			continue
		}
		next := ovFormat(doc)
		if _, err := load(next); err != nil {
			continue
		}
		cur = next
		tags = append(tags, tag)
	}
	return cur, tags
}

func emitOverride(id string, tags []string, sdl string, compiled *ast.Schema, r *rng.R) {
	s, err := load(sdl)
	if err != nil {
		enc.Encode(ovLine{ID: id, Tags: tags, SDL: sdl, Reject: err.Error()})
		return
	}
	sort.Strings(tags)
	enc.Encode(ovLine{ID: id, Tags: tags, Relation: relation(compiled, s), SDL: sdl, Schema: schemaJSON(s, r), GateSafe: gateSafe(compiled, s)})
}

func genOverrides(r *rng.R, files string, n int, corpus string) {
	var srcs []*ast.Source
	var text []string
	for _, f := range strings.Split(files, ",") {
		b, err := os.ReadFile(f)
		if err != nil {
			fmt.Fprintln(os.Stderr, err)
			os.Exit(1)
		}
		srcs = append(srcs, &ast.Source{Name: f, Input: string(b)})
		text = append(text, string(b))
	}
	compiled, err := gqlparser.LoadSchema(srcs...)
	if err != nil {
		fmt.Fprintln(os.Stderr, err)
		os.Exit(1)
	}
	sdl := strings.Join(text, "\n")
	emitOverride("identity", []string{"identity"}, sdl, compiled, r.Fork())
	if corpus != "" {
		ents, _ := os.ReadDir(corpus)
		for _, e := range ents {
			if !strings.HasSuffix(e.Name(), ".graphql") {
				continue
			}
			b, err := os.ReadFile(corpus + "/" + e.Name())
			if err != nil {
				continue
			}
			emitOverride("corpus/"+e.Name(), []string{"corpus"}, string(b), compiled, r.Fork())
		}
	}
	for i := 0; i < n; i++ {
		fr := r.Fork()
		if i%8 == 7 {
			g := &sgen{r: fr}
			emitOverride(fmt.Sprintf("unrelated/%d", i), []string{"unrelated"}, g.schema(), compiled, fr)
			continue
		}
		out, tags := derive(fr, sdl, i%4, 1+fr.Below(6))
		if len(tags) == 0 {
			continue
		}
		emitOverride(fmt.Sprintf("derived/%d", i), tags, out, compiled, fr)
	}
}
