// Command c16 is the implementation side of property C16.
//
//	-mode mirror   : directed + seeded random schemas (SDL), loaded by gqlparser; for each one prints a JSON
//	                 line {id, tags, sdl, schema, impl, oracle}: `schema` is the ast.Schema serialised for
//	                 the Lean model (independently of graphql/introspection), `impl` is what the REAL
//	                 introspection.WrapSchema / WrapTypeFromDef objects answer when walked with the standard
//	                 introspection query's shape, `oracle` the verdict of Go-side checks (every reported
//	                 default value re-parses to the declared value; __type(name) == the entry of `types`).
//	                 A malformed stream: invalid SDL (must be rejected by the loader) and loaded schemas
//	                 damaged afterwards (dangling type references: the nil dereferences of the Go code).
//	-mode sdl      : the same line for the schema in -files (a probe schema directory's *.graphql)
//	-mode overrides: runtime schemas (Config.Schema) to serve on a server generated from -files: the compiled-in
//	                 sources again, directed ones (-corpus), seeded subset / superset / changed / mixed edits of the
//	                 compiled-in SDL, unrelated random schemas (override.go)
//	-mode prelude  : the `__*` introspection types in the execution model's schema format
//	-mode gatecfg  : Case JSON lines whose `exts` register handler extensions around the gate (the real
//	                 extension.Introspection, parameter / context mutators, operation middleware; per-request
//	                 conditions) in every registration order of the configurations in -corpus (corpus/C16/gatecfg)
//	                 and in generated / reversed / shuffled order for seeded random ones (gatecfg.go)
//	-mode gate     : Case JSON lines for a generated server's runner (`-mode run`): queries that reach
//	                 __schema / __type / _service through aliases, fragments, inline fragments, @skip/@include
//	                 with variables, several operations; -fed adds `_service`
package main

import (
	"bufio"
	"encoding/json"
	"flag"
	"fmt"
	"os"
	"sort"
	"strconv"
	"strings"

	"github.com/99designs/gqlgen/graphql/introspection"
	"github.com/vektah/gqlparser/v2"
	"github.com/vektah/gqlparser/v2/ast"
	"github.com/vektah/gqlparser/v2/parser"

	"verifharness/internal/rng"
)

// ---------------------------------------------------------------------------------- schema -> Lean

type J = map[string]any

func tref(t *ast.Type) any {
	if t == nil {
		return nil
	}
	return J{"name": t.NamedType, "elem": tref(t.Elem), "nn": t.NonNull}
}

// renderValue prints a default value in GraphQL syntax as gqlparser's ast.Value.String() defines it; written
// independently of it so that the text the implementation reports is compared, not echoed.
func renderValue(v *ast.Value) string {
	switch v.Kind {
	case ast.Variable:
		return "$" + v.Raw
	case ast.IntValue, ast.FloatValue, ast.EnumValue, ast.BooleanValue, ast.NullValue:
		return v.Raw
	case ast.StringValue, ast.BlockValue:
		return strconv.Quote(v.Raw)
	case ast.ListValue:
		parts := make([]string, 0, len(v.Children))
		for _, c := range v.Children {
			parts = append(parts, renderValue(c.Value))
		}
		return "[" + strings.Join(parts, ",") + "]"
	case ast.ObjectValue:
		parts := make([]string, 0, len(v.Children))
		for _, c := range v.Children {
			parts = append(parts, c.Name+":"+renderValue(c.Value))
		}
		return "{" + strings.Join(parts, ",") + "}"
	}
	return "?"
}

func defText(v *ast.Value) any {
	if v == nil {
		return nil
	}
	return renderValue(v)
}

func depOf(ds ast.DirectiveList) any {
	for _, d := range ds {
		if d.Name == "deprecated" {
			for _, a := range d.Arguments {
				if a.Name == "reason" {
					return J{"reason": a.Value.Raw}
				}
			}
			return J{"reason": nil}
		}
	}
	return nil
}

func argDefs(as ast.ArgumentDefinitionList) []any {
	out := []any{}
	for _, a := range as {
		out = append(out, J{"name": a.Name, "description": a.Description, "type": tref(a.Type),
			"default": defText(a.DefaultValue), "dep": depOf(a.Directives)})
	}
	return out
}

func schemaJSON(s *ast.Schema, r *rng.R) J {
	names := make([]string, 0, len(s.Types))
	for k := range s.Types {
		names = append(names, k)
	}
	sort.Strings(names)
	if r != nil { // a Go map has no order: hand the definitions over in a seeded shuffle
		for i := len(names) - 1; i > 0; i-- {
			j := r.Below(i + 1)
			names[i], names[j] = names[j], names[i]
		}
	}
	types := []any{}
	for _, k := range names {
		d := s.Types[k]
		fields := []any{}
		for _, f := range d.Fields {
			fields = append(fields, J{"name": f.Name, "description": f.Description, "args": argDefs(f.Arguments),
				"type": tref(f.Type), "default": defText(f.DefaultValue), "dep": depOf(f.Directives)})
		}
		evs := []any{}
		for _, v := range d.EnumValues {
			evs = append(evs, J{"name": v.Name, "description": v.Description, "dep": depOf(v.Directives)})
		}
		poss := []any{}
		for _, p := range s.PossibleTypes[d.Name] {
			poss = append(poss, J{"name": p.Name, "kind": string(p.Kind)})
		}
		var spec any
		oneOf := false
		for _, dd := range d.Directives {
			if dd.Name == "specifiedBy" && spec == nil {
				for _, a := range dd.Arguments {
					if a.Name == "url" {
						spec = a.Value.Raw
					}
				}
			}
			if dd.Name == "oneOf" {
				oneOf = true
			}
		}
		ifs := []any{}
		for _, i := range d.Interfaces {
			ifs = append(ifs, i)
		}
		types = append(types, J{"name": d.Name, "kind": string(d.Kind), "description": d.Description, "fields": fields,
			"interfaces": ifs, "possible": poss, "enumValues": evs, "specifiedBy": spec, "oneOf": oneOf})
	}
	dnames := make([]string, 0, len(s.Directives))
	for k := range s.Directives {
		dnames = append(dnames, k)
	}
	sort.Strings(dnames)
	if r != nil {
		for i := len(dnames) - 1; i > 0; i-- {
			j := r.Below(i + 1)
			dnames[i], dnames[j] = dnames[j], dnames[i]
		}
	}
	dirs := []any{}
	for _, k := range dnames {
		d := s.Directives[k]
		locs := []any{}
		for _, l := range d.Locations {
			locs = append(locs, string(l))
		}
		dirs = append(dirs, J{"name": d.Name, "description": d.Description, "locations": locs,
			"args": argDefs(d.Arguments), "repeatable": d.IsRepeatable})
	}
	nameOf := func(d *ast.Definition) any {
		if d == nil {
			return nil
		}
		return d.Name
	}
	return J{"description": s.Description, "query": nameOf(s.Query), "mutation": nameOf(s.Mutation),
		"subscription": nameOf(s.Subscription), "types": types, "directives": dirs}
}

// ------------------------------------------------------------- walking the real introspection objects

func optStr(p *string) any {
	if p == nil {
		return nil
	}
	return *p
}

func walkRef(t *introspection.Type) (out any) {
	defer func() {
		if r := recover(); r != nil {
			out = "PANIC"
		}
	}()
	if t == nil {
		return nil
	}
	kind := t.Kind()
	return J{"kind": kind, "name": optStr(t.Name()), "ofType": walkRef(t.OfType())}
}

func walkInputValue(v *introspection.InputValue) any {
	return J{"name": v.Name, "description": optStr(v.Description()), "type": walkRef(v.Type),
		"defaultValue": optStr(v.DefaultValue), "isDeprecated": v.IsDeprecated(), "deprecationReason": optStr(v.DeprecationReason())}
}

func guard(f func() any) (out any) {
	defer func() {
		if r := recover(); r != nil {
			out = []any{"PANIC"}
		}
	}()
	return f()
}

func walkType(t *introspection.Type) any {
	if t == nil {
		return nil
	}
	fields := func(incl bool) []any {
		out := []any{}
		for _, f := range t.Fields(incl) {
			f := f
			args := []any{}
			for i := range f.Args {
				args = append(args, walkInputValue(&f.Args[i]))
			}
			out = append(out, J{"name": f.Name, "description": optStr(f.Description()), "args": args, "type": walkRef(f.Type),
				"isDeprecated": f.IsDeprecated(), "deprecationReason": optStr(f.DeprecationReason())})
		}
		return out
	}
	evs := func(incl bool) []any {
		out := []any{}
		for _, v := range t.EnumValues(incl) {
			v := v
			out = append(out, J{"name": v.Name, "description": optStr(v.Description()), "isDeprecated": v.IsDeprecated(),
				"deprecationReason": optStr(v.DeprecationReason())})
		}
		return out
	}
	names := func(l []any) []any {
		out := []any{}
		for _, x := range l {
			out = append(out, x.(J)["name"])
		}
		return out
	}
	return J{
		"kind": t.Kind(), "name": optStr(t.Name()), "description": optStr(t.Description()),
		"specifiedByURL": optStr(t.SpecifiedByURL()), "isOneOf": t.IsOneOf(),
		"fields": fields(true), "fieldsCurrent": names(fields(false)),
		"inputFields": guard(func() any {
			out := []any{}
			ifs := t.InputFields()
			for i := range ifs {
				out = append(out, walkInputValue(&ifs[i]))
			}
			return out
		}),
		"interfaces": guard(func() any {
			out := []any{}
			for _, x := range t.Interfaces() {
				x := x
				out = append(out, walkRef(&x))
			}
			return out
		}),
		"possibleTypes": guard(func() any {
			out := []any{}
			for _, x := range t.PossibleTypes() {
				x := x
				out = append(out, walkRef(&x))
			}
			return out
		}),
		"enumValues": evs(true), "enumValuesCurrent": names(evs(false)),
	}
}

func walkSchema(s *ast.Schema) J {
	w := introspection.WrapSchema(s)
	types := []any{}
	for _, t := range w.Types() {
		t := t
		types = append(types, walkType(&t))
	}
	dirs := []any{}
	for _, d := range w.Directives() {
		d := d
		locs := []any{}
		for _, l := range d.Locations {
			locs = append(locs, l)
		}
		args := []any{}
		for i := range d.Args {
			args = append(args, walkInputValue(&d.Args[i]))
		}
		dirs = append(dirs, J{"name": d.Name, "description": optStr(d.Description()), "locations": locs, "args": args,
			"isRepeatable": d.IsRepeatable})
	}
	root := func(t *introspection.Type) any {
		if t == nil {
			return nil
		}
		return J{"name": optStr(t.Name())}
	}
	return J{"description": optStr(w.Description()), "queryType": root(w.QueryType()), "mutationType": root(w.MutationType()),
		"subscriptionType": root(w.SubscriptionType()), "types": types, "directives": dirs}
}

// ------------------------------------------------------------------------------- Go-side oracles

func sameValue(a, b *ast.Value) bool {
	if a == nil || b == nil {
		return a == b
	}
	ka, kb := a.Kind, b.Kind
	if ka == ast.BlockValue {
		ka = ast.StringValue
	}
	if kb == ast.BlockValue {
		kb = ast.StringValue
	}
	if ka != kb || len(a.Children) != len(b.Children) {
		return false
	}
	if ka != ast.ListValue && ka != ast.ObjectValue && a.Raw != b.Raw {
		return false
	}
	for i := range a.Children {
		if a.Children[i].Name != b.Children[i].Name || !sameValue(a.Children[i].Value, b.Children[i].Value) {
			return false
		}
	}
	return true
}

// reparse: the reported default text, read back as a GraphQL value, is the declared default
func reparse(text *string, want *ast.Value) string {
	if (text == nil) != (want == nil) {
		return "default-presence"
	}
	if text == nil {
		return ""
	}
	doc, err := parser.ParseQuery(&ast.Source{Input: "{f(a:" + *text + ")}"})
	if err != nil {
		return "default-unparsable:" + *text
	}
	f, ok := doc.Operations[0].SelectionSet[0].(*ast.Field)
	if !ok || len(f.Arguments) != 1 || !sameValue(f.Arguments[0].Value, want) {
		return "default-differs:" + *text
	}
	return ""
}

func oracle(s *ast.Schema) (verdict string) {
	defer func() {
		if r := recover(); r != nil {
			verdict = "" // damaged schemas: compared with the model only
		}
	}()
	var bad []string
	add := func(where, v string) {
		if v != "" {
			bad = append(bad, where+":"+v)
		}
	}
	for name, d := range s.Types {
		t := introspection.WrapTypeFromDef(s, s.Types[name])
		fs := t.Fields(true)
		k := 0
		for _, f := range d.Fields {
			if d.Kind != ast.Object && d.Kind != ast.Interface {
				break
			}
			if strings.HasPrefix(f.Name, "__") {
				continue
			}
			if k >= len(fs) {
				add(name+"."+f.Name, "field-missing")
				break
			}
			for i, a := range f.Arguments {
				if i < len(fs[k].Args) {
					add(name+"."+f.Name+"("+a.Name+")", reparse(fs[k].Args[i].DefaultValue, a.DefaultValue))
				}
			}
			k++
		}
		ifs := t.InputFields()
		for i, f := range d.Fields {
			if d.Kind == ast.InputObject && i < len(ifs) {
				add(name+"."+f.Name, reparse(ifs[i].DefaultValue, f.DefaultValue))
			}
		}
		// __type(name:) answers what the entry of __schema.types answers
		a, _ := json.Marshal(walkType(t))
		for _, e := range introspection.WrapSchema(s).Types() {
			e := e
			if *e.Name() == name {
				b, _ := json.Marshal(walkType(&e))
				if string(a) != string(b) {
					add(name, "type-by-name-differs")
				}
			}
		}
	}
	for _, d := range introspection.WrapSchema(s).Directives() {
		def := s.Directives[d.Name]
		for i, a := range def.Arguments {
			if i < len(d.Args) {
				add("@"+d.Name+"("+a.Name+")", reparse(d.Args[i].DefaultValue, a.DefaultValue))
			}
		}
	}
	if introspection.WrapTypeFromDef(s, s.Types["NoSuchType__"]) != nil {
		add("__type", "unknown-name-not-null")
	}
	sort.Strings(bad)
	if len(bad) > 6 {
		bad = bad[:6]
	}
	return strings.Join(bad, " | ")
}

// ------------------------------------------------------------------------------- schema generator

type typ struct {
	name string
	list *typ
	nn   bool
}

func (t *typ) String() string {
	s := t.name
	if t.list != nil {
		s = "[" + t.list.String() + "]"
	}
	if t.nn {
		s += "!"
	}
	return s
}

type argSpec struct {
	name string
	t    *typ
	def  string // "" = none
}

type fieldSpec struct {
	name string
	t    *typ
	args []argSpec
}

type sgen struct {
	r       *rng.R
	b       strings.Builder
	tags    map[string]bool
	scalars []string
	enums   map[string][]string
	enumOrd []string
	inputs  []string
	inFld   map[string][]argSpec
	ifaces  []string
	ifFld   map[string][]fieldSpec // own + inherited
	ifPar   map[string][]string    // transitive parents
	objects []string
	unions  []string
	dirs    []string
}

var strPool = []string{`"plain"`, `""`, `"with \"quotes\""`, `"back\\slash"`, `"line\nbreak\ttab"`, `"é日本語"`, `"emoji 😀"`,
	`"éscape"`, `"""block "quoted" text"""`, `"sp ace, comma"`, `"{not: an object}"`, `"[1,2]"`, `"null"`, `"$var"`}

var descPool = []string{"", "", "", `"short"`, `"with \"quotes\" and \\ backslash"`, "\"\"\"\n  block\n    indented \"\"\\\"\"\" inside\n  \"\"\"",
	`"unicode é 日本 😀"`, `"line\nbreak"`, `" leading and trailing "`, `"""one line block"""`}

func (g *sgen) tag(s string) { g.tags[s] = true }

func (g *sgen) pick(l []string) string { return l[g.r.Below(len(l))] }

// us: one name in six begins with a single underscore (an ordinary name; only "__" is reserved)
func (g *sgen) us(name string) string {
	if g.r.Below(6) == 0 {
		g.tag("underscore-name")
		return "_" + name
	}
	return name
}

func (g *sgen) desc(indent string) {
	d := g.pick(descPool)
	if d != "" {
		g.tag("description")
		g.b.WriteString(indent + d + "\n")
	}
}

func (g *sgen) dep() string {
	switch g.r.Below(6) {
	case 0:
		g.tag("deprecated-no-reason")
		return " @deprecated"
	case 1:
		g.tag("deprecated-reason")
		return " @deprecated(reason: " + g.pick(strPool) + ")"
	}
	return ""
}

func (g *sgen) wrap(base string, maxDepth int) *typ {
	t := &typ{name: base, nn: g.r.Below(3) == 0}
	for d := 0; d < maxDepth && g.r.Below(3) == 0; d++ {
		t = &typ{list: t, nn: g.r.Below(3) == 0}
		g.tag("list-type")
	}
	return t
}

func (g *sgen) inputBase() string {
	pool := append([]string{"Int", "Float", "String", "Boolean", "ID"}, g.scalars...)
	pool = append(pool, g.enumOrd...)
	pool = append(pool, g.inputs...)
	return g.pick(pool)
}

func (g *sgen) outputBase() string {
	pool := append([]string{"Int", "Float", "String", "Boolean", "ID"}, g.scalars...)
	pool = append(pool, g.enumOrd...)
	pool = append(pool, g.ifaces...)
	pool = append(pool, g.objects...)
	pool = append(pool, g.unions...)
	return g.pick(pool)
}

// defaultFor renders a type-correct default value
func (g *sgen) defaultFor(t *typ, depth int) string {
	if !t.nn && g.r.Below(5) == 0 {
		g.tag("default-null")
		return "null"
	}
	if t.list != nil {
		g.tag("default-list")
		n := g.r.Below(3)
		if depth >= 3 {
			n = 0 // input objects may refer to each other through lists
		}
		parts := []string{}
		for i := 0; i < n; i++ {
			e := g.defaultFor(t.list, depth+1)
			if e == "null" && t.list.nn {
				e = g.defaultFor(&typ{name: t.list.name, list: t.list.list, nn: true}, depth+1)
			}
			parts = append(parts, e)
		}
		return "[" + strings.Join(parts, ", ") + "]"
	}
	switch t.name {
	case "Int":
		g.tag("default-int")
		return g.pick([]string{"0", "1", "-7", "2147483647", "-0", "42"})
	case "Float":
		g.tag("default-float")
		return g.pick([]string{"0.5", "-1.25", "1e10", "3", "6.02E23", "-0.0", "1.5e-3"})
	case "String":
		g.tag("default-string")
		return g.pick(strPool)
	case "Boolean":
		g.tag("default-bool")
		return g.pick([]string{"true", "false"})
	case "ID":
		g.tag("default-id")
		return g.pick([]string{`"id-1"`, "17", `""`})
	}
	if vs, ok := g.enums[t.name]; ok {
		g.tag("default-enum")
		return g.pick(vs)
	}
	if fs, ok := g.inFld[t.name]; ok {
		g.tag("default-object")
		parts := []string{}
		for _, f := range fs {
			need := f.t.nn && f.def == ""
			if need || (depth < 2 && g.r.Below(2) == 0) {
				if f.t.list == nil && f.t.name == t.name && depth >= 1 {
					if need {
						return "null"
					}
					continue
				}
				v := g.defaultFor(f.t, depth+1)
				if v == "null" && f.t.nn {
					continue
				}
				parts = append(parts, f.name+": "+v)
			}
		}
		return "{" + strings.Join(parts, ", ") + "}"
	}
	// custom scalar: any literal
	g.tag("default-custom-scalar")
	return g.pick([]string{"1", `"x"`, "true", "{a: 1, b: [2, 3]}", "[1, \"two\"]", "ENUMLIKE", "1.5"})
}

func (g *sgen) args(prefix string) []argSpec {
	n := g.r.Below(4)
	if g.r.Below(2) == 0 {
		n = 0
	}
	out := []argSpec{}
	for i := 0; i < n; i++ {
		a := argSpec{name: fmt.Sprintf("%sa%d", prefix, i), t: g.wrap(g.inputBase(), 2)}
		if g.r.Below(2) == 0 {
			a.def = g.defaultFor(a.t, 0)
		}
		out = append(out, a)
	}
	return out
}

// writeArgs prints an argument list; deprecations and descriptions are re-rolled on every copy (an
// implementing type may deprecate an argument the interface does not, and vice versa)
func (g *sgen) writeArgs(as []argSpec) {
	if len(as) == 0 {
		return
	}
	g.b.WriteString("(")
	for i, a := range as {
		if i > 0 {
			g.b.WriteString(", ")
		}
		if g.r.Below(5) == 0 {
			g.b.WriteString(g.pick([]string{`"arg doc" `, `"""arg block""" `}))
			g.tag("description")
		}
		g.b.WriteString(a.name + ": " + a.t.String())
		if a.def != "" {
			g.b.WriteString(" = " + a.def)
		}
		if !a.t.nn || a.def != "" {
			d := g.dep()
			if d != "" {
				g.tag("deprecated-argument")
			}
			g.b.WriteString(d)
		}
	}
	g.b.WriteString(")")
}

func (g *sgen) writeField(f fieldSpec, allowDep bool) {
	g.desc("  ")
	g.b.WriteString("  " + f.name)
	g.writeArgs(f.args)
	g.b.WriteString(": " + f.t.String())
	if allowDep {
		d := g.dep()
		if d != "" {
			g.tag("deprecated-field")
		}
		g.b.WriteString(d)
	}
	g.b.WriteString("\n")
}

func (g *sgen) closure(picked []string) []string {
	set := map[string]bool{}
	for _, p := range picked {
		set[p] = true
		for _, q := range g.ifPar[p] {
			set[q] = true
		}
	}
	out := []string{}
	for _, i := range g.ifaces {
		if set[i] {
			out = append(out, i)
		}
	}
	return out
}

func (g *sgen) implFields(parents []string) []fieldSpec {
	seen := map[string]bool{}
	out := []fieldSpec{}
	for _, p := range parents {
		for _, f := range g.ifFld[p] {
			if !seen[f.name] {
				seen[f.name] = true
				out = append(out, f)
			}
		}
	}
	return out
}

func (g *sgen) schema() string {
	g.tags = map[string]bool{}
	g.enums = map[string][]string{}
	g.inFld = map[string][]argSpec{}
	g.ifFld = map[string][]fieldSpec{}
	g.ifPar = map[string][]string{}
	r := g.r
	// names first, so that fields may refer forward
	for i, n := 0, r.Below(3); i < n; i++ {
		g.scalars = append(g.scalars, fmt.Sprintf("Sc%d", i))
	}
	for i, n := 0, 1+r.Below(2); i < n; i++ {
		name := fmt.Sprintf("En%d", i)
		g.enumOrd = append(g.enumOrd, name)
		for j, m := 0, 1+r.Below(4); j < m; j++ {
			g.enums[name] = append(g.enums[name], fmt.Sprintf("V%d_%d", i, j))
		}
	}
	nIn := r.Below(4)
	for i := 0; i < nIn; i++ {
		g.inputs = append(g.inputs, fmt.Sprintf("In%d", i))
	}
	for i, n := 0, r.Below(4); i < n; i++ {
		g.ifaces = append(g.ifaces, fmt.Sprintf("If%d", i))
	}
	for i, n := 0, 1+r.Below(4); i < n; i++ {
		g.objects = append(g.objects, fmt.Sprintf("Ob%d", i))
	}
	for i, n := 0, r.Below(3); i < n; i++ {
		g.unions = append(g.unions, fmt.Sprintf("Un%d", i))
	}
	qName, mName, sName := "Query", "", ""
	custom := r.Below(3) == 0
	if custom {
		qName = "RootQ"
		g.tag("custom-root-names")
	}
	if r.Below(2) == 0 {
		mName = "Mutation"
		if custom {
			mName = "RootM"
		}
	}
	if r.Below(3) == 0 {
		sName = "Subscription"
		if custom {
			sName = "RootS"
		}
		g.tag("subscription-root")
	}
	if custom || r.Below(3) == 0 {
		if r.Below(2) == 0 {
			g.b.WriteString(g.pick([]string{`"schema doc"`, `"""schema "block" doc"""`}) + "\n")
			g.tag("schema-description")
		}
		g.b.WriteString("schema {\n  query: " + qName + "\n")
		if mName != "" {
			g.b.WriteString("  mutation: " + mName + "\n")
		}
		if sName != "" {
			g.b.WriteString("  subscription: " + sName + "\n")
		}
		g.b.WriteString("}\n")
	}
	for _, s := range g.scalars {
		g.desc("")
		g.b.WriteString("scalar " + s)
		if r.Below(2) == 0 {
			g.b.WriteString(` @specifiedBy(url: "https://example.org/` + s + `")`)
			g.tag("specifiedBy")
		}
		g.b.WriteString("\n")
	}
	for _, e := range g.enumOrd {
		g.desc("")
		g.b.WriteString("enum " + e + " {\n")
		for _, v := range g.enums[e] {
			g.desc("  ")
			d := g.dep()
			if d != "" {
				g.tag("deprecated-enum-value")
			}
			g.b.WriteString("  " + v + d + "\n")
		}
		g.b.WriteString("}\n")
	}
	// input objects: field lists first (defaults of later fields may need them)
	for _, in := range g.inputs {
		oneOf := r.Below(5) == 0
		fs := []argSpec{}
		for j, m := 0, 1+r.Below(4); j < m; j++ {
			f := argSpec{name: fmt.Sprintf("f%d", j), t: g.wrap(g.inputBase(), 2)}
			if oneOf {
				f.t.nn = false
			}
			if f.t.list == nil && f.t.name == in {
				f.t.nn = false // no unbreakable cycles
			}
			for _, other := range g.inputs { // no non-null cycles at all: only nullable references to inputs
				if f.t.list == nil && f.t.name == other {
					f.t.nn = false
				}
			}
			fs = append(fs, f)
		}
		g.inFld[in] = fs
		if oneOf {
			g.inFld[in+"#oneOf"] = nil
		}
	}
	for _, in := range g.inputs {
		_, oneOf := g.inFld[in+"#oneOf"]
		fs := g.inFld[in]
		for j := range fs {
			if !oneOf && r.Below(2) == 0 {
				fs[j].def = g.defaultFor(fs[j].t, 1)
			}
		}
		g.desc("")
		g.b.WriteString("input " + in)
		if oneOf {
			g.b.WriteString(" @oneOf")
			g.tag("oneOf")
		}
		g.b.WriteString(" {\n")
		for _, f := range fs {
			g.desc("  ")
			g.b.WriteString("  " + f.name + ": " + f.t.String())
			if f.def != "" {
				g.b.WriteString(" = " + f.def)
			}
			if !f.t.nn || f.def != "" {
				d := g.dep()
				if d != "" {
					g.tag("deprecated-input-field")
				}
				g.b.WriteString(d)
			}
			g.b.WriteString("\n")
		}
		g.b.WriteString("}\n")
	}
	delete(g.inFld, "")
	// interfaces with a hierarchy
	for i, name := range g.ifaces {
		var parents []string
		for _, p := range g.ifaces[:i] {
			if r.Below(2) == 0 {
				parents = append(parents, p)
			}
		}
		parents = g.closure(parents)
		g.ifPar[name] = parents
		fs := g.implFields(parents)
		for j, m := 0, 1+r.Below(3); j < m; j++ {
			fs = append(fs, fieldSpec{name: fmt.Sprintf("i%df%d", i, j), t: g.wrap(g.outputBase(), 3), args: g.args(fmt.Sprintf("i%d", i))})
		}
		g.ifFld[name] = fs
		g.desc("")
		g.b.WriteString("interface " + name)
		if len(parents) > 0 {
			g.b.WriteString(" implements " + strings.Join(parents, " & "))
			g.tag("interface-implements-interface")
		}
		g.b.WriteString(" {\n")
		for _, f := range fs {
			g.writeField(f, true)
		}
		g.b.WriteString("}\n")
	}
	objFields := map[string]int{}
	for i, name := range g.objects {
		var parents []string
		for _, p := range g.ifaces {
			if r.Below(2) == 0 {
				parents = append(parents, p)
			}
		}
		parents = g.closure(parents)
		fs := g.implFields(parents)
		for j, m := 0, 1+r.Below(4); j < m; j++ {
			fs = append(fs, fieldSpec{name: g.us(fmt.Sprintf("o%df%d", i, j)), t: g.wrap(g.outputBase(), 3), args: g.args("")})
		}
		objFields[name] = len(fs)
		g.desc("")
		g.b.WriteString("type " + name)
		if len(parents) > 0 {
			g.b.WriteString(" implements " + strings.Join(parents, " & "))
			g.tag("object-implements")
		}
		g.b.WriteString(" {\n")
		for _, f := range fs {
			g.writeField(f, true)
		}
		g.b.WriteString("}\n")
	}
	for _, u := range g.unions {
		var ms []string
		for _, o := range g.objects {
			if r.Below(2) == 0 {
				ms = append(ms, o)
			}
		}
		if len(ms) == 0 {
			ms = []string{g.objects[0]}
		}
		g.desc("")
		g.b.WriteString("union " + u + " = " + strings.Join(ms, " | ") + "\n")
		g.tag("union")
	}
	roots := []string{qName}
	if mName != "" {
		roots = append(roots, mName)
	}
	if sName != "" {
		roots = append(roots, sName)
	}
	for ri, root := range roots {
		g.desc("")
		g.b.WriteString("type " + root + " {\n")
		for j, m := 0, 1+r.Below(4); j < m; j++ {
			g.writeField(fieldSpec{name: g.us(fmt.Sprintf("r%df%d", ri, j)), t: g.wrap(g.outputBase(), 3), args: g.args("")}, true)
		}
		g.b.WriteString("}\n")
	}
	locs := []string{"QUERY", "MUTATION", "SUBSCRIPTION", "FIELD", "FRAGMENT_DEFINITION", "FRAGMENT_SPREAD", "INLINE_FRAGMENT",
		"VARIABLE_DEFINITION", "SCHEMA", "SCALAR", "OBJECT", "FIELD_DEFINITION", "ARGUMENT_DEFINITION", "INTERFACE", "UNION", "ENUM",
		"ENUM_VALUE", "INPUT_OBJECT", "INPUT_FIELD_DEFINITION"}
	for i, n := 0, r.Below(4); i < n; i++ {
		name := fmt.Sprintf("dir%d", i)
		g.dirs = append(g.dirs, name)
		g.desc("")
		g.b.WriteString("directive @" + name)
		as := g.args("d")
		if len(as) > 0 {
			g.tag("directive-args")
		}
		before := g.tags["deprecated-argument"]
		g.tags["deprecated-argument"] = false
		g.writeArgs(as)
		if g.tags["deprecated-argument"] {
			g.tag("deprecated-directive-argument")
		}
		g.tags["deprecated-argument"] = before || g.tags["deprecated-argument"]
		if r.Below(2) == 0 {
			g.b.WriteString(" repeatable")
			g.tag("repeatable-directive")
		}
		var ls []string
		for _, l := range locs {
			if r.Below(5) == 0 {
				ls = append(ls, l)
			}
		}
		if len(ls) == 0 {
			ls = []string{g.pick(locs)}
		}
		// keep the source order random, it is part of the answer
		for k := len(ls) - 1; k > 0; k-- {
			j := r.Below(k + 1)
			ls[k], ls[j] = ls[j], ls[k]
		}
		g.b.WriteString(" on " + strings.Join(ls, " | ") + "\n")
	}
	if r.Below(3) == 0 {
		o := g.pick(g.objects)
		g.b.WriteString("extend type " + o + " {\n  ext" + o + ": Int" + g.dep() + "\n}\n")
		g.tag("extend-type")
	}
	if r.Below(4) == 0 {
		e := g.pick(g.enumOrd)
		g.b.WriteString("extend enum " + e + " {\n  EXT_" + e + g.dep() + "\n}\n")
		g.tag("extend-enum")
	}
	return g.b.String()
}

// directed probes: the shapes section 6 lists, each isolated
var directed = []struct{ id, sdl string }{
	{"arg-deprecated-field-not", `type Query { f(a: Int @deprecated(reason: "arg gone"), b: Int): Int }`},
	{"field-deprecated-arg-not", `type Query { f(a: Int): Int @deprecated(reason: "field gone") g: Int }`},
	{"arg-and-field-different-reasons", `type Query { f(a: Int @deprecated(reason: "A"), b: Int @deprecated): Int @deprecated(reason: "F") }`},
	{"interface-implements-interface", `interface Node { id: ID! } interface Res implements Node { id: ID! url: String } type Img implements Res & Node { id: ID! url: String } type Query { n: Node }`},
	{"interface-chain-3", `interface A { a: Int } interface B implements A { a: Int b: Int } interface C implements B & A { a: Int b: Int c: Int } type T implements C & B & A { a: Int b: Int c: Int } type Query { c: C }`},
	{"directive-arg-deprecated", `directive @d(old: Int @deprecated(reason: "dir arg gone"), cur: Int = 3 @deprecated, keep: String) repeatable on FIELD_DEFINITION | OBJECT type Query { f: Int }`},
	{"input-field-deprecated", `input I { a: Int @deprecated(reason: "x") b: Int = 1 @deprecated c: Int! } type Query { f(i: I): Int }`},
	{"enum-value-deprecated", `enum E { A B @deprecated C @deprecated(reason: "c") } type Query { e: E }`},
	{"defaults-every-kind", `enum E { A B } input P { x: Int = 1 y: [P!] z: E = B } type Query { f(i: Int = -3, fl: Float = 1.5e3, s: String = "a\"b\\c\nd", b: Boolean = true, n: Int = null, e: E = A, l: [[Int]] = [[1, 2], [], null], o: P = {x: 2, y: [{x: 3}], z: A}, id: ID = "x", blk: String = """block "q" text"""): Int }`},
	{"default-empty-and-lookalikes", `type Query { f(a: String = "", b: String = "null", c: [String] = ["[", "{a:1}"], d: String = "$v"): Int }`},
	{"descriptions", "\"\"\"schema doc\"\"\" schema { query: Query }\n\"\"\"\n  block\n    doc\n\"\"\"\ntype Query {\n  \"f \\\"doc\\\"\"\n  f(\"arg doc\" a: Int): Int\n}\n\"enum doc\" enum E { \"value doc\" A }\n\"dir doc\" directive @d on FIELD"},
	{"repeatable-and-locations", `directive @r repeatable on SCHEMA | QUERY | FIELD | VARIABLE_DEFINITION | INPUT_FIELD_DEFINITION directive @n on ENUM_VALUE type Query { f: Int }`},
	{"custom-roots", `schema { query: Q mutation: M subscription: S } type Q { a: Int } type M { b: Int } type S { c: Int }`},
	{"specifiedBy-oneOf", `scalar Date @specifiedBy(url: "https://tools.ietf.org/html/rfc3339") scalar Plain input O @oneOf { a: Int b: String } type Query { d(o: O): Date p: Plain }`},
	{"wrapping-depth", `type Query { f: [[[Int!]!]!]! g: [[Query]!] h(a: [[[String]!]]! = [[["x"]]]): Int! }`},
	{"union-and-object-possible", `type A { x: Int } type B { y: Int } union U = B | A type Query { u: U }`},
	{"deprecated-reason-null-and-block", `type Query { f: Int @deprecated(reason: null) g: Int @deprecated(reason: """block reason""") h(a: Int @deprecated(reason: null)): Int }`},
	// names beginning with ONE underscore are ordinary names (only "__" is reserved): every element class carries one
	{"underscore-names", `directive @_d(_a: Int) on FIELD_DEFINITION enum _E { _A _B } input _I { _x: Int _y: _E = _A } interface _N { _id: ID! _ : Int } type _T implements _N { _id: ID! _ : Int _f(_a: _I): _E @_d(_a: 1) x_: Int } union _U = _T type Query { _t: _T _n: _N _u: _U _e(_i: _I = {_x: 1}): _E _service_like: Int _entities_like(_r: [ID!]!): [_U]! }`},
	{"underscore-only-fields", `type _ { _: Int _ok_: Int } type Query { _: _ _1: Int _a_: Int }`},
	{"default-control-characters", `type Query { f(a: String = "bell\u0007 del\u007f nbsp  zwsp​"): Int }`},
}

var invalidSDL = []string{
	`type Query { f: Missing }`,
	`type Query { f: Int } type Query { g: Int }`,
	`interface I { a: Int } type T implements I { b: Int } type Query { t: T }`,
	`type Query { f(a: Int @deprecated @deprecated): Int }`,
	`type Query { __bad: Int }`,
	`type __Bad { f: Int } type Query { f: Int }`,
	`enum E { } type Query { f: Int }`,
	`type Query { f: Int`,
	`directive @d on NOWHERE type Query { f: Int }`,
	`scalar S @specifiedBy type Query { f: S }`,
	`type T @oneOf { a: Int } type Query { t: T }`,
	`type Query { f(a: Int! @deprecated): Int }`,
	`input I { a: Int! @deprecated } type Query { f(i: I): Int }`,
	`union U = Int type Query { u: U }`,
	``,
}

// ------------------------------------------------------------------------------------------- main

type outLine struct {
	ID     string   `json:"id"`
	Tags   []string `json:"tags"`
	SDL    string   `json:"sdl"`
	Damage string   `json:"damage,omitempty"`
	Schema J        `json:"schema,omitempty"`
	Impl   J        `json:"impl,omitempty"`
	Oracle string   `json:"oracle"`
	Reject string   `json:"reject,omitempty"`
}

var enc *json.Encoder

func emit(id string, tags []string, sdl string, s *ast.Schema, r *rng.R, damage string) {
	sort.Strings(tags)
	enc.Encode(outLine{ID: id, Tags: tags, SDL: sdl, Damage: damage, Schema: schemaJSON(s, r), Impl: walkSchema(s), Oracle: oracle(s)})
}

func load(sdl string) (*ast.Schema, error) {
	s, err := gqlparser.LoadSchema(&ast.Source{Name: "s.graphql", Input: sdl})
	if err != nil {
		return nil, err
	}
	return s, nil
}

// damage: break the loaded schema the ways a hand-built ast.Schema can be broken
func damage(s *ast.Schema, r *rng.R) string {
	var user []string
	for k, d := range s.Types {
		if !d.BuiltIn {
			user = append(user, k)
		}
	}
	sort.Strings(user)
	switch r.Below(4) {
	case 0:
		if len(user) > 1 {
			k := user[r.Below(len(user))]
			if s.Query != nil && k == s.Query.Name {
				return ""
			}
			delete(s.Types, k)
			delete(s.PossibleTypes, k)
			for n, l := range s.PossibleTypes {
				var keep []*ast.Definition
				for _, d := range l {
					if d.Name != k {
						keep = append(keep, d)
					}
				}
				s.PossibleTypes[n] = keep
			}
			return "delete-type:" + k
		}
	case 1:
		s.Query = nil
		return "nil-query"
	case 2:
		k := user[r.Below(len(user))]
		d := s.Types[k]
		if d.Kind == ast.Object || d.Kind == ast.Interface {
			d.Interfaces = append(d.Interfaces, "Ghost")
			return "ghost-interface:" + k
		}
	case 3:
		k := user[r.Below(len(user))]
		d := s.Types[k]
		if len(d.Fields) > 0 {
			f := d.Fields[r.Below(len(d.Fields))]
			f.Type = &ast.Type{Elem: &ast.Type{NamedType: "Ghost", NonNull: true}}
			return "ghost-field-type:" + k + "." + f.Name
		}
	}
	return ""
}

func main() {
	mode := flag.String("mode", "mirror", "")
	tier := flag.String("tier", "quick", "")
	seed := flag.Uint64("seed", 1, "")
	n := flag.Int("n", 0, "number of random cases (0 = tier default)")
	files := flag.String("files", "", "comma separated SDL files (mode sdl)")
	fed := flag.Bool("fed", false, "gate cases for the federation probe")
	corpus := flag.String("corpus", "", "directory of *.graphql files run first (mode mirror)")
	flag.Parse()
	w := bufio.NewWriterSize(os.Stdout, 1<<20)
	defer w.Flush()
	enc = json.NewEncoder(w)
	enc.SetEscapeHTML(false)
	switch *mode {
	case "mirror":
		count := *n
		if count == 0 {
			count = 400
			if *tier == "thorough" {
				count = 6000
			}
		}
		for _, d := range directed {
			s, err := load(d.sdl)
			if err != nil {
				enc.Encode(outLine{ID: "directed/" + d.id, SDL: d.sdl, Reject: err.Error(), Tags: []string{"directed-rejected"}})
				continue
			}
			emit("directed/"+d.id, []string{"directed:" + d.id}, d.sdl, s, nil, "")
		}
		if *corpus != "" {
			// minimised past failures (one SDL file each), run first
			ents, _ := os.ReadDir(*corpus)
			for _, e := range ents {
				if !strings.HasSuffix(e.Name(), ".graphql") {
					continue
				}
				b, err := os.ReadFile(*corpus + "/" + e.Name())
				if err != nil {
					continue
				}
				s, err := load(string(b))
				if err != nil {
					enc.Encode(outLine{ID: "corpus/" + e.Name(), SDL: string(b), Reject: err.Error(), Tags: []string{"directed-rejected"}})
					continue
				}
				emit("corpus/"+e.Name(), []string{"corpus"}, string(b), s, nil, "")
			}
		}
		for i, sdl := range invalidSDL {
			s, err := load(sdl)
			if err != nil {
				enc.Encode(outLine{ID: fmt.Sprintf("invalid/%d", i), SDL: sdl, Reject: err.Error(), Tags: []string{"invalid-sdl"}})
				continue
			}
			// gqlparser is more lenient than the specification here: whatever it loads is a schema introspection must mirror
			emit(fmt.Sprintf("invalid/%d", i), []string{"lenient-accepted"}, sdl, s, nil, "")
		}
		root := rng.New(*seed)
		for i := 0; i < count; i++ {
			r := root.Fork()
			g := &sgen{r: r}
			sdl := g.schema()
			var tags []string
			for t := range g.tags {
				if g.tags[t] {
					tags = append(tags, t)
				}
			}
			s, err := load(sdl)
			if err != nil {
				// the generator is meant to produce valid schemas: report, the check counts these
				enc.Encode(outLine{ID: fmt.Sprintf("random/%d", i), SDL: sdl, Reject: err.Error(), Tags: []string{"generator-rejected"}})
				continue
			}
			emit(fmt.Sprintf("random/%d", i), tags, sdl, s, r, "")
			if i%4 == 0 {
				s2, _ := load(sdl)
				if dmg := damage(s2, r); dmg != "" {
					emit(fmt.Sprintf("damaged/%d", i), []string{"damaged:" + strings.SplitN(dmg, ":", 2)[0]}, sdl, s2, r, dmg)
				}
			}
		}
	case "sdl":
		var srcs []*ast.Source
		for _, f := range strings.Split(*files, ",") {
			b, err := os.ReadFile(f)
			if err != nil {
				fmt.Fprintln(os.Stderr, err)
				os.Exit(1)
			}
			srcs = append(srcs, &ast.Source{Name: f, Input: string(b)})
		}
		s, err := gqlparser.LoadSchema(srcs...)
		if err != nil {
			fmt.Fprintln(os.Stderr, err)
			os.Exit(1)
		}
		emit("probe", []string{"probe"}, "", s, nil, "")
	case "prelude":
		s, err := load(`type Query { f: Int }`)
		if err != nil {
			fmt.Fprintln(os.Stderr, err)
			os.Exit(1)
		}
		var names []string
		for k := range s.Types {
			if strings.HasPrefix(k, "__") {
				names = append(names, k)
			}
		}
		sort.Strings(names)
		out := []any{}
		var etr func(t *ast.Type) any
		etr = func(t *ast.Type) any {
			if t.Elem != nil {
				return J{"elem": etr(t.Elem), "nn": t.NonNull}
			}
			return J{"name": t.NamedType, "nn": t.NonNull}
		}
		for _, k := range names {
			d := s.Types[k]
			fs := []any{}
			for _, f := range d.Fields {
				fs = append(fs, J{"name": f.Name, "type": etr(f.Type)})
			}
			t := J{"name": k, "kind": string(d.Kind), "fields": fs}
			if d.Kind == ast.Object {
				t["implementors"] = []string{k}
			}
			out = append(out, t)
		}
		enc.Encode(out)
	case "gate":
		count := *n
		if count == 0 {
			count = 400
			if *tier == "thorough" {
				count = 5000
			}
		}
		genGate(rng.New(*seed^0xC16), count, *fed)
	case "overrides":
		count := *n
		if count == 0 {
			count = 24
			if *tier == "thorough" {
				count = 240
			}
		}
		genOverrides(rng.New(*seed^0xC16507), *files, count, *corpus)
	case "gatecfg":
		count := *n
		if count == 0 {
			count = 150
			if *tier == "thorough" {
				count = 1000
			}
		}
		genGateCfg(rng.New(*seed^0xC16CF6), count, *fed, *corpus)
	default:
		fmt.Fprintln(os.Stderr, "unknown mode")
		os.Exit(2)
	}
}
