package main

import (
	"fmt"
	"sort"
	"strings"

	"verifharness/internal/rng"
)

// Query generator for the disabled-introspection half of C16: every case reaches __schema / __type
// (/ _service) at the root through some combination of alias, inline fragment, named fragment (nested,
// repeated, skipped-then-included), @skip/@include with literals and variables, merged duplicates, several
// operations; ordinary root fields (some failing, one non-null) are mixed in.

type qgen struct {
	r       *rng.R
	fed     bool
	frags   []string
	nfrag   int
	varDefs map[string]string // name -> "Type[= default]"
	vars    map[string]any
	tags    map[string]bool
	nvar    int
	used    map[string]string // response key -> what it selects (avoid most validation conflicts)
	nkey    int
}

func (q *qgen) pick(l []string) string { return l[q.r.Below(len(l))] }

func (q *qgen) boolVar(val bool) string {
	q.nvar++
	name := fmt.Sprintf("v%d", q.nvar)
	q.tags["variable"] = true
	if q.r.Below(4) == 0 {
		// declared with a default, not supplied
		q.varDefs[name] = fmt.Sprintf("Boolean = %v", val)
		q.tags["variable-default"] = true
	} else {
		q.varDefs[name] = "Boolean!"
		q.vars[name] = val
	}
	return "$" + name
}

// cond renders a directive list and says whether the node stays included
func (q *qgen) cond() (string, bool) {
	switch q.r.Below(9) {
	case 0:
		q.tags["include-true"] = true
		return " @include(if: true)", true
	case 1:
		q.tags["skip-false"] = true
		return " @skip(if: false)", true
	case 2:
		q.tags["include-var"] = true
		b := q.r.Below(4) != 0
		return " @include(if: " + q.boolVar(b) + ")", b
	case 3:
		q.tags["skip-var"] = true
		b := q.r.Below(4) == 0
		return " @skip(if: " + q.boolVar(b) + ")", !b
	case 4:
		if q.r.Below(3) == 0 {
			q.tags["excluded"] = true
			return q.pick([]string{" @include(if: false)", " @skip(if: true)"}), false
		}
	}
	return "", true
}

func (q *qgen) gated() string {
	names := []string{"__schema", "__schema", "__type", "__type"}
	if q.fed {
		names = append(names, "_service", "_service")
	}
	name := q.pick(names)
	alias := ""
	if q.r.Below(2) == 0 {
		alias = q.pick([]string{"a1", "a2", "x", "data", "errors", "__schema", "__type", "_service", "schema", "s", "i", "__typename2"})
		if alias == name {
			alias = ""
		} else {
			q.tags["alias"] = true
			if strings.HasPrefix(alias, "_") || alias == "i" || alias == "s" {
				q.tags["alias-masquerade"] = true
			}
		}
	}
	key := alias
	if key == "" {
		key = name
	}
	if _, taken := q.used[key]; taken {
		q.nkey++
		alias = fmt.Sprintf("u%d", q.nkey)
		key = alias
	}
	q.used[key] = name
	var b strings.Builder
	if alias != "" {
		b.WriteString(alias + ": ")
	}
	b.WriteString(name)
	switch name {
	case "__type":
		if q.r.Below(3) == 0 {
			q.nvar++
			v := fmt.Sprintf("t%d", q.nvar)
			q.varDefs[v] = "String!"
			q.vars[v] = q.pick([]string{"Query", "Nope", "String", "__Schema"})
			b.WriteString("(name: $" + v + ")")
			q.tags["type-name-variable"] = true
		} else {
			b.WriteString(`(name: "` + q.pick([]string{"Query", "Nope", "Int", "__Type"}) + `")`)
		}
		d, _ := q.cond()
		b.WriteString(d + " " + q.pick([]string{"{ name }", "{ name kind fields { name } }", "{ kind ofType { name } }", "{ __typename }"}))
	case "__schema":
		d, _ := q.cond()
		b.WriteString(d + " " + q.pick([]string{"{ queryType { name } }", "{ types { name kind } }", "{ directives { name locations } }", "{ __typename }",
			"{ types { fields(includeDeprecated: true) { name args { name isDeprecated } } } }"}))
	default:
		d, _ := q.cond()
		b.WriteString(d + " { sdl }")
	}
	q.tags["gated:"+name] = true
	return b.String()
}

func (q *qgen) plain() string {
	pool := []string{"__typename", "i", "s", "i", "s", "tn: __typename"}
	if q.fed {
		pool = append(pool, "thing { __typename }", "t2: thing { tt: __typename }")
	} else {
		pool = append(pool, "iNN", "old", `image { id width }`, `im2: image(size: {w: 2}) { __typename id }`, `touchless: __typename`)
	}
	p := q.pick(pool)
	key := strings.FieldsFunc(p, func(c rune) bool { return c == ':' || c == ' ' || c == '(' })[0]
	if prev, taken := q.used[key]; taken && prev != p {
		p, key = "__typename", "__typename"
	}
	q.used[key] = p
	if p == "iNN" {
		q.tags["non-null-root-field"] = true
	}
	return p
}

func (q *qgen) item(depth int) string {
	var inner string
	if q.r.Below(5) < 3 {
		inner = q.gated()
	} else {
		inner = q.plain()
	}
	return q.wrapSel(inner, depth)
}

func (q *qgen) wrapSel(inner string, depth int) string {
	if depth >= 3 {
		return inner
	}
	switch q.r.Below(7) {
	case 0:
		q.tags["inline-fragment"] = true
		d, _ := q.cond()
		return "..." + d + " { " + q.wrapSel(inner, depth+1) + " }"
	case 1:
		q.tags["inline-fragment-typed"] = true
		d, _ := q.cond()
		return "... on Query" + d + " { " + q.wrapSel(inner, depth+1) + " " + q.maybeMore(depth+1) + "}"
	case 2, 3:
		q.tags["fragment-spread"] = true
		if depth > 0 {
			q.tags["nested-fragment"] = true
		}
		q.nfrag++
		name := fmt.Sprintf("F%d", q.nfrag)
		body := q.wrapSel(inner, depth+1) + " " + q.maybeMore(depth+1)
		q.frags = append(q.frags, "fragment "+name+" on Query { "+body+"}")
		d, _ := q.cond()
		out := "..." + name + d
		if q.r.Below(5) == 0 {
			// the same fragment spread again: skipped first / included later (and the other way round)
			q.tags["fragment-spread-twice"] = true
			if q.r.Below(2) == 0 {
				out = "..." + name + " @skip(if: true) " + out
			} else {
				out = out + " ..." + name
			}
		}
		return out
	}
	return inner
}

func (q *qgen) maybeMore(depth int) string {
	if q.r.Below(3) == 0 {
		return q.item(depth) + " "
	}
	return ""
}

func (q *qgen) operation(name string) string {
	q.used = map[string]string{"__typename": "__typename"}
	n := 1 + q.r.Below(5)
	var items []string
	for i := 0; i < n; i++ {
		items = append(items, q.item(0))
	}
	if q.r.Below(6) == 0 {
		// the same gated field twice under one response key, different sub-selections: merged
		q.tags["merged-duplicate"] = true
		items = append(items, "m: __schema { queryType { name } }", "... on Query { m: __schema { mutationType { name } } }")
	}
	body := strings.Join(items, " ")
	var defs []string
	var names []string
	for v := range q.varDefs {
		names = append(names, v)
	}
	sort.Strings(names)
	for _, v := range names {
		defs = append(defs, "$"+v+": "+q.varDefs[v])
	}
	head := "query"
	if name != "" {
		head += " " + name
	}
	if len(defs) > 0 {
		if name == "" {
			head += " Q"
		}
		head += "(" + strings.Join(defs, ", ") + ")"
	}
	if name == "" && len(defs) == 0 && q.r.Below(3) == 0 {
		head = "" // shorthand
	}
	return head + " { " + body + " }"
}

// genQuery: one generated hiding query (possibly two operations, one of them selected)
func genQuery(r *rng.R, fed bool) (string, string, map[string]any, []string) {
	q := &qgen{r: r, fed: fed, varDefs: map[string]string{}, vars: map[string]any{}, tags: map[string]bool{}}
	var query, op string
	if r.Below(6) == 0 {
		q.tags["multi-operation"] = true
		a := q.operation("OpA")
		// variables are per operation: start a fresh set for the second one
		va := q.vars
		q.varDefs, q.vars = map[string]string{}, map[string]any{}
		b := q.operation("OpB")
		if r.Below(2) == 0 {
			op = "OpA"
			q.vars = va
		} else {
			op = "OpB"
		}
		query = a + " " + b
	} else {
		query = q.operation("")
	}
	query += " " + strings.Join(q.frags, " ")
	var tags []string
	for t := range q.tags {
		tags = append(tags, t)
	}
	sort.Strings(tags)
	return strings.TrimSpace(query), op, q.vars, tags
}

func genGate(root *rng.R, count int, fed bool) {
	directedQ := []string{
		`{ __schema { queryType { name } } }`,
		`{ __type(name: "Query") { name } }`,
		`{ a: __schema { types { name } } b: __type(name: "Query") { name } __typename }`,
		`query($v: Boolean!) { ... on Query @include(if: $v) { ...F } } fragment F on Query { x: __schema { types { name } } }`,
		`{ ...A } fragment A on Query { ...B } fragment B on Query { ... { __type: __schema { directives { name } } } }`,
		`{ i __schema: __type(name: "Query") { fields { name } } s }`,
		`{ ...F @skip(if: true) ...F } fragment F on Query { __schema { queryType { name } } }`,
		`query A { i } query B { __schema { queryType { name } } }`,
	}
	if fed {
		directedQ = append(directedQ, `{ _service { sdl } }`, `{ x: _service { sdl } i }`, `{ ... on Query { ...F } } fragment F on Query { sdl: _service { sdl } }`,
			`{ i s: _service { sdl } __schema { queryType { name } } }`)
	}
	emitCase := func(id, query, op string, vars map[string]any, tags []string, seed uint64) {
		for _, on := range []bool{false, true} {
			c := J{"id": fmt.Sprintf("%s/%v", id, on), "query": query, "plan": J{"seed": seed, "rates": J{"err": 150, "nil": 150, "maxLen": 2}},
				"introspection": on, "tags": tags}
			if op != "" {
				c["operationName"] = op
			}
			if len(vars) > 0 {
				c["variables"] = vars
			}
			enc.Encode(c)
		}
	}
	for i, dq := range directedQ {
		op := ""
		if strings.Contains(dq, "query B") {
			op = "B"
		}
		vars := map[string]any{}
		if strings.Contains(dq, "$v") {
			vars["v"] = true
		}
		emitCase(fmt.Sprintf("gd/%d", i), dq, op, vars, []string{"directed"}, uint64(i))
	}
	for i := 0; i < count; i++ {
		r := root.Fork()
		query, op, vars, tags := genQuery(r, fed)
		emitCase(fmt.Sprintf("g/%d", i), query, op, vars, tags, r.Next()%1000)
	}
}
