// Harness for C08: runs gqlgen's real marshalers/unmarshalers on generated values and prints one
// line per case: the input, the implementation's bytes, and the verdict of Go-side independent
// oracles (encoding/json strict decode, utf8.Valid). bin/check pipes the inputs to the Lean driver
// and compares.
package main

import (
	"bufio"
	"bytes"
	"context"
	"encoding/hex"
	"encoding/json"
	"flag"
	"fmt"
	"io"
	"math"
	"os"
	"strconv"
	"strings"
	"time"
	"unicode/utf8"

	"github.com/99designs/gqlgen/graphql"
	"github.com/google/uuid"
	"github.com/vektah/gqlparser/v2/ast"
	"verifharness/internal/rng"
)

var out = bufio.NewWriterSize(os.Stdout, 1<<20)

func hx(b []byte) string {
	if len(b) == 0 {
		return "-"
	}
	return hex.EncodeToString(b)
}

func m2b(m graphql.Marshaler) []byte {
	var b bytes.Buffer
	m.MarshalGQL(&b)
	return b.Bytes()
}

// oracle: independent Go-side decision whether bytes `o` are a valid UTF-8 JSON text decoding to `want`.
func jsonStringOK(o []byte, want string) string {
	if !utf8.Valid(o) {
		return "not-utf8"
	}
	if !json.Valid(o) {
		return "not-json"
	}
	var got string
	if err := json.Unmarshal(o, &got); err != nil {
		return "decode-error"
	}
	if got != want {
		return "decode-mismatch"
	}
	return "ok"
}

func strCase(s string) {
	o := m2b(graphql.MarshalString(s))
	want := string([]rune(s)) // each offending byte -> U+FFFD
	valid := 0
	if utf8.ValidString(s) {
		valid = 1
	}
	// round trip through the unmarshaler
	rt := "ok"
	var dec any
	if err := json.Unmarshal(o, &dec); err == nil {
		if u, err := graphql.UnmarshalString(dec); err != nil || u != want {
			rt = "unmarshal-mismatch"
		}
	}
	fmt.Fprintf(out, "q\t%s\t%s\t%d\t%s\t%s\t%s\n", hx([]byte(s)), hx(o), valid, hx([]byte(want)), jsonStringOK(o, want), rt)
}

var directed = []string{
	"", "hello", "\"", "\\", "/", "\x00", "\x1f", "\x20", "\x7f", "\t\r\n", "a\"b\\c",
	"\u0080", "߿", "ࠀ", "￿", "\U00010000", "\U0010ffff", "�", "  ",
	"\xff", "a\xffb", "\xc0\x80", "\xc1\xbf", "\xe0\x80\x80", "\xe0\x9f\xbf", "\xed\xa0\x80", "\xed\xbf\xbf",
	"\xf0\x80\x80\x80", "\xf0\x8f\xbf\xbf", "\xf4\x90\x80\x80", "\xf5\x80\x80\x80", "\xf8\x88\x80\x80\x80",
	"\x80", "\xbf", "\xc3", "\xe2\x82", "\xf0\x9f\x98", "\xc3\x22", "\xe2\x82\x5c", "\xf0\x9f\x98\x0a",
	"\xc3\xa9", "\xe2\x82\xac", "\xf0\x9f\x98\x80", "\xc3\xc3\xa9", "\xef\xbf\xbd\xff", "\xed\x9f\xbf", "\xee\x80\x80",
	"\xf4\x8f\xbf\xbf", "\xf1\x80\x80\x80", "\xf3\xbf\xbf\xbf", "\xe1\x80", "\xec\xbf\xbf\x80",
}

func randString(r *rng.R) string {
	n := r.Below(12)
	var b []byte
	for i := 0; i < n; i++ {
		switch r.Below(10) {
		case 0:
			b = append(b, byte(r.Below(0x20))) // control
		case 1:
			b = append(b, "\"\\/"[r.Below(3)])
		case 2, 3:
			b = append(b, byte(0x20+r.Below(0x5f))) // printable ascii
		case 4:
			b = utf8.AppendRune(b, rune(0x80+r.Below(0x780)))
		case 5:
			b = utf8.AppendRune(b, []rune{0x800, 0xd7ff, 0xe000, 0xfffd, 0xffff, rune(0x800 + r.Below(0xf000))}[r.Below(6)])
		case 6:
			b = utf8.AppendRune(b, rune(0x10000+r.Below(0x100000)))
		case 7:
			b = append(b, byte(0x80+r.Below(0x80))) // arbitrary high byte
		case 8:
			// truncated / corrupted multi-byte sequence
			enc := utf8.AppendRune(nil, rune(0x80+r.Below(0x10ff80)))
			if len(enc) > 1 {
				k := r.Below(len(enc))
				enc[k] = byte(r.Below(256))
				enc = enc[:1+r.Below(len(enc))]
			}
			b = append(b, enc...)
		case 9:
			b = append(b, []byte{0xc0, 0xc1, 0xe0, 0xed, 0xf0, 0xf4, 0xf5, 0xff}[r.Below(8)])
			b = append(b, byte(0x80+r.Below(0x40)))
		}
	}
	return string(b)
}

var boundaries = []int64{
	0, 1, -1, 9, 10, 99, 100, 127, 128, 255, 256, 32767, 32768, 65535, 65536,
	math.MaxInt32 - 1, math.MaxInt32, math.MaxInt32 + 1, math.MinInt32 + 1, math.MinInt32, math.MinInt32 - 1,
	math.MaxUint32 - 1, math.MaxUint32, math.MaxUint32 + 1,
	math.MaxInt64 - 1, math.MaxInt64, math.MinInt64, math.MinInt64 + 1, -math.MaxInt32, -math.MaxUint32,
	1 << 53, 1<<53 + 1, -(1 << 53), 1000000000, 999999999,
}

func decodeNumber(o []byte) (any, error) {
	d := json.NewDecoder(bytes.NewReader(o))
	d.UseNumber()
	var v any
	if err := d.Decode(&v); err != nil {
		return nil, err
	}
	if d.More() {
		return nil, fmt.Errorf("trailing")
	}
	return v, nil
}

// intCase: marshal with fn, check valid JSON, unmarshal back.
func intCase(kind string, val string, o []byte, back func(any) (string, error)) {
	verdict := "ok"
	if !json.Valid(o) || !utf8.Valid(o) {
		verdict = "not-json"
	} else if v, err := decodeNumber(o); err != nil {
		verdict = "decode-error"
	} else if got, err := back(v); err != nil {
		verdict = "unmarshal-error:" + err.Error()
	} else if got != val {
		verdict = "roundtrip-mismatch:" + got
	}
	fmt.Fprintf(out, "i\t%s\t%s\t%s\t%s\n", kind, val, hx(o), strings.ReplaceAll(verdict, "\t", " "))
}

func ints(v int64) {
	s := strconv.FormatInt(v, 10)
	intCase("Int", s, m2b(graphql.MarshalInt(int(v))), func(x any) (string, error) {
		r, err := graphql.UnmarshalInt(x)
		return strconv.Itoa(r), err
	})
	intCase("Int64", s, m2b(graphql.MarshalInt64(v)), func(x any) (string, error) {
		r, err := graphql.UnmarshalInt64(x)
		return strconv.FormatInt(r, 10), err
	})
	intCase("IntID", s, m2b(graphql.MarshalIntID(int(v))), func(x any) (string, error) {
		r, err := graphql.UnmarshalIntID(x)
		return strconv.Itoa(r), err
	})
	if v >= math.MinInt32 && v <= math.MaxInt32 {
		intCase("Int32", s, m2b(graphql.MarshalInt32(int32(v))), func(x any) (string, error) {
			r, err := graphql.UnmarshalInt32(x)
			return strconv.FormatInt(int64(r), 10), err
		})
	}
}

func uints(v uint64) {
	s := strconv.FormatUint(v, 10)
	intCase("Uint", s, m2b(graphql.MarshalUint(uint(v))), func(x any) (string, error) {
		r, err := graphql.UnmarshalUint(x)
		return strconv.FormatUint(uint64(r), 10), err
	})
	intCase("Uint64", s, m2b(graphql.MarshalUint64(v)), func(x any) (string, error) {
		r, err := graphql.UnmarshalUint64(x)
		return strconv.FormatUint(r, 10), err
	})
	intCase("UintID", s, m2b(graphql.MarshalUintID(uint(v))), func(x any) (string, error) {
		r, err := graphql.UnmarshalUintID(x)
		return strconv.FormatUint(uint64(r), 10), err
	})
	if v <= math.MaxUint32 {
		intCase("Uint32", s, m2b(graphql.MarshalUint32(uint32(v))), func(x any) (string, error) {
			r, err := graphql.UnmarshalUint32(x)
			return strconv.FormatUint(uint64(r), 10), err
		})
	}
}

func res(v any, err error) string {
	if err != nil {
		name := "error"
		switch err.(type) {
		case *graphql.UintSignError:
			name = "newUintSignError"
		case *graphql.Int32OverflowError:
			name = "newInt32OverflowError"
		case *graphql.Uint32OverflowError:
			name = "newUint32OverflowError"
		}
		return "err " + name
	}
	return fmt.Sprintf("ok %d", v)
}

// casts: every numeric arm of every Unmarshal* on the boundary grid of the arm's Go type.
func casts(v int64) {
	p := func(arm string, val string, r string) { fmt.Fprintf(out, "cast\t%s\t%s\t%s\n", arm, val, r) }
	s := strconv.FormatInt(v, 10)
	i := int(v)
	w := func(x any, err error) string { return res(x, err) }
	p("UnmarshalInt_int", s, w(graphql.UnmarshalInt(i)))
	p("UnmarshalInt_int64", s, w(graphql.UnmarshalInt(v)))
	p("UnmarshalInt64_int", s, w(graphql.UnmarshalInt64(i)))
	p("UnmarshalInt64_int64", s, w(graphql.UnmarshalInt64(v)))
	p("UnmarshalInt32_int", s, w(graphql.UnmarshalInt32(i)))
	p("UnmarshalInt32_int64", s, w(graphql.UnmarshalInt32(v)))
	p("UnmarshalUint_int", s, w(graphql.UnmarshalUint(i)))
	p("UnmarshalUint_int64", s, w(graphql.UnmarshalUint(v)))
	p("UnmarshalUint64_int", s, w(graphql.UnmarshalUint64(i)))
	p("UnmarshalUint64_int64", s, w(graphql.UnmarshalUint64(v)))
	p("UnmarshalUint32_int", s, w(graphql.UnmarshalUint32(i)))
	p("UnmarshalUint32_int64", s, w(graphql.UnmarshalUint32(v)))
	p("UnmarshalIntID_int", s, w(graphql.UnmarshalIntID(i)))
	p("UnmarshalIntID_int64", s, w(graphql.UnmarshalIntID(v)))
	p("UnmarshalUintID_int", s, w(graphql.UnmarshalUintID(i)))
	p("UnmarshalUintID_int64", s, w(graphql.UnmarshalUintID(v)))
	if v >= math.MinInt32 && v <= math.MaxInt32 {
		p("UnmarshalUintID_int32", s, w(graphql.UnmarshalUintID(int32(v))))
	}
	if v >= 0 && v <= math.MaxUint32 {
		p("UnmarshalUintID_uint32", s, w(graphql.UnmarshalUintID(uint32(v))))
	}
	if v >= 0 {
		p("UnmarshalUintID_uint64", s, w(graphql.UnmarshalUintID(uint64(v))))
	}
}

// other scalars: implementation-side oracle only (library-backed; modelled-not-verified)
func other(kind, in string, o []byte, ok bool, note string) {
	verdict := "ok"
	if !ok {
		verdict = note
	} else if !utf8.Valid(o) || !json.Valid(o) {
		verdict = "not-json"
	}
	fmt.Fprintf(out, "o\t%s\t%s\t%s\t%s\n", kind, in, hx(o), verdict)
}

func floatCase(f float64) {
	ctx := graphql.WithResponseContext(context.Background(), graphql.DefaultErrorPresenter, graphql.DefaultRecover)
	var b bytes.Buffer
	err := graphql.MarshalFloatContext(f).MarshalGQLContext(ctx, &b)
	in := strconv.FormatUint(math.Float64bits(f), 16)
	if math.IsNaN(f) || math.IsInf(f, 0) {
		v := "ok"
		if err == nil || b.Len() != 0 {
			v = "nonfinite-not-rejected"
		}
		fmt.Fprintf(out, "o\tFloatContext-nonfinite\t%s\t%s\t%s\n", in, hx(b.Bytes()), v)
		return
	}
	if err != nil {
		other("FloatContext", in, b.Bytes(), false, "finite-rejected")
		return
	}
	o := b.Bytes()
	ok, note := true, ""
	if v, derr := decodeNumber(o); derr != nil {
		ok, note = false, "decode-error"
	} else if g, uerr := graphql.UnmarshalFloat(v); uerr != nil || g != f {
		ok, note = false, "roundtrip-mismatch"
	}
	other("FloatContext", in, o, ok, note)
}

func rtAny(kind, in string, o []byte, check func(dec any) bool) {
	var dec any
	d := json.NewDecoder(bytes.NewReader(o))
	d.UseNumber()
	ok, note := true, ""
	if err := d.Decode(&dec); err != nil {
		ok, note = false, "decode-error"
	} else if !check(dec) {
		ok, note = false, "roundtrip-mismatch"
	}
	other(kind, in, o, ok, note)
}

// nested framing: FieldSet / Array with random keys (arbitrary bytes) and leaves
type node struct {
	kind int // 0 null 1 true 2 false 3 string 4 int 5 array 6 object
	s    string
	i    int64
	kids []node
	keys []string
}

// every context marshaler of one frame shares one field context, as the scalar elements of a list do
var frameCtx = graphql.WithFieldContext(
	graphql.WithResponseContext(context.Background(), graphql.DefaultErrorPresenter, graphql.DefaultRecover),
	&graphql.FieldContext{Field: graphql.CollectedField{Field: &ast.Field{Alias: "f", Name: "f"}}})

func genNode(r *rng.R, depth int) node {
	k := r.Below(8)
	if depth <= 0 && (k == 5 || k == 6) {
		k = r.Below(5)
	}
	n := node{kind: k}
	switch k {
	case 7:
		// a context marshaler that fails (Float NaN / +Inf / -Inf): the adapter reports the error and must
		// still write a value (null)
		n.i = int64(r.Below(3))
	case 3:
		n.s = randString(r)
	case 4:
		n.i = boundaries[r.Below(len(boundaries))]
	case 5:
		for i, c := 0, r.Below(4); i < c; i++ {
			n.kids = append(n.kids, genNode(r, depth-1))
		}
	case 6:
		for i, c := 0, r.Below(4); i < c; i++ {
			n.kids = append(n.kids, genNode(r, depth-1))
			n.keys = append(n.keys, randString(r))
		}
	}
	return n
}

func (n node) marshaler() graphql.Marshaler {
	switch n.kind {
	case 0:
		return graphql.Null
	case 1:
		return graphql.True
	case 2:
		return graphql.False
	case 3:
		return graphql.MarshalString(n.s)
	case 4:
		return graphql.MarshalInt64(n.i)
	case 5:
		a := graphql.Array{}
		for _, k := range n.kids {
			a = append(a, k.marshaler())
		}
		return a
	case 7:
		f := []float64{math.NaN(), math.Inf(1), math.Inf(-1)}[n.i]
		return graphql.WrapContextMarshaler(frameCtx, graphql.MarshalFloatContext(f))
	default:
		var fields []graphql.CollectedField
		for _, k := range n.keys {
			f := graphql.CollectedField{}
			f.Field = &ast.Field{Alias: k}
			fields = append(fields, f)
		}
		fs := graphql.NewFieldSet(fields)
		for i, k := range n.kids {
			fs.Values[i] = k.marshaler()
		}
		return fs
	}
}

// canonical text of the node for the Lean frame model: prefix notation
func (n node) enc(b *strings.Builder) {
	switch n.kind {
	case 0, 7:
		b.WriteString("n")
	case 1:
		b.WriteString("t")
	case 2:
		b.WriteString("f")
	case 3:
		b.WriteString("s" + hx([]byte(n.s)))
	case 4:
		b.WriteString("i" + strconv.FormatInt(n.i, 10))
	case 5:
		fmt.Fprintf(b, "a%d", len(n.kids))
		for _, k := range n.kids {
			b.WriteString(",")
			k.enc(b)
		}
	case 6:
		fmt.Fprintf(b, "o%d", len(n.kids))
		for i, k := range n.kids {
			b.WriteString(",k" + hx([]byte(n.keys[i])) + ",")
			k.enc(b)
		}
	}
}

// expected decoded value (Go side): what encoding/json yields for the intended value
func (n node) expect() any {
	switch n.kind {
	case 0, 7:
		return nil
	case 1:
		return true
	case 2:
		return false
	case 3:
		return string([]rune(n.s))
	case 4:
		return json.Number(strconv.FormatInt(n.i, 10))
	case 5:
		a := []any{}
		for _, k := range n.kids {
			a = append(a, k.expect())
		}
		return a
	default:
		m := map[string]any{}
		for i, k := range n.kids {
			m[string([]rune(n.keys[i]))] = k.expect() // duplicate keys: last wins in encoding/json too
		}
		return m
	}
}

func main() {
	tier := flag.String("tier", "quick", "")
	seed := flag.Uint64("seed", 1, "")
	flag.Parse()
	r := rng.New(*seed)
	nstr, nint, nframe := 3000, 300, 300
	if *tier == "thorough" {
		nstr, nint, nframe = 200000, 20000, 20000
	}
	for _, s := range directed {
		strCase(s)
	}
	for b := 0; b < 256; b++ { // every single byte, and every byte after a 2-byte lead
		strCase(string([]byte{byte(b)}))
		strCase(string([]byte{0xc3, byte(b)}))
		strCase(string([]byte{0xe0, byte(b), 0x80}))
		strCase(string([]byte{0xf4, byte(b), 0x80, 0x80}))
	}
	for i := 0; i < nstr; i++ {
		strCase(randString(r))
	}
	for _, v := range boundaries {
		ints(v)
		casts(v)
		if v >= 0 {
			uints(uint64(v))
		}
	}
	uints(math.MaxUint64)
	uints(math.MaxUint64 - 1)
	uints(1 << 63)
	for i := 0; i < nint; i++ {
		v := int64(r.Next())
		switch r.Below(4) {
		case 0:
			v >>= uint(r.Below(64))
		case 1:
			v = boundaries[r.Below(len(boundaries))] + int64(r.Below(5)) - 2
		}
		ints(v)
		casts(v)
		uints(uint64(v))
	}
	// floats
	specials := []float64{0, math.Copysign(0, -1), 1, -1, math.NaN(), math.Inf(1), math.Inf(-1), math.MaxFloat64, math.SmallestNonzeroFloat64, 1e21, 1e20, 1e-7, 123456789.125, 0.1}
	for _, f := range specials {
		floatCase(f)
	}
	for i := 0; i < nint; i++ {
		floatCase(math.Float64frombits(r.Next()))
	}
	// booleans
	for _, b := range []bool{true, false} {
		o := m2b(graphql.MarshalBoolean(b))
		rtAny("Boolean", strconv.FormatBool(b), o, func(d any) bool { g, err := graphql.UnmarshalBoolean(d); return err == nil && g == b })
	}
	// time / duration / uuid / any / map (library-backed)
	for i := 0; i < nint/4+4; i++ {
		t := time.Unix(int64(r.Below(4000000000))-1000000000, int64(r.Below(1000000000))).UTC()
		// the location is a dimension of a time value: the same instant must come back whatever zone it is held in
		if zones := []*time.Location{nil, time.FixedZone("CEST", 2*3600), time.FixedZone("EST", -5*3600),
			time.FixedZone("IST", 5*3600+1800), time.FixedZone("NPT", 5*3600+2700), time.FixedZone("LINT", 14*3600),
			time.FixedZone("AoE", -12*3600), time.FixedZone("odd", -(3*3600 + 25*60 + 45)), time.FixedZone("GMT", 0), time.Local}; zones[i%len(zones)] != nil {
			t = t.In(zones[i%len(zones)])
		}
		switch i {
		case 0:
			t = time.Time{}
		case 1:
			t = time.Date(1, 1, 1, 0, 0, 0, 1, time.UTC) // the first instant that is not the zero time
		case 2:
			t = time.Date(9999, 12, 31, 23, 59, 59, 999999999, time.FixedZone("W", -3600))
		case 3:
			t = time.Date(2024, 2, 29, 23, 59, 60, 0, time.FixedZone("E", 3600)) // normalised leap second, leap day
		}
		o := m2b(graphql.MarshalTime(t))
		rtAny("Time", t.Format("2006-01-02T15:04:05.999999999Z07:00:00"), o, func(d any) bool {
			if t.IsZero() {
				return d == nil
			}
			g, err := graphql.UnmarshalTime(d)
			return err == nil && g.Equal(t)
		})
		du := time.Duration(int64(r.Next()) >> uint(r.Below(40)))
		if i < 12 {
			// boundary durations: zero, one unit each way, whole units, extremes
			du = []time.Duration{0, 1, -1, time.Second, -time.Second, time.Millisecond, time.Minute, time.Hour, 24 * time.Hour,
				math.MaxInt64, math.MinInt64 + 1, 1500 * time.Millisecond}[i]
		}
		o = m2b(graphql.MarshalDuration(du))
		rtAny("Duration", du.String(), o, func(d any) bool { g, err := graphql.UnmarshalDuration(d); return err == nil && g == du })
		var raw [16]byte
		for j := range raw {
			raw[j] = byte(r.Below(256))
		}
		id := uuid.UUID(raw)
		o = m2b(graphql.MarshalUUID(id))
		rtAny("UUID", id.String(), o, func(d any) bool { g, err := graphql.UnmarshalUUID(d); return err == nil && g == id })
		n := genNode(r, 2)
		exp := n.expect()
		o = m2b(graphql.MarshalAny(exp))
		rtAny("Any", "node", o, func(d any) bool { return eqJSON(d, exp) })
		if m, ok := exp.(map[string]any); ok {
			o = m2b(graphql.MarshalMap(m))
			rtAny("Map", "node", o, func(d any) bool { return eqJSON(d, exp) })
		}
	}
	// values encoding/json refuses (NaN, +-Inf, channels, functions - alone or nested) handed to the Any / Map
	// scalars: the marshaler must either refuse loudly (it panics; the server turns that into an error response,
	// C04) or write one JSON text - never write nothing or a fragment inside the enclosing object
	unenc := []struct {
		name string
		v    any
	}{
		{"nan", math.NaN()}, {"+inf", math.Inf(1)}, {"-inf", math.Inf(-1)},
		{"nested-nan", map[string]any{"a": 1, "b": []any{1.5, math.NaN()}}},
		{"list-inf", []any{"x", math.Inf(1)}},
		{"chan", make(chan int)}, {"func", func() {}},
		{"map-with-chan", map[string]any{"c": make(chan int)}},
	}
	for _, u := range unenc {
		for _, kind := range []string{"Any", "Map", "Any-in-object"} {
			var b bytes.Buffer
			panicked := false
			func() {
				defer func() {
					if r := recover(); r != nil {
						panicked = true
					}
				}()
				switch kind {
				case "Any":
					graphql.MarshalAny(u.v).MarshalGQL(&b)
				case "Map":
					m, ok := u.v.(map[string]any)
					if !ok {
						m = map[string]any{"v": u.v}
					}
					graphql.MarshalMap(m).MarshalGQL(&b)
				default:
					fs := graphql.NewFieldSet([]graphql.CollectedField{{Field: &ast.Field{Alias: "before"}}, {Field: &ast.Field{Alias: "any"}}, {Field: &ast.Field{Alias: "after"}}})
					fs.Values[0] = graphql.MarshalInt(1)
					fs.Values[1] = graphql.MarshalAny(u.v)
					fs.Values[2] = graphql.Array{}
					fs.MarshalGQL(&b)
				}
			}()
			verdict := "ok"
			if !panicked && (!json.Valid(b.Bytes()) || b.Len() == 0) {
				verdict = "unencodable-value-written-as-non-json"
			}
			fmt.Fprintf(out, "o\t%s-unencodable\t%s\t%s\t%s\n", kind, u.name, hx(b.Bytes()), verdict)
		}
	}
	// Omittable[T] in output position: set (to a value, to nil) and UNSET, through both marshal flavours, alone and
	// as list elements: every one writes exactly one JSON text (an unset one writes the zero value / null)
	{
		str := "x"
		type ctxm interface {
			MarshalGQLContext(ctx context.Context, w io.Writer)
		}
		type om struct {
			name string
			m    graphql.Marshaler
			cm   ctxm
		}
		mk := func(name string, v interface {
			graphql.Marshaler
			ctxm
		}) om {
			return om{name, v, v}
		}
		oms := []om{
			mk("unset-string", graphql.Omittable[string]{}), mk("set-string", graphql.OmittableOf("a\"b")),
			mk("unset-int", graphql.Omittable[int]{}), mk("set-int", graphql.OmittableOf(7)),
			mk("unset-bool", graphql.Omittable[bool]{}), mk("unset-ptr", graphql.Omittable[*string]{}),
			mk("set-nil-ptr", graphql.OmittableOf[*string](nil)), mk("set-ptr", graphql.OmittableOf(&str)),
			mk("unset-slice", graphql.Omittable[[]int]{}), mk("set-slice", graphql.OmittableOf([]int{1, 2})),
			mk("unset-map", graphql.Omittable[map[string]any]{}), mk("set-map", graphql.OmittableOf(map[string]any{"k": 1})),
		}
		ctx := graphql.WithResponseContext(context.Background(), graphql.DefaultErrorPresenter, graphql.DefaultRecover)
		for _, o := range oms {
			for _, flavour := range []string{"MarshalGQL", "MarshalGQLContext", "in-array", "in-array-context"} {
				var b bytes.Buffer
				note := ""
				func() {
					defer func() {
						if r := recover(); r != nil {
							note = fmt.Sprint("panic: ", r)
						}
					}()
					switch flavour {
					case "MarshalGQL":
						o.m.MarshalGQL(&b)
					case "MarshalGQLContext":
						o.cm.MarshalGQLContext(ctx, &b)
					case "in-array":
						graphql.Array{graphql.MarshalInt(1), o.m, graphql.MarshalInt(2)}.MarshalGQL(&b)
					default:
						cm := o.cm
						graphql.Array{graphql.MarshalInt(1), graphql.WriterFunc(func(w io.Writer) { cm.MarshalGQLContext(ctx, w) }), graphql.MarshalInt(2)}.MarshalGQL(&b)
					}
				}()
				verdict := "ok"
				if note != "" {
					verdict = "omittable-" + note
				} else if !json.Valid(b.Bytes()) || b.Len() == 0 {
					verdict = "omittable-written-as-non-json"
				}
				fmt.Fprintf(out, "o\tOmittable-%s\t%s\t%s\t%s\n", flavour, o.name, hx(b.Bytes()), verdict)
			}
		}
	}
	// framing
	for i := 0; i < nframe; i++ {
		n := genNode(r, 3)
		var sb strings.Builder
		n.enc(&sb)
		o := m2b(n.marshaler())
		verdict := "ok"
		if !utf8.Valid(o) || !json.Valid(o) {
			verdict = "not-json"
		} else if v, err := decodeNumber(o); err != nil {
			verdict = "decode-error"
		} else if !eqJSON(v, n.expect()) {
			verdict = "decode-mismatch"
		}
		fmt.Fprintf(out, "fr\t%s\t%s\t%s\n", sb.String(), hx(o), verdict)
	}
	out.Flush()
}

func eqJSON(a, b any) bool {
	ja, _ := json.Marshal(a)
	jb, _ := json.Marshal(b)
	return bytes.Equal(ja, jb)
}
