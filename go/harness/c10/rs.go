package main

// Mode rs: what user code may DO with an uploaded file. Every variable path of an upload holds an
// io.ReadSeeker: gqlgen's own bytesReader (graphql/handler/transport/reader.go) when the request is
// below MaxMemory, an *os.File on the spill file otherwise. A case is a well-formed multipart
// request (1-2 files, each mapped to 1-3 variable paths) plus a SCRIPT the resolver runs on those
// readers: reads of every size, Seek with every whence to before the start / inside / exactly at /
// behind the end, repeated reads at EOF, the readers of one file and of different files interleaved.
// Printed: the script's answers (bytes + EOF, position, refusal, panic), the answers of bytes.Reader
// to the same script (library oracle), and the usual observation of the request (status, class,
// recover-hook counter, TMPDIR listing). The Lean driver replays the script on Model/ReadSeeker.

import (
	"bufio"
	"bytes"
	"encoding/hex"
	"encoding/json"
	"fmt"
	"io"
	"math"
	"net/http/httptest"
	"os"
	"sort"
	"strconv"
	"strings"

	"github.com/99designs/gqlgen/graphql"
	"github.com/99designs/gqlgen/graphql/handler/transport"
	"verifharness/internal/rng"
)

type rsOp struct {
	k      int
	read   bool
	n      int
	whence int
	off    int64
}

func (o rsOp) enc() string {
	if o.read {
		return fmt.Sprintf("%dr%d", o.k, o.n)
	}
	return fmt.Sprintf("%ds%d:%d", o.k, o.whence, o.off)
}

func parseRsOp(t string) (rsOp, error) {
	i := 0
	for i < len(t) && t[i] >= '0' && t[i] <= '9' {
		i++
	}
	if i == 0 || i == len(t) {
		return rsOp{}, fmt.Errorf("bad op %q", t)
	}
	k, _ := strconv.Atoi(t[:i])
	switch t[i] {
	case 'r':
		n, err := strconv.Atoi(t[i+1:])
		if err != nil || n < 0 {
			return rsOp{}, fmt.Errorf("bad op %q", t)
		}
		return rsOp{k: k, read: true, n: n}, nil
	case 's':
		f := strings.Split(t[i+1:], ":")
		if len(f) != 2 {
			return rsOp{}, fmt.Errorf("bad op %q", t)
		}
		w, err1 := strconv.Atoi(f[0])
		o, err2 := strconv.ParseInt(f[1], 10, 64)
		if err1 != nil || err2 != nil {
			return rsOp{}, fmt.Errorf("bad op %q", t)
		}
		return rsOp{k: k, whence: w, off: o}, nil
	}
	return rsOp{}, fmt.Errorf("bad op %q", t)
}

func rsAnswer(f io.ReadSeeker, o rsOp) string {
	if o.read {
		buf := make([]byte, o.n)
		n, err := f.Read(buf)
		e := "n"
		if err == io.EOF {
			e = "e"
		} else if err != nil {
			e = "x"
		}
		if n < 0 || n > len(buf) {
			return fmt.Sprintf("d?%d:%s", n, e)
		}
		h := "-"
		if n > 0 {
			h = hex.EncodeToString(buf[:n])
		}
		return "d" + h + ":" + e
	}
	abs, err := f.Seek(o.off, o.whence)
	if err != nil {
		return "x"
	}
	return fmt.Sprintf("a%d", abs)
}

// runScript is user code: it never panics itself. The answer of the operation in progress is
// provisionally "P": if the reader panics, that is what stays in the trace while the panic travels
// on into gqlgen's recover machinery.
func (e *env) runScript(vars map[string]any) {
	var ups []*graphql.Upload
	collectUploads(vars, &ups)
	for _, u := range ups {
		k := "m"
		if _, ok := u.File.(*os.File); ok {
			k = "f"
		}
		e.rsKind = append(e.rsKind, fmt.Sprintf("%s:%s:%s:%d", k, hx(u.Filename), hx(u.ContentType), u.Size))
	}
	e.seen = &seen{tmpDuring: lsTmp(e.tmpdir)}
	for _, o := range e.script {
		if o.k >= len(ups) {
			e.rsObs = append(e.rsObs, "?")
			continue
		}
		e.rsObs = append(e.rsObs, "P")
		e.rsObs[len(e.rsObs)-1] = rsAnswer(ups[o.k].File, o)
	}
}

type rsCase struct {
	files  [][]byte
	slots  [][]int // per file: the variable positions it is mapped to
	cfg    string  // mem | disk | chunked
	script []rsOp
	desc   string
}

var rsSlotPath = []string{"variables.a", "variables.b", "variables.file", "variables.files.0", "variables.files.1", "variables.files.2", "variables.req.x"}

const rsVars = `{"a":null,"b":null,"file":null,"files":[null,null,null],"req":{"x":null}}`

func (c *rsCase) run(tmpdir string) {
	// readers in the order user code numbers them (sorted traversal of the variables = slot order)
	type rd struct{ slot, file int }
	var rds []rd
	for fi, ss := range c.slots {
		for _, s := range ss {
			rds = append(rds, rd{s, fi})
		}
	}
	sort.Slice(rds, func(i, j int) bool { return rds[i].slot < rds[j].slot })
	kind := "m"
	if c.cfg == "disk" {
		kind = "f"
	}
	var keys []string
	var paths [][]string
	var parts []part
	qb, _ := json.Marshal(stdMutation)
	parts = append(parts, part{name: "operations", content: []byte(fmt.Sprintf(`{"query":%s,"variables":%s}`, qb, rsVars))})
	for fi, ss := range c.slots {
		keys = append(keys, fmt.Sprint(fi))
		var ps []string
		for _, s := range ss {
			ps = append(ps, rsSlotPath[s])
		}
		paths = append(paths, ps)
	}
	parts = append(parts, part{name: "map", content: mapJSON(keys, paths)})
	for fi := range c.files {
		parts = append(parts, part{name: fmt.Sprint(fi), filename: fmt.Sprintf("f%d.bin", fi), ctype: "application/octet-stream", content: c.files[fi]})
	}
	body, _, _ := assemble(parts)

	var renc, want []string
	for _, r := range rds {
		h := "-"
		if len(c.files[r.file]) > 0 {
			h = hex.EncodeToString(c.files[r.file])
		}
		renc = append(renc, kind+":"+h)
		want = append(want, fmt.Sprintf("%s:%s:%s:%d", kind, hx(fmt.Sprintf("f%d.bin", r.file)), hx("application/octet-stream"), len(c.files[r.file])))
	}
	var senc []string
	for _, o := range c.script {
		senc = append(senc, o.enc())
	}

	// library oracle: bytes.Reader over the same bytes, one per reader
	var orc []string
	brs := make([]*bytes.Reader, len(rds))
	for i, r := range rds {
		brs[i] = bytes.NewReader(c.files[r.file])
	}
	for _, o := range c.script {
		orc = append(orc, rsAnswer(brs[o.k], o))
	}

	e := &env{tmpdir: tmpdir, script: c.script}
	mm := int64(0)
	if c.cfg != "mem" {
		mm = 1
	}
	srv := newServer(e, transport.MultipartForm{MaxMemory: mm})
	req := httptest.NewRequest("POST", "/graphql", bytes.NewReader(body))
	req.Header.Set("Content-Type", "multipart/form-data; boundary="+boundary)
	req.ContentLength = int64(len(body))
	if c.cfg == "chunked" {
		req.ContentLength = -1
	}
	rec := httptest.NewRecorder()
	func() {
		defer func() {
			if r := recover(); r != nil {
				e.recovers += 1000
				e.panics = append(e.panics, fmt.Sprint(r))
			}
		}()
		srv.ServeHTTP(rec, req)
	}()
	cls, _ := classifyBody(rec.Body.Bytes())
	tmpAfter := lsTmp(tmpdir)
	cleanTmp(tmpdir)
	obs, kinds := "-", "-"
	if len(e.rsObs) > 0 {
		obs = strings.Join(e.rsObs, ",")
	}
	if len(e.rsKind) > 0 {
		kinds = strings.Join(e.rsKind, ";")
	}
	during := -1
	if e.seen != nil {
		during = e.seen.tmpDuring
	}
	pan := "-"
	if len(e.panics) > 0 {
		pan = hx(strings.Join(e.panics, " | "))
	}
	fmt.Fprintf(out, "rs\t%s %s\t%s\t%s\t%d\t%s\t%d\t%d\t%d\t%s\t%s\t%s\t%s %s\n", strings.Join(renc, ";"), strings.Join(senc, ","),
		obs, strings.Join(orc, ","), rec.Code, cls, e.recovers, tmpAfter, during, kinds, strings.Join(want, ";"), pan, c.cfg, c.desc)
}

func rsContent(r *rng.R, n int) []byte {
	b := make([]byte, n)
	for i := range b {
		b[i] = byte(r.Next())
		if b[i] == '-' || b[i] == '\r' || b[i] == '\n' {
			b[i] = '_'
		}
	}
	return b
}

func seq(n int, salt byte) []byte {
	b := make([]byte, n)
	for i := range b {
		b[i] = byte(i+1) ^ salt
		if b[i] == '-' || b[i] == '\r' || b[i] == '\n' {
			b[i] = '_'
		}
	}
	return b
}

// parseRsCorpus: `<cfg> <sizes a,b> <slots per file a,b|c> <script>` per line
func parseRsCorpus(path string) []*rsCase {
	f, err := os.Open(path)
	if err != nil {
		return nil
	}
	defer f.Close()
	var res []*rsCase
	sc := bufio.NewScanner(f)
	ln := 0
	for sc.Scan() {
		ln++
		line := strings.TrimSpace(sc.Text())
		if line == "" || strings.HasPrefix(line, "#") {
			continue
		}
		fs := strings.Fields(line)
		if len(fs) != 4 {
			panic(fmt.Sprintf("harness: %s:%d: want 4 fields", path, ln))
		}
		c := &rsCase{cfg: fs[0], desc: fmt.Sprintf("corpus:%d", ln)}
		for i, s := range strings.Split(fs[1], ",") {
			n, err := strconv.Atoi(s)
			if err != nil {
				panic(fmt.Sprintf("harness: %s:%d: %v", path, ln, err))
			}
			c.files = append(c.files, seq(n, byte(i*64)))
		}
		for _, g := range strings.Split(fs[2], "|") {
			var ss []int
			for _, s := range strings.Split(g, ",") {
				n, err := strconv.Atoi(s)
				if err != nil || n < 0 || n >= len(rsSlotPath) {
					panic(fmt.Sprintf("harness: %s:%d: bad slot %q", path, ln, s))
				}
				ss = append(ss, n)
			}
			c.slots = append(c.slots, ss)
		}
		if len(c.slots) != len(c.files) {
			panic(fmt.Sprintf("harness: %s:%d: %d files, %d slot groups", path, ln, len(c.files), len(c.slots)))
		}
		nr := 0
		for _, ss := range c.slots {
			nr += len(ss)
		}
		for _, t := range strings.Split(fs[3], ",") {
			o, err := parseRsOp(t)
			if err != nil || o.k >= nr {
				panic(fmt.Sprintf("harness: %s:%d: bad op %q", path, ln, t))
			}
			c.script = append(c.script, o)
		}
		res = append(res, c)
	}
	return res
}

func rsMode(r *rng.R, n int, tmpdir string, corpus string) {
	os.Setenv("TMPDIR", tmpdir)
	cleanTmp(tmpdir)
	if corpus != "" {
		for _, c := range parseRsCorpus(corpus) {
			c.run(tmpdir)
		}
	}
	rd := func(k, n int) rsOp { return rsOp{k: k, read: true, n: n} }
	sk := func(k, w int, off int64) rsOp { return rsOp{k: k, whence: w, off: off} }

	// ---- systematic: every whence x every target position relative to the file, from every kind of current position
	for _, cfg := range []string{"mem", "disk", "chunked"} {
		for _, L := range []int{0, 1, 3, 10} {
			if cfg == "chunked" && L != 3 {
				continue
			}
			pres := map[int]bool{}
			for _, pre := range []int{0, 1, L, L + 2} { // L+2: the current position is behind the end already
				if pres[pre] {
					continue
				}
				pres[pre] = true
				for whence := 0; whence <= 2; whence++ {
					seen := map[int]bool{}
					for _, target := range []int{-1, 0, L / 2, L - 1, L, L + 1, L + 6} {
						if seen[target] {
							continue
						}
						seen[target] = true
						var s []rsOp
						cur := 0
						if pre > L {
							s = append(s, sk(0, 0, int64(pre)))
							cur = pre
						} else if pre > 0 {
							s = append(s, rd(0, pre))
							cur = pre
						}
						base := []int{0, cur, L}[whence]
						s = append(s, sk(0, whence, int64(target-base)), rd(0, 4), rd(0, 4), sk(0, 1, 0), rd(0, 0), sk(0, 0, 0), rd(0, L+2), rd(0, 1))
						c := &rsCase{files: [][]byte{seq(L, 0)}, slots: [][]int{{2}}, cfg: cfg, script: s,
							desc: fmt.Sprintf("sweep len=%d from=%d whence=%d to=%d", L, cur, whence, target)}
						c.run(tmpdir)
					}
				}
			}
		}
	}
	// ---- one file mapped to three variables, a second file beside it: each reader positioned differently, read interleaved
	for _, cfg := range []string{"mem", "disk"} {
		for _, L := range []int{0, 5, 16} {
			var s []rsOp
			for k := 0; k < 4; k++ {
				s = append(s, sk(k, 0, int64(k*L/2))) // 0, L/2, L, 3L/2 (behind the end)
			}
			for round := 0; round < 3; round++ {
				for k := 3; k >= 0; k-- {
					s = append(s, rd(k, 3))
				}
			}
			for k := 0; k < 4; k++ {
				s = append(s, sk(k, 2, int64(-k)), rd(k, 2), sk(k, 1, 0))
			}
			c := &rsCase{files: [][]byte{seq(L, 0), seq(L+1, 0x40)}, slots: [][]int{{0, 3, 6}, {1}}, cfg: cfg, script: s, desc: fmt.Sprintf("interleaved len=%d", L)}
			c.run(tmpdir)
		}
	}

	// ---- generated
	lens := []int{0, 1, 2, 3, 7, 8, 16, 33, 64, 300, 5000}
	for i := 0; i < n; i++ {
		c := &rsCase{cfg: []string{"mem", "mem", "disk", "disk", "chunked"}[r.Below(5)], desc: fmt.Sprintf("rand-%d", i)}
		nf := 1 + r.Below(2)
		perm := []int{0, 1, 2, 3, 4, 5, 6}
		for j := len(perm) - 1; j > 0; j-- {
			k := r.Below(j + 1)
			perm[j], perm[k] = perm[k], perm[j]
		}
		var lenOf []int // per reader, by slot order
		type rd2 struct{ slot, L int }
		var rds []rd2
		for f := 0; f < nf; f++ {
			L := lens[r.Below(len(lens)-2)]
			if r.Below(12) == 0 {
				L = lens[len(lens)-2+r.Below(2)]
			}
			c.files = append(c.files, rsContent(r, L))
			np := 1
			if r.Below(2) == 0 {
				np = 2 + r.Below(2)
			}
			var ss []int
			for j := 0; j < np; j++ {
				ss = append(ss, perm[0])
				rds = append(rds, rd2{perm[0], L})
				perm = perm[1:]
			}
			c.slots = append(c.slots, ss)
		}
		sort.Slice(rds, func(a, b int) bool { return rds[a].slot < rds[b].slot })
		for _, x := range rds {
			lenOf = append(lenOf, x.L)
		}
		nops := 4 + r.Below(13)
		for j := 0; j < nops; j++ {
			k := r.Below(len(lenOf))
			L := lenOf[k]
			if r.Below(5) < 2 {
				sizes := []int{0, 1, 2, 3, L - 1, L, L + 1, 2*L + 1, 512, 4096, r.Below(40)}
				sz := sizes[r.Below(len(sizes))]
				if sz < 0 {
					sz = 0
				}
				c.script = append(c.script, rd(k, sz))
				continue
			}
			l64 := int64(L)
			offs := []int64{-l64 - 1, -l64, -1, 0, 1, l64 - 1, l64, l64 + 1, l64 + 6, 2 * l64, 512, -512, int64(r.Below(40)) - 10}
			whs := []int{0, 1, 2, 0, 1, 2, 0, 1, 2, -1, 5, 7}
			if c.cfg != "disk" {
				// int64 extremes and the Linux-only whence values 3/4 (SEEK_DATA/SEEK_HOLE) mean something to a file
				// descriptor that depends on the file system; they are sent to the in-memory reader only
				offs = append(offs, math.MaxInt64, math.MinInt64, math.MaxInt64-l64, math.MinInt64+1, 1<<62, -(1 << 62))
				whs = append(whs, 3, 4)
			}
			c.script = append(c.script, sk(k, whs[r.Below(len(whs))], offs[r.Below(len(offs))]))
		}
		for k := range lenOf { // where did everybody end up, and what is left from there
			c.script = append(c.script, sk(k, 1, 0), rd(k, 8))
		}
		c.run(tmpdir)
	}
}
