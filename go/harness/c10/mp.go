package main

import (
	"bytes"
	"encoding/json"
	"fmt"
	"io"
	"mime/multipart"
	"net/http"
	"net/http/httptest"
	"os"
	"sort"
	"strings"

	"github.com/99designs/gqlgen/graphql/handler/transport"
	"verifharness/internal/rng"
)

const boundary = "XbOuNdArYx"

type part struct {
	name, filename, ctype string
	content               []byte
	rawHeader             string // when set, replaces the generated header block
}

type mpCase struct {
	maxUp, maxMem int64
	chunked       bool
	std           bool // operations carries the standard mutation
	parts         []part
	corrupt       string // "", or the kind of MIME-level corruption applied to the assembled body
	noTmp         bool   // TMPDIR points to a directory that does not exist
	truncAt       int
	ctHeader      string // Content-Type of the request
	desc          string
}

type rawMirror struct {
	Query         string         `json:"query"`
	OperationName string         `json:"operationName"`
	Variables     map[string]any `json:"variables"`
	Extensions    map[string]any `json:"extensions"`
	Headers       http.Header    `json:"headers"`
}

// encAny turns a decoded JSON value into the driver's token encoding.
func encAny(v any, b *[]string) {
	switch x := v.(type) {
	case nil:
		*b = append(*b, "n")
	case bool:
		if x {
			*b = append(*b, "t")
		} else {
			*b = append(*b, "f")
		}
	case json.Number:
		*b = append(*b, "i"+string(x))
	case string:
		*b = append(*b, "s"+hx(x))
	case []any:
		*b = append(*b, fmt.Sprintf("a%d", len(x)))
		for _, k := range x {
			encAny(k, b)
		}
	case map[string]any:
		keys := make([]string, 0, len(x))
		for k := range x {
			keys = append(keys, k)
		}
		sort.Strings(keys)
		*b = append(*b, fmt.Sprintf("o%d", len(x)))
		for _, k := range keys {
			*b = append(*b, "k"+hx(k))
			encAny(x[k], b)
		}
	}
}

// opsClass: outcome class of decoding the operations field (library code: encoding/json).
// errAfter yields data and then the read error the MIME reader reported (nil: EOF).
type errAfter struct {
	r   io.Reader
	err error
}

func (e *errAfter) Read(p []byte) (int, error) {
	n, err := e.r.Read(p)
	if err == io.EOF && e.err != nil {
		err = e.err
	}
	return n, err
}

func opsClass(data []byte, rerr error) (string, bool) {
	var m rawMirror
	dec := json.NewDecoder(&errAfter{bytes.NewReader(data), rerr})
	dec.UseNumber()
	if err := dec.Decode(&m); err != nil {
		return "E", false
	}
	std := m.Query == stdMutation && m.OperationName == ""
	if m.Variables == nil {
		return "VN", std
	}
	var b []string
	encAny(map[string]any(m.Variables), &b)
	return "V" + strings.Join(b, ","), std
}

func mapClass(data []byte, rerr error) string {
	m := map[string][]string{}
	if err := json.NewDecoder(&errAfter{bytes.NewReader(data), rerr}).Decode(&m); err != nil {
		return "E"
	}
	keys := make([]string, 0, len(m))
	for k := range m {
		keys = append(keys, k)
	}
	sort.Strings(keys)
	var es []string
	for _, k := range keys {
		var ps []string
		for _, p := range m[k] {
			ps = append(ps, hx(p))
		}
		es = append(es, hx(k)+"="+strings.Join(ps, "|"))
	}
	return "M" + strings.Join(es, "&")
}

// selfDelim: does the first JSON value of data end with '}' (the decoder needs no look-ahead to
// finish it)? Literals such as null are only complete once the decoder sees the end of the part.
func selfDelim(data []byte) byte {
	dec := json.NewDecoder(bytes.NewReader(data))
	var v json.RawMessage
	if err := dec.Decode(&v); err != nil {
		return '1'
	}
	t := bytes.TrimSpace(v)
	if len(t) > 0 && t[len(t)-1] == '}' {
		return '1'
	}
	return '0'
}

func (p *part) header() string {
	if p.rawHeader != "" {
		return p.rawHeader
	}
	h := fmt.Sprintf("Content-Disposition: form-data; name=%q", p.name)
	if p.filename != "" {
		h += fmt.Sprintf("; filename=%q", p.filename)
	}
	h += "\r\n"
	if p.ctype != "" {
		h += "Content-Type: " + p.ctype + "\r\n"
	}
	return h
}

// assemble returns the body and, per part, the overhead bytes before its content.
func assemble(ps []part) ([]byte, []int, int) {
	var b bytes.Buffer
	var hdr []int
	for i := range ps {
		start := b.Len()
		if i > 0 {
			b.WriteString("\r\n")
		}
		b.WriteString("--" + boundary + "\r\n")
		b.WriteString(ps[i].header())
		b.WriteString("\r\n")
		hdr = append(hdr, b.Len()-start)
		b.Write(ps[i].content)
	}
	tail := "\r\n--" + boundary + "--\r\n"
	if len(ps) == 0 {
		tail = "--" + boundary + "--\r\n"
	}
	b.WriteString(tail)
	return b.Bytes(), hdr, len(tail)
}

var mpClasses = []struct{ pre, cls string }{
	{"failed to parse multipart form, request body too large", "too-large"},
	{"failed to parse multipart form", "bad-multipart"},
	{"first part must be operations", "first-not-ops"},
	{"operations form field could not be decoded", "ops-decode"},
	{"second part must be map", "second-not-map"},
	{"map form field could not be decoded", "map-decode"},
	{"failed to parse part", "part-error"},
	{"invalid empty operations paths list for key", "empty-paths"},
	{"failed to read file for key", "read-file"},
	{"failed to create temp file", "create-temp"},
	{"failed to copy to temp file", "copy-temp"},
	{"invalid operations paths for key", "au-prefix"},
	{"path is missing", "au-nilptr"},
	{"invalid upload path", "au-badpath"},
	{"failed to get key", "missing-key"},
	{"transport not supported", "no-transport"},
	{"internal system error", "recovered-panic"},
}

type respShape struct {
	Errors []struct {
		Message string `json:"message"`
	} `json:"errors"`
	Data json.RawMessage `json:"data"`
}

// classify the response body: well-formed JSON object with errors (class by message) or data.
func classifyBody(body []byte) (string, string) {
	var rs respShape
	dec := json.NewDecoder(bytes.NewReader(body))
	if err := dec.Decode(&rs); err != nil {
		return "malformed-response", string(body)
	}
	if dec.More() {
		return "malformed-response", string(body)
	}
	if len(rs.Errors) > 0 {
		msg := rs.Errors[0].Message
		for _, c := range mpClasses {
			if strings.HasPrefix(msg, c.pre) {
				return c.cls, msg
			}
		}
		return "gql-error", msg
	}
	if len(rs.Data) > 0 && string(rs.Data) != "null" {
		return "exec", ""
	}
	return "malformed-response", string(body)
}

func (c *mpCase) run(tmpdir string) {
	body, hdr, tail := assemble(c.parts)
	switch c.corrupt {
	case "truncate":
		body = body[:len(body)*2/3]
	case "truncate-at":
		if c.truncAt < len(body) {
			body = body[:c.truncAt]
		}
	case "truncate-tail":
		body = body[:len(body)-tail]
	case "garbage":
		body = []byte("this is not a multipart body\r\n")
	case "empty":
		body = nil
	case "wrong-boundary":
		body = bytes.ReplaceAll(body, []byte(boundary), []byte("other"))
	case "lf-only":
		body = bytes.ReplaceAll(body, []byte("\r\n"), []byte("\n"))
	}
	ct := c.ctHeader
	if ct == "" {
		ct = "multipart/form-data; boundary=" + boundary
	}

	// ---- events for the model: names from the MIME library run as an oracle over the same bytes
	type ev struct {
		name, filename, ctype string
		size                  int
		fault                 byte
		data                  []byte
		rerr                  error
	}
	var evs []ev
	term := "eof"
	mr := multipart.NewReader(bytes.NewReader(body), boundary)
	for {
		p, err := mr.NextPart()
		if err == io.EOF {
			break
		}
		if err != nil {
			term = "err"
			break
		}
		data, rerr := io.ReadAll(p)
		e := ev{name: p.FormName(), filename: p.FileName(), ctype: p.Header.Get("Content-Type"), size: len(data), fault: 'n', data: data}
		if rerr != nil {
			e.fault = 'r'
			e.rerr = rerr
		}
		evs = append(evs, e)
	}
	geometry := c.corrupt == ""
	if geometry && len(evs) != len(c.parts) {
		panic(fmt.Sprintf("harness: oracle sees %d parts, built %d (%s)", len(evs), len(c.parts), c.desc))
	}
	ops, mp, std := "-", "-", false
	sd := []byte("11")
	if len(evs) > 0 {
		ops, std = opsClass(evs[0].data, evs[0].rerr)
		sd[0] = selfDelim(evs[0].data)
	}
	if len(evs) > 1 {
		mp = mapClass(evs[1].data, evs[1].rerr)
		sd[1] = selfDelim(evs[1].data)
	}
	var pe []string
	for i, e := range evs {
		h := 0
		if geometry {
			h = hdr[i]
		}
		pe = append(pe, fmt.Sprintf("%s:%s:%s:%d:%d:%c", hx(e.name), hx(e.filename), hx(e.ctype), h, e.size, e.fault))
	}
	if len(pe) == 0 {
		pe = []string{"-"}
	}
	cl := int64(len(body))
	if c.chunked {
		cl = -1
	}
	if !geometry {
		tail = 0
	}
	fault := "-"
	if c.noTmp {
		fault = "C"
	}
	ctClass := "ok"
	if c.ctHeader != "" {
		ctClass = "nobound"
	}
	q := "Q0"
	if std {
		q = "Q1"
	}
	enc := fmt.Sprintf("%d %d %d %d %d %s %s %s %s %s %s %s %s", c.maxUp, c.maxMem, cl, len("\r\n--"+boundary), tail, fault, ctClass, q, ops, mp, sd, strings.Join(pe, ";"), term)

	// ---- the real thing
	e := &env{tmpdir: tmpdir}
	srv := newServer(e, transport.MultipartForm{MaxUploadSize: c.maxUp, MaxMemory: c.maxMem})
	req := httptest.NewRequest("POST", "/graphql", bytes.NewReader(body))
	req.Header.Set("Content-Type", ct)
	req.ContentLength = cl
	if c.noTmp {
		os.Setenv("TMPDIR", tmpdir+"/does-not-exist")
	}
	rec := httptest.NewRecorder()
	func() {
		defer func() {
			if r := recover(); r != nil {
				e.recovers += 1000 // escaped even the server's recover
				e.panics = append(e.panics, fmt.Sprint(r))
			}
		}()
		srv.ServeHTTP(rec, req)
	}()
	os.Setenv("TMPDIR", tmpdir)
	cls, msg := classifyBody(rec.Body.Bytes())
	tmpAfter := lsTmp(tmpdir)
	tree, readers, during := "-", "-", 0
	if e.seen != nil {
		during = e.seen.tmpDuring
		tree = e.seen.tree
		// identify each upload seen by user code with the part it must have come from
		var rs []string
		for i, u := range e.seen.ups {
			pi := -1
			for j, p := range evs {
				if j >= 2 && u.Name == p.filename && u.CT == p.ctype && u.Size == int64(p.size) && u.Hex == digest(p.data) {
					pi = j
					break
				}
			}
			k := "m"
			if u.IsFile {
				k = "f"
			}
			ind := "i"
			if !u.Indep {
				ind = "SHARED"
			}
			if u.NoEOF {
				ind = "NOEOF"
			}
			rs = append(rs, fmt.Sprintf("%d:%d:%s:%s", i, pi, k, ind))
		}
		if len(rs) > 0 {
			readers = strings.Join(rs, ",")
		}
	}
	pan := "-"
	if len(e.panics) > 0 {
		pan = hx(strings.Join(e.panics, " | "))
	}
	cleanTmp(tmpdir)
	fmt.Fprintf(out, "mp\t%s\t%d\t%s\t%d\t%d\t%d\t%s\t%s\t%s\t%s\t%s\n", enc, rec.Code, cls, e.recovers, tmpAfter, during, tree, readers, pan, hx(msg), c.desc)
}

func cleanTmp(dir string) []string {
	es, _ := os.ReadDir(dir)
	var names []string
	for _, e := range es {
		names = append(names, e.Name())
		os.RemoveAll(dir + "/" + e.Name())
	}
	return names
}

func content(r *rng.R, idx int) []byte {
	sizes := []int{0, 1, 7, 20, 300, 5000, 70000}
	n := sizes[r.Below(len(sizes))]
	if r.Below(3) != 0 {
		n = r.Below(40)
	}
	b := make([]byte, n)
	for i := range b {
		b[i] = byte(r.Next())
		// keep the boundary out of the content
		if b[i] == '-' {
			b[i] = '_'
		}
	}
	return append(b, []byte(fmt.Sprintf("#%d", idx))...)
}

func opsJSON(t *node, q string) []byte {
	qb, _ := json.Marshal(q)
	if t == nil {
		return []byte(fmt.Sprintf(`{"query":%s}`, qb))
	}
	return []byte(fmt.Sprintf(`{"query":%s,"variables":%s}`, qb, t.json()))
}

func mapJSON(keys []string, paths [][]string) []byte {
	var es []string
	for i, k := range keys {
		kb, _ := json.Marshal(k)
		pb, _ := json.Marshal(paths[i])
		if paths[i] == nil {
			pb = []byte("[]")
		}
		es = append(es, string(kb)+":"+string(pb))
	}
	return []byte("{" + strings.Join(es, ",") + "}")
}

func validCase(r *rng.R) (*mpCase, *node, []string, [][]string) {
	t := randTree(r, 3, true)
	// make sure there usually is a null leaf under a declared name
	if r.Bool() {
		has := false
		for _, k := range t.keys {
			if k == "file" {
				has = true
			}
		}
		if !has {
			t.keys = append(t.keys, "file")
			t.kids = append(t.kids, null())
		}
	}
	pos := positions(t)
	nf := r.Below(4)
	var keys []string
	var paths [][]string
	used := map[string]bool{}
	for i := 0; i < nf; i++ {
		keys = append(keys, fmt.Sprint(i))
		np := 1
		if r.Below(3) == 0 {
			np = 2 + r.Below(2)
		}
		var ps []string
		for j := 0; j < np; j++ {
			// well-formed: distinct, prefix-independent positions (leaf positions)
			for try := 0; try < 10; try++ {
				p := pos[r.Below(len(pos))]
				s := "variables." + strings.Join(p, ".")
				ok := true
				for u := range used {
					if u == s || strings.HasPrefix(u, s+".") || strings.HasPrefix(s, u+".") {
						ok = false
					}
				}
				if ok {
					used[s] = true
					ps = append(ps, s)
					break
				}
			}
		}
		if len(ps) == 0 {
			keys = keys[:len(keys)-1]
			continue
		}
		paths = append(paths, ps)
	}
	c := &mpCase{std: true}
	c.parts = append(c.parts, part{name: "operations", content: opsJSON(t, stdMutation)})
	c.parts = append(c.parts, part{name: "map", content: mapJSON(keys, paths)})
	for i, k := range keys {
		c.parts = append(c.parts, part{name: k, filename: fmt.Sprintf("f%d.txt", i), ctype: []string{"text/plain", "application/octet-stream", ""}[r.Below(3)], content: content(r, i+2)})
	}
	return c, t, keys, paths
}

func bodyLen(c *mpCase) int64 {
	b, _, _ := assemble(c.parts)
	return int64(len(b))
}

func mpMode(r *rng.R, n int, tmpdir string) {
	os.Setenv("TMPDIR", tmpdir)
	cleanTmp(tmpdir)

	mk := func(ops, mp string, files ...part) *mpCase {
		c := &mpCase{}
		c.parts = append(c.parts, part{name: "operations", content: []byte(ops)}, part{name: "map", content: []byte(mp)})
		c.parts = append(c.parts, files...)
		return c
	}
	stdOps := func(vars string) string {
		qb, _ := json.Marshal(stdMutation)
		if vars == "" {
			return fmt.Sprintf(`{"query":%s}`, qb)
		}
		return fmt.Sprintf(`{"query":%s,"variables":%s}`, qb, vars)
	}
	f := func(key, content string) part {
		return part{name: key, filename: key + ".txt", ctype: "text/plain", content: []byte(content)}
	}
	// ---- directed
	directed := []*mpCase{
		mk(stdOps(`{"file":null}`), `{"0":["variables.file"]}`, f("0", "hello")),
		mk(stdOps(`{"file":null,"b":null}`), `{"0":["variables.file","variables.b"]}`, f("0", "shared content")),
		mk(stdOps(`{"files":[null,null]}`), `{"0":["variables.files.0"],"1":["variables.files.1"]}`, f("0", "zero"), f("1", "one")),
		mk(stdOps(`{"files":[null,null]}`), `{"0":["variables.files.0"],"1":["variables.files.1"]}`, f("1", "one"), f("0", "zero")),
		mk(stdOps(`{"a":[null]}`), `{"0":["variables.a.5"]}`, f("0", "x")),
		mk(stdOps(`{"a":[null]}`), `{"0":["variables.a.-1"]}`, f("0", "x")),
		mk(stdOps(`{"a":"str"}`), `{"0":["variables.a.x"]}`, f("0", "x")),
		mk(stdOps(`{"a":{"k":null}}`), `{"0":["variables.a.0"]}`, f("0", "x")),
		mk(stdOps(``), `{"0":["variables.file"]}`, f("0", "x")),
		mk(stdOps(`null`), `{"0":["variables.file"]}`, f("0", "x")),
		mk(`null`, `{"0":["variables.file"]}`, f("0", "x")),
		mk(`null`, `{}`),
		mk(stdOps(`{"file":null}`), `{"0":["variables.file","variables.file.x"]}`, f("0", "x")),
		mk(stdOps(`{"file":null}`), `{"0":["file"]}`, f("0", "x")),
		mk(stdOps(`{"file":null}`), `{"0":[]}`, f("0", "x")),
		mk(stdOps(`{"file":null}`), `{"0":[]}`),
		mk(stdOps(`{"file":null}`), `{"0":["variables.file"]}`),
		mk(stdOps(`{"file":null}`), `{"0":["variables.file"]}`, f("0", "x"), f("0", "again")),
		mk(stdOps(`{"file":null}`), `{"0":["variables.file"]}`, f("9", "x")),
		mk(stdOps(`{"file":null}`), `null`, f("0", "x")),
		mk(stdOps(`{"file":null}`), `{"0":"variables.file"}`, f("0", "x")),
		mk(stdOps(`{"file":null}`), `[]`, f("0", "x")),
		mk(stdOps(`{"file":null}`), `{"0":[1]}`, f("0", "x")),
		mk(stdOps(`{"file":null}`), `{"0":[null]}`, f("0", "x")),
		mk(`{"query":5}`, `{}`),
		mk(`{"variables":[]}`, `{}`),
		mk(`[]`, `{}`),
		mk(`{`, `{}`),
		mk(``, `{}`),
		mk(stdOps(`{"file":null}`)+" trailing", `{"0":["variables.file"]}`, f("0", "x")),
		mk(`{"query":"{ name }"}`, `{}`),
		mk(`{"query":"{ nope }"}`, `{}`),
		mk(`{"query":"query { name "}`, `{}`),
	}
	for i, c := range directed {
		c.desc = fmt.Sprintf("directed-%d", i)
		c.run(tmpdir)
		// the same through the temp-file path, chunked, and with the temp dir missing
		c2 := *c
		c2.maxMem = 1
		c2.desc += "-spill"
		c2.run(tmpdir)
		c3 := *c
		c3.chunked = true
		c3.desc += "-chunked"
		c3.run(tmpdir)
		c4 := *c
		c4.maxMem = 1
		c4.noTmp = true
		c4.desc += "-notmp"
		c4.run(tmpdir)
	}
	// structure: wrong order / missing parts / odd headers / MIME corruption
	v0, _, _, _ := validCase(rng.New(7))
	for _, k := range []string{"truncate", "truncate-tail", "garbage", "empty", "wrong-boundary", "lf-only"} {
		c := *v0
		c.corrupt = k
		c.desc = "corrupt-" + k
		c.run(tmpdir)
		c.maxMem = 1
		c.desc += "-spill"
		c.run(tmpdir)
	}
	{
		c := *v0
		c.ctHeader = "multipart/form-data"
		c.desc = "no-boundary-param"
		c.run(tmpdir)
		c = *v0
		c.parts = nil
		c.desc = "no-parts"
		c.run(tmpdir)
		c = *v0
		c.parts = []part{v0.parts[1], v0.parts[0]}
		c.desc = "map-first"
		c.run(tmpdir)
		c = *v0
		c.parts = []part{v0.parts[0]}
		c.desc = "ops-only"
		c.run(tmpdir)
		c = *v0
		c.parts = append([]part{}, v0.parts...)
		c.parts[0].rawHeader = "X-Nothing: 1\r\n"
		c.desc = "no-content-disposition"
		c.run(tmpdir)
		c = *mk(stdOps(`{"file":null}`), `{"0":["variables.file"]}`, part{name: "0", rawHeader: "Content-Disposition: form-data; name=\"0\"; filename=\"we ird\\\".tx;t\"\r\nContent-Type: text/x; charset=\"u\"\r\n", content: []byte("odd header")})
		c.desc = "odd-filename"
		c.run(tmpdir)
	}
	// size limits: sweep MaxUploadSize across every byte offset region of a body, declared and chunked
	{
		c := mk(stdOps(`{"file":null,"b":null}`), `{"0":["variables.file"],"1":["variables.b"]}`, f("0", strings.Repeat("A", 100)), f("1", strings.Repeat("B", 50)))
		c.std = true
		total := bodyLen(c)
		for lim := total - 330; lim <= total+2; lim++ {
			if lim < 1 {
				continue
			}
			for _, ch := range []bool{false, true} {
				for _, mm := range []int64{0, 1, -5} {
					cc := *c
					cc.maxUp = lim
					cc.maxMem = mm
					cc.chunked = ch
					cc.desc = fmt.Sprintf("limit-sweep-%d", lim-total)
					cc.run(tmpdir)
				}
			}
		}
		// truncated bodies (client hangs up): every 5th offset, in memory and spilling
		for at := 0; at < int(total); at += 5 {
			for _, mm := range []int64{0, 1} {
				cc := *c
				cc.maxMem = mm
				cc.corrupt = "truncate-at"
				cc.truncAt = at
				cc.desc = fmt.Sprintf("truncate-at-%d", at)
				cc.run(tmpdir)
			}
		}
	}
	// ---- seeded: mostly valid requests, structurally mutated
	for i := 0; i < n; i++ {
		c, t, keys, paths := validCase(r)
		c.desc = "rand"
		switch r.Below(10) {
		case 0, 1, 2, 3: // stay well-formed
		case 4: // mutate one path
			if len(paths) > 0 {
				k := r.Below(len(paths))
				paths[k][r.Below(len(paths[k]))] = randPath(r, t)
				c.parts[1].content = mapJSON(keys, paths)
				c.desc = "mut-path"
			}
		case 5: // shuffle file parts / duplicate / drop / extra
			if len(c.parts) > 2 {
				switch r.Below(4) {
				case 0:
					c.parts = append(c.parts, c.parts[2+r.Below(len(c.parts)-2)])
					c.desc = "dup-part"
				case 1:
					c.parts = c.parts[:len(c.parts)-1]
					c.desc = "drop-part"
				case 2:
					c.parts = append(c.parts, part{name: "zz", filename: "z", content: []byte("extra")})
					c.desc = "extra-part"
				case 3:
					i, j := 2+r.Below(len(c.parts)-2), 2+r.Below(len(c.parts)-2)
					c.parts[i], c.parts[j] = c.parts[j], c.parts[i]
					c.desc = "swap-parts"
				}
			}
		case 6: // operations mutated
			alts := []string{`null`, `{}`, `[]`, `"s"`, `{"query":null}`, `{"variables":null}`, `{"query":"{ name }","variables":` + t.json() + `}`,
				`{"query":1}`, `{"variables":1}`, ``, `{"query":"x"`, string(c.parts[0].content) + `}`, `{"variables":` + t.json() + `}`}
			c.parts[0].content = []byte(alts[r.Below(len(alts))])
			c.desc = "mut-ops"
		case 7: // map mutated
			alts := []string{`null`, `{}`, `[]`, `{"0":null}`, `{"0":[]}`, `{"0":"variables.file"}`, `{"0":[0]}`, ``, `{"0":["variables.file"]`, `{"":["variables.file"]}`,
				`{"0":["variables.file"],"0":["variables.b"]}`, `{"operations":["variables.file"]}`, `{"map":["variables.file"]}`}
			c.parts[1].content = []byte(alts[r.Below(len(alts))])
			c.desc = "mut-map"
		case 8: // part names
			k := r.Below(len(c.parts))
			c.parts[k].name = []string{"", "operations", "map", "0", "1", "x"}[r.Below(6)]
			c.desc = "mut-name"
		case 9: // order
			i, j := r.Below(len(c.parts)), r.Below(len(c.parts))
			c.parts[i], c.parts[j] = c.parts[j], c.parts[i]
			c.desc = "mut-order"
		}
		total := bodyLen(c)
		switch r.Below(8) {
		case 0:
			c.maxMem = 1
		case 1:
			c.maxMem = total
		case 2:
			c.maxMem = total + 1
		case 3:
			c.maxMem = 1
			c.chunked = true
		case 4:
			c.chunked = true
		}
		switch r.Below(10) {
		case 0:
			c.maxUp = total
		case 1:
			c.maxUp = total - 1
		case 2:
			if total > 60 {
				c.maxUp = total - int64(r.Below(60))
			}
		case 3:
			c.maxUp = int64(1 + r.Below(int(total)))
		}
		if c.maxMem == 1 && r.Below(12) == 0 {
			c.noTmp = true
		}
		if r.Below(25) == 0 {
			c.corrupt = []string{"truncate", "truncate-tail", "lf-only"}[r.Below(3)]
			c.maxUp = 0
		}
		c.run(tmpdir)
	}
}
