package main

import (
	"encoding/json"
	"fmt"
	"io"
	"log"
	"net/http"
	"net/http/httptest"
	"strings"
	"sync"
	"time"

	"github.com/99designs/gqlgen/graphql/handler/transport"
	"github.com/gorilla/websocket"
	"verifharness/internal/rng"
)

var mu sync.Mutex

type wsResult struct {
	frames []string // type[:id] of each well-formed frame received, "BAD" for a frame that is not a JSON object with a type
	closed string   // "", "close:<code>", "eof", "timeout"
}

func readFrames(c *websocket.Conn, until func(typ, id string) bool, res *wsResult, d time.Duration) bool {
	for {
		c.SetReadDeadline(time.Now().Add(d))
		_, data, err := c.ReadMessage()
		if err != nil {
			if ce, ok := err.(*websocket.CloseError); ok {
				res.closed = fmt.Sprintf("close:%d", ce.Code)
			} else if strings.Contains(err.Error(), "timeout") {
				res.closed = "timeout"
			} else {
				res.closed = "eof"
			}
			return false
		}
		var m struct {
			Type    *string         `json:"type"`
			ID      string          `json:"id"`
			Payload json.RawMessage `json:"payload"`
		}
		if err := json.Unmarshal(data, &m); err != nil || m.Type == nil {
			res.frames = append(res.frames, "BAD")
			continue
		}
		if *m.Type == "ka" {
			continue
		}
		f := *m.Type
		if m.ID != "" {
			f += ":" + m.ID
		}
		res.frames = append(res.frames, f)
		if until(*m.Type, m.ID) {
			return true
		}
	}
}

// payload class of a subscribe/start message for the envelope model
func wsPayloadClass(frame []byte, proto string) string {
	var m struct {
		Type    string          `json:"type"`
		ID      string          `json:"id"`
		Payload json.RawMessage `json:"payload"`
	}
	if err := json.Unmarshal(frame, &m); err != nil {
		return "-"
	}
	want := "start"
	if proto == "graphql-transport-ws" {
		want = "subscribe"
	}
	if m.Type != want {
		return "-"
	}
	if len(m.Payload) == 0 {
		return "err"
	}
	return jsonSiteClass(string(m.Payload))
}

func wsCase(url string, e *env, proto string, phase string, msgType int, frame []byte, desc string) {
	announce("ws %s %s-init frame %q (%s)", proto, phase, frame, desc)
	mu.Lock()
	e.recovers = 0
	e.panics = nil
	mu.Unlock()
	h := http.Header{}
	if proto != "" {
		h.Set("Sec-WebSocket-Protocol", proto)
	}
	c, _, err := websocket.DefaultDialer.Dial(url, h)
	res := &wsResult{}
	if err != nil {
		res.closed = "dial-error"
	} else {
		func() {
			defer c.Close()
			if phase == "post" {
				c.WriteMessage(websocket.TextMessage, []byte(`{"type":"connection_init"}`))
				if !readFrames(c, func(t, id string) bool { return t == "connection_ack" }, res, 2*time.Second) {
					return
				}
				res.frames = nil
			}
			c.WriteMessage(msgType, frame)
			// sentinel: a valid query whose completion shows the connection is still served
			sub := "start"
			if proto == "graphql-transport-ws" {
				sub = "subscribe"
			}
			if phase == "post" {
				c.WriteMessage(websocket.TextMessage, []byte(`{"type":"`+sub+`","id":"zz","payload":{"query":"{ name }"}}`))
				readFrames(c, func(t, id string) bool { return t == "complete" && id == "zz" }, res, 3*time.Second)
			} else {
				readFrames(c, func(t, id string) bool { return t == "connection_ack" }, res, 2*time.Second)
			}
		}()
	}
	time.Sleep(2 * time.Millisecond)
	mu.Lock()
	rc := e.recovers
	pan := "-"
	if len(e.panics) > 0 {
		pan = hx(strings.Join(e.panics, " | "))
	}
	mu.Unlock()
	mt := "text"
	if msgType == websocket.BinaryMessage {
		mt = "binary"
	}
	p := proto
	if p == "" {
		p = "none"
	}
	fs := strings.Join(res.frames, ",")
	if fs == "" {
		fs = "-"
	}
	cl := res.closed
	if cl == "" {
		cl = "open"
	}
	fmt.Fprintf(out, "ws\t%s %s %s\t%s\t%s\t%s\t%d\t%s\t%s\t%s\n", p, phase, wsPayloadClass(frame, proto), mt, fs, cl, rc, pan, hx(string(frame)), desc)
}

func wsMode(r *rng.R, n int) {
	e := &env{}
	srv := newServer(e, transport.Websocket{})
	ts := httptest.NewUnstartedServer(srv)
	ts.Config.ErrorLog = log.New(io.Discard, "", 0)
	ts.Start()
	defer ts.Close()
	url := "ws" + strings.TrimPrefix(ts.URL, "http")

	types := []string{`"connection_init"`, `"start"`, `"stop"`, `"connection_terminate"`, `"subscribe"`, `"complete"`, `"ping"`, `"pong"`,
		`"connection_ack"`, `"data"`, `"next"`, `"error"`, `"ka"`, `"connection_error"`, `""`, `"bogus"`, `null`, `5`, ``}
	payloads := []string{``, `null`, `{}`, `[]`, `"s"`, `5`, `true`, `{"query":"{ name }"}`, `{"query":"subscription { name }"}`, `{"query":"mutation { up }"}`,
		`{"query":5}`, `{"query":"{ nope }"}`, `{"query":"{"}`, `{"query":"{ name }","variables":[]}`, `{"query":"{ name }","variables":null}`, `{"query":null}`}
	ids := []string{`"1"`, ``, `""`, `5`, `null`, `"zz"`}
	mkFrame := func(t, p, id string) []byte {
		var fs []string
		if t != "" {
			fs = append(fs, `"type":`+t)
		}
		if id != "" {
			fs = append(fs, `"id":`+id)
		}
		if p != "" {
			fs = append(fs, `"payload":`+p)
		}
		return []byte("{" + strings.Join(fs, ",") + "}")
	}
	raw := []string{``, ` `, `null`, `[]`, `"str"`, `5`, `{`, `{}`, "\xff\xfe\x00", `{"type":"start","id":"1","payload":null} trailing`, `nul`,
		`{"type":"start","id":"1","payload":null}{"type":"start"}`, strings.Repeat("[", 12000), `{"type":"subscribe","id":"1","payload":` + strings.Repeat("[", 12000) + `}`}
	protos := []string{"graphql-ws", "graphql-transport-ws"}
	for _, proto := range protos {
		// every type x every payload after init, id "1"
		for _, t := range types {
			for _, p := range payloads {
				wsCase(url, e, proto, "post", websocket.TextMessage, mkFrame(t, p, `"1"`), "type-x-payload")
			}
		}
		// every id shape on the subscribe / stop messages
		for _, t := range []string{`"start"`, `"subscribe"`, `"stop"`, `"complete"`} {
			for _, id := range ids {
				for _, p := range []string{`null`, `{"query":"{ name }"}`, ``} {
					wsCase(url, e, proto, "post", websocket.TextMessage, mkFrame(t, p, id), "id-shapes")
				}
			}
		}
		// raw frames, text and binary, before and after init
		for _, f := range raw {
			for _, mt := range []int{websocket.TextMessage, websocket.BinaryMessage} {
				wsCase(url, e, proto, "post", mt, []byte(f), "raw")
				wsCase(url, e, proto, "pre", mt, []byte(f), "raw")
			}
		}
		// first message of every type / a few payloads (init payload shapes included)
		for _, t := range types {
			for _, p := range []string{``, `null`, `{}`, `5`, `[]`, `{"query":"{ name }"}`} {
				wsCase(url, e, proto, "pre", websocket.TextMessage, mkFrame(t, p, `"1"`), "first-message")
			}
		}
		for i := 0; i < n; i++ {
			f := mkFrame(types[r.Below(len(types))], payloads[r.Below(len(payloads))], ids[r.Below(len(ids))])
			if r.Below(3) == 0 {
				f = []byte(mutate(r, string(f)))
			}
			mt := websocket.TextMessage
			if r.Below(4) == 0 {
				mt = websocket.BinaryMessage
			}
			ph := "post"
			if r.Below(4) == 0 {
				ph = "pre"
			}
			wsCase(url, e, proto, ph, mt, f, "rand")
		}
	}
	// no / unsupported subprotocol
	wsCase(url, e, "", "post", websocket.TextMessage, []byte(`{"type":"start","id":"1","payload":null}`), "no-subprotocol")
	wsCase(url, e, "bogus-proto", "pre", websocket.TextMessage, []byte(`{"type":"connection_init"}`), "bogus-subprotocol")
}
