package main

import (
	"context"
	"crypto/sha256"
	"encoding/hex"
	"encoding/json"
	"fmt"
	"io"
	"os"
	"sort"
	"strconv"
	"strings"

	"github.com/99designs/gqlgen/graphql"
	"github.com/99designs/gqlgen/graphql/handler"
	"github.com/vektah/gqlparser/v2"
	"github.com/vektah/gqlparser/v2/ast"
)

// The executable schema is hand written (no generated code is under test here): every variable is
// of the custom scalar Any, so arbitrary variable shapes reach "user code" unchanged. The resolvers
// never panic; the mutation reads every upload it finds in the variables.
var schema = gqlparser.MustLoadSchema(&ast.Source{Input: `
	scalar Any
	type Query { name: String! echo(v: Any): String! }
	type Mutation { up(a: Any, b: Any, file: Any, files: Any, req: Any): String! }
	type Subscription { name: String! }
`})

const stdMutation = `mutation($a: Any, $b: Any, $file: Any, $files: Any, $req: Any) { up(a:$a,b:$b,file:$file,files:$files,req:$req) }`

var declared = map[string]bool{"a": true, "b": true, "file": true, "files": true, "req": true}

type env struct {
	recovers int
	panics   []string
	tmpdir   string
	// filled by the mutation resolver
	seen *seen
	// hs mode: what reached CreateOperationContext; documents with a field without Definition seen by Exec
	reached []reach
	unval   int
	// rs mode: the script user code runs on the readers of the uploads, and what they answered
	script []rsOp
	rsObs  []string
	rsKind []string
	// wc mode: streaming subscriptions started / whose context was cancelled
	streams, ended int
}

// validated: every field / fragment spread of the operation carries the definition the validator attaches;
// a document that skipped validation does not.
func validated(set ast.SelectionSet) bool {
	for _, sel := range set {
		switch x := sel.(type) {
		case *ast.Field:
			if x.Definition == nil || x.ObjectDefinition == nil || !validated(x.SelectionSet) {
				return false
			}
		case *ast.FragmentSpread:
			if x.Definition == nil || !validated(x.Definition.SelectionSet) {
				return false
			}
		case *ast.InlineFragment:
			if x.ObjectDefinition == nil || !validated(x.SelectionSet) {
				return false
			}
		}
	}
	return true
}

type upInfo struct {
	Name, CT string
	Size     int64
	Hex      string // content as read (two interleaved halves)
	IsFile   bool
	Indep    bool // re-read after Seek(0) gives the same bytes and did not disturb the others
	NoEOF    bool // the reader kept answering 0, nil: io.ReadAll would never return
}

// readAll is io.ReadAll for a reader that may be broken: a reader that answers (0, nil) 64 times in a row is
// given up (stuck = true) instead of hanging the request for ever.
func readAll(r io.Reader) (data []byte, stuck bool) {
	buf := make([]byte, 4096)
	idle := 0
	for {
		n, err := r.Read(buf)
		data = append(data, buf[:n]...)
		if err != nil {
			return data, false
		}
		if n == 0 {
			idle++
			if idle >= 64 {
				return data, true
			}
		} else {
			idle = 0
		}
	}
}

type seen struct {
	ups       []upInfo
	tree      string
	tmpDuring int
}

func lsTmp(dir string) int {
	es, err := os.ReadDir(dir)
	if err != nil {
		return -1
	}
	return len(es)
}

func collectUploads(v any, acc *[]*graphql.Upload) any {
	switch x := v.(type) {
	case graphql.Upload:
		u := x
		*acc = append(*acc, &u)
		return &u
	case []any:
		res := make([]any, len(x))
		for i := range x {
			res[i] = collectUploads(x[i], acc)
		}
		return res
	case map[string]any:
		keys := make([]string, 0, len(x))
		for k := range x {
			keys = append(keys, k)
		}
		sort.Strings(keys)
		res := map[string]any{}
		for _, k := range keys {
			res[k] = collectUploads(x[k], acc)
		}
		return res
	}
	return v
}

func treeOutP(v any, idx map[*graphql.Upload]int) string {
	switch x := v.(type) {
	case *graphql.Upload:
		return fmt.Sprintf(`{"$u":%d}`, idx[x])
	case []any:
		var p []string
		for _, k := range x {
			p = append(p, treeOutP(k, idx))
		}
		return "[" + strings.Join(p, ",") + "]"
	case map[string]any:
		keys := make([]string, 0, len(x))
		for k := range x {
			keys = append(keys, k)
		}
		sort.Strings(keys)
		var p []string
		for _, k := range keys {
			kb, _ := json.Marshal(k)
			p = append(p, string(kb)+":"+treeOutP(x[k], idx))
		}
		return "{" + strings.Join(p, ",") + "}"
	}
	return treeOut(v, nil)
}

// readUploads: user code. Reads the first half of every upload, then the second half of every
// upload (so two paths sharing one reader would corrupt each other), then seeks the first one back
// and re-reads it.
func (e *env) readUploads(vars map[string]any) {
	var ups []*graphql.Upload
	t := collectUploads(vars, &ups)
	s := &seen{tmpDuring: lsTmp(e.tmpdir)}
	idx := map[*graphql.Upload]int{}
	bufs := make([][]byte, len(ups))
	for i, u := range ups {
		idx[u] = i
		half := make([]byte, u.Size/2)
		n, _ := io.ReadFull(u.File, half)
		bufs[i] = half[:n]
	}
	noEOF := make([]bool, len(ups))
	for i, u := range ups {
		rest, stuck := readAll(u.File)
		noEOF[i] = stuck
		bufs[i] = append(bufs[i], rest...)
	}
	for i, u := range ups {
		_, isFile := u.File.(*os.File)
		indep := true
		if _, err := u.File.Seek(0, io.SeekStart); err != nil {
			indep = false
		} else {
			again, stuck := readAll(u.File)
			noEOF[i] = noEOF[i] || stuck
			indep = string(again) == string(bufs[i])
			// every other reader must still be at EOF
			for j, o := range ups {
				if j != i {
					var one [1]byte
					if n, _ := o.File.Read(one[:]); n != 0 {
						indep = false
					}
				}
			}
		}
		s.ups = append(s.ups, upInfo{Name: u.Filename, CT: u.ContentType, Size: u.Size, Hex: digest(bufs[i]), IsFile: isFile, Indep: indep, NoEOF: noEOF[i]})
	}
	s.tree = treeOutP(t, idx)
	e.seen = s
}

func digest(b []byte) string {
	if len(b) <= 48 {
		return hex.EncodeToString(b)
	}
	h := sha256.Sum256(b)
	return fmt.Sprintf("sha:%d:%s", len(b), hex.EncodeToString(h[:8]))
}

func newServer(e *env, transports ...graphql.Transport) *handler.Server {
	srv := handler.New(&graphql.ExecutableSchemaMock{
		ExecFunc: func(ctx context.Context) graphql.ResponseHandler {
			opCtx := graphql.GetOperationContext(ctx)
			if !validated(opCtx.Operation.SelectionSet) {
				mu.Lock()
				e.unval++
				mu.Unlock()
			}
			switch opCtx.Operation.Operation {
			case ast.Mutation:
				if e.script != nil {
					e.runScript(opCtx.Variables)
				} else {
					e.readUploads(opCtx.Variables)
				}
				return graphql.OneShot(&graphql.Response{Data: []byte(`{"up":"done"}`)})
			case ast.Subscription:
				if strings.HasPrefix(opCtx.OperationName, "StreamK") {
					// an event source that never runs dry: every call delivers a frame of the size the operation name
					// says, until the operation is cancelled
					size, _ := strconv.Atoi(strings.TrimPrefix(opCtx.OperationName, "StreamK"))
					payload := []byte(`{"name":"` + strings.Repeat("x", size) + `"}`)
					mu.Lock()
					e.streams++
					mu.Unlock()
					go func() {
						<-ctx.Done()
						mu.Lock()
						e.ended++
						mu.Unlock()
					}()
					return func(ctx context.Context) *graphql.Response {
						select {
						case <-ctx.Done():
							return nil
						default:
						}
						return &graphql.Response{Data: payload}
					}
				}
				n := 0
				hold := opCtx.OperationName == "Hold"
				return func(ctx context.Context) *graphql.Response {
					n++
					if n > 1 {
						if hold { // a subscription that stays active until it is stopped or the connection ends
							<-ctx.Done()
						}
						return nil
					}
					return &graphql.Response{Data: []byte(`{"name":"test"}`)}
				}
			default:
				return graphql.OneShot(&graphql.Response{Data: []byte(`{"name":"test"}`)})
			}
		},
		SchemaFunc:     func() *ast.Schema { return schema },
		ComplexityFunc: func(ctx context.Context, typeName, fieldName string, childComplexity int, args map[string]any) (int, bool) { return 1, true },
	})
	for _, t := range transports {
		srv.AddTransport(t)
	}
	srv.SetRecoverFunc(func(ctx context.Context, err any) error {
		mu.Lock()
		defer mu.Unlock()
		e.recovers++
		e.panics = append(e.panics, fmt.Sprint(err))
		return fmt.Errorf("internal system error")
	})
	return srv
}
