package main

// Mode "wl": the SIZE (and UTF-8 shape) of client-controlled strings that the websocket transport
// echoes into protocol frames. A control frame (close) carries at most 125 payload bytes, two of
// which are the status code; data frames have no such limit. Every case is a multi-step sequence on
// one connection (init, one or two operations, a sentinel query); the string S is the operation id,
// a field name inside the query, a ping payload or the message type.
//
// Row: wl \t <proto> <scenario> <hex of S as the server decodes it> \t frames \t closed \t
//      hex(close reason) \t recovers \t panics \t desc
// frames: type[:hex(id)][=hex(message)] per well-formed frame ("BAD" otherwise).

import (
	"bufio"
	"encoding/hex"
	"encoding/json"
	"fmt"
	"io"
	"log"
	"net/http"
	"net/http/httptest"
	"os"
	"strconv"
	"strings"
	"time"
	"unicode/utf8"

	"github.com/99designs/gqlgen/graphql/handler/transport"
	"github.com/gorilla/websocket"
	"verifharness/internal/rng"
)

type wlRes struct {
	// lax: the client's own frame was not UTF-8 text and its payload is echoed verbatim (ping -> pong):
	// the answer is then not required to be UTF-8 either (observation in notes/C10.md)
	lax    bool
	frames []string
	closed string
	reason string
}

func hx0(s string) string {
	if s == "" {
		return "-"
	}
	return hex.EncodeToString([]byte(s))
}

// wlRead reads frames until `until` says stop or the connection ends.
func wlRead(c *websocket.Conn, res *wlRes, d time.Duration, until func(typ, id string) bool) bool {
	for {
		c.SetReadDeadline(time.Now().Add(d))
		_, data, err := c.ReadMessage()
		if err != nil {
			if ce, ok := err.(*websocket.CloseError); ok {
				res.closed = fmt.Sprintf("close:%d", ce.Code)
				res.reason = ce.Text
			} else if strings.Contains(err.Error(), "timeout") {
				res.closed = "timeout"
			} else if strings.Contains(err.Error(), "invalid utf8") {
				res.closed = "bad-close-utf8"
			} else if strings.Contains(err.Error(), "websocket:") && !strings.Contains(err.Error(), "close 1006") {
				res.closed = "bad-frame"
				res.reason = err.Error()
			} else {
				res.closed = "eof"
			}
			return false
		}
		var m struct {
			Type    *string         `json:"type"`
			ID      *string         `json:"id"`
			Payload json.RawMessage `json:"payload"`
		}
		if err := json.Unmarshal(data, &m); err != nil || m.Type == nil || (!utf8.Valid(data) && !res.lax) {
			res.frames = append(res.frames, "BAD")
			continue
		}
		if *m.Type == "ka" {
			continue
		}
		f := *m.Type
		id := ""
		if m.ID != nil {
			id = *m.ID
			f += ":" + hx0(id)
		}
		if *m.Type == "connection_error" {
			var p struct {
				Message string `json:"message"`
			}
			if json.Unmarshal(m.Payload, &p) == nil {
				f += "=" + hx0(p.Message)
			}
		}
		res.frames = append(res.frames, f)
		if until(*m.Type, id) {
			return true
		}
	}
}

func jstr(s string) string {
	b, _ := json.Marshal(s)
	return string(b)
}

// rawJSONString: a JSON string literal carrying the bytes of s unescaped (only `"`, `\` and control
// bytes are escaped), so that invalid UTF-8 reaches the server's decoder as such.
func rawJSONString(s string) string {
	var b strings.Builder
	b.WriteByte('"')
	for i := 0; i < len(s); i++ {
		c := s[i]
		switch {
		case c == '"' || c == '\\':
			b.WriteByte('\\')
			b.WriteByte(c)
		case c < 0x20:
			fmt.Fprintf(&b, `\u%04x`, c)
		default:
			b.WriteByte(c)
		}
	}
	b.WriteByte('"')
	return b.String()
}

// decoded: the string encoding/json hands to the server for the literal rawJSONString(s)
func decoded(s string) string {
	var out string
	if err := json.Unmarshal([]byte(rawJSONString(s)), &out); err != nil {
		return s
	}
	return out
}

func wlCase(url string, e *env, proto, scen, s, desc string) {
	if len(s) > 200 {
		announce("wl %s %s S=%d bytes %q... (%s)", proto, scen, len(s), s[:200], desc)
	} else {
		announce("wl %s %s S=%q (%s)", proto, scen, s, desc)
	}
	mu.Lock()
	e.recovers = 0
	e.panics = nil
	mu.Unlock()
	sub, nxt := "start", "data"
	if proto == "graphql-transport-ws" {
		sub, nxt = "subscribe", "next"
	}
	h := http.Header{}
	h.Set("Sec-WebSocket-Protocol", proto)
	c, _, err := websocket.DefaultDialer.Dial(url, h)
	res := &wlRes{lax: scen == "ping" && !utf8.ValidString(s)}
	seen := decoded(s)
	idLit := rawJSONString(s)
	send := func(f string) { c.WriteMessage(websocket.TextMessage, []byte(f)) }
	sentinel := func() {
		send(`{"type":"` + sub + `","id":"zz","payload":{"query":"{ name }"}}`)
		wlRead(c, res, 3*time.Second, func(t, id string) bool { return t == "complete" && id == "zz" })
	}
	if err != nil {
		res.closed = "dial-error"
	} else {
		func() {
			defer c.Close()
			send(`{"type":"connection_init"}`)
			if !wlRead(c, res, 2*time.Second, func(t, id string) bool { return t == "connection_ack" }) {
				return
			}
			res.frames = nil
			switch scen {
			case "dup", "dupq":
				// an operation that stays active under id S, then a second one under the same id
				send(`{"type":"` + sub + `","id":` + idLit + `,"payload":{"query":"subscription Hold { name }","operationName":"Hold"}}`)
				if !wlRead(c, res, 2*time.Second, func(t, id string) bool { return t == nxt }) {
					return
				}
				q := `subscription Hold { name }","operationName":"Hold`
				if scen == "dupq" {
					q = `{ name }`
				}
				send(`{"type":"` + sub + `","id":` + idLit + `,"payload":{"query":"` + q + `"}}`)
				wlRead(c, res, 2*time.Second, func(t, id string) bool { return false })
			case "once":
				send(`{"type":"` + sub + `","id":` + idLit + `,"payload":{"query":"{ name }"}}`)
				if !wlRead(c, res, 2*time.Second, func(t, id string) bool { return t == "complete" }) {
					return
				}
				sentinel()
			case "stop":
				stop := "stop"
				if proto == "graphql-transport-ws" {
					stop = "complete"
				}
				send(`{"type":"` + sub + `","id":` + idLit + `,"payload":{"query":"subscription Hold { name }","operationName":"Hold"}}`)
				if !wlRead(c, res, 2*time.Second, func(t, id string) bool { return t == nxt }) {
					return
				}
				send(`{"type":"` + stop + `","id":` + idLit + `}`)
				// the id is free again once the operation has wound up: reuse it
				if !wlRead(c, res, 2*time.Second, func(t, id string) bool { return t == "complete" }) {
					return
				}
				send(`{"type":"` + sub + `","id":` + idLit + `,"payload":{"query":"{ name }"}}`)
				if !wlRead(c, res, 2*time.Second, func(t, id string) bool { return t == "complete" }) {
					return
				}
				sentinel()
			case "errq":
				// S is a field name the schema does not have: it comes back inside an error message
				send(`{"type":` + jstr(sub) + `,"id":"e1","payload":{"query":` + jstr("{ "+s+" }") + `}}`)
				if !wlRead(c, res, 2*time.Second, func(t, id string) bool { return t == "complete" || t == "error" }) {
					return
				}
				sentinel()
			case "ping":
				send(`{"type":"ping","payload":{"k":` + idLit + `}}`)
				sentinel()
			case "type":
				send(`{"type":` + idLit + `,"id":"1"}`)
				sentinel()
			}
		}()
	}
	time.Sleep(time.Millisecond)
	mu.Lock()
	rc := e.recovers
	pan := "-"
	if len(e.panics) > 0 {
		pan = hx(strings.Join(e.panics, " | "))
	}
	mu.Unlock()
	fs := strings.Join(res.frames, ",")
	if fs == "" {
		fs = "-"
	}
	cl := res.closed
	if cl == "" {
		cl = "open"
	}
	fmt.Fprintf(out, "wl\t%s %s %s\t%s\t%s\t%s\t%d\t%s\t%s\n", proto, scen, hx0(seen), fs, cl, hx0(res.reason), rc, pan, desc)
}

// cfProbe: what gorilla/websocket (library code, modelled) does with a close frame whose reason has n
// bytes: the model's `wire`. A bare gorilla server, no gqlgen code involved.
func cfProbe(n int) {
	up := websocket.Upgrader{}
	ts := httptest.NewServer(http.HandlerFunc(func(w http.ResponseWriter, r *http.Request) {
		ws, err := up.Upgrade(w, r, nil)
		if err != nil {
			return
		}
		_ = ws.WriteMessage(websocket.CloseMessage, websocket.FormatCloseMessage(4000, strings.Repeat("r", n)))
		ws.Close()
	}))
	defer ts.Close()
	c, _, err := websocket.DefaultDialer.Dial("ws"+strings.TrimPrefix(ts.URL, "http"), nil)
	res := &wlRes{}
	if err != nil {
		res.closed = "dial-error"
	} else {
		wlRead(c, res, 2*time.Second, func(t, id string) bool { return false })
		c.Close()
	}
	fmt.Fprintf(out, "cf\t%d\t%s\t%d\n", n, res.closed, len(res.reason))
}

// ---- the generator of S

var runeSamples = [][]string{
	{"a", "Z", "0", " ", "\"", "\\", "\n", "\x00", "\x7f", "<", "%"},
	{"\u00e9", "\u0080", "\u07ff", "\u00df"},
	{"\u20ac", "\u0800", "\uffff", "\ufffd", "\ud7ff", "\ue000", "\u4e2d"},
	{"\U0001F600", "\U00010000", "\U0010FFFF"},
}

// mix builds a string of exactly n bytes when possible: random runes of the given widths, ASCII fill.
func mix(r *rng.R, n int, widths []int) string {
	var b strings.Builder
	for b.Len() < n {
		w := widths[r.Below(len(widths))]
		if b.Len()+w > n {
			w = 1
		}
		set := runeSamples[w-1]
		if w == 1 && r.Below(4) != 0 {
			b.WriteByte(byte('a' + r.Below(26)))
			continue
		}
		b.WriteString(set[r.Below(len(set))])
	}
	return b.String()
}

// straddle: ASCII up to byte offset at, then one rune of width w, then ASCII up to total bytes
func straddle(at, w, total int, k int) string {
	rn := runeSamples[w-1][k%len(runeSamples[w-1])]
	if at < 0 {
		at = 0
	}
	s := strings.Repeat("a", at) + rn
	if len(s) < total {
		s += strings.Repeat("b", total-len(s))
	}
	return s
}

var wlBoundaries = []int{0, 1, 2, 60, 88, 89, 90, 91, 92, 93, 94, 95, 96, 97, 98, 99, 100, 107, 108, 109, 120, 121, 122, 123, 124, 125, 126, 127, 128, 129, 130, 200, 255, 256, 1000, 4096, 70000}

// parseSpec: corpus notation, tokens "<count>x<hex bytes>" separated by '+', e.g. 107x61+1xe282ac+20x62
func parseSpec(spec string) (string, error) {
	var b strings.Builder
	if spec == "-" {
		return "", nil
	}
	for _, tok := range strings.Split(spec, "+") {
		p := strings.SplitN(tok, "x", 2)
		if len(p) != 2 {
			return "", fmt.Errorf("bad token %q", tok)
		}
		n, err := strconv.Atoi(p[0])
		if err != nil {
			return "", err
		}
		bs, err := hex.DecodeString(p[1])
		if err != nil {
			return "", err
		}
		for i := 0; i < n; i++ {
			b.Write(bs)
		}
	}
	return b.String(), nil
}

func wlMode(r *rng.R, n int, corpus string) {
	e := &env{}
	srv := newServer(e, transport.Websocket{})
	ts := httptest.NewUnstartedServer(srv)
	ts.Config.ErrorLog = log.New(io.Discard, "", 0)
	ts.Start()
	defer ts.Close()
	url := "ws" + strings.TrimPrefix(ts.URL, "http")
	protos := []string{"graphql-transport-ws", "graphql-ws"}

	for _, k := range []int{0, 1, 100, 120, 121, 122, 123, 124, 125, 126, 127, 200} {
		cfProbe(k)
	}

	// directed cases kept as a corpus
	if corpus != "" {
		f, err := os.Open(corpus)
		if err != nil {
			panic(err)
		}
		sc := bufio.NewScanner(f)
		for sc.Scan() {
			line := strings.TrimSpace(sc.Text())
			if line == "" || strings.HasPrefix(line, "#") {
				continue
			}
			p := strings.Fields(line)
			if len(p) < 3 {
				panic("corpus line: " + line)
			}
			s, err := parseSpec(p[2])
			if err != nil {
				panic(err)
			}
			for _, proto := range protos {
				if p[0] == "*" || p[0] == proto {
					wlCase(url, e, proto, p[1], s, "corpus "+p[2])
				}
			}
		}
		f.Close()
	}

	for _, proto := range protos {
		// every boundary length, ASCII, as a duplicate id
		for _, l := range wlBoundaries {
			wlCase(url, e, proto, "dup", strings.Repeat("i", l), fmt.Sprintf("ascii len %d", l))
		}
		// a rune of every width at every alignment around every cut a cap of 121..127 reason bytes
		// would make (the reason text starts with 15 bytes before the id)
		for w := 2; w <= 4; w++ {
			for cut := 121; cut <= 127; cut++ {
				for o := 0; o <= w; o++ {
					wlCase(url, e, proto, "dup", straddle(cut-15-o, w, 140, cut+o), fmt.Sprintf("rune width %d starting %d bytes before reason byte %d", w, o, cut))
				}
			}
		}
		// strings made of multi-byte runes only
		for w := 2; w <= 4; w++ {
			for _, l := range []int{90, 93, 94, 96, 108, 120, 124, 132} {
				wlCase(url, e, proto, "dup", mix(r, l, []int{w}), fmt.Sprintf("width-%d runes, about %d bytes", w, l))
			}
		}
		// invalid UTF-8 in the frame (the JSON decoder substitutes U+FFFD: 1 byte becomes 3)
		for _, l := range []int{30, 31, 32, 93, 108} {
			wlCase(url, e, proto, "dup", strings.Repeat("a", l)+strings.Repeat("\xff", 40), fmt.Sprintf("%d ascii + 40 invalid bytes", l))
		}
		// the same lengths in the other places a client string is echoed
		for _, scen := range []string{"once", "stop", "dupq"} {
			for _, l := range []int{0, 93, 94, 123, 124, 126, 1000, 70000} {
				wlCase(url, e, proto, scen, strings.Repeat("i", l), fmt.Sprintf("ascii len %d", l))
			}
			wlCase(url, e, proto, scen, straddle(107, 3, 140, 0), "3-byte rune across reason byte 123")
		}
		for _, l := range []int{1, 93, 94, 123, 124, 126, 1000, 20000} {
			wlCase(url, e, proto, "errq", strings.Repeat("f", l), fmt.Sprintf("field name len %d", l))
			wlCase(url, e, proto, "type", strings.Repeat("t", l), fmt.Sprintf("message type len %d", l))
			if proto == "graphql-transport-ws" {
				wlCase(url, e, proto, "ping", strings.Repeat("p", l), fmt.Sprintf("ping payload len %d", l))
			}
		}
		// generated
		scens := []string{"dup", "dup", "dup", "dupq", "once", "stop", "errq", "type", "ping"}
		for i := 0; i < n; i++ {
			scen := scens[r.Below(len(scens))]
			if scen == "ping" && proto != "graphql-transport-ws" {
				scen = "dup"
			}
			var l int
			switch r.Below(4) {
			case 0:
				l = wlBoundaries[r.Below(len(wlBoundaries)-3)]
			case 1:
				l = 85 + r.Below(50)
			default:
				l = r.Below(300)
			}
			var s string
			if scen == "errq" {
				s = "f" + strings.Repeat("x", l)
			} else {
				widths := [][]int{{1}, {1, 2}, {1, 3}, {1, 4}, {1, 2, 3, 4}, {2, 3, 4}}[r.Below(6)]
				s = mix(r, l, widths)
				if r.Below(12) == 0 && l > 0 {
					b := []byte(s)
					b[r.Below(len(b))] = byte(0x80 + r.Below(0x80))
					s = string(b)
				}
			}
			wlCase(url, e, proto, scen, s, "rand")
		}
	}
}
