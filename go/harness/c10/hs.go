package main

// Mode hs: request HISTORIES against a server configured like production.
//
// Every other mode builds a fresh `handler.New` server (no query cache, no APQ) per case, so nothing a
// request leaves behind can reach the next one. Here ONE server per history is configured the way
// handler.NewDefaultServer / the init template do (LRU query cache, APQ, introspection; optionally a
// complexity limit and a parser token limit; every transport) and is sent a SEQUENCE of requests of the
// C10 alphabet - malformed bodies, unparsable / operation-less / schema-invalid documents, APQ extensions of
// every shape - each at least twice, interleaved with others and across transports (the cache is keyed by
// the query string, whatever transport carried it). The same sequence is sent to a TWIN with
// graphql.NoCache. Per step the row carries
//   - what reached CreateOperationContext (recorded by a passive OperationParameterMutator installed first):
//     document number, the library's verdict on that query string (gqlparser parser + validator, the oracle),
//     the APQ extension class - the input of the Lean model `ReqHist.runAll`;
//   - the observation: status, answer class, RecoverFunc invocations, "a document with a field without
//     Definition reached Exec" (user code saw an unvalidated document), TMPDIR listing, and whether the answer
//     is byte-identical to the twin's.

import (
	"context"
	"crypto/sha256"
	"encoding/hex"
	"encoding/json"
	"fmt"
	"io"
	"log"
	"net/http"
	"net/http/httptest"
	"net/url"
	"os"
	"strconv"
	"strings"
	"time"

	"github.com/99designs/gqlgen/graphql"
	"github.com/99designs/gqlgen/graphql/handler"
	"github.com/99designs/gqlgen/graphql/handler/extension"
	"github.com/99designs/gqlgen/graphql/handler/lru"
	"github.com/99designs/gqlgen/graphql/handler/transport"
	"github.com/go-viper/mapstructure/v2"
	"github.com/gorilla/websocket"
	"github.com/vektah/gqlparser/v2/ast"
	"github.com/vektah/gqlparser/v2/gqlerror"
	"github.com/vektah/gqlparser/v2/parser"
	"github.com/vektah/gqlparser/v2/validator"
	"verifharness/internal/rng"
)

type hsCfg struct {
	cap   int // query cache: >0 LRU of that size, -1 graphql.MapCache
	apq   bool
	cx    int // complexity limit, 0 = none
	intro bool
	tok   int // parser token limit, 0 = none
}

func (c hsCfg) String() string {
	return fmt.Sprintf("cap=%d,apq=%v,cx=%d,intro=%v,tok=%d", c.cap, c.apq, c.cx, c.intro, c.tok)
}

var hsDefault = hsCfg{cap: 1000, apq: true, cx: 100, intro: true}

type reach struct {
	query string
	ext   any
}

// recExt is passive: it notes what the transport handed to CreateOperationContext.
type recExt struct{ e *env }

func (recExt) ExtensionName() string                          { return "C10Recorder" }
func (recExt) Validate(schema graphql.ExecutableSchema) error { return nil }
func (x recExt) MutateOperationParameters(ctx context.Context, p *graphql.RawParams) *gqlerror.Error {
	mu.Lock()
	defer mu.Unlock()
	x.e.reached = append(x.e.reached, reach{p.Query, p.Extensions["persistedQuery"]})
	return nil
}

type hsServer struct {
	e   *env
	srv *handler.Server
	ts  *httptest.Server
}

func newHsServer(cfg hsCfg, cached bool, tmpdir string) *hsServer {
	e := &env{tmpdir: tmpdir}
	srv := newServer(e,
		transport.Websocket{}, transport.Options{}, transport.GET{}, transport.SSE{},
		transport.MultipartMixed{Boundary: "graphql", DeliveryTimeout: time.Millisecond},
		transport.POST{}, transport.MultipartForm{MaxMemory: 1}, transport.UrlEncodedForm{}, transport.GRAPHQL{})
	if cached {
		if cfg.cap < 0 {
			srv.SetQueryCache(graphql.MapCache[*ast.QueryDocument]{})
		} else {
			srv.SetQueryCache(lru.New[*ast.QueryDocument](cfg.cap))
		}
	}
	if cfg.tok > 0 {
		srv.SetParserTokenLimit(cfg.tok)
	}
	srv.Use(recExt{e})
	if cfg.intro {
		srv.Use(extension.Introspection{})
	}
	if cfg.apq {
		srv.Use(extension.AutomaticPersistedQuery{Cache: lru.New[string](100)})
	}
	if cfg.cx > 0 {
		srv.Use(extension.FixedComplexityLimit(cfg.cx))
	}
	return &hsServer{e: e, srv: srv}
}

func (s *hsServer) close() {
	if s.ts != nil {
		s.ts.Close()
	}
}

// ---------------------------------------------------------------- requests

type hsSite struct {
	name, method, ct, accept string
}

var hsSites = map[string]hsSite{
	"post":       {"post", "POST", "application/json", ""},
	"sse":        {"sse", "POST", "application/json", "text/event-stream"},
	"mixed":      {"mixed", "POST", "application/json", "multipart/mixed"},
	"urlencoded": {"urlencoded", "POST", "application/x-www-form-urlencoded", ""},
	"graphql":    {"graphql", "POST", "application/graphql", ""},
	"get":        {"get", "GET", "", ""},
	"form":       {"form", "POST", "multipart/form-data; boundary=" + boundary, ""},
}

var hsHTTP = []string{"post", "sse", "mixed", "urlencoded", "graphql", "get", "form"}
var hsWS = []string{"ws:graphql-ws", "ws:graphql-transport-ws"}

type hsReq struct {
	site string
	body string
	desc string
	file string // content of the one uploaded file ("" = no upload expected)
}

func sha(q string) string {
	b := sha256.Sum256([]byte(q))
	return hex.EncodeToString(b[:])
}

func apqExt(hash string) string {
	return `{"persistedQuery":{"version":1,"sha256Hash":"` + hash + `"}}`
}

func jstring(s string) string {
	b, _ := json.Marshal(s)
	return string(b)
}

func mpForm(ops, mp string, file string) string {
	var b strings.Builder
	b.WriteString("--" + boundary + "\r\nContent-Disposition: form-data; name=\"operations\"\r\n\r\n" + ops + "\r\n")
	b.WriteString("--" + boundary + "\r\nContent-Disposition: form-data; name=\"map\"\r\n\r\n" + mp + "\r\n")
	if file != "" {
		b.WriteString("--" + boundary + "\r\nContent-Disposition: form-data; name=\"0\"; filename=\"f.txt\"\r\nContent-Type: text/plain\r\n\r\n" + file + "\r\n")
	}
	b.WriteString("--" + boundary + "--\r\n")
	return b.String()
}

// structured: the request that carries query q (and extensions ext, "" = none) on a site; ok=false when
// the site cannot carry it.
func structured(site, q, ext, desc string) (hsReq, bool) {
	js := `{"query":` + jstring(q)
	if ext != "" {
		js += `,"extensions":` + ext
	}
	js += "}"
	switch site {
	case "post", "sse", "mixed", "ws:graphql-ws", "ws:graphql-transport-ws":
		return hsReq{site: site, body: js, desc: desc}, true
	case "urlencoded":
		if ext == "" && strings.HasPrefix(q, "{") && len(q)%2 == 0 { // the two other flavours of this transport
			if len(q)%4 == 0 {
				return hsReq{site: site, body: "query=" + url.QueryEscape(q), desc: desc + "/escaped"}, true
			}
			if !strings.Contains(q, `"query":`) {
				return hsReq{site: site, body: "query=" + q, desc: desc + "/plain"}, true
			}
		}
		return hsReq{site: site, body: js, desc: desc + "/json"}, true
	case "graphql":
		if ext != "" || strings.HasPrefix(q, "query=") || strings.HasPrefix(q, "%7B") {
			return hsReq{}, false
		}
		return hsReq{site: site, body: q, desc: desc}, true
	case "get":
		b := "query=" + url.QueryEscape(q)
		if ext != "" {
			b += "&extensions=" + url.QueryEscape(ext)
		}
		return hsReq{site: site, body: b, desc: desc}, true
	case "form":
		return hsReq{site: site, body: mpForm(js, "{}", ""), desc: desc}, true
	}
	return hsReq{}, false
}

// the documents of the alphabet: what a client can put where a query belongs
var hsValidDocs = []string{
	`{ name }`, `query Q($a: Any) { echo(v:$a) }`, `{ __typename }`, `{ __schema { queryType { name } } }`,
	`mutation { up }`, `subscription { name }`, `{ a: name b: name c: name }`,
}
var hsBadDocs = []string{
	// schema-invalid, syntactically fine
	`{ nope }`, `{ nam }`, `{ name { x } }`, `{ name(x: 1) }`, `query($a: Nope) { name }`, `{ echo(v: $u) }`, `{ ...F }`,
	`{ name @nope }`, `mutation { nope }`, `subscription { nope }`, `query A { name } query A { name }`, `{ name } { name }`,
	`{ __schema { nope } }`, `{ echo(v: 1, v: 2) }`, `fragment F on Nope { x } { name }`, `{ name } fragment F on Query { name }`,
	`{ ... on Nope { x } }`, `query($a: Any, $a: Any) { echo(v:$a) }`, `{ echo { v } }`, `{ nope { deeper { still } } }`,
	`subscription { name nope }`, `{ __type(name: 5) { name } }`, `query Q { name } query R { nope }`, `{ name ...on Query { nope } }`,
	// no operation
	``, ` `, `fragment F on Query { name }`, "# only a comment\n", ",,,",
	// the parser refuses
	`{`, `}`, `{ name `, `query`, `{ name } }`, `"`, `{ name(x: ) }`, "{ name \x00 }", `{ name } garbage {`, `{ name(x: "unterminated) }`,
	`{ ` + strings.Repeat("a ", 40) + `}`, strings.Repeat("{ a ", 30), `query ($a: ) { name }`, `{ name @ }`, "\xff\xfe",
}

type hsHistory struct {
	cfg   hsCfg
	reqs  []hsReq
	desc  string
	cross bool
}

// ---------------------------------------------------------------- one step

type stepObs struct {
	status  int
	answer  string // canonical: HTTP body, or the websocket frames
	cls     string
	rec     int
	pan     []string
	unval   int
	tmp     int
	reached []reach
	upl     string
}

type errShape struct {
	Errors []struct {
		Message    string         `json:"message"`
		Extensions map[string]any `json:"extensions"`
	} `json:"errors"`
	Data json.RawMessage `json:"data"`
}

func clsOfPayload(p []byte) string {
	var rs errShape
	dec := json.NewDecoder(strings.NewReader(string(p)))
	if err := dec.Decode(&rs); err != nil || dec.More() {
		return "malformed-response"
	}
	if len(rs.Errors) > 0 {
		msg := rs.Errors[0].Message
		code, _ := rs.Errors[0].Extensions["code"].(string)
		switch {
		case msg == "internal system error":
			return "recovered-panic"
		case code == "GRAPHQL_PARSE_FAILED":
			return "parse-error"
		case code == "GRAPHQL_VALIDATION_FAILED" && msg == "no operation provided":
			return "no-operation"
		case code == "GRAPHQL_VALIDATION_FAILED":
			return "validation-error"
		case msg == "PersistedQueryNotFound":
			return "apq-notfound"
		case msg == "provided APQ hash does not match query":
			return "apq-mismatch"
		case msg == "unsupported APQ version":
			return "apq-version"
		case msg == "invalid APQ extension data":
			return "apq-invalid"
		}
		for _, pre := range trPrefixes {
			if strings.HasPrefix(msg, pre) {
				return "decode-error"
			}
		}
		for _, c := range mpClasses {
			if strings.HasPrefix(msg, c.pre) {
				return "decode-error"
			}
		}
		return "gql-error"
	}
	if len(rs.Data) > 0 && string(rs.Data) != "null" {
		return "exec"
	}
	return "malformed-response"
}

func httpPayloads(ct string, body []byte) [][]byte {
	txt := string(body)
	switch {
	case strings.HasPrefix(ct, "text/event-stream"):
		if !strings.HasPrefix(txt, ":\n\n") || !strings.HasSuffix(txt, "event: complete\n\n") {
			return nil
		}
		var ps [][]byte
		for _, ev := range strings.Split(txt, "\n\n") {
			for _, ln := range strings.Split(ev, "\n") {
				if strings.HasPrefix(ln, "data: ") {
					ps = append(ps, []byte(ln[6:]))
				}
			}
		}
		return ps
	case strings.HasPrefix(ct, "multipart/mixed"):
		if !strings.HasSuffix(strings.TrimSpace(txt), "--graphql--") {
			return nil
		}
		var ps [][]byte
		for _, seg := range strings.Split(txt, "--graphql") {
			if i := strings.Index(seg, "\r\n\r\n"); i >= 0 {
				if p := strings.TrimSpace(seg[i+4:]); p != "" {
					ps = append(ps, []byte(p))
				}
			}
		}
		return ps
	}
	return [][]byte{body}
}

func (s *hsServer) begin() {
	mu.Lock()
	s.e.recovers = 0
	s.e.panics = nil
	s.e.reached = nil
	s.e.unval = 0
	s.e.seen = nil
	mu.Unlock()
}

func (s *hsServer) end(o *stepObs, rq hsReq) {
	mu.Lock()
	o.rec = s.e.recovers
	o.pan = append([]string{}, s.e.panics...)
	o.reached = append([]reach{}, s.e.reached...)
	o.unval = s.e.unval
	seen := s.e.seen
	mu.Unlock()
	o.tmp = lsTmp(s.e.tmpdir)
	cleanTmp(s.e.tmpdir)
	o.upl = "-"
	if rq.file != "" && o.cls == "exec" {
		o.upl = "bad"
		if seen != nil && len(seen.ups) == 1 && seen.ups[0].Hex == digest([]byte(rq.file)) && seen.ups[0].Indep && seen.ups[0].Name == "f.txt" && seen.ups[0].CT == "text/plain" {
			o.upl = "ok"
		}
	}
}

func (s *hsServer) http(rq hsReq) stepObs {
	st := hsSites[rq.site]
	var req *http.Request
	if st.method == "GET" {
		req = httptest.NewRequest("GET", "/graphql", nil)
		req.URL.RawQuery = rq.body
	} else {
		req = httptest.NewRequest("POST", "/graphql", strings.NewReader(rq.body))
		req.Header.Set("Content-Type", st.ct)
	}
	if st.accept != "" {
		req.Header.Set("Accept", st.accept)
	}
	rec := httptest.NewRecorder()
	s.begin()
	escaped := ""
	func() {
		defer func() {
			if r := recover(); r != nil {
				escaped = fmt.Sprint(r)
			}
		}()
		s.srv.ServeHTTP(rec, req)
	}()
	o := stepObs{status: rec.Code, answer: rec.Body.String()}
	ps := httpPayloads(rec.Header().Get("Content-Type"), rec.Body.Bytes())
	if len(ps) == 0 {
		o.cls = "malformed-response"
	}
	for i, p := range ps {
		c := clsOfPayload(p)
		if i == 0 || c == "malformed-response" || c == "recovered-panic" {
			o.cls = c
		}
	}
	if rq.site == "get" && rec.Code == 400 && o.cls == "gql-error" {
		o.cls = "decode-error"
	}
	s.end(&o, rq)
	if escaped != "" {
		o.rec += 1000
		o.pan = append(o.pan, "escaped ServeHTTP: "+escaped)
	}
	return o
}

func (s *hsServer) ws(rq hsReq) stepObs {
	if s.ts == nil {
		s.ts = httptest.NewUnstartedServer(s.srv)
		s.ts.Config.ErrorLog = log.New(io.Discard, "", 0)
		s.ts.Start()
	}
	proto := strings.TrimPrefix(rq.site, "ws:")
	s.begin()
	o := stepObs{}
	var frames []string
	closed := "open"
	h := http.Header{}
	h.Set("Sec-WebSocket-Protocol", proto)
	c, _, err := websocket.DefaultDialer.Dial("ws"+strings.TrimPrefix(s.ts.URL, "http"), h)
	if err != nil {
		closed = "dial-error"
	} else {
		func() {
			defer c.Close()
			read := func(until func(t, id string) bool, d time.Duration) bool {
				for {
					c.SetReadDeadline(time.Now().Add(d))
					_, data, err := c.ReadMessage()
					if err != nil {
						if ce, ok := err.(*websocket.CloseError); ok {
							closed = fmt.Sprintf("close:%d", ce.Code)
						} else if strings.Contains(err.Error(), "timeout") {
							closed = "timeout"
						} else {
							closed = "eof"
						}
						return false
					}
					var m struct {
						Type    *string         `json:"type"`
						ID      string          `json:"id"`
						Payload json.RawMessage `json:"payload"`
					}
					if err := json.Unmarshal(data, &m); err != nil || m.Type == nil {
						frames = append(frames, "BAD="+hx(string(data)))
						continue
					}
					if *m.Type == "ka" {
						continue
					}
					if *m.Type != "connection_ack" {
						frames = append(frames, *m.Type+":"+m.ID+"="+string(m.Payload))
						if len(m.Payload) > 0 && o.cls == "" {
							p := m.Payload
							if len(p) > 0 && p[0] == '[' { // graphql-transport-ws error: a list of errors
								p = []byte(`{"errors":` + string(p) + `}`)
							}
							o.cls = clsOfPayload(p)
							if o.cls == "malformed-response" && *m.Type == "error" { // graphql-ws error: one error object
								o.cls = clsOfPayload([]byte(`{"errors":[` + string(m.Payload) + `]}`))
							}
						}
					}
					if until(*m.Type, m.ID) {
						return true
					}
				}
			}
			c.WriteMessage(websocket.TextMessage, []byte(`{"type":"connection_init"}`))
			if !read(func(t, id string) bool { return t == "connection_ack" }, 3*time.Second) {
				return
			}
			sub := "start"
			if proto == "graphql-transport-ws" {
				sub = "subscribe"
			}
			c.WriteMessage(websocket.TextMessage, []byte(`{"type":"`+sub+`","id":"1","payload":`+rq.body+`}`))
			read(func(t, id string) bool { return t == "complete" && id == "1" }, 3*time.Second)
		}()
	}
	time.Sleep(time.Millisecond)
	o.answer = strings.Join(frames, ",") + " " + closed
	if o.cls == "" {
		o.cls = "no-answer"
	}
	if closed != "open" {
		o.cls = "ws-" + strings.ReplaceAll(closed, ":", "=")
	}
	for _, f := range frames {
		if strings.HasPrefix(f, "BAD=") {
			o.cls = "malformed-response"
		}
	}
	s.end(&o, rq)
	return o
}

func (s *hsServer) step(rq hsReq) stepObs {
	if strings.HasPrefix(rq.site, "ws:") {
		return s.ws(rq)
	}
	return s.http(rq)
}

// ---------------------------------------------------------------- oracle (library verdicts)

func hsClassify(q string, tok int) string {
	doc, err := parser.ParseQueryWithTokenLimit(&ast.Source{Input: q}, tok)
	if err != nil {
		return "p"
	}
	if len(doc.Operations) == 0 {
		return "n"
	}
	if errs := validator.Validate(schema, doc); len(errs) != 0 {
		return "i"
	}
	return "v"
}

func apqClass(ext any) (string, string) {
	if ext == nil {
		return "-", ""
	}
	var x struct {
		Sha256  string `mapstructure:"sha256Hash"`
		Version int64  `mapstructure:"version"`
	}
	if err := mapstructure.Decode(ext, &x); err != nil {
		return "inv", ""
	}
	if x.Version != 1 {
		return "ver", ""
	}
	return "h", x.Sha256
}

// ---------------------------------------------------------------- one history

func hsRun(h hsHistory, tmpdir string) {
	prod := newHsServer(h.cfg, true, tmpdir)
	twin := newHsServer(h.cfg, false, tmpdir)
	defer prod.close()
	defer twin.close()
	obs := make([]stepObs, len(h.reqs))
	same := make([]bool, len(h.reqs))
	for i, rq := range h.reqs {
		t := twin.step(rq)
		obs[i] = prod.step(rq)
		same[i] = t.status == obs[i].status && t.answer == obs[i].answer
		if len(t.reached) != len(obs[i].reached) {
			same[i] = false
		}
	}
	// number the query strings of this history; 0 is the empty string
	ids := map[string]int{"": 0}
	strs := []string{""}
	for _, o := range obs {
		for _, r := range o.reached {
			if _, ok := ids[r.query]; !ok {
				ids[r.query] = len(strs)
				strs = append(strs, r.query)
			}
		}
	}
	byHash := map[string]int{}
	for i, s := range strs {
		byHash[sha(s)] = i
	}
	var tbl, steps, ob, detail, pans []string
	for _, s := range strs {
		tbl = append(tbl, hsClassify(s, h.cfg.tok))
	}
	foreign := 0
	for i, o := range obs {
		st := "x"
		if len(o.reached) > 0 {
			r := o.reached[0]
			k, hash := apqClass(r.ext)
			if k == "h" {
				id, ok := byHash[hash]
				if !ok {
					foreign++
					id = 100000 + foreign
					byHash[hash] = id
				}
				k = "h" + strconv.Itoa(id)
			}
			st = fmt.Sprintf("%d/%s", ids[r.query], k)
		}
		steps = append(steps, st)
		sm := "same"
		if !same[i] {
			sm = "diff"
		}
		ob = append(ob, fmt.Sprintf("%s:%d:%s:%d:%d:%d:%s:%s:%d", strings.ReplaceAll(h.reqs[i].site, ":", "/"), o.status, o.cls, o.rec, o.unval, o.tmp, sm, o.upl, len(o.reached)))
		b := h.reqs[i].body
		if len(b) > 600 {
			b = b[:600]
		}
		detail = append(detail, h.reqs[i].site+"="+hx(b))
		if len(o.pan) > 0 {
			pans = append(pans, fmt.Sprintf("step %d: %s", i+1, strings.Join(o.pan, " | ")))
		}
	}
	apq := 0
	if h.cfg.apq {
		apq = 1
	}
	cap := h.cfg.cap
	if cap < 0 {
		cap = 1000000
	}
	pan := "-"
	if len(pans) > 0 {
		p := strings.Join(pans, " ; ")
		if len(p) > 600 {
			p = p[:600]
		}
		pan = hx(p)
	}
	fmt.Fprintf(out, "hs\t%d %d %s %s\t%s\t%s\t%s\t%s\t%s\n", cap, apq, strings.Join(tbl, ","), strings.Join(steps, ";"),
		strings.Join(ob, ";"), h.desc, h.cfg.String(), strings.Join(detail, "|"), pan)
}

// ---------------------------------------------------------------- generation

func repeat3(cfg hsCfg, rq hsReq, desc string) hsHistory {
	return hsHistory{cfg: cfg, reqs: []hsReq{rq, rq, rq}, desc: desc}
}

func parseHsCorpus(path string) []hsHistory {
	data, err := os.ReadFile(path)
	if err != nil {
		return nil
	}
	var res []hsHistory
	for ln, line := range strings.Split(string(data), "\n") {
		line = strings.TrimSpace(line)
		if line == "" || strings.HasPrefix(line, "#") {
			continue
		}
		parts := strings.Split(line, " ;; ")
		cfg := hsDefault
		for _, kv := range strings.Fields(parts[0]) {
			k, v, _ := strings.Cut(kv, "=")
			n, _ := strconv.Atoi(v)
			switch k {
			case "cap":
				cfg.cap = n
			case "apq":
				cfg.apq = n != 0
			case "cx":
				cfg.cx = n
			case "intro":
				cfg.intro = n != 0
			case "tok":
				cfg.tok = n
			default:
				panic(fmt.Sprintf("hs corpus line %d: unknown setting %q", ln+1, kv))
			}
		}
		h := hsHistory{cfg: cfg, desc: fmt.Sprintf("corpus-%d", ln+1)}
		for _, p := range parts[1:] {
			site, rest, _ := strings.Cut(strings.TrimSpace(p), " ")
			kind, arg, _ := strings.Cut(rest, ":")
			var rq hsReq
			ok := true
			switch kind {
			case "q":
				rq, ok = structured(site, arg, "", "q")
			case "reg":
				rq, ok = structured(site, arg, apqExt(sha(arg)), "reg")
			case "hash":
				rq, ok = structured(site, "", apqExt(sha(arg)), "hash")
			case "mis":
				rq, ok = structured(site, arg, apqExt(sha(arg+" ")), "mis")
			case "raw":
				rq = hsReq{site: site, body: arg, desc: "raw"}
			default:
				ok = false
			}
			if _, known := hsSites[site]; !ok || (!known && !strings.HasPrefix(site, "ws:")) {
				panic(fmt.Sprintf("hs corpus line %d: bad step %q", ln+1, p))
			}
			h.reqs = append(h.reqs, rq)
		}
		res = append(res, h)
	}
	return res
}

func hsMode(r *rng.R, n int, tmpdir string, corpus string, thorough bool) {
	os.Setenv("TMPDIR", tmpdir)
	allSites := append(append([]string{}, hsHTTP...), hsWS...)
	noCx := hsDefault
	noCx.cx = 0
	var hist []hsHistory
	hist = append(hist, parseHsCorpus(corpus)...)

	// 1. every raw body of the transport alphabet, three times in a row, on every HTTP transport and as a
	//    websocket subscribe payload
	rawBodies := append(append([]string{}, trValid...), trDirected...)
	for _, site := range hsHTTP {
		for i, b := range rawBodies {
			hist = append(hist, repeat3(hsDefault, hsReq{site: site, body: b, desc: "raw"}, fmt.Sprintf("raw-x3 %s #%d", site, i)))
		}
	}
	wsPayloads := []string{`null`, `{}`, `[]`, `"s"`, `5`, `true`, `{"query":5}`, `{"query":null}`, `{"query":"{ name }","variables":[]}`,
		`{"query":"{ name }","variables":null}`, `{"query":"{ name }","extensions":[]}`, `{"query":"{ name }","operationName":"Missing"}`, `{"query":"{ nope }"`, ``}
	for _, site := range hsWS {
		for i, b := range wsPayloads {
			hist = append(hist, repeat3(hsDefault, hsReq{site: site, body: b, desc: "raw"}, fmt.Sprintf("raw-x3 %s #%d", site, i)))
		}
	}

	// 2. every document x every transport: three times in a row (with and without a complexity limit), and
	//    across transports (first seen over POST), and with another document in between under a small cache
	docs := append(append([]string{}, hsValidDocs...), hsBadDocs...)
	small := hsDefault
	small.cap = 1
	small2 := hsDefault
	small2.cap = 2
	mapc := noCx
	mapc.cap = -1
	for di, d := range docs {
		for _, site := range allSites {
			rq, ok := structured(site, d, "", "q")
			if !ok {
				continue
			}
			hist = append(hist, repeat3(hsDefault, rq, fmt.Sprintf("doc-x3 %s doc#%d", site, di)))
			hist = append(hist, repeat3(noCx, rq, fmt.Sprintf("doc-x3/no-complexity-limit %s doc#%d", site, di)))
			if site != "post" {
				p, _ := structured("post", d, "", "q")
				hist = append(hist, hsHistory{cfg: hsDefault, reqs: []hsReq{p, rq, p, rq}, desc: fmt.Sprintf("cross post/%s doc#%d", site, di), cross: true})
			}
			if site == "post" || site == "get" || strings.HasPrefix(site, "ws:") {
				v, _ := structured(site, `{ name }`, "", "q")
				o, _ := structured(site, docs[(di+11)%len(docs)], "", "q")
				hist = append(hist, hsHistory{cfg: small, reqs: []hsReq{rq, v, rq, rq, o, rq}, desc: fmt.Sprintf("evict cap1 %s doc#%d", site, di)})
				hist = append(hist, hsHistory{cfg: small2, reqs: []hsReq{rq, o, rq, v, o, rq, rq}, desc: fmt.Sprintf("evict cap2 %s doc#%d", site, di)})
				hist = append(hist, repeat3(mapc, rq, fmt.Sprintf("doc-x3/MapCache %s doc#%d", site, di)))
			}
		}
	}

	// 3. APQ: hash before registration, registration, by hash (twice), plain, wrong hash, by hash again;
	//    and every shape of the extension, each twice
	for di, d := range docs {
		for _, site := range []string{"post", "get", "ws:graphql-transport-ws", "sse", "form"} {
			if (site == "sse" || site == "form") && di%5 != 0 {
				continue
			}
			mk := func(q, ext string) hsReq { rq, _ := structured(site, q, ext, "apq"); return rq }
			hashOnly, reg, plain := mk("", apqExt(sha(d))), mk(d, apqExt(sha(d))), mk(d, "")
			mis := mk(d, apqExt(sha(d+"x")))
			if d == "" {
				continue
			}
			hist = append(hist, hsHistory{cfg: hsDefault, reqs: []hsReq{hashOnly, reg, hashOnly, hashOnly, plain, mis, hashOnly, reg}, desc: fmt.Sprintf("apq %s doc#%d", site, di)})
			hist = append(hist, hsHistory{cfg: small, reqs: []hsReq{reg, hashOnly, mk(`{ name }`, ""), hashOnly, hashOnly}, desc: fmt.Sprintf("apq cap1 %s doc#%d", site, di)})
		}
	}
	exts := []string{`{"persistedQuery":null}`, `{"persistedQuery":5}`, `{"persistedQuery":"x"}`, `{"persistedQuery":[]}`, `{"persistedQuery":{}}`,
		`{"persistedQuery":{"version":2,"sha256Hash":"ab"}}`, `{"persistedQuery":{"version":"1","sha256Hash":"ab"}}`, `{"persistedQuery":{"version":1,"sha256Hash":5}}`,
		`{"persistedQuery":{"version":1}}`, `{"persistedQuery":{"version":1.5,"sha256Hash":"ab"}}`, `{"persistedQuery":{"version":1,"sha256Hash":""}}`,
		`{"persistedQuery":{"version":1,"sha256Hash":null}}`, `{"persistedQuery":{"version":true}}`, `{"persistedQuery":{"version":1e400,"sha256Hash":"ab"}}`}
	for xi, x := range exts {
		for _, site := range []string{"post", "get", "ws:graphql-ws"} {
			for _, q := range []string{``, `{ name }`, `{ nope }`} {
				rq, _ := structured(site, q, x, "ext")
				hist = append(hist, hsHistory{cfg: hsDefault, reqs: []hsReq{rq, rq}, desc: fmt.Sprintf("apq-ext#%d %s", xi, site)})
			}
		}
	}

	// 4. uploads in a history: the same multipart request three times, also with a schema-invalid document
	for _, q := range []string{`mutation($file: Any) { up(file:$file) }`, `mutation($file: Any) { nope(file:$file) }`, `mutation($file: Nope) { up(file:$file) }`} {
		ops := `{"query":` + jstring(q) + `,"variables":{"file":null}}`
		rq := hsReq{site: "form", body: mpForm(ops, `{"0":["variables.file"]}`, "file content 0123456789"), desc: "upload", file: "file content 0123456789"}
		bad := hsReq{site: "form", body: mpForm(ops, `{"0":["variables.file.x"]}`, "file content 0123456789"), desc: "upload-bad-path"}
		hist = append(hist, hsHistory{cfg: hsDefault, reqs: []hsReq{rq, bad, rq, bad, rq}, desc: "upload-x3"})
	}

	// 5. a parser token limit: over-long documents, repeatedly
	tokc := hsDefault
	tokc.tok = 12
	for di, d := range docs {
		if di%3 == 0 || len(d) > 40 {
			for _, site := range []string{"post", "ws:graphql-ws"} {
				rq, _ := structured(site, d, "", "q")
				hist = append(hist, repeat3(tokc, rq, fmt.Sprintf("token-limit %s doc#%d", site, di)))
			}
		}
	}

	// 6. generated: a small pool of distinct requests (documents, mutated documents, mutated raw bodies, APQ
	//    variants) sent in random order with repetition, random configuration
	for i := 0; i < n; i++ {
		cfg := hsCfg{cap: []int{1, 2, 3, 1000, -1}[r.Below(5)], apq: r.Below(4) != 0, cx: []int{0, 100, 100, 2}[r.Below(4)], intro: r.Below(4) != 0, tok: []int{0, 0, 0, 12}[r.Below(4)]}
		k := 2 + r.Below(4)
		var pool []hsReq
		for len(pool) < k {
			site := allSites[r.Below(len(allSites))]
			var d string
			switch r.Below(4) {
			case 0:
				d = hsValidDocs[r.Below(len(hsValidDocs))]
			case 1:
				d = mutate(r, hsValidDocs[r.Below(len(hsValidDocs))])
			default:
				d = hsBadDocs[r.Below(len(hsBadDocs))]
			}
			switch r.Below(8) {
			case 0: // a mutated raw body
				if !strings.HasPrefix(site, "ws:") {
					pool = append(pool, hsReq{site: site, body: mutate(r, trValid[r.Below(len(trValid))]), desc: "rand-raw"})
				}
			case 1: // APQ triple for d
				for _, e := range [][2]string{{"", apqExt(sha(d))}, {d, apqExt(sha(d))}, {d, apqExt(sha(d + "y"))}} {
					if rq, ok := structured(site, e[0], e[1], "rand-apq"); ok && d != "" {
						pool = append(pool, rq)
					}
				}
			case 2:
				if rq, ok := structured(site, d, exts[r.Below(len(exts))], "rand-ext"); ok {
					pool = append(pool, rq)
				}
			default:
				if rq, ok := structured(site, d, "", "rand-doc"); ok {
					pool = append(pool, rq)
					if r.Bool() { // the same document over another transport
						if rq2, ok := structured(allSites[r.Below(len(allSites))], d, "", "rand-doc"); ok {
							pool = append(pool, rq2)
						}
					}
				}
			}
		}
		l := 4 + r.Below(12)
		h := hsHistory{cfg: cfg, desc: fmt.Sprintf("rand-%d", i)}
		for j := 0; j < l; j++ {
			h.reqs = append(h.reqs, pool[r.Below(len(pool))])
		}
		hist = append(hist, h)
	}
	_ = thorough
	for _, h := range hist {
		hsRun(h, tmpdir)
	}
}
