package main

import (
	"bytes"
	"encoding/json"
	"fmt"
	"net/http"
	"net/http/httptest"
	"net/url"
	"os"
	"strings"
	"time"

	"github.com/99designs/gqlgen/graphql"
	"github.com/99designs/gqlgen/graphql/handler/transport"
	"verifharness/internal/rng"
)

type site struct {
	name   string
	method string
	ct     string
	accept string
	tr     func() graphql.Transport
}

var sites = []site{
	{"post", "POST", "application/json", "", func() graphql.Transport { return transport.POST{} }},
	{"sse", "POST", "application/json", "text/event-stream", func() graphql.Transport { return transport.SSE{} }},
	{"mixed", "POST", "application/json", "multipart/mixed", func() graphql.Transport {
		return transport.MultipartMixed{Boundary: "graphql", DeliveryTimeout: time.Millisecond}
	}},
	{"urlencoded", "POST", "application/x-www-form-urlencoded", "", func() graphql.Transport { return transport.UrlEncodedForm{} }},
	{"graphql", "POST", "application/graphql", "", func() graphql.Transport { return transport.GRAPHQL{} }},
	{"get", "GET", "", "", func() graphql.Transport { return transport.GET{} }},
	{"form", "POST", "multipart/form-data; boundary=" + boundary, "", func() graphql.Transport { return transport.MultipartForm{MaxMemory: 1} }},
}

func jsonSiteClass(body string) string {
	var p *rawMirror
	dec := json.NewDecoder(strings.NewReader(body))
	dec.UseNumber()
	if err := dec.Decode(&p); err != nil {
		return "err"
	}
	if p == nil {
		return "null"
	}
	return "ok"
}

// bodyClass: outcome class of the library-level decoding steps of a transport (encoding/json,
// net/url are library code and enter the model as classes).
func bodyClass(s string, body string) string {
	switch s {
	case "post", "sse", "mixed":
		return jsonSiteClass(body)
	case "urlencoded":
		switch {
		case strings.Contains(body, "\"query\":"):
			return jsonSiteClass(body)
		case strings.HasPrefix(body, "query=%7B"):
			if _, err := url.QueryUnescape(body); err != nil {
				return "err"
			}
			return "plain"
		}
		return "plain"
	case "graphql":
		b := strings.TrimPrefix(body, "query=")
		if strings.HasPrefix(b, "%7B") {
			if _, err := url.QueryUnescape(b); err != nil {
				return "err"
			}
		}
		return "plain"
	case "get":
		q, err := url.ParseQuery(body)
		if err != nil {
			return "err"
		}
		for _, k := range []string{"variables", "extensions"} {
			if v := q.Get(k); v != "" {
				var m map[string]any
				dec := json.NewDecoder(strings.NewReader(v))
				dec.UseNumber()
				if err := dec.Decode(&m); err != nil {
					return "err"
				}
			}
		}
		return "plain"
	}
	return "any"
}

var trPrefixes = []string{
	"json request body could not be decoded", "could not cleanup body", "could not get form body", "could not get request body",
	"variables could not be decoded", "extensions could not be decoded", "could not read request body", "could not get json request body",
}

// respClass: is the response a well-formed client-visible answer, and of which kind.
func respClass(s string, code int, hdr http.Header, body []byte) (string, string) {
	ct := hdr.Get("Content-Type")
	payloads := [][]byte{body}
	kind := "json"
	switch {
	case strings.HasPrefix(ct, "text/event-stream"):
		kind = "sse"
		payloads = nil
		txt := string(body)
		if !strings.HasPrefix(txt, ":\n\n") || !strings.HasSuffix(txt, "event: complete\n\n") {
			return "malformed-response", txt
		}
		for _, ev := range strings.Split(txt, "\n\n") {
			for _, ln := range strings.Split(ev, "\n") {
				if strings.HasPrefix(ln, "data: ") {
					payloads = append(payloads, []byte(ln[6:]))
				}
			}
		}
	case strings.HasPrefix(ct, "multipart/mixed"):
		kind = "mixed"
		payloads = nil
		txt := string(body)
		if !strings.HasSuffix(strings.TrimSpace(txt), "--graphql--") {
			return "malformed-response", txt
		}
		for _, seg := range strings.Split(txt, "--graphql") {
			if i := strings.Index(seg, "\r\n\r\n"); i >= 0 {
				p := strings.TrimSpace(seg[i+4:])
				if p != "" {
					payloads = append(payloads, []byte(p))
				}
			}
		}
	}
	if len(payloads) == 0 {
		return "malformed-response", string(body)
	}
	first := ""
	for i, p := range payloads {
		c, msg := classifyBody(p)
		if c == "malformed-response" {
			return c, msg
		}
		if i == 0 {
			first = c
			if c == "gql-error" {
				for _, pre := range trPrefixes {
					if strings.HasPrefix(msg, pre) {
						first = "decode-error"
					}
				}
				if s == "get" && code == 400 && strings.HasPrefix(msg, "invalid") {
					first = "decode-error"
				}
			}
		}
	}
	return first, kind
}

func trCase(tmpdir string, s site, body string, desc string) {
	e := &env{tmpdir: tmpdir}
	srv := newServer(e, s.tr())
	var req *http.Request
	if s.method == "GET" {
		req = httptest.NewRequest("GET", "/graphql", nil)
		req.URL.RawQuery = body
	} else {
		req = httptest.NewRequest("POST", "/graphql", strings.NewReader(body))
		req.Header.Set("Content-Type", s.ct)
	}
	if s.accept != "" {
		req.Header.Set("Accept", s.accept)
	}
	rec := httptest.NewRecorder()
	func() {
		defer func() {
			if r := recover(); r != nil {
				e.recovers += 1000
				e.panics = append(e.panics, fmt.Sprint(r))
			}
		}()
		srv.ServeHTTP(rec, req)
	}()
	cls, kind := respClass(s.name, rec.Code, rec.Header(), rec.Body.Bytes())
	if cls == "malformed-response" {
		kind = "json"
	}
	tmpAfter := lsTmp(tmpdir)
	cleanTmp(tmpdir)
	pan := "-"
	if len(e.panics) > 0 {
		pan = hx(strings.Join(e.panics, " | "))
	}
	b := body
	if len(b) > 200 {
		b = b[:200]
	}
	fmt.Fprintf(out, "tr\t%s %s\t%d\t%s\t%s\t%d\t%d\t%s\t%s\t%s\n", s.name, bodyClass(s.name, body), rec.Code, cls, kind, e.recovers, tmpAfter, pan, hx(b), desc)
}

func mutate(r *rng.R, s string) string {
	b := []byte(s)
	switch r.Below(7) {
	case 0: // truncate
		if len(b) > 0 {
			b = b[:r.Below(len(b))]
		}
	case 1: // flip a byte
		if len(b) > 0 {
			b[r.Below(len(b))] = byte(r.Next())
		}
	case 2: // insert a JSON token
		toks := []string{"null", "[]", "{}", "\"", ",", ":", "\\", "}", "{", "1e999", "\x00", "\xff"}
		i := r.Below(len(b) + 1)
		b = append(b[:i:i], append([]byte(toks[r.Below(len(toks))]), b[i:]...)...)
	case 3: // replace a value by null
		return strings.Replace(s, "\"{ name }\"", "null", 1)
	case 4: // duplicate
		return s + s
	case 5: // delete a byte
		if len(b) > 0 {
			i := r.Below(len(b))
			b = append(b[:i:i], b[i+1:]...)
		}
	case 6: // prefix with null
		return "null" + s
	}
	return string(b)
}

var trValid = []string{
		`{"query":"{ name }"}`,
		`{"query":"{ name }","variables":{"a":1},"operationName":null,"extensions":{}}`,
		`{"query":"query Q($a: Any) { echo(v:$a) }","variables":{"a":[1,{"b":null}]},"operationName":"Q"}`,
		`{"query":"subscription { name }"}`,
	`{"query":"mutation { up }"}`,
}

var trDirected = []string{
		`null`, ` null `, "null\n", `null{}`, `null "query":`, `null"query":"{ name }"`, `nulll`, `nul`, `{}`, `[]`, `""`, `0`, `true`, `[null]`,
		`{"query":null}`, `{"query":"{ name }","variables":null}`, `{"query":"{ name }","variables":[]}`, `{"query":"{ name }","variables":"x"}`,
		`{"query":"{ name }","extensions":null}`, `{"query":"{ name }","extensions":[]}`, `{"query":"{ name }"} trailing`, "\xff\xfe", ``, ` `,
		`{"query":"{ name }"`, strings.Repeat("[", 20000), `{"query":"{ name }","variables":{"a":1e999999}}`, `{"query":"\ud800"}`,
		`{"query":"{ name }","query":null}`, "\xef\xbb\xbf" + `{"query":"{ name }"}`, `{"headers":{"X":["y"]},"query":"{ name }"}`, `{"headers":null,"query":"{ name }"}`,
		`{"headers":5}`, `{"query":"{ nope }"}`, `{"query":"{"}`, `{"query":"{ name }","operationName":"Missing"}`, `{"query":5}`, `{"operationName":{}}`,
		`"query":`, `null "query":`, `query=%7Bname%7D`, `query=%7B%zz`, `query=%7B`, `query={name}`, `query={ name }`, `query=`, `{ name }`, `%7B%20name%20%7D`, `%7B%ZZ`, `%7B%`,
		`query=%7Bname%7D&variables=null`, `query={name}&variables=null`, `query={name}&variables=[]`, `query={name}&variables={"a":1}`, `query={name}&variables={`,
		`query={name}&extensions=null`, `query={name}&extensions=5`, `query=mutation{up}`, `query={name}&operationName=X`, `%zz`, `a;b`, `query=%`, `variables=null`, `&&&=`, `query`,
	"--" + boundary + "--\r\n", "--" + boundary + "\r\n\r\nnull\r\n--" + boundary + "--\r\n",
}

func trMode(r *rng.R, n int, tmpdir string) {
	os.Setenv("TMPDIR", tmpdir)
	valid, directed := trValid, trDirected
	for _, s := range sites {
		for i, b := range append(append([]string{}, valid...), directed...) {
			trCase(tmpdir, s, b, fmt.Sprintf("directed-%d", i))
		}
		for i := 0; i < n; i++ {
			var b string
			switch r.Below(4) {
			case 0: // random bytes
				k := r.Below(24)
				bb := make([]byte, k)
				for j := range bb {
					bb[j] = byte(r.Next())
				}
				b = string(bb)
			default:
				b = mutate(r, valid[r.Below(len(valid))])
				if r.Below(4) == 0 {
					b = mutate(r, b)
				}
			}
			if s.name == "get" || s.name == "urlencoded" || s.name == "graphql" {
				switch r.Below(4) {
				case 0:
					b = "query=" + url.QueryEscape(b)
				case 1:
					b = "query=%7Bname%7D&variables=" + url.QueryEscape(b)
				case 2:
					b = "query=" + b
				}
			}
			trCase(tmpdir, s, b, "rand")
		}
	}
	_ = bytes.MinRead
}
