// Harness for C10: runs gqlgen's real input paths (RawParams.AddUpload, every HTTP transport, the
// websocket transport) in-process on generated requests and prints one TSV line per case: the
// encoded input (exactly what the Lean driver reads), and the implementation's observable output
// (status / error class / RecoverFunc invocations / private TMPDIR listing / variables tree as the
// resolver saw it / reader kinds). bin/check pipes the inputs to the Lean driver and compares.
//
// Modes (all run by default):
//   au  RawParams.AddUpload on (variables tree, sequence of map paths)
//   mp  multipart/form-data requests through handler.Server + transport.MultipartForm
//   tr  raw / mutated bodies on every HTTP transport
//   ws  websocket frames of every type and payload on both subprotocols
//   wl  multi-step websocket sequences with client strings of every boundary length (wl.go)
//   hs  request histories on one server configured like production (hs.go)
//   rs  scripts of Read/Seek run by user code on the readers of an upload (rs.go)
//   wc  server-initiated websocket closes while subscriptions are writing (wc.go)
package main

import (
	"bufio"
	"bytes"
	"encoding/hex"
	"encoding/json"
	"flag"
	"fmt"
	"io"
	"log"
	"os"
	"os/exec"
	"sort"
	"strings"

	"github.com/99designs/gqlgen/graphql"
	"verifharness/internal/rng"
)

var out = bufio.NewWriterSize(os.Stdout, 1<<20)

func hx(s string) string {
	if len(s) == 0 {
		return "-"
	}
	return hex.EncodeToString([]byte(s))
}

// ---------------------------------------------------------------- variable trees

// node is the harness' own description of a JSON value; it is turned into JSON text and decoded by
// the same decoder settings the transports use (UseNumber), so the dynamic Go types are the real ones.
type node struct {
	kind byte // n null, t, f, i number (s = text), s string (s), a array, o object, N nil map (top only)
	s    string
	kids []*node
	keys []string
}

const safe = "abcdefghijklmnopqrstuvwxyzABCDEFGHIJKLMNOPQRSTUVWXYZ0123456789_+-"

func isSafe(s string) bool {
	for _, c := range s {
		if !strings.ContainsRune(safe, c) {
			return false
		}
	}
	return true
}

// enc: comma separated prefix tokens, the format the Lean driver parses.
func (n *node) enc() string {
	var b []string
	var rec func(n *node)
	rec = func(n *node) {
		switch n.kind {
		case 'n', 't', 'f', 'N':
			b = append(b, string(n.kind))
		case 'i':
			b = append(b, "i"+n.s)
		case 's':
			b = append(b, "s"+hx(n.s))
		case 'a':
			b = append(b, fmt.Sprintf("a%d", len(n.kids)))
			for _, k := range n.kids {
				rec(k)
			}
		case 'o':
			b = append(b, fmt.Sprintf("o%d", len(n.kids)))
			for i, k := range n.kids {
				b = append(b, "k"+hx(n.keys[i]))
				rec(k)
			}
		}
	}
	rec(n)
	return strings.Join(b, ",")
}

func (n *node) json() string {
	switch n.kind {
	case 'n', 'N':
		return "null"
	case 't':
		return "true"
	case 'f':
		return "false"
	case 'i':
		return n.s
	case 's':
		b, _ := json.Marshal(n.s)
		return string(b)
	case 'a':
		var p []string
		for _, k := range n.kids {
			p = append(p, k.json())
		}
		return "[" + strings.Join(p, ",") + "]"
	default:
		var p []string
		for i, k := range n.kids {
			kb, _ := json.Marshal(n.keys[i])
			p = append(p, string(kb)+":"+k.json())
		}
		return "{" + strings.Join(p, ",") + "}"
	}
}

// variables decodes the tree the way a transport does.
func (n *node) variables() map[string]any {
	if n.kind == 'N' {
		return nil
	}
	var v map[string]any
	dec := json.NewDecoder(strings.NewReader(n.json()))
	dec.UseNumber()
	if err := dec.Decode(&v); err != nil {
		panic("harness: bad tree json: " + err.Error() + " " + n.json())
	}
	return v
}

var keyPool = []string{"a", "b", "file", "files", "req", "0", "1", "-1", "+1", "01", "x", ""}
var topPool = []string{"a", "b", "file", "files", "req"}

func randLeaf(r *rng.R) *node {
	switch r.Below(6) {
	case 0, 1, 2:
		return &node{kind: 'n'}
	case 3:
		return &node{kind: 'i', s: fmt.Sprint(r.Below(100))}
	case 4:
		return &node{kind: 's', s: []string{"s", "", "0", "variables"}[r.Below(4)]}
	default:
		return &node{kind: []byte{'t', 'f'}[r.Below(2)]}
	}
}

func randTree(r *rng.R, depth int, top bool) *node {
	if depth <= 0 || (!top && r.Below(3) == 0) {
		return randLeaf(r)
	}
	if top || r.Bool() {
		n := &node{kind: 'o'}
		pool := keyPool
		if top {
			pool = topPool
		}
		k := r.Below(4)
		if top {
			k++
		}
		seen := map[string]bool{}
		for i := 0; i < k; i++ {
			key := pool[r.Below(len(pool))]
			if seen[key] {
				continue
			}
			seen[key] = true
			n.keys = append(n.keys, key)
			n.kids = append(n.kids, randTree(r, depth-1, false))
		}
		return n
	}
	n := &node{kind: 'a'}
	k := r.Below(4)
	for i := 0; i < k; i++ {
		n.kids = append(n.kids, randTree(r, depth-1, false))
	}
	return n
}

// positions lists every addressable position (as segment lists) of a tree.
func positions(n *node) [][]string {
	var res [][]string
	var rec func(n *node, pre []string)
	rec = func(n *node, pre []string) {
		if len(pre) > 0 {
			res = append(res, append([]string{}, pre...))
		}
		switch n.kind {
		case 'a':
			for i, k := range n.kids {
				rec(k, append(pre, fmt.Sprint(i)))
			}
		case 'o':
			for i, k := range n.kids {
				rec(k, append(pre, n.keys[i]))
			}
		}
	}
	rec(n, nil)
	return res
}

var oddSegs = []string{"5", "-1", "-0", "+0", "+1", "01", "007", "x", "", "9223372036854775807", "9223372036854775808",
	"-9223372036854775808", "-9223372036854775809", "99999999999999999999", "+", "-", "1_0", "0x1", "1e3", " 1", "1 ", "１", "a", "file", "0", "1", "2", "3"}

// randPath: mostly a valid position of the tree, then structurally mutated.
func randPath(r *rng.R, t *node) string {
	pos := positions(t)
	var segs []string
	if len(pos) > 0 && r.Below(10) != 0 {
		segs = append([]string{}, pos[r.Below(len(pos))]...)
	} else {
		segs = []string{topPool[r.Below(len(topPool))]}
	}
	// index spelling variants
	for i, s := range segs {
		if len(s) > 0 && s[0] >= '0' && s[0] <= '9' && r.Below(6) == 0 {
			segs[i] = []string{"+" + s, "0" + s, "00" + s}[r.Below(3)]
		}
	}
	switch r.Below(12) {
	case 0: // replace one segment by an odd one
		segs[r.Below(len(segs))] = oddSegs[r.Below(len(oddSegs))]
	case 1: // descend one more
		segs = append(segs, oddSegs[r.Below(len(oddSegs))])
	case 2: // two more
		segs = append(segs, oddSegs[r.Below(len(oddSegs))], oddSegs[r.Below(len(oddSegs))])
	case 3: // drop last
		if len(segs) > 1 {
			segs = segs[:len(segs)-1]
		}
	case 4: // new key under an existing container
		segs[len(segs)-1] = keyPool[r.Below(len(keyPool))]
	}
	prefix := "variables."
	switch r.Below(40) {
	case 0:
		prefix = "variables"
	case 1:
		prefix = ""
	case 2:
		prefix = "variable."
	case 3:
		prefix = "Variables."
	case 4:
		prefix = "variables.."
	}
	return prefix + strings.Join(segs, ".")
}

// ---------------------------------------------------------------- au mode

// treeOut prints variables with uploads as {"$u":id}; keys sorted; only safe characters expected.
func treeOut(v any, uid func(graphql.Upload) int) string {
	switch x := v.(type) {
	case nil:
		return "null"
	case bool:
		if x {
			return "true"
		}
		return "false"
	case json.Number:
		return string(x)
	case string:
		b, _ := json.Marshal(x)
		return string(b)
	case graphql.Upload:
		return fmt.Sprintf(`{"$u":%d}`, uid(x))
	case []any:
		var p []string
		for _, k := range x {
			p = append(p, treeOut(k, uid))
		}
		return "[" + strings.Join(p, ",") + "]"
	case map[string]any:
		if x == nil {
			return "null"
		}
		keys := make([]string, 0, len(x))
		for k := range x {
			keys = append(keys, k)
		}
		sort.Strings(keys)
		var p []string
		for _, k := range keys {
			kb, _ := json.Marshal(k)
			p = append(p, string(kb)+":"+treeOut(x[k], uid))
		}
		return "{" + strings.Join(p, ",") + "}"
	default:
		return fmt.Sprintf(`"?%T"`, v)
	}
}

func auClass(msg string) string {
	switch {
	case strings.HasPrefix(msg, "invalid operations paths for key"):
		return "prefix"
	case strings.HasPrefix(msg, "path is missing"):
		return "nilptr"
	case strings.HasPrefix(msg, "invalid upload path"):
		return "badpath"
	}
	return "other:" + msg
}

func auCase(t *node, paths []string) {
	var hp []string
	for _, p := range paths {
		hp = append(hp, hx(p))
	}
	res := func() (res string) {
		params := &graphql.RawParams{Variables: t.variables()}
		i := 0
		defer func() {
			if e := recover(); e != nil {
				res = fmt.Sprintf("panic %d %v", i, e)
			}
		}()
		for ; i < len(paths); i++ {
			up := graphql.Upload{Filename: fmt.Sprint(i), Size: int64(i)}
			if err := params.AddUpload(up, "k", paths[i]); err != nil {
				return fmt.Sprintf("err %d %s", i, auClass(err.Message))
			}
		}
		if params.Variables == nil {
			return "ok null"
		}
		return "ok " + treeOut(map[string]any(params.Variables), func(u graphql.Upload) int { return int(u.Size) })
	}()
	fmt.Fprintf(out, "au\t%s %s\t%s\n", t.enc(), strings.Join(hp, ";"), res)
}

func obj(kv ...any) *node {
	n := &node{kind: 'o'}
	for i := 0; i+1 < len(kv); i += 2 {
		n.keys = append(n.keys, kv[i].(string))
		n.kids = append(n.kids, kv[i+1].(*node))
	}
	return n
}
func arr(k ...*node) *node { return &node{kind: 'a', kids: k} }
func null() *node          { return &node{kind: 'n'} }
func str(s string) *node   { return &node{kind: 's', s: s} }

func auMode(r *rng.R, n int) {
	// directed adversarial shapes (wrong container kind, out-of-range, negative, missing, nil map ...)
	base := obj("a", arr(null(), null()), "s", str("x"), "m", obj("k", null(), "0", null()), "n", null(), "file", null())
	for _, p := range []string{
		"variables.file", "variables.a.0", "variables.a.1", "variables.a.2", "variables.a.5", "variables.a.-1", "variables.a.-0",
		"variables.a.+1", "variables.a.01", "variables.a.x", "variables.s.x", "variables.s.0", "variables.m.0", "variables.m.k",
		"variables.m.new", "variables.m.k.z", "variables.n.x", "variables.n.0", "variables.zz", "variables.zz.y", "variables.",
		"variables..", "variables", "", "variable.file", "variables.a.9223372036854775807", "variables.a.9223372036854775808",
		"variables.a.-9223372036854775808", "variables.a.0.0", "variables.a.0.x", "variables.0", "variables.m.0.1",
		"file", "variables.file.", "variables.a.1_0", "variables.a.１", "variables.a.+", "variables.a.-",
	} {
		auCase(base, []string{p})
	}
	nilmap := &node{kind: 'N'}
	for _, p := range []string{"variables.file", "variables.a.b", "variables.0", "variables.", "x"} {
		auCase(nilmap, []string{p})
		auCase(obj(), []string{p})
	}
	// sequences: same path twice, prefix overwrites, descending into an upload
	auCase(base, []string{"variables.file", "variables.file"})
	auCase(base, []string{"variables.file", "variables.file.x"})
	auCase(base, []string{"variables.file", "variables.file.0"})
	auCase(base, []string{"variables.a.0", "variables.a"})
	auCase(base, []string{"variables.a", "variables.a.0"})
	auCase(base, []string{"variables.a.0", "variables.a.1", "variables.m.k"})
	auCase(base, []string{"variables.a.0", "variables.a.00", "variables.a.+0"})
	for i := 0; i < n; i++ {
		t := randTree(r, 3, true)
		if r.Below(50) == 0 {
			t = &node{kind: 'N'}
		}
		k := 1
		if r.Below(3) == 0 {
			k = 1 + r.Below(3)
		}
		var ps []string
		for j := 0; j < k; j++ {
			ps = append(ps, randPath(r, t))
		}
		auCase(t, ps)
	}
}

func main() {
	tier := flag.String("tier", "quick", "quick|thorough")
	seed := flag.Uint64("seed", 1, "seed")
	mode := flag.String("mode", "au,mp,tr,ws,wl,hs,rs,wc", "which modes")
	corpus := flag.String("corpus", "", "directory of directed cases (corpus/C10)")
	flag.Parse()
	defer out.Flush()
	r := rng.New(*seed)
	log.SetOutput(io.Discard)
	root, err := os.MkdirTemp("", "c10h")
	if err != nil {
		panic(err)
	}
	defer os.RemoveAll(root)
	sub := func(n string) string {
		d := root + "/" + n
		if err := os.MkdirAll(d, 0o755); err != nil {
			panic(err)
		}
		return d
	}
	scale := 1
	if *tier == "thorough" {
		scale = 40
	}
	for _, m := range strings.Split(*mode, ",") {
		rr := r.Fork()
		switch m {
		case "au":
			auMode(rr, 3000*scale)
		case "mp":
			mpMode(rr, 500*scale, sub("mp"))
		case "tr":
			trMode(rr, 60*scale, sub("tr"))
		case "ws", "wl", "wc":
			// in a child process that announces every case on stderr before running it: a panic outside every
			// recover (an operation goroutine of the websocket transport) costs that process only, and the case
			// that was running is reported (row `xc`)
			out.Flush()
			cmd := exec.Command(os.Args[0], "-mode", m+"-child", "-tier", *tier, "-seed", fmt.Sprint(rr.Next()), "-corpus", *corpus)
			var so, se bytes.Buffer
			cmd.Stdout, cmd.Stderr = &so, &se
			err := cmd.Run()
			b := so.Bytes()
			if i := bytes.LastIndexByte(b, '\n'); i >= 0 {
				out.Write(b[:i+1])
			}
			if err != nil {
				last, rest := "-", []string{}
				for _, l := range strings.Split(se.String(), "\n") {
					if strings.HasPrefix(l, "@case ") {
						last = l[6:]
						rest = rest[:0]
					} else {
						rest = append(rest, l)
					}
				}
				t := strings.Join(rest, "\n")
				if len(t) > 1500 {
					t = t[:1500]
				}
				fmt.Fprintf(out, "xc\t%s\t%s\t%s\t%s\n", m, hx(last), hx(err.Error()), hx(t))
			}
		case "ws-child":
			wsMode(r, 12*scale)
		case "wl-child":
			cf := ""
			if *corpus != "" {
				cf = *corpus + "/wl.txt"
			}
			wlMode(r, 60*scale, cf)
		case "wc-child":
			wcMode(r, 40*scale)
		case "rs":
			cf := ""
			if *corpus != "" {
				cf = *corpus + "/rs.txt"
			}
			rsMode(rr, 400*scale, sub("rs"), cf)
		case "hs": // in a child process: a panic outside every recover must not take the other modes' rows with it
			cf := ""
			if *corpus != "" {
				cf = *corpus + "/hs.txt"
			}
			out.Flush()
			cmd := exec.Command(os.Args[0], "-mode", "hs-child", "-tier", *tier, "-seed", fmt.Sprint(rr.Next()), "-corpus", cf)
			var so, se bytes.Buffer
			cmd.Stdout, cmd.Stderr = &so, &se
			err := cmd.Run()
			b := so.Bytes()
			if i := bytes.LastIndexByte(b, '\n'); i >= 0 {
				out.Write(b[:i+1])
			}
			if err != nil {
				t := se.String()
				if len(t) > 1500 {
					t = t[:1500]
				}
				fmt.Fprintf(out, "hc\tcrash\t%s\t%s\n", hx(err.Error()), hx(t))
			}
		case "hs-child":
			hsMode(r, 150*scale, sub("hs"), *corpus, *tier == "thorough")
		}
		out.Flush()
	}
}
