package main

// Mode wc: closes of a websocket connection that the SERVER initiates - every close reason the
// transport has once a connection is initialised - while several subscriptions on that connection
// are in the middle of writing frames. A session: connection_init, k streaming subscriptions
// (frames of 16 B .. 48 KB, event sources that never run dry), wait until every one has delivered,
// then the trigger:
//
//	dup         a second subscribe under an active id                  -> 4409
//	terminate   connection_terminate                                   -> 1000 (graphql-ws) / 1002
//	ack         a server->client message type sent by the client       -> 1002 unexpected message
//	unknown     a message type nobody knows                            -> close
//	badjson     a text frame that is not JSON                          -> close
//	binary      a binary frame with garbage                            -> close
//	cancel      the server cancels the connection context (InitFunc)   -> 1000 terminated
//	cancelwhy   the same with transport.AppendCloseReason              -> connection_error + 1000
//	pong        PingPongInterval elapses without a pong (own server)   -> close
//	bye         the client sends a close frame                         -> close
//
// and a client that starts draining at once or only after a few ms. Observed: the close code and
// reason the client gets, frames that are not well-formed, the recover-hook counter (no user code
// panics here), operations whose context was never cancelled. Runs in a child process that
// announces every session on stderr (`@case …`) first: a panic outside every recover (gorilla's
// "concurrent write to websocket connection" in an operation goroutine) costs the process, and the
// parent reports the session that was running.

import (
	"context"
	"encoding/json"
	"fmt"
	"io"
	"log"
	"net/http"
	"net/http/httptest"
	"os"
	"strings"
	"sync"
	"time"

	"github.com/99designs/gqlgen/graphql/handler/transport"
	"github.com/gorilla/websocket"
	"verifharness/internal/rng"
)

func announce(format string, a ...any) {
	fmt.Fprintf(os.Stderr, "@case "+format+"\n", a...)
}

type wcSrv struct {
	e       *env
	url     string
	cancels sync.Map // cid -> context.CancelFunc
	ts      *httptest.Server
}

func newWcSrv(pingPong time.Duration) *wcSrv {
	s := &wcSrv{e: &env{}}
	ws := transport.Websocket{
		PingPongInterval: pingPong,
		InitFunc: func(ctx context.Context, p transport.InitPayload) (context.Context, *transport.InitPayload, error) {
			cid, _ := p["cid"].(string)
			if why, _ := p["why"].(string); why != "" {
				ctx = transport.AppendCloseReason(ctx, why)
			}
			ctx, cancel := context.WithCancel(ctx)
			s.cancels.Store(cid, cancel)
			return ctx, nil, nil
		},
	}
	srv := newServer(s.e, ws)
	s.ts = httptest.NewUnstartedServer(srv)
	s.ts.Config.ErrorLog = log.New(io.Discard, "", 0)
	s.ts.Start()
	s.url = "ws" + strings.TrimPrefix(s.ts.URL, "http")
	return s
}

var wcSeq int

func (s *wcSrv) session(proto, trig string, k, size, delayMs int, desc string) {
	wcSeq++
	cid := fmt.Sprintf("c%d", wcSeq)
	announce("wc %s %s k=%d size=%d delay=%dms (%s)", proto, trig, k, size, delayMs, desc)
	e := s.e
	mu.Lock()
	e.recovers, e.panics, e.streams, e.ended = 0, nil, 0, 0
	mu.Unlock()
	sub, nxt := "start", "data"
	if proto == "graphql-transport-ws" {
		sub, nxt = "subscribe", "next"
	}
	h := http.Header{}
	h.Set("Sec-WebSocket-Protocol", proto)
	closed, reason := "", ""
	bad, connErr := 0, "-"
	c, _, err := websocket.DefaultDialer.Dial(s.url, h)
	if err != nil {
		closed = "dial-error"
	} else {
		func() {
			defer c.Close()
			send := func(f string) { c.WriteMessage(websocket.TextMessage, []byte(f)) }
			type frame struct {
				Type    *string         `json:"type"`
				ID      string          `json:"id"`
				Payload json.RawMessage `json:"payload"`
			}
			// read one frame; false when the connection ended
			read := func(d time.Duration) (*frame, bool) {
				c.SetReadDeadline(time.Now().Add(d))
				_, data, err := c.ReadMessage()
				if err != nil {
					if ce, ok := err.(*websocket.CloseError); ok {
						closed = fmt.Sprintf("close:%d", ce.Code)
						reason = ce.Text
					} else if strings.Contains(err.Error(), "timeout") {
						closed = "timeout"
					} else if strings.Contains(err.Error(), "invalid utf8") {
						closed = "bad-close-utf8"
					} else {
						closed = "eof"
					}
					return nil, false
				}
				var m frame
				if err := json.Unmarshal(data, &m); err != nil || m.Type == nil {
					bad++
					return &frame{}, true
				}
				return &m, true
			}
			why := ""
			if trig == "cancelwhy" {
				why = `,"why":"maintenance"`
			}
			send(`{"type":"connection_init","payload":{"cid":"` + cid + `"` + why + `}}`)
			for {
				m, ok := read(2 * time.Second)
				if !ok {
					return
				}
				if m.Type != nil && *m.Type == "connection_ack" {
					break
				}
			}
			for i := 0; i < k; i++ {
				send(fmt.Sprintf(`{"type":"%s","id":"%d","payload":{"query":"subscription StreamK%d { name }","operationName":"StreamK%d"}}`, sub, i, size, size))
			}
			seen := map[string]bool{}
			for len(seen) < k {
				m, ok := read(3 * time.Second)
				if !ok {
					return
				}
				if m.Type != nil && *m.Type == nxt {
					seen[m.ID] = true
				}
			}
			switch trig {
			case "dup":
				send(fmt.Sprintf(`{"type":"%s","id":"0","payload":{"query":"{ name }"}}`, sub))
			case "terminate":
				send(`{"type":"connection_terminate"}`)
			case "ack":
				send(`{"type":"connection_ack"}`)
			case "unknown":
				send(`{"type":"bogus","id":"0"}`)
			case "badjson":
				send(`{"type":`)
			case "binary":
				c.WriteMessage(websocket.BinaryMessage, []byte{0xff, 0x00, 0x7b})
			case "cancel", "cancelwhy":
				if f, ok := s.cancels.Load(cid); ok {
					f.(context.CancelFunc)()
				}
			case "pong":
				// nothing: the server's ping stays unanswered
			case "bye":
				c.WriteControl(websocket.CloseMessage, websocket.FormatCloseMessage(websocket.CloseNormalClosure, "bye"), time.Now().Add(time.Second))
			}
			if delayMs > 0 { // a client that is a little slow to drain what the server is still sending
				time.Sleep(time.Duration(delayMs) * time.Millisecond)
			}
			for {
				m, ok := read(3 * time.Second)
				if !ok {
					return
				}
				if m.Type != nil && *m.Type == "connection_error" {
					var p struct {
						Message string `json:"message"`
					}
					json.Unmarshal(m.Payload, &p)
					connErr = hx0(p.Message)
				}
			}
		}()
	}
	s.cancels.Delete(cid)
	// every operation must have been cancelled once the connection is gone
	leaked := 0
	for w := 0; ; w++ {
		mu.Lock()
		leaked = e.streams - e.ended
		started := e.streams
		mu.Unlock()
		if (leaked == 0 && started >= k) || w > 400 || closed == "dial-error" {
			break
		}
		time.Sleep(5 * time.Millisecond)
	}
	mu.Lock()
	rc := e.recovers
	pan := "-"
	if len(e.panics) > 0 {
		pan = hx(strings.Join(e.panics, " | "))
	}
	started := e.streams
	mu.Unlock()
	fmt.Fprintf(out, "wc\t%s %s %d %d %d\t%s\t%s\t%s\t%d\t%d\t%d\t%d\t%s\t%s\n", proto, trig, k, size, delayMs, closed, hx0(reason), connErr, bad, rc, started, leaked, pan, desc)
	out.Flush()
}

var wcTriggers = []string{"dup", "terminate", "ack", "unknown", "badjson", "binary", "cancel", "cancelwhy", "bye"}

func wcMode(r *rng.R, n int) {
	s := newWcSrv(0)
	defer s.ts.Close()
	sp := newWcSrv(25 * time.Millisecond)
	defer sp.ts.Close()
	protos := []string{"graphql-transport-ws", "graphql-ws"}
	// every close reason x both subprotocols x number of busy subscriptions x frame size x client drain delay
	for _, proto := range protos {
		for _, trig := range wcTriggers {
			for _, k := range []int{1, 3, 6} {
				for _, size := range []int{16, 4096, 49152} {
					if k == 3 && size == 4096 {
						continue
					}
					delay := 0
					if k == 6 {
						delay = 10
					}
					s.session(proto, trig, k, size, delay, "grid")
				}
			}
		}
	}
	for _, k := range []int{1, 6} {
		sp.session("graphql-transport-ws", "pong", k, 4096, 0, "grid")
	}
	sizes := []int{16, 300, 4096, 20000, 49152}
	for i := 0; i < n; i++ {
		s.session(protos[r.Below(2)], wcTriggers[r.Below(len(wcTriggers))], 1+r.Below(8), sizes[r.Below(len(sizes))], []int{0, 0, 5, 20}[r.Below(4)], fmt.Sprintf("rand-%d", i))
	}
}
