package main

import (
	"fmt"
	"go/token"
	"go/types"
	"strings"

	"github.com/99designs/gqlgen/codegen/config"
	"github.com/vektah/gqlparser/v2/ast"
)

// -mode typerefs: the REAL config.TypeReference predicates that decide how a reference is (un)marshalled
// (IsSlice, IsPtrToSlice, IsPtrToPtr, IsPtrToIntf, IsNilable), Binder.CopyModifiersFromAst, and the Elem() chain
// that codegen.processType / type.gotpl walk, on every GraphQL wrapper x bound Go type of a grid. One line per case:
//
//	r <cm|raw> <omit_slice_element_pointers> <gtype> <target> <step;step;…>     step = <5 flag bits>:<Go type>:<gql|nil>
//
// A step that cannot compute its UniquenessKey (nil GQL: the generator's nil dereference) ends the chain with PANIC.
// lean/Driver/C17.lean `tref` prints the same from Model/TypeRef.lean.

func buildGoT(toks []string) types.Type {
	switch toks[0] {
	case "b":
		return types.Typ[types.String]
	case "t":
		return types.NewStruct(nil, nil)
	case "m":
		return types.NewMap(types.Typ[types.String], types.Typ[types.String])
	case "i":
		return types.NewInterfaceType(nil, nil).Complete()
	case "a":
		return types.NewArray(types.Typ[types.String], 2)
	case "c":
		return types.NewChan(types.SendRecv, types.Typ[types.String])
	case "s":
		return types.NewSlice(buildGoT(toks[1:]))
	case "p":
		return types.NewPointer(buildGoT(toks[1:]))
	case "n":
		pkg := types.NewPackage("example.com/ext", "ext")
		return types.NewNamed(types.NewTypeName(token.NoPos, pkg, "T", nil), buildGoT(toks[1:]), nil)
	}
	panic("bad go type token " + toks[0])
}

func encGoT(t types.Type) string {
	switch t := t.(type) {
	case *types.Basic:
		return "b"
	case *types.Struct:
		return "t"
	case *types.Map:
		return "m"
	case *types.Interface:
		return "i"
	case *types.Array:
		return "a"
	case *types.Chan:
		return "c"
	case *types.Slice:
		return "s," + encGoT(t.Elem())
	case *types.Pointer:
		return "p," + encGoT(t.Elem())
	case *types.Named:
		return "n," + encGoT(t.Underlying())
	}
	return "?"
}

func buildGql(w string, i int) *ast.Type {
	switch w[i] {
	case 'n':
		return &ast.Type{NamedType: "S"}
	case 'N':
		return &ast.Type{NamedType: "S", NonNull: true}
	case 'l':
		return &ast.Type{Elem: buildGql(w, i+1)}
	default:
		return &ast.Type{Elem: buildGql(w, i+1), NonNull: true}
	}
}

func encGql(t *ast.Type) string {
	if t == nil {
		return "nil"
	}
	nn := "0"
	if t.NonNull {
		nn = "1"
	}
	if t.Elem != nil {
		return "L" + nn + "," + encGql(t.Elem)
	}
	return "N" + nn + ":S"
}

func bit(b bool) string {
	if b {
		return "1"
	}
	return "0"
}

func refChain(ref *config.TypeReference) string {
	var steps []string
	for n := 0; n < 16; n++ {
		ok := func() (ok bool) {
			defer func() {
				if r := recover(); r != nil {
					ok = false
				}
			}()
			_ = ref.UniquenessKey()
			return true
		}()
		if !ok {
			steps = append(steps, "PANIC")
			break
		}
		sl, ps, pp, pi := ref.IsSlice(), ref.IsPtrToSlice(), ref.IsPtrToPtr(), ref.IsPtrToIntf()
		steps = append(steps, bit(sl)+bit(ps)+bit(pp)+bit(pi)+bit(ref.IsNilable())+":"+encGoT(ref.GO)+":"+encGql(ref.GQL))
		// codegen/type.go processType: `if ref.IsSlice() || ref.IsPtrToSlice() || ref.IsPtrToPtr() || ref.IsPtrToIntf()`
		if !(sl || ps || pp || pi) {
			break
		}
		next, ok := func() (n *config.TypeReference, ok bool) {
			defer func() {
				if r := recover(); r != nil {
					ok = false
				}
			}()
			return ref.Elem(), true
		}()
		if !ok {
			steps = append(steps, "PANIC")
			break
		}
		if next == nil {
			steps = append(steps, "NILREF")
			break
		}
		ref = next
	}
	return strings.Join(steps, ";")
}

var trefTargets = []string{"b", "n,b", "s,b", "s,s,b", "s,p,b", "s,n,t", "n,s,b", "n,s,s,b", "p,b", "p,n,b", "p,n,t", "p,s,b", "p,n,s,b", "p,p,b", "p,i", "p,n,i",
	"m", "n,m", "n,t", "n,a", "i", "n,i", "n,c", "p,m", "s,i", "s,n,i"}

// (unnamed struct / array / chan targets are left out: templates.TypeIdentifier panics on them - known finding
// F17g, replayed by the directed project c17b_f17g - so they have no UniquenessKey to walk)

func runTypeRefs(tier string, seed uint64) {
	ws := append([]string{}, wrappers...)
	ws = append(ws, "llN", "Lln", "lLn", "llln", "LlLN")
	def := &ast.Definition{Kind: ast.Scalar, Name: "S"}
	for _, omit := range []bool{false, true} {
		b := (&config.Config{OmitSliceElementPointers: omit}).NewBinder()
		for _, w := range ws {
			gql := buildGql(w, 0)
			for _, tg := range trefTargets {
				target := buildGoT(strings.Split(tg, ","))
				for _, mode := range []string{"cm", "raw"} {
					gt := target
					if mode == "cm" {
						gt = b.CopyModifiersFromAst(gql, target)
					}
					ref := &config.TypeReference{Definition: def, GQL: gql, GO: gt, Target: target}
					fmt.Fprintf(out, "r\t%s\t%s\t%s\t%s\t%s\n", mode, bit(omit), encGql(gql), tg, refChain(ref))
				}
			}
		}
	}
}
