package main

import (
	"fmt"
	"os"
	"path/filepath"
	"sort"
	"strings"

	"verifharness/internal/rng"
)

// Seeded random gqlgen projects: a schema from a grammar covering objects, interfaces (incl.
// interface-implements-interface), unions, enums, input objects, list / non-null nesting, default values,
// custom + built-in directives, subscriptions, extensions over several files, and names that are Go keywords,
// predeclared identifiers, initialisms, or carry leading / trailing / embedded underscores, enum values and
// type names that normalise to the same Go identifier — times a random point of the configuration matrix.
//
// The generator only emits what the property's statement covers. Deliberately never generated (they collide by
// construction and gqlgen does not claim to handle them): two fields / arguments of one type whose names
// normalise equally, a field called is<Interface> / get<Field> next to the generated marker / getter methods,
// arguments named like the fixed parameters of the generated signatures (ctx, obj, next, …), a type `All<Enum>`,
// names consisting only of underscores and digits (known finding F17a is replayed as a directed project).

type gArg struct {
	name, typ, def, dirs string
}
type gField struct {
	name, typ, dirs string
	args            []gArg
}
type gType struct {
	kind    string // object interface union enum input
	name    string
	impls   []string
	fields  []gField
	values  []string // enum values / union members
	valDirs []string
	dirs    string
	file    int
	extFrom int // fields/values from this index on live in an `extend` block in another file (0 = none)
	extFile int
}
type gDirective struct {
	name string
	args []gArg
	locs []string
	rep  bool
}
type project struct {
	name     string
	types    []*gType
	dirs     []*gDirective
	nfiles   int
	cfg      map[string]string // boolean / scalar top-level options
	exec     string            // single | follow
	worker   int
	model    string // same | pkg
	res      string // none | single | follow
	resMark  []string
	notes    []string
	inputRes int // input-object fields configured as resolvers
}

var scalarOut = []string{"Int", "Float", "String", "Boolean", "ID", "Time", "Any", "Map"}
var scalarIn = []string{"Int", "Float", "String", "Boolean", "ID", "Time", "Any", "Map", "Int", "String"}

var nameLower = []string{"foo", "bar", "user", "name", "item", "node", "edge", "page", "info", "count", "value", "kind", "owner", "title", "body", "size", "state", "total", "data", "key"}
var nameInit = []string{"id", "ID", "url", "URL", "api", "API", "http", "HTTP", "uuid", "UUID", "json", "ip", "IP", "uid", "acl", "sql", "html", "Id", "Url", "Api", "Ids", "IDs", "URLs"}

// reserved: fixed identifiers of the generated signatures / bodies (not a documented pattern)
var reservedArg = map[string]bool{"ctx": true, "obj": true, "next": true, "ec": true, "err": true, "res": true, "tmp": true, "fc": true, "rctx": true,
	"args": true, "rawargs": true, "field": true, "fields": true, "childcomplexity": true, "data": true, "r": true, "e": true, "in": true, "v": true, "sel": true, "it": true, "ok": true}

func normKey(s string) string {
	var b strings.Builder
	for _, c := range strings.ToLower(s) {
		if c != '_' {
			b.WriteRune(c)
		}
	}
	return b.String()
}

type namer struct {
	r    *rng.R
	used map[string]bool
}

func newNamer(r *rng.R) *namer { return &namer{r: r, used: map[string]bool{}} }

// word soup with a letter as first non-underscore character
func (n *namer) raw(kind string) string {
	r := n.r
	var parts []string
	k := 1 + r.Below(3)
	for i := 0; i < k; i++ {
		switch r.Below(10) {
		case 0, 1, 2, 3:
			parts = append(parts, nameLower[r.Below(len(nameLower))])
		case 4, 5:
			parts = append(parts, nameInit[r.Below(len(nameInit))])
		case 6:
			parts = append(parts, goKeywords[r.Below(len(goKeywords))])
		case 7:
			parts = append(parts, predeclared[r.Below(len(predeclared))])
		case 8:
			w := nameLower[r.Below(len(nameLower))]
			parts = append(parts, strings.ToUpper(w))
		case 9:
			w := nameLower[r.Below(len(nameLower))]
			parts = append(parts, strings.ToUpper(w[:1])+w[1:])
		}
	}
	var b strings.Builder
	if r.Below(10) == 0 {
		b.WriteString("_")
	}
	for i, p := range parts {
		if i > 0 {
			switch r.Below(6) {
			case 0, 1:
				b.WriteString("_")
			case 2:
				b.WriteString("__")
			case 3: // camel
				p = strings.ToUpper(p[:1]) + p[1:]
			}
			if r.Below(8) == 0 {
				b.WriteString(digits[r.Below(len(digits))])
				if r.Bool() {
					b.WriteString("_")
				}
			}
		}
		b.WriteString(p)
	}
	if r.Below(10) == 0 {
		b.WriteString(digits[r.Below(len(digits))])
	}
	if r.Below(12) == 0 {
		b.WriteString("_")
	}
	s := b.String()
	if kind == "type" {
		// a leading underscore on an object type with resolvers is known finding F17e (directed project)
		s = strings.TrimLeft(s, "_")
	}
	if kind == "type" && r.Below(3) != 0 {
		i := 0
		for i < len(s) && s[i] == '_' {
			i++
		}
		s = s[:i] + strings.ToUpper(s[i:i+1]) + s[i+1:]
	}
	if kind == "enumval" && r.Below(2) == 0 {
		s = strings.ToUpper(s)
	}
	return s
}

func (n *namer) fresh(kind string, bad func(string) bool) string {
	for {
		s := n.raw(kind)
		k := normKey(s)
		if k == "" || n.used[k] || strings.HasPrefix(s, "__") || (bad != nil && bad(s)) {
			continue
		}
		n.used[k] = true
		return s
	}
}

func badField(s string) bool {
	k := normKey(s)
	return strings.HasPrefix(k, "is") || strings.HasPrefix(k, "get") || k == "typename"
}
func badArg(s string) bool { return reservedArg[normKey(s)] || badField(s) }
func badEnumVal(s string) bool {
	return s == "true" || s == "false" || s == "null"
}
func badType(s string) bool {
	k := normKey(s)
	switch k {
	case "query", "mutation", "subscription", "int", "float", "string", "boolean", "id", "time", "any", "map", "upload",
		"resolver", "stub", "config", "resolverroot", "directiveroot", "complexityroot", "executableschema":
		return true
	}
	return strings.HasPrefix(k, "all") || strings.HasSuffix(k, "resolver")
}

// deepNN fixes, per project and base type, the nullability of every level below the first list element:
// gqlgen's TypeReference.UniquenessKey only records the outermost and the first element's nullability, so
// `[[T!]]` next to `[[T]]` panics with "non-unique key" (known finding F17f, replayed as a directed project).
var deepNN = map[string]bool{}

func wrap(r *rng.R, base string) string {
	d := 0
	switch r.Below(10) {
	case 0, 1, 2:
		d = 1
	case 3:
		d = 2
	case 4:
		if r.Below(3) == 0 {
			d = 3
		}
	}
	t := base
	nn := r.Below(3) == 0
	for i := 0; i <= d; i++ {
		// level i counted from the innermost; levels d (outermost) and d-1 (first element) are free
		if i < d-1 {
			v, ok := deepNN[base]
			if !ok {
				v = r.Bool()
				deepNN[base] = v
			}
			nn = v
		}
		if nn {
			t += "!"
		}
		if i < d {
			t = "[" + t + "]"
			nn = r.Bool()
		}
	}
	return t
}

func (p *project) byName(n string) *gType {
	for _, t := range p.types {
		if t.name == n {
			return t
		}
	}
	return nil
}

// literal of an input type (nil = none can be built)
func (p *project) literal(r *rng.R, typ string, depth int) (string, bool) {
	if strings.HasSuffix(typ, "!") {
		return p.literal(r, typ[:len(typ)-1], depth)
	}
	if strings.HasPrefix(typ, "[") {
		inner := typ[1 : len(typ)-1]
		if r.Below(4) == 0 {
			return "[]", true
		}
		v, ok := p.literal(r, inner, depth)
		if !ok {
			return "[]", true
		}
		if r.Bool() {
			return "[" + v + "]", true
		}
		return "[" + v + ", " + v + "]", true
	}
	switch typ {
	case "Int":
		return []string{"0", "42", "-7"}[r.Below(3)], true
	case "Float":
		return []string{"1.5", "0", "-2.25e2"}[r.Below(3)], true
	case "String":
		return []string{`"x"`, `""`, `"a \"q\" b"`}[r.Below(3)], true
	case "Boolean":
		return []string{"true", "false"}[r.Below(2)], true
	case "ID":
		return []string{`"id1"`, "7"}[r.Below(2)], true
	case "Time", "Any", "Map":
		return "", false
	}
	t := p.byName(typ)
	if t == nil {
		return "", false
	}
	if t.kind == "enum" {
		return t.values[r.Below(len(t.values))], true
	}
	if t.kind == "input" && depth < 2 {
		var kv []string
		for _, f := range t.fields {
			hasDef := strings.HasPrefix(f.dirs, "= ")
			req := strings.HasSuffix(f.typ, "!")
			if (req && !hasDef) || r.Below(3) == 0 {
				v, ok := p.literal(r, f.typ, depth+1)
				if !ok {
					if req && !hasDef {
						return "", false
					}
					continue
				}
				kv = append(kv, f.name+": "+v)
			}
		}
		return "{" + strings.Join(kv, ", ") + "}", true
	}
	return "", false
}

func pick(r *rng.R, xs []string) string { return xs[r.Below(len(xs))] }

func genProject(r *rng.R, name string, tier string) *project {
	p := &project{name: name, cfg: map[string]string{}}
	deepNN = map[string]bool{}
	p.nfiles = 1 + r.Below(3)
	tn := newNamer(r)
	newType := func(kind string) *gType {
		t := &gType{kind: kind, name: tn.fresh("type", badType), file: r.Below(p.nfiles)}
		p.types = append(p.types, t)
		return t
	}
	// --- directives
	dn := newNamer(r)
	nd := 1 + r.Below(3)
	for i := 0; i < nd; i++ {
		d := &gDirective{name: dn.fresh("field", func(s string) bool {
			k := normKey(s)
			return k == "skip" || k == "include" || k == "deprecated" || k == "specifiedby" || k == "defer" || k == "gofield" || k == "gomodel" || k == "gotag" || k == "goenum" || k == "goextrafield" || k == "oneof"
		})}
		an := newNamer(r)
		na := r.Below(3)
		for j := 0; j < na; j++ {
			typ := wrap(r, pick(r, []string{"Int", "String", "Boolean", "ID", "Float"}))
			a := gArg{name: an.fresh("field", badArg), typ: typ}
			if r.Bool() {
				a.def, _ = p.literal(r, typ, 0)
			}
			d.args = append(d.args, a)
		}
		d.locs = []string{"FIELD_DEFINITION"}
		for _, l := range []string{"ARGUMENT_DEFINITION", "INPUT_FIELD_DEFINITION", "OBJECT", "INTERFACE", "INPUT_OBJECT", "QUERY", "MUTATION", "SUBSCRIPTION", "FIELD", "ENUM_VALUE", "ENUM", "UNION"} {
			if r.Below(3) == 0 {
				d.locs = append(d.locs, l)
			}
		}
		d.rep = r.Below(5) == 0
		p.dirs = append(p.dirs, d)
	}
	use := func(loc string) string {
		if r.Below(4) != 0 {
			return ""
		}
		var out []string
		for _, d := range p.dirs {
			ok := false
			for _, l := range d.locs {
				if l == loc {
					ok = true
				}
			}
			if !ok || r.Bool() {
				continue
			}
			var as []string
			for _, a := range d.args {
				req := strings.HasSuffix(a.typ, "!") && a.def == ""
				if req || r.Bool() {
					v, _ := p.literal(r, a.typ, 0)
					as = append(as, a.name+": "+v)
				}
			}
			s := "@" + d.name
			if len(as) > 0 {
				s += "(" + strings.Join(as, ", ") + ")"
			}
			out = append(out, s)
			if d.rep && r.Bool() {
				out = append(out, s)
			}
		}
		return strings.Join(out, " ")
	}

	// --- enums
	ne := 1 + r.Below(3)
	for i := 0; i < ne; i++ {
		t := newType("enum")
		vn := newNamer(r)
		nv := 1 + r.Below(5)
		for j := 0; j < nv; j++ {
			v := vn.fresh("enumval", badEnumVal)
			t.values = append(t.values, v)
			// values that normalise to the same Go identifier (documented: name-collision.md)
			if r.Below(4) == 0 {
				alts := []string{strings.ToUpper(v), strings.ToLower(v), v + "_", strings.ToUpper(v[:1]) + v[1:], strings.ReplaceAll(v, "_", "__")}
				for _, a := range alts {
					dup := badEnumVal(a) || strings.HasPrefix(a, "__")
					for _, x := range t.values {
						if x == a {
							dup = true
						}
					}
					if !dup && r.Bool() {
						t.values = append(t.values, a)
					}
				}
			}
		}
		for range t.values {
			d := use("ENUM_VALUE")
			if d == "" && r.Below(6) == 0 {
				d = `@deprecated(reason: "old")`
			}
			t.valDirs = append(t.valDirs, d)
		}
		t.dirs = use("ENUM")
	}
	var enums, inputs, ifaces, objects, unions []string
	for _, t := range p.types {
		enums = append(enums, t.name)
	}
	// --- inputs (may reference earlier inputs, or any input through a nullable / list position)
	ni := 1 + r.Below(3)
	for i := 0; i < ni; i++ {
		t := newType("input")
		fn := newNamer(r)
		nf := 1 + r.Below(5)
		for j := 0; j < nf; j++ {
			var base string
			switch r.Below(6) {
			case 0:
				base = pick(r, enums)
			case 1:
				if len(inputs) > 0 {
					base = pick(r, inputs)
				} else {
					base = pick(r, scalarIn)
				}
			default:
				base = pick(r, scalarIn)
			}
			f := gField{name: fn.fresh("field", badField), typ: wrap(r, base)}
			if r.Below(3) == 0 {
				if v, ok := p.literal(r, f.typ, 0); ok {
					f.dirs = "= " + v
				}
			}
			if d := use("INPUT_FIELD_DEFINITION"); d != "" {
				f.dirs = strings.TrimSpace(f.dirs + " " + d)
			}
			t.fields = append(t.fields, f)
		}
		if r.Below(3) == 0 { // self reference through a nullable position
			t.fields = append(t.fields, gField{name: fn.fresh("field", badField), typ: pick(r, []string{t.name, "[" + t.name + "!]", "[" + t.name + "]!"})})
		}
		t.dirs = use("INPUT_OBJECT")
		inputs = append(inputs, t.name)
	}
	inTypes := append(append([]string{}, scalarIn...), append(enums, inputs...)...)
	mkArgs := func() []gArg {
		var as []gArg
		an := newNamer(r)
		na := 0
		if r.Below(3) == 0 {
			na = 1 + r.Below(3)
		}
		for j := 0; j < na; j++ {
			a := gArg{name: an.fresh("field", badArg), typ: wrap(r, pick(r, inTypes))}
			if r.Below(3) == 0 {
				if v, ok := p.literal(r, a.typ, 0); ok {
					a.def = v
				}
			}
			a.dirs = use("ARGUMENT_DEFINITION")
			as = append(as, a)
		}
		return as
	}
	// --- interfaces; later ones may implement earlier ones (and then repeat their fields)
	nif := 1 + r.Below(3)
	ifaceFieldNames := map[string]bool{}
	for i := 0; i < nif; i++ {
		t := newType("interface")
		fn := newNamer(r)
		if len(ifaces) > 0 && r.Below(2) == 0 {
			parent := p.byName(pick(r, ifaces))
			t.impls = append(append([]string{}, parent.impls...), parent.name)
			for _, f := range parent.fields {
				t.fields = append(t.fields, f)
				fn.used[normKey(f.name)] = true
			}
		}
		nf := 1 + r.Below(3)
		for j := 0; j < nf; j++ {
			f := gField{name: fn.fresh("field", func(s string) bool { return badField(s) || ifaceFieldNames[normKey(s)] }), typ: "?", args: mkArgs()}
			ifaceFieldNames[normKey(f.name)] = true
			t.fields = append(t.fields, f)
		}
		t.dirs = use("INTERFACE")
		ifaces = append(ifaces, t.name)
	}
	// --- objects
	no := 2 + r.Below(4)
	for i := 0; i < no; i++ {
		t := newType("object")
		objects = append(objects, t.name)
	}
	nu := r.Below(3)
	for i := 0; i < nu; i++ {
		t := newType("union")
		k := 1 + r.Below(3)
		seen := map[string]bool{}
		for j := 0; j < k; j++ {
			m := pick(r, objects)
			if !seen[m] {
				seen[m] = true
				t.values = append(t.values, m)
			}
		}
		t.dirs = use("UNION")
		unions = append(unions, t.name)
	}
	outTypes := func() string {
		switch r.Below(10) {
		case 0, 1, 2:
			return pick(r, objects)
		case 3:
			return pick(r, ifaces)
		case 4:
			if len(unions) > 0 {
				return pick(r, unions)
			}
			return pick(r, enums)
		case 5:
			return pick(r, enums)
		default:
			return pick(r, scalarOut)
		}
	}
	// interface field types now that all output types exist (an inherited field keeps its parent's type)
	fixed := map[string]string{}
	for _, n := range ifaces {
		t := p.byName(n)
		for j := range t.fields {
			key := t.fields[j].name
			if ty, ok := fixed[key]; ok {
				t.fields[j].typ = ty
				continue
			}
			t.fields[j].typ = wrap(r, outTypes())
			t.fields[j].dirs = use("FIELD_DEFINITION")
			fixed[key] = t.fields[j].typ
		}
		// re-copy inherited fields so args/dirs are identical to the parent's
		for _, par := range t.impls {
			for _, pf := range p.byName(par).fields {
				for j := range t.fields {
					if t.fields[j].name == pf.name {
						t.fields[j] = pf
					}
				}
			}
		}
	}
	for _, n := range objects {
		t := p.byName(n)
		fn := newNamer(r)
		for k := range ifaceFieldNames {
			fn.used[k] = true
		}
		if r.Below(2) == 0 {
			k := 1 + r.Below(2)
			for j := 0; j < k; j++ {
				it := p.byName(pick(r, ifaces))
				for _, need := range append(append([]string{}, it.impls...), it.name) {
					has := false
					for _, x := range t.impls {
						if x == need {
							has = true
						}
					}
					if !has {
						t.impls = append(t.impls, need)
						for _, f := range p.byName(need).fields {
							dup := false
							for _, g := range t.fields {
								if g.name == f.name {
									dup = true
								}
							}
							if !dup {
								t.fields = append(t.fields, f)
							}
						}
					}
				}
			}
		}
		nf := 1 + r.Below(5)
		for j := 0; j < nf; j++ {
			f := gField{name: fn.fresh("field", badField), typ: wrap(r, outTypes()), args: mkArgs(), dirs: use("FIELD_DEFINITION")}
			if f.dirs == "" && r.Below(8) == 0 {
				f.dirs = "@deprecated"
			}
			t.fields = append(t.fields, f)
		}
		t.dirs = use("OBJECT")
	}
	// --- roots
	mkRoot := func(name string, n int, loc string) {
		t := &gType{kind: "object", name: name, file: r.Below(p.nfiles)}
		fn := newNamer(r)
		for j := 0; j < n; j++ {
			f := gField{name: fn.fresh("field", badField), typ: wrap(r, outTypes()), args: mkArgs(), dirs: use("FIELD_DEFINITION")}
			t.fields = append(t.fields, f)
		}
		p.types = append(p.types, t)
	}
	mkRoot("Query", 1+r.Below(5), "QUERY")
	if r.Below(3) != 0 {
		mkRoot("Mutation", 1+r.Below(3), "MUTATION")
	}
	if r.Below(2) == 0 {
		mkRoot("Subscription", 1+r.Below(3), "SUBSCRIPTION")
	}
	// --- extensions in other files
	if p.nfiles > 1 {
		for _, t := range p.types {
			n := len(t.fields)
			if t.kind == "enum" || t.kind == "union" {
				n = len(t.values)
			}
			if t.kind == "interface" || n < 2 || r.Below(3) != 0 {
				continue
			}
			t.extFrom = 1 + r.Below(n-1)
			t.extFile = (t.file + 1 + r.Below(p.nfiles-1)) % p.nfiles
			if t.kind == "object" && len(t.impls) > 0 {
				// keep interface fields in the base definition
				t.extFrom = 0
			}
		}
	}
	// --- configuration
	for _, o := range []string{"omit_slice_element_pointers", "omit_getters", "omit_interface_checks", "omit_complexity", "omit_gqlgen_file_notice",
		"omit_gqlgen_version_in_file_notice", "omit_root_models", "omit_resolver_fields", "omit_panic_handler", "use_function_syntax_for_execution_context",
		"call_argument_directives_with_null", "struct_fields_always_pointers", "return_pointers_in_unmarshalinput", "resolvers_always_return_pointers",
		"nullable_input_omittable", "enable_model_json_omitempty_tag", "enable_model_json_omitzero_tag"} {
		switch r.Below(3) {
		case 0:
			p.cfg[o] = "true"
		case 1:
			p.cfg[o] = "false"
		}
	}
	p.exec = pick(r, []string{"single", "follow"})
	p.worker = []int{0, 0, 1, 2, 8, 1000}[r.Below(6)]
	p.model = pick(r, []string{"same", "pkg"})
	p.res = pick(r, []string{"none", "single", "follow"})
	// some fields of generated models are forced to be resolvers
	for _, n := range objects {
		t := p.byName(n)
		for _, f := range t.fields {
			// an interface field that is a resolver + omit_resolver_fields is known finding F17d (directed project)
			if ifaceFieldNames[normKey(f.name)] && p.cfg["omit_resolver_fields"] == "true" {
				continue
			}
			if r.Below(5) == 0 {
				p.resMark = append(p.resMark, t.name+"."+f.name)
			}
		}
	}
	// --- which type a field has: a ROOT object (drawn last, so the rest of the project is what the seed gave before
	// this dimension existed). Relay-style payloads pointing back at Query, self-referential root fields, root to
	// root; nullable / non-null / in lists; on generated models and on Query / Mutation. Never on Subscription (known
	// finding F17i) and never together with omit_root_models: true (known finding F17j) - both are directed projects.
	if r.Below(3) == 0 && p.cfg["omit_root_models"] != "true" {
		var roots, holders []string
		for _, t := range p.types {
			if t.kind == "object" && (t.name == "Query" || t.name == "Mutation" || t.name == "Subscription") {
				roots = append(roots, t.name)
				if t.name != "Subscription" {
					holders = append(holders, t.name)
				}
			}
		}
		holders = append(holders, objects...)
		k := 1 + r.Below(3)
		for j := 0; j < k; j++ {
			h := p.byName(pick(r, holders))
			root := pick(r, roots)
			taken := map[string]bool{}
			for _, f := range h.fields {
				taken[normKey(f.name)] = true
			}
			name := pick(r, []string{strings.ToLower(root), "viewer", "root", strings.ToLower(root) + "_ref", "to" + root})
			for i := 2; taken[normKey(name)]; i++ {
				name = fmt.Sprintf("%s%d", strings.TrimRight(name, "0123456789"), i)
			}
			f := gField{name: name, typ: wrap(r, root), dirs: use("FIELD_DEFINITION")}
			if r.Below(3) == 0 {
				f.args = mkArgs()
			}
			h.fields = append(h.fields, f)
			if h.extFrom == 0 && p.nfiles > 1 && len(h.impls) == 0 && len(h.fields) >= 2 && r.Below(3) == 0 {
				h.extFrom = len(h.fields) - 1
				h.extFile = (h.file + 1 + r.Below(p.nfiles-1)) % p.nfiles
			}
			if h.name != "Query" && h.name != "Mutation" && r.Below(4) == 0 {
				p.resMark = append(p.resMark, h.name+"."+name)
			}
			p.notes = append(p.notes, "rootref:"+h.name+"."+name+":"+f.typ)
		}
	}
	// --- which KIND of type carries a resolver field: an INPUT object (`models: <Input>: fields: <f>: resolver: true`;
	// drawn last, for the same reason). unmarshalInput<Input> then calls ec.resolvers.<Input>().<Field>(ctx, &it, data)
	// and ResolverRoot - one copy per exec layout - must list <Input>(). Never on an input whose name starts with an
	// underscore (the defect class of known finding F17e: `_ThingResolver` is not exported).
	if r.Below(3) == 0 {
		k := 1 + r.Below(3)
		for j := 0; j < k; j++ {
			t := p.byName(pick(r, inputs))
			if strings.HasPrefix(t.name, "_") || len(t.fields) == 0 {
				continue
			}
			m := t.name + "." + t.fields[r.Below(len(t.fields))].name
			dup := false
			for _, x := range p.resMark {
				dup = dup || x == m
			}
			if !dup {
				p.resMark = append(p.resMark, m)
				p.inputRes++
			}
		}
	}
	return p
}

func renderField(f gField) string {
	s := f.name
	if len(f.args) > 0 {
		var as []string
		for _, a := range f.args {
			x := a.name + ": " + a.typ
			if a.def != "" {
				x += " = " + a.def
			}
			if a.dirs != "" {
				x += " " + a.dirs
			}
			as = append(as, x)
		}
		s += "(" + strings.Join(as, ", ") + ")"
	}
	s += ": " + f.typ
	if f.dirs != "" {
		s += " " + f.dirs
	}
	return s
}

func (p *project) render() []string {
	files := make([]strings.Builder, p.nfiles)
	for _, d := range p.dirs {
		b := &files[0]
		fmt.Fprintf(b, "directive @%s", d.name)
		if len(d.args) > 0 {
			var as []string
			for _, a := range d.args {
				x := a.name + ": " + a.typ
				if a.def != "" {
					x += " = " + a.def
				}
				as = append(as, x)
			}
			fmt.Fprintf(b, "(%s)", strings.Join(as, ", "))
		}
		if d.rep {
			b.WriteString(" repeatable")
		}
		fmt.Fprintf(b, " on %s\n", strings.Join(d.locs, " | "))
	}
	files[0].WriteString("scalar Time\nscalar Any\nscalar Map\n\n")
	for _, t := range p.types {
		kw := map[string]string{"object": "type", "interface": "interface", "union": "union", "enum": "enum", "input": "input"}[t.kind]
		emit := func(b *strings.Builder, prefix string, from, to int, withHead bool) {
			fmt.Fprintf(b, "%s%s %s", prefix, kw, t.name)
			if withHead {
				if len(t.impls) > 0 {
					fmt.Fprintf(b, " implements %s", strings.Join(t.impls, " & "))
				}
				if t.dirs != "" {
					b.WriteString(" " + t.dirs)
				}
			}
			switch t.kind {
			case "union":
				fmt.Fprintf(b, " = %s\n\n", strings.Join(t.values[from:to], " | "))
			case "enum":
				b.WriteString(" {\n")
				for i := from; i < to; i++ {
					fmt.Fprintf(b, "  %s %s\n", t.values[i], t.valDirs[i])
				}
				b.WriteString("}\n\n")
			default:
				b.WriteString(" {\n")
				for i := from; i < to; i++ {
					f := t.fields[i]
					if t.kind == "input" {
						s := f.name + ": " + f.typ
						if f.dirs != "" {
							s += " " + f.dirs
						}
						fmt.Fprintf(b, "  %s\n", s)
					} else {
						fmt.Fprintf(b, "  %s\n", renderField(f))
					}
				}
				b.WriteString("}\n\n")
			}
		}
		n := len(t.fields)
		if t.kind == "enum" || t.kind == "union" {
			n = len(t.values)
		}
		if t.extFrom > 0 {
			emit(&files[t.file], "", 0, t.extFrom, true)
			emit(&files[t.extFile], "extend ", t.extFrom, n, false)
		} else {
			emit(&files[t.file], "", 0, n, true)
		}
	}
	out := make([]string, p.nfiles)
	for i := range files {
		out[i] = files[i].String()
	}
	return out
}

var fileNames = []string{"schema.graphql", "type_ext.graphql", "more-types.graphql"}

func (p *project) gqlgenYml() string {
	var b strings.Builder
	b.WriteString("schema:\n")
	for i := 0; i < p.nfiles; i++ {
		fmt.Fprintf(&b, "  - %s\n", fileNames[i])
	}
	b.WriteString("exec:\n")
	if p.exec == "follow" {
		fmt.Fprintf(&b, "  layout: follow-schema\n  dir: .\n  package: %s\n", p.name)
	} else {
		b.WriteString("  filename: generated.go\n")
	}
	if p.worker > 0 {
		fmt.Fprintf(&b, "  worker_limit: %d\n", p.worker)
	}
	b.WriteString("model:\n")
	if p.model == "pkg" {
		b.WriteString("  filename: model/models_gen.go\n  package: model\n")
	} else {
		b.WriteString("  filename: models_gen.go\n")
	}
	switch p.res {
	case "single":
		b.WriteString("resolver:\n  filename: res/resolver.go\n  package: res\n  type: Resolver\n")
	case "follow":
		b.WriteString("resolver:\n  layout: follow-schema\n  dir: res\n  package: res\n")
	}
	b.WriteString("skip_mod_tidy: true\n")
	keys := make([]string, 0, len(p.cfg))
	for k := range p.cfg {
		keys = append(keys, k)
	}
	sort.Strings(keys)
	for _, k := range keys {
		fmt.Fprintf(&b, "%s: %s\n", k, p.cfg[k])
	}
	if len(p.resMark) > 0 {
		b.WriteString("models:\n")
		byType := map[string][]string{}
		var order []string
		for _, m := range p.resMark {
			i := strings.Index(m, ".")
			if _, ok := byType[m[:i]]; !ok {
				order = append(order, m[:i])
			}
			byType[m[:i]] = append(byType[m[:i]], m[i+1:])
		}
		for _, t := range order {
			fmt.Fprintf(&b, "  %s:\n    fields:\n", t)
			for _, f := range byType[t] {
				fmt.Fprintf(&b, "      %s:\n        resolver: true\n", f)
			}
		}
	}
	return b.String()
}

func writeProject(root string, p *project) error {
	d := filepath.Join(root, p.name)
	if err := os.MkdirAll(d, 0o755); err != nil {
		return err
	}
	for i, s := range p.render() {
		if err := os.WriteFile(filepath.Join(d, fileNames[i]), []byte(s), 0o644); err != nil {
			return err
		}
	}
	return os.WriteFile(filepath.Join(d, "gqlgen.yml"), []byte(p.gqlgenYml()), 0o644)
}

func runSchemas(outDir string, n int, seed uint64, tier string) {
	r := rng.New(seed ^ 0xC17C17)
	for i := 0; i < n; i++ {
		p := genProject(r.Fork(), fmt.Sprintf("c17r%03d", i), tier)
		if err := writeProject(outDir, p); err != nil {
			fmt.Fprintln(os.Stderr, err)
			os.Exit(1)
		}
		fmt.Fprintf(out, "project\t%s\texec=%s worker=%d model=%s resolver=%s files=%d types=%d funcsyntax=%s rootrefs=%d inputres=%d\n", p.name, p.exec, p.worker, p.model, p.res, p.nfiles, len(p.types), p.cfg["use_function_syntax_for_execution_context"], len(p.notes), p.inputRes)
	}
	writeDirected(outDir)
}
