package main

import (
	"fmt"
	"os"
	"path/filepath"
	"strings"
)

// Directed projects: one per documented / explicitly handled naming pattern, plus the two shapes already
// reproduced on the unchanged tree (F17a `_1`, F17b function syntax + operation directive).

const ymlSingle = `schema:
  - schema.graphql
exec:
  filename: generated.go
model:
  filename: models_gen.go
resolver:
  layout: follow-schema
  dir: res
  package: res
skip_mod_tidy: true
`

const ymlFollow = `schema:
  - schema.graphql
exec:
  layout: follow-schema
  dir: .
  package: %s
model:
  filename: model/models_gen.go
  package: model
resolver:
  filename: res/resolver.go
  package: res
  type: Resolver
skip_mod_tidy: true
`

type directed struct {
	name, schema, yml string
}

func capFirst(s string) string { return strings.ToUpper(s[:1]) + s[1:] }

func directedProjects() []directed {
	var ds []directed
	// ---- every Go keyword as field name, argument name, input field name, enum value, and type name
	{
		var b strings.Builder
		b.WriteString("type Query {\n")
		for _, k := range goKeywords {
			fmt.Fprintf(&b, "  %s(%s: Int, other: String): %s\n", k, k, capFirst(k)+"_t")
		}
		b.WriteString("  kw(in: kwInput): kwEnum\n}\n")
		for _, k := range goKeywords {
			fmt.Fprintf(&b, "type %s_t { %s: Int }\n", capFirst(k), k)
		}
		b.WriteString("input kwInput {\n")
		for _, k := range goKeywords {
			fmt.Fprintf(&b, "  %s: Int\n", k)
		}
		b.WriteString("}\nenum kwEnum {\n")
		for _, k := range goKeywords {
			fmt.Fprintf(&b, "  %s\n", k)
		}
		b.WriteString("}\n")
		ds = append(ds, directed{"c17d_keywords", b.String(), ymlSingle})
	}
	// keywords as type names proper (type `func`, enum `range`, …): generated Go names are capitalised
	{
		var b strings.Builder
		b.WriteString("type Query {\n")
		for _, k := range goKeywords {
			fmt.Fprintf(&b, "  f_%s: %s\n", k, k)
		}
		b.WriteString("}\n")
		for i, k := range goKeywords {
			switch i % 3 {
			case 0:
				fmt.Fprintf(&b, "type %s { x: Int }\n", k)
			case 1:
				fmt.Fprintf(&b, "enum %s { A B }\n", k)
			case 2:
				fmt.Fprintf(&b, "interface %s { x: Int }\n", k)
			}
		}
		ds = append(ds, directed{"c17d_kwtypes", b.String(), fmt.Sprintf(ymlFollow, "c17d_kwtypes")})
	}
	// ---- predeclared identifiers as field, argument and type names
	{
		var b strings.Builder
		b.WriteString("type Query {\n")
		for _, k := range predeclared {
			if k == "true" || k == "false" {
				fmt.Fprintf(&b, "  %s(%s: Int, %s_2: String): Int\n", k, k, k)
				continue
			}
			fmt.Fprintf(&b, "  %s(%s: Int, %s_2: String): %s\n", k, k, k, k+"_")
		}
		b.WriteString("  pre(in: preInput): Int\n}\n")
		for _, k := range predeclared {
			if k == "true" || k == "false" {
				continue
			}
			fmt.Fprintf(&b, "type %s_ { %s: String }\n", k, k)
		}
		b.WriteString("input preInput {\n")
		for _, k := range predeclared {
			fmt.Fprintf(&b, "  %s: Int\n", k)
		}
		b.WriteString("}\n")
		ds = append(ds, directed{"c17d_predeclared", b.String(), ymlSingle})
	}
	{
		// predeclared identifiers as type names proper
		var b strings.Builder
		b.WriteString("type Query {\n")
		skip := map[string]bool{"string": true, "int": true, "float64": true, "bool": true, "any": true, "true": true, "false": true}
		for _, k := range predeclared {
			if skip[k] {
				continue
			}
			fmt.Fprintf(&b, "  f_%s: %s\n", k, k)
		}
		b.WriteString("}\n")
		i := 0
		for _, k := range predeclared {
			if skip[k] {
				continue
			}
			if i%2 == 0 {
				fmt.Fprintf(&b, "type %s { x: Int }\n", k)
			} else {
				fmt.Fprintf(&b, "enum %s { A B }\n", k)
			}
			i++
		}
		ds = append(ds, directed{"c17d_pretypes", b.String(), fmt.Sprintf(ymlFollow, "c17d_pretypes")})
	}
	// ---- initialisms and underscores
	ds = append(ds, directed{"c17d_underscore", `type Query {
  _foo: Int
  bar_: Int
  baz__qux(_arg: Int, arg2_: Int, a__b: Int): Int
  a_1: Int
  a1_2: Int
  _b_: _T_
  userID(userID: ID, user_id2: ID): ID
  api_url: String
  HTTPServer: String
  htmlBody(HTML: String): String
  ids(IDs: [ID!]): [ID!]
  item: Under_Score
  e: E_num_
}
type _T_ { _x: Int  y_: Int  z__z: Int  ID: ID  Id2: ID  uuid: String  APIKey: String }
type Under_Score { a_b: Int }
enum E_num_ { _A  B_  C__D  e_f  ID  id_2 }
input _In_ { _x: Int  y_: Int }
type Mutation { do_it(_in_: _In_): Int }
`, ymlSingle})
	// ---- enum values / type names that normalise to the same Go identifier (docs: name-collision.md)
	ds = append(ds, directed{"c17d_collide_enum", `type Query { a: MyEnum  b: Other }
enum MyEnum { value1 value2 value4 Value4 Value_4 VALUE4 value_4 TitleValue title_value title_Value Title_Value }
enum Other { value Value VALUE _value value_ }
`, ymlSingle})
	ds = append(ds, directed{"c17d_collide_type", `type Query { a: Foo_Bar  b: FooBar  c: foo_bar  d: FOO_BAR  e: MyEnum  f: My_Enum  g(x: In_put, y: Input): Int }
type Foo_Bar { x: Int }
type FooBar { y: Int }
type foo_bar { z: Int }
type FOO_BAR { w: Int }
enum MyEnum { A B }
enum My_Enum { A C }
input In_put { a: Int }
input Input { b: Int }
`, fmt.Sprintf(ymlFollow, "c17d_collide_type")})
	// ---- known shapes
	ds = append(ds, directed{"c17d_f17a", "type Query { _1: Int  ok: Int }\n", ymlSingle})
	ds = append(ds, directed{"c17d_f17b", "directive @auth(role: String) on QUERY | MUTATION | SUBSCRIPTION\ntype Query { a: Int }\ntype Mutation { b: Int }\ntype Subscription { c: Int }\n",
		ymlSingle + "use_function_syntax_for_execution_context: true\n"})
	ds = append(ds, directed{"c17d_f17b_follow", "directive @auth(role: String) on QUERY | MUTATION | SUBSCRIPTION\ntype Query { a: Int }\ntype Mutation { b: Int }\ntype Subscription { c: Int }\n",
		fmt.Sprintf(ymlFollow, "c17d_f17b_follow") + "use_function_syntax_for_execution_context: true\n"})
	ds = append(ds, directed{"c17d_opdir", "directive @auth(role: String) on QUERY | MUTATION | SUBSCRIPTION\ntype Query { a: Int }\ntype Mutation { b: Int }\ntype Subscription { c: Int }\n",
		fmt.Sprintf(ymlFollow, "c17d_opdir")})
	// repaired on the unchanged tree (fix: commits), kept as regression inputs
	ds = append(ds, directed{"c17d_dirargs", `directive @d(string: Int, int: [String!], bool: Boolean = true, error: ID, any: Float, float64: Int, byte: Int, type: Int, range: Int) on FIELD_DEFINITION | ARGUMENT_DEFINITION | INPUT_FIELD_DEFINITION
type Query { a(x: Int @d(string: 1, int: ["a"], type: 2)): [String] @d(string: 1, error: "e", any: 1.5)  b: Int @d(float64: 3, byte: 4, range: 5) }
input In { f: String @d(string: 2, bool: false) }
type Mutation { m(in: In): Boolean }
`, ymlSingle})
	ds = append(ds, directed{"c17d_lowertypes", "type struct { x: Int  y: Int }\ntype foo { x: Int }\ntype range { x: foo }\ntype Query { a: struct  b: foo  c: range }\n",
		fmt.Sprintf(ymlFollow, "c17d_lowertypes") + "models:\n  struct:\n    fields:\n      x:\n        resolver: true\n  foo:\n    fields:\n      x:\n        resolver: true\n  range:\n    fields:\n      x:\n        resolver: true\n"})
	ds = append(ds, directed{"c17d_recursive", "type Kind_Else { user: Kind_Else!  other: other_type! }\ntype other_type { back: Kind_Else!  self: [other_type!]! }\ninput In_put { a: Int  self: In_put }\ntype Query { a(i: In_put): Kind_Else }\n",
		ymlSingle + "struct_fields_always_pointers: false\n"})
	// F17d: omit_resolver_fields + a resolver field that comes from an interface (getter refers to the omitted field)
	ds = append(ds, directed{"c17d_f17d", "interface Node { id: ID!  owner: String }\ntype Item implements Node { id: ID!  owner: String  n: Int }\ntype Query { item: Item  node: Node }\n",
		ymlSingle + "omit_resolver_fields: true\nmodels:\n  Item:\n    fields:\n      owner:\n        resolver: true\n"})
	// F17e: leading underscore on an object type that has resolvers
	ds = append(ds, directed{"c17d_f17e", "type _Thing { a: Int  b: Int }\ntype Query { t: _Thing }\n",
		ymlSingle + "models:\n  _Thing:\n    fields:\n      a:\n        resolver: true\n"})
	ds = append(ds, directed{"c17d_f17e_lower", "type _thing { a: Int  b: Int }\ntype Query { t: _thing }\n",
		fmt.Sprintf(ymlFollow, "c17d_f17e_lower") + "models:\n  _thing:\n    fields:\n      a:\n        resolver: true\n"})
	// F17f: nested lists of one type that differ only below the first element level
	ds = append(ds, directed{"c17d_f17f", "type T { x: Int }\ntype Query { a: [[T!]]  b: [[T]] }\n", ymlSingle})
	// leading underscore types without resolvers, interfaces / unions / enums / inputs with underscores
	ds = append(ds, directed{"c17d_undertypes", `type Query { a: _A  b: B_  c: _C_  d: _I  e: _U  f: _E  g(in: _In): Int }
type _A implements _I { x: Int }
type B_ { x: Int }
type _C_ { x: _A }
interface _I { x: Int }
union _U = _A | B_
enum _E { _X Y_ }
input _In { _a: Int }
`, ymlSingle})
	return ds
}

func writeDirected(root string) {
	for _, d := range directedProjects() {
		dir := filepath.Join(root, d.name)
		if err := os.MkdirAll(dir, 0o755); err != nil {
			fmt.Fprintln(os.Stderr, err)
			os.Exit(1)
		}
		_ = os.WriteFile(filepath.Join(dir, "schema.graphql"), []byte(d.schema), 0o644)
		_ = os.WriteFile(filepath.Join(dir, "gqlgen.yml"), []byte(d.yml), 0o644)
		fmt.Fprintf(out, "project\t%s\tdirected\n", d.name)
	}
}
