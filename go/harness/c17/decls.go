package main

import (
	"fmt"
	"go/ast"
	"go/parser"
	"go/token"
	"os"
	"path/filepath"
	"sort"
	"strings"
	"unicode"

	"github.com/99designs/gqlgen/codegen/config"
	"github.com/vektah/gqlparser/v2"
	gast "github.com/vektah/gqlparser/v2/ast"
)

func ucFirstASCII(s string) string {
	if s == "" {
		return s
	}
	r := []rune(s)
	r[0] = unicode.ToUpper(r[0])
	return string(r)
}

// runDecls prints two lines for the project generated in dir:
//
//	schema\t<TypeDecl list for the Lean model's `emitted`>
//	impl\t<scope=hex(ident);…> identifiers actually declared: package-level names and struct fields of the
//	      generated model file, method and parameter names of the generated <T>Resolver interfaces
func runDecls(dir string) int {
	abs, _ := filepath.Abs(dir)
	if err := os.Chdir(abs); err != nil {
		fmt.Fprintln(os.Stderr, err)
		return 2
	}
	cfg, err := config.LoadConfig("gqlgen.yml")
	if err != nil {
		fmt.Fprintln(os.Stderr, err)
		return 2
	}
	schema, gerr := gqlparser.LoadSchema(cfg.Sources...)
	if gerr != nil {
		fmt.Fprintln(os.Stderr, gerr)
		return 2
	}
	isRoot := func(d *gast.Definition) bool {
		return d == schema.Query || d == schema.Mutation || d == schema.Subscription
	}
	var names []string
	for n, d := range schema.Types {
		if d.BuiltIn || strings.HasPrefix(n, "__") || d.Kind == gast.Scalar {
			continue
		}
		if _, bound := cfg.Models[n]; bound && len(cfg.Models[n].Model) > 0 {
			continue
		}
		names = append(names, n)
	}
	sort.Strings(names)
	hexList := func(xs []string) string {
		hs := make([]string, len(xs))
		for i, x := range xs {
			hs[i] = hx(x)
		}
		return strings.Join(hs, ",")
	}
	var decls []string
	resolverIface := map[string]string{} // Go interface name -> GraphQL type name
	for _, n := range names {
		d := schema.Types[n]
		switch d.Kind {
		case gast.Interface, gast.Union:
			var fs []string
			if !cfg.OmitGetters {
				for _, f := range d.Fields {
					fs = append(fs, hx(f.Name))
				}
			}
			_ = fs // getters are methods, not modelled as a scope
			decls = append(decls, fmt.Sprintf("i:%s:%s::", hx(n), hexList(d.Interfaces)))
		case gast.Object, gast.InputObject:
			if d.Kind == gast.Object {
				resolverIface[ucFirstASCII(n)+"Resolver"] = n
			}
			if isRoot(d) {
				var fs []string
				for _, f := range d.Fields {
					if strings.HasPrefix(f.Name, "__") {
						continue
					}
					parts := []string{hx(f.Name)}
					for _, a := range f.Arguments {
						parts = append(parts, hx(a.Name))
					}
					fs = append(fs, strings.Join(parts, "/"))
				}
				// roots have no struct fields in the model file; they are sent as a second, resolver-only decl
				if !cfg.OmitRootModels {
					decls = append(decls, fmt.Sprintf("m:%s:::", hx(n)))
				}
				decls = append(decls, fmt.Sprintf("r:%s::%s:", hx(n), strings.Join(fs, ",")))
				continue
			}
			var impls []string
			seen := map[string]bool{}
			for _, im := range schema.GetImplements(d) {
				if !seen[im.Name] {
					seen[im.Name] = true
					impls = append(impls, im.Name)
				}
				for _, i2 := range im.Interfaces {
					if !seen[i2] {
						seen[i2] = true
						impls = append(impls, i2)
					}
				}
			}
			var fs, omitted []string
			for _, f := range d.Fields {
				parts := []string{hx(f.Name)}
				for _, a := range f.Arguments {
					parts = append(parts, hx(a.Name))
				}
				// omit_resolver_fields drops resolver fields from the struct; they remain resolver methods
				if cfg.OmitResolverFields && cfg.Models[n].Fields[f.Name].Resolver {
					omitted = append(omitted, strings.Join(parts, "/"))
					continue
				}
				fs = append(fs, strings.Join(parts, "/"))
			}
			decls = append(decls, fmt.Sprintf("m:%s:%s:%s:", hx(n), hexList(impls), strings.Join(fs, ",")))
			if len(omitted) > 0 {
				decls = append(decls, fmt.Sprintf("r:%s::%s:", hx(n), strings.Join(omitted, ",")))
			}
		case gast.Enum:
			var vs []string
			for _, v := range d.EnumValues {
				vs = append(vs, v.Name)
			}
			decls = append(decls, fmt.Sprintf("e:%s:::%s", hx(n), hexList(vs)))
		}
	}
	fmt.Fprintf(out, "schema\t%s\n", strings.Join(decls, "|"))

	// ---- what the generated files declare
	var impl []string
	fset := token.NewFileSet()
	if cfg.Model.IsDefined() {
		f, err := parser.ParseFile(fset, cfg.Model.Filename, nil, 0)
		if err != nil {
			fmt.Fprintf(out, "parse-error\t%s\n", strings.ReplaceAll(err.Error(), "\n", " | "))
			out.Flush()
			return 5
		}
		for _, d := range f.Decls {
			gd, ok := d.(*ast.GenDecl)
			if !ok {
				continue
			}
			for _, sp := range gd.Specs {
				switch sp := sp.(type) {
				case *ast.TypeSpec:
					impl = append(impl, "pkg="+hx(sp.Name.Name))
					if st, ok := sp.Type.(*ast.StructType); ok {
						for _, fl := range st.Fields.List {
							for _, nm := range fl.Names {
								impl = append(impl, "struct."+hx(sp.Name.Name)+"="+hx(nm.Name))
							}
						}
					}
				case *ast.ValueSpec:
					for _, nm := range sp.Names {
						impl = append(impl, "pkg="+hx(nm.Name))
					}
				}
			}
		}
	}
	// resolver interfaces live in the exec package (root file)
	execDir := filepath.Dir(cfg.Exec.Filename)
	if cfg.Exec.Layout == config.ExecLayoutFollowSchema {
		execDir = cfg.Exec.DirName
	}
	pkgs, err := parser.ParseDir(fset, execDir, func(fi os.FileInfo) bool { return !strings.HasSuffix(fi.Name(), "_test.go") }, 0)
	if err != nil {
		fmt.Fprintf(out, "parse-error\t%s\n", strings.ReplaceAll(err.Error(), "\n", " | "))
		out.Flush()
		return 5
	}
	for _, pkg := range pkgs {
		fnames := make([]string, 0, len(pkg.Files))
		for fn := range pkg.Files {
			fnames = append(fnames, fn)
		}
		sort.Strings(fnames)
		for _, fn := range fnames {
			for _, d := range pkg.Files[fn].Decls {
				gd, ok := d.(*ast.GenDecl)
				if !ok {
					continue
				}
				for _, sp := range gd.Specs {
					ts, ok := sp.(*ast.TypeSpec)
					if !ok {
						continue
					}
					it, ok := ts.Type.(*ast.InterfaceType)
					gql, known := resolverIface[ts.Name.Name]
					if !ok || !known {
						continue
					}
					for _, m := range it.Methods.List {
						ft, ok := m.Type.(*ast.FuncType)
						if !ok || len(m.Names) != 1 {
							continue
						}
						impl = append(impl, "res."+hx(gql)+"="+hx(m.Names[0].Name))
						for i, prm := range ft.Params.List {
							for _, nm := range prm.Names {
								// fixed leading parameters: ctx, and obj for non-root objects
								if i == 0 && nm.Name == "ctx" {
									continue
								}
								if i == 1 && nm.Name == "obj" && !isRoot(schema.Types[gql]) {
									continue
								}
								impl = append(impl, "args."+hx(gql)+"."+hx(m.Names[0].Name)+"="+hx(nm.Name))
							}
						}
					}
				}
			}
		}
	}
	fmt.Fprintf(out, "impl\t%s\n", strings.Join(impl, ";"))
	return 0
}
