package main

import (
	"bufio"
	"fmt"
	"os"
	"path/filepath"
	"strings"

	"verifharness/internal/rng"
)

// Generator dimension "WHERE THE SCHEMA FILES LIVE relative to the executor's output directory" (projects c17s*, and
// extra schema files in the layout projects c17l*), added after the miss seeded/C17-change7. codegen.BuildData decides
// per schema file whether the generated executor pulls it in with `//go:embed "<relative path>"` (possible only for a
// file BELOW the exec output directory: embed patterns cannot contain `..`) or inlines its text. Every other project
// family kept its schema files either in the exec directory itself or in the project root above it; no schema file
// ever lived in a SIBLING of the output directory, let alone one whose name shares a string prefix with it.
//
// A location class places one schema file relative to the exec directory E (base name B, parent P):
//   in         E/in.graphqls                      sub      E/schema/sub.graphqls         deep   E/a/b/deep.graphqls
//   dotdot     E/..hidden/dotdot.graphqls         hidden   E/.schema/hidden.graphqls     under  E/_schema/under.graphqls
//   sibpre     P/<B>ql/sibpre.graphqls            sibhyp   P/<B>-schema/sibhyp.graphqls  sibdot P/<B>.d/sibdot.graphqls
//   sibund     P/<B>_schema/sibund.graphqls       sibshort P/<B minus its last letter>/sibshort.graphqls
//   sib        P/schemas/sib.graphqls             parent   P/parent.graphqls
//   parentpre  P/<B>.graphqls                     parentql P/<B>ql.graphqls
//   root       <project>/root.graphqls            cousin   PP/<base of P>-schema/cousin.graphqls (E nested only)
// x exec layout (single file: generated!.gotpl, follow-schema: root_.gotpl) x how gqlgen.yml names the files (list,
// glob, `./` prefix, unclean `E/../…` path) x depth of E (`graph`, `internal/graph`, the project directory itself).

var locInside = []string{"in", "sub", "deep", "dotdot", "hidden", "under"}
var locOutside = []string{"sibpre", "sibhyp", "sibdot", "sibund", "sibshort", "sib", "parent", "parentpre", "parentql", "root", "cousin"}

// locPath: the path (relative to the project directory, slash separated) of the schema file of a location class for
// the exec directory execDir; ok = false when the class does not exist for that directory (a sibling of the project
// directory itself, a cousin of a top-level directory).
func locPath(execDir, class string) (string, bool) {
	e := filepath.ToSlash(filepath.Clean(execDir))
	isRoot := e == "."
	base, parent := "", "."
	if !isRoot {
		base = e[strings.LastIndex(e, "/")+1:]
		if i := strings.LastIndex(e, "/"); i >= 0 {
			parent = e[:i]
		}
	}
	j := func(parts ...string) string { return filepath.ToSlash(filepath.Join(parts...)) }
	switch class {
	case "in":
		return j(e, "in.graphqls"), true
	case "sub":
		return j(e, "schema", "sub.graphqls"), true
	case "deep":
		return j(e, "a", "b", "deep.graphqls"), true
	case "dotdot":
		return j(e, "..hidden", "dotdot.graphqls"), true
	case "hidden":
		return j(e, ".schema", "hidden.graphqls"), true
	case "under":
		return j(e, "_schema", "under.graphqls"), true
	}
	if isRoot {
		return "", false
	}
	switch class {
	case "sibpre":
		return j(parent, base+"ql", "sibpre.graphqls"), true
	case "sibhyp":
		return j(parent, base+"-schema", "sibhyp.graphqls"), true
	case "sibdot":
		return j(parent, base+".d", "sibdot.graphqls"), true
	case "sibund":
		return j(parent, base+"_schema", "sibund.graphqls"), true
	case "sibshort":
		if len(base) < 2 {
			return "", false
		}
		return j(parent, base[:len(base)-1], "sibshort.graphqls"), true
	case "sib":
		return j(parent, "schemas", "sib.graphqls"), true
	case "parent":
		return j(parent, "parent.graphqls"), true
	case "parentpre":
		return j(parent, base+".graphqls"), true
	case "parentql":
		return j(parent, base+"ql.graphqls"), true
	case "root":
		return "root.graphqls", true
	case "cousin":
		if parent == "." {
			return "", false
		}
		pp, pb := ".", parent
		if i := strings.LastIndex(parent, "/"); i >= 0 {
			pp, pb = parent[:i], parent[i+1:]
		}
		return j(pp, pb+"-schema", "cousin.graphqls"), true
	}
	return "", false
}

func locIsInside(class string) bool { return idxOf(locInside, class) >= 0 }

type locProject struct {
	name    string
	execDir string
	follow  bool
	style   string // list | glob | dotslash | unclean
	classes []string
	model   string // inside (E/model) | same (the exec package) | sibling (models/)
	res     string // none | same | sibling
	kind    string
}

const locSchema = `type Query { item(id: ID!, in: Filter): Item  items: [Item!]! }
type Item { id: ID!  name: String  kind: Kind! }
enum Kind { SMALL LARGE }
input Filter { kind: Kind  names: [String!] }
`

func (p *locProject) write(root string) error {
	d := filepath.Join(root, p.name)
	if err := os.MkdirAll(d, 0o755); err != nil {
		return err
	}
	var ymlNames []string
	var meta strings.Builder
	fmt.Fprintf(&meta, "kind\t%s\nexec_dir\t%s\nexec_layout\t%s\nstyle\t%s\n", p.kind, p.execDir, map[bool]string{true: "follow-schema", false: "single-file"}[p.follow], p.style)
	first := true
	for _, c := range p.classes {
		rel, ok := locPath(p.execDir, c)
		if !ok {
			continue
		}
		body := fmt.Sprintf("extend type Query { loc_%s: Int }\n", c)
		if first {
			body = locSchema
			first = false
		}
		abs := filepath.Join(d, filepath.FromSlash(rel))
		if err := os.MkdirAll(filepath.Dir(abs), 0o755); err != nil {
			return err
		}
		if err := os.WriteFile(abs, []byte(body), 0o644); err != nil {
			return err
		}
		yn := rel
		switch p.style {
		case "glob":
			yn = filepath.ToSlash(filepath.Join(filepath.Dir(rel), "*.graphqls"))
		case "dotslash":
			yn = "./" + rel
		case "unclean":
			// through the exec directory and back: <E>/../<rest> (E exists by then only if a file was put there, so go
			// through the file's own directory instead)
			yn = filepath.ToSlash(filepath.Dir(rel)) + "/../" + filepath.Base(filepath.Dir(abs)) + "/" + filepath.Base(rel)
			if filepath.Dir(rel) == "." {
				yn = "./" + rel
			}
		}
		ymlNames = append(ymlNames, yn)
		fmt.Fprintf(&meta, "source\t%s\t%s\t%v\n", c, rel, locIsInside(c))
	}
	if first {
		return fmt.Errorf("%s: no location class applies to exec directory %q", p.name, p.execDir)
	}
	var y strings.Builder
	y.WriteString("schema:\n")
	for _, n := range ymlNames {
		fmt.Fprintf(&y, "  - %q\n", n)
	}
	y.WriteString("exec:\n")
	if p.follow {
		fmt.Fprintf(&y, "  layout: follow-schema\n  dir: %s\n", p.execDir)
	} else {
		fmt.Fprintf(&y, "  filename: %s\n", filepath.ToSlash(filepath.Join(p.execDir, "generated.go")))
	}
	switch p.model {
	case "inside":
		fmt.Fprintf(&y, "model:\n  filename: %s\n", filepath.ToSlash(filepath.Join(p.execDir, "model", "models_gen.go")))
	case "sibling":
		y.WriteString("model:\n  filename: models/models_gen.go\n")
	default:
		fmt.Fprintf(&y, "model:\n  filename: %s\n", filepath.ToSlash(filepath.Join(p.execDir, "models_gen.go")))
	}
	switch p.res {
	case "same":
		fmt.Fprintf(&y, "resolver:\n  layout: follow-schema\n  dir: %s\n", p.execDir)
	case "sibling":
		y.WriteString("resolver:\n  filename: resolvers/resolver.go\n  type: Resolver\n")
	}
	y.WriteString("skip_mod_tidy: true\n")
	if err := os.WriteFile(filepath.Join(d, "gqlgen.yml"), []byte(y.String()), 0o644); err != nil {
		return err
	}
	if err := os.WriteFile(filepath.Join(d, "schemalocs.tsv"), []byte(meta.String()), 0o644); err != nil {
		return err
	}
	fmt.Fprintf(out, "project\t%s\tschema-locations %s exec=%s follow=%v style=%s classes=%s\n", p.name, p.kind, p.execDir, p.follow, p.style, strings.Join(p.classes, ","))
	return nil
}

func writeSchemaLocs(root string, seed uint64, tier, corpus string) {
	r := rng.New(seed ^ 0x5C4E3A)
	fail := func(err error) {
		fmt.Fprintln(os.Stderr, err)
		out.Flush()
		os.Exit(1)
	}
	// ---- directed corpus: <name> <exec dir> <style> <class> ...   (quick: the exec layout alternates; thorough: both)
	if corpus != "" {
		f, err := os.Open(corpus)
		if err != nil {
			fail(err)
		}
		sc := bufio.NewScanner(f)
		idx := 0
		for sc.Scan() {
			line := strings.TrimSpace(sc.Text())
			if line == "" || strings.HasPrefix(line, "#") {
				continue
			}
			fs := strings.Fields(line)
			if len(fs) < 4 || idxOf([]string{"list", "glob", "dotslash", "unclean"}, fs[2]) < 0 {
				fail(fmt.Errorf("location corpus line %q: want `<name> <exec dir> <list|glob|dotslash|unclean> <class>...`", line))
			}
			for _, c := range fs[3:] {
				if idxOf(locInside, c) < 0 && idxOf(locOutside, c) < 0 {
					fail(fmt.Errorf("location corpus line %q: unknown location class %s", line, c))
				}
			}
			for k, follow := range []bool{false, true} {
				if tier != "thorough" && follow != (idx%2 == 1) {
					continue
				}
				p := &locProject{name: fmt.Sprintf("c17s_%s_%s", fs[0], map[bool]string{true: "fs", false: "sf"}[follow]), execDir: fs[1], follow: follow, style: fs[2],
					classes: fs[3:], model: []string{"inside", "same", "sibling"}[(idx+k)%3], res: []string{"same", "sibling", "none"}[(idx+k)%3], kind: "directed"}
				if fs[1] == "." {
					p.model = "same"
				}
				if err := p.write(root); err != nil {
					fail(err)
				}
			}
			idx++
		}
		f.Close()
	}
	// ---- seeded cover: EVERY location class at once (each schema file is decided on its own), for each exec layout x
	// depth of the exec directory; the order of the files, the style and the placement of models / resolvers seeded
	all := append(append([]string{}, locInside...), locOutside...)
	dirs := []string{"graph", "internal/graph", "."}
	k := 0
	pickLayout := r.Bool()
	for di, dir := range dirs {
		for _, follow := range []bool{false, true} {
			// quick: `graph` in both layouts, the nested directory and the project directory in one layout each
			if tier != "thorough" && di > 0 && follow != (pickLayout == (di == 1)) {
				k++
				continue
			}
			cl := append([]string{}, all...)
			for i := len(cl) - 1; i > 0; i-- {
				j := r.Below(i + 1)
				cl[i], cl[j] = cl[j], cl[i]
			}
			p := &locProject{name: fmt.Sprintf("c17s%03d", k), execDir: dir, follow: follow, style: []string{"list", "dotslash", "list", "unclean"}[r.Below(4)],
				classes: cl, model: []string{"inside", "same", "sibling"}[r.Below(3)], res: []string{"same", "sibling", "none"}[r.Below(3)], kind: "cover"}
			if dir == "." {
				p.model = "same"
			}
			if err := p.write(root); err != nil {
				fail(err)
			}
			k++
		}
	}
	// ---- thorough: random exec directories (names that share prefixes with their neighbours) x random class subsets
	if tier == "thorough" {
		names := []string{"graph", "gen", "api", "a", "graph-api", "gql.gen", "internal/graph", "pkg/api/graph", "cmd/gen", "x/y/z"}
		for x := 0; x < 16; x++ {
			n := 1 + r.Below(5)
			var cl []string
			for j := 0; j < n; j++ {
				c := all[r.Below(len(all))]
				if idxOf(cl, c) < 0 {
					cl = append(cl, c)
				}
			}
			p := &locProject{name: fmt.Sprintf("c17s%03d", 100+x), execDir: names[r.Below(len(names))], follow: r.Bool(), style: []string{"list", "glob", "dotslash", "unclean"}[r.Below(4)],
				classes: cl, model: []string{"inside", "same", "sibling"}[r.Below(3)], res: []string{"same", "sibling", "none"}[r.Below(3)], kind: "random"}
			if err := p.write(root); err != nil {
				fail(err)
			}
		}
	}
}
