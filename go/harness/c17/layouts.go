package main

import (
	"bufio"
	"fmt"
	"os"
	"path/filepath"
	"sort"
	"strings"

	"github.com/99designs/gqlgen/codegen/config"

	"verifharness/internal/rng"
)

// Generator dimension "PROJECT LAYOUT and what gqlgen.yml leaves implicit" (projects c17l*, -mode pkgnames), added
// after the miss seeded/C17-change6. `package:` is optional in the exec / model / resolver sections; gqlgen then
// derives the Go package name from the output directory (code.NameForDir -> code.SanitizePackageName). Every other
// project family of this harness either writes `package:` or generates into a directory whose name already is a Go
// identifier (`c17r003`, `model`, `res`), so the derivation was only ever asked for names it returns unchanged.
//
// A layout gives, for each of the three sections: the output directory (its base name drawn from a class: lower-case
// identifier / upper case / hyphen / dot / leading digit / Go keyword), whether `package:` is written, and the STATE
// of the directory before the first generation: absent / empty / holding only a non-Go file (the schema or a README) /
// holding a Go file of some package. x exec layout (single file | follow-schema) x resolver layout (none | single |
// follow-schema) x model inside or outside the exec package x nested or sibling directories.
//
// -mode pkgnames asks the three sections' real Check() methods (codegen/config) for the derived name on really created
// directories, for a much larger set of names (all strings over a small alphabet, every Go keyword, blanks, non-ASCII).

type laySection struct {
	dir   string // relative to the project directory ("." = the project directory itself)
	pkg   string // configured `package:` ("" = omitted)
	state string // absent | empty | schema | readme | gofile:<package>
}

type layProject struct {
	name       string
	execFollow bool
	exec       laySection
	model      laySection
	res        laySection
	resLayout  string // none | single | follow
	kind       string
	extraLocs  []string // location classes (schemaloc.go) of additional schema files, relative to the exec directory
}

const laySchema = `type Query { item(id: ID!, in: Filter): Item  items: [Item!]!  node: Node  kind: Kind }
type Mutation { rename(id: ID!, name: String!): Item }
interface Node { id: ID! }
type Item implements Node { id: ID!  name: String  kind: Kind!  owner: Owner  tags: [String!] }
type Owner { name: String!  items: [Item] }
enum Kind { SMALL LARGE }
input Filter { kind: Kind  names: [String!] }
`

const layExtra = "extend type Query { extra%d: Int }\n"

// a package name a user might have chosen for Go files that are already in the directory
func userPkg(dir string) string {
	var b strings.Builder
	for _, c := range strings.ToLower(filepath.Base(dir)) {
		if c >= 'a' && c <= 'z' {
			b.WriteRune(c)
		}
	}
	return b.String() + "pkg"
}

func (p *layProject) sections() []struct {
	role string
	s    *laySection
} {
	out := []struct {
		role string
		s    *laySection
	}{{"exec", &p.exec}, {"model", &p.model}}
	if p.resLayout != "none" {
		out = append(out, struct {
			role string
			s    *laySection
		}{"resolver", &p.res})
	}
	return out
}

func (p *layProject) yml(schemaFiles []string) string {
	var b strings.Builder
	b.WriteString("schema:\n")
	for _, f := range schemaFiles {
		fmt.Fprintf(&b, "  - %s\n", f)
	}
	pkgLine := func(s laySection) {
		if s.pkg != "" {
			fmt.Fprintf(&b, "  package: %s\n", s.pkg)
		}
	}
	b.WriteString("exec:\n")
	if p.execFollow {
		fmt.Fprintf(&b, "  layout: follow-schema\n  dir: %s\n", p.exec.dir)
	} else {
		fmt.Fprintf(&b, "  filename: %s\n", filepath.Join(p.exec.dir, "generated.go"))
	}
	pkgLine(p.exec)
	fmt.Fprintf(&b, "model:\n  filename: %s\n", filepath.Join(p.model.dir, "models_gen.go"))
	pkgLine(p.model)
	switch p.resLayout {
	case "single":
		fmt.Fprintf(&b, "resolver:\n  filename: %s\n  type: Resolver\n", filepath.Join(p.res.dir, "resolver.go"))
		pkgLine(p.res)
	case "follow":
		fmt.Fprintf(&b, "resolver:\n  layout: follow-schema\n  dir: %s\n", p.res.dir)
		pkgLine(p.res)
	}
	b.WriteString("skip_mod_tidy: true\nmodels:\n  Owner:\n    fields:\n      items:\n        resolver: true\n")
	return b.String()
}

func (p *layProject) write(root string) error {
	d := filepath.Join(root, p.name)
	if err := os.MkdirAll(d, 0o755); err != nil {
		return err
	}
	// directory states, in section order; a directory shared by two sections takes the state of the first
	done := map[string]bool{}
	var schemaFiles []string
	goPkg := map[string]string{} // cleaned dir -> package of the doc.go written there
	for _, sec := range p.sections() {
		dir := filepath.Clean(sec.s.dir)
		if done[dir] {
			continue
		}
		done[dir] = true
		abs := filepath.Join(d, dir)
		st := sec.s.state
		if st == "absent" {
			continue
		}
		if err := os.MkdirAll(abs, 0o755); err != nil {
			return err
		}
		switch {
		case st == "empty":
		case st == "schema":
			name := "schema.graphql"
			body := laySchema
			if len(schemaFiles) > 0 {
				name = fmt.Sprintf("extra%d.graphql", len(schemaFiles))
				body = fmt.Sprintf(layExtra, len(schemaFiles))
			}
			if err := os.WriteFile(filepath.Join(abs, name), []byte(body), 0o644); err != nil {
				return err
			}
			schemaFiles = append(schemaFiles, filepath.Join(dir, name))
		case st == "readme":
			if err := os.WriteFile(filepath.Join(abs, "README.md"), []byte("# generated by gqlgen\n"), 0o644); err != nil {
				return err
			}
		case strings.HasPrefix(st, "gofile:"):
			pk := strings.TrimPrefix(st, "gofile:")
			goPkg[dir] = pk
			if err := os.WriteFile(filepath.Join(abs, "doc.go"), []byte("// Package "+pk+" holds the GraphQL server.\npackage "+pk+"\n"), 0o644); err != nil {
				return err
			}
		default:
			return fmt.Errorf("%s: unknown directory state %q", p.name, st)
		}
	}
	if len(schemaFiles) == 0 {
		if done["."] {
			// the project directory is an output directory and must stay in its state: keep the schema apart
			if err := os.MkdirAll(filepath.Join(d, "api"), 0o755); err != nil {
				return err
			}
			schemaFiles = []string{"api/schema.graphql"}
		} else {
			schemaFiles = []string{"schema.graphql"}
		}
		if err := os.WriteFile(filepath.Join(d, schemaFiles[0]), []byte(laySchema), 0o644); err != nil {
			return err
		}
	}
	// additional schema files placed relative to the exec directory (dimension "where the schema files live",
	// schemaloc.go): siblings whose names start with the exec directory's name, the parent, directories below it
	var locMeta strings.Builder
	fmt.Fprintf(&locMeta, "kind\t%s\nexec_dir\t%s\nexec_layout\t%s\nstyle\tlist\n", p.kind, filepath.ToSlash(filepath.Clean(p.exec.dir)), map[bool]string{true: "follow-schema", false: "single-file"}[p.execFollow])
	for _, f := range schemaFiles {
		fmt.Fprintf(&locMeta, "source\tlayout\t%s\t-\n", filepath.ToSlash(f))
	}
	for _, c := range p.extraLocs {
		rel, ok := locPath(p.exec.dir, c)
		if !ok {
			continue
		}
		abs := filepath.Join(d, filepath.FromSlash(rel))
		if _, err := os.Stat(abs); err == nil {
			continue
		}
		// never create a directory that a section expects to find absent or empty
		clash := false
		for _, sec := range p.sections() {
			sd := filepath.ToSlash(filepath.Clean(sec.s.dir))
			if (sec.s.state == "absent" || sec.s.state == "empty") && (filepath.ToSlash(filepath.Dir(rel)) == sd || strings.HasPrefix(rel, sd+"/")) {
				clash = true
			}
		}
		if clash {
			continue
		}
		if err := os.MkdirAll(filepath.Dir(abs), 0o755); err != nil {
			return err
		}
		if err := os.WriteFile(abs, []byte(fmt.Sprintf("extend type Query { loc_%s: Int }\n", c)), 0o644); err != nil {
			return err
		}
		schemaFiles = append(schemaFiles, rel)
		fmt.Fprintf(&locMeta, "source\t%s\t%s\t%v\n", c, rel, locIsInside(c))
	}
	if err := os.WriteFile(filepath.Join(d, "schemalocs.tsv"), []byte(locMeta.String()), 0o644); err != nil {
		return err
	}
	if err := os.WriteFile(filepath.Join(d, "gqlgen.yml"), []byte(p.yml(schemaFiles)), 0o644); err != nil {
		return err
	}
	// layout.tsv: per section what the directory LOOKS LIKE to NameForDir before the first generation (read back from
	// the file system that was just written: nested output directories show up as entries of their parents)
	var meta strings.Builder
	fmt.Fprintf(&meta, "kind\t%s\nexec_layout\t%s\nresolver_layout\t%s\n", p.kind, map[bool]string{true: "follow-schema", false: "single-file"}[p.execFollow], p.resLayout)
	for _, sec := range p.sections() {
		dir := filepath.Clean(sec.s.dir)
		abs, _ := filepath.Abs(filepath.Join(d, dir))
		enc := "U"
		if es, err := os.ReadDir(abs); err == nil {
			var items []string
			for _, e := range es {
				cl := "-"
				if e.Name() == "doc.go" && goPkg[dir] != "" {
					cl = hx(goPkg[dir])
				}
				items = append(items, hx(e.Name())+"="+cl)
			}
			enc = "E"
			if len(items) > 0 {
				enc = "E:" + strings.Join(items, ",")
			}
		}
		cfgd := "-"
		if sec.s.pkg != "" {
			cfgd = hx(sec.s.pkg)
		}
		fmt.Fprintf(&meta, "section\t%s\t%s\t%s\t%s\t%s\t%s\t%s\n", sec.role, dir, cfgd, hx(filepath.Base(abs)), enc, sec.s.state, layClass(filepath.Base(abs)))
	}
	if err := os.WriteFile(filepath.Join(d, "layout.tsv"), []byte(meta.String()), 0o644); err != nil {
		return err
	}
	fmt.Fprintf(out, "project\t%s\tlayout %s exec=%s:%s:%s model=%s:%s:%s resolver=%s:%s:%s:%s\n", p.name, p.kind,
		p.exec.dir, orDash(p.exec.pkg), p.exec.state, p.model.dir, orDash(p.model.pkg), p.model.state, p.resLayout, p.res.dir, orDash(p.res.pkg), p.res.state)
	return nil
}

func orDash(s string) string {
	if s == "" {
		return "-"
	}
	return s
}

var goKeywordSet = func() map[string]bool {
	m := map[string]bool{}
	for _, k := range goKeywords {
		m[k] = true
	}
	return m
}()

// the class of a directory base name (evidence histogram / failure shape)
func layClass(name string) string {
	switch {
	case name == "":
		return "empty"
	case goKeywordSet[name]:
		return "keyword"
	case name[0] >= '0' && name[0] <= '9':
		return "leading-digit"
	}
	nonWord, upper, nonASCII := false, false, false
	for _, c := range name {
		switch {
		case c >= 0x80:
			nonASCII = true
		case c >= 'A' && c <= 'Z':
			upper = true
		case c >= 'a' && c <= 'z', c >= '0' && c <= '9', c == '_':
		default:
			nonWord = true
		}
	}
	switch {
	case nonASCII:
		return "non-ascii"
	case strings.ContainsAny(name, "-") && strings.ContainsAny(name, "."):
		return "hyphen-and-dot"
	case strings.Contains(name, "-"):
		return "hyphen"
	case strings.Contains(name, "."):
		return "dot"
	case nonWord:
		return "other-non-identifier"
	case upper:
		return "upper-case"
	}
	return "identifier"
}

// base names per class usable as import path elements (module.CheckImportPath: letters, digits, - . _ ~ +; no leading
// or trailing dot); three per class so that the sections of one project get different directories
var layNames = map[string][]string{
	"identifier":    {"graph", "gql", "api_v2"},
	"upper-case":    {"Graph", "GraphQL", "Api"},
	"hyphen":        {"graph-api", "my-gql-server", "gen-"},
	"dot":           {"my.pkg", "api.v2", "gql.gen"},
	"leading-digit": {"1st", "2fa-api", "007"},
	"keyword":       {"type", "func", "go", "range", "import", "package", "interface", "default", "select", "map"},
}
var layClasses = []string{"identifier", "upper-case", "hyphen", "dot", "leading-digit", "keyword"}
var layStates = []string{"absent", "empty", "nongo", "gofile"}

func parseLaySection(s string, withLayout bool) (layout string, sec laySection, err error) {
	fs := strings.Split(s, ",")
	if withLayout {
		if len(fs) < 1 {
			return "", sec, fmt.Errorf("bad section %q", s)
		}
		layout, fs = fs[0], fs[1:]
		if layout == "none" {
			return layout, sec, nil
		}
	}
	if len(fs) != 3 {
		return "", sec, fmt.Errorf("section %q: want [<layout>,]<dir>,<package|->,<state>", s)
	}
	sec = laySection{dir: fs[0], pkg: fs[1], state: fs[2]}
	if sec.pkg == "-" {
		sec.pkg = ""
	}
	switch {
	case sec.state == "absent", sec.state == "empty", sec.state == "schema", sec.state == "readme", strings.HasPrefix(sec.state, "gofile:"):
	default:
		return "", sec, fmt.Errorf("section %q: unknown state", s)
	}
	return layout, sec, nil
}

func writeLayouts(root string, seed uint64, tier, corpus string) {
	r := rng.New(seed ^ 0x1A7007)
	fail := func(err error) {
		fmt.Fprintln(os.Stderr, err)
		out.Flush()
		os.Exit(1)
	}
	// ---- directed corpus: <name> exec=<single|follow>,<dir>,<pkg|->,<state> model=<dir>,<pkg|->,<state> resolver=<none|single|follow>[,<dir>,<pkg|->,<state>]
	if corpus != "" {
		f, err := os.Open(corpus)
		if err != nil {
			fail(err)
		}
		sc := bufio.NewScanner(f)
		for sc.Scan() {
			line := strings.TrimSpace(sc.Text())
			if line == "" || strings.HasPrefix(line, "#") {
				continue
			}
			fs := strings.Fields(line)
			if len(fs) != 4 || !strings.HasPrefix(fs[1], "exec=") || !strings.HasPrefix(fs[2], "model=") || !strings.HasPrefix(fs[3], "resolver=") {
				fail(fmt.Errorf("layout corpus line %q: want `<name> exec=… model=… resolver=…`", line))
			}
			el, es, err := parseLaySection(strings.TrimPrefix(fs[1], "exec="), true)
			if err != nil {
				fail(err)
			}
			_, ms, err := parseLaySection(strings.TrimPrefix(fs[2], "model="), false)
			if err != nil {
				fail(err)
			}
			rl, rs, err := parseLaySection(strings.TrimPrefix(fs[3], "resolver="), true)
			if err != nil {
				fail(err)
			}
			variants := []bool{el == "follow"}
			if tier == "thorough" {
				variants = append(variants, el != "follow")
			}
			for i, follow := range variants {
				p := &layProject{name: "c17l_" + fs[0] + map[int]string{0: "", 1: "_x"}[i], execFollow: follow, exec: es, model: ms, res: rs, resLayout: rl, kind: "directed"}
				if i == 1 && rl != "none" {
					p.resLayout = map[string]string{"single": "follow", "follow": "single"}[rl]
				}
				if err := p.write(root); err != nil {
					fail(err)
				}
			}
		}
		f.Close()
	}
	// ---- seeded cover A: `package:` omitted everywhere, separate directories; every (section, name class, state) once.
	// Three seeded permutations of the 24 (class, state) points, one per section: project k takes point perm_s[k].
	type point struct{ class, state string }
	var pts []point
	for _, c := range layClasses {
		for _, s := range layStates {
			pts = append(pts, point{c, s})
		}
	}
	perm := func() []point {
		o := append([]point(nil), pts...)
		for i := len(o) - 1; i > 0; i-- {
			j := r.Below(i + 1)
			o[i], o[j] = o[j], o[i]
		}
		return o
	}
	pe, pm, pr := perm(), perm(), perm()
	kwRot := r.Below(len(layNames["keyword"]))
	locRot := int((seed * 7) % 11) // not drawn from r: the layouts of a seed stay what they were before this dimension
	nameOf := func(class string, slot, k int) string {
		pool := layNames[class]
		if class == "keyword" {
			return pool[(kwRot+3*k+slot)%len(pool)]
		}
		return pool[slot%len(pool)]
	}
	stateOf := func(st, dir string, k, slot int) string {
		switch st {
		case "nongo":
			if (k+slot)%2 == 0 {
				return "schema"
			}
			return "readme"
		case "gofile":
			if (k+slot)%2 == 0 {
				return "gofile:" + userPkg(dir)
			}
			return "gofile:custom" + []string{"exec", "model", "res"}[slot]
		}
		return st
	}
	for k := 0; k < len(pts); k++ {
		p := &layProject{name: fmt.Sprintf("c17l%03d", k), execFollow: k%2 == 1, resLayout: []string{"follow", "single"}[(k/2)%2], kind: "cover-omitted"}
		ed := nameOf(pe[k].class, 0, k)
		md := nameOf(pm[k].class, 1, k)
		rd := nameOf(pr[k].class, 2, k)
		// nested under the exec directory when that does not change the exec directory's own state class
		if pe[k].state != "absent" && pe[k].state != "empty" && r.Bool() {
			md = filepath.Join(ed, md)
		}
		if pe[k].state != "absent" && pe[k].state != "empty" && r.Below(3) == 0 {
			rd = filepath.Join(ed, rd)
		}
		p.exec = laySection{dir: ed, state: stateOf(pe[k].state, ed, k, 0)}
		p.model = laySection{dir: md, state: stateOf(pm[k].state, md, k, 1)}
		p.res = laySection{dir: rd, state: stateOf(pr[k].state, rd, k, 2)}
		// where the schema files live: one location outside the exec directory (rotating through the classes) and one
		// below it (skipped by write() when the exec directory is to be absent / empty before the first generation)
		p.extraLocs = []string{locOutside[(k+locRot)%len(locOutside)], locInside[(k+locRot)%len(locInside)]}
		if err := p.write(root); err != nil {
			fail(err)
		}
	}
	// ---- seeded cover B: shared directories (model inside the exec package, resolver inside the exec package, all
	// three in one), `package:` omitted or given identically, non-identifier names in every state
	nB := 6
	if tier == "thorough" {
		nB = 24
	}
	for k := 0; k < nB; k++ {
		class := []string{"hyphen", "dot", "leading-digit", "keyword", "upper-case", "hyphen"}[k%6]
		dir := nameOf(class, r.Below(3), k)
		st := stateOf(layStates[(k+k/6)%4], dir, k, 0)
		given := ""
		if k%3 == 2 {
			given = "gqlsrv"
			if strings.HasPrefix(st, "gofile:") {
				given = strings.TrimPrefix(st, "gofile:")
			}
		}
		p := &layProject{name: fmt.Sprintf("c17l%03d", 100+k), execFollow: (k/2)%2 == 1, kind: "cover-shared"}
		p.exec = laySection{dir: dir, pkg: given, state: st}
		p.model = laySection{dir: dir, pkg: given, state: st}
		p.resLayout = []string{"follow", "single", "none"}[k%3]
		p.res = laySection{dir: dir, pkg: given, state: st}
		switch r.Below(3) {
		case 0: // model outside
			md := filepath.Join(dir, nameOf(layClasses[r.Below(len(layClasses))], 1, k))
			p.model = laySection{dir: md, state: stateOf(layStates[r.Below(4)], md, k, 1)}
		case 1: // resolver outside
			rd := nameOf(layClasses[r.Below(len(layClasses))], 2, k)
			if rd == dir {
				rd = rd + "-res"
			}
			p.res = laySection{dir: rd, state: stateOf(layStates[r.Below(4)], rd, k, 2)}
		}
		p.extraLocs = []string{locOutside[(k+3+locRot)%len(locOutside)], locOutside[(2*k+locRot)%len(locOutside)], locInside[(k+2+locRot)%len(locInside)]}
		if err := p.write(root); err != nil {
			fail(err)
		}
	}
	// ---- seeded cover C: `package:` GIVEN for some sections (equal to the sanitised-looking name, or unrelated to the
	// directory name), the others omitted
	nC := 6
	if tier == "thorough" {
		nC = 30
	}
	for k := 0; k < nC; k++ {
		p := &layProject{name: fmt.Sprintf("c17l%03d", 200+k), execFollow: r.Bool(), resLayout: []string{"follow", "single"}[r.Below(2)], kind: "cover-given"}
		secs := []*laySection{&p.exec, &p.model, &p.res}
		mask := 1 + r.Below(7)
		for slot, s := range secs {
			class := layClasses[r.Below(len(layClasses))]
			dir := nameOf(class, slot, k)
			st := stateOf(layStates[r.Below(4)], dir, k, slot)
			*s = laySection{dir: dir, state: st}
			if mask&(1<<slot) != 0 {
				s.pkg = []string{"gqlexec", "gqlmodel", "gqlres"}[slot]
				if r.Bool() {
					s.pkg = userPkg(dir)
				}
				if strings.HasPrefix(st, "gofile:") {
					s.pkg = strings.TrimPrefix(st, "gofile:")
				} else if slot == 0 && (class == "identifier" || class == "upper-case") {
					// F17k (directed project c17l_f17k only): an exec package that is not written yet, named differently
					// from a directory whose name is an identifier, referenced from another package
					s.pkg = dir
				}
			}
		}
		p.extraLocs = []string{locOutside[(k+7+locRot)%len(locOutside)], locInside[(k+4+locRot)%len(locInside)]}
		if err := p.write(root); err != nil {
			fail(err)
		}
	}
	// ---- thorough: random layouts, `package:` omitted
	if tier == "thorough" {
		for k := 0; k < 36; k++ {
			p := &layProject{name: fmt.Sprintf("c17l%03d", 300+k), execFollow: r.Bool(), resLayout: []string{"follow", "single", "none"}[r.Below(3)], kind: "random"}
			secs := []*laySection{&p.exec, &p.model, &p.res}
			for slot, s := range secs {
				dir := nameOf(layClasses[r.Below(len(layClasses))], slot, k+r.Below(7))
				if slot > 0 && p.exec.state != "absent" && p.exec.state != "empty" && r.Bool() {
					dir = filepath.Join(p.exec.dir, dir)
				}
				*s = laySection{dir: dir, state: stateOf(layStates[r.Below(4)], dir, k, slot)}
			}
			p.extraLocs = []string{locOutside[(k+locRot)%len(locOutside)], locOutside[(k/3+5)%len(locOutside)], locInside[(k+1)%len(locInside)]}
			if err := p.write(root); err != nil {
				fail(err)
			}
		}
	}
}

// ------------------------------------------------------------------------------------------------ -mode pkgnames

type pkgState struct {
	enc     string            // encoding for the Lean driver (U | E | E:<name>=<clause|->,…)
	files   map[string]string // entry name -> content ("" + trailing "/" in the name = a directory)
	missing bool
}

func pkgStates() []pkgState {
	mk := func(files map[string]string, clause map[string]string) pkgState {
		var names []string
		for n := range files {
			names = append(names, strings.TrimSuffix(n, "/"))
		}
		sort.Strings(names)
		var items []string
		for _, n := range names {
			cl := "-"
			if c, ok := clause[n]; ok {
				cl = hx(c)
			}
			items = append(items, hx(n)+"="+cl)
		}
		enc := "E"
		if len(items) > 0 {
			enc = "E:" + strings.Join(items, ",")
		}
		return pkgState{enc: enc, files: files}
	}
	return []pkgState{
		{enc: "U", missing: true},
		mk(map[string]string{}, nil),
		mk(map[string]string{"schema.graphqls": "type Query { a: Int }\n"}, nil),
		mk(map[string]string{"README.md": "# x\n", "gqlgen.yml": "schema: []\n", "sub/": ""}, nil),
		mk(map[string]string{"doc.go": "package custompkg\n"}, map[string]string{"doc.go": "custompkg"}),
		mk(map[string]string{"broken.go": "this is not Go\n", "notes.go.txt": "package wrong\n"}, nil),
		mk(map[string]string{"a.go": "pack age\n", "b.GO": "// c\npackage second\n", "c.go": "package third\n"}, map[string]string{"b.GO": "second", "c.go": "third"}),
		mk(map[string]string{"x.go/": "", "y.txt": "package no\n"}, nil),
	}
}

// runPkgNames: the derived package name as the REAL Check() of each section leaves it in `Package`, for directory
// base names x directory states. One line: k <section> <layout> <name hex> <state enc> <derived hex | ERR:…>
func runPkgNames(tier string, seed uint64) {
	r := rng.New(seed ^ 0x9C6A3E)
	tmp, err := os.MkdirTemp("", "c17pkg")
	if err != nil {
		fmt.Fprintln(os.Stderr, err)
		os.Exit(1)
	}
	defer os.RemoveAll(tmp)
	states := pkgStates()
	seen := map[string]bool{}
	var directedNames, gridNames []string
	add := func(dst *[]string, n string) {
		if n == "" || n == "." || n == ".." || strings.ContainsAny(n, "/\x00") || seen[n] {
			return
		}
		seen[n] = true
		*dst = append(*dst, n)
	}
	for _, n := range []string{"graph", "Graph", "my_graph", "graph-api", "my.pkg", "api-v1.2", "1st", "2-go", "007", "Type", "type-", "-type", "go.", ".go",
		"_", "-", "--", "...", ".x", "x y", " ", "é", "graphé", "日本", "日本-api", "a+b", "~tmp", "_1", "__", "1", "9_", "if1", "_if", "gen-", "x.go", "generated.go", "a b-c.d",
		"main", "internal", "vendor", "testdata", "\t", "graph\napi", "%", "İ", "ſ", "K"} {
		add(&directedNames, n)
	}
	for _, k := range goKeywords {
		add(&directedNames, k)
		add(&directedNames, strings.ToUpper(k[:1])+k[1:])
	}
	for _, pool := range layNames {
		for _, n := range pool {
			add(&directedNames, n)
		}
	}
	alpha := []string{"a", "Z", "1", "_", "-", ".", "g", "o"}
	maxLen := 3
	if tier == "thorough" {
		maxLen = 4
	}
	var rec func(prefix string, n int)
	rec = func(prefix string, n int) {
		if n == 0 {
			return
		}
		for _, a := range alpha {
			add(&gridNames, prefix+a)
			rec(prefix+a, n-1)
		}
	}
	rec("", maxLen)
	nRand := 80
	if tier == "thorough" {
		nRand = 1500
	}
	wide := []rune("abcxyzABZ0159_-. +~,;:'()[]{}!@#$%^&=éß日")
	for i := 0; i < nRand; i++ {
		var b strings.Builder
		if r.Below(4) == 0 {
			b.WriteString(goKeywords[r.Below(len(goKeywords))])
		}
		for n := r.Below(9); n > 0; n-- {
			b.WriteRune(wide[r.Below(len(wide))])
		}
		if r.Below(6) == 0 {
			b.WriteString(goKeywords[r.Below(len(goKeywords))])
		}
		add(&gridNames, b.String())
	}
	idx := 0
	one := func(section string, follow bool, name string, st pkgState) {
		idx++
		parent := filepath.Join(tmp, fmt.Sprintf("%05d", idx))
		dir := filepath.Join(parent, name)
		res := ""
		func() {
			defer func() {
				if rec := recover(); rec != nil {
					res = fmt.Sprintf("PANIC:%v", rec)
				}
			}()
			if err := os.MkdirAll(parent, 0o755); err != nil {
				res = "SKIP:" + err.Error()
				return
			}
			if !st.missing {
				if err := os.Mkdir(dir, 0o755); err != nil {
					res = "SKIP:" + err.Error()
					return
				}
				for fn, body := range st.files {
					if strings.HasSuffix(fn, "/") {
						_ = os.Mkdir(filepath.Join(dir, fn), 0o755)
					} else {
						_ = os.WriteFile(filepath.Join(dir, fn), []byte(body), 0o644)
					}
				}
			}
			var pkg string
			var err error
			switch section {
			case "exec":
				c := config.ExecConfig{Filename: filepath.Join(dir, "generated.go")}
				if follow {
					c = config.ExecConfig{Layout: config.ExecLayoutFollowSchema, DirName: dir}
				}
				err = c.Check()
				pkg = c.Package
			case "model":
				c := config.PackageConfig{Filename: filepath.Join(dir, "models_gen.go")}
				err = c.Check()
				pkg = c.Package
			case "resolver":
				c := config.ResolverConfig{Layout: config.LayoutSingleFile, Filename: filepath.Join(dir, "resolver.go")}
				if follow {
					c = config.ResolverConfig{Layout: config.LayoutFollowSchema, DirName: dir}
				}
				err = c.Check()
				pkg = c.Package
			}
			if err != nil {
				res = "ERR:" + err.Error()
				return
			}
			res = hx(pkg)
		}()
		_ = os.RemoveAll(parent)
		if strings.HasPrefix(res, "SKIP:") {
			return
		}
		fmt.Fprintf(out, "k\t%s\t%s\t%s\t%s\t%s\n", section, map[bool]string{true: "follow-schema", false: "single-file"}[follow], hx(name), st.enc, res)
	}
	sections := []string{"exec", "model", "resolver"}
	for _, n := range directedNames {
		for si, st := range states {
			for ci, sec := range sections {
				one(sec, (si+ci)%2 == 1, n, st)
			}
		}
	}
	for i, n := range gridNames {
		// section and state vary independently (i mod 3, i div 3 mod 4 over the states without Go files + one with)
		st := []pkgState{states[0], states[1], states[2], states[5]}[(i/3)%4]
		one(sections[i%3], (i/12)%2 == 1, n, st)
	}
}
