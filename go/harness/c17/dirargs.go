package main

import (
	"bufio"
	"fmt"
	"os"
	"path/filepath"
	"sort"
	"strings"

	"verifharness/internal/rng"
)

// Generator dimension "HOW THE ARGUMENTS OF A SCHEMA DIRECTIVE ARE GIVEN AT EACH USE" (projects c17a*), added after the
// miss seeded/C17-change10. For every application of a runtime directive the generated executor declares a local
// `dirArg_<name>` per argument (directives.gotpl, `implDirectives`: only when the EFFECTIVE value of the argument at
// this use is non-nil) and passes either that local or the literal `nil` to the directive function
// (codegen/directive.go, `ResolveArgs`). The effective value is decided by the definition (no default / a default /
// the default `null`) AND the use (argument omitted / given / given as `null`). Every other project family wrote a
// literal value or left the argument out: an explicit `null`, a `= null` default, a single value for a list argument
// or an object literal never reached the two cooperating sites.
//
// A shape is <location>.<kind>.<default>.<use>:
//   location  FD object field | AD argument of a field | IF input field | OB object type | IO input object (these five
//             end up in a field's / argument's ImplDirectives = runtime code) | IN interface | UN union | EN enum |
//             EV enum value | SC scalar | FI interface field (the directives of a field's TYPE are merged into the field)
//   kind      I Int | S String | B Boolean | F Float | D ID | E Kind (enum) | O Opts (input object) | A Any |
//             LI [Int!] | LS [String] | LE [Kind!] | LO [Opts!] | LL [[Int]] | nI Int! | nS String! | nE Kind! |
//             nLI [Int!]! | nO Opts!      (one directive `@d<kind>_<default>` per kind x default, a single argument)
//   default   n none | v a value | z `= null` (nullable kinds only)
//   use       o omitted | v a value | z `null` | 1 a single value where a list is expected | e `[]` | x an object
//             literal that leaves fields out / sets one to null (O, nO)
//   `multi` as kind: `@limit(max: Int = 100, unit: String, strict: Boolean! = false, tags: [String!] = ["a"])`, the
//   default is `-` and the use has one letter per argument (`zovo`).
// Options (corpus): exec (every directive is also declared on QUERY | MUTATION | SUBSCRIPTION | FIELD, which generates
// the `dir_<name>_args` functions with their default handling), skip (`directives: <name>: skip_runtime: true` for
// every second directive), files (definitions, types and uses spread over three schema files), or any boolean
// gqlgen.yml option. Every project is written for both exec layouts and both template flavours.

type daShape struct{ loc, kind, def, use string }

func (s daShape) String() string { return s.loc + "." + s.kind + "." + s.def + "." + s.use }

var daRuntimeLocs = []string{"FD", "AD", "IF", "OB", "IO"}
var daOtherLocs = []string{"IN", "UN", "EN", "EV", "SC", "FI"}
var daKinds = []string{"I", "S", "B", "F", "D", "E", "O", "A", "LI", "LS", "LE", "LO", "LL", "nI", "nS", "nE", "nLI", "nO"}

type daKindInfo struct {
	typ        string
	dflt, val  string // the literal of a definition default / of a use
	single     string // a single value for a list kind
	partial    string // an object literal with holes
	argName    string
	carrierTyp string // type of the field / argument / input field that carries a use of this kind (varies the zero value)
}

var daInfo = map[string]daKindInfo{
	"I":   {"Int", "7", "5", "", "", "max", "String"},
	"S":   {"String", `"dflt"`, `"s"`, "", "", "type", "Int!"},
	"B":   {"Boolean", "false", "true", "", "", "a", "[Int!]"},
	"F":   {"Float", "0.5", "1.5", "", "", "string", "Item"},
	"D":   {"ID", `"id0"`, "12", "", "", "v", "Kind"},
	"E":   {"Kind", "SMALL", "LARGE", "", "", "in", "[String]!"},
	"O":   {"Opts", `{n: 3}`, `{n: 2, s: "x", k: LARGE}`, "", `{s: null}`, "opts", "ID"},
	"A":   {"Any", `{a: [1, "x"]}`, `[1, {b: true}]`, "", "", "any", "Float"},
	"LI":  {"[Int!]", "[7, 8]", "[1, 2]", "3", "", "ids", "Boolean"},
	"LS":  {"[String]", `["d", null]`, `["a", null]`, `"one"`, "", "names", "String!"},
	"LE":  {"[Kind!]", "[SMALL]", "[LARGE, SMALL]", "LARGE", "", "kinds", "Int"},
	"LO":  {"[Opts!]", `[{n: 3}]`, `[{n: 1}, {}]`, `{n: 1}`, "", "list", "[Kind!]"},
	"LL":  {"[[Int]]", "[[7], null]", "[[1, null], null, []]", "4", "", "grid", "String"},
	"nI":  {"Int!", "7", "5", "", "", "min", "Int"},
	"nS":  {"String!", `"dflt"`, `"s"`, "", "", "role", "Item!"},
	"nE":  {"Kind!", "SMALL", "LARGE", "", "", "kind", "String"},
	"nLI": {"[Int!]!", "[7]", "[1, 2]", "3", "", "codes", "[Item]"},
	"nO":  {"Opts!", `{n: 3}`, `{s: "y"}`, "", `{k: null}`, "must", "Boolean!"},
}

func daIsList(kind string) bool { return strings.HasPrefix(strings.TrimPrefix(kind, "n"), "L") }
func daNonNull(kind string) bool {
	return kind != "" && kind[0] == 'n'
}

// daValid: is the (kind, default, use) triple valid GraphQL?
func daValid(kind, def, use string) bool {
	if _, ok := daInfo[kind]; !ok {
		return false
	}
	nn := daNonNull(kind)
	switch def {
	case "n", "v":
	case "z":
		if nn {
			return false
		}
	default:
		return false
	}
	switch use {
	case "o":
		return !nn || def == "v"
	case "v":
		return true
	case "z":
		return !nn
	case "1", "e":
		return daIsList(kind)
	case "x":
		return kind == "O" || kind == "nO"
	}
	return false
}

func daTriples() [][3]string {
	var out [][3]string
	for _, k := range daKinds {
		for _, d := range []string{"n", "v", "z"} {
			for _, u := range []string{"o", "v", "z", "1", "e", "x"} {
				if daValid(k, d, u) {
					out = append(out, [3]string{k, d, u})
				}
			}
		}
	}
	return out
}

func parseDaShape(s string) (daShape, error) {
	fs := strings.Split(s, ".")
	if len(fs) != 4 {
		return daShape{}, fmt.Errorf("shape %q: want <location>.<kind>.<default>.<use>", s)
	}
	sh := daShape{fs[0], fs[1], fs[2], fs[3]}
	if idxOf(daRuntimeLocs, sh.loc) < 0 && idxOf(daOtherLocs, sh.loc) < 0 {
		return sh, fmt.Errorf("shape %q: unknown location", s)
	}
	if sh.kind == "multi" {
		if sh.def != "-" || len(sh.use) != 4 || strings.Trim(sh.use, "ovz") != "" || sh.use[2] == 'z' {
			return sh, fmt.Errorf("shape %q: multi wants default `-` and four letters o|v|z (the third not z)", s)
		}
		return sh, nil
	}
	if !daValid(sh.kind, sh.def, sh.use) {
		return sh, fmt.Errorf("shape %q: not a valid kind / default / use combination", s)
	}
	return sh, nil
}

type daProject struct {
	name     string
	shapes   []daShape
	opts     map[string]bool // exec | skip | files
	funcSyn  bool
	follow   bool
	cfg      map[string]string
	modelPkg bool
	resolver string
	kind     string
}

func daDirName(kind, def string) string { return "d" + kind + "_" + def }

// the text of one application
func (s daShape) text() string {
	if s.kind == "multi" {
		names := []string{"max", "unit", "strict", "tags"}
		vals := []string{"5", `"rows"`, "true", `["x", "y"]`}
		var as []string
		for i, c := range s.use {
			switch c {
			case 'v':
				as = append(as, names[i]+": "+vals[i])
			case 'z':
				as = append(as, names[i]+": null")
			}
		}
		if len(as) == 0 {
			return "@limit"
		}
		return "@limit(" + strings.Join(as, ", ") + ")"
	}
	in := daInfo[s.kind]
	d := "@" + daDirName(s.kind, s.def)
	switch s.use {
	case "o":
		return d
	case "v":
		return d + "(" + in.argName + ": " + in.val + ")"
	case "z":
		return d + "(" + in.argName + ": null)"
	case "1":
		return d + "(" + in.argName + ": " + in.single + ")"
	case "e":
		return d + "(" + in.argName + ": [])"
	case "x":
		return d + "(" + in.argName + ": " + in.partial + ")"
	}
	return d
}

func (p *daProject) files() (files map[string]string, order []string, yml string) {
	nfiles := 1
	if p.opts["files"] {
		nfiles = 3
	}
	names := []string{"schema.graphql", "directives.graphql", "uses.graphql"}
	bodies := make([]strings.Builder, 3)
	dirFile, typeFile, useFile := 0, 0, 0
	if nfiles == 3 {
		dirFile, useFile = 1, 2
	}
	locs := "FIELD_DEFINITION | ARGUMENT_DEFINITION | INPUT_FIELD_DEFINITION | OBJECT | INPUT_OBJECT | INTERFACE | UNION | ENUM | ENUM_VALUE | SCALAR"
	if p.opts["exec"] {
		locs += " | QUERY | MUTATION | SUBSCRIPTION | FIELD"
	}
	// ---- directive definitions: those the shapes use, in catalogue order
	usedDirs := map[string]bool{}
	multi := false
	for _, s := range p.shapes {
		if s.kind == "multi" {
			multi = true
		} else {
			usedDirs[daDirName(s.kind, s.def)] = true
		}
	}
	var dirNames []string
	db := &bodies[dirFile]
	if multi {
		fmt.Fprintf(db, "directive @limit(max: Int = 100, unit: String, strict: Boolean! = false, tags: [String!] = [\"a\"]) on %s\n", locs)
		dirNames = append(dirNames, "limit")
	}
	for _, k := range daKinds {
		for _, d := range []string{"n", "v", "z"} {
			n := daDirName(k, d)
			if !usedDirs[n] {
				continue
			}
			in := daInfo[k]
			def := ""
			switch d {
			case "v":
				def = " = " + in.dflt
			case "z":
				def = " = null"
			}
			fmt.Fprintf(db, "directive @%s(%s: %s%s) on %s\n", n, in.argName, in.typ, def, locs)
			dirNames = append(dirNames, n)
		}
	}
	tb := &bodies[typeFile]
	tb.WriteString("scalar Any\nenum Kind { SMALL LARGE }\ninput Opts { n: Int = 1  s: String  k: Kind }\ntype Other { id: ID! }\n")
	ub := &bodies[useFile]
	var itemFields, queryFields, inFields []string
	var extra strings.Builder
	for i, s := range p.shapes {
		u := s.text()
		ct := "String"
		if in, ok := daInfo[s.kind]; ok {
			ct = in.carrierTyp
		}
		inputTyp := func(t string) string { // the carrier of an argument / input field must be an input type
			return strings.NewReplacer("Item", "Opts").Replace(t)
		}
		switch s.loc {
		case "FD":
			itemFields = append(itemFields, fmt.Sprintf("  fd%d: %s %s", i, ct, u))
		case "AD":
			itemFields = append(itemFields, fmt.Sprintf("  ad%d(x: Int, a: %s %s): Int", i, inputTyp(ct), u))
		case "IF":
			t := inputTyp(ct)
			if strings.HasSuffix(t, "!") { // keep `In` constructible from `{}`
				t += " = " + map[string]string{"Int!": "1", "String!": `"q"`, "Boolean!": "true", "[String]!": "[]", "Opts!": "{}"}[t]
			}
			inFields = append(inFields, fmt.Sprintf("  if%d: %s %s", i, t, u))
		case "OB":
			fmt.Fprintf(&extra, "type Ob%d %s { x: Int  y: [Ob%d!] }\n", i, u, i)
			itemFields = append(itemFields, fmt.Sprintf("  ob%d: Ob%d", i, i))
		case "IO":
			fmt.Fprintf(&extra, "input Io%d %s { x: Int  y: String = \"y\" }\n", i, u)
			queryFields = append(queryFields, fmt.Sprintf("  io%d(v: Io%d, l: [Io%d!]): Int", i, i, i))
		case "IN":
			fmt.Fprintf(&extra, "interface In%d %s { x: Int }\ntype InImpl%d implements In%d { x: Int }\n", i, u, i, i)
			itemFields = append(itemFields, fmt.Sprintf("  in%d: In%d", i, i))
		case "UN":
			fmt.Fprintf(&extra, "union Un%d %s = Item | Other\n", i, u)
			itemFields = append(itemFields, fmt.Sprintf("  un%d: [Un%d!]", i, i))
		case "EN":
			fmt.Fprintf(&extra, "enum En%d %s { A B }\n", i, u)
			itemFields = append(itemFields, fmt.Sprintf("  en%d(e: En%d = A): En%d", i, i, i))
		case "EV":
			fmt.Fprintf(&extra, "enum Ev%d { A %s  B }\n", i, u)
			itemFields = append(itemFields, fmt.Sprintf("  ev%d: Ev%d!", i, i))
		case "SC":
			fmt.Fprintf(&extra, "scalar Sc%d %s\n", i, u)
			itemFields = append(itemFields, fmt.Sprintf("  sc%d(s: Sc%d): Sc%d", i, i, i))
		case "FI":
			fmt.Fprintf(&extra, "interface Fi%d { x(a: Int): Int %s }\ntype FiImpl%d implements Fi%d { x(a: Int): Int }\n", i, u, i, i)
			itemFields = append(itemFields, fmt.Sprintf("  fi%d: Fi%d", i, i))
		}
	}
	ub.WriteString(extra.String())
	fmt.Fprintf(ub, "type Item {\n  id: ID!\n%s\n}\n", strings.Join(itemFields, "\n"))
	if len(inFields) > 0 {
		fmt.Fprintf(ub, "input In {\n  plain: String\n%s\n}\n", strings.Join(inFields, "\n"))
		queryFields = append(queryFields, "  find(in: In, all: [In!]): [Item!]")
	}
	fmt.Fprintf(tb, "type Query {\n  item(id: ID!): Item\n%s\n}\n", strings.Join(queryFields, "\n"))
	if p.opts["exec"] {
		tb.WriteString("type Mutation {\n  touch(id: ID!): Item\n}\ntype Subscription {\n  ticks: Int\n}\n")
	}
	files = map[string]string{}
	for i := 0; i < nfiles; i++ {
		files[names[i]] = bodies[i].String()
		order = append(order, names[i])
	}

	var y strings.Builder
	y.WriteString("schema:\n")
	for _, n := range order {
		fmt.Fprintf(&y, "  - %s\n", n)
	}
	y.WriteString("exec:\n")
	if p.follow {
		fmt.Fprintf(&y, "  layout: follow-schema\n  dir: .\n  package: %s\n", p.name)
	} else {
		y.WriteString("  filename: generated.go\n")
	}
	y.WriteString("model:\n")
	if p.modelPkg {
		y.WriteString("  filename: model/models_gen.go\n  package: model\n")
	} else {
		y.WriteString("  filename: models_gen.go\n")
	}
	switch p.resolver {
	case "single":
		y.WriteString("resolver:\n  filename: res/resolver.go\n  package: res\n  type: Resolver\n")
	case "follow":
		y.WriteString("resolver:\n  layout: follow-schema\n  dir: res\n  package: res\n")
	case "same":
		y.WriteString("resolver:\n  layout: follow-schema\n  dir: .\n")
	}
	y.WriteString("skip_mod_tidy: true\n")
	fmt.Fprintf(&y, "use_function_syntax_for_execution_context: %v\n", p.funcSyn)
	keys := make([]string, 0, len(p.cfg))
	for k := range p.cfg {
		keys = append(keys, k)
	}
	sort.Strings(keys)
	for _, k := range keys {
		fmt.Fprintf(&y, "%s: %s\n", k, p.cfg[k])
	}
	if p.opts["skip"] {
		y.WriteString("directives:\n")
		for i, n := range dirNames {
			if i%2 == 1 {
				fmt.Fprintf(&y, "  %s:\n    skip_runtime: true\n", n)
			}
		}
	}
	yml = y.String()
	return
}

func (p *daProject) write(root string) error {
	d := filepath.Join(root, p.name)
	if err := os.MkdirAll(d, 0o755); err != nil {
		return err
	}
	files, order, yml := p.files()
	for _, n := range order {
		if err := os.WriteFile(filepath.Join(d, n), []byte(files[n]), 0o644); err != nil {
			return err
		}
	}
	if err := os.WriteFile(filepath.Join(d, "gqlgen.yml"), []byte(yml), 0o644); err != nil {
		return err
	}
	var sh, os_ []string
	for _, s := range p.shapes {
		sh = append(sh, s.String())
	}
	for k, v := range p.opts {
		if v {
			os_ = append(os_, k)
		}
	}
	sort.Strings(os_)
	meta := fmt.Sprintf("flavour\t%s\nlayout\t%s\nresolver\t%s\noptions\t%s\nshapes\t%s\n", map[bool]string{true: "function", false: "method"}[p.funcSyn],
		map[bool]string{true: "follow-schema", false: "single-file"}[p.follow], p.resolver, strings.Join(os_, ","), strings.Join(sh, " "))
	if err := os.WriteFile(filepath.Join(d, "dirargs.tsv"), []byte(meta), 0o644); err != nil {
		return err
	}
	fmt.Fprintf(out, "project\t%s\tdirective-arguments %s flavour=%v follow=%v resolver=%s shapes=%d\n", p.name, p.kind, p.funcSyn, p.follow, p.resolver, len(p.shapes))
	return nil
}

func writeDirArgs(root string, seed uint64, tier, corpus string) {
	r := rng.New(seed ^ 0xD1A465)
	fail := func(err error) {
		fmt.Fprintln(os.Stderr, err)
		out.Flush()
		os.Exit(1)
	}
	isBoolOpt := func(o string) bool { return idxOf(boolOptions, o) >= 0 }
	resolvers := []string{"follow", "single", "same", "none"}
	sfx := func(funcSyn, follow bool) string {
		return map[bool]string{true: "f", false: "m"}[funcSyn] + map[bool]string{true: "fs", false: "sf"}[follow]
	}
	// ---- directed corpus: <name> <options|-> <shape> ...
	if corpus != "" {
		f, err := os.Open(corpus)
		if err != nil {
			fail(err)
		}
		sc := bufio.NewScanner(f)
		idx := 0
		for sc.Scan() {
			line := strings.TrimSpace(sc.Text())
			if line == "" || strings.HasPrefix(line, "#") {
				continue
			}
			fs := strings.Fields(line)
			if len(fs) < 3 {
				fail(fmt.Errorf("directive-argument corpus line %q: want `<name> <options|-> <shape>...`", line))
			}
			opts := map[string]bool{}
			cfg := map[string]string{}
			if fs[1] != "-" {
				for _, o := range strings.Split(fs[1], ",") {
					switch {
					case o == "exec", o == "skip", o == "files":
						opts[o] = true
					case isBoolOpt(o):
						cfg[o] = "true"
					default:
						fail(fmt.Errorf("directive-argument corpus line %q: unknown option %s", line, o))
					}
				}
			}
			var sh []daShape
			for _, s := range fs[2:] {
				x, err := parseDaShape(s)
				if err != nil {
					fail(err)
				}
				sh = append(sh, x)
			}
			for k := 0; k < 4; k++ {
				funcSyn, follow := k >= 2, k == 1 || k == 2
				// quick: one flavour x layout point per entry, rotating; thorough: all four
				if tier != "thorough" && k != idx%4 {
					continue
				}
				p := &daProject{name: "c17a_" + fs[0] + "_" + sfx(funcSyn, follow), shapes: sh, opts: opts, funcSyn: funcSyn, follow: follow, cfg: cfg,
					modelPkg: (idx+k)%2 == 0, resolver: resolvers[(idx+k)%len(resolvers)], kind: "directed"}
				if err := p.write(root); err != nil {
					fail(err)
				}
			}
			idx++
		}
		f.Close()
	}
	// ---- seeded cover: EVERY valid (kind, default, use) triple, (flavour x layout) projects.
	// quick: each triple in TWO of the four projects (one per flavour, the layouts crossed), at ONE runtime location each
	// (rotating with the triple and the project) + at one of the other locations for every third triple; thorough: each
	// triple in all four projects at TWO runtime locations (over the family all five) and one other location.
	tr := daTriples()
	off := r.Below(2)
	rot := r.Below(5)
	for k := 0; k < 4; k++ {
		funcSyn, follow := k >= 2, k == 1 || k == 2
		var sh []daShape
		for i, t := range tr {
			if tier == "thorough" {
				sh = append(sh, daShape{daRuntimeLocs[(i+2*k+rot)%len(daRuntimeLocs)], t[0], t[1], t[2]})
				sh = append(sh, daShape{daRuntimeLocs[(i+2*k+1+rot)%len(daRuntimeLocs)], t[0], t[1], t[2]})
				sh = append(sh, daShape{daOtherLocs[(i+k+rot)%len(daOtherLocs)], t[0], t[1], t[2]})
				continue
			}
			if (i+k)%2 == 1 { // quick: every triple in two of the four projects (k, k+2: both flavours and both layouts)
				continue
			}
			sh = append(sh, daShape{daRuntimeLocs[(i/2+k+rot)%len(daRuntimeLocs)], t[0], t[1], t[2]})
			if (i/2+k)%3 == 0 {
				sh = append(sh, daShape{daOtherLocs[(i/3+k+rot)%len(daOtherLocs)], t[0], t[1], t[2]})
			}
		}
		for _, u := range []string{"oooo", "zovz", "vvvv", "zvov", "ozvz"} {
			sh = append(sh, daShape{daRuntimeLocs[(len(sh)+k)%len(daRuntimeLocs)], "multi", "-", u})
		}
		p := &daProject{name: fmt.Sprintf("c17a%03d_%s", k, sfx(funcSyn, follow)), shapes: sh, funcSyn: funcSyn, follow: follow, cfg: spreadOptions(k, off),
			opts: map[string]bool{"exec": k%2 == off, "skip": false, "files": k < 2 == (off == 0)}, modelPkg: r.Bool(), resolver: resolvers[(k+rot)%4], kind: "cover"}
		if err := p.write(root); err != nil {
			fail(err)
		}
	}
	// ---- thorough: random subsets x random configuration points, as a layout pair each
	if tier == "thorough" {
		allLocs := append(append([]string{}, daRuntimeLocs...), daOtherLocs...)
		for x := 0; x < 10; x++ {
			n := 1 + r.Below(12)
			var sh []daShape
			for j := 0; j < n; j++ {
				t := tr[r.Below(len(tr))]
				l := allLocs[r.Below(len(allLocs))]
				if r.Below(3) > 0 {
					l = daRuntimeLocs[r.Below(len(daRuntimeLocs))]
				}
				sh = append(sh, daShape{l, t[0], t[1], t[2]})
			}
			cfg := map[string]string{}
			for _, o := range boolOptions {
				switch r.Below(3) {
				case 0:
					cfg[o] = "true"
				case 1:
					cfg[o] = "false"
				}
			}
			opts := map[string]bool{"exec": r.Bool(), "skip": r.Below(3) == 0, "files": r.Bool()}
			funcSyn, modelPkg, res := r.Bool(), r.Bool(), resolvers[r.Below(4)]
			for _, follow := range []bool{false, true} {
				p := &daProject{name: fmt.Sprintf("c17a%03d_rnd_%s", 4+2*x+map[bool]int{true: 1}[follow], sfx(funcSyn, follow)), shapes: sh, funcSyn: funcSyn, follow: follow, cfg: cfg,
					opts: opts, modelPkg: modelPkg, resolver: res, kind: "random"}
				if err := p.write(root); err != nil {
					fail(err)
				}
			}
		}
	}
}
