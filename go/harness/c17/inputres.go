package main

import (
	"bufio"
	"fmt"
	"os"
	"path/filepath"
	"sort"
	"strings"

	"verifharness/internal/rng"
)

// Generator dimension "INPUT OBJECTS WITH FIELD RESOLVERS" (projects c17i*), added after the miss seeded/C17-change8.
// A field of an INPUT object can be a resolver (`@goField(forceResolver: true)` on the input field, or
// `models: <Input>: fields: <f>: resolver: true`): `unmarshalInput<Input>` (codegen/input.gotpl) then calls
// `ec.resolvers.<Input>().<Field>(ctx, &it, data)`, the executor declares `type <Input>Resolver interface` and lists
// `<Input>() <Input>Resolver` in `ResolverRoot` - which exists TWICE, once per exec layout (generated!.gotpl for
// single-file, root_.gotpl for follow-schema) - and resolvergen / stubgen implement it. Every other project family
// marked fields of OBJECTS only, so the `.Inputs` loops of both layouts, the resolver arms of input.gotpl and the input
// halves of resolvergen / stubgen were never generated.
//
// A shape is <name class>.<mark>.<type>[+d]:
//   name class  how the input object is called: cap `Filter` | lower `paging` | under `sort_by` | init `IPRange` |
//               kw `select` (one input object per class; all shapes of a class are fields of that input)
//   mark        dir = `@goField(forceResolver: true)` | cfg = `resolver: true` in gqlgen.yml
//   type        S String | I Int! | O ID | L [String!] | LL [[Int]] | E Kind (enum) | N Extra (an input without
//               resolvers) | R [<Self>!] (self reference) | D Int = 3 (default value) | X the NEXT class's input (an
//               input with resolvers reached through a resolver field)
//   +d          a custom INPUT_FIELD_DEFINITION directive on the field (the ImplDirectives arm of input.gotpl)
// Options (corpus, comma separated): mutation (the inputs are also Mutation arguments), nested (reached only through a
// wrapper input), files (inputs spread over two schema files), extend (`extend input` adds a resolver field in another
// file), objres (an OBJECT field resolver beside them), or any boolean gqlgen.yml option (`omit_resolver_fields`, …).
// Every project is written for both exec layouts and both template flavours (method / function syntax).

type inShape struct {
	class, mark, typ string
	dir              bool
}

var inClasses = []string{"cap", "lower", "under", "init", "kw"}
var inClassName = map[string]string{"cap": "Filter", "lower": "paging", "under": "sort_by", "init": "IPRange", "kw": "select"}
var inMarks = []string{"dir", "cfg"}
var inTypes = []string{"S", "I", "O", "L", "LL", "E", "N", "R", "D", "X"}
var inFieldNames = []string{"tag", "limit", "ip_addr", "type", "data", "obj", "names", "self", "kind", "extra", "ctx", "it", "ok", "err", "v"}

type inProject struct {
	name     string
	shapes   []inShape
	opts     map[string]bool
	funcSyn  bool
	follow   bool
	cfg      map[string]string
	modelPkg bool
	resolver string // none | single | follow
	kind     string
}

func parseInShape(s string) (inShape, error) {
	sh := inShape{}
	if strings.HasSuffix(s, "+d") {
		sh.dir = true
		s = strings.TrimSuffix(s, "+d")
	}
	fs := strings.Split(s, ".")
	if len(fs) != 3 {
		return sh, fmt.Errorf("shape %q: want <name class>.<mark>.<type>[+d]", s)
	}
	sh.class, sh.mark, sh.typ = fs[0], fs[1], fs[2]
	has := func(xs []string, x string) bool {
		for _, y := range xs {
			if y == x {
				return true
			}
		}
		return false
	}
	if !has(inClasses, sh.class) || !has(inMarks, sh.mark) || !has(inTypes, sh.typ) {
		return sh, fmt.Errorf("shape %q: unknown name class, mark or type", s)
	}
	return sh, nil
}

func (s inShape) String() string {
	return s.class + "." + s.mark + "." + s.typ + map[bool]string{true: "+d"}[s.dir]
}

func (p *inProject) files() (files map[string]string, order []string, yml string) {
	// which classes occur, in catalogue order
	var classes []string
	byClass := map[string][]inShape{}
	for _, s := range p.shapes {
		if _, ok := byClass[s.class]; !ok {
			classes = append(classes, s.class)
		}
		byClass[s.class] = append(byClass[s.class], s)
	}
	sort.Slice(classes, func(i, j int) bool { return idxOf(inClasses, classes[i]) < idxOf(inClasses, classes[j]) })
	next := func(c string) string { // the next class that occurs (cyclic)
		i := idxOf(classes, c)
		return classes[(i+1)%len(classes)]
	}
	nfiles := 1
	if p.opts["files"] || p.opts["extend"] {
		nfiles = 2
	}
	bodies := make([]strings.Builder, nfiles)
	var marks []string
	bodies[0].WriteString("directive @goField(forceResolver: Boolean, name: String, omittable: Boolean, type: String) on INPUT_FIELD_DEFINITION | FIELD_DEFINITION\n")
	bodies[0].WriteString("directive @tag(v: String) on INPUT_FIELD_DEFINITION | FIELD_DEFINITION | ARGUMENT_DEFINITION\n")
	bodies[0].WriteString("enum Kind { SMALL LARGE }\ninput Extra { note: String  n: [Int!] }\ntype Item { id: ID!  name: String  owner: Item }\n")
	var qf, mf, wf []string
	fi := 0
	for ci, c := range classes {
		in := inClassName[c]
		file := 0
		if p.opts["files"] {
			file = ci % nfiles
		}
		b := &bodies[file]
		fmt.Fprintf(b, "input %s {\n  plain: String\n", in)
		var extFields []string
		for i, s := range byClass[c] {
			fname := inFieldNames[fi%len(inFieldNames)]
			if fi >= len(inFieldNames) {
				fname = fmt.Sprintf("%s%d", fname, fi/len(inFieldNames))
			}
			fi++
			var typ string
			switch s.typ {
			case "S":
				typ = "String"
			case "I":
				typ = "Int!"
			case "O":
				typ = "ID"
			case "L":
				typ = "[String!]"
			case "LL":
				typ = "[[Int]]"
			case "E":
				typ = "Kind"
			case "N":
				typ = "Extra"
			case "R":
				typ = "[" + in + "!]"
			case "D":
				typ = "Int = 3"
			case "X":
				typ = inClassName[next(c)]
			}
			line := "  " + fname + ": " + typ
			if s.dir {
				line += ` @tag(v: "x")`
			}
			if s.mark == "dir" {
				line += " @goField(forceResolver: true)"
			} else {
				marks = append(marks, in+"."+fname)
			}
			if p.opts["extend"] && i == len(byClass[c])-1 && i > 0 {
				extFields = append(extFields, line)
				continue
			}
			b.WriteString(line + "\n")
		}
		b.WriteString("}\n")
		if len(extFields) > 0 {
			fmt.Fprintf(&bodies[1], "extend input %s {\n%s\n}\n", in, strings.Join(extFields, "\n"))
		}
		arg := fmt.Sprintf("find_%s(in: %s, many: [%s!]): Int", c, in, in)
		if p.opts["nested"] {
			wf = append(wf, fmt.Sprintf("  %s: %s\n  %s_list: [%s]", c, in, c, in))
		} else {
			qf = append(qf, "  "+arg)
		}
		if p.opts["mutation"] {
			mf = append(mf, fmt.Sprintf("  put_%s(in: %s!): Boolean", c, in))
		}
	}
	if p.opts["nested"] {
		fmt.Fprintf(&bodies[0], "input Wrap {\n%s\n}\n", strings.Join(wf, "\n"))
		qf = append(qf, "  search(w: Wrap!): Int")
	}
	fmt.Fprintf(&bodies[0], "type Query {\n  item(id: ID!): Item\n%s\n}\n", strings.Join(qf, "\n"))
	if len(mf) > 0 {
		fmt.Fprintf(&bodies[nfiles-1], "type Mutation {\n%s\n}\n", strings.Join(mf, "\n"))
	}
	if p.opts["objres"] {
		marks = append(marks, "Item.owner")
	}
	names := []string{"schema.graphql", "inputs_ext.graphql"}
	files = map[string]string{}
	for i := 0; i < nfiles; i++ {
		if bodies[i].Len() == 0 {
			bodies[i].WriteString("extend type Query { other: Int }\n")
		}
		files[names[i]] = bodies[i].String()
		order = append(order, names[i])
	}

	var y strings.Builder
	y.WriteString("schema:\n")
	for _, n := range order {
		fmt.Fprintf(&y, "  - %s\n", n)
	}
	y.WriteString("exec:\n")
	if p.follow {
		fmt.Fprintf(&y, "  layout: follow-schema\n  dir: .\n  package: %s\n", p.name)
	} else {
		y.WriteString("  filename: generated.go\n")
	}
	y.WriteString("model:\n")
	if p.modelPkg {
		y.WriteString("  filename: model/models_gen.go\n  package: model\n")
	} else {
		y.WriteString("  filename: models_gen.go\n")
	}
	switch p.resolver {
	case "single":
		y.WriteString("resolver:\n  filename: res/resolver.go\n  package: res\n  type: Resolver\n")
	case "follow":
		y.WriteString("resolver:\n  layout: follow-schema\n  dir: res\n  package: res\n")
	case "same": // resolvers inside the exec package (the `gqlgen init` layout)
		y.WriteString("resolver:\n  layout: follow-schema\n  dir: .\n")
	}
	y.WriteString("skip_mod_tidy: true\n")
	fmt.Fprintf(&y, "use_function_syntax_for_execution_context: %v\n", p.funcSyn)
	keys := make([]string, 0, len(p.cfg))
	for k := range p.cfg {
		keys = append(keys, k)
	}
	sort.Strings(keys)
	for _, k := range keys {
		fmt.Fprintf(&y, "%s: %s\n", k, p.cfg[k])
	}
	if len(marks) > 0 {
		y.WriteString("models:\n")
		byType := map[string][]string{}
		var torder []string
		for _, m := range marks {
			i := strings.Index(m, ".")
			if _, ok := byType[m[:i]]; !ok {
				torder = append(torder, m[:i])
			}
			byType[m[:i]] = append(byType[m[:i]], m[i+1:])
		}
		for _, t := range torder {
			fmt.Fprintf(&y, "  %s:\n    fields:\n", t)
			for _, f := range byType[t] {
				fmt.Fprintf(&y, "      %s:\n        resolver: true\n", f)
			}
		}
	}
	yml = y.String()
	return
}

func idxOf(xs []string, x string) int {
	for i, y := range xs {
		if y == x {
			return i
		}
	}
	return -1
}

func (p *inProject) write(root string) error {
	d := filepath.Join(root, p.name)
	if err := os.MkdirAll(d, 0o755); err != nil {
		return err
	}
	files, order, yml := p.files()
	for _, n := range order {
		if err := os.WriteFile(filepath.Join(d, n), []byte(files[n]), 0o644); err != nil {
			return err
		}
	}
	if err := os.WriteFile(filepath.Join(d, "gqlgen.yml"), []byte(yml), 0o644); err != nil {
		return err
	}
	var sh, os_ []string
	classes := map[string]bool{}
	for _, s := range p.shapes {
		sh = append(sh, s.String())
		classes[s.class] = true
	}
	for k, v := range p.opts {
		if v {
			os_ = append(os_, k)
		}
	}
	sort.Strings(os_)
	var cl []string
	for _, c := range inClasses {
		if classes[c] {
			cl = append(cl, c)
		}
	}
	// inputshapes.tsv: what the project exercises (read by checks/c17.py for the failure shape / evidence)
	meta := fmt.Sprintf("flavour\t%s\nlayout\t%s\nresolver\t%s\noptions\t%s\nclasses\t%s\nshapes\t%s\n", map[bool]string{true: "function", false: "method"}[p.funcSyn],
		map[bool]string{true: "follow-schema", false: "single-file"}[p.follow], p.resolver, strings.Join(os_, ","), strings.Join(cl, " "), strings.Join(sh, " "))
	if err := os.WriteFile(filepath.Join(d, "inputshapes.tsv"), []byte(meta), 0o644); err != nil {
		return err
	}
	fmt.Fprintf(out, "project\t%s\tinput-field-resolvers %s flavour=%v follow=%v resolver=%s shapes=%d\n", p.name, p.kind, p.funcSyn, p.follow, p.resolver, len(p.shapes))
	return nil
}

func writeInputRes(root string, seed uint64, tier, corpus string) {
	r := rng.New(seed ^ 0x1297E5)
	fail := func(err error) {
		fmt.Fprintln(os.Stderr, err)
		out.Flush()
		os.Exit(1)
	}
	isBoolOpt := func(o string) bool { return idxOf(boolOptions, o) >= 0 }
	resolvers := []string{"follow", "single", "same", "none"}
	// ---- directed corpus: <name> <options|-> <shape> ...
	if corpus != "" {
		f, err := os.Open(corpus)
		if err != nil {
			fail(err)
		}
		sc := bufio.NewScanner(f)
		idx := 0
		for sc.Scan() {
			line := strings.TrimSpace(sc.Text())
			if line == "" || strings.HasPrefix(line, "#") {
				continue
			}
			fs := strings.Fields(line)
			if len(fs) < 3 {
				fail(fmt.Errorf("input corpus line %q: want `<name> <options|-> <shape>...`", line))
			}
			opts := map[string]bool{}
			cfg := map[string]string{}
			if fs[1] != "-" {
				for _, o := range strings.Split(fs[1], ",") {
					switch {
					case o == "mutation", o == "nested", o == "files", o == "extend", o == "objres":
						opts[o] = true
					case isBoolOpt(o):
						cfg[o] = "true"
					default:
						fail(fmt.Errorf("input corpus line %q: unknown option %s", line, o))
					}
				}
			}
			var sh []inShape
			for _, s := range fs[2:] {
				x, err := parseInShape(s)
				if err != nil {
					fail(err)
				}
				sh = append(sh, x)
			}
			for k := 0; k < 4; k++ {
				funcSyn, follow := k >= 2, k == 1 || k == 2
				// quick: both exec layouts of every entry, the flavour alternating with the entry; thorough: all four
				if tier != "thorough" && k%2 != idx%2 {
					continue
				}
				p := &inProject{name: fmt.Sprintf("c17i_%s_%s%s", fs[0], map[bool]string{true: "f", false: "m"}[funcSyn], map[bool]string{true: "fs", false: "sf"}[follow]),
					shapes: sh, opts: opts, funcSyn: funcSyn, follow: follow, cfg: cfg, modelPkg: (idx+k)%2 == 0, resolver: resolvers[(idx+k)%len(resolvers)], kind: "directed"}
				if err := p.write(root); err != nil {
					fail(err)
				}
			}
			idx++
		}
		f.Close()
	}
	// ---- seeded cover: name class x mark x type x (with / without a directive) in each of the four
	// (flavour x layout) projects; the boolean options spread over the family, resolver layout and model placement seeded
	var all []inShape
	for _, c := range inClasses {
		for _, m := range inMarks {
			for _, t := range inTypes {
				for _, d := range []bool{false, true} {
					all = append(all, inShape{c, m, t, d})
				}
			}
		}
	}
	// quick: every name class x type in each project, the mark and the directive bit given by a Latin pattern so that
	// every (type, mark, directive) triple occurs in EACH project (50 fields); thorough: all 200 shapes in each project
	coverFor := func(k int) []inShape {
		if tier == "thorough" {
			return all
		}
		var sh []inShape
		for ci, c := range inClasses {
			for ti, t := range inTypes {
				sh = append(sh, inShape{c, inMarks[(ci+ti+k)%2], t, (ci/2+ti+k/2)%2 == 1})
			}
		}
		return sh
	}
	off := r.Below(2)
	rot := r.Below(4)
	for k := 0; k < 4; k++ {
		funcSyn, follow := k >= 2, k == 1 || k == 2
		p := &inProject{name: fmt.Sprintf("c17i%03d", k), shapes: coverFor(k), funcSyn: funcSyn, follow: follow, cfg: spreadOptions(k, off),
			opts:     map[string]bool{"mutation": r.Bool(), "nested": k%2 == off, "files": true, "extend": r.Bool(), "objres": r.Bool()},
			modelPkg: r.Bool(), resolver: resolvers[(k+rot)%4], kind: "cover"}
		if err := p.write(root); err != nil {
			fail(err)
		}
	}
	// ---- thorough: random subsets x random configuration points, as a layout pair each
	if tier == "thorough" {
		for x := 0; x < 10; x++ {
			n := 1 + r.Below(10)
			var sh []inShape
			for j := 0; j < n; j++ {
				sh = append(sh, all[r.Below(len(all))])
			}
			cfg := map[string]string{}
			for _, o := range boolOptions {
				switch r.Below(3) {
				case 0:
					cfg[o] = "true"
				case 1:
					cfg[o] = "false"
				}
			}
			opts := map[string]bool{"mutation": r.Bool(), "nested": r.Below(3) == 0, "files": r.Bool(), "extend": r.Bool(), "objres": r.Bool()}
			funcSyn, modelPkg, res := r.Bool(), r.Bool(), resolvers[r.Below(4)]
			for _, follow := range []bool{false, true} {
				p := &inProject{name: fmt.Sprintf("c17i%03d", 4+2*x+map[bool]int{true: 1}[follow]), shapes: sh, funcSyn: funcSyn, follow: follow, cfg: cfg,
					opts: opts, modelPkg: modelPkg, resolver: res, kind: "random"}
				if err := p.write(root); err != nil {
					fail(err)
				}
			}
		}
	}
}
