package main

import (
	"bufio"
	"fmt"
	"os"
	"path/filepath"
	"sort"
	"strings"

	"verifharness/internal/rng"
)

// Generator dimension "WHICH TYPE A FIELD HAS: a root object" (projects c17t*), added after the miss
// seeded/C17-change4. A field whose named type is Query / Mutation / Subscription takes its own branch of
// codegen/field.gotpl (`$field.TypeReference.IsRoot`: no resolver call, a fresh root value is marshalled) and of
// codegen/type.gotpl (`$type.IsRoot`: the marshal function delegates to `_Query` / `_Mutation` / `_Subscription`);
// each branch exists once per template flavour (methods on *executionContext / free functions taking ec). The
// random grammar of schemas.go used to pick field types among scalars, enums, objects, interfaces and unions only,
// so neither flavour of these branches was ever generated.
//
// A shape is <holder>.<type>: the type that carries the field x the field's type written over the letters
// Q / M / S (e.g. `payload.Q`, `query.[Q!]!`, `iface.[[M]]`). Holders: payload (a generated model: the Relay
// mutation payload convention), query / mutation / subscription (a root field: self reference or root to root),
// iface (an interface field, repeated by its implementor), ext (an `extend type` block in a second file), edge (a
// model reached through a list). Every project is written for BOTH template flavours and both exec layouts; the
// remaining boolean options are spread so that each of them meets each flavour with both values.

type rootShape struct{ holder, typ string }

var rootHolders = []string{"payload", "query", "mutation", "iface", "ext", "edge"}
var rootWrappers = []string{"R", "R!", "[R]", "[R!]", "[R]!", "[R!]!"}
var rootDeep = []string{"[[R]]", "[[R!]!]!", "[[R]!]", "[[R!]]!"}

// boolean options of the configuration space (the same list as genProject); omit_root_models is handled apart:
// with a field of a root type it is known finding F17j (directed project only).
var boolOptions = []string{"omit_slice_element_pointers", "omit_getters", "omit_interface_checks", "omit_complexity", "omit_gqlgen_file_notice",
	"omit_gqlgen_version_in_file_notice", "omit_resolver_fields", "omit_panic_handler",
	"call_argument_directives_with_null", "struct_fields_always_pointers", "return_pointers_in_unmarshalinput", "resolvers_always_return_pointers",
	"nullable_input_omittable", "enable_model_json_omitempty_tag", "enable_model_json_omitzero_tag"}

type rootProject struct {
	name     string
	shapes   []rootShape
	opts     map[string]bool // rename | args | resolver | omit_root_models | directive
	funcSyn  bool
	follow   bool
	cfg      map[string]string
	modelPkg bool
	resolver string // single | follow
	kind     string
}

func rootName(letter byte, rename bool) string {
	switch letter {
	case 'Q':
		if rename {
			return "RootQ"
		}
		return "Query"
	case 'M':
		if rename {
			return "RootM"
		}
		return "Mutation"
	default:
		if rename {
			return "RootS"
		}
		return "Subscription"
	}
}

func (p *rootProject) gqlType(t string) string {
	var b strings.Builder
	for i := 0; i < len(t); i++ {
		switch t[i] {
		case 'Q', 'M', 'S':
			b.WriteString(rootName(t[i], p.opts["rename"]))
		default:
			b.WriteByte(t[i])
		}
	}
	return b.String()
}

func rootLetter(t string) byte {
	for i := 0; i < len(t); i++ {
		if t[i] == 'Q' || t[i] == 'M' || t[i] == 'S' {
			return t[i]
		}
	}
	return 'Q'
}

// files renders the schema (one or two files) and the gqlgen.yml of the project.
func (p *rootProject) files() (schema, ext, yml string) {
	rename := p.opts["rename"]
	fields := map[string][]string{}
	var marks []string // <Type>.<field> to be configured as resolver: true
	used := map[string]bool{}
	needRoot := map[byte]bool{'Q': true}
	for i, s := range p.shapes {
		l := rootLetter(s.typ)
		needRoot[l] = true
		base := map[byte]string{'Q': "query", 'M': "mutation", 'S': "subscription"}[l]
		// the GraphQL type that ends up carrying the field (payload and ext share Payload)
		carrier := map[string]string{"payload": "Payload", "ext": "Payload", "edge": "Edge", "iface": "Node"}[s.holder]
		if carrier == "" {
			carrier = s.holder
		}
		name := base
		if used[carrier+"."+name] || s.typ != string(l) {
			name = fmt.Sprintf("%s%d", base, i)
		}
		used[carrier+"."+name] = true
		f := name
		if p.opts["args"] && i%2 == 0 {
			f += "(id: ID!, n: [Int!] = [1, 2], in: RefIn)"
		}
		f += ": " + p.gqlType(s.typ)
		if p.opts["directive"] && i%3 == 0 {
			f += ` @tag(v: "x")`
		}
		if i%5 == 4 {
			f += " @deprecated"
		}
		fields[s.holder] = append(fields[s.holder], f)
		if p.opts["resolver"] {
			switch s.holder {
			case "payload", "ext":
				marks = append(marks, "Payload."+name)
			case "edge":
				marks = append(marks, "Edge."+name)
			case "iface":
				// an interface field configured as a resolver + omit_resolver_fields is known finding F17d
				if p.cfg["omit_resolver_fields"] != "true" {
					marks = append(marks, "Item."+name)
				}
			}
		}
		switch s.holder {
		case "mutation":
			needRoot['M'] = true
		case "subscription":
			needRoot['S'] = true
		}
	}
	// the Relay convention needs a mutation that returns the payload
	if len(fields["payload"])+len(fields["ext"])+len(fields["edge"]) > 0 {
		needRoot['M'] = true
	}
	var b strings.Builder
	if rename {
		b.WriteString("schema {\n  query: RootQ\n")
		if needRoot['M'] {
			b.WriteString("  mutation: RootM\n")
		}
		if needRoot['S'] {
			b.WriteString("  subscription: RootS\n")
		}
		b.WriteString("}\n")
	}
	if p.opts["directive"] {
		b.WriteString("directive @tag(v: String) on FIELD_DEFINITION | QUERY | MUTATION | FIELD\n")
	}
	if p.opts["args"] {
		b.WriteString("input RefIn { a: Int  b: [String!] }\n")
	}
	block := func(head string, fs []string) {
		b.WriteString(head + " {\n")
		for _, f := range fs {
			b.WriteString("  " + f + "\n")
		}
		b.WriteString("}\n")
	}
	q := append([]string{"ping: Int", "payload: Payload", "edges(first: Int): [Edge!]", "node(id: ID!): Node"}, fields["query"]...)
	block("type "+rootName('Q', rename), q)
	if needRoot['M'] {
		block("type "+rootName('M', rename), append([]string{"act(x: Int): Payload"}, fields["mutation"]...))
	}
	if needRoot['S'] {
		block("type "+rootName('S', rename), append([]string{"tick: Int"}, fields["subscription"]...))
	}
	block("type Payload", append([]string{"ok: Boolean", "clientMutationId: String"}, fields["payload"]...))
	block("type Edge", append([]string{"cursor: ID!", "payload: Payload"}, fields["edge"]...))
	block("interface Node", append([]string{"id: ID!"}, fields["iface"]...))
	block("type Item implements Node", append(append([]string{"id: ID!"}, fields["iface"]...), "extra: Int"))
	schema = b.String()
	if len(fields["ext"]) > 0 {
		var e strings.Builder
		e.WriteString("extend type Payload {\n")
		for _, f := range fields["ext"] {
			e.WriteString("  " + f + "\n")
		}
		e.WriteString("}\n")
		ext = e.String()
	}

	var y strings.Builder
	y.WriteString("schema:\n  - schema.graphql\n")
	if ext != "" {
		y.WriteString("  - type_ext.graphql\n")
	}
	y.WriteString("exec:\n")
	if p.follow {
		fmt.Fprintf(&y, "  layout: follow-schema\n  dir: .\n  package: %s\n", p.name)
	} else {
		y.WriteString("  filename: generated.go\n")
	}
	y.WriteString("model:\n")
	if p.modelPkg {
		y.WriteString("  filename: model/models_gen.go\n  package: model\n")
	} else {
		y.WriteString("  filename: models_gen.go\n")
	}
	if p.resolver == "single" {
		y.WriteString("resolver:\n  filename: res/resolver.go\n  package: res\n  type: Resolver\n")
	} else {
		y.WriteString("resolver:\n  layout: follow-schema\n  dir: res\n  package: res\n")
	}
	y.WriteString("skip_mod_tidy: true\n")
	fmt.Fprintf(&y, "use_function_syntax_for_execution_context: %v\n", p.funcSyn)
	if p.opts["omit_root_models"] {
		y.WriteString("omit_root_models: true\n")
	}
	keys := make([]string, 0, len(p.cfg))
	for k := range p.cfg {
		keys = append(keys, k)
	}
	sort.Strings(keys)
	for _, k := range keys {
		fmt.Fprintf(&y, "%s: %s\n", k, p.cfg[k])
	}
	if len(marks) > 0 {
		y.WriteString("models:\n")
		byType := map[string][]string{}
		var order []string
		for _, m := range marks {
			i := strings.Index(m, ".")
			if _, ok := byType[m[:i]]; !ok {
				order = append(order, m[:i])
			}
			byType[m[:i]] = append(byType[m[:i]], m[i+1:])
		}
		for _, t := range order {
			fmt.Fprintf(&y, "  %s:\n    fields:\n", t)
			for _, f := range byType[t] {
				fmt.Fprintf(&y, "      %s:\n        resolver: true\n", f)
			}
		}
	}
	yml = y.String()
	return
}

func (p *rootProject) write(root string) error {
	d := filepath.Join(root, p.name)
	if err := os.MkdirAll(d, 0o755); err != nil {
		return err
	}
	schema, ext, yml := p.files()
	if err := os.WriteFile(filepath.Join(d, "schema.graphql"), []byte(schema), 0o644); err != nil {
		return err
	}
	if ext != "" {
		if err := os.WriteFile(filepath.Join(d, "type_ext.graphql"), []byte(ext), 0o644); err != nil {
			return err
		}
	}
	if err := os.WriteFile(filepath.Join(d, "gqlgen.yml"), []byte(yml), 0o644); err != nil {
		return err
	}
	var sh []string
	for _, s := range p.shapes {
		sh = append(sh, s.holder+"."+s.typ)
	}
	var os_ []string
	for k, v := range p.opts {
		if v {
			os_ = append(os_, k)
		}
	}
	sort.Strings(os_)
	// rootshapes.tsv: what the project exercises (read by checks/c17.py for the failure shape / evidence)
	meta := fmt.Sprintf("flavour\t%s\nlayout\t%s\noptions\t%s\nshapes\t%s\n", map[bool]string{true: "function", false: "method"}[p.funcSyn],
		map[bool]string{true: "follow-schema", false: "single-file"}[p.follow], strings.Join(os_, ","), strings.Join(sh, " "))
	if err := os.WriteFile(filepath.Join(d, "rootshapes.tsv"), []byte(meta), 0o644); err != nil {
		return err
	}
	fmt.Fprintf(out, "project\t%s\troot-typed-fields %s flavour=%v follow=%v shapes=%d\n", p.name, p.kind, p.funcSyn, p.follow, len(p.shapes))
	return nil
}

func parseRootShape(s string) (rootShape, error) {
	i := strings.Index(s, ".")
	if i < 0 {
		return rootShape{}, fmt.Errorf("shape %q: want <holder>.<type>", s)
	}
	h, t := s[:i], s[i+1:]
	ok := h == "subscription"
	for _, x := range rootHolders {
		ok = ok || x == h
	}
	if !ok || strings.Trim(t, "[]!QMS") != "" || strings.Count(t, "Q")+strings.Count(t, "M")+strings.Count(t, "S") != 1 {
		return rootShape{}, fmt.Errorf("shape %q: unknown holder or malformed type", s)
	}
	return rootShape{h, t}, nil
}

// spreadOptions gives project k of a family its boolean options: option i is true when (i+k+off) is even, so in
// every family of four (flavour x layout) each option meets each flavour with both values.
func spreadOptions(k, off int) map[string]string {
	cfg := map[string]string{}
	for i, o := range boolOptions {
		if (i+k+off)%2 == 0 {
			cfg[o] = "true"
		} else {
			cfg[o] = "false"
		}
	}
	return cfg
}

func writeRootRefs(root string, seed uint64, tier, corpus string) {
	r := rng.New(seed ^ 0x7007EF5)
	fail := func(err error) {
		fmt.Fprintln(os.Stderr, err)
		out.Flush()
		os.Exit(1)
	}
	// ---- directed corpus: <name> <options|-> <shape> ...   each entry in both flavours (and both layouts)
	if corpus != "" {
		f, err := os.Open(corpus)
		if err != nil {
			fail(err)
		}
		sc := bufio.NewScanner(f)
		idx := 0
		for sc.Scan() {
			line := strings.TrimSpace(sc.Text())
			if line == "" || strings.HasPrefix(line, "#") {
				continue
			}
			fs := strings.Fields(line)
			if len(fs) < 3 {
				fail(fmt.Errorf("corpus line %q: want `<name> <options|-> <shape>...`", line))
			}
			opts := map[string]bool{}
			if fs[1] != "-" {
				for _, o := range strings.Split(fs[1], ",") {
					switch o {
					case "rename", "args", "resolver", "omit_root_models", "directive":
						opts[o] = true
					default:
						fail(fmt.Errorf("corpus line %q: unknown option %s", line, o))
					}
				}
			}
			var sh []rootShape
			for _, s := range fs[2:] {
				x, err := parseRootShape(s)
				if err != nil {
					fail(err)
				}
				sh = append(sh, x)
			}
			for k := 0; k < 4; k++ {
				funcSyn, follow := k >= 2, k == 1 || k == 2
				// quick: both flavours of every entry, the layout alternating with the entry; thorough: all four
				if tier != "thorough" && follow != ((idx+k/2)%2 == 1) {
					continue
				}
				p := &rootProject{name: fmt.Sprintf("c17t_%s_%s%s", fs[0], map[bool]string{true: "f", false: "m"}[funcSyn], map[bool]string{true: "fs", false: "sf"}[follow]),
					shapes: sh, opts: opts, funcSyn: funcSyn, follow: follow, cfg: map[string]string{}, modelPkg: follow, resolver: map[bool]string{true: "single", false: "follow"}[follow], kind: "directed"}
				if err := p.write(root); err != nil {
					fail(err)
				}
			}
			idx++
		}
		f.Close()
	}
	// ---- seeded cover: EVERY holder x root x wrapper in each of the four (flavour x layout) projects, one depth-2
	// form per root (F17f: deeper levels must agree per base type), the boolean options spread over the family
	var all []rootShape
	deep := map[byte]string{}
	for _, l := range []byte("QMS") {
		deep[l] = rootDeep[r.Below(len(rootDeep))]
	}
	for _, h := range rootHolders {
		for _, l := range []byte("QMS") {
			for _, w := range rootWrappers {
				all = append(all, rootShape{h, strings.ReplaceAll(w, "R", string(l))})
			}
		}
	}
	for _, l := range []byte("QMS") {
		all = append(all, rootShape{rootHolders[r.Below(len(rootHolders))], strings.ReplaceAll(deep[l], "R", string(l))})
	}
	off := r.Below(2)
	for k := 0; k < 4; k++ {
		funcSyn, follow := k >= 2, k == 1 || k == 2
		p := &rootProject{name: fmt.Sprintf("c17t%03d", k), shapes: all, funcSyn: funcSyn, follow: follow, cfg: spreadOptions(k, off),
			opts: map[string]bool{"args": r.Bool(), "resolver": k%2 == off, "rename": false, "directive": r.Bool()},
			modelPkg: r.Bool(), resolver: pick(r, []string{"single", "follow"}), kind: "cover"}
		if err := p.write(root); err != nil {
			fail(err)
		}
	}
	// ---- thorough: random subsets x random configuration points, always as a flavour pair
	if tier == "thorough" {
		for x := 0; x < 10; x++ {
			n := 1 + r.Below(8)
			var sh []rootShape
			dl := map[byte]bool{}
			for j := 0; j < n; j++ {
				s := all[r.Below(len(all))]
				if strings.HasPrefix(s.typ, "[[") {
					if dl[rootLetter(s.typ)] {
						continue
					}
					dl[rootLetter(s.typ)] = true
				}
				sh = append(sh, s)
			}
			if len(sh) == 0 {
				sh = []rootShape{{"payload", "Q"}}
			}
			cfg := map[string]string{}
			for _, o := range boolOptions {
				switch r.Below(3) {
				case 0:
					cfg[o] = "true"
				case 1:
					cfg[o] = "false"
				}
			}
			opts := map[string]bool{"args": r.Bool(), "resolver": r.Bool(), "rename": r.Below(3) == 0, "directive": r.Bool()}
			follow, modelPkg, res := r.Bool(), r.Bool(), pick(r, []string{"single", "follow"})
			for _, funcSyn := range []bool{false, true} {
				p := &rootProject{name: fmt.Sprintf("c17t%03d", 4+2*x+map[bool]int{true: 1}[funcSyn]), shapes: sh, funcSyn: funcSyn, follow: follow, cfg: cfg,
					opts: opts, modelPkg: modelPkg, resolver: res, kind: "random"}
				if err := p.write(root); err != nil {
					fail(err)
				}
			}
		}
	}
}
