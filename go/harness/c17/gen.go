package main

import (
	"fmt"
	"os"
	"path/filepath"
	"runtime/debug"

	"github.com/99designs/gqlgen/api"
	"github.com/99designs/gqlgen/codegen/config"
	"github.com/99designs/gqlgen/plugin/stubgen"
)

// runGen runs the real generator in dir (reads dir/gqlgen.yml). Exit codes: 0 generated (and, unless
// skip_validation, type-checked by the generator's own packages.Load validation), 3 api.Generate returned an
// error, 4 it panicked, 2 the project could not be loaded.
func runGen(dir string) (code int) {
	abs, err := filepath.Abs(dir)
	if err != nil {
		fmt.Fprintln(os.Stderr, "gen:", err)
		return 2
	}
	if err := os.Chdir(abs); err != nil {
		fmt.Fprintln(os.Stderr, "gen:", err)
		return 2
	}
	defer func() {
		if r := recover(); r != nil {
			fmt.Fprintf(os.Stderr, "PANIC: %v\n%s\n", r, debug.Stack())
			code = 4
		}
	}()
	cfg, err := config.LoadConfig("gqlgen.yml")
	if err != nil {
		fmt.Fprintln(os.Stderr, "CONFIG-ERROR:", err)
		return 3
	}
	var opts []api.Option
	if _, err := os.Stat("nostub"); err != nil {
		stubPath := filepath.Join(abs, filepath.Dir(cfg.Exec.Filename), "stub.go")
		if cfg.Exec.Layout == config.ExecLayoutFollowSchema {
			stubPath = filepath.Join(abs, cfg.Exec.DirName, "stub.go")
		}
		opts = append(opts, api.AddPlugin(stubgen.New(stubPath, "Stub")))
	}
	if err := api.Generate(cfg, opts...); err != nil {
		fmt.Fprintln(os.Stderr, "GENERATE-ERROR:", err)
		return 3
	}
	return 0
}
