// Harness for C17 (code generation succeeds / identifiers valid and collision-free).
//
//	-mode names   real templates.ToGo / ToGoPrivate / ToGoModelName (registry reset through the verif hook) /
//	              TypeIdentifier on directed + exhaustive-small + seeded random names; one TSV line per case
//	-mode schemas writes <n> seeded random gqlgen projects (schema files + gqlgen.yml) under -out
//	-mode gen     runs the REAL api.Generate (+ plugin/stubgen) in -dir (own process: chdir + global registry)
//	              + the "bindings" projects (bindings.go): scalars / enums bound to hand-written Go types
//	              + the "root-typed field" projects (rootrefs.go): fields whose type is Query / Mutation /
//	                Subscription, every shape in both template flavours (method / function syntax)
//	-mode typerefs real config.TypeReference predicates / Elem() chains on GraphQL type x bound Go type
//	-mode pkgnames the package name the REAL Check() of the exec / model / resolver sections derives from the output
//	              directory when `package:` is omitted, on really created directories (name x state), layouts.go;
//	              -mode schemas -layouts writes the "project layout" projects c17l*
//	              -mode schemas -inputres writes the "input objects with field resolvers" projects c17i* (inputres.go)
//	              -mode schemas -schemalocs writes the "where the schema files live" projects c17s* (schemaloc.go)
//	              -mode schemas -filekinds writes the "what a schema file contains" projects c17f* (filekinds.go)
//	              -mode schemas -dirargs writes the "how directive arguments are given" projects c17a* (dirargs.go)
//	              -mode schemas -regen writes the "state of the project directory when generation starts" projects c17g*
//	                (regen.go): a first step and, in step2/, the files of a second generation in the same directory
//	-mode decls   go/parser over the files generated in -dir: declared identifiers by scope, and the schema
//	              summary line for the Lean model's `emitted`
//
// bin/check pipes the inputs to the Lean driver (lean/Driver/C17.lean) and compares.
package main

import (
	"bufio"
	"encoding/hex"
	"flag"
	"fmt"
	"os"
)

var out = bufio.NewWriterSize(os.Stdout, 1<<20)

func hx(s string) string {
	if len(s) == 0 {
		return "-"
	}
	return hex.EncodeToString([]byte(s))
}

func main() {
	mode := flag.String("mode", "names", "names | schemas | gen | typerefs | pkgnames | decls")
	tier := flag.String("tier", "quick", "quick | thorough")
	seed := flag.Uint64("seed", 1, "seed")
	dir := flag.String("dir", "", "project directory (gen, decls)")
	outDir := flag.String("out", "", "output directory (schemas)")
	n := flag.Int("n", 8, "number of random projects (schemas)")
	corpus := flag.String("corpus", "", "directed bindings corpus (schemas, with -bindings)")
	withBindings := flag.Bool("bindings", false, "schemas: also write the bindings projects (c17b*)")
	withRootRefs := flag.Bool("rootrefs", false, "schemas: also write the root-typed-field projects (c17t*)")
	rootCorpus := flag.String("rootcorpus", "", "directed root-typed-field corpus (schemas, with -rootrefs)")
	withLayouts := flag.Bool("layouts", false, "schemas: also write the project-layout projects (c17l*)")
	layoutCorpus := flag.String("layoutcorpus", "", "directed project-layout corpus (schemas, with -layouts)")
	withInputRes := flag.Bool("inputres", false, "schemas: also write the input-field-resolver projects (c17i*)")
	inputCorpus := flag.String("inputcorpus", "", "directed input-field-resolver corpus (schemas, with -inputres)")
	withSchemaLocs := flag.Bool("schemalocs", false, "schemas: also write the schema-location projects (c17s*)")
	locCorpus := flag.String("loccorpus", "", "directed schema-location corpus (schemas, with -schemalocs)")
	withFileKinds := flag.Bool("filekinds", false, "schemas: also write the file-contents projects (c17f*)")
	fileCorpus := flag.String("filecorpus", "", "directed file-contents corpus (schemas, with -filekinds)")
	withDirArgs := flag.Bool("dirargs", false, "schemas: also write the directive-argument projects (c17a*)")
	dirArgCorpus := flag.String("dirargcorpus", "", "directed directive-argument corpus (schemas, with -dirargs)")
	withRegen := flag.Bool("regen", false, "schemas: also write the regeneration projects (c17g*: a second step in step2/)")
	regenCorpus := flag.String("regencorpus", "", "directed regeneration corpus (schemas, with -regen)")
	flag.Parse()
	defer out.Flush()
	switch *mode {
	case "names":
		runNames(*tier, *seed)
	case "schemas":
		runSchemas(*outDir, *n, *seed, *tier)
		if *withBindings {
			writeBindings(*outDir, *seed, *tier, *corpus)
		}
		if *withRootRefs {
			writeRootRefs(*outDir, *seed, *tier, *rootCorpus)
		}
		if *withLayouts {
			writeLayouts(*outDir, *seed, *tier, *layoutCorpus)
		}
		if *withInputRes {
			writeInputRes(*outDir, *seed, *tier, *inputCorpus)
		}
		if *withSchemaLocs {
			writeSchemaLocs(*outDir, *seed, *tier, *locCorpus)
		}
		if *withDirArgs {
			writeDirArgs(*outDir, *seed, *tier, *dirArgCorpus)
		}
		if *withRegen {
			writeRegen(*outDir, *seed, *tier, *regenCorpus)
		}
		if *withFileKinds {
			writeFileKinds(*outDir, *seed, *tier, *fileCorpus)
		}
	case "typerefs":
		runTypeRefs(*tier, *seed)
	case "pkgnames":
		runPkgNames(*tier, *seed)
	case "gen":
		code := runGen(*dir)
		out.Flush()
		os.Exit(code)
	case "decls":
		code := runDecls(*dir)
		out.Flush()
		os.Exit(code)
	default:
		fmt.Fprintln(os.Stderr, "unknown mode")
		os.Exit(2)
	}
}
