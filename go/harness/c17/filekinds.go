package main

import (
	"bufio"
	"fmt"
	"os"
	"path/filepath"
	"sort"
	"strings"

	"verifharness/internal/rng"
)

// Generator dimension "WHAT A SCHEMA FILE OF A MULTI-FILE PROJECT CONTAINS" (projects c17f*), added after the miss
// seeded/C17-change9. With `exec.layout: follow-schema` codegen.generatePerSchema distributes the data over one build
// per schema file in four passes (addObjects, addInputs, addInterfaces, addReferencedTypes); each pass creates the
// build of a file it meets first. Which pass creates a file's build is decided by WHAT THE FILE CONTAINS: a file with
// an object is created by the first pass, a file that holds only interfaces / unions by the third, a file that holds
// only enums / scalars by the fourth, a file with only directive definitions / extensions / a schema definition /
// comments by none. Every other project family put at least one object or input into each of its files, so the
// create-if-missing arms of the third and fourth pass never ran.
//
// One fixed universe of definitions (fkUniverse) is PARTITIONED over files: a content class names the definitions that
// move out of the base file `schema.graphql` into a file of their own (`<class>.graphql`):
//   iface     only interfaces (Node, Named implements Node)   node / named  ONE interface each (two such files)
//   union     only unions                                      abstract      interfaces + unions
//   enum      only enums            scalar  only custom scalars              leaf  enums + scalars
//   directive only (type-system) directive definitions         schemadef     only `schema { query: … }`
//   execdir   only a directive on QUERY | MUTATION | FIELD_DEFINITION (directed projects only: finding F17l)
//   execdir2  an object + a directive on QUERY | FIELD, beside the base file's executable directive (F17m)
//   ext       only extensions (extend type / input / enum / union / interface)
//   extabs    only extensions of abstract types (extend union, extend interface + the implementors' fields)
//   input     only input objects    object  only (non-root) objects          mutation  only the Mutation root
//   query     only the Query root   unused  an interface, a union, an enum and a scalar nothing refers to
//   comment   only a comment        blank   only white space
// x both exec layouts x both template flavours x resolver layout (follow-schema resolvers are per schema file too) x
// where the class files stand in gqlgen.yml's list (before / after the base file, or a glob) x filename_template.
// Options (corpus, comma separated): first (class files listed before schema.graphql), glob (`schema: ["*.graphql"]`),
// template (`filename_template: "{name}.gen.go"`), or any boolean gqlgen.yml option.
//
// filekinds.tsv (read by checks/c17.py) says per schema file whether it DECLARES an object / an input / an interface
// or union / a definition some field, argument or directive argument refers to: the Lean model (Model/PerSchema17.lean
// over the regenerated passes, Gen/BuildGuards.lean) derives from that which `<name>.generated.go` files exist.

type fkDef struct {
	name string
	kind string // object | root | input | iface | union | enum | scalar | directive | ext | extabs | schemadef
	ref  bool   // some field / argument / directive argument has this type (it becomes a ReferencedType)
	text string
}

var fkUniverse = []fkDef{
	{"tag", "directive", false, "directive @tag(v: String = \"t\", n: [Int!]) on FIELD_DEFINITION | ARGUMENT_DEFINITION | INPUT_FIELD_DEFINITION | OBJECT | INTERFACE | UNION | ENUM | INPUT_OBJECT\n"},
	{"auth", "directive", false, "directive @auth(role: Kind = SMALL, at: Time) on FIELD_DEFINITION | QUERY | MUTATION\n"},
	{"audit", "directive", false, "directive @audit(label: String = \"a\") on FIELD | QUERY | SUBSCRIPTION | OBJECT\n"},
	{"schema", "schemadef", false, "schema {\n  query: Query\n  mutation: Mutation\n}\n"},
	{"Query", "root", true, "type Query {\n  item(id: ID!, f: Filter @tag): Item\n  node(id: ID!): Node\n  named: [Named!]\n  shapes(p: Paging): [Shape!]! @auth(role: LARGE)\n  search(text: String!, kind: Kind = SMALL): [SearchResult]\n  color: Color\n  at: Time @tag(v: null)\n  any(v: Any): Any\n}\n"},
	{"Mutation", "root", true, "type Mutation {\n  put(id: ID!, f: Filter!): Item @auth\n  paint(c: Color!): Boolean\n}\n"},
	{"Item", "object", true, "type Item implements Node & Named @tag(n: [1, 2]) {\n  id: ID!\n  name: String\n  kind: Kind\n  at: Time\n  shape: Shape\n}\n"},
	{"Circle", "object", true, "type Circle implements Node {\n  id: ID!\n  r: Float\n}\n"},
	{"Square", "object", true, "type Square @audit {\n  a: Float\n  colour: Color @tag\n}\n"},
	{"Node", "iface", true, "interface Node {\n  id: ID!\n}\n"},
	{"Named", "iface", true, "interface Named implements Node @tag {\n  id: ID!\n  name: String\n}\n"},
	{"Shape", "union", true, "union Shape @tag(v: \"u\") = Circle | Square\n"},
	{"SearchResult", "union", true, "union SearchResult = Item | Circle\n"},
	{"Kind", "enum", true, "enum Kind @tag {\n  SMALL\n  LARGE\n}\n"},
	{"Color", "enum", true, "enum Color {\n  RED\n  GREEN\n}\n"},
	{"Time", "scalar", true, "scalar Time\n"},
	{"Any", "scalar", true, "scalar Any\n"},
	{"Filter", "input", true, "input Filter @tag {\n  kind: Kind = LARGE\n  names: [String!]\n  page: Paging\n  since: Time @tag(n: [])\n}\n"},
	{"Paging", "input", true, "input Paging {\n  first: Int = 10\n  after: ID\n}\n"},
	{"Orphan", "iface", false, "interface Orphan {\n  x: Int\n}\n"},
	{"Lonely", "union", false, "union Lonely = Square\n"},
	{"Spare", "enum", false, "enum Spare {\n  ONE\n}\n"},
	{"Opaque", "scalar", false, "scalar Opaque\n"},
	{"extQuery", "ext", false, "extend type Query {\n  extra(n: Int = 1): Int\n}\n"},
	{"extItem", "ext", false, "extend type Item {\n  more: String @tag\n}\n"},
	{"extKind", "ext", false, "extend enum Kind {\n  HUGE\n}\n"},
	{"extFilter", "ext", false, "extend input Filter {\n  more: Int\n}\n"},
	{"extShape", "extabs", false, "extend union Shape = Item\n"},
	{"extNode", "extabs", false, "extend interface Node {\n  label: String\n}\nextend interface Named {\n  label: String\n}\nextend type Item {\n  label: String\n}\nextend type Circle {\n  label: String\n}\n"},
}

// the definitions a content class moves into its own file
var fkClasses = map[string][]string{
	"iface":     {"Node", "Named"},
	"node":      {"Node"},
	"named":     {"Named"},
	"union":     {"Shape", "SearchResult"},
	"abstract":  {"Node", "Named", "Shape", "SearchResult"},
	"enum":      {"Kind", "Color"},
	"scalar":    {"Time", "Any"},
	"leaf":      {"Kind", "Color", "Time", "Any"},
	"directive": {"tag"},
	// executable directives (QUERY | MUTATION | FIELD ...): their middleware functions are written per schema file
	"execdir":   {"auth"},         // alone in a file that gets no build (known finding F17l)
	"execdir2":  {"audit", "Square"}, // a SECOND file with a build that defines an executable directive (known finding F17m)
	"schemadef": {"schema"},
	"ext":       {"extQuery", "extItem", "extKind", "extFilter"},
	"extabs":    {"extShape", "extNode"},
	"input":     {"Filter", "Paging"},
	"object":    {"Item", "Circle", "Square"},
	"mutation":  {"Mutation"},
	"query":     {"Query"},
	"unused":    {"Orphan", "Lonely", "Spare", "Opaque"},
	"comment":   {},
	"blank":     {},
}
var fkClassOrder = []string{"iface", "node", "named", "union", "abstract", "enum", "scalar", "leaf", "directive", "schemadef", "ext", "extabs",
	"input", "object", "mutation", "query", "unused", "comment", "blank"}

// classes that can stand in ONE project (no definition claimed twice)
var fkCoverSets = [][]string{
	{"node", "named", "union", "enum", "scalar", "directive", "schemadef", "ext", "extabs", "input", "mutation", "query", "unused", "comment", "blank"},
	{"abstract", "leaf", "directive", "ext", "input", "mutation", "unused", "comment"},
	{"iface", "union", "leaf", "extabs", "object", "schemadef", "blank"},
}

type fkProject struct {
	name     string
	classes  []string
	opts     map[string]bool // first | glob | template
	funcSyn  bool
	follow   bool
	cfg      map[string]string
	modelPkg bool
	resolver string // none | single | follow | same
	kind     string
}

func (p *fkProject) files() (files map[string]string, order []string, tsv string, err error) {
	moved := map[string]string{}
	for _, c := range p.classes {
		defs, ok := fkClasses[c]
		if !ok {
			return nil, nil, "", fmt.Errorf("unknown content class %q", c)
		}
		for _, d := range defs {
			if o, dup := moved[d]; dup {
				return nil, nil, "", fmt.Errorf("content classes %s and %s both claim %s", o, c, d)
			}
			moved[d] = c
		}
	}
	files = map[string]string{}
	type flags struct{ o, i, a, r bool }
	fl := map[string]*flags{}
	add := func(file string, d fkDef) {
		files[file] += d.text
		f := fl[file]
		switch d.kind {
		case "object", "root":
			f.o = true
		case "input":
			f.i = true
		case "iface", "union":
			f.a = true
		}
		if d.ref && d.kind != "directive" && d.kind != "ext" && d.kind != "extabs" && d.kind != "schemadef" {
			f.r = true
		}
	}
	base := "schema.graphql"
	fl[base] = &flags{}
	var classFiles []string
	for _, c := range p.classes {
		fn := c + ".graphql"
		fl[fn] = &flags{}
		files[fn] = ""
		classFiles = append(classFiles, fn)
		switch c {
		case "comment":
			files[fn] = "# this file is kept for documentation only\n# type Nothing { x: Int }\n"
		case "blank":
			files[fn] = "\n  \n"
		}
	}
	for _, d := range fkUniverse {
		file := base
		if c, ok := moved[d.name]; ok {
			file = c + ".graphql"
		}
		add(file, d)
	}
	if p.opts["first"] {
		order = append(append(order, classFiles...), base)
	} else {
		order = append(append(order, base), classFiles...)
	}
	var t strings.Builder
	fmt.Fprintf(&t, "flavour\t%s\nlayout\t%s\nresolver\t%s\nclasses\t%s\n", map[bool]string{true: "function", false: "method"}[p.funcSyn],
		map[bool]string{true: "follow-schema", false: "single-file"}[p.follow], p.resolver, strings.Join(p.classes, " "))
	var os_ []string
	for k, v := range p.opts {
		if v {
			os_ = append(os_, k)
		}
	}
	sort.Strings(os_)
	fmt.Fprintf(&t, "options\t%s\n", strings.Join(os_, ","))
	tmpl := "{name}.generated.go"
	if p.opts["template"] {
		tmpl = "{name}.gen.go"
	}
	fmt.Fprintf(&t, "template\t%s\n", tmpl)
	bit := func(b bool) string {
		if b {
			return "1"
		}
		return "0"
	}
	for _, fn := range order {
		cls := "base"
		if fn != base {
			cls = strings.TrimSuffix(fn, ".graphql")
		}
		f := fl[fn]
		fmt.Fprintf(&t, "file\t%s\t%s\t%s%s%s%s\n", fn, cls, bit(f.o), bit(f.i), bit(f.a), bit(f.r))
	}
	return files, order, t.String(), nil
}

func (p *fkProject) write(root string) error {
	d := filepath.Join(root, p.name)
	if err := os.MkdirAll(d, 0o755); err != nil {
		return err
	}
	files, order, tsv, err := p.files()
	if err != nil {
		return err
	}
	for _, n := range order {
		if err := os.WriteFile(filepath.Join(d, n), []byte(files[n]), 0o644); err != nil {
			return err
		}
	}
	var y strings.Builder
	y.WriteString("schema:\n")
	if p.opts["glob"] {
		y.WriteString("  - \"*.graphql\"\n")
	} else {
		for _, n := range order {
			fmt.Fprintf(&y, "  - %s\n", n)
		}
	}
	y.WriteString("exec:\n")
	if p.follow {
		fmt.Fprintf(&y, "  layout: follow-schema\n  dir: .\n  package: %s\n", p.name)
		if p.opts["template"] {
			y.WriteString("  filename_template: \"{name}.gen.go\"\n")
		}
	} else {
		y.WriteString("  filename: generated.go\n")
	}
	y.WriteString("model:\n")
	if p.modelPkg {
		y.WriteString("  filename: model/models_gen.go\n  package: model\n")
	} else {
		y.WriteString("  filename: models_gen.go\n")
	}
	switch p.resolver {
	case "single":
		y.WriteString("resolver:\n  filename: res/resolver.go\n  package: res\n  type: Resolver\n")
	case "follow":
		y.WriteString("resolver:\n  layout: follow-schema\n  dir: res\n  package: res\n")
	case "same":
		y.WriteString("resolver:\n  layout: follow-schema\n  dir: .\n")
	}
	y.WriteString("skip_mod_tidy: true\n")
	fmt.Fprintf(&y, "use_function_syntax_for_execution_context: %v\n", p.funcSyn)
	keys := make([]string, 0, len(p.cfg))
	for k := range p.cfg {
		keys = append(keys, k)
	}
	sort.Strings(keys)
	for _, k := range keys {
		fmt.Fprintf(&y, "%s: %s\n", k, p.cfg[k])
	}
	if err := os.WriteFile(filepath.Join(d, "gqlgen.yml"), []byte(y.String()), 0o644); err != nil {
		return err
	}
	if err := os.WriteFile(filepath.Join(d, "filekinds.tsv"), []byte(tsv), 0o644); err != nil {
		return err
	}
	fmt.Fprintf(out, "project\t%s\tfile-contents %s flavour=%v follow=%v resolver=%s classes=%s\n", p.name, p.kind, p.funcSyn, p.follow, p.resolver, strings.Join(p.classes, ","))
	return nil
}

func writeFileKinds(root string, seed uint64, tier, corpus string) {
	r := rng.New(seed ^ 0xF11E5)
	fail := func(err error) {
		fmt.Fprintln(os.Stderr, err)
		out.Flush()
		os.Exit(1)
	}
	isBoolOpt := func(o string) bool { return idxOf(boolOptions, o) >= 0 }
	resolvers := []string{"follow", "single", "same", "none"}
	sfx := func(funcSyn, follow bool) string {
		return map[bool]string{true: "f", false: "m"}[funcSyn] + map[bool]string{true: "fs", false: "sf"}[follow]
	}
	// ---- directed corpus: <name> <options|-> <class> ...   every entry under BOTH exec layouts
	if corpus != "" {
		f, err := os.Open(corpus)
		if err != nil {
			fail(err)
		}
		sc := bufio.NewScanner(f)
		idx := 0
		for sc.Scan() {
			line := strings.TrimSpace(sc.Text())
			if line == "" || strings.HasPrefix(line, "#") {
				continue
			}
			fs := strings.Fields(line)
			if len(fs) < 3 {
				fail(fmt.Errorf("file-contents corpus line %q: want `<name> <options|-> <class>...`", line))
			}
			opts := map[string]bool{}
			cfg := map[string]string{}
			if fs[1] != "-" {
				for _, o := range strings.Split(fs[1], ",") {
					switch {
					case o == "first", o == "glob", o == "template":
						opts[o] = true
					case isBoolOpt(o):
						cfg[o] = "true"
					default:
						fail(fmt.Errorf("file-contents corpus line %q: unknown option %s", line, o))
					}
				}
			}
			for k := 0; k < 4; k++ {
				funcSyn, follow := k >= 2, k == 1 || k == 2
				// quick: one (flavour, layout) point per entry, follow-schema twice as often; thorough: all four
				if tier != "thorough" && k != []int{1, 2, 0, 1, 2, 3}[idx%6] {
					continue
				}
				p := &fkProject{name: "c17f_" + fs[0] + "_" + sfx(funcSyn, follow), classes: fs[2:], opts: opts, funcSyn: funcSyn, follow: follow, cfg: cfg,
					modelPkg: (idx+k)%2 == 0, resolver: resolvers[(idx+k)%len(resolvers)], kind: "directed"}
				if err := p.write(root); err != nil {
					fail(err)
				}
			}
			idx++
		}
		f.Close()
	}
	// ---- seeded cover 1: every content class ALONE beside the base file, under follow-schema (each file's build is
	// decided on its own, so the failing class is named by the project); flavour, resolver layout, position in the
	// schema list and model placement seeded. thorough: also under single-file.
	rot := r.Below(4)
	off := r.Below(2)
	n := 0
	for ci, c := range fkClassOrder {
		layouts := []bool{true}
		if tier == "thorough" {
			layouts = []bool{true, false}
		}
		for _, follow := range layouts {
			opts := map[string]bool{"first": (ci+off)%2 == 0, "glob": (ci+rot)%5 == 0, "template": follow && (ci+rot)%4 == 1}
			p := &fkProject{name: fmt.Sprintf("c17f%03d_%s", n, c), classes: []string{c}, opts: opts, funcSyn: (ci+off)%2 == 1, follow: follow,
				cfg: map[string]string{}, modelPkg: r.Bool(), resolver: resolvers[(ci+rot)%4], kind: "cover-one"}
			if err := p.write(root); err != nil {
				fail(err)
			}
			n++
		}
	}
	// ---- seeded cover 2: as many classes at once as fit (three partitions of the universe), layout x flavour, the
	// boolean options spread
	for si, set := range fkCoverSets {
		for k := 0; k < 4; k++ {
			funcSyn, follow := k >= 2, k == 1 || k == 2
			// quick: the first partition under both layouts (flavours crossed), the others under follow-schema with
			// alternating flavour
			if tier != "thorough" && ((si == 0 && k%2 == 1) || (si > 0 && !(follow && funcSyn == (si%2 == 0)))) {
				continue
			}
			p := &fkProject{name: fmt.Sprintf("c17f%03d_all%d_%s", n, si, sfx(funcSyn, follow)), classes: set, funcSyn: funcSyn, follow: follow, cfg: spreadOptions(k+si, off),
				opts: map[string]bool{"first": r.Bool(), "glob": r.Below(3) == 0, "template": follow && r.Bool()}, modelPkg: r.Bool(), resolver: resolvers[(k+si+rot)%4], kind: "cover-all"}
			if err := p.write(root); err != nil {
				fail(err)
			}
			n++
		}
	}
	// ---- thorough: random compatible subsets x random configuration points, as a layout pair each
	if tier == "thorough" {
		for x := 0; x < 12; x++ {
			claimed := map[string]bool{}
			var cls []string
			perm := make([]int, len(fkClassOrder))
			for i := range perm {
				perm[i] = i
			}
			for i := len(perm) - 1; i > 0; i-- {
				j := r.Below(i + 1)
				perm[i], perm[j] = perm[j], perm[i]
			}
			want := 1 + r.Below(6)
			for _, i := range perm {
				c := fkClassOrder[i]
				ok := true
				for _, d := range fkClasses[c] {
					if claimed[d] {
						ok = false
					}
				}
				if !ok || len(cls) >= want {
					continue
				}
				for _, d := range fkClasses[c] {
					claimed[d] = true
				}
				cls = append(cls, c)
			}
			cfg := map[string]string{}
			for _, o := range boolOptions {
				switch r.Below(3) {
				case 0:
					cfg[o] = "true"
				case 1:
					cfg[o] = "false"
				}
			}
			opts := map[string]bool{"first": r.Bool(), "glob": r.Below(3) == 0, "template": r.Bool()}
			funcSyn, modelPkg, res := r.Bool(), r.Bool(), resolvers[r.Below(4)]
			for _, follow := range []bool{false, true} {
				o2 := map[string]bool{"first": opts["first"], "glob": opts["glob"], "template": opts["template"] && follow}
				p := &fkProject{name: fmt.Sprintf("c17f%03d_rnd_%s", n, sfx(funcSyn, follow)), classes: cls, funcSyn: funcSyn, follow: follow, cfg: cfg,
					opts: o2, modelPkg: modelPkg, resolver: res, kind: "random"}
				if err := p.write(root); err != nil {
					fail(err)
				}
				n++
			}
		}
	}
}
