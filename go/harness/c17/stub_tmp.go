package main

func runSchemas(outDir string, n int, seed uint64, tier string) {}
func runDecls(dir string) int                                  { return 0 }
