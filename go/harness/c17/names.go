package main

import (
	"fmt"
	"go/token"
	"go/types"
	"strings"

	"github.com/99designs/gqlgen/codegen/templates"
	"verifharness/internal/rng"
)

// safe runs f and turns a panic into an observable outcome.
func safe(f func() string) (res string) {
	defer func() {
		if r := recover(); r != nil {
			res = "PANIC:" + strings.ReplaceAll(fmt.Sprint(r), "\t", " ")
		}
	}()
	return f()
}

var lowerWords = []string{"foo", "bar", "user", "name", "a", "b", "x", "id", "ip", "url", "api", "http", "uuid", "ids", "urls", "json", "utf8", "qr", "vm", "ui", "uid"}
var upperWords = []string{"FOO", "BAR", "A", "B", "ID", "IP", "URL", "API", "HTTP", "HTTPS", "UUID", "JSON", "UTF8", "QR", "VM", "UI", "UID", "ACL", "XSS", "SQL", "AWS", "GCP", "KVK", "I", "D", "P"}
var mixedWords = []string{"Foo", "Bar", "User", "Id", "Ip", "Url", "Api", "Ids", "IDs", "URLs", "IPs", "IPv4", "IDFoo", "IPAddr", "IDX", "IDXy", "IDXYz", "IPAB", "iPhone", "ITicket", "FOo", "fOO", "Http", "UTF8s"}
var goKeywords = []string{"break", "default", "func", "interface", "select", "case", "defer", "go", "map", "struct", "chan", "else", "goto", "package", "switch", "const", "fallthrough", "if", "range", "type", "continue", "for", "import", "return", "var"}
var predeclared = []string{"any", "bool", "byte", "comparable", "complex128", "error", "float64", "int", "int64", "rune", "string", "uint", "uintptr", "true", "false", "iota", "nil", "append", "cap", "clear", "close", "copy", "delete", "len", "make", "max", "min", "new", "panic", "print", "recover"}
var seps = []string{"_", "__", "_", "", "", "", "___"}
var digits = []string{"1", "2", "12", "0", "42", "007"}

func randName(r *rng.R) string {
	var b strings.Builder
	if r.Below(6) == 0 {
		b.WriteString(seps[r.Below(3)])
	}
	k := 1 + r.Below(4)
	for i := 0; i < k; i++ {
		switch r.Below(9) {
		case 0, 1:
			b.WriteString(lowerWords[r.Below(len(lowerWords))])
		case 2, 3:
			b.WriteString(upperWords[r.Below(len(upperWords))])
		case 4, 5:
			b.WriteString(mixedWords[r.Below(len(mixedWords))])
		case 6:
			b.WriteString(digits[r.Below(len(digits))])
		case 7:
			b.WriteString(goKeywords[r.Below(len(goKeywords))])
		case 8:
			b.WriteString(predeclared[r.Below(len(predeclared))])
		}
		if i+1 < k {
			b.WriteString(seps[r.Below(len(seps))])
		}
	}
	if r.Below(6) == 0 {
		b.WriteString(seps[r.Below(3)])
	}
	return b.String()
}

// malformed stream: arbitrary printable ASCII incl. '-', ' ', tabs and punctuation (not GraphQL names)
func randASCII(r *rng.R) string {
	const alpha = "abzABZ019_-  \t\n.:/$~IDPiduUrRlL"
	k := r.Below(9)
	b := make([]byte, k)
	for i := range b {
		b[i] = alpha[r.Below(len(alpha))]
	}
	return string(b)
}

func emitName(class, s string) {
	g := safe(func() string { return templates.ToGo(s) })
	p := safe(func() string { return templates.ToGoPrivate(s) })
	fmt.Fprintf(out, "n\t%s\t%s\t%s\t%s\n", class, hx(s), hx(g), hx(p))
}

// ---- ToGoModelName sequences ----

var collide = []string{"foo", "Foo", "FOO", "foo_", "_foo", "foo0", "Foo0", "foo_0", "Foo00", "foo_bar", "fooBar", "FOO_BAR", "Foo_Bar", "FooBar",
	"a", "A", "a_", "A0", "id", "ID", "Id", "E", "e", "EFoo", "E_foo", "bar", "Bar", "BAR", "foo1", "Foo1", "Foo_1", "foo_1", "Foo__1"}

func emitCalls(class string, private bool, calls [][]string) {
	templates.ResetModelNamesForVerif()
	var ins, outs []string
	for _, c := range calls {
		hs := make([]string, len(c))
		for i, p := range c {
			hs[i] = hx(p)
		}
		ins = append(ins, strings.Join(hs, ","))
		res := safe(func() string {
			if private {
				return templates.ToGoPrivateModelName(c...)
			}
			return templates.ToGoModelName(c...)
		})
		outs = append(outs, hx(res))
	}
	// distinct-key mask: which calls introduce a new key (names of those must be pairwise distinct)
	seen := map[string]bool{}
	var fresh []string
	for i, c := range calls {
		k := strings.Join(c, ":")
		if !seen[k] {
			seen[k] = true
			fresh = append(fresh, outs[i])
		}
	}
	pp := "T"
	if private {
		pp = "P"
	}
	fmt.Fprintf(out, "m\t%s\t%s\t%s\t%s\t%s\n", class, pp, strings.Join(ins, ";"), strings.Join(outs, ";"), strings.Join(fresh, ";"))
	templates.ResetModelNamesForVerif()
}

// ---- TypeIdentifier ----

var pkgPaths = []string{"github.com/99designs/gqlgen/graphql", "example.com/a-b/c.d", "time", "a/b~c", "x.y/z-w/v2", "m"}
var typeNames = []string{"Foo", "Time", "ID", "foo_bar", "T1", "String"}
var basics = []types.BasicKind{types.Bool, types.Int, types.Int64, types.String, types.Float64, types.Uint32}

func randType(r *rng.R, depth int) (types.Type, string) {
	if depth > 0 && r.Below(3) != 0 {
		t, e := randType(r, depth-1)
		if r.Bool() {
			return types.NewPointer(t), "p," + e
		}
		return types.NewSlice(t), "s," + e
	}
	switch r.Below(8) {
	case 0:
		return types.NewMap(types.Typ[types.String], types.NewInterfaceType(nil, nil)), "m"
	case 1:
		return types.NewInterfaceType(nil, nil), "i"
	case 2, 3:
		b := types.Typ[basics[r.Below(len(basics))]]
		return b, "b" + hx(b.Name())
	default:
		p := pkgPaths[r.Below(len(pkgPaths))]
		n := typeNames[r.Below(len(typeNames))]
		pkg := types.NewPackage(p, "x")
		tn := types.NewTypeName(token.NoPos, pkg, n, nil)
		return types.NewNamed(tn, types.NewStruct(nil, nil), nil), "n" + hx(p) + "." + hx(n)
	}
}

func runNames(tier string, seed uint64) {
	r := rng.New(seed)
	// directed: the documented tables, keywords, predeclared names, every initialism in three casings
	for _, s := range []string{"", "_", "__", "___", "_1", "_1a", "__1", "1", "1a", "a_1", "a1_2", "1_2", "1__2", "a_1_2", "a1__2b", "1_a", "_a", "a_", "_a_", "__a__b__",
		"id", "ID", "Id", "iD", "ids", "IDs", "IDS", "IDFoo", "IDfoo", "IDFOO", "IDFOo", "IPAddr", "IPAD", "IPAd", "IPADd", "IDXYz", "IDxYZ", "fooID", "fooId", "foo_id", "FooIDBar", "fooIDs",
		"URLs", "URLS", "urls", "Urls", "HTTPSServer", "HTTPServer", "httpServer", "UTF8", "utf8", "Utf8", "UTF8String", "utf8_string", "ACLs", "fooACL", "QRCode", "qrCode", "VMs", "UIDs", "UID",
		"CAMEL", "camelCase", "CamelCase", "iPhone", "ITicket", "FOo", "fOO", "fOo", "foo bar", "foo-bar", "foo - bar", " foo", "1-2", "1 - 2", "1 _2", "a-1-2",
		"Query", "Mutation", "Subscription", "ctx", "obj", "ec", "String", "Int", "Float", "Boolean"} {
		emitName("directed", s)
	}
	for _, s := range goKeywords {
		emitName("keyword", s)
		emitName("keyword", strings.ToUpper(s))
		emitName("keyword", strings.ToUpper(s[:1])+s[1:])
		emitName("keyword", "_"+s)
		emitName("keyword", s+"_")
		emitName("keyword", s+"Arg")
	}
	for _, s := range templates.KeywordsForVerif() {
		emitName("keyword-table", s)
	}
	for _, s := range predeclared {
		emitName("predeclared", s)
	}
	for k := range templates.CommonInitialisms {
		_ = k
	}
	inits := make([]string, 0, len(templates.CommonInitialisms))
	for k := range templates.CommonInitialisms {
		inits = append(inits, k)
	}
	sortStrings(inits)
	for _, k := range inits {
		lo := strings.ToLower(k)
		for _, s := range []string{k, lo, k[:1] + lo[1:], k + "s", k + "S", k + "Foo", k + "foo", "foo" + k, "foo_" + lo, lo + "_foo", k + "FOO", k + "FOo", "x" + k + "Y", k + k, k + "1", lo + "1"} {
			emitName("initialism", s)
		}
	}
	// exhaustive small: every string over a 9-letter alphabet up to length L
	alpha := []byte("aBID_1dP-")
	L := 4
	if tier == "thorough" {
		L = 6
	}
	var rec func(prefix []byte)
	rec = func(prefix []byte) {
		if len(prefix) > 0 {
			emitName("exhaustive", string(prefix))
		}
		if len(prefix) == L {
			return
		}
		for _, c := range alpha {
			rec(append(prefix, c))
		}
	}
	rec(nil)
	nRand := 4000
	if tier == "thorough" {
		nRand = 60000
	}
	for i := 0; i < nRand; i++ {
		emitName("random", randName(r))
	}
	for i := 0; i < nRand/4; i++ {
		emitName("malformed", randASCII(r))
	}

	// ---- registry sequences ----
	emitCalls("directed", false, [][]string{{"MyEnumName", "Value"}, {"MyEnumName", "value"}, {"MyEnumName", "vALue"}, {"MyEnumName", "VALue"}})
	emitCalls("directed", false, [][]string{{"foo"}, {"Foo"}, {"FOO"}, {"foo"}, {"Foo0"}, {"foo0"}, {"Foo00"}})
	emitCalls("directed", false, [][]string{{"E", "foo_bar"}, {"E", "fooBar"}, {"E", "FOO_BAR"}, {"E", "FooBar"}, {"E", "Foo_Bar"}, {"EFoo", "Bar"}, {"EFooBar"}})
	emitCalls("directed", true, [][]string{{"foo"}, {"Foo"}, {"type"}, {"Type"}, {"typeArg"}, {"_"}})
	emitCalls("directed", false, [][]string{{}, {}, {""}, {"", ""}, {"_"}, {"_", "_"}, {"__"}})
	nSeq := 600
	if tier == "thorough" {
		nSeq = 8000
	}
	for i := 0; i < nSeq; i++ {
		k := 2 + r.Below(12)
		calls := make([][]string, k)
		for j := range calls {
			np := 1
			switch r.Below(5) {
			case 0, 1:
				np = 2
			case 2:
				np = 3
			}
			c := make([]string, np)
			for q := range c {
				if r.Below(8) == 0 {
					c[q] = randName(r)
				} else {
					c[q] = collide[r.Below(len(collide))]
				}
			}
			calls[j] = c
		}
		emitCalls("random", r.Below(4) == 0, calls)
	}

	// ---- TypeIdentifier ----
	nT := 400
	if tier == "thorough" {
		nT = 4000
	}
	for i := 0; i < nT; i++ {
		t, enc := randType(r, r.Below(5))
		res := safe(func() string { return templates.TypeIdentifier(t) })
		fmt.Fprintf(out, "t\t%s\t%s\n", enc, hx(res))
	}
}

func sortStrings(a []string) {
	for i := 1; i < len(a); i++ {
		for j := i; j > 0 && a[j] < a[j-1]; j-- {
			a[j], a[j-1] = a[j-1], a[j]
		}
	}
}
