package main

import (
	_ "embed"
	"bufio"
	"encoding/hex"
	"fmt"
	"os"
	"path/filepath"
	"sort"
	"strings"

	"verifharness/internal/rng"
)

// "Bindings" projects (c17b*): the generator dimension HOW A LEAF TYPE IS BOUND. Custom scalars and enums bound
// through `models:` to a hand-written package (bindext.go.txt, copied into the project as ext/) - function pairs
// Marshal<X>/Unmarshal<X> (plain, context, pointer targets) and MarshalGQL/UnmarshalGQL(+Context) methods - over
// Go types of every shape: unnamed slices ([]byte, []string, []int, [][]byte), named slices (own and
// json.RawMessage), maps, structs, pointers, arrays, named and plain basic types, `any`. Each bound type is used
// in output position, argument position and as input-object field, bare and under every list / non-null
// wrapper up to depth 2. Beyond "generates and compiles", the generated server is EXECUTED (bindrun.go.txt):
// the response must have the shape of the GraphQL type with every leaf written by the bound function called
// once on the whole value (Spec side of Model/TypeRef.lean).

//go:embed bindext.go.txt
var bindExtSrc string

//go:embed bindrun.go.txt
var bindRunSrc string

type shape struct {
	name   string // GraphQL type name = suffix of the bound Go name
	enum   bool
	domain string // literals the binding round-trips: any | int | bool | str | enum
	tagged bool   // the bound marshaller writes "<name>|<text>" (cast bindings write the bare text)
	goT    string // the bound Go type (Target) in the encoding of the Lean driver / typerefs mode
	note   string
}

// goT encoding, outermost first: s=slice p=pointer n=named(underlying follows) b=basic m=map t=struct a=array i=interface
var shapes = []shape{
	{"FBytes", false, "any", true, "s,b", "func pair over []byte"},
	{"FStrs", false, "any", true, "s,b", "func pair over []string"},
	{"FInts", false, "any", true, "s,b", "func pair over []int"},
	{"FRaw", false, "any", true, "n,s,b", "func pair over json.RawMessage"},
	{"FNBytes", false, "any", true, "n,s,b", "func pair over a named slice"},
	{"FMap", false, "any", true, "m", "func pair over map[string]string"},
	{"FNMap", false, "any", true, "n,m", "func pair over a named map"},
	{"FBox", false, "any", true, "n,t", "func pair over a struct"},
	{"FPBox", false, "any", true, "p,n,t", "func pair over a pointer to struct"},
	{"FNArr", false, "any", true, "n,a", "func pair over a named array"},
	{"FStr", false, "any", true, "b", "func pair over string"},
	{"FNStr", false, "any", true, "n,b", "func pair over a named string"},
	{"FAny", false, "any", true, "i", "func pair over any"},
	{"FBB", false, "any", true, "s,s,b", "func pair over [][]byte"},
	{"FPStr", false, "any", true, "p,b", "func pair over *string"},
	{"FI64", false, "int", true, "b", "func pair over int64"},
	{"FCels", false, "int", true, "n,b", "func pair over a named float64"},
	{"FDur", false, "int", true, "n,b", "func pair over time.Duration"},
	{"FPCels", false, "int", true, "p,n,b", "func pair over a pointer to a named float64"},
	{"FBool", false, "bool", true, "b", "func pair over bool"},
	{"FCBytes", false, "any", true, "s,b", "context func pair over []byte"},
	{"FCStr", false, "any", true, "b", "context func pair over string"},
	{"MBytes", false, "any", true, "n,s,b", "methods on a named []byte"},
	{"MStrs", false, "any", true, "n,s,b", "methods on a named []string"},
	{"MMap", false, "any", true, "n,m", "methods on a named map"},
	{"MBox", false, "any", true, "n,t", "methods on a struct"},
	{"MArr", false, "any", true, "n,a", "methods on a named array"},
	{"MStr", false, "any", true, "n,b", "methods on a named string"},
	{"MInt", false, "int", true, "n,b", "methods on a named int"},
	{"MFlt", false, "int", true, "n,b", "methods on a named float64"},
	{"MBool", false, "bool", true, "n,b", "methods on a named bool"},
	{"MCBytes", false, "any", true, "n,s,b", "context methods on a named []byte"},
	{"MCStr", false, "any", true, "n,b", "context methods on a named string"},
	{"CStr", false, "str", false, "n,b", "named string without methods (cast binding)"},
	{"EMColor", true, "enum", true, "n,b", "enum: methods on a named string"},
	{"EMSlice", true, "enum", true, "n,s,b", "enum: methods on a named []string"},
	{"EFBytes", true, "enum", true, "s,b", "enum: func pair over []byte"},
	{"CColor", true, "enum", false, "n,b", "enum: named string without methods (cast binding)"},
}

// directed only (never in the seeded cover): a function pair over a pointer to an unnamed slice, and over an
// unnamed array (known finding F17g: templates.TypeIdentifier panics on *types.Array)
var exoticShapes = []shape{
	{"FPBytes", false, "any", true, "p,s,b", "func pair over *[]byte"},
	{"FArr", false, "any", true, "a", "func pair over [2]string"},
}

func shapeByName(n string) (shape, bool) {
	for _, s := range shapes {
		if s.name == n {
			return s, true
		}
	}
	for _, s := range exoticShapes {
		if s.name == n {
			return s, true
		}
	}
	return shape{}, false
}

// ---------------------------------------------------------------- GraphQL type wrappers
// a wrapper is a list of levels, outermost first: 'L'/'l' = list non-null/nullable, then 'N'/'n' = the named type
var wrappers = []string{"n", "N", "ln", "lN", "Ln", "LN", "lln", "LLN"}

func gqlOf(w, name string) string {
	var rec func(i int) string
	rec = func(i int) string {
		switch w[i] {
		case 'n':
			return name
		case 'N':
			return name + "!"
		case 'l':
			return "[" + rec(i+1) + "]"
		default:
			return "[" + rec(i+1) + "]!"
		}
	}
	return rec(0)
}

// encoding for the Lean driver: L1,L0,N1:<tag>
func gtypeEnc(w, tag string) string {
	var p []string
	for _, c := range w {
		switch c {
		case 'l':
			p = append(p, "L0")
		case 'L':
			p = append(p, "L1")
		case 'n':
			p = append(p, "N0:"+tag)
		case 'N':
			p = append(p, "N1:"+tag)
		}
	}
	return strings.Join(p, ",")
}

// ---------------------------------------------------------------- literals
type lit struct {
	text string // GraphQL literal
	val  string // raw value for the Lean Spec: n | a<hex canonical text> | l<k>,<k values>
}

func atom(text, canon string) lit { return lit{text, "a" + hex.EncodeToString([]byte(canon))} }
func list(xs ...lit) lit {
	t := make([]string, len(xs))
	v := []string{fmt.Sprintf("l%d", len(xs))}
	for i, x := range xs {
		t[i] = x.text
		v = append(v, x.val)
	}
	return lit{"[" + strings.Join(t, ", ") + "]", strings.Join(v, ",")}
}

var nullLit = lit{"null", "n"}

func leafLits(domain string) []lit {
	switch domain {
	case "int":
		return []lit{atom("12", "12"), atom("0", "0"), atom("-5", "-5"), atom(`"34"`, "34")}
	case "bool":
		return []lit{atom("true", "true"), atom("false", "false")}
	case "str":
		return []lit{atom(`"ab"`, "ab"), atom(`"q7"`, "q7")}
	case "enum":
		return []lit{atom("RED", "RED"), atom("GREEN", "GREEN")}
	}
	return []lit{
		atom(`"ab"`, "ab"), atom(`"q7"`, "q7"), atom("12", "12"), atom("true", "true"),
		list(atom(`"a"`, "a"), atom(`"b"`, "b")), // a LIST literal given to a named type: one value, never two
		list(),
		list(list(atom(`"x"`, "x")), atom(`"y"`, "y")),
		atom(`{k: "v"}`, "{k:v}"),
	}
}

// genLit builds a literal for wrapper w[i:]: mode 0 = full (lists of 2), 1 = nulls wherever allowed,
// 2 = a single value where a list is expected (input coercion), 3 = empty / one-element lists
func genLit(r *rng.R, w string, i int, domain string, mode int) lit {
	leaves := leafLits(domain)
	switch w[i] {
	case 'n', 'N':
		if w[i] == 'n' && mode == 1 && r.Below(2) == 0 {
			return nullLit
		}
		return leaves[r.Below(len(leaves))]
	}
	nullable := w[i] == 'l'
	switch mode {
	case 1:
		if nullable && r.Below(3) == 0 {
			return nullLit
		}
	case 2:
		// only a non-list value coerces; a list literal would be read as the list itself
		for k := 0; k < 8; k++ {
			x := genLit(r, w, len(w)-1, domain, 0)
			if !strings.HasPrefix(x.val, "l") {
				return x
			}
		}
		return genLit(r, w, len(w)-1, "str", 0)
	case 3:
		if r.Bool() {
			return list()
		}
		return list(genLit(r, w, i+1, domain, mode))
	}
	return list(genLit(r, w, i+1, domain, mode), genLit(r, w, i+1, domain, mode))
}

// fillVal: the value the runner's reflection filler produces for an output position (lists of 2, leaf = the sample)
func fillVal(w string, i int) string {
	switch w[i] {
	case 'n', 'N':
		return "S"
	}
	x := fillVal(w, i+1)
	return "l2," + x + "," + x
}

// ---------------------------------------------------------------- project
type bindProject struct {
	name   string
	shapes []shape
	deep   map[string]string // shape -> its one depth-2 wrapper (F17f: only one per base type)
	yml    string
	schema string
	cases  []string
	kind   string
}

var bindOpts = []string{"omit_slice_element_pointers", "struct_fields_always_pointers", "return_pointers_in_unmarshalinput",
	"use_function_syntax_for_execution_context", "resolvers_always_return_pointers", "omit_getters", "omit_complexity"}

func genBindProject(r *rng.R, name string, sh []shape, kind string) *bindProject {
	p := &bindProject{name: name, shapes: sh, deep: map[string]string{}, kind: kind}
	var b, q strings.Builder
	caseN := 0
	addCase := func(query string, checks ...string) {
		p.cases = append(p.cases, fmt.Sprintf("k%d\t%s\t%s", caseN, query, strings.Join(checks, "\t")))
		caseN++
	}
	for j, s := range sh {
		if s.enum {
			fmt.Fprintf(&b, "enum %s { RED GREEN }\n", s.name)
		} else {
			fmt.Fprintf(&b, "scalar %s\n", s.name)
		}
		ws := append([]string{}, wrappers[:6]...)
		deep := wrappers[6+r.Below(2)]
		p.deep[s.name] = deep
		ws = append(ws, deep)
		fmt.Fprintf(&b, "input In%d {\n", j)
		for k, w := range ws {
			fmt.Fprintf(&b, "  f%d: %s\n", k, gqlOf(w, s.name))
		}
		fmt.Fprintf(&b, "}\ntype Out%d {\n", j)
		for k, w := range ws {
			fmt.Fprintf(&b, "  f%d: %s\n", k, gqlOf(w, s.name))
		}
		b.WriteString("}\n")
		tag := s.name
		if !s.tagged {
			tag = "-"
		}
		for k, w := range ws {
			g := gqlOf(w, s.name)
			fmt.Fprintf(&q, "  o%dx%d: %s\n  e%dx%d(v: %s): %s\n", j, k, g, j, k, g, g)
			ge := gtypeEnc(w, tag)
			addCase(fmt.Sprintf("{ r: o%dx%d }", j, k), fmt.Sprintf("r=%s=%s=%s=out", ge, fillVal(w, 0), s.name))
			modes := []int{0, 1}
			if len(w) > 1 {
				modes = []int{0, 1, 2, 3}
			}
			for _, m := range modes {
				l := genLit(r, w, 0, s.domain, m)
				if w[0] == 'n' && m == 1 {
					l = nullLit
				}
				addCase(fmt.Sprintf("{ r: e%dx%d(v: %s) }", j, k, l.text), fmt.Sprintf("r=%s=%s=%s=arg", ge, l.val, s.name))
			}
		}
		fmt.Fprintf(&q, "  i%d(in: In%d!): Out%d!\n", j, j, j)
		for _, m := range []int{0, 1, 2} {
			var fs, sel, checks []string
			for k, w := range ws {
				mm := m
				if len(w) == 1 && m == 2 {
					mm = 0
				}
				l := genLit(r, w, 0, s.domain, mm)
				fs = append(fs, fmt.Sprintf("f%d: %s", k, l.text))
				sel = append(sel, fmt.Sprintf("f%d", k))
				checks = append(checks, fmt.Sprintf("r.f%d=%s=%s=%s=input-field", k, gtypeEnc(w, tag), l.val, s.name))
			}
			addCase(fmt.Sprintf("{ r: i%d(in: {%s}) { %s } }", j, strings.Join(fs, ", "), strings.Join(sel, " ")), checks...)
		}
	}
	p.schema = b.String() + "type Query {\n" + q.String() + "}\n"

	var y strings.Builder
	y.WriteString("schema:\n  - schema.graphql\nexec:\n")
	if r.Below(3) == 0 {
		fmt.Fprintf(&y, "  layout: follow-schema\n  dir: .\n  package: %s\n", name)
	} else {
		y.WriteString("  filename: generated.go\n")
	}
	y.WriteString("model:\n")
	if r.Bool() {
		y.WriteString("  filename: model/models_gen.go\n  package: model\n")
	} else {
		y.WriteString("  filename: models_gen.go\n")
	}
	y.WriteString("skip_mod_tidy: true\n")
	for _, o := range bindOpts {
		switch r.Below(3) {
		case 0:
			fmt.Fprintf(&y, "%s: true\n", o)
		case 1:
			fmt.Fprintf(&y, "%s: false\n", o)
		}
	}
	y.WriteString("models:\n")
	for _, s := range sh {
		fmt.Fprintf(&y, "  %s:\n    model: verifharness/genout/c17/%s/ext.%s\n", s.name, name, s.name)
	}
	p.yml = y.String()
	return p
}

func (p *bindProject) write(root string) error {
	d := filepath.Join(root, p.name)
	for _, sub := range []string{"", "ext", "run"} {
		if err := os.MkdirAll(filepath.Join(d, sub), 0o755); err != nil {
			return err
		}
	}
	run := strings.ReplaceAll(bindRunSrc, "EXECPKG", "verifharness/genout/c17/"+p.name)
	run = strings.ReplaceAll(run, "EXTPKG", "verifharness/genout/c17/"+p.name+"/ext")
	var man []string
	for _, s := range p.shapes {
		man = append(man, fmt.Sprintf("%s\t%s\t%s\t%s", s.name, s.goT, p.deep[s.name], s.note))
	}
	files := map[string]string{
		"schema.graphql": p.schema, "gqlgen.yml": p.yml, "ext/ext.go": bindExtSrc, "run/main.go": run,
		"cases.tsv": strings.Join(p.cases, "\n") + "\n", "shapes.tsv": strings.Join(man, "\n") + "\n",
	}
	for f, c := range files {
		if err := os.WriteFile(filepath.Join(d, f), []byte(c), 0o644); err != nil {
			return err
		}
	}
	names := make([]string, len(p.shapes))
	for i, s := range p.shapes {
		names[i] = s.name
	}
	fmt.Fprintf(out, "project\t%s\tbindings kind=%s shapes=%s cases=%d\n", p.name, p.kind, strings.Join(names, ","), len(p.cases))
	return nil
}

// writeBindings: (1) the directed corpus (corpus/C17/bindings.txt: `<name> <shape>,<shape>,…`), (2) a systematic
// cover - every shape of the catalogue in some project, whatever the seed - in projects of `per` shapes whose
// grouping and configuration are seeded, (3) in the thorough tier, extra projects of random shape subsets.
func writeBindings(root string, seed uint64, tier, corpus string) {
	r := rng.New(seed ^ 0xB17D17)
	fail := func(err error) {
		fmt.Fprintln(os.Stderr, err)
		out.Flush()
		os.Exit(1)
	}
	if corpus != "" {
		f, err := os.Open(corpus)
		if err != nil {
			fail(err)
		}
		sc := bufio.NewScanner(f)
		for sc.Scan() {
			line := strings.TrimSpace(sc.Text())
			if line == "" || strings.HasPrefix(line, "#") {
				continue
			}
			fs := strings.Fields(line)
			if len(fs) < 2 {
				fail(fmt.Errorf("corpus line %q: want `<name> <shapes>`", line))
			}
			var sh []shape
			for _, n := range strings.Split(fs[1], ",") {
				s, ok := shapeByName(n)
				if !ok {
					fail(fmt.Errorf("corpus line %q: unknown shape %s", line, n))
				}
				sh = append(sh, s)
			}
			if err := genBindProject(rng.New(0xC0+uint64(len(fs[0]))), "c17b_"+fs[0], sh, "directed").write(root); err != nil {
				fail(err)
			}
		}
		f.Close()
	}
	per := 5
	order := make([]int, len(shapes))
	for i := range order {
		order[i] = i
	}
	for i := len(order) - 1; i > 0; i-- {
		j := r.Below(i + 1)
		order[i], order[j] = order[j], order[i]
	}
	n := 0
	for i := 0; i < len(order); i += per {
		var sh []shape
		for _, k := range order[i:min(i+per, len(order))] {
			sh = append(sh, shapes[k])
		}
		sort.Slice(sh, func(a, b int) bool { return sh[a].name < sh[b].name })
		if err := genBindProject(r.Fork(), fmt.Sprintf("c17b%03d", n), sh, "cover").write(root); err != nil {
			fail(err)
		}
		n++
	}
	if tier == "thorough" {
		for x := 0; x < 16; x++ {
			k := 2 + r.Below(6)
			seen := map[int]bool{}
			var sh []shape
			for len(sh) < k {
				i := r.Below(len(shapes))
				if !seen[i] {
					seen[i] = true
					sh = append(sh, shapes[i])
				}
			}
			if err := genBindProject(r.Fork(), fmt.Sprintf("c17b%03d", n), sh, "random").write(root); err != nil {
				fail(err)
			}
			n++
		}
	}
}
